import Driver.Ser
open Driver

def main : IO UInt32 := do
  runComponent Ser.init Ser.step
  return 0
