-- stub: component `ser` not built yet
def main : IO UInt32 := do
  IO.eprintln "driver-ser: not implemented"
  return 2
