import Driver.Pb
open Driver

def main : IO UInt32 := do
  runComponent Pb.init Pb.step
  return 0
