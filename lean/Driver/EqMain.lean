-- stub: component `eq` not built yet
def main : IO UInt32 := do
  IO.eprintln "driver-eq: not implemented"
  return 2
