import Driver.Eq
open Driver

def main : IO UInt32 := do
  runComponent () Eq.step
  return 0
