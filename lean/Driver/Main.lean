import Driver.Pb
open Driver

def main (args : List String) : IO UInt32 := do
  match args with
  | ["pb"] => runComponent Pb.init Pb.step; return 0
  | _ => IO.eprintln "usage: driver <component>"; return 2
