-- stub: component `thr` not built yet
def main : IO UInt32 := do
  IO.eprintln "driver-thr: not implemented"
  return 2
