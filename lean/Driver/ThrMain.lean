import Driver.Thr
open Driver

def main : IO UInt32 := do
  runComponent Thr.init Thr.step
  return 0
