import Driver.Common
import JsonC.Model.Heap
import JsonC.Spec.Ownership
/-! heap component (C05): reference-count model (JsonC.Heap) and ownership spec (JsonC.Ownership)
side by side.

Line format (same as harness/heap.c):
  `<ret> made=<id|-> cb=[<id>.<tok>[!] sorted] freed=[<id> sorted] ## order=[callbacks as they ran] live=[<id>:<rc>:u<tok|->:<body> ...] mem=<blocks>`
-/
namespace Driver.Heap
open JsonC JsonC.Heap Driver

structure St where
  m : Option State                    -- none after a model fault / misuse
  w : Option Ownership.World            -- none once the spec stopped following
  nomem : Bool := false               -- "nomem": the per-line block balance is not compared (constant-key members)

def init : St := ⟨some JsonC.Heap.init, some {}, false⟩

def parseVal (s : String) : Option (Option Id) :=
  if s = "-" then some none else s.toNat?.map some

/-- split at '/' -/
def splitSlash (bs : Bytes) : List Bytes :=
  let (cur, acc) := bs.foldl (fun (st : Bytes × List Bytes) b =>
    if b = 47 then ([], st.2 ++ [st.1]) else (st.1 ++ [b], st.2)) ([], [])
  acc ++ [cur]

def parseOp : List String → Option Op
  | ["newo"] => some .newObject
  | ["newa"] => some .newArray
  | ["news"] => some (.newScalar .string)
  | ["newi"] => some (.newScalar .int)
  | ["newd"] => some (.newScalar .double)
  | ["newb"] => some (.newScalar .boolean)
  | ["get", i] => i.toNat?.map .get
  | ["put", i] => i.toNat?.map .put
  | ["oadd", p, k, v, o] => do
      let o ← o.toNat?
      pure (.objAdd (← p.toNat?) (← ofHex k) (← parseVal v) (o &&& Generated.objectAddKeyIsNew != 0))
  | ["odel", p, k] => do pure (.objDel (← p.toNat?) (← ofHex k))
  | ["aadd", p, v] => do pure (.arrAdd (← p.toNat?) (← parseVal v))
  | ["aput", p, i, v] => do pure (.arrPut (← p.toNat?) (← i.toNat?) (← parseVal v))
  | ["ains", p, i, v] => do pure (.arrIns (← p.toNat?) (← i.toNat?) (← parseVal v))
  | ["adel", p, i, c] => do pure (.arrDel (← p.toNat?) (← i.toNat?) (← c.toNat?))
  | ["setud", i, t] => do pure (.setUserdata (← i.toNat?) (← parseVal t))
  | ["setser", i, t] => do pure (.setSerializer (← i.toNat?) (← parseVal t))
  | ["setserp", i, t] => do pure (.setSerializer (← i.toNat?) (← parseVal t))
  | ["setserd", i, t] => do pure (.setSerializer (← i.toNat?) (← parseVal t))
  | ["copy", s, f] => do pure (.deepCopy (← s.toNat?) (← parseVal f))
  | ["ptrset", r, path, v] => do
      -- the pointer text in hex; reference tokens are what lies between the '/' (no `~` escapes generated)
      let bs ← ofHex path
      let toks ← match bs with
        | [] => some []
        | 47 :: rest => some (splitSlash rest)
        | _ => none
      pure (.ptrSet (← r.toNat?) toks (← parseVal v))
  | _ => none

def sortNat (l : List Nat) : List Nat := (l.toArray.qsort (· < ·)).toList

def cbStr (c : Id × Nat × Bool) : String :=
  toString c.1 ++ "." ++ toString c.2.1 ++ (if c.2.2 then "!" else "")

def cbLt (a b : Id × Nat × Bool) : Bool :=
  a.1 < b.1 || (a.1 == b.1 && (a.2.1 < b.2.1 || (a.2.1 == b.2.1 && (!a.2.2 && b.2.2))))

def sortCb (l : List (Id × Nat × Bool)) : List (Id × Nat × Bool) := (l.toArray.qsort cbLt).toList

def bracket (xs : List String) : String := "[" ++ ",".intercalate xs ++ "]"

def valStr : Option Id → String
  | none => "-"
  | some i => toString i

def specLine (ret : Int) (made : Option Id) (cbs : List (Id × Nat × Bool)) (dead : List Id) : String :=
  s!"{ret} made={valStr made} cb={bracket ((sortCb cbs).map cbStr)} freed={bracket ((sortNat dead).map toString)}"

def bodyStr : Body → String
  | .scalar .string => "s"
  | .scalar .int => "i"
  | .scalar .double => "d"
  | .scalar .boolean => "b"
  | .arr xs => "a" ++ bracket (xs.map valStr)
  | .obj kvs => "o{" ++ ",".intercalate (kvs.map (fun kv => toHex kv.1 ++ "=" ++ valStr kv.2)) ++ "}"

def nodeStr (p : Id × Node) : String :=
  s!"{p.1}:{p.2.rc}:u{valStr p.2.ud}:{bodyStr p.2.body}"

def liveStr (h : JsonC.Heap.Heap) : String :=
  let sorted := (h.toArray.qsort (fun a b => a.1 < b.1)).toList
  "live=[" ++ " ".intercalate (sorted.map nodeStr) ++ "]"

def toCall : Op → Option Ownership.Call
  | .newObject => some (.new (.map []))
  | .newArray => some (.new (.seq []))
  | .newScalar _ => some (.new .leaf)
  | .get i => some (.get i)
  | .put i => some (.put i)
  | .objAdd p k v _ => some (.mapAdd p k v)
  | .objDel p k => some (.mapDel p k)
  | .arrAdd p v => some (.seqAdd p v)
  | .arrPut p i v => some (.seqPut p i v)
  | .arrIns p i v => some (.seqIns p i v)
  | .arrDel p i c => some (.seqDel p i c)
  | .setUserdata i t => some (.setCb i t)
  | .setSerializer i t => some (.setCb i t)
  | .deepCopy _ _ => none
  | .ptrSet _ _ _ => none

/-- json_pointer_set: where the pointer leads is the business of C12; given the container the model's
walk reaches, the ownership effect is that of the corresponding add / put_idx -/
def ptrCall (m : State) (root : Id) (path : List Bytes) (v : Option Id) : Option Ownership.Call :=
  match path.getLast? with
  | none => some (.put root)
  | some last =>
    match ptrParent m root path with
    | none => none
    | some p =>
      match m.heap.get? p with
      | some ⟨_, .arr _, _⟩ =>
        if last = [45] then some (.seqAdd p v) else (validIndex last).map (fun idx => .seqPut p idx v)
      | some ⟨_, .obj _, _⟩ => some (.mapAdd p last v)
      | _ => none

/-- the specification's answer; `none` = the spec leaves the outcome open (or stopped following) -/
def specStep (m : State) (w : Ownership.World) (op : Op) (ret : Int) : Option (Ownership.World × Ownership.Effect) :=
  match op with
  | .ptrSet root path v =>
    match ptrCall m root path v with
    | some call =>
      match call, w.call call with
      | .put _, some (w', e) => some (w', { e with ret := 0 })
      | .seqPut _ idx _, r => if idx + 1 > 2 ^ 40 ∧ !Ownership.idxImpossible idx then none else r
      | _, r => r
    | none => some (w, { ret := -1 })
  | .deepCopy src none => w.deepCopy src
  -- injected shallow-copy failure: whether the k-th shallow copy exists is not the specification's
  -- business; it follows a copy that succeeded and leaves a failed one open
  | .deepCopy src (some _) => if ret = 0 then w.deepCopy src else none
  | .arrPut _ idx _ | .arrIns _ idx _ =>
    -- a request of 2^40 .. 2^61 slots: refused by the allocator, not by the specification
    if idx + 1 > 2 ^ 40 ∧ !Ownership.idxImpossible idx then none else (toCall op).bind w.call
  | _ => (toCall op).bind w.call

def covOf (s : State) (op : Op) (r : Res) : List String :=
  let cascade := if r.dead.length ≥ 2 then ["cascade"] else if r.dead.length = 1 then ["destroy-1"] else []
  let failed := if r.ret < 0 then ["failed"] else []
  let kind := match op with
    | .newObject | .newArray | .newScalar _ => ["new"]
    | .get i => [if s.ext i = 0 then "get-borrowed" else "get"]
    | .put i => [if r.ret = 1 then "put-freed" else if s.heap.indeg i > 0 then "put-still-contained" else "put-still-held"]
    | .objAdd p k v isNew =>
      match s.heap.get? p with
      | some ⟨_, .obj kvs, _⟩ =>
        (match findKey kvs k with
          | none => ["oadd-new"]
          | some old => [if old = v ∧ v.isSome then "oadd-same-node" else "oadd-replace"])
        ++ (if isNew then ["oadd-keyisnew"] else []) ++ (if v.isNone then ["null-value"] else [])
      | _ => ["oadd"]
    | .objDel p k =>
      match s.heap.get? p with
      | some ⟨_, .obj kvs, _⟩ => [if (findKey kvs k).isSome then "odel-present" else "odel-absent"]
      | _ => ["odel"]
    | .arrAdd .. => ["aadd"]
    | .arrPut p idx v =>
      match s.heap.get? p with
      | some ⟨_, .arr xs, _⟩ =>
        [if idx < xs.length then (if xs.getD idx none = v ∧ v.isSome then "aput-same-node" else if (xs.getD idx none).isSome then "aput-over-occupied" else "aput-over-null")
         else if idx = xs.length then "aput-append" else "aput-gap"]
      | _ => ["aput"]
    | .arrIns p idx _ =>
      match s.heap.get? p with
      | some ⟨_, .arr xs, _⟩ => [if idx < xs.length then "ains-shift" else if idx = xs.length then "ains-append" else "ains-gap"]
      | _ => ["ains"]
    | .arrDel _ _ c => [if c = 0 then "adel-0" else if c = 1 then "adel-1" else "adel-range"]
    | .setUserdata i t | .setSerializer i t =>
      [if t.isNone then "setud-clear" else "setud"] ++
      (match s.heap.get? i with | some n => (if n.ud.isSome then ["setud-replaces"] else []) | none => [])
    | .deepCopy _ f => [if f.isSome then "copy-failat" else "copy"]
    | .ptrSet root path _ =>
      match path.getLast? with
      | none => ["ptrset-root"]
      | some last =>
        match ptrParent s root path with
        | none => ["ptrset-no-parent"]
        | some p =>
          match s.heap.get? p with
          | some ⟨_, .arr _, _⟩ => [if last = [45] then "ptrset-append" else if (validIndex last).isSome then "ptrset-index" else "ptrset-bad-index"]
          | some ⟨_, .obj kvs, _⟩ => [if (findKey kvs last).isSome then "ptrset-replace" else "ptrset-new-key"]
          | _ => ["ptrset-into-scalar"]
  let survivor := if r.dead.any (fun d => (s.heap.childrenOf d).any (fun c => !r.dead.contains c)) then ["survivor"] else []
  kind ++ cascade ++ failed ++ survivor

def step (s : St) (w : List String) : St × Out :=
  match w with
  | ["end"] =>
    -- end of case: the allocation balance is the observable
    match s.m with
    | none => (s, { model := "model-stopped-earlier" })
    | some m =>
      let left (n blocks : Nat) : String := if n ≠ 0 then "n/a" else if blocks = 0 then "yes" else "no"
      let line := if s.nomem then s!"end nodes={m.heap.length} none-left={left m.heap.length 0} ## mem=-"
        else s!"end nodes={m.heap.length} none-left={left m.heap.length m.heap.blocks} ## mem={m.heap.blocks}"
      let spec := match s.w with
        | some wd => s!"end nodes={wd.nodes.length} none-left={left wd.nodes.length 0}"
        | none => "*"
      (s, { model := line, spec := spec })
  | ["nomem"] => ({ s with nomem := true }, { model := "ok", spec := "*" })
  | ["setd", _] =>
    -- json_object_set_double on a double node that carries a user-installed serializer / userdata: changing the value
    -- has no ownership effect (json_object.h: a custom serializer stays in place) - no callback runs, nothing is freed
    match s.m with
    | none => (s, { model := "model-stopped-earlier" })
    | some m =>
      let mline := specLine 1 none [] [] ++
        s!" ## order=[] {liveStr m.heap} mem={if s.nomem then "-" else toString m.heap.blocks}"
      (s, { model := mline, spec := if s.w.isSome then specLine 1 none [] [] else "*", cov := ["setd"] })
  | ["copyd", i] =>
    -- json_object_deep_copy(src, &dst, NULL) of a tree whose root carries user data: the library refuses (it cannot copy
    -- user data it does not know); the refusal has no ownership effect at all - no callback, nothing freed, nothing made
    match s.m, i.toNat? with
    | some m, some id =>
      match m.heap.get? id with
      | none => (s, { model := "harness: dead handle" })
      | some n =>
        if n.ud.isNone then (s, { model := "harness: bad operand" })
        else
          let mline := specLine (-1) none [] [] ++
            s!" ## order=[] {liveStr m.heap} mem={if s.nomem then "-" else toString m.heap.blocks}"
          (s, { model := mline, spec := if s.w.isSome then specLine (-1) none [] [] else "*", cov := ["copy-default-refused"] })
    | none, _ => (s, { model := "model-stopped-earlier" })
    | _, none => (s, { model := "bad-op" })
  | _ =>
  match parseOp w with
  | none => (s, { model := "bad-op" })
  | some op =>
    match s.m with
    | none => (s, { model := "model-stopped-earlier" })
    | some m =>
      match JsonC.Heap.step m op with
      | .fault why => ({ s with m := none }, { model := "FAULT " ++ why, spec := "no-fault" })
      | .misuse why => ({ s with m := none }, { model := "MISUSE " ++ why, spec := "*" })
      | .ok (m', r) =>
        let cbs := r.cbs.map (fun c => (c.id, c.tok, c.final))
        let mline := specLine r.ret r.made cbs r.dead ++
          s!" ## order={bracket (cbs.map cbStr)} {liveStr m'.heap} mem={if s.nomem then "-" else toString m'.heap.blocks}"
        let (sline, w') := match s.w with
          | none => ("*", none)
          | some wd =>
            match specStep m wd op r.ret with
            | some (wd', e) => (specLine e.ret e.made e.callbacks e.destroyed, some wd')
            | none => ("*", none)
        -- where the spec leaves the outcome open, it resynchronises on the model's graph only when the
        -- call failed without effect (heap unchanged); otherwise it stops following this case
        let w'' := match w', s.w with
          | none, some wd => if r.ret < 0 ∧ m'.heap.length = m.heap.length then
                some { wd with next := m'.next } else none
          | x, _ => x
        ({ s with m := some m', w := w'' }, { model := mline, spec := sline, cov := covOf m op r })

end Driver.Heap
