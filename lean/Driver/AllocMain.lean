-- stub: component `alloc` not built yet
def main : IO UInt32 := do
  IO.eprintln "driver-alloc: not implemented"
  return 2
