import Driver.Alloc
open Driver

def main : IO UInt32 := do
  runComponent Alloc.init Alloc.step
  return 0
