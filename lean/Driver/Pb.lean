import Driver.Common
import JsonC.Model.Printbuf
import JsonC.Spec.ByteBuf
/-! printbuf component: model (JsonC.Printbuf) and spec (JsonC.ByteBuf) side by side. -/
namespace Driver.Pb
open JsonC JsonC.Printbuf Driver

structure St where
  pb : Option Pb           -- none after a model fault
  spec : Bytes

def init : St :=
  match Printbuf.new with
  | .ok p => ⟨some p, []⟩
  | .fault _ => ⟨none, []⟩

def parseOp : List String → Option Op
  | ["app", h] => (ofHex h).map .append
  | ["claim", n] => (parseInt? n).map .appendClaim
  | ["fast", h] => (ofHex h).map .fast
  | ["set", o, c, l] => do pure (.memset (← parseInt? o) (← parseInt? c) (← parseInt? l))
  | ["spr", h] => (ofHex h).map .sprintbuf
  | ["reset"] => some .reset
  | _ => none

def nulStr (p : Pb) : String := if terminated p then "1" else "0"

/-- `ret bpos contents [nul]` – the part the property speaks about -/
def specLine (op : Op) (ret : Int) (b : Bytes) (nul : String) : String :=
  let r := match op with | .fast _ => "0" | _ => toString ret
  let n := if appendsD op ∧ ret ≥ 0 then " nul=" ++ nul else ""
  s!"{r} {b.length} {toHex b}{n}"
where
  appendsD : Op → Bool
    | .append _ | .appendClaim _ | .fast _ | .sprintbuf _ | .reset => true
    | _ => false

open ByteBuf in
/-- the specification's answer: `none` = either answer allowed -/
def specStep (b : Bytes) : Op → Option (Int × Bytes)
  | .append d => match appendVerdict b d.length with
      | .mustServe => some (d.length, ByteBuf.append b d) | .mustRefuse => some (-1, b) | .either => none
  | .appendClaim n => match appendVerdict b n with
      | .mustRefuse => some (-1, b) | _ => none
  | .fast d => match appendVerdict b d.length with
      | .mustServe => some (0, ByteBuf.append b d) | .mustRefuse => some (0, b) | .either => none
  | .memset o c l => match fillVerdict b o l with
      | .mustServe => some (0, fill b (if o = -1 then b.length else o.toNat) (UInt8.ofNat (c % 256).toNat) l.toNat)
      | .mustRefuse => some (-1, b) | .either => none
  | .sprintbuf out => match appendVerdict b out.length with
      | .mustServe => some (out.length, ByteBuf.append b out) | .mustRefuse => some (-1, b) | .either => none
  | .reset => some (0, [])

def covOf (p : Pb) (op : Op) (r : Res) : List String :=
  let grow := if r.pb.size ≠ p.size then ["grow"] else []
  let refused := if r.ret < 0 then ["refused-" ++ toString r.errno] else []
  let kind := match op with
    | .append d => ["append" ++ (if d.isEmpty then "-empty" else "")]
    | .appendClaim _ => ["claim"]
    | .fast d => [if (p.size : Int) - p.bpos > d.length then "fast-inline" else "fast-slow"]
    | .memset o _ l =>
        [if o = -1 then "set-end" else if o > p.bpos then "set-pad" else if o + l < p.bpos then "set-inside" else "set-overlap"]
        ++ (if o + l = r.pb.size ∧ r.ret = 0 then ["set-fills-allocation"] else [])
    | .sprintbuf out => [if (out.length : Int) > Generated.sprintbufHeapAbove then "spr-heap" else "spr-stack"]
    | .reset => ["reset"]
  let exact := if r.pb.bpos + 1 = r.pb.size then ["full-to-last-byte"] else []
  grow ++ refused ++ kind ++ exact

/-- `peek`: look at the buffer without touching it (the generator issues it on a fresh buffer only: a new
print buffer is the empty string, NUL-terminated) -/
def peekLine (p : Pb) : String :=
  let b := contents p
  s!"0 {b.length} {toHex b} nul={nulStr p} ## 0 {p.size} nul={nulStr p}"

def step (s : St) (w : List String) : St × Out :=
  if w = ["peek"] then
    match s.pb with
    | none => (s, { model := "model-faulted-earlier" })
    | some p => (s, { model := peekLine p, spec := s!"0 {s.spec.length} {toHex s.spec} nul=1", cov := ["peek"] })
  else if let ["sproom", h] := w then
    -- sprintbuf while every realloc / vasprintf fails: served exactly when the model's call needs neither (the output
    -- fits the stack buffer and the free space), otherwise refused with the buffer - text, length, terminating NUL - untouched
    match s.pb, ofHex h with
    | some p, some out =>
      match Printbuf.step p (.sprintbuf out) with
      | .fault why => ({ s with pb := none }, { model := "FAULT " ++ why, spec := "no-fault" })
      | .ok r =>
        if r.ret ≥ 0 ∧ r.pb.size = p.size ∧ (out.length : Int) ≤ Generated.sprintbufHeapAbove then
          let q := r.pb
          let b := contents q
          ({ pb := some q, spec := ByteBuf.append s.spec out },
           { model := specLine (.sprintbuf out) r.ret b (nulStr q) ++ s!" ## 0 {q.size} nul={nulStr q}",
             spec := specLine (.sprintbuf out) out.length (ByteBuf.append s.spec out) "1", cov := ["sproom-served"] })
        else
          let b := contents p
          (s, { model := s!"-1 {b.length} {toHex b} nul={nulStr p} ## oom {p.size} nul={nulStr p}",
                -- refused: the buffer is as it was, so the byte after the text is what it was (a NUL after an append,
                -- unspecified after a fill)
                spec := s!"-1 {s.spec.length} {toHex s.spec} nul={nulStr p}", cov := ["sproom-refused"] })
    | none, _ => (s, { model := "model-faulted-earlier" })
    | _, none => (s, { model := "bad-op" })
  else
  match parseOp w with
  | none => (s, { model := "bad-op" })
  | some op =>
    match s.pb with
    | none => (s, { model := "model-faulted-earlier" })
    | some p =>
      match Printbuf.step p op with
      | .fault why => ({ s with pb := none }, { model := "FAULT " ++ why, spec := "no-fault" })
      | .ok r =>
        let q := r.pb
        let b := contents q
        let errs := if r.ret < 0 then toString r.errno else "0"
        let nulI := match op with | .memset .. => "-" | _ => if r.ret < 0 then "-" else nulStr q
        let mline := specLine op r.ret b (nulStr q) ++ s!" ## {errs} {q.size} nul={nulI}"
        let (sline, sb) := match specStep s.spec op with
          | some (ret, b') =>
              -- a served append-like op must leave the text terminated (nul=1); a refused one
              -- leaves the buffer as it was (termination not reported)
              (specLine op ret b' "1", b')
          | none => ("*", b)
        ({ pb := some q, spec := sb }, { model := mline, spec := sline, cov := covOf p op r })

end Driver.Pb
