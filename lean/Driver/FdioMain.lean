import Driver.Fdio
open Driver

def main : IO UInt32 := do
  runComponent () Fdio.step
  return 0
