-- stub: component `fdio` not built yet
def main : IO UInt32 := do
  IO.eprintln "driver-fdio: not implemented"
  return 2
