import JsonC.Base.Basic
/-! Line-protocol plumbing shared by every component of the driver.
One output line per input line:  `<model line> @@ <spec line> @@ <tags> @@ <coverage>`.
`# id` starts a new case (fresh state) and is echoed. -/
namespace Driver
open JsonC

structure Out where
  model : String
  spec : String := "*"
  tags : List String := []
  cov : List String := []

def Out.render (o : Out) : String :=
  o.model ++ " @@ " ++ o.spec ++ " @@ " ++ ",".intercalate o.tags ++ " @@ " ++ ",".intercalate o.cov

def words (line : String) : List String :=
  (line.trimAscii.toString.splitOn " ").filter (· ≠ "")

def parseInt? (s : String) : Option Int :=
  if s.startsWith "-" then (s.drop 1).toNat?.map (fun n => -(n : Int)) else s.toNat?.map (fun n => (n : Int))

partial def loop {σ : Type} (h : IO.FS.Stream) (out : IO.FS.Stream) (init : σ)
    (step : σ → List String → σ × Out) (s : σ) : IO Unit := do
  let line ← h.getLine
  if line.isEmpty then
    out.flush
    return ()
  let w := words line
  match w with
  | "#" :: _ =>
    out.putStrLn line.trimAscii.toString
    loop h out init step init
  | _ =>
    let (s', o) := step s w
    out.putStrLn o.render
    loop h out init step s'

def runComponent {σ : Type} (init : σ) (step : σ → List String → σ × Out) : IO Unit := do
  let i ← IO.getStdin
  let o ← IO.getStdout
  loop i o init step init

end Driver
