import Driver.Common
import JsonC.Model.Pointer
import JsonC.Spec.Rfc6901
/-! json_pointer component: model (JsonC.Pointer) and spec (JsonC.Rfc6901) side by side.

ops (tree / value in `JVal.dump` format, byte strings in hex):
  get T P | geti T P | getf T P ("%s") | getf2 T S D ("/%s/%d") | getfs T A B ("%s%s")
  set T P V | setf T P V | setf2 T S D V | setfs T A B V

lookup line:  `rc err value pos tree ## parent key idx`      (err `0` on success)
set line:     `rc tree loc=.. vrc=.. freed=.. then=.. ## err`
-/
namespace Driver.Ptr
open JsonC JsonC.Pointer Driver

/-- stateless component -/
abbrev St := Unit
def init : St := ()

def posStr (p : List Nat) : String := "@" ++ String.join (p.map fun i => "." ++ toString i)

/-- the allocator of the correspondence run: growing an array to `n` slots succeeds iff `n ≤ 2^40`
(the generator keeps away from sizes the real allocator might or might not serve) -/
def mem (n : Nat) : Bool := n ≤ 2 ^ 40

def isNull : JVal → Bool
  | .null => true
  | _ => false

def fmt2 (s : Bytes) (d : Int) : Bytes := [47] ++ s ++ [47] ++ strBytes (toString d)

inductive Kind where | get | geti | getf
  deriving DecidableEq

structure Look where
  kind : Kind
  tree : JVal
  ptr : Bytes

structure Upd where
  viaF : Bool
  tree : JVal
  ptr : Bytes
  val : JVal

def parseLook : List String → Option Look
  | ["get", t, p] => do pure ⟨.get, ← JVal.parse t, ← ofHex p⟩
  | ["geti", t, p] => do pure ⟨.geti, ← JVal.parse t, ← ofHex p⟩
  | ["getf", t, p] => do pure ⟨.getf, ← JVal.parse t, ← ofHex p⟩
  | ["getf2", t, s, d] => do pure ⟨.getf, ← JVal.parse t, fmt2 (← ofHex s) (← parseInt? d)⟩
  | ["getfs", t, a, b] => do pure ⟨.getf, ← JVal.parse t, (← ofHex a) ++ (← ofHex b)⟩
  | _ => none

def parseUpd : List String → Option Upd
  | ["set", t, p, v] => do pure ⟨false, ← JVal.parse t, ← ofHex p, ← JVal.parse v⟩
  | ["setf", t, p, v] => do pure ⟨true, ← JVal.parse t, ← ofHex p, ← JVal.parse v⟩
  | ["setf2", t, s, d, v] => do pure ⟨true, ← JVal.parse t, fmt2 (← ofHex s) (← parseInt? d), ← JVal.parse v⟩
  | ["setfs", t, a, b, v] => do pure ⟨true, ← JVal.parse t, (← ofHex a) ++ (← ofHex b), ← JVal.parse v⟩
  | _ => none

def fieldStr {α : Type} (f : Field α) (show' : α → String) : String :=
  match f with
  | .unset => "unset"
  | .set a => show' a

/-- `rc err value pos tree` of a lookup -/
def lookLine (tree : JVal) (res : Option (List Nat × JVal)) (err : String) (posOfNull : Bool) : String :=
  match res with
  | some (pos, v) =>
    let ps := if isNull v && !posOfNull then "null" else posStr pos
    s!"0 0 {v.dump} {ps} {tree.dump}"
  | none => s!"-1 {err} - untouched {tree.dump}"

def lenCov (n : Nat) : List String :=
  if n = 127 then ["len-127"] else if n = 128 then ["len-128"] else if n = 129 then ["len-129"]
  else if n > 129 then ["len-long"] else []

/-- coverage: what kind of pointer / outcome this was -/
def ptrCov (t : JVal) (p : Bytes) : List String :=
  let toks := (Rfc6901.tokens p).getD []
  let esc := if toks.any (fun k => Rfc6901.unescape k ≠ k) then ["escaped-token"] else []
  let big := if toks.any (fun k => k.length ≥ 20 && k.all isPlainDigit) then ["huge-index"] else []
  let two := if toks.any (fun k => k.length = 2 && k.all isPlainDigit) then ["two-digit-token"] else []
  let emp := if toks.any (·.isEmpty) then ["empty-token"] else []
  let root := if p.isEmpty then ["root-pointer"] else []
  let nos := if !p.isEmpty && (Rfc6901.tokens p).isNone then ["no-leading-slash"] else []
  let nul := if isNull t then ["null-root"] else []
  let wf := if !Rfc6901.escapesWellFormed p then ["tilde-not-0-1"] else []
  let deep := if toks.length ≥ 3 then ["depth>=3"] else []
  esc ++ big ++ two ++ emp ++ root ++ nos ++ nul ++ wf ++ deep

def stepLook (l : Look) : Out :=
  let kindCov := match l.kind with | .get => "get" | .geti => "geti" | .getf => "getf"
  let tags (ok : Bool) := if ok && !Rfc6901.escapesWellFormed l.ptr then ["ptr.escape.tilde-literal"] else []
  -- spec side: RFC evaluation; the API requires a document (non-NULL obj)
  let sline := if isNull l.tree then "*"
    else lookLine l.tree (Rfc6901.eval l.tree l.ptr) "E" (l.kind == .geti)
  match l.kind with
  | .geti =>
    match getInternal l.tree l.ptr with
    | .fault why => { model := "FAULT " ++ why, spec := "no-fault" }
    | .ok r =>
      let res := if r.rc = 0 then some (r.pos, r.val) else none
      let par := fieldStr r.parent (fun o => match o with | some p => posStr p | none => "NULL")
      let key := fieldStr r.key (fun o => match o with | some k => toHex k | none => "NULL")
      let idx := fieldStr r.index toString
      { model := lookLine l.tree res (toString r.errno) true ++ s!" ## parent={par} key={key} idx={idx}",
        spec := sline,
        tags := tags (r.rc = 0) ++
          (match r.index, r.pos.getLast? with
           | .set f, some i => if r.rc = 0 ∧ !l.ptr.isEmpty ∧ f ≠ i then ["ptr.result.index-u32"] else []
           | _, _ => []),
        cov := [kindCov, if r.rc = 0 then "found" else "fail-" ++ toString r.errno] ++
               (if r.rc = 0 && isNull r.val then ["null-target"] else []) ++ ptrCov l.tree l.ptr }
  | k =>
    match (if k == .get then get l.tree l.ptr else getf l.tree l.ptr) with
    | .fault why => { model := "FAULT " ++ why, spec := "no-fault" }
    | .ok g =>
      { model := lookLine l.tree g.node (toString g.errno) false ++ " ## -",
        spec := sline, tags := tags (g.rc = 0),
        cov := [kindCov, if g.rc = 0 then "found" else "fail-" ++ toString g.errno] ++
               (match g.node with | some (_, .null) => ["null-target"] | _ => []) ++
               (if k == .getf then lenCov l.ptr.length else []) ++ ptrCov l.tree l.ptr }

/-- the follow-up lookup of the same pointer: `rc:same|other|null|-` -/
def thenStr (found : Option (List Nat × JVal)) (loc : Option (List Nat)) : String :=
  match found with
  | none => "-1:-"
  | some (pos, v) =>
    if isNull v then "0:null"
    else if loc = some pos then "0:same" else "0:other"

/-- `rc tree loc vrc freed then` of a set -/
def setLine (rc : Int) (tree : JVal) (v : JVal) (loc : Option (List Nat)) (freed : Nat) (thn : String) : String :=
  let ls := if isNull v then "null" else match loc with | some p => posStr p | none => "-"
  let vrc := if isNull v then "-" else "1"
  s!"{rc} {tree.dump} loc={ls} vrc={vrc} freed={freed} then={thn}"

def setCov (u : Upd) (r : SetRes) : List String :=
  let toks := (Rfc6901.tokens u.ptr).getD []
  let last := toks.getLast?.getD []
  let parentKind : String := match r.loc with
    | some l => match nodeAt r.tree l.dropLast with
      | some (.arr _) => "arr" | some (.obj _) => "obj" | _ => "root"
    | none => "none"
  let old := Rfc6901.eval u.tree u.ptr
  let what :=
    if r.rc ≠ 0 then ["set-fail-" ++ toString r.errno]
    else if u.ptr.isEmpty then ["set-root"]
    else if parentKind = "arr" then
      (if last = [45] then ["set-append"] else if old.isSome then ["set-replace-element"]
       else match Rfc6901.arrayIndex last, nodeAt u.tree (r.loc.getD []).dropLast with
         | some i, some (.arr xs) => if i = xs.length then ["set-extend-at-length"] else ["set-extend-null-gap"]
         | _, _ => ["set-extend"])
    else (if old.isSome then ["set-replace-member"] else ["set-new-member"])
  what ++ (if r.freed > 1 then ["freed-subtree"] else []) ++ (if isNull u.val then ["null-value"] else [])

def stepUpd (u : Upd) : Out :=
  let run := if u.viaF then setf mem u.tree u.ptr u.val else Pointer.set mem u.tree u.ptr u.val
  match run with
  | .fault why => { model := "FAULT " ++ why, spec := "no-fault" }
  | .ok r =>
    -- follow-up lookup through the same API family
    let follow := if u.viaF then getf r.tree u.ptr else get r.tree u.ptr
    match follow with
    | .fault why => { model := "FAULT (follow-up lookup) " ++ why, spec := "no-fault" }
    | .ok g =>
      let mline := setLine r.rc r.tree u.val r.loc r.freed (thenStr g.node r.loc)
        ++ s!" ## {if r.rc = 0 then "0" else toString r.errno}"
      let sline :=
        match Rfc6901.set mem u.tree u.ptr u.val with
        | some (t', loc) =>
          let freed := if u.ptr.isEmpty then liveNodes u.tree
            else match Rfc6901.eval u.tree u.ptr with | some (_, old) => liveNodes old | none => 0
          -- the lookup API requires a document: after `set "" null` there is none
          let thn := if isNull t' then "-1:-" else thenStr (Rfc6901.eval t' u.ptr) (some loc)
          setLine 0 t' u.val (some loc) freed thn
        | none =>
          let thn := if isNull u.tree then "-1:-" else thenStr (Rfc6901.eval u.tree u.ptr) none
          setLine (-1) u.tree u.val none 0 thn
      { model := mline, spec := sline,
        tags := if r.rc = 0 && !Rfc6901.escapesWellFormed u.ptr then ["ptr.escape.tilde-literal"] else [],
        cov := [if u.viaF then "setf" else "set"] ++ setCov u r ++
               (if u.viaF then lenCov u.ptr.length else []) ++ ptrCov u.tree u.ptr }

def step (s : St) (w : List String) : St × Out :=
  match parseLook w with
  | some l => (s, stepLook l)
  | none =>
    match parseUpd w with
    | some u => (s, stepUpd u)
    | none => (s, { model := "bad-op" })

end Driver.Ptr
