import Driver.Common
import JsonC.Model.Tokener
import JsonC.Spec.Rfc8259
/-! tokener component: the byte-driven machine of JsonC.Tokener behind the line protocol of harness/tok.c -/
namespace Driver.Tok
open JsonC JsonC.Tokener Driver

structure St where
  tok : Option Tok
  poisoned : Bool := false   -- an error status was returned: the tokener must be reset before further use

def init : St := ⟨none, false⟩

def showFinal (f : Final) : String :=
  let v := match f.err, f.value with
    | .success, some v => v.dump
    | .success, none => "n"
    | _, some _ => "!"
    | _, none => "-"
  let t := f.tok
  let levels := ",".intercalate (t.stack.map fun l => s!"{l.state.code}:{l.saved.code}")
  let st := (topState t).1
  let esc := st == .stringEscape || st == .escapeUnicode || st == .needEscape || st == .needU
  let str := st == .string || st == .objectField || esc
  let kw := st == .null || st == .boolean || st == .inf
  -- scratch fields only where they are live in the top level's state (same rule as harness/tok.c)
  let scratch :=
    if f.err == .continue_ then
      let pb := if str || kw || st == .number then toHex t.pb else "~"
      let sp := if kw || st == .escapeUnicode then toString t.stPos else "~"
      let dbl := if st == .number then (if t.isDouble then "1" else "0") else "~"
      let ucs := if st == .escapeUnicode then toString t.ucs else "~"
      let q := if str then toString t.quote.toNat else "~"
      s!"{pb} {sp} {dbl} {ucs} {t.hs} {q}"
    else "-"
  s!"{f.err.code} {f.offset} {v} ## {t.stack.length - 1} {levels} {scratch}"

def covOf (before : Tok) (f : Final) (n : Nat) : List String :=
  let st := (topState before).1
  [s!"err-{f.err.code}", s!"from-{st.code}", if n == 0 then "empty-chunk" else if n < 4 then "short-chunk" else "chunk"]
  ++ (if f.tok.stack.length > 1 then ["nested-at-end"] else [])
  ++ (if before.stack.length > 1 then ["resume-nested"] else [])

def parseWith (s : St) (data : Bytes) (z : Bool) : St × Out :=
  match s.tok with
  | none => (s, { model := "no-tokener" })
  | some t =>
    if s.poisoned then (s, { model := "skipped-after-error" }) else
    let f := if z then parseExZ refLibc t data else parseEx refLibc t data
    let line := showFinal f
    let line := if f.stuck then "STUCK " ++ line else line
    let line := match f.fault with | some w => "FAULT " ++ w ++ " " ++ line | none => line
    ({ tok := some f.tok, poisoned := f.err != .success && f.err != .continue_ },
     { model := line, cov := covOf t f data.length })

def step (s : St) (w : List String) : St × Out :=
  match w with
  | ["new", d, fl] =>
    match parseInt? d, fl.toNat? with
    | some d, some fl =>
      match Tokener.new d fl with
      | some t => ({ tok := some t, poisoned := false }, { model := "ok" })
      | none => ({ tok := none, poisoned := false }, { model := "null" })
    | _, _ => (s, { model := "bad-op" })
  | ["fdx", d, h] =>
    -- json_object_from_fd_ex(fd, depth) on the whole text: one in-memory parse with a tokener of that depth (C20), here
    -- only the value / refusal is looked at
    match parseInt? d, ofHex h with
    | some d, some data =>
      match Tokener.new d 0 with
      | some t =>
        let f := parseEx refLibc t data
        let v := match f.err, f.value with | .success, some v => v.dump | _, _ => "-"
        (s, { model := "fdx " ++ v, cov := ["fdx"] })
      | none => (s, { model := "fdx -", cov := ["fdx"] })
    | _, _ => (s, { model := "bad-op" })
  | ["p", h] => match ofHex h with | some d => parseWith s d false | none => (s, { model := "bad-op" })
  | ["pz", h] => match ofHex h with | some d => parseWith s d true | none => (s, { model := "bad-op" })
  | ["doc", d, h] =>
    -- specification side only: is the text RFC 8259, and what must parsing it with depth limit `d` give?
    match ofHex h, d.toNat? with
    | some bs, some lim =>
      match Rfc8259.Text.ofBytes bs with
      | none => (s, { model := "doc invalid" })
      | some t =>
        let deep := match t.doc.firstDeep lim 0 t.lead.length with | some o => toString o | none => "-"
        (s, { model := s!"doc ok {t.doc.nest} {t.doc.intsFit} {t.doc.keysNulFree} {deep} {t.doc.denote.dump}" })
    | _, _ => (s, { model := "bad-op" })
  | ["reset"] => match s.tok with
    | some t => ({ tok := some (Tokener.reset t), poisoned := false }, { model := "ok" })
    | none => (s, { model := "no-tokener" })
  | ["flags", n] => match s.tok, n.toNat? with
    | some t, some n => ({ s with tok := some (setFlags t n) }, { model := "ok" })
    | none, _ => (s, { model := "no-tokener" })
    | _, _ => (s, { model := "bad-op" })
  | _ => (s, { model := "bad-op" })

end Driver.Tok
