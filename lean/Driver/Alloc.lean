import Driver.Common
import JsonC.Model.Alloc
import JsonC.Model.AllocSer
import JsonC.Model.Value
import JsonC.Model.Pointer
/-! allocation component (C08): the allocation model run against the fault-injecting harness.

One op line = `<workload> <args..> <k1> <k2>`: the line's inputs are built with every allocation
granted, then the operation runs with window calls k1 and k2 failing (0 = none), then everything
the caller owns is released.  The model line has the harness format
  `<result> leak=<blocks> same=<1|0|-> ## n=<calls> err=<class|-> trace=<..>`
Workloads the allocation model does not cover (parse, patch, construct, ptrsetf) print `*`: there the
harness's own oracle decides. -/
namespace Driver.Alloc
open JsonC JsonC.Alloc Driver

abbrev St := Unit
def init : St := ()

/-! ### building the inputs the way harness/jtree.h (jt_build) and harness/alloc.c do -/

def bytesN (n : Nat) : Bytes := List.replicate n 97

mutual
  /-- jt_build -/
  def mkTree : JVal → A Node
    | .null => pure .null
    | .bool _ => newPrim .boolean
    | .int _ _ => newPrim .int
    | .dbl _ none => newPrim .double
    | .dbl _ (some t) => newDoubleS t.length
    | .str s => newStringLen s
    | .arr xs => do
      let a ← newArrayExt Generated.arrayListDefaultSize
      mkElems xs a
    | .obj kvs => do
      let o ← newObject
      mkMembers kvs o
  def mkElems : List JVal → Node → A Node
    | [], a => pure a
    | x :: xs, a => do
      let e ← mkTree x
      let (a1, _) ← arrayAdd a e
      mkElems xs a1
  def mkMembers : List (Bytes × JVal) → Node → A Node
    | [], o => pure o
    | (k, v) :: kvs, o => do
      let c ← mkTree v
      let (o1, _) ← objectAddEx o k c false false
      mkMembers kvs o1
end

/-- mk_array(n): json_object_new_array() + n × add(int) -/
def mkArray (n : Nat) : A Node := do
  let a ← newArrayExt Generated.arrayListDefaultSize
  let rec go : Nat → Node → A Node
    | 0, a => pure a
    | m + 1, a => do
      let e ← newPrim .int
      let (a1, _) ← arrayAdd a e
      go m a1
  go n a

/-- mk_object(n): members k0 .. k(n-1) -/
def mkObject (n : Nat) : A Node := do
  let o ← newObject
  let rec go : Nat → Nat → Node → A Node
    | 0, _, o => pure o
    | m + 1, i, o => do
      let e ← newPrim .int
      let (o1, _) ← objectAddEx o (strBytes ("k" ++ toString i)) e false false
      go m (i + 1) o1
  go n 0 o

/-! ### json_pointer: what the path resolves to (the plan the model is given) -/

def splitSlash (p : Bytes) : List Bytes :=
  let rec go : Bytes → Bytes → List Bytes
    | [], cur => [cur.reverse]
    | c :: cs, cur => if c = 47 then cur.reverse :: go cs [] else go cs (c :: cur)
  go p []

/-- replace every `~x` (x given) by `r`, left to right, like string_replace_all_occurrences_with_char -/
def replTilde (x r : UInt8) : Bytes → Bytes
  | [] => []
  | [c] => [c]
  | c :: d :: rest => if c = 126 ∧ d = x then r :: replTilde x r rest else c :: replTilde x r (d :: rest)

def unescape (t : Bytes) : Bytes := replTilde 48 126 (replTilde 49 47 t)

/-- json_pointer_get_recursive over the tokens of the prefix: positions from the root, or the errno -/
def resolve : Node → List Bytes → List Nat → Except Errno (List Nat)
  | _, [], acc => .ok acc.reverse
  | n, t :: ts, acc =>
    match n with
    | .arr _ _ es =>
      match Pointer.isValidIndex t with
      | none => .error .EINVAL
      | some (i, _) =>
        match es[i]? with
        | some c => resolve c ts (i :: acc)
        | none => .error .ENOENT
    | .obj _ _ ms =>
      match findKey (unescape t) ms with
      | some i => resolve (memberVal ms i) ts (i :: acc)
      | none => .error .ENOENT
    | _ => .error .ENOENT

def mkPlan (root : Node) (path : Bytes) : PtrPlan :=
  let slash := path.head? = some 47
  let toks := (splitSlash path).drop 1       -- tokens after each '/'
  let last := toks.getLast?.getD []
  let pre := toks.dropLast
  let multi := toks.length > 1
  let (ppos, ge) := match resolve root pre [] with
    | .ok p => (some p, Errno.none)
    | .error e => (none, e)
  { pathLen := path.length, startsWithSlash := slash, multi := multi, parentPos := ppos, getErrno := ge,
    tok := if last = [45] then .dash else match Pointer.isValidIndex last with
      | some (i, _) => .index i
      | none => .other,
    tokLen := last.length, key := unescape last }

/-! ### running a line -/

def refStr (base : Nat) (b : Blk) : String :=
  if b.id > base then toString (b.id - base) else "P" ++ toString b.size

def evStr (base : Nat) : Ev → String
  | .malloc n got => "m" ++ toString n ++ (if got.isSome then "" else "!")
  | .calloc n got => "c" ++ toString n ++ (if got.isSome then "" else "!")
  | .strdup n got => "s" ++ toString n ++ (if got.isSome then "" else "!")
  | .realloc b n got => "r" ++ refStr base b ++ ":" ++ toString n ++ (if got.isSome then "" else "!")
  | .free b => "f" ++ refStr base b

structure Report where
  res : String
  same : String := "-"
  failed : Bool := false
  cov : List String := []

def sameNode (a b : Node) : String := if toString (repr a) == toString (repr b) then "1" else "0"

/-- setup (all granted) / window (calls k1, k2 fail) / cleanup (all granted) -/
def runLine {σ τ : Type} (name : String) (setup : A σ) (win : σ → A τ) (report : σ → τ → Report)
    (cleanup : σ → τ → A Unit) (k1 k2 : Nat) : Out :=
  match setup grantAll {} with
  | .fault w => { model := "FAULT in setup: " ++ w }
  | .ok (s, h1) =>
    let base := h1.next
    let g : Oracle := fun i => failAt2 k1 k2 (i - base)
    match win s g { h1 with errno := .none } with
    | .fault w => { model := "FAULT " ++ w, spec := "no-fault" }
    | .ok (t, h2) =>
      let n := h2.next - base
      let evs := (h2.log.drop h1.log.length).map (evStr base)
      let trace := if evs.isEmpty then "-" else ",".intercalate evs
      let r := report s t
      let err := if r.failed then toString h2.errno else "-"
      match cleanup s t grantAll h2 with
      | .fault w => { model := "FAULT in cleanup: " ++ w, spec := "no-fault" }
      | .ok (_, h3) =>
        let leak := h3.live.length
        let fk := if k1 = 0 ∧ k2 = 0 then "k=0" else if (k1 = 0 ∨ k1 > n) ∧ (k2 = 0 ∨ k2 > n) then "k-beyond" else
          if k1 ≠ 0 ∧ k2 ≠ 0 ∧ k1 ≤ n ∧ k2 ≤ n then "double-fault" else "fault"
        { model := s!"{r.res} leak={leak} same={r.same} ## n={n} err={err} trace={trace}",
          spec := "*",
          cov := [name, fk, name ++ (if r.failed then ":fail" else ":ok")] ++ r.cov }

def okNull {α : Type} (o : Option α) : String := if o.isSome then "ok" else "null"

def nodeOk : Node → Bool
  | .null => false
  | _ => true

def alOf : Node → Option AlA
  | .arr _ al _ => some al
  | _ => none

def lhOf : Node → Option LhA
  | .obj _ lh _ => some lh
  | _ => none

def arrRes (a : Node) (rc : Int) : String :=
  match alOf a with
  | some al => s!"rc={rc} len={al.length} size={al.size}"
  | none => "not-an-array"

def objRes (o : Node) (rc : Int) : String :=
  match lhOf o with
  | some lh => s!"rc={rc} count={lh.count} size={lh.size}"
  | none => "not-an-object"

def putIf (c : Bool) (n : Node) : A Unit := if c then putNode n else pure ()

def lhInserts : Nat → LhA → A LhA
  | 0, t => pure t
  | n + 1, t => do
    let (t1, _) ← lhInsert t
    lhInserts n t1

def unmodelled (name : String) : Out := { model := "*", spec := "*", cov := [name, "unmodelled"] }

def step (_ : St) (w : List String) : St × Out :=
  let bad : St × Out := ((), { model := "bad-op" })
  match w.reverse with
  | k2s :: k1s :: revArgs =>
    match k1s.toNat?, k2s.toNat?, revArgs.reverse with
    | some k1, some k2, name :: args =>
      let out : Option Out :=
        match name, args with
        | "pbnew", [] =>
          some <| runLine name (pure ()) (fun _ => pbNew)
            (fun _ p => { res := okNull p, failed := p.isNone })
            (fun _ p => match p with | some p => pbFree p | none => pure ()) k1 k2
        | "pbapp", [n0, n] => do
          let n0 ← n0.toNat?
          let n ← n.toNat?
          some <| runLine name
            (do
              match ← pbNew with
              | none => fault "setup"
              | some p =>
                let (p1, _) ← pbMemappend p n0
                pure p1)
            (fun p => pbMemappend p n)
            (fun _ (q, rc) => { res := s!"ret={rc} bpos={q.bpos} size={q.size}", same := "1", failed := rc < 0,
                                cov := if q.size ≠ Generated.pbInitSize then ["pb-grown"] else [] })
            (fun _ (q, _) => pbFree q) k1 k2
        | "alnew", [sz] => do
          let sz ← parseInt? sz
          some <| runLine name (pure ()) (fun _ => alNew2 sz)
            (fun _ a => { res := okNull a, failed := a.isNone })
            (fun _ a => match a with | some a => alFree a | none => pure ()) k1 k2
        | "aadd", [n] => do
          let n ← n.toNat?
          some <| runLine name (do let a ← mkArray n; let v ← newStringLen (bytesN 3); pure (a, v))
            (fun (a, v) => arrayAdd a v)
            (fun (a, _) (a1, rc) => { res := arrRes a1 rc, same := if rc ≠ 0 then sameNode a a1 else "1", failed := rc ≠ 0 })
            (fun (_, v) (a1, rc) => do putIf (rc ≠ 0) v; putNode a1) k1 k2
        | "aput", [n, idx] => do
          let n ← n.toNat?
          let idx ← idx.toNat?
          some <| runLine name (do let a ← mkArray n; let v ← newStringLen (bytesN 3); pure (a, v))
            (fun (a, v) => arrayPutIdx a idx v)
            (fun (a, _) (a1, rc) => { res := arrRes a1 rc, same := if rc ≠ 0 then sameNode a a1 else "1", failed := rc ≠ 0 })
            (fun (_, v) (a1, rc) => do putIf (rc ≠ 0) v; putNode a1) k1 k2
        | "ains", [n, idx] => do
          let n ← n.toNat?
          let idx ← idx.toNat?
          some <| runLine name (do let a ← mkArray n; let v ← newStringLen (bytesN 3); pure (a, v))
            (fun (a, v) => arrayInsertIdx a idx v)
            (fun (a, _) (a1, rc) => { res := arrRes a1 rc, same := if rc ≠ 0 then sameNode a a1 else "1", failed := rc ≠ 0 })
            (fun (_, v) (a1, rc) => do putIf (rc ≠ 0) v; putNode a1) k1 k2
        | "ashrink", [n, e] => do
          let n ← n.toNat?
          let e ← e.toNat?
          some <| runLine name (mkArray n)
            (fun a => arrayShrink a e)
            (fun a (a1, rc) => { res := arrRes a1 rc, same := if rc ≠ 0 then sameNode a a1 else "1", failed := rc ≠ 0 })
            (fun _ (a1, _) => putNode a1) k1 k2
        | "lhnew", [sz] => do
          let sz ← sz.toNat?
          some <| runLine name (pure ()) (fun _ => lhNew sz)
            (fun _ t => { res := okNull t, failed := t.isNone })
            (fun _ t => match t with | some t => lhFree t | none => pure ()) k1 k2
        | "lhresize", [sz, n, ns] => do
          let sz ← sz.toNat?
          let n ← n.toNat?
          let ns ← ns.toNat?
          some <| runLine name
            (do match ← lhNew sz with
                | none => fault "setup"
                | some t => lhInserts n t)
            (fun t => lhResize t ns)
            (fun _ (t1, rc) => { res := s!"rc={rc} count={t1.count} size={t1.size}", same := "1", failed := rc ≠ 0 })
            (fun _ (t1, _) => lhFree t1) k1 k2
        | "lhins", [sz, n] => do
          let sz ← sz.toNat?
          let n ← n.toNat?
          some <| runLine name
            (do match ← lhNew sz with
                | none => fault "setup"
                | some t => lhInserts n t)
            (fun t => lhInsert t)
            (fun _ (t1, rc) => { res := s!"rc={rc} count={t1.count} size={t1.size}", same := "1", failed := rc ≠ 0 })
            (fun _ (t1, _) => lhFree t1) k1 k2
        | "new", [kind, arg] => do
          let arg ← parseInt? arg
          let mk : Option (A Node) := match kind with
            | "o" => some newObject
            | "a" => some (newArrayExt arg)
            | "s" => some (newStringLen (bytesN arg.toNat))
            | "d" => some (newDoubleS arg.toNat)
            | "b" => some (newPrim .boolean)
            | "i" => some (newPrim .int)
            | "f" => some (newPrim .double)
            | _ => none
          let mk ← mk
          some <| runLine (name ++ "-" ++ kind) (pure ()) (fun _ => mk)
            (fun _ o => { res := if nodeOk o then "ok" else "null", failed := !nodeOk o,
                          same := if kind = "s" ∧ nodeOk o then "1" else "-" })
            (fun _ o => putNode o) k1 k2
        | "oadd", [n, key, opts] => do
          let n ← n.toNat?
          let key ← ofHex key
          let opts ← opts.toNat?
          let isNew := opts &&& Generated.objectAddKeyIsNew ≠ 0
          let const := opts &&& Generated.objectAddConstantKey ≠ 0
          some <| runLine name (do let o ← mkObject n; let v ← newStringLen (bytesN 3); pure (o, v))
            (fun (o, v) => objectAddEx o key v isNew const)
            (fun (o, _) (o1, rc) => { res := objRes o1 rc, same := if rc ≠ 0 then sameNode o o1 else "1", failed := rc ≠ 0,
                                      cov := (match lhOf o, lhOf o1 with
                                        | some a, some b => if a.size ≠ b.size then ["table-grown"] else []
                                        | _, _ => []) })
            (fun (_, v) (o1, rc) => do putIf (rc ≠ 0) v; putNode o1) k1 k2
        | "sets", [a, b, c] => do
          let a ← a.toNat?
          let b ← parseInt? b
          let c ← c.toNat?
          some <| runLine name
            (do
              let o ← newStringLen (bytesN a)
              if b ≥ 0 then
                let (o1, _) ← setStringLen o (bytesN b.toNat)
                pure o1
              else pure o)
            (fun o => setStringLen o (List.replicate c 99))
            (fun o (o1, ret) =>
              let (len, ext) := match o1 with
                | .str _ s pd => (s.length, if pd.isSome then 1 else 0)
                | _ => (0, 0)
              { res := s!"ret={ret} len={len} ext={ext}", same := if ret ≠ 1 then sameNode o o1 else "1", failed := ret ≠ 1,
                cov := [if ext = 1 then "pdata" else "inline"] })
            (fun _ (o1, _) => putNode o1) k1 k2
        | "toknew", [d] => do
          let d ← parseInt? d
          some <| runLine name (pure ()) (fun _ => tokenerNewEx d)
            (fun _ t => { res := okNull t, failed := t.isNone, same := if t.isSome then "1" else "-" })
            (fun _ t => match t with | some t => tokenerFree t | none => pure ()) k1 k2
        | "copy", [tree] => do
          let tree ← JVal.parse tree
          some <| runLine name (mkTree tree) (fun src => deepCopy src)
            (fun _ (rc, dst) => { res := s!"rc={rc} dst=" ++ (if rc = 0 then "copy" else if nodeOk dst then "WRONG(dangling)" else "null"),
                                  same := "1", failed := rc ≠ 0 })
            (fun src (_, dst) => do putNode dst; putNode src) k1 k2
        | "ptrset", [tree, path, val] => do
          let tree ← JVal.parse tree
          let path ← ofHex path
          let val ← JVal.parse val
          some <| runLine name
            (do
              let root ← mkTree tree
              let v ← mkTree val
              pure (root, v, mkPlan root path))
            (fun (root, v, plan) => pointerSet root plan v)
            (fun (root, _, plan) (r1, rc) =>
              { res := s!"rc={rc}", same := if rc ≠ 0 then sameNode root r1 else "1", failed := rc ≠ 0,
                cov := [if plan.pathLen = 0 then "ptr-root" else if plan.multi then "ptr-multi" else "ptr-single"] })
            (fun (_, v, _) (r1, rc) => do putIf (rc ≠ 0) v; putNode r1) k1 k2
        | "parse", [_, _, _, _] => some (unmodelled name)
        | "ser", [tree, flags] => do
          let tree ← JVal.parse tree
          let flags ← flags.toNat?
          -- the fault-free text, from the same model
          let full : Option Bytes := match serialize tree flags grantAll {} with
            | .ok (some r, _) => r.text
            | _ => none
          match full with
          | none => some (unmodelled name)
          | some full =>
            if fullText tree flags ≠ some full then
              some { model := "FAULT fullText (the pure complete text) differs from the model's fault-free run" }
            else
            let o := runLine name (mkTree tree) (fun _ => serialize tree flags)
              (fun _ r => match r with
                | none => { res := "uncovered" }
                | some r => match r.text with
                  | none => { res := "text=none", same := "1", failed := true, cov := ["ser-none"] }
                  | some t =>
                    if t = full then { res := "text=full", same := "1", cov := [if r.dropped then "ser-dropped-harmless" else "ser-full"] }
                    else { res := s!"text=TRUNC len={t.length}/{full.length} got=" ++ String.join ((t.take 2000).map hexByte),
                           same := "1", cov := ["ser-truncated"] })
              (fun n r => do
                match r with
                | some { pb := some pb, .. } => pbFree pb
                | _ => pure ()
                putNode n) k1 k2
            some (if (o.model.splitOn "text=TRUNC").length > 1 then { o with tags := ["ser.unchecked-append"], spec := "text=none|text=full" } else o)
        | "patch", [_, _, _] => some (unmodelled name)
        | "construct", [_] => some (unmodelled name)
        | "asput", [_, _] => some (unmodelled name)
        | "pbspr", [_, _] => some (unmodelled name)
        | "asins", [_, _] => some (unmodelled name)
        | "ptrsetf", [_, _, _] => some (unmodelled name)
        | _, _ => none
      match out with
      | some o => ((), o)
      | none => bad
    | _, _, _ => bad
  | _ => bad

end Driver.Alloc
