import Driver.Patch
open Driver

def main : IO UInt32 := do
  runComponent ({} : Patch.St) Patch.step
  return 0
