-- stub: component `patch` not built yet
def main : IO UInt32 := do
  IO.eprintln "driver-patch: not implemented"
  return 2
