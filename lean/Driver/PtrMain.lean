import Driver.Ptr
open Driver

def main : IO UInt32 := do
  runComponent Ptr.init Ptr.step
  return 0
