-- stub: component `ptr` not built yet
def main : IO UInt32 := do
  IO.eprintln "driver-ptr: not implemented"
  return 2
