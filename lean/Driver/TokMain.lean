-- stub: component `tok` not built yet
def main : IO UInt32 := do
  IO.eprintln "driver-tok: not implemented"
  return 2
