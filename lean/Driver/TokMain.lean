import Driver.Tok
open Driver

def main : IO UInt32 := do
  runComponent Tok.init Tok.step
  return 0
