-- stub: component `locale` not built yet
def main : IO UInt32 := do
  IO.eprintln "driver-locale: not implemented"
  return 2
