import Driver.Locale
open Driver

def main : IO UInt32 := do
  runComponent Locale.init Locale.step
  return 0
