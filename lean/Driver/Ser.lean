import Driver.Common
import JsonC.Model.Serialize
import JsonC.Spec.SerSpec
import JsonC.Model.Tokener
import JsonC.Model.Equal
import JsonC.Libc.Dbl
/-! serializer component (C02): model (JsonC.Serialize, with `Dbl.fmtG17` as the libc `%.17g`) behind the line
protocol of harness/ser.c, and the specification's verdict (JsonC.SerSpec / Rfc8259) next to it. -/
namespace Driver.Ser
open JsonC JsonC.Serialize JsonC.SerSpec Driver

abbrev St := Unit
def init : St := ()

def fmt : UInt64 → Bytes := Dbl.fmtG17

def cstrlen (t : Bytes) : Nat := (t.takeWhile (· != 0)).length

def textFields (t : Bytes) : String := s!"{t.length} {cstrlen t} {toHex t}"

/-- the specification's verdict on a text for a tree: an independent reader (`Rfc8259.Text.ofBytes`, whose
answer is checked by re-rendering) must accept the colour-stripped text, the document it finds must denote
the tree, and the text must be the rendering of the explicit document `docOf` of the theorems -/
def specOf (flags : Nat) (v : JVal) (t : Bytes) : String :=
  let f := Fl.ofNat flags
  let plain := stripColor t
  let inScope := treeOk fmt v && roundTrips fmt Dbl.strtod v
  let rd := Rfc8259.Text.ofBytes plain
  let rfc := match rd with | some x => x.lead.isEmpty && x.trail.isEmpty | none => false
  let den := match rd with | some x => valEq x.doc.denote v | none => false
  let doc := match docOf fmt f 0 v with
    | some d => d.text == plain && d.ok && valEq d.denote v
    | none => false
  let b (x : Bool) : String := if x then "1" else "0"
  s!"scope={b inScope} rfc={b rfc} den={b den} doc={b doc} nul={b (t.contains 0)} utf8={b (Rfc8259.utf8Valid plain)} u8tree={b (utf8Tree v)}"

/-! coverage: which branches of the serializer the tree exercises -/

def strCov (pre : String) (s : Bytes) : List String :=
  (if s.any (fun b => b < 32 && b != 8 && b != 9 && b != 10 && b != 12 && b != 13) then [pre ++ "-u00"] else []) ++
  (if s.any (fun b => b == 8 || b == 9 || b == 10 || b == 12 || b == 13 || b == 34 || b == 92) then [pre ++ "-esc2"] else []) ++
  (if s.contains 0 then [pre ++ "-nul"] else []) ++
  (if s.contains 47 then [pre ++ "-slash"] else []) ++
  (if s.any (· ≥ 128) then [pre ++ (if Rfc8259.utf8Valid s then "-utf8" else "-badutf8")] else []) ++
  (if s.isEmpty then [pre ++ "-empty"] else [])

def dblCov (bits : UInt64) : List String :=
  if isNaN bits then ["dbl-nan"] else if isInf bits then ["dbl-inf"] else
  let t := fmt bits
  (if t.contains 101 then [if (t.dropWhile (· != 101)).length ≥ 5 then "dbl-exp3" else "dbl-exp2"] else []) ++
  (if t.contains 101 && t.getLast? == some 48 then ["dbl-exp-ends-0"] else []) ++
  (if t.contains 46 then ["dbl-frac"] else if t.contains 101 then ["dbl-exp-nofrac"] else ["dbl-integral"]) ++
  (if t.length ≥ 22 then ["dbl-17digits"] else []) ++
  (if bits.toNat % 2 ^ 63 == 0 then ["dbl-zero"] else if bits.toNat % 2 ^ 63 < 2 ^ 52 then ["dbl-subnormal"] else []) ++
  (if isNeg bits then ["dbl-neg"] else [])

mutual
  def covVal (lvl : Nat) : JVal → List String
    | .null => ["null"]
    | .bool _ => ["bool"]
    | .int s v => [if s then (if v < 0 then "int-neg" else "int") else (if v > INT64_MAX then "uint-big" else "uint")]
    | .dbl bits none => dblCov bits
    | .dbl _ (some t) => [if (dblTokenOfText t).isSome then "dbl-text" else "dbl-text-notdouble"]
    | .str s => strCov "str" s
    | .arr xs => (if xs.isEmpty then ["arr-empty"] else ["arr"]) ++ (if lvl ≥ 3 then ["deep"] else []) ++ covList (lvl + 1) xs
    | .obj kvs => (if kvs.isEmpty then ["obj-empty"] else ["obj"]) ++ (if lvl ≥ 3 then ["deep"] else []) ++ covMembers (lvl + 1) kvs
  def covList (lvl : Nat) : List JVal → List String
    | [] => []
    | x :: xs => covVal lvl x ++ covList lvl xs
  def covMembers (lvl : Nat) : List (Bytes × JVal) → List String
    | [] => []
    | (k, v) :: kvs => strCov "key" k ++ covVal lvl v ++ covMembers lvl kvs
end

def flagCov (flags : Nat) : List String :=
  let f := Fl.ofNat flags
  (if f.pretty then [if f.prettyTab then "pretty-tab" else "pretty"] else if f.spaced then ["spaced"] else ["plain"]) ++
  (if f.pretty && f.spaced then ["pretty+spaced"] else []) ++
  (if f.noZero then ["nozero"] else []) ++ (if f.noSlash then ["noslash"] else []) ++ (if f.color then ["color"] else [])

def cov (flags : Nat) (v : JVal) : List String := (flagCov flags ++ covVal 0 v).eraseDups

def opSer (flags : Nat) (v : JVal) : Out :=
  match serialize fmt flags v with
  | .fault why => { model := "FAULT " ++ why, spec := "no-fault" }
  | .ok t => { model := textFields t ++ " ## ext=1", spec := specOf flags v t, cov := cov flags v }

def opRt (flags : Nat) (v : JVal) : Out :=
  match serialize fmt flags v with
  | .fault why => { model := "FAULT " ++ why, spec := "no-fault" }
  | .ok t =>
    match Tokener.new 32 0 with
    | none => { model := "no-tokener" }
    | some tok =>
      let fin := Tokener.parseExZ Tokener.refLibc tok t
      let pre := (if fin.stuck then "STUCK " else "") ++ (match fin.fault with | some w => "FAULT " ++ w ++ " " | none => "")
      match fin.err, fin.value with
      | .success, some p =>
        let eq := Equal.equal v p
        let re := match serialize fmt flags p with | .ok t2 => t2 == t | .fault _ => false
        let b (x : Bool) : String := if x then "1" else "0"
        { model := pre ++ textFields t ++ s!" rt=0 end={fin.offset} eq={b eq} re={b re} ## {p.dump}",
          spec := specOf flags v t ++ s!" rt=0 eq=1 re=1 veq={b (valEq p v)} nest={nest v}",
          cov := (cov flags v ++ ["rt-ok"]).eraseDups }
      | e, _ =>
        { model := pre ++ textFields t ++ s!" rt={e.code} end={fin.offset} eq=- re=- ## -",
          spec := specOf flags v t ++ s!" rt=0 eq=1 re=1 veq=0 nest={nest v}",
          cov := (cov flags v ++ [s!"rt-err-{e.code}"]).eraseDups }

def parseBits (h : String) : Option UInt64 :=
  if h.length != 16 then none else
  (ofHex h).map fun bs => UInt64.ofNat (bs.foldl (fun acc b => acc * 256 + b.toNat) 0)

def opG17 (bits : UInt64) : Out :=
  if isNaN bits || isInf bits then { model := "nonfinite" } else
  let raw := fmt bits
  match serialize fmt 0 (.dbl bits none) with
  | .fault why => { model := "FAULT " ++ why, spec := "no-fault" }
  | .ok t =>
    let back := (Dbl.strtod t).1
    let b (x : Bool) : String := if x then "1" else "0"
    { model := s!"{toHex raw} {toHex t} {JVal.hex16 back} ## -",
      spec := s!"shape={b (g17Shape raw)} back={b (back == bits)} emitted={b (emittedDouble fmt bits == t)}",
      cov := (["g17"] ++ dblCov bits).eraseDups }

def step (_ : St) (w : List String) : St × Out :=
  match w with
  | ["ser", fl, tree] =>
    match fl.toNat?, JVal.parse tree with
    | some flags, some v => ((), opSer flags v)
    | _, _ => ((), { model := "bad-tree" })
  | ["rt", fl, tree] =>
    match fl.toNat?, JVal.parse tree with
    | some flags, some v => ((), opRt flags v)
    | _, _ => ((), { model := "bad-tree" })
  | ["cpd", fl, _tree, b2] =>
    -- a double with retained text, deep-copied, the copy set to another value: the copy prints the new value
    -- (json_object_set_double drops the retained text, also on a copy)
    match fl.toNat?, JVal.parse ("d" ++ b2) with
    | some flags, some v => ((), let o := opSer flags v; { o with cov := (o.cov ++ ["cpd"]) })
    | _, _ => ((), { model := "bad-tree" })
  | ["sset", fl, _h1, h2] =>
    match fl.toNat?, ofHex h2 with
    | some flags, some s => ((), let o := opSer flags (.str s); { o with cov := (o.cov ++ ["sset"]) })
    | _, _ => ((), { model := "bad-sset" })
  | ["g17", h] =>
    match parseBits h with
    | some bits => ((), opG17 bits)
    | none => ((), { model := "bad-op" })
  | _ => ((), { model := "bad-op" })

end Driver.Ser
