import Driver.Common
import JsonC.Model.FdIO
import JsonC.Spec.FdIO
/-! fd I/O component (C20): model (JsonC.FdIO) and spec (JsonC.FdSpec) side by side.
The driver has no serializer and no parser: the serialization comes on the op line (the harness checks
that it is what the library produces), and a read that reaches the parser is reported symbolically as
`PARSED … parse=<depth>:<buffer>` (the harness compares the descriptor result with its own in-memory
parse of the same bytes: `same=1`).  The message buffer is cleared before every op on both sides. -/
namespace Driver.Fdio
open JsonC JsonC.FdIO JsonC.FdSpec Driver

def errnoText (name : String) : Bytes := strBytes ("ERRNO=" ++ name)

/-- "full transfer" once the explicit schedule is used up -/
def huge : Nat := 2 ^ 62

/-- schedule syntax: `-` | comma list of `<n>` | `Z` (returns 0) | `E` (fails with EIO) -/
def parseSched (s : String) : Option (List WRes) :=
  if s = "-" then some []
  else (s.splitOn ",").mapM fun t =>
    if t = "E" then some (.err (errnoText "EIO"))
    else if t = "I" then some (.err (errnoText "EINTR"))      -- a failed call is a failed call, whatever its errno:
    else if t = "A" then some (.err (errnoText "EAGAIN"))     -- json-c does not retry, the error is reported
    else if t = "Z" then some (.n 0)
    else t.toNat?.map .n

def parseOpen (s : String) (fd : Int) : OpenRes :=
  if s = "ok" then .fd fd else .err (errnoText s)

/-- the serializer parameter: the op line carries its output -/
def serOf (ser : String) : Option (Unit → Int → Option Bytes) :=
  if ser = "NULL" then some (fun _ _ => none)
  else (ofHex ser).map fun b => (fun _ _ => some b)

def showCalls (cs : List WCall) : String :=
  if cs.isEmpty then "-"
  else ";".intercalate (cs.map fun c =>
    s!"{c.off}:{c.req}:" ++ (match c.got with | some b => toString b.length | none => "E"))

def showReads (rs : List (Nat × Int)) : String :=
  if rs.isEmpty then "-" else ";".intercalate (rs.map fun (a, b) => s!"{a}:{b}")

def wCov (sched : List WRes) (o : WOut) : List String :=
  let short := o.calls.any fun c => match c.got with | some b => b.length < c.req | none => false
  let zero := o.calls.any fun c => match c.got with | some b => b.length == 0 | none => false
  (if o.ret == some 0 then ["w-complete"] else if o.ret == some (-1) then ["w-failed"] else ["w-pending"])
  ++ (if short then ["w-short"] else [])
  ++ (if zero then ["w-zero-return"] else [])
  ++ (if o.calls.length == 0 then ["w-0calls"] else if o.calls.length == 1 then ["w-1call"]
      else if o.calls.length < 10 then ["w-few-calls"] else ["w-many-calls"])
  ++ (if o.ret == some (-1) ∧ o.calls.length ≥ 2 then ["w-error-after-partial"] else [])
  ++ (if o.ret == some (-1) ∧ o.calls.length == 1 then ["w-error-first-call"] else [])
  ++ (if sched.length > o.calls.length then ["w-sched-left"] else ["w-sched-used-up"])

def writeOp (isFile : Bool) (flags tree ser path opn sched : String) : Out :=
  match parseInt? flags, serOf ser, parseSched sched, ofHex path with
  | some fl, some serF, some sc, some pth =>
    let obj : Option Unit := if tree = "n" then none else some ()
    let sc' := sc ++ [.n huge]
    let r := if isFile then toFileExt serF [] pth obj fl (parseOpen opn 3) sc' else toFd serF [] obj fl sc'
    match r with
    | .fault w => { model := "FAULT " ++ w, spec := "no-fault" }
    | .ok o =>
      match o.ret with
      | none => { model := "PENDING", spec := "*" }
      | some ret =>
        let errS := if o.lastErr.isEmpty then "0" else "1"
        let serS := if obj.isNone then "-" else "ok"
        let fileS := if !isFile then "" else
          if opn ≠ "ok" then " file=-" else if obj.isNone then " file=absent" else " file=1"
        let mline := s!"{ret} {toHex (delivered o)} err={errS} fds={o.fdsLeft} leak=0 ## calls={showCalls o.calls} msg={toHex o.lastErr} ser={serS}{fileS}"
        -- specification: independent of the loop
        let sline :=
          if obj.isNone ∨ ser = "NULL" then "*"
          else if isFile ∧ opn ≠ "ok" then "-1 - err=1 fds=0 leak=0"
          else match ofHex ser with
            | none => "*"
            | some s =>
              let (sr, sd) := specWrite (cstr s) (sc'.map fun | .n k => some k | .err _ => none)
              match sr with
              | some v => s!"{v} {toHex sd} err={if v == 0 then "0" else "1"} fds=0 leak=0"
              | none => "*"
        let cov := (if obj.isNone then ["w-null-object"] else if ser = "NULL" then ["w-serializer-null"] else [])
          ++ (if isFile then [if opn = "ok" then "w-file-open-ok" else "w-file-open-fails"] else [])
          ++ wCov sc o
        { model := mline, spec := sline, cov := cov }
  | _, _, _, _ => { model := "bad-op" }

/-- the tokener parameter: creation fails below depth 1 (json_tokener_new_ex); the parse result is left
symbolic (the driver has no parser) -/
def env : Env Unit :=
  { tokNew := fun d => if d < 1 then .fail (errnoText "0") else .ok
    parse := fun _ _ => ⟨some (), 0⟩
    errDesc := fun _ => []
    strerror := fun e => errnoText (toString e) }

def rCov (inDepth : Option Int) (data : Bytes) (sc : List WRes) (o : ROut Unit) : List String :=
  let pieces := o.reads.filter fun (_, r) => r > 0
  (match inDepth with | none => ["r-from_fd"] | some d => [if d = -1 then "r-depth-minus1" else "r-depth-given"])
  ++ (if o.parsed.isSome then ["r-parser-reached"] else if o.reads.isEmpty then ["r-no-read"] else ["r-io-error"])
  ++ (if pieces.length == 0 then ["r-0pieces"] else if pieces.length == 1 then ["r-1piece"]
      else if pieces.length < 10 then ["r-few-pieces"] else ["r-many-pieces"])
  ++ (if pieces.any (fun (_, r) => r == Generated.fileBufSize) then ["r-full-buffer-piece"] else [])
  ++ (if pieces.any (fun (_, r) => r < Generated.fileBufSize) then ["r-short-piece"] else [])
  ++ (match o.parsed with
      | some (_, b) => (if b.length < data.length then ["r-early-eof"] else []) ++
                       (if b.length > Generated.fileBufSize then ["r-more-than-one-buffer"] else []) ++
                       (if b.length == 0 then ["r-empty-input"] else [])
      | none => [])
  ++ (if sc.any (fun | .err _ => true | _ => false) ∧ o.parsed.isSome then ["r-error-never-reached"] else [])

def readOp (isFile : Bool) (depthS path opn dataS sched : String) : Out :=
  let inDepth : Option (Option Int) :=
    if isFile ∨ depthS = "d" then some none else (parseInt? depthS).map some
  match inDepth, ofHex dataS, parseSched sched, ofHex path with
  | some inD, some data, some sc, some pth =>
    let sizes := (sc.map fun | .n k => some k | .err _ => none)
      ++ List.replicate (data.length / Generated.fileBufSize + 2) (some huge)
    -- (reading stops at the first failed call: its errno text is the one the message carries)
    let etxt := (sc.findSome? fun | .err t => some t | _ => none).getD (errnoText "EIO")
    let pieces : List RRes := (serve Generated.fileBufSize data sizes).map fun
      | some p => .data p
      | none => .err etxt
    let r := if isFile then fromFile env [] pth (parseOpen opn 1000) pieces
      else match inD with
        | none => fromFd env [] 77 pieces
        | some d => fromFdEx env [] 77 d pieces
    match r with
    | .fault w => { model := "FAULT " ++ w, spec := "no-fault" }
    | .ok o =>
      if !o.done then { model := "PENDING", spec := "*" }
      else
        let mline := match o.parsed with
          | some (d, b) =>
            s!"PARSED err=- same=1 fds={o.fdsLeft} leak={o.live.length} ## reads={showReads o.reads} parse={d}:{toHex b} msg=P"
          | none =>
            let errS := if o.lastErr.isEmpty then "0" else "1"
            s!"NULL err={errS} same=- fds={o.fdsLeft} leak={o.live.length} ## reads={showReads o.reads} parse=- msg={toHex o.lastErr}"
        -- specification: independent of print buffer and loop
        let depthEff : Int := match inD with | some d => if d = -1 then Generated.tokenerDefaultDepth else d | none => Generated.tokenerDefaultDepth
        let sline :=
          if isFile ∧ opn ≠ "ok" then "NULL err=1 same=- fds=0 leak=0"
          else if depthEff < 1 then "NULL err=1 same=- fds=0 leak=0"
          else match specRead (serve Generated.fileBufSize data sizes) [] with
            | .pending => "*"
            | .ioError => "NULL err=1 same=- fds=0 leak=0"
            | .parse _ => "PARSED err=- same=1 fds=0 leak=0"
        let cov := (if isFile then [if opn = "ok" then "r-file-open-ok" else "r-file-open-fails"] else [])
          ++ rCov (if isFile then none else inD) data sc o
        { model := mline, spec := sline, cov := cov }
  | _, _, _, _ => { model := "bad-op" }

def step (_ : Unit) (w : List String) : Unit × Out :=
  let o : Out := match w with
    | ["write", flags, tree, ser, sched] => writeOp false flags tree ser "-" "ok" sched
    | ["tofile", flags, tree, ser, path, opn, sched] => writeOp true flags tree ser path opn sched
    | ["read", depth, data, sched] => readOp false depth "-" "ok" data sched
    | ["fromfile", path, opn, data, sched] => readOp true "d" path opn data sched
    -- real pipes: the kernel chooses the schedule; by read_eq_memory_parse / write_exact the outcome does
    -- not depend on it
    | ["rpipe", depth, _, _] =>
      (match parseInt? depth with
       | some d => if (if d = -1 then (Generated.tokenerDefaultDepth : Int) else d) < 1
                   then { model := "bad-op" }
                   else { model := "PARSED err=- same=1 ## real", spec := "PARSED err=- same=1", cov := ["r-real-pipe"] }
       | none => { model := "bad-op" })
    | ["wpipe", _, _, _] => { model := "wpipe-ok ## real", spec := "wpipe-ok", cov := ["w-real-pipe"] }
    | _ => { model := "bad-op" }
  ((), o)

end Driver.Fdio
