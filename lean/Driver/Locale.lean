import Driver.Common
import JsonC.Model.Locale
import JsonC.Libc.Dbl
/-! locale component (C14): predicts, from the model (JsonC.Locale), what the wrapped libc locale calls
and the caller-visible locale state look like around each library call, and — for a single double —
the serialized bytes (reference `%.17g` from JsonC/Libc/Dbl + the model's post-processing).
Value observables that only the two locale runs can give (`eq=`) are echoed as the spec demands. -/
namespace Driver.Locale
open JsonC JsonC.Locale Driver

structure St where
  glob : Numeric := .C            -- setlocale(LC_ALL, …)
  thr : Option Numeric := none    -- the harness' per-thread locale object (`U`), if installed
  thrStatic : Bool := false       -- … and it is glibc's static C-locale object (handles not canonical: live=* t=*)
  hasTok : Bool := false
  customG : Bool := false         -- json_c_set_serialization_double_format(…, GLOBAL) active
  customT : Bool := false         -- … THREAD

def init : St := {}

/-- the model state the harness is in before a library call: object 0 is the caller's own -/
def St.lstate (s : St) : LState :=
  match s.thr with
  | none => ⟨.global, [], 1, s.glob⟩
  | some n => ⟨.obj 0, [(0, n)], 1, s.glob⟩

def numName : Numeric → String
  | .C => "C" | .comma => "comma"

def handleName : Handle → String
  | .global => "G"
  | .obj 0 => "U"
  | .obj (k + 1) => String.singleton (Char.ofNat (97 + k))

def optName : Option Handle → String
  | none => "0"
  | some h => handleName h

def evName : Ev → String
  | .uselocale a r => s!"u({optName a})={handleName r}"
  | .duplocale a r => s!"d({handleName a})={optName r}"
  | .newlocale b r => s!"n({optName b})={optName r}"
  | .freelocale a => s!"f({optName a})"

def traceStr (t : List Ev) : String :=
  if t.isEmpty then "-" else ",".intercalate (t.map evName)

def parseNumeric : String → Option Numeric
  | "C" => some .C | "comma" => some .comma | _ => none

def parseInj : String → Option Inj
  | "-" => some ⟨.ok, true⟩
  | "d" => some ⟨.enomem, true⟩
  | "o" => some ⟨.failOther, true⟩
  | "n" => some ⟨.ok, false⟩
  | "on" => some ⟨.failOther, false⟩
  | s => if s.startsWith "m" then some ⟨.ok, true⟩ else none   -- m<k>: an allocation of the parser fails; the locale calls succeed

/-- caller-visible part: `h=<before>><after> pf=<before>><after> live=<delta>` -/
def visible (s0 s1 : LState) : String :=
  let d : Int := (s1.live.length : Int) - s0.live.length
  let ds := if d ≥ 0 then s!"+{d}" else toString d
  s!"h={handleName s0.cur}>{handleName s1.cur} pf={numName (effective s0)}>{numName (effective s1)} live={ds}"

/-- what the property demands of any library call: nothing visible changes, values equal the C-locale run,
every strtod ran with `.` as the radix character -/
def specLine (s0 : LState) : String := visible s0 s0 ++ " eq=1 sd=ok"

/-- with glibc's static C-locale object as the caller's locale, duplocale/newlocale return that same pointer:
the harness cannot name the objects, so the live count and the call list are not compared -/
def starLive (l : String) : String :=
  match l.splitOn " live=" with
  | [a, b] => a ++ " live=*" ++ String.join ((b.splitOn " ").drop 1 |>.map (" " ++ ·))
  | _ => l

def hexDigitVal (c : Char) : Option Nat := hexVal c

def parseBits (h : String) : Option UInt64 :=
  if h.length ≠ 16 then none else
  h.toList.foldlM (fun (acc : Nat) c => (hexVal c).map (acc * 16 + ·)) 0 |>.map UInt64.ofNat

/-- the comma locale's output under the hypothesis of `comma_fixup`: the first `.` written as `,` -/
def withComma : Bytes → Bytes
  | [] => []
  | x :: xs => if x = cPoint then cComma :: xs else x :: withComma xs

/-- bytes json_object_to_json_string_ext gives for a lone double built with json_object_new_double -/
def serDouble (num : Numeric) (nozero : Bool) (bits : UInt64) : String × List String :=
  let be := ((bits >>> 52) &&& 0x7FF).toNat
  let frac := (bits &&& 0xFFFFFFFFFFFFF).toNat
  let neg := (bits >>> 63) == 1
  if be == 0x7FF then (toHex (nonFinite (frac != 0) neg), ["ser-nonfinite"])
  else
    let c := JsonC.Dbl.fmtG17 bits
    let out := match num with | .C => c | .comma => withComma c
    let cov := (if out.contains cPoint || out.contains cComma then ["ser-frac"] else ["ser-integral"]) ++
      (if out.contains cLowerE then ["ser-exp"] else []) ++ (if nozero then ["ser-nozero"] else [])
    match post nozero true out with
    | .ok b => (toHex b, cov)
    | .fault w => ("FAULT:" ++ w, cov)

def step (s : St) (w : List String) : St × Out :=
  let ls := s.lstate
  let modeCov := ["glob-" ++ numName s.glob,
    "thr-" ++ (if s.thrStatic then "cstatic" else match s.thr with | none => "global" | some n => numName n)]
  match w with
  | ["glob", n] =>
    match parseNumeric n with
    | none => (s, { model := "bad-op" })
    | some n =>
      let s' := { s with glob := n }
      let l := "ok pf=" ++ numName (effective s'.lstate)
      (s', { model := l, spec := l, cov := ["op-glob"] })
  | ["thr", n] =>
    let t : Option (Option Numeric) :=
      if n = "global" then some none else if n = "cstatic" then some (some .C) else (parseNumeric n).map some
    match t with
    | none => (s, { model := "bad-op" })
    | some t =>
      let s' := { s with thr := t, thrStatic := n = "cstatic" }
      let l := "ok pf=" ++ numName (effective s'.lstate)
      (s', { model := l, spec := l, cov := ["op-thr"] })
  | ["tok", _, _] => ({ s with hasTok := true }, { model := "ok", spec := "ok", cov := ["op-tok"] })
  | ["reset"] => if s.hasTok then (s, { model := "ok", spec := "ok", cov := ["op-reset"] }) else (s, { model := "bad-op" })
  | ["fmt", scope, f] =>
    let on := f ≠ "-"
    let s' := if scope = "g" then { s with customG := on } else { s with customT := on }
    (s', { model := "ok", spec := "ok", cov := ["op-fmt"] })
  | ["px", inj, cls, lenMode, _] =>
    match (if s.hasTok then parseInj inj else none) with
    | none => (s, { model := "bad-op" })
    | some inj =>
      let sizeOk := lenMode ≠ "bad"
      let exit : Exit := if cls = "success" ∨ cls = "continue" then .loopEnd else .gotoOut
      match parseEx ls sizeOk inj exit 0 with
      | .fault why =>
        -- the model has nothing to say (undefined behaviour predicted, or the source no longer has the skeleton it
        -- transcribes); what the property demands of the call still stands and is compared with the implementation
        (s, { model := "FAULT " ++ why, spec := (if s.thrStatic then starLive (specLine ls) else specLine ls), cov := ["model-fault"] })
      | .ok r =>
        let err := match r.via with
          | .sizeCheck => "size"
          | .dupEnomem | .newlocaleFailed => "memory"
          | _ => cls
        let via := match r.via with
          | .sizeCheck => "via-size-check" | .dupEnomem => "via-dup-enomem" | .newlocaleFailed => "via-newlocale-failed"
          | .earlyReturn => "via-early-return" | .commonExit => "via-out"
        let m := if s.thrStatic then starLive (visible ls r.ctx.st) ++ " eq=1 sd=ok ## t=* err=" ++ err
          else visible ls r.ctx.st ++ " eq=1 sd=ok ## t=" ++ traceStr r.ctx.trace ++ " err=" ++ err
        (s, { model := m, spec := (if s.thrStatic then starLive (specLine ls) else specLine ls),
              cov := ["op-px", "class-" ++ err, via, "inj-" ++ (if inj = ⟨.ok, true⟩ then "none" else "fail")] ++ modeCov ++
                (if r.bodyNumeric = some .C ∧ effective ls = .comma then ["body-C-under-comma"] else []) })
  | ["ser", flags, bits] =>
    match flags.toNat?, parseBits bits with
    | some fl, some b =>
      let nozero := fl &&& Generated.toStringNoZero != 0
      let (out, cov) := if s.customG || s.customT then ("*", ["ser-custom-format"]) else serDouble (effective ls) nozero b
      let sp := if s.thrStatic then starLive (specLine ls) else specLine ls
      (s, { model := sp ++ " ## t=" ++ (if s.thrStatic then "*" else "-") ++ " out=" ++ out, spec := sp, cov := ["op-ser"] ++ cov ++ modeCov })
    | _, _ => (s, { model := "bad-op" })
  | ["sert", _, _] =>
    let sp := if s.thrStatic then starLive (specLine ls) else specLine ls
    (s, { model := sp ++ " ## t=" ++ (if s.thrStatic then "*" else "-") ++ " out=*", spec := sp, cov := ["op-sert"] ++ modeCov })
  | _ => (s, { model := "bad-op" })

end Driver.Locale
