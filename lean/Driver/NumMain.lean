import Driver.Num
open Driver

def main : IO UInt32 := do
  runComponent () Num.step
  return 0
