-- stub: component `num` not built yet
def main : IO UInt32 := do
  IO.eprintln "driver-num: not implemented"
  return 2
