import Driver.Common
import JsonC.Model.Arraylist
import JsonC.Spec.Seq
/-! arraylist component: model (JsonC.Arraylist) and spec (JsonC.Seq) side by side.

Two op families share the model: `new add put ins del shrink get len sort bs free` drive arraylist.c
directly; `jnew jadd …` drive the json_object array API (thin wrappers over the same functions; the
release log is then an unordered multiset, printed sorted, and bsearch returns the element only).

Spec field = alternatives separated by ` || `: every alternative is an answer the property allows
when memory is available; an alternative prefixed `oom:` is allowed only when the harness saw its
allocator refuse a request during the op (tools/props/c07.py compares). -/
namespace Driver.Al
open JsonC JsonC.Arraylist Driver

def limitMin : Nat := 256
def limitDefault : Nat := 8 * 1024 * 1024

structure St where
  al : Option Al := none
  spec : Seq.Seq := []
  jal : Option Al := none
  jspec : Seq.Seq := []
  limit : Nat := limitDefault
  faulted : Bool := false

def init : St := {}

def envOf (limit : Nat) : Env :=
  { alloc := fun bytes => decide (bytes ≤ limit), qs := Seq.sort Seq.leId, bs := Seq.bsearch Seq.leId }

def elemOf (n : Nat) : Elem := if n = 0 then none else some n
def elemStr : Elem → String
  | none => "0"
  | some x => toString x

def idsStr (xs : List Nat) : String := "[" ++ ",".intercalate (xs.map toString) ++ "]"

def sparse (es : List Elem) : String :=
  let (_, acc) := es.foldl (fun (p : Nat × Array String) e =>
    match e with
    | none => (p.1 + 1, p.2)
    | some x => (p.1 + 1, p.2.push s!"{p.1}:{x}")) (0, #[])
  "[" ++ ",".intercalate acc.toList ++ "]"

def sortNat (xs : List Nat) : List Nat := (xs.toArray.qsort (· < ·)).toList

/-- `<len> [i:e,…] end:a,b,c rel:[…]` from the model, read back through get_idx only -/
def modelState (a : Al) (rel : List Nat) : Outcome String := do
  -- get_idx(i) for every i < length (= a bounds- and initialisation-checked read of array[i])
  let es ← readRange a a.length "get_idx: array[i]"
  let e1 ← getIdx a a.length
  let e2 ← getIdx a (a.length + 1)
  let e3 ← getIdx a SIZE_T_MAX
  pure s!"{a.length} {sparse es} end:{elemStr e1},{elemStr e2},{elemStr e3} rel:{idsStr rel}"

def specState (s : Seq.Seq) (rel : List Nat) : String :=
  s!"{s.length} {sparse s} end:{elemStr (Seq.get s s.length)},{elemStr (Seq.get s (s.length + 1))},{elemStr (Seq.get s SIZE_T_MAX)} rel:{idsStr rel}"

inductive POp where
  | op (o : Op)
  | sortd      -- sort with the comparator answering in descending order (same run, another environment)
  | free
  deriving Repr

def parseOp (j : Bool) (w : List String) : Option POp :=
  let w := if j then (match w with | x :: rest => (x.drop 1).toString :: rest | [] => []) else w
  match w with
  | ["add", v] => do pure (.op (.add (elemOf (← v.toNat?))))
  | ["put", i, v] => do pure (.op (.put (← i.toNat?) (elemOf (← v.toNat?))))
  | ["ins", i, v] => do pure (.op (.ins (← i.toNat?) (elemOf (← v.toNat?))))
  | ["del", i, n] => do pure (.op (.del (← i.toNat?) (← n.toNat?)))
  | ["shrink", n] => do pure (.op (.shrink (← n.toNat?)))
  | ["get", i] => do pure (.op (.get (← i.toNat?)))
  | ["len"] => some (.op .len)
  | ["sort"] => some (.op .sort)
  | ["sortd"] => some .sortd
  | ["bs", k] => do pure (.op (.bsearch (elemOf (← k.toNat?))))
  | ["free"] => some .free
  | _ => none

/-- the comparator of `sortd`: the reverse of `leId` -/
def geId (a b : Elem) : Bool := Seq.leId b a

def isSorted : Seq.Seq → Bool
  | [] => true
  | [_] => true
  | a :: b :: rest => Seq.leId a b && isSorted (b :: rest)

/-- the answers the specification allows: (result text, sequence after, released) for a served and
for a refused request, and the verdict -/
structure SpecAns where
  alts : List (String × Seq.Seq × List Nat)
  oomAlts : List (String × Seq.Seq × List Nat) := []

def served (v : Seq.Verdict) (ok refuse : String × Seq.Seq × List Nat) : SpecAns :=
  match v with
  | .mustServe => { alts := [ok], oomAlts := [refuse] }
  | .mustRefuse => { alts := [refuse] }
  | .either => { alts := [ok, refuse] }

/-- sequences longer than this are never materialised by the driver: the harness caps allocations
far below, so a served answer of that length cannot be observed in a run; it is rendered as a
placeholder that no implementation line equals -/
def bigLen : Nat := 4 * 1024 * 1024

def tooLong (s : Seq.Seq) : String × Seq.Seq × List Nat := ("r=0 <longer than the run can hold>", s, [])

def specStep (j : Bool) (s : Seq.Seq) : Op → SpecAns
  | .add v => served (Seq.fits (s.length + 1)) ("r=0", Seq.add s v, []) ("r=-1", s, [])
  | .put i v =>
    served (Seq.fits (i + 1)) (if i > bigLen then tooLong s else ("r=0", Seq.put s i v, Seq.putReleased s i)) ("r=-1", s, [])
  | .ins i v =>
    if i < s.length then served (Seq.fits (s.length + 1)) ("r=0", Seq.insert s i v, []) ("r=-1", s, [])
    else served (Seq.fits (i + 1)) (if i > bigLen then tooLong s else ("r=0", Seq.insert s i v, Seq.putReleased s i)) ("r=-1", s, [])
  | .del i n =>
    if Seq.delOk s i n then { alts := [("r=0", Seq.del s i n, Seq.delReleased s i n)] }
    else { alts := [("r=-1", s, [])] }
  | .shrink n => served (Seq.fits (s.length + n)) ("r=0", s, []) ("r=-1", s, [])
  | .get i => { alts := [("v=" ++ elemStr (Seq.get s i), s, [])] }
  | .len => { alts := [(s!"n={s.length}", s, [])] }
  | .sort => { alts := [("r=0", Seq.sort Seq.leId s, [])] }
  | .bsearch k =>
    let hit := if j then (match k with | none => "f=-" | some x => s!"f={x}") else "f=" ++ elemStr k
    let present := s.any (fun e => Seq.equiv Seq.leId k e)
    if isSorted s then { alts := [(if present then hit else "f=-", s, [])] }
    else if present then { alts := [(hit, s, []), ("f=-", s, [])] }
    else { alts := [("f=-", s, [])] }

def resultStr (j : Bool) (op : Op) (r : Res) : String :=
  match op with
  | .get _ => "v=" ++ elemStr r.val
  | .len => s!"n={r.ret}"
  | .sort => "r=0"
  | .bsearch _ =>
    if r.ret = 0 then "f=-"
    else if j then (match r.val with | none => "f=-" | some x => s!"f={x}")
    else "f=" ++ elemStr r.val
  | _ => s!"r={r.ret}"

def covOf (a : Al) (s : Seq.Seq) (op : Op) (r : Res) : List String :=
  let grow := if r.al.size > a.size then [if r.al.size = 2 * a.size then "grow-double" else "grow-to-max"]
              else if r.al.size < a.size then ["capacity-down"] else []
  let rel := if r.released.isEmpty then [] else ["released"]
  let full := if r.al.length = r.al.size then ["full"] else []
  let cap0 := if a.size = 0 then ["cap0"] else []
  let failed := match op with
    | .add _ | .put .. | .ins .. | .del .. | .shrink _ => if r.ret ≠ 0 then ["refused"] else []
    | _ => []
  let kind := match op with
    | .add _ => ["add"]
    | .put i _ => [if i < s.length then "put-overwrite" else if i = s.length then "put-at-end" else "put-gap"]
    | .ins i _ => [if i < s.length then "ins-shift" else if i = s.length then "ins-at-end" else "ins-gap"]
    | .del i n => [if Seq.delOk s i n then (if n = 0 then "del-empty" else if i + n = s.length then "del-tail" else "del-middle")
                   else if i + n > SIZE_T_MAX then "del-overflow" else "del-range"]
    | .shrink n => [if s.length + n = a.size then "shrink-same" else if s.length + n > a.size then "shrink-grows" else "shrink-down"]
    | .get i => [if i < s.length then "get" else "get-past-end"]
    | .len => ["len"]
    | .sort => [if isSorted s then "sort-sorted" else "sort"]
    | .bsearch _ => [if isSorted s then (if r.ret = 0 then "bs-miss" else "bs-hit") else "bs-unsorted"]
  kind ++ grow ++ rel ++ full ++ cap0 ++ failed

def renderAlts (j : Bool) (ans : SpecAns) : String :=
  let f := fun (p : String × Seq.Seq × List Nat) =>
    p.1 ++ " " ++ specState p.2.1 (if j then sortNat p.2.2 else p.2.2)
  " || ".intercalate (ans.alts.map f ++ ans.oomAlts.map (fun p => "oom:" ++ f p))

/-- pick the spec alternative to continue with: the one whose result text the model produced
(the comparison against the implementation happens in the check, this only keeps the spec state
in step on inputs where several answers are allowed) -/
def pickAlt (ans : SpecAns) (res : String) : Option (Seq.Seq) :=
  match (ans.alts ++ ans.oomAlts).find? (fun p => p.1 = res) with
  | some p => some p.2.1
  | none => none

def stepWith (j : Bool) (env : Env) (specOf : Seq.Seq → SpecAns) (a : Al) (s : Seq.Seq) (op : Op) :
    Option (Option Al × Seq.Seq) × Out :=
    match Arraylist.step env a op with
    | .fault why => (none, { model := "FAULT " ++ why, spec := "no-fault" })
    | .ok r =>
      let rel := if j then sortNat r.released else r.released
      match modelState r.al rel with
      | .fault why => (none, { model := "FAULT " ++ why, spec := "no-fault" })
      | .ok st =>
        let res := resultStr j op r
        let pos := match op with
          | .bsearch _ => if j then "" else (match r.pos with | some i => s!" pos={i}" | none => " pos=-")
          | _ => ""
        let m := s!"{res} {st} ## {r.al.size}{pos}"
        let ans := specOf s
        let s' := match pickAlt ans res with | some s' => s' | none => s
        let oom := if (ans.alts.find? (fun p => p.1 = res)).isNone ∧ (ans.oomAlts.find? (fun p => p.1 = res)).isSome
                   then ["allocator-refused"] else []
        (some (some r.al, s'), { model := m, spec := renderAlts j ans, cov := covOf a s op r ++ oom })


def stepOp (j : Bool) (limit : Nat) (a : Al) (s : Seq.Seq) (p : POp) : Option (Option Al × Seq.Seq) × Out :=
  match p with
  | .free =>
    match Arraylist.free a with
    | .fault why => (none, { model := "FAULT " ++ why, spec := "no-fault" })
    | .ok rel =>
      let m := "freed rel:" ++ idsStr (if j then sortNat rel else rel) ++ " ## -"
      let sp := "freed rel:" ++ idsStr (if j then sortNat (Seq.freeReleased s) else Seq.freeReleased s)
      (some (none, []), { model := m, spec := sp, cov := ["free"] ++ (if rel.isEmpty then [] else ["released"]) })
  | .sortd => stepWith j { envOf limit with qs := Seq.sort geId } (fun s => { alts := [("r=0", Seq.sort geId s, [])] }) a s .sort
  | .op op => stepWith j (envOf limit) (fun s => specStep j s op) a s op

def doNew (limit : Nat) (capStr : String) : Option (Option Al) × Out :=
  match parseInt? capStr with
  | none => (none, { model := "bad-op" })
  | some cap =>
    -- atoi: the generator stays inside int
    match new2 (envOf limit).alloc cap with
    | .fault why => (none, { model := "FAULT " ++ why, spec := "no-fault" })
    | .ok none =>
      (some none, { model := "new null ## -", spec := if cap < 0 then "new null" else "new ok || oom:new null",
                    cov := ["new-refused"] })
    | .ok (some a) =>
      (some (some a), { model := s!"new ok ## {a.size}", spec := if cap < 0 then "new null" else "new ok || oom:new null",
                        cov := [if cap = 0 then "new-cap0" else "new"] })

def step (s : St) (w : List String) : St × Out :=
  if s.faulted then (s, { model := "model-faulted-earlier" })
  else
  match w with
  | ["limit", n] =>
    match n.toNat? with
    | some b => ({ s with limit := if b < limitMin then limitMin else b }, { model := "ok", spec := "ok", cov := ["limit"] })
    | none => (s, { model := "bad-op" })
  | ["new", cap] =>
    match doNew s.limit cap with
    | (some a, o) => ({ s with al := a, spec := [] }, o)
    | (none, o) => ({ s with faulted := o.model.startsWith "FAULT" }, o)
  | ["jnew", cap] =>
    match doNew s.limit cap with
    | (some a, o) => ({ s with jal := a, jspec := [] }, o)
    | (none, o) => ({ s with faulted := o.model.startsWith "FAULT" }, o)
  | op :: _ =>
    let j := op.startsWith "j"
    match parseOp j w with
    | none => (s, { model := "bad-op" })
    | some p =>
      match (if j then s.jal else s.al) with
      | none => (s, { model := "no-list", spec := "no-list" })
      | some a =>
        -- json_object_array_shrink takes an int and aborts on a negative one; the generator sends 0 ≤ n ≤ INT_MAX
        match stepOp j s.limit a (if j then s.jspec else s.spec) p with
        | (none, o) => ({ s with faulted := true }, o)
        | (some (a', sp'), o) =>
          if j then ({ s with jal := a', jspec := sp' }, o) else ({ s with al := a', spec := sp' }, o)
  | [] => (s, { model := "bad-op" })

end Driver.Al
