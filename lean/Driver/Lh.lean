import Driver.Common
import JsonC.Model.Linkhash
import JsonC.Spec.OrdMap
/-! linkhash / object component: model (JsonC.Linkhash) and spec (JsonC.OrdMap) side by side.
Keys are byte strings (C strings), values are ints (−1 = NULL at the object layer). -/
namespace Driver.Lh
open JsonC JsonC.Linkhash Driver

abbrev Key := Bytes
abbrev Val := Int

/-! ### the hash functions of the harness (the theorems quantify over every `hash : K → Nat`;
the driver needs the concrete ones the C side was given) -/

/-- leading decimal digits (at most 9) as a number -/
def atoiKey (k : Key) : Nat :=
  let rec go : List UInt8 → Nat → Nat → Nat
    | [], acc, _ => acc
    | _, acc, 0 => acc
    | c :: cs, acc, n + 1 => if 48 ≤ c.toNat ∧ c.toNat ≤ 57 then go cs (acc * 10 + (c.toNat - 48)) n else acc
  go k 0 9

/-- lh_perllike_str_hash: `unsigned hashval = 1; while (*rkey) hashval = hashval * 33 + *rkey++;`
(`char` is signed on this target: bytes ≥ 0x80 are sign-extended before the unsigned addition) -/
def perlHash (k : Key) : Nat :=
  (k.foldl (fun (h : UInt32) c =>
    h * 33 + (if c.toNat ≥ 128 then UInt32.ofNat (4294967296 - 256 + c.toNat) else UInt32.ofNat c.toNat)) 1).toNat

def rot (x : UInt32) (k : UInt32) : UInt32 := (x <<< k) ||| (x >>> (32 - k))

def mix (a b c : UInt32) : UInt32 × UInt32 × UInt32 :=
  let a := a - c; let a := a ^^^ rot c 4; let c := c + b
  let b := b - a; let b := b ^^^ rot a 6; let a := a + c
  let c := c - b; let c := c ^^^ rot b 8; let b := b + a
  let a := a - c; let a := a ^^^ rot c 16; let c := c + b
  let b := b - a; let b := b ^^^ rot a 19; let a := a + c
  let c := c - b; let c := c ^^^ rot b 4; let b := b + a
  (a, b, c)

def final (a b c : UInt32) : UInt32 :=
  let c := c ^^^ b; let c := c - rot b 14
  let a := a ^^^ c; let a := a - rot c 11
  let b := b ^^^ a; let b := b - rot a 25
  let c := c ^^^ b; let c := c - rot b 16
  let a := a ^^^ c; let a := a - rot c 4
  let b := b ^^^ a; let b := b - rot a 14
  let c := c ^^^ b; let c := c - rot b 24
  c

/-- little-endian 32-bit word from (up to) four bytes starting at `i`, missing bytes = 0 -/
def word (k : Array UInt8) (i : Nat) : UInt32 :=
  let g (j : Nat) : UInt32 := UInt32.ofNat (k.getD (i + j) 0).toNat
  g 0 + (g 1 <<< 8) + (g 2 <<< 16) + (g 3 <<< 24)

/-- hashlittle() of lookup3.c (all three alignment paths compute this function on little-endian) -/
partial def hashlittle (key : Key) (initval : UInt32) : UInt32 :=
  let k := key.toArray
  let init : UInt32 := 0xdeadbeef + UInt32.ofNat key.length + initval
  let rec go (off len : Nat) (a b c : UInt32) : UInt32 :=
    if len > 12 then
      let (a, b, c) := mix (a + word k off) (b + word k (off + 4)) (c + word k (off + 8))
      go (off + 12) (len - 12) a b c
    else if len = 0 then c
    else final (a + word k off) (b + word k (off + 4)) (c + word k (off + 8))
  go 0 key.length init init init

/-- the seed the harness hands to lh_char_hash (its json_c_get_random_seed returns −1 once, then this) -/
def harnessSeed : UInt32 := 0x5eed1234

def hashOf : String → Option (Key → Nat)
  | "const" => some fun _ => 7
  | "id" => some atoiKey
  | "mod3" => some fun k => atoiKey k % 3
  | "sum" => some fun k => k.foldl (fun s c => s + c.toNat) 0
  | "big" => some fun k => 9223372036854775808 + atoiKey k * 4294967297
  | "perl" => some perlHash
  | "dflt" => some fun k => (hashlittle k harnessSeed).toNat
  | _ => none

/-! ### state -/

structure St where
  t : Option (Table Key Val) := none     -- none: no table yet / freed / after a model fault
  faulted : Bool := false
  objMode : Bool := false
  hash : Key → Nat := fun _ => 0
  spec : List (Key × Val) := []
  specOk : Bool := true                  -- false once a raw-table precondition was violated
  sticky : List String := []             -- defect tags that stay in force for the rest of the case

def init : St := {}

/-! ### printing -/

def kvStr (kv : Key × Val) : String := s!"{toHex kv.1}:{kv.2}"
def listStr (l : List (Key × Val)) : String := "[" ++ ",".intercalate (l.map kvStr) ++ "]"

def slotStr : Slot Key Val → String
  | .empty => "E"
  | .freed => "F"
  | .live k v c => s!"{toHex k}={v}{if c = true then "c" else "d"}"

def optStr : Option Nat → String
  | none => "-"
  | some n => toString n

def freedStr (e : Key × Bool × Val) : String :=
  s!"{toHex e.1}:{if e.2.1 then "c" else "d"}:{e.2.2}"

def internals (t : Table Key Val) (idx : Option Nat) (freed : Option (List (Key × Bool × Val))) : String :=
  let fr := match freed with
    | none => "-"
    | some l => "[" ++ ",".intercalate (l.map freedStr) ++ "]"
  s!"size={t.size} idx={optStr idx} slots=[{",".intercalate ((t.slots.take t.size).map slotStr)}] freed={fr}"

def valStr : Option Val → String
  | none => "-"
  | some v => toString v

/-- `{"k":v,...}` as json_object_to_json_string_ext(obj, JSON_C_TO_STRING_PLAIN) prints it for keys
without characters that need escaping and int / null values -/
def plainText (l : List (Key × Val)) : Bytes :=
  let item (kv : Key × Val) : Bytes :=
    [34] ++ kv.1 ++ [34, 58] ++ (if kv.2 = -1 then strBytes "null" else strBytes (toString kv.2))
  [123] ++ ((l.map item).intersperse [44]).flatten ++ [125]

inductive ListFmt where
  | none | pairs | text

def fmtList (f : ListFmt) (l : List (Key × Val)) : String :=
  match f with
  | .none => "-"
  | .pairs => listStr l
  | .text => toHex (plainText l)

/-- `ret val n=count [contents] list` -/
def specLine (ret : Int) (val : Option Val) (contents : List (Key × Val)) (lf : ListFmt) (l : List (Key × Val)) : String :=
  s!"{ret} {valStr val} n={contents.length} {listStr contents} {fmtList lf l}"

/-! ### parsing -/

def parseKeys (ws : List String) : Option (List Key) := ws.mapM ofHex

def parseForm : String → Option (IterForm × ListFmt)
  | "lh" => some (.lhForeach, .pairs)
  | "lhsafe" => some (.lhForeach, .pairs)     -- lh_foreach_safe: the same walk with the successor read first
  | "foreach" => some (.foreach, .pairs)
  | "foreachc" => some (.foreachC, .pairs)
  | "iterator" => some (.iterator, .pairs)
  | "tostring" => some (.foreachC, .text)     -- json_object_to_json_string: the serializer uses foreachC
  | "visit" => some (.foreach, .pairs)         -- json_c_visit uses the foreach macro
  | _ => none

def parseOp : List String → Option (Op Key Val × ListFmt)
  | ["ins", k, v, c] => do pure (.insert (← ofHex k) (← parseInt? v) (c = "1"), .none)
  | ["look", k] => do pure (.lookup (← ofHex k), .none)
  | ["del", k] => do pure (.delete (← ofHex k), .none)
  | ["dele", n] => do pure (.deleteEntry (← n.toNat?), .none)
  | ["resize", n] => do pure (.resize (← n.toNat?), .none)
  | ["len"] => some (.length, .none)
  | ["oadd", k, v, o] => do
      let o ← o.toNat?
      let self := v = "self"
      let v ← if self then some 0 else parseInt? v
      pure (.oadd (← ofHex k) v self (o &&& 2 ≠ 0) (o &&& 4 ≠ 0), .none)
  | ["oget", k] => do pure (.oget (← ofHex k), .none)
  | ["odel", k] => do pure (.odel (← ofHex k), .none)
  | ["olen"] => some (.olen, .none)
  | ["iter", f] => do let (f, lf) ← parseForm f; pure (.iter f, lf)
  | "fdel" :: ks => do pure (.foreachDel (← parseKeys ks), .pairs)
  -- the visitor deleting the member it is called for (and skipping it): the same iteration-with-delete-current
  | "vdel" :: ks => do pure (.foreachDel (← parseKeys ks), .pairs)
  | "fcdel" :: ks => do pure (.foreachCDel (← parseKeys ks), .pairs)
  | _ => none

/-! ### the specification's answer: (ret, val, new map, iteration output); `none` = not determined
(raw-table precondition violated, or a form the documentation calls unsafe) -/

open OrdMap in
def specStep (m : List (Key × Val)) (model : Table Key Val) :
    Op Key Val → Option (Int × Option Val × List (Key × Val) × List (Key × Val))
  | .insert k v _ => if contains m k then none else some (0, none, m ++ [(k, v)], [])
  | .lookup k | .oget k => some (if contains m k then 1 else 0, lookup m k, m, [])
  | .delete k => some (if contains m k then 0 else -1, none, del m k, [])
  | .deleteEntry n =>
      match model.slots[n]? with
      | some (.live k _ _) => some (0, none, del m k, [])
      | some _ => some (-1, none, m, [])
      | none => none
  | .resize _ => some (0, none, m, [])
  | .length | .olen => some (m.length, none, m, [])
  | .oadd k v self isNew _ =>
      if self then some (-1, none, m, [])
      else if isNew then (if contains m k then none else some (0, none, m ++ [(k, v)], []))
      else some (0, none, add m k v, [])
  | .odel k => some (0, none, del m k, [])
  | .iter _ => some (0, none, m, m)
  | .foreachDel ks => some (0, none, m.filter (fun p => ¬ p.1 ∈ ks), m)
  | .foreachCDel _ =>
      -- documented as unsafe for deletion: nothing is promised about the visit list; the map loses
      -- at most the keys of `ks` (which ones is the model's business)
      none

def covOf (t : Table Key Val) (op : Op Key Val) (t' : Table Key Val) (o : StepOut Key Val) : List String :=
  let grow := if t'.size ≠ t.size then ["resize"] else []
  let tomb := if t.slots.any (· == .freed) then ["has-tombstone"] else []
  let full := if t.slots.all (· != .empty) then ["no-empty-slot"] else []
  let allLive := if t.slots.all (·.isLive) then ["all-live"] else []
  let kind := match op with
    | .insert _ _ _ => ["ins"]
    | .lookup _ | .oget _ => [if o.ret = 1 then "look-hit" else "look-miss"]
    | .delete _ | .odel _ => [if o.freed.isEmpty then "del-miss" else "del-hit"]
    | .deleteEntry _ => [if o.ret = 0 then "dele-live" else "dele-dead"]
    | .resize n => ["resize-op"] ++ (if t'.size ≠ n ∧ o.ret = 0 then ["resize-new-table-grew"] else [])
    | .length | .olen => ["len"]
    | .oadd _ _ self isNew _ =>
        [if self then "oadd-self" else if isNew then "oadd-new-flag"
         else if t'.count = t.count then "oadd-replace" else "oadd-append"]
    | .iter _ => ["iter"]
    | .foreachDel _ => [if t'.count ≠ t.count then "fdel-deleted" else "fdel-none"]
    | .foreachCDel _ => [if t'.count ≠ t.count then "fcdel-deleted" else "fcdel-none"]
  grow ++ tomb ++ full ++ allLive ++ kind

/-- where did the entry land relative to its home slot, did the probe wrap, was a tombstone reused -/
def placeCov (hash : Key → Nat) (t t' : Table Key Val) (k : Key) : List String :=
  if t'.size ≠ t.size ∨ t.size = 0 then [] else
  let home := hash k % t.size
  match (List.range t.size).find? (fun i => t.slots[i]? != t'.slots[i]?) with
  | none => []
  | some p =>
    (if p = home then ["home-slot"] else ["probed"]) ++
    (if p < home then ["wrap-around"] else []) ++
    (if t.slots[p]? == some .freed then ["tombstone-reused"] else [])

/-- least count ≥ max 0 (size*66/100 − 2) at which the load test fires -/
def loadThreshold (size : Nat) : Nat :=
  let rec go (c : Nat) : Nat → Nat
    | 0 => c
    | f + 1 => if loadTest c size then c else go (c + 1) f
  go (size * 66 / 100 - 2) 8

/-- digest of the thresholds of all sizes in [a, b) -/
def loadRange (a b : Nat) : String := Id.run do
  let mut sum : Nat := 0
  let mut x : UInt64 := 0
  for s in [a:b] do
    let thr := loadThreshold s
    sum := sum + thr
    x := x * 1000003 + UInt64.ofNat thr
  return s!"sum={sum} x={x}"

def step (s : St) (w : List String) : St × Out :=
  match w with
  | ["load", size, count] =>
    match size.toNat?, parseInt? count with
    | some n, some c => (s, { model := if loadTest c n then "1" else "0", spec := "*", cov := ["load"] })
    | _, _ => (s, { model := "bad-op" })
  | ["loadrange", a, b] =>
    match a.toNat?, b.toNat? with
    | some a, some b => (s, { model := loadRange a b, spec := "*", cov := ["loadrange"] })
    | _, _ => (s, { model := "bad-op" })
  | ["new", n, hk] =>
    match n.toNat?, hashOf hk with
    | some n, some h =>
      match (Linkhash.new n : Outcome (Table Key Val)) with
      | .ok t => ({ t := some t, hash := h, objMode := false },
                  { model := specLine 0 none [] .none [] ++ " ## " ++ internals t none (some []),
                    spec := specLine 0 none [] .none [], cov := ["new"] })
      | .fault why => ({ faulted := true }, { model := "FAULT " ++ why, spec := "no-fault" })
    | _, _ => (s, { model := "bad-op" })
  | ["obj", hk] =>
    match hashOf hk with
    | some h =>
      match (Linkhash.new Generated.objectDefHashEntries : Outcome (Table Key Val)) with
      | .ok t => ({ t := some t, hash := h, objMode := true },
                  { model := specLine 0 none [] .none [] ++ " ## " ++ internals t none none,
                    spec := specLine 0 none [] .none [], cov := ["obj"] })
      | .fault why => ({ faulted := true }, { model := "FAULT " ++ why, spec := "no-fault" })
    | none => (s, { model := "bad-op" })
  | ["hash", k] =>
    -- lh_get_hash twice on the current table: the hash must be a function of the key
    match s.t, ofHex k with
    | some _, some k => (s, { model := s!"1 ## {s.hash k}", spec := "1", cov := ["hash"] })
    | _, _ => (s, { model := if s.faulted then "model-faulted-earlier" else "no-table" })
  | ["free"] =>
    match s.t with
    | none => (s, { model := if s.faulted then "model-faulted-earlier" else "no-table" })
    | some t =>
      match Linkhash.free t with
      | .fault why => ({ s with t := none, faulted := true }, { model := "FAULT " ++ why, spec := "no-fault" })
      | .ok l =>
        let fr := if s.objMode then "-" else
          "[" ++ ",".intercalate (l.map freedStr) ++ "]"
        let sp := if s.specOk ∧ ¬ s.objMode then
            "freed=[" ++ ",".intercalate (s.spec.map fun (k, v) => s!"{toHex k}:{v}") ++ "]"
          else "*"
        let ml := "freed=[" ++ ",".intercalate (l.map fun (k, _, v) => s!"{toHex k}:{v}") ++ "]"
        ({ s with t := none }, { model := (if s.objMode then "freed" else ml) ++ " ## " ++ fr,
                                 spec := if s.objMode then "freed" else sp, tags := s.sticky, cov := ["free"] })
  | _ =>
    match s.t with
    | none => (s, { model := if s.faulted then "model-faulted-earlier" else "no-table" })
    | some t =>
      match parseOp w with
      | none => (s, { model := "bad-op" })
      | some (op, lf) =>
        let refused : Bool := match op with       -- calls the harness does not make
          | .deleteEntry n => decide (n ≥ t.size) || s.objMode
          | .resize n => n == 0 || s.objMode
          | .iter f => (!s.objMode && f != .lhForeach)
          | .oadd .. | .oget _ | .odel _ | .olen | .foreachDel _ | .foreachCDel _ => !s.objMode
          | .insert .. | .lookup _ | .delete _ | .length => s.objMode
        if refused then (s, { model := "bad-op" }) else
        match Linkhash.step s.hash t op with
        | .fault why => ({ s with t := none, faulted := true }, { model := "FAULT " ++ why, spec := "no-fault", tags := s.sticky })
        | .ok (t', o) =>
          let contents := match toList t' with
            | .ok l => listStr l
            | .fault why => "FAULT " ++ why
          let n := t'.count
          let mline := s!"{o.ret} {valStr o.val} n={n} {contents} {fmtList lf o.list}" ++ " ## " ++
            internals t' o.idx (if s.objMode then none else some o.freed)
          let sticky := (s.sticky ++ o.tags).eraseDups
          let sp := if s.specOk then specStep s.spec t op else none
          let cov := covOf t op t' o ++ (match op with
            | .insert k _ _ => placeCov s.hash t t' k
            | .oadd k _ false _ _ => if t'.count ≠ t.count then placeCov s.hash t t' k else []
            | _ => [])
          match sp with
          | some (ret, val, m', l) =>
            ({ s with t := some t', spec := m', sticky := sticky },
             { model := mline, spec := specLine ret val m' lf l, tags := sticky, cov := cov })
          | none =>
            -- keep following the model so that later lines stay comparable
            let m' := match toList t' with | .ok l => l | .fault _ => s.spec
            let stillOk := match op with | .foreachCDel _ => s.specOk | _ => false
            ({ s with t := some t', spec := m', specOk := stillOk, sticky := sticky },
             { model := mline, spec := "*", tags := sticky, cov := cov ++ ["spec-undetermined"] })

end Driver.Lh
