import Driver.Common
import JsonC.Model.Num
import JsonC.Spec.Coerce
/-! num component (C10): model (JsonC.Num) and spec (JsonC.Coerce) side by side.

Ops (nodes in the JVal dump format, byte strings in hex):
  geti|geti64|getu64|getd|getb <node>      one accessor: `<value> <errno> ## <errno, sentinel run>`
  get <node>                                all five:     `i=v:e i64=v:e u64=v:e d=bits:e b=v:e ## e,e,e,e,e`
  inc <node> <v>...                         json_object_int_inc repeatedly: `rc:dump ...`
  seti|seti64|setu64|setb <node> <v>, setd <node> <16 hex>   `rc dump own-type-get:errno`
  parsei64|parseu64 <hex>                   `rc retval|- errno`
  libc strtoll|strtoull|strtod <hex>, libc i2d|u2d <dec>     the Lean libc references
In a spec line `<a|b>` lists the allowed alternatives, `*` = not specified, `nan` = any NaN. -/
namespace Driver.Num
open JsonC JsonC.Num JsonC.Coerce JsonC.Dbl JsonC.Libc Driver

def L : LibcNum := refLibc

def hex16n (b : Nat) : String := JVal.hex16 (UInt64.ofNat b)

def errS (e : Errno) : String := toString e

/-- errno after a run that started with the sentinel: `keep` when not written -/
def effS : ErrEff → String
  | .keep => "keep"
  | .set e => errS e

def eff0 (x : ErrEff) : String := errS (x.after .none)

def alts (xs : List String) : String :=
  match xs with
  | [] => "*"
  | [x] => x
  | _ => "<" ++ "|".intercalate xs ++ ">"

def ansS (a : Ans) : String × String := (toString a.val, alts (a.errno.map errS))

def dpatS : DPat → String
  | .bits b => hex16n b
  | .rne v => if (DPat.rne v).matches (nearestDouble v) then hex16n (nearestDouble v) else "SPEC-INCONSISTENT"
  | .anyNaN => "nan"

def dansS (a : DAns) : String × String := (alts (a.vals.map dpatS), alts (a.errno.map errS))

/-- one accessor evaluated by the model: value text, errno (0 before), errno effect, tags; or the fault -/
def runAcc (which : String) (n : JVal) : Except String (String × String × String × List String) :=
  let fin {α : Type} (o : Outcome (R α)) (show_ : α → String) : Except String (String × String × String × List String) :=
    match o with
    | .ok r => .ok (show_ r.val, eff0 r.err, effS r.err, r.tags)
    | .fault w => .error w
  match which with
  | "i" => fin (getInt L n) toString
  | "i64" => fin (getInt64 L n) toString
  | "u64" => fin (getUint64 L n) toString
  | "d" => fin (getDouble L n) hex16n
  | _ => fin (getBoolean n) (fun b => if b then "1" else "0")

def specAcc (which : String) (n : JVal) : String × String :=
  match which with
  | "i" => ansS (toSigned int32 n)
  | "i64" => ansS (toSigned int64 n)
  | "u64" => ansS (toUnsigned n)
  | "d" => dansS (toDouble L.strtod n)
  | _ => ((if toBool n then "1" else "0"), "0")

def kindCov : JVal → String
  | .null => "k:null" | .bool _ => "k:bool" | .int true _ => "k:i64" | .int false _ => "k:u64"
  | .dbl _ _ => "k:dbl" | .str _ => "k:str" | .arr _ => "k:arr" | .obj _ => "k:obj"

def valueCov : JVal → List String
  | .int _ v =>
    (if v < INT32_MIN ∨ v > INT32_MAX then ["int:beyond-int32"] else []) ++
    (if v > INT64_MAX then ["int:beyond-int64"] else []) ++ (if v < 0 then ["int:neg"] else [])
  | .dbl bits _ =>
    match decode bits.toNat with
    | .nan => ["dbl:nan"]
    | .inf _ => ["dbl:inf"]
    | .fin neg num den =>
      let a : Int := num / den
      (if neg then ["dbl:neg"] else []) ++ (if num % den ≠ 0 then ["dbl:frac"] else []) ++
      (if num = 0 then ["dbl:zero"] else if a = 0 then ["dbl:below-one"] else []) ++
      (if bits.toNat / 2 ^ 52 % 2048 = 0 ∧ num ≠ 0 then ["dbl:subnormal"] else []) ++
      (if a ≥ TWO64 then ["dbl:ge-2p64"] else if a ≥ TWO63 then ["dbl:ge-2p63"] else if a ≥ 2147483648 then ["dbl:ge-2p31"] else [])
  | .str s =>
    let t := cstr s
    (if t.length ≠ s.length then ["str:nul-inside"] else []) ++
    (match scanInt t with
      | none => ["str:no-int"]
      | some r =>
        (if r.neg then ["str:neg"] else []) ++ (if r.consumed ≠ t.length then ["str:int-then-junk"] else []) ++
        (if (r.mag : Int) > UINT64_MAX then ["str:beyond-uint64"] else if (r.mag : Int) > INT64_MAX then ["str:beyond-int64"] else []) ++
        (if (t.takeWhile isSpace).length ≠ 0 then ["str:leading-ws"] else [])) ++
    (let r := L.strtod t
     (if r.consumed = t.length ∧ r.consumed ≠ 0 then ["str:float"] else []) ++ (if r.errno = .ERANGE then ["str:float-erange"] else []))
  | _ => []

def accNames : List String := ["i", "i64", "u64", "d", "b"]

def stepGet (which : List String) (single : Bool) (n : JVal) : Out :=
  let rs := which.map fun w => (w, runAcc w n)
  match rs.find? (fun p => match p.2 with | .error _ => true | .ok _ => false) with
  | some (_, .error w) => { model := "FAULT " ++ w, spec := "no-fault", cov := [kindCov n, "fault"] }
  | _ =>
    let oks := rs.filterMap fun p => match p.2 with | .ok x => some (p.1, x) | .error _ => none
    let tags := (oks.map (·.2.2.2.2)).flatten.eraseDups
    let cov := kindCov n :: valueCov n ++ (oks.filterMap fun (w, _, e, _, _) => if e ≠ "0" then some (w ++ ":" ++ e) else none)
    if single then
      match oks with
      | [(w, v, e0, es, _)] =>
        let (sv, se) := specAcc w n
        { model := s!"{v} {e0} ## {es}", spec := s!"{sv} {se}", tags := tags, cov := cov }
      | _ => { model := "bad-op" }
    else
      let m := " ".intercalate (oks.map fun (w, v, e0, _, _) => s!"{w}={v}:{e0}")
      let i := ",".intercalate (oks.map fun (_, _, _, es, _) => es)
      let s := " ".intercalate (which.map fun w => let (sv, se) := specAcc w n; s!"{w}={sv}:{se}")
      { model := m ++ " ## " ++ i, spec := s, tags := tags, cov := cov }

def incCov (n : JVal) (v : Int) : String :=
  match n with
  | .int true c =>
    if c + v > INT64_MAX then "inc:i64-up-switch" else if c + v < INT64_MIN then "inc:i64-sat-min" else "inc:i64-plain"
  | .int false u =>
    if u + v > UINT64_MAX then "inc:u64-sat-max" else if u + v < 0 then "inc:u64-down-switch"
    else if v < 0 then "inc:u64-down-stay" else "inc:u64-plain"
  | _ => "inc:non-int"

def specInc (n : JVal) (v : Int) : Int × JVal :=
  match n with
  | .int s c => (1, .int (incSigned s c v) (incValue c v))
  | _ => (0, n)

def stepInc (n : JVal) (vs : List Int) : Out := Id.run do
  let mut cur := n
  let mut scur := n
  let mut ms : List String := []
  let mut ss : List String := []
  let mut cov : List String := [kindCov n]
  for v in vs do
    cov := incCov cur v :: cov
    match intInc cur v with
    | .fault w => return { model := "FAULT " ++ w, spec := "no-fault", cov := "fault" :: cov }
    | .ok (rc, n') =>
      ms := s!"{rc}:{n'.dump}" :: ms
      cur := n'
    let (src, sn) := specInc scur v
    ss := s!"{src}:{sn.dump}" :: ss
    scur := sn
  return { model := " ".intercalate ms.reverse ++ " ## -", spec := " ".intercalate ss.reverse, cov := cov.eraseDups }

/-- set then read back in the own type -/
def stepSet (op : String) (n : JVal) (arg : String) : Out :=
  let done (rc : Int) (n' : JVal) (w : String) (kind : Bool) (want : String) : Out :=
    match runAcc w n' with
    | .error why => { model := "FAULT " ++ why, spec := "no-fault" }
    | .ok (v, e0, _, tags) =>
      let (sv, se) := specAcc w n'
      let spec := if kind then s!"1 {n'.dump} {want}:0" else s!"0 {n.dump} {sv}:{se}"
      { model := s!"{rc} {n'.dump} {v}:{e0} ## -", spec := spec, tags := tags,
        cov := [kindCov n, if kind then op ++ ":stored" else op ++ ":refused"] }
  let isInt := match n with | .int _ _ => true | _ => false
  match op with
  | "seti" | "seti64" =>
    match parseInt? arg with
    | some v => let (rc, n') := setInt64 n v; done rc n' (if op = "seti" then "i" else "i64") isInt (toString v)
    | none => { model := "bad-op" }
  | "setu64" =>
    match parseInt? arg with
    | some v => let (rc, n') := setUint64 n v; done rc n' "u64" isInt (toString v)
    | none => { model := "bad-op" }
  | "setb" =>
    let b := arg ≠ "0"
    let (rc, n') := setBoolean n b
    done rc n' "b" (match n with | .bool _ => true | _ => false) (if b then "1" else "0")
  | "setd" =>
    match ofHexChars arg.toList with
    | some bs =>
      let bits := bs.foldl (fun acc b => acc * 256 + b.toNat) 0
      let (rc, n') := setDouble n (UInt64.ofNat bits)
      done rc n' "d" (match n with | .dbl _ _ => true | _ => false) (hex16n bits)
    | none => { model := "bad-op" }
  | _ => { model := "bad-op" }

def stepParse (signed : Bool) (t : Bytes) : Out :=
  let buf := cstr t
  let p := if signed then parseInt64 L buf else parseUint64 L buf
  let rv := match p.retval with | some v => toString v | none => "-"
  let sc := scanInt buf
  -- documented: 0 and the value on success (ERANGE when saturated, "just like strtoll"); failure otherwise
  let spec : String :=
    match sc with
    | none => "1 * " ++ (if signed then "EINVAL" else "*")
    | some r =>
      if signed then let a := ofInt int64 r.value; s!"0 {a.val} {alts (a.errno.map errS)}"
      else if r.neg then "1 * *"
      else let a := ofInt uint64 r.mag; s!"0 {a.val} {alts (a.errno.map errS)}"
  let cov := [if signed then "parse:i64" else "parse:u64"] ++ valueCov (.str t) ++ [s!"rc:{p.rc}"]
  { model := s!"{p.rc} {rv} {errS p.errno} ## -", spec := spec, tags := p.tags, cov := cov }

def stepLibc (w : List String) : Out :=
  match w with
  | ["strtoll", h] =>
    match ofHex h with
    | some t => let r := Libc.strtoll (cstr t); { model := s!"{r.val} {r.consumed} {errS r.errno} ## -", cov := ["libc:strtoll"] }
    | none => { model := "bad-op" }
  | ["strtoull", h] =>
    match ofHex h with
    | some t => let r := Libc.strtoull (cstr t); { model := s!"{r.val} {r.consumed} {errS r.errno} ## -", cov := ["libc:strtoull"] }
    | none => { model := "bad-op" }
  | ["strtod", h] =>
    match ofHex h with
    | some t =>
      let r := Libc.strtod (cstr t)
      { model := s!"{hex16n r.bits} {r.consumed} {errS r.errno} ## -",
        cov := ["libc:strtod"] ++ (if r.errno = .ERANGE then ["libc:strtod-erange"] else []) ++ (if r.consumed = 0 then ["libc:strtod-noconv"] else []) }
    | none => { model := "bad-op" }
  | ["i2d", d] | ["u2d", d] =>
    match parseInt? d with
    | some v => { model := s!"{hex16n (intToDbl v)} ## {hex16n (nearestDouble v)}", cov := ["libc:int-to-double"] ++ (if v.natAbs ≥ 2 ^ 53 then ["libc:int-to-double-rounds"] else []) }
    | none => { model := "bad-op" }
  | _ => { model := "bad-op" }

/-- `G<spec>` = the same node with a string held in the grown (heap) representation: same value -/
def ungrown (ns : String) : String := if ns.startsWith "G" then (ns.drop 1).toString else ns

def step (_ : Unit) (w : List String) : Unit × Out :=
  let out : Out :=
    match w with
    | ["get", ns] => match JVal.parse (ungrown ns) with | some n => stepGet accNames false n | none => { model := "bad-op" }
    | ["geti", ns] => match JVal.parse (ungrown ns) with | some n => stepGet ["i"] true n | none => { model := "bad-op" }
    | ["geti64", ns] => match JVal.parse (ungrown ns) with | some n => stepGet ["i64"] true n | none => { model := "bad-op" }
    | ["getu64", ns] => match JVal.parse (ungrown ns) with | some n => stepGet ["u64"] true n | none => { model := "bad-op" }
    | ["getd", ns] => match JVal.parse (ungrown ns) with | some n => stepGet ["d"] true n | none => { model := "bad-op" }
    | ["getb", ns] => match JVal.parse (ungrown ns) with | some n => stepGet ["b"] true n | none => { model := "bad-op" }
    | "inc" :: ns :: vs =>
      match JVal.parse (ungrown ns), vs.mapM parseInt? with
      | some n, some xs => stepInc n xs
      | _, _ => { model := "bad-op" }
    | [op, ns, arg] =>
      if op = "seti" ∨ op = "seti64" ∨ op = "setu64" ∨ op = "setb" ∨ op = "setd" then
        match JVal.parse (ungrown ns) with | some n => stepSet op n arg | none => { model := "bad-op" }
      else if op = "libc" then stepLibc [ns, arg]
      else { model := "bad-op" }
    | ["parsei64", h] => match ofHex h with | some t => stepParse true t | none => { model := "bad-op" }
    | ["parseu64", h] => match ofHex h with | some t => stepParse false t | none => { model := "bad-op" }
    | _ => { model := "bad-op" }
  ((), out)

end Driver.Num
