-- stub: component `lh` not built yet
def main : IO UInt32 := do
  IO.eprintln "driver-lh: not implemented"
  return 2
