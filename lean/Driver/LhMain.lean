import Driver.Lh
open Driver

def main : IO UInt32 := do
  runComponent Lh.init Lh.step
  return 0
