-- stub: component `heap` not built yet
def main : IO UInt32 := do
  IO.eprintln "driver-heap: not implemented"
  return 2
