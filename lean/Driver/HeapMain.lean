import Driver.Heap
open Driver

def main : IO UInt32 := do
  runComponent Heap.init Heap.step
  return 0
