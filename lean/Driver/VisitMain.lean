import Driver.Visit
open Driver

def main : IO UInt32 := do
  runComponent () Visit.step
  return 0
