-- stub: component `visit` not built yet
def main : IO UInt32 := do
  IO.eprintln "driver-visit: not implemented"
  return 2
