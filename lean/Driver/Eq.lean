import Driver.Common
import JsonC.Model.Equal
import JsonC.Spec.Sem
/-! `eq` component (C09): json_object_equal / json_object_deep_copy — model (JsonC.Equal) and
spec (JsonC.Sem: `sem`, `semEqB`) side by side.  Stateless: every op line carries its trees in the
typed dump format of Model/Value.lean.

    eq <A> <B> <reprA> <reprB>      equal(A,B) equal(B,A)             (repr letters are C-side only)
    eq3 <A> <B> <C>                 the six ordered pairs
    eqself <T> <repr>               equal(T,T); equal(T,T') for a separately built twin T'
    eqshare <T>                     one node x under two parents: equal([x],[x]), equal({"k":x},{"k":x})
    copy <T> <repr>                 deep copy: rc, dump, equal both ways, serializations, sharing walk
    copybad <T> <nullsrc|nodst|occupied>
    copymut <T> <repr> <s|c> <s|c> <path> <mutation…>   mutate one side, dump both, destroy one, dump other
-/
namespace Driver.Eq
open JsonC JsonC.JVal JsonC.Equal Driver

def b01 (b : Bool) : String := if b then "1" else "0"

def kindStr : JVal → String
  | .null => "null" | .bool _ => "boolean" | .int _ _ => "int" | .dbl _ _ => "double"
  | .str _ => "string" | .arr _ => "array" | .obj _ => "object"

/-- number of non-NULL nodes -/
partial def nodes : JVal → Nat
  | .null => 0
  | .arr xs => 1 + (xs.map nodes).foldl (· + ·) 0
  | .obj kvs => 1 + (kvs.map (fun kv => nodes kv.2)).foldl (· + ·) 0
  | _ => 1

partial def anyNode (p : JVal → Bool) : JVal → Bool
  | .arr xs => p (.arr xs) || xs.any (anyNode p)
  | .obj kvs => p (.obj kvs) || kvs.any (fun kv => anyNode p kv.2)
  | v => p v

/-- why the walk of json_object_equal stops (first difference in traversal order) — coverage only -/
partial def why (a b : JVal) : String :=
  match a, b with
  | .null, .null => "equal"
  | .null, _ => "null-vs-node"
  | _, .null => "node-vs-null"
  | .bool x, .bool y => if x == y then "equal" else "bool"
  | .int s1 v1, .int s2 v2 =>
      let mixed := s1 != s2
      if intEq s1 v1 s2 v2 then (if mixed then "equal-int-mixed" else "equal")
      else if mixed then (if v1 < 0 || v2 < 0 then "int-mixed-negative" else "int-mixed") else "int"
  | .dbl x _, .dbl y _ =>
      if isNaNBits x || isNaNBits y then "dbl-nan"
      else if ieeeEq x y then (if x != y then "equal-zero-signs" else "equal") else "dbl"
  | .str s, .str t =>
      if s.length != t.length then "str-len" else if s == t then "equal" else "str-bytes"
  | .arr xs, .arr ys =>
      if xs.length != ys.length then "arr-len"
      else
        let ws := (xs.zip ys).map (fun p => why p.1 p.2)
        match ws.find? (fun w => !w.startsWith "equal") with
        | some w => w
        | none => (ws.find? (· != "equal")).getD "equal"
  | .obj m1, .obj m2 =>
      let fwd := m1.map fun kv => match lookupIdx kv.1 m2 0 with
        | none => "obj-key-missing-right"
        | some (_, v2) => why kv.2 v2
      match fwd.find? (fun w => !w.startsWith "equal") with
      | some w => w
      | none => if keysAllIn m2 m1 then
            (if m1.map (·.1) != m2.map (·.1) then "equal-obj-reordered" else (fwd.find? (· != "equal")).getD "equal")
          else "obj-key-missing-left"
  | _, _ => "kind"

def featureTags (a : JVal) : List String :=
  (if anyNode (fun v => match v with | .dbl b _ => isNaNBits b | _ => false) a then ["has-nan"] else []) ++
  (if anyNode (fun v => match v with | .dbl _ (some _) => true | _ => false) a then ["has-retained-text"] else []) ++
  (if anyNode (fun v => match v with | .str s => s.contains 0 | _ => false) a then ["str-embedded-nul"] else []) ++
  (if anyNode (fun v => match v with | .int false _ => true | _ => false) a then ["has-uint64"] else []) ++
  (if anyNode (fun v => match v with | .arr xs => (match xs.getLast? with | some .null => true | _ => false) | _ => false) a then ["arr-trailing-null"] else []) ++
  (if anyNode (fun v => match v with | .obj m => m.any (fun kv => kv.2.isNull) | _ => false) a then ["null-member"] else [])

instance : BEq JVal := ⟨fun a b => a.dump == b.dump⟩

def parsePath (s : String) : Option Pos :=
  if s == "-" then some [] else (s.splitOn ".").mapM (·.toNat?)

def parseBits (s : String) : Option UInt64 :=
  match JVal.parse ("d" ++ s) with
  | some (.dbl b _) => some b
  | _ => none

def parseMut : List String → Option Mut
  | ["setstr", h] => (ofHex h).map .setStr
  | ["setint", n] => (parseInt? n).map .setInt
  | ["setdbl", h] => (parseBits h).map .setDouble
  | ["addmem", k, t] => do pure (.addMem (← ofHex k) (← JVal.parse t))
  | ["delmem", k] => (ofHex k).map .delMem
  | ["putidx", i, t] => do pure (.putIdx (← i.toNat?) (← JVal.parse t))
  | ["addelem", t] => (JVal.parse t).map .addElem
  | _ => none

def mutKindOk : Mut → JVal → Bool
  | .setStr _, .str _ => true
  | .setInt _, .int _ _ => true
  | .setDouble _, .dbl _ _ => true
  | .addMem _ _, .obj _ => true
  | .delMem _, .obj _ => true
  | .putIdx _ _, .arr _ => true
  | .addElem _, .arr _ => true
  | _, _ => false

/-- return value of the API call when the node has the right kind -/
def mutRc : Mut → String
  | .setStr _ | .setInt _ | .setDouble _ => "1"
  | _ => "0"

def mutName : Mut → String
  | .setStr _ => "setstr" | .setInt _ => "setint" | .setDouble _ => "setdbl" | .addMem _ _ => "addmem"
  | .delMem _ => "delmem" | .putIdx _ _ => "putidx" | .addElem _ => "addelem"

def eqLine (ab ba : Bool) (a b : JVal) : String :=
  s!"ab={b01 ab} ba={b01 ba} ## ka={kindStr a} kb={kindStr b}"

def nFlags : Nat := 64

def copyLine (rc : Int) (c : JVal) (cs sc : Bool) (errno : String) : String :=
  s!"rc={rc} dump={c.dump} cs={b01 cs} sc={b01 sc} ser={nFlags}/{nFlags} shared=0 stable=1 ## nodes={nodes c} aux=0 errno={errno} constkeys=0"

def step (_ : Unit) (w : List String) : Unit × Out :=
  let bad : Unit × Out := ((), { model := "bad-op" })
  let fault (why : String) : Unit × Out := ((), { model := "FAULT " ++ why, spec := "no-fault" })
  match w with
  | ["eq", ta, tb, _, _] =>
    match JVal.parse ta, JVal.parse tb with
    | some a, some b =>
      let ab := equal a b
      let ba := equal b a
      let sab := semEqB a b
      let sba := semEqB b a
      let wy := why a b
      ((), { model := eqLine ab ba a b, spec := s!"ab={b01 sab} ba={b01 sba}",
             cov := ["eq", "why-" ++ wy, "res-" ++ b01 ab] ++ featureTags a })
    | _, _ => bad
  | ["eq3", ta, tb, tc] =>
    match JVal.parse ta, JVal.parse tb, JVal.parse tc with
    | some a, some b, some c =>
      let r := [equal a b, equal b a, equal b c, equal c b, equal a c, equal c a]
      let s := [semEqB a b, semEqB b a, semEqB b c, semEqB c b, semEqB a c, semEqB c a]
      let show_ (l : List Bool) := " ".intercalate (l.map b01)
      let chain := if equal a b && equal b c then ["eq3-chain"] else []
      ((), { model := show_ r ++ " ## -", spec := show_ s,
             cov := ["eq3", "why-" ++ why a b, "why2-" ++ why b c] ++ chain })
    | _, _, _ => bad
  | ["eqself", t, _] =>
    match JVal.parse t with
    | some a =>
      let tw := equal a a
      let stw := semEqB a a
      ((), { model := s!"self={b01 (equalSelf a)} twin={b01 tw} twinrev={b01 tw} ## k={kindStr a}",
             spec := s!"self=1 twin={b01 stw} twinrev={b01 stw}",
             cov := ["eqself", "twin-" ++ b01 tw] ++ featureTags a })
    | none => bad
  | ["eqshare", t] =>
    match JVal.parse t with
    | some x =>
      -- the single child is one node under both parents (and so is everything below it)
      let same : Same := fun p q => p.head? == some 0 && p == q
      let ra := equalP same (.arr [x]) (.arr [x])
      let ro := equalP same (.obj [([107], x)]) (.obj [([107], x)])
      ((), { model := s!"arr={b01 ra} obj={b01 ro} ## -", spec := "arr=1 obj=1",
             cov := ["eqshare"] ++ featureTags x })
    | none => bad
  | ["copy", t, _] =>
    match JVal.parse t with
    | some v =>
      match deepCopy v (some .null) with
      | .fault why => fault why
      | .ok r =>
        match r.dst with
        | some c =>
          if r.rc == 0 then
            let nf := v.nanFree
            ((), { model := copyLine r.rc c (equal c v) (equal v c) "0",
                   spec := s!"rc=0 dump={v.dump} cs={b01 nf} sc={b01 nf} ser={nFlags}/{nFlags} shared=0 stable=1",
                   cov := ["copy", "copy-" ++ kindStr v] ++ featureTags v })
          else
            ((), { model := s!"rc={r.rc} dst=NULL ## errno={r.errno}", spec := "rc=-1 dst=NULL",
                   cov := ["copy", "copy-refused"] })
        | none => bad
    | none => bad
  | ["copyud", _bits, _text] =>
    -- a double printed from caller-managed text (json_object_userdata_to_json_string, no delete function), deep-copied:
    -- the copy has its own text - rewriting or releasing the source's text afterwards does not change what the copy prints
    ((), { model := "copyud rc=0 equal=1 independent=1", spec := "copyud rc=0 equal=1 independent=1", cov := ["copyud"] })
  | ["copyfmt", _bits, _fmt, _nested] =>
    -- a double whose format string the node owns (json_object_double_to_json_string + userdata + delete function): the default
    -- shallow copy either refuses it or produces a copy that shares nothing with the source
    ((), { model := "copyfmt refused-or-disjoint", spec := "copyfmt refused-or-disjoint", cov := ["copyfmt"] })
  | ["copybad", t, mode] =>
    match JVal.parse t with
    | some v =>
      let (src, dst) : JVal × Option JVal := match mode with
        | "nullsrc" => (.null, some .null)
        | "nodst" => (v, none)
        | _ => (v, some (.obj []))
      match deepCopy src dst with
      | .fault why => fault why
      | .ok r =>
        let unchanged := match r.dst, dst with
          | none, none => true
          | some x, some y => x == y
          | _, _ => false
        ((), { model := s!"rc={r.rc} dst={if unchanged then "unchanged" else "changed"} ## errno={r.errno}",
               spec := "rc=-1 dst=unchanged", cov := ["copybad", "copybad-" ++ mode] })
    | none => bad
  | "copymut" :: t :: _ :: side :: destroy :: path :: mw =>
    match JVal.parse t, parsePath path, parseMut mw with
    | some v, some p, some m =>
      match deepCopy v (some .null) with
      | .fault why => fault why
      | .ok r =>
        match r.dst with
        | some c =>
          if r.rc != 0 then ((), { model := "copy-refused", spec := "copy-refused", cov := ["copymut-refused"] }) else
          let onCopy := side == "c"
          let target := if onCopy then c else v
          let (mrc, target') : String × JVal :=
            match nodeAt target p with
            | none => ("badpath", target)
            | some n =>
              if mutKindOk m n then
                match mutAt m p target with
                | some t' => (mutRc m, t')
                | none => ("model-error", target)
              else ("skip", target)
          let src' := if onCopy then v else target'
          let cpy' := if onCopy then target' else c
          let other := if destroy == "s" then cpy' else src'
          -- specification: the side that was not touched is the source's tree as given; the mutated
          -- side follows the value-level meaning of the call; destroying one side changes nothing
          let ssrc := if onCopy then v else target'
          let scpy := if onCopy then target' else v
          let sother := if destroy == "s" then scpy else ssrc
          let changed := target'.dump != target.dump
          ((), { model := s!"mrc={mrc} src={src'.dump} cpy={cpy'.dump} after={other.dump} ## -",
                 spec := s!"mrc={mrc} src={ssrc.dump} cpy={scpy.dump} after={sother.dump}",
                 cov := ["copymut", "mut-" ++ mutName m, "mut-on-" ++ side, "destroy-" ++ destroy, "mrc-" ++ mrc]
                        ++ (if changed then ["mut-changed"] else []) ++ (if p.isEmpty then ["mut-root"] else ["mut-nested"]) })
        | none => bad
    | _, _, _ => bad
  | _ => bad

end Driver.Eq
