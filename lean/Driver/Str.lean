import Driver.Common
import JsonC.Model.StrStore
import JsonC.Spec.ByteStr
/-! string-node component (C11): model (JsonC.StrStore) and spec (JsonC.ByteStr) side by side. -/
namespace Driver.Str
open JsonC JsonC.StrStore Driver
open JsonC.ByteStr (Ev Verdict)

structure St where
  w : Option World          -- none after a model fault
  spec : Option Bytes       -- the value the node should hold (none: no node)

def init : St := ⟨some {}, none⟩

def parseOp : List String → Option Op
  | ["new", h] => (ofHex h).map (.new · true)
  | ["newfail", h] => (ofHex h).map (.new · false)
  | ["newn", k] => (parseInt? k).map .newn
  | ["newz", h] => (ofHex h).map (.newz · true)
  | ["newzfail", h] => (ofHex h).map (.newz · false)
  | ["set", h] => (ofHex h).map (.set · true)
  | ["setfail", h] => (ofHex h).map (.set · false)
  | ["setn", k] => (parseInt? k).map .setn
  | ["setz", h] => (ofHex h).map (.setz · true)
  | ["setzfail", h] => (ofHex h).map (.setz · false)
  | ["get"] => some .get
  | ["eq", a] => (ofHex a).map (.eq · none)
  | ["eqv", a, b] => do pure (.eq (← ofHex a) (some (← ofHex b)))
  | ["copy"] => some (.copy true)
  | ["copyfail"] => some (.copy false)
  | ["ser"] => some .ser
  | ["del"] => some .del
  | _ => none

def viewStr (v : View) : String :=
  let t := match v.term with | some b => hexByte b | none => "-"
  s!"{v.len} {toHex v.bytes} nul={t} strlen={v.strlen}"

/-- the view the specification prescribes for the value `s` -/
def specView (s : Bytes) : String :=
  s!"{s.length} {toHex s} nul=00 strlen={ByteStr.cLength s}"

def b01 (b : Bool) : String := if b then "1" else "0"

def resStr : Res → String
  | .noNode => "no-node"
  | .busy => "busy"
  | .made false _ => "made 0"
  | .made true (some v) => "made 1 " ++ viewStr v
  | .made true none => "made 1 ?"
  | .did ret v => s!"did {ret} " ++ viewStr v
  | .saw v => "saw " ++ viewStr v
  | .cmp ab ba => s!"cmp {b01 ab} {b01 ba}"
  | .copied none _ _ => "copied -1"
  | .copied (some v) ab ba => "copied 0 " ++ viewStr v ++ s!" {b01 ab} {b01 ba}"
  | .payload bs => s!"payload {bs.length} {toHex bs}"
  | .deleted => "deleted"

/-- internal observables: representation of the node, allocator traffic of this op, live blocks -/
def internals (w0 w1 : World) (res : Res) : String :=
  match res with
  | .noNode | .busy | .payload _ => "-"
  | _ =>
    let evs := w1.mem.trace.drop w0.mem.trace.length
    let sizes := evs.filterMap fun e => match e with | .malloc _ sz => some (toString sz) | _ => none
    let mf := (evs.filter fun e => match e with | .mallocFail _ => true | _ => false).length
    let fr := (evs.filter fun e => match e with | .free _ => true | _ => false).length
    let live := (w1.mem.heap.filter (·.live)).length
    let rep := match w1.node with | none => "-" | some n => if n.len < 0 then "p" else "i"
    let ms := if sizes.isEmpty then "-" else "+".intercalate sizes
    s!"rep={rep} m={ms} mf={mf} f={fr} live={live}"

/-- the specification's answer (line, next value).  Where the verdict is `either` the answer follows
the model's return value: serve entirely or refuse leaving the value intact. -/
def specStep (s : Option Bytes) (op : Op) (res : Res) : String × Option Bytes :=
  let served : Bool := match res with | .did r _ => r == 1 | .made ok _ => ok | _ => false
  match s, op with
  | some _, .new _ _ | some _, .newn _ | some _, .newz _ _ => ("busy", s)
  | none, .new obj okm => newAns obj (ByteStr.newVerdict obj.length okm) served
  | none, .newn k => newAns (claimSource.take k.toNat) (ByteStr.newVerdict k true) served
  | none, .newz obj okm =>
    let v := ByteStr.cPrefix obj
    newAns v (ByteStr.newVerdict v.length okm) served
  | none, _ => ("no-node", none)
  | some old, .set obj okm => setAns old obj (ByteStr.setVerdict obj.length okm) served
  | some old, .setn k => setAns old (claimSource.take k.toNat) (ByteStr.setVerdict k true) served
  | some old, .setz obj okm =>
    let v := ByteStr.cPrefix obj
    setAns old v (ByteStr.setVerdict v.length okm) served
  | some v, .get => ("saw " ++ specView v, s)
  | some v, .eq a b =>
    let other := match b with | some b => ByteStr.store a b | none => a
    let e := b01 (ByteStr.equal v other)
    (s!"cmp {e} {e}", s)
  | some v, .copy okm =>
    (if okm then "copied 0 " ++ specView (ByteStr.copy v) ++ " 1 1" else "copied -1", s)
  | some v, .ser => (s!"payload {v.length} {toHex v}", s)
  | some _, .del => ("deleted", none)
where
  newAns (val : Bytes) (vd : Verdict) (served : Bool) : String × Option Bytes :=
    let serve := ("made 1 " ++ specView val, some val)
    let refuse := ("made 0", none)
    match vd with
    | .mustServe => serve
    | .mustRefuse => refuse
    | .either => if served then serve else refuse
  setAns (old new : Bytes) (vd : Verdict) (served : Bool) : String × Option Bytes :=
    let serve := ("did 1 " ++ specView new, some (ByteStr.store old new))
    let refuse := ("did 0 " ++ specView old, some old)
    match vd with
    | .mustServe => serve
    | .mustRefuse => refuse
    | .either => if served then serve else refuse

def hasByte (bs : Bytes) (p : UInt8 → Bool) : Bool := bs.any p

def covOf (w0 w1 : World) (op : Op) (res : Res) : List String :=
  let evs := w1.mem.trace.drop w0.mem.trace.length
  let nm := (evs.filter fun e => match e with | .malloc _ _ => true | _ => false).length
  let nf := (evs.filter fun e => match e with | .free _ => true | _ => false).length
  let rep (n : Option Node) := match n with | none => "none" | some n => if n.len < 0 then "heap" else "inline"
  let bytesTags (bs : Bytes) :=
    (if hasByte bs (· == 0) then ["data-has-nul"] else []) ++
    (if hasByte bs (· ≥ 128) then ["data-has-high-bit"] else []) ++
    (if bs.isEmpty then ["data-empty"] else [])
  let setTags (len : Nat) :=
    match res with
    | .did 0 _ => [if nm = 0 ∧ (evs.any fun e => match e with | .mallocFail _ => true | _ => false)
                   then "set-refused-malloc-failed" else "set-refused-length-guard"]
    | .did _ _ =>
      let old := match w0.node with | some n => n.len.natAbs | none => 0
      [s!"set-{rep w0.node}-to-{rep w1.node}" ++ (if nm > 0 then "-grow" else "-inplace") ++ (if nf > 0 then "-free" else "")] ++
      (if len = old then ["set-same-length"] else if len < old then ["set-shorter"] else ["set-longer"])
    | _ => []
  match op, res with
  | _, .noNode => ["no-node"]
  | _, .busy => ["busy"]
  | .new obj _, .made ok _ => [if ok then (if obj.length < ptrSize then "new-short-min-room" else "new-inline") else "new-refused"] ++ bytesTags obj
  | .newn k, .made ok _ => [if ok then "newn-served" else if k < 0 then "newn-refused-negative" else "newn-refused-int-guard"]
  | .newz obj _, .made ok _ => [if ok then "newz" else "newz-refused"] ++ bytesTags obj
  | .set obj _, _ => setTags obj.length ++ bytesTags obj
  | .setn k, _ => setTags k.toNat ++ ["setn"]
  | .setz obj _, _ => setTags (ByteStr.cPrefix obj).length ++ bytesTags obj ++ ["setz"]
  | .get, _ => ["get-" ++ rep w1.node]
  | .eq _ b, .cmp ab _ => [(if ab then "eq-equal-" else "eq-differs-") ++ rep w1.node ++ (if b.isSome then "-vs-mutated" else "-vs-fresh")]
  | .copy _, .copied v _ _ => [(if v.isSome then "copy-ok-" else "copy-failed-") ++ rep w1.node]
  | .ser, _ => ["ser-" ++ rep w1.node]
  | .del, _ => ["del-" ++ rep w0.node]
  | _, _ => []

/-- A claimed size beyond the 8-byte source object that no length guard refuses makes the model fault
(memcpy reads past the source) — after it has materialised an allocation of that size.  The driver
reports that fault without building a 2 GiB cell list. -/
def claimFault (w : World) (op : Op) : Option String :=
  match w.node, op with
  | none, .newn k =>
    if k > claimSource.length ∧ ¬ (k ≥ StrStore.INT_MAX - Generated.strNewIntGuardSlack) then
      some "new: memcpy(jso->c_string.idata, s, len): reads past the source object" else none
  | some _, .setn k =>
    if k > claimSource.length ∧ ¬ (k ≥ StrStore.INT_MAX - Generated.strSetGuardSlack) then
      some "set: memcpy(dstbuf, s, len): reads past the source object" else none
  | _, _ => none

def step (s : St) (wds : List String) : St × Out :=
  match parseOp wds with
  | none => (s, { model := "bad-op", spec := "bad-op" })
  | some op =>
    match s.w with
    | none => (s, { model := "model-faulted-earlier" })
    | some w =>
      match claimFault w op with
      | some why => ({ s with w := none }, { model := "FAULT " ++ why, spec := "no-fault" })
      | none =>
      match StrStore.step w op with
      | .fault why => ({ s with w := none }, { model := "FAULT " ++ why, spec := "no-fault" })
      | .ok (w1, res) =>
        let (sline, sv) := specStep s.spec op res
        ({ w := some w1, spec := sv },
         { model := resStr res ++ " ## " ++ internals w w1 res, spec := sline, cov := covOf w w1 op res })

end Driver.Str
