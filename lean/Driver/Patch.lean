import Driver.Common
import JsonC.Model.Patch
import JsonC.Spec.Rfc6902
/-! patch component: model (JsonC.Patch, json_patch_apply) and spec (JsonC.Rfc6902) side by side.

op lines (trees in the JVal dump format):  `doc <tree>` sets the target document, `op <tree>` appends
one element to the patch, `run <mode>` applies the patch, `runraw <mode> <tree>` applies any value as patch.
  mode `base`: `*base` = doc, copy_from = NULL;  `copy`: `*base` = NULL, copy_from = doc;
  mode `both`: both given (argument error).
result line (harness and model, same format):
  `P:<patch before> rc=<rc> idx=<i|-> doc=<result|-> P:<patch after> shared=0[ cf=<copy_from after>] ## err=<class> idx=<i|max> doc=<*base>`
-/
namespace Driver.Patch
open JsonC JsonC.Patch Driver

/-! json_object_to_json_string (JSON_C_TO_STRING_SPACED) for the values the generator puts where a
string is expected; a double without retained text is not formatted (never generated there). -/

def hexc (n : Nat) : UInt8 := UInt8.ofNat (if n < 10 then 48 + n else 87 + n)

def escapeStr (s : Bytes) : Bytes :=
  s.flatMap fun c =>
    if c = 0x08 then [0x5c, 0x62] else if c = 0x0a then [0x5c, 0x6e] else if c = 0x0d then [0x5c, 0x72]
    else if c = 0x09 then [0x5c, 0x74] else if c = 0x0c then [0x5c, 0x66] else if c = 0x22 then [0x5c, 0x22]
    else if c = 0x5c then [0x5c, 0x5c] else if c = 0x2f then [0x5c, 0x2f]
    else if c < 0x20 then [0x5c, 0x75, 0x30, 0x30, hexc (c.toNat / 16), hexc (c.toNat % 16)]
    else [c]

mutual
  def serExec : JVal → Bytes
    | .null => strBytes "null"
    | .bool true => strBytes "true"
    | .bool false => strBytes "false"
    | .int _ v => strBytes (toString v)
    | .dbl _ (some t) => cstr t
    | .dbl _ none => strBytes "0.0"
    | .str s => [0x22] ++ escapeStr s ++ [0x22]
    | .arr xs => [0x5b] ++ serList true xs ++ strBytes " ]"
    | .obj kvs => [0x7b] ++ serMembers true kvs ++ strBytes " }"
  def serList : Bool → List JVal → Bytes
    | _, [] => []
    | first, x :: xs => (if first then [] else [0x2c]) ++ [0x20] ++ serExec x ++ serList false xs
  def serMembers : Bool → List (Bytes × JVal) → Bytes
    | _, [] => []
    | first, (k, v) :: kvs =>
      (if first then [] else [0x2c]) ++ [0x20, 0x22] ++ escapeStr k ++ [0x22, 0x3a, 0x20] ++ serExec v ++ serMembers false kvs
end

def idxStr : Option Nat → String
  | some i => toString i
  | none => "-"

/-- the specification's answer for the spec-observable part (`*` = no counterpart in the RFC) -/
def specLine (mode : String) (doc patch : JVal) : String :=
  let p := "P:" ++ patch.dump
  let tail := if mode = "copy" then " cf=" ++ doc.dump else ""
  if mode ≠ "base" ∧ mode ≠ "copy" then "*"
  else if isNull doc then "*"           -- the API cannot be handed a JSON null document
  else
    match Rfc6902.applyPatch doc patch with
    | .ok d => s!"{p} rc=0 idx=- doc={d.dump} {p} shared=0{tail}"
    | .error (i, _) => s!"{p} rc=-1 idx={idxStr i} doc=- {p} shared=0{tail}"

def opName (e : JVal) : String :=
  match objGet e kOp with
  | some (.str s) =>
    if s = sAdd then "add" else if s = sRemove then "remove" else if s = sReplace then "replace"
    else if s = sMove then "move" else if s = sCopy then "copy" else if s = sTest then "test" else "op-unknown"
  | some .null => "op-null"
  | some _ => "op-illtyped"
  | none => "op-missing"

def strField (e : JVal) (k : Bytes) : Option Bytes :=
  match objGet e k with
  | some (.str s) => some s
  | _ => none

def fieldKind (e : JVal) (k : Bytes) (name : String) : List String :=
  match objGet e k with
  | some (.str _) => []
  | some .null => [name ++ "-null"]
  | some _ => [name ++ "-illtyped"]
  | none => [name ++ "-missing"]

/-- coverage tags of one patch element -/
def covElem (e : JVal) : List String :=
  match e with
  | .obj _ =>
    let op := opName e
    let path := strField e kPath
    let frm := strField e kFrom
    let pk := match path with
      | some p =>
        (if p.isEmpty then ["path-root"] else []) ++
        (if p.getLast? = some 0x2d then ["path-dash"] else []) ++
        (if p.any (· == 0x7e) then ["path-escaped"] else []) ++
        (if !p.isEmpty ∧ p.head? ≠ some 0x2f then ["path-noslash"] else []) ++
        (if p.length > 15 then ["path-bigindex"] else [])
      | none => fieldKind e kPath "path"
    let fk := if op = "move" ∨ op = "copy" then
        match frm, path with
        | some f, some p =>
          (if f = p then ["from-eq-path"] else
           if fromIsPrefix f p then ["from-prefix-of-path"] else
           if fromIsPrefix p f then ["path-prefix-of-from"] else
           if f.isPrefixOf p ∨ p.isPrefixOf f then ["from-path-textual-prefix"] else []) ++
          (if f.isEmpty then ["from-root"] else [])
        | none, _ => fieldKind e kFrom "from"
        | _, _ => []
      else []
    let vk := if op = "add" ∨ op = "replace" ∨ op = "test" then
        match objGet e kValue with
        | none => ["value-missing"]
        | some .null => ["value-null"]
        | some (.arr _) | some (.obj _) => ["value-container"]
        | _ => []
      else []
    [op] ++ pk ++ fk ++ vk
  | _ => ["elem-not-object"]

structure St where
  doc : Option JVal := none
  ops : List JVal := []        -- patch elements so far, in order
  bad : Bool := false

def runLine (mode : String) (doc patch : JVal) : Out :=
  let (cf, base) :=
    if mode = "copy" then (doc, JVal.null) else if mode = "both" then (doc, doc) else (JVal.null, doc)
  match applyC serExec jsonObjectEqual cf base patch with
  | .fault why => { model := "FAULT " ++ why, spec := "no-fault" }
  | .ok r =>
    let pd := "P:" ++ patch.dump
    let pd' := "P:" ++ r.patch.dump
    let tail := if mode = "copy" ∨ mode = "both" then " cf=" ++ doc.dump else ""
    let docS := if r.rc = 0 then r.doc.dump else "-"
    let idxS := if r.rc = 0 then "-" else idxStr r.idx
    let idxRaw := match r.idx with | some i => toString i | none => "max"
    let mline := s!"{pd} rc={r.rc} idx={idxS} doc={docS} {pd'} shared=0{tail} ## err={r.err} idx={idxRaw} doc={r.doc.dump}"
    let elems := match patch with | .arr es => es | _ => []
    let cov := (elems.flatMap covElem).eraseDups ++
      [if r.rc = 0 then "ok" else "fail-" ++ toString r.err] ++
      (match patch with | .arr _ => [] | _ => ["patch-not-array"]) ++
      (if elems.length > 1 then ["multi-op"] else []) ++
      (if elems.isEmpty then ["patch-empty"] else []) ++
      (match r.idx with | some i => if r.rc < 0 ∧ i > 0 then ["failed-after-" ++ (if i > 3 then "4+" else toString i)] else [] | none => []) ++
      (if r.rc < 0 ∧ r.doc.dump ≠ (if mode = "copy" then doc else base).dump then ["doc-changed-before-failure"] else []) ++
      (if isNull r.doc ∧ r.err ≠ .EFAULT then ["doc-null"] else []) ++
      ["mode-" ++ mode]
    { model := mline, spec := specLine mode doc patch, tags := r.tags.eraseDups, cov := cov }

/-- `doc <tree>` sets the target document, `op <tree>` appends a patch element,
`run <mode>` applies the patch built so far, `runraw <mode> <tree>` applies an arbitrary value as patch -/
def step (st : St) (w : List String) : St × Out :=
  match w with
  | ["doc", d] =>
    match JVal.parse d with
    | some v => ({ st with doc := some v }, { model := "doc" })
    | none => ({ st with bad := true }, { model := "bad-tree" })
  | ["op", e] =>
    match JVal.parse e with
    | some v => ({ st with ops := st.ops ++ [v] }, { model := "op" })
    | none => ({ st with bad := true }, { model := "bad-tree" })
  | ["run", mode] =>
    match st.doc, st.bad with
    | some doc, false => (st, runLine mode doc (.arr st.ops))
    | _, _ => (st, { model := "bad-state" })
  | ["runraw", mode, p] =>
    match st.doc, st.bad, JVal.parse p with
    | some doc, false, some patch => (st, runLine mode doc patch)
    | _, _, _ => (st, { model := "bad-state" })
  | _ => (st, { model := "bad-op" })

end Driver.Patch
