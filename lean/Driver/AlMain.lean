import Driver.Al
open Driver

def main : IO UInt32 := do
  runComponent Al.init Al.step
  return 0
