-- stub: component `al` not built yet
def main : IO UInt32 := do
  IO.eprintln "driver-al: not implemented"
  return 2
