import Driver.Common
import JsonC.Model.Visit
import JsonC.Spec.Traversal
/-! visit component: model (JsonC.Visit.visit = json_c_visit) and spec (JsonC.Traversal.traverse)
side by side, driven by a scripted user function.

op:  `visit <tree> <schedule> [future_flags]`
  tree      typed dump of Model/Value.lean
  schedule  `-` or comma-separated rules `<k>:<code>` (k-th call, 1-based), `n<id>:<code>` (first call
            for node id), `m<id>:<code>` (flagged call for node id), `F:<code>` / `S:<code>` (every
            other first / flagged call); first match in that order of priority, default CONTINUE.
out: `ret=<r> calls=<n> <node>:<flags>:<parent|->:<-|k<hex>|i<n>>=<code> … ## size=<nodes> same=1` -/
namespace Driver.Visit
open JsonC JsonC.Traversal JsonC.Visit Driver Generated

inductive Rule where
  | call (k : Nat) (code : Int)
  | first (id : Nat) (code : Int)
  | second (id : Nat) (code : Int)
  | allFirst (code : Int)
  | allSecond (code : Int)

def parseRule (w : String) : Option Rule :=
  match w.splitOn ":" with
  | [a, b] => do
    let code ← parseInt? b
    if a = "F" then pure (.allFirst code)
    else if a = "S" then pure (.allSecond code)
    else if a.startsWith "n" then (a.drop 1).toNat?.map (Rule.first · code)
    else if a.startsWith "m" then (a.drop 1).toNat?.map (Rule.second · code)
    else a.toNat?.map (Rule.call · code)
  | _ => none

def parseSchedule (w : String) : Option (List Rule) :=
  if w = "-" then some [] else (w.splitOn ",").mapM parseRule

/-- priority class of a rule for the k-th call `c`: 0 = call number, 1 = node, 2 = default -/
def Rule.matches (k : Nat) (c : Call) : Rule → Option (Nat × Int)
  | .call k' code => if k = k' then some (0, code) else none
  | .first id code => if c.flags = 0 ∧ c.node = id then some (1, code) else none
  | .second id code => if c.flags ≠ 0 ∧ c.node = id then some (1, code) else none
  | .allFirst code => if c.flags = 0 then some (2, code) else none
  | .allSecond code => if c.flags ≠ 0 then some (2, code) else none

def answer (rules : List Rule) (k : Nat) (c : Call) : Int :=
  let ms := rules.filterMap (·.matches k c)
  let pick (p : Nat) := (ms.find? (·.1 == p)).map (·.2)
  ((pick 0).orElse fun _ => (pick 1).orElse fun _ => pick 2).getD visitContinue

/-- the scripted user function; its state counts the calls made so far -/
def scripted (rules : List Rule) : Cb Nat := fun n c => (answer rules (n + 1) c, n + 1)

def slotStr : Slot → String
  | .root => "-"
  | .key k => "k" ++ toHex k
  | .idx i => "i" ++ toString i

def entryStr (x : Call × Int) : String :=
  let c := x.1
  let par := match c.parent with | none => "-" | some p => toString p
  s!"{c.node}:{c.flags}:{par}:{slotStr c.slot}={x.2}"

def render (ret : Int) (log : List (Call × Int)) : String :=
  s!"ret={ret} calls={log.length} " ++ " ".intercalate (log.map entryStr)

def clsOf (r : Int) : String :=
  if r = visitSkip then "skip" else if r = visitPop then "pop" else if r = visitStop then "stop"
  else if r = visitError then "error" else "invalid"

def covOf (t : JVal) (log : List (Call × Int)) : List String :=
  let shape := match t with | .arr _ => "root-arr" | .obj _ => "root-obj" | _ => "root-scalar"
  let rec go : List (Call × Int) → List String
    | [] => []
    | x :: rest =>
      let c := x.1
      let here :=
        if x.2 = visitContinue then []
        else
          let base := (if c.flags = 0 then "F." else "S.") ++ clsOf x.2 ++ (if c.parent.isNone then ".root" else ".nested")
            ++ (if isContainer c.val then ".cont" else ".leaf")
          let sib := match rest with
            | y :: _ => if c.flags ≠ 0 ∧ c.parent.isSome ∧ y.1.flags = 0 ∧ y.1.parent = c.parent then [base ++ ".then-sibling"] else []
            | [] => []
          base :: sib
      here ++ go rest
  let tags := go log
  -- an all-CONTINUE run yields a single tag, so that only runs with a non-CONTINUE code count as non-trivial
  if tags.isEmpty then ["all-continue." ++ shape] else shape :: tags.eraseDups

def step (_ : Unit) (w : List String) : Unit × Out :=
  let run (tw sw : String) (ff : Int) : Out :=
    match JVal.parse tw, parseSchedule sw with
    | some t, some rules =>
      let cb := withLog (scripted rules)
      let m := visit cb (0, []) t ff
      let sp := traverse cb (0, []) t
      { model := render m.1 m.2.2 ++ s!" ## size={t.size} same=1",
        spec := render sp.1.toInt sp.2.2,
        cov := covOf t m.2.2 }
    | _, _ => { model := "bad-op" }
  match w with
  | ["visitdel", tw, sw] =>
    -- the callback deletes the object member it is called for whenever it answers SKIP on the first call: the calls
    -- made are those of the plain traversal with the same answers (a skipped member's subtree is not entered, its
    -- siblings are still visited); what the tree looks like afterwards is not compared
    let o := run tw sw 0
    ((), { o with model := (o.model.splitOn " ## ").headD "" ++ " ## deleted", cov := o.cov ++ ["visitdel"] })
  | ["visit", tw, sw] => ((), run tw sw 0)
  | ["visit", tw, sw, fw] =>
    match parseInt? fw with
    | some ff => ((), run tw sw ff)
    | none => ((), { model := "bad-op" })
  | _ => ((), { model := "bad-op" })

end Driver.Visit
