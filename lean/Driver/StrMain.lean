import Driver.Str
open Driver

def main : IO UInt32 := do
  runComponent Str.init Str.step
  return 0
