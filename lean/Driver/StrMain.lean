-- stub: component `str` not built yet
def main : IO UInt32 := do
  IO.eprintln "driver-str: not implemented"
  return 2
