import Driver.Common
import JsonC.Model.Threads
/-! thr component (C18, supporting run): the interleaving model (JsonC.Threads) executed on the recorded
scenario under several schedules, next to the schedule-independent prediction of the theorems
(`final_count_schedule_independent`, `destroy_once_after_last`, `seed_stable`). -/
namespace Driver.Thr
open JsonC JsonC.Threads Driver

structure TProg where
  tid : Nat
  held : List (Nat × Nat)
  reps : Nat
  body : List Op
  tail : List Op

structure Scen where
  m : Nat := 0
  progs : List TProg := []
  mainHeld : List (Nat × Nat) := []
  seedK : Nat := 0
  seedCands : List (List Int) := []
  isSeed : Bool := false
  bad : Bool := false

structure St where
  lines : List (List String) := []
  /-- result of the scenario recorded so far: model line, spec line, coverage tags (without the variant) -/
  cache : Option (String × String × List String) := none

def init : St := {}

def parseHeld (s : String) : Option (List (Nat × Nat)) :=
  if s = "-" then some [] else
  (s.splitOn ",").mapM fun p =>
    match p.splitOn ":" with
    | [a, b] => do pure (← a.toNat?, ← b.toNat?)
    | _ => none

def parseOp (w : String) : Option Op :=
  match w.toList with
  | 'g' :: r => (String.ofList r).toNat?.map .get
  | 'p' :: r => (String.ofList r).toNat?.map .put
  | 'w' :: r => (String.ofList r).toNat?.map .work
  | 'e' :: r => (String.ofList r).toNat?.map .work   -- work through an error path of the library: same model
  | 'u' :: r => (String.ofList r).toNat?.map .work   -- set_userdata by one owner: plain writes to the node, no count change
  | _ => none

def splitTail (ws : List String) : List String × List String :=
  (ws.takeWhile (· ≠ "/"), (ws.dropWhile (· ≠ "/")).drop 1)

def addLine (s : Scen) (w : List String) : Scen :=
  match w with
  | ["nodes", m] => match m.toNat? with | some k => { s with m := k } | none => { s with bad := true }
  | ["main", h] => match parseHeld h with | some l => { s with mainHeld := l } | none => { s with bad := true }
  | "t" :: tid :: held :: reps :: ops =>
    let (b, tl) := splitTail ops
    match tid.toNat?, parseHeld held, reps.toNat?, b.mapM parseOp, tl.mapM parseOp with
    | some t, some h, some r, some body, some tail => { s with progs := s.progs ++ [⟨t, h, r, body, tail⟩] }
    | _, _, _, _, _ => { s with bad := true }
  | "seed" :: k :: cs =>
    match k.toNat?, cs.mapM (fun c => (c.splitOn ",").mapM parseInt?) with
    | some kk, some l => { s with isSeed := true, seedK := kk, seedCands := l }
    | _, _ => { s with bad := true }
  | _ => { s with bad := true }

def heldOf (h : List (Nat × Nat)) (n : Nat) : Nat :=
  (h.filter (·.1 = n)).foldl (fun a p => a + p.2) 0

def expand (p : TProg) : List Op := (List.replicate p.reps p.body).flatten ++ p.tail

/-! ### reference counts -/

def initCnt (s : Scen) (n : Nat) : Nat :=
  s.progs.foldl (fun a p => a + heldOf p.held n) (heldOf s.mainHeld n)

def mkCfg (s : Scen) : Cfg :=
  let nT := s.progs.length
  let progs := (List.range nT).map fun t =>
    match s.progs.find? (·.tid = t) with
    | some p => expand p
    | none => []
  let mainProg := (List.range s.m).flatMap fun n => List.replicate (heldOf s.mainHeld n) (Op.put n)
  { nodes := (List.range s.m).map fun n => ⟨initCnt s n, 0⟩,
    threads := (progs ++ [mainProg, []]).map fun p => ⟨p, .start⟩ }

def unfinished (c : Cfg) (lo hi : Nat) : List Nat :=
  (List.range hi).filter fun t => lo ≤ t ∧ progAt c t ≠ []

/-- run threads lo..hi-1 to completion; `pick k live` chooses among the unfinished ones -/
def runUntil (pick : Nat → List Nat → Nat) (lo hi : Nat) : Nat → Nat → Cfg → Cfg
  | 0, _, c => c
  | fuel + 1, k, c =>
    if c.fault.isSome then c else
    match unfinished c lo hi with
    | [] => c
    | live => runUntil pick lo hi fuel (k + 1) (step refSem c (pick k live))

/-- thread t runs alone until it is done (fuel = 3 accesses per operation) -/
def runSolo (t : Nat) : Nat → Cfg → Cfg
  | 0, c => c
  | fuel + 1, c => if progAt c t = [] ∨ c.fault.isSome then c else runSolo t fuel (step refSem c t)

def totalOps (c : Cfg) : Nat := c.threads.foldl (fun a th => a + th.prog.length) 0

inductive Sched where | seq | robin | rnd (seed : Nat)

def lcg (x : Nat) : Nat := (x * 6364136223846793005 + 1442695040888963407) % 18446744073709551616

def runPhase (sc : Sched) (lo hi : Nat) (c : Cfg) : Cfg :=
  let fuel := 3 * totalOps c + 8
  match sc with
  | .seq => (List.range hi).foldl (fun c t => if lo ≤ t then runSolo t fuel c else c) c
  | .robin => runUntil (fun k live => live.getD (k % live.length) 0) lo hi fuel 0 c
  | .rnd s =>
    -- bursts of pseudo-random length: the pick depends on k / 3 so that operations of different threads overlap
    runUntil (fun k live => live.getD ((lcg (s + k / 2)) / 65536 % live.length) 0) lo hi fuel 0 c

def nodeStr (n : Nat) (c d r bigD e : String) : String := s!" n{n}:c={c},d={d},r={r},D={bigD},E={e}"

/-- the result line of one model run -/
def rcModel (s : Scen) (sc : Sched) : String :=
  let nT := s.progs.length
  let c0 := mkCfg s
  let c1 := runPhase sc 0 nT c0
  let c2 := runPhase .seq nT (nT + 1) c1
  -- references the thread programs kept are released by one more thread
  let cleanup := (List.range s.m).flatMap fun n =>
    if destroyedAt c2 n = 0 then List.replicate (cntAt c2 n) (Op.put n) else []
  let c2' := { c2 with threads := c2.threads.set (nT + 1) ⟨cleanup, .start⟩ }
  let c3 := runPhase .seq (nT + 1) (nT + 2) c2'
  match c1.fault, c2.fault, c3.fault with
  | some w, _, _ => "FAULT " ++ w
  | _, some w, _ => "FAULT " ++ w
  | _, _, some w => "FAULT " ++ w
  | none, none, none =>
    let per := (List.range s.m).map fun n =>
      let d := destroyedAt c1 n
      nodeStr n (if d = 0 then toString (cntAt c1 n) else "-") (toString d) (toString (zeroPutsOn c1.trace n))
        (toString (destroyedAt c2 n)) (toString (destroyedAt c3 n))
    "rc" ++ String.join per ++ " x=0"

def getsOfP (p : TProg) (n : Nat) : Nat := p.reps * getsIn p.body n + getsIn p.tail n
def putsOfP (p : TProg) (n : Nat) : Nat := p.reps * putsIn p.body n + putsIn p.tail n

/-- the schedule-independent prediction (initial + gets - puts; destroyed exactly once, when 0 is reached) -/
def rcSpec (s : Scen) : String :=
  let per := (List.range s.m).map fun n =>
    let g := s.progs.foldl (fun a p => a + getsOfP p n) 0
    let p := s.progs.foldl (fun a p => a + putsOfP p n) 0
    let after := initCnt s n + g - p
    let d := if after = 0 then 1 else 0
    let bigD := if after - heldOf s.mainHeld n = 0 then 1 else 0
    nodeStr n (if after = 0 then "-" else toString after) (toString d) (toString d) (toString bigD) "1"
  "rc" ++ String.join per ++ " x=0"

def heldList (s : Scen) (h : List (Nat × Nat)) : List Nat := (List.range s.m).map (heldOf h)

/-- the programs respect ownership: the first two rounds of the body and the tail are fine from the initial
holdings, and a body that is repeated more often does not lose references over a round -/
def ownershipOk (s : Scen) : Bool :=
  s.progs.all (fun p =>
    let rounds := if p.reps = 0 then [] else if p.reps = 1 then p.body else p.body ++ p.body
    okProgB (heldList s p.held) (rounds ++ p.tail) &&
    (p.reps ≤ 2 || (List.range s.m).all (fun n => putsIn p.body n ≤ getsIn p.body n)))
  && (List.range s.m).all (fun n => 0 < initCnt s n)

def touches (p : TProg) (n : Nat) : Bool := (p.body ++ p.tail).any (·.node = n) || heldOf p.held n > 0

def rcCov (s : Scen) (variant : String) : List String :=
  let shared := (List.range s.m).any fun n => (s.progs.filter (touches · n)).length ≥ 2
  let priv := (List.range s.m).any fun n => (s.progs.filter (touches · n)).length = 1
  let zeroInThread := (List.range s.m).any fun n =>
    initCnt s n + s.progs.foldl (fun a p => a + getsOfP p n) 0 = s.progs.foldl (fun a p => a + putsOfP p n) 0
  let work := s.progs.any fun p => (p.body ++ p.tail).any fun o => match o with | .work _ => true | _ => false
  let cushion := (List.range s.m).any fun n => heldOf s.mainHeld n > 0
  ["rc-" ++ variant, s!"threads={s.progs.length}"].drop 1 ++ ["rc"]
    ++ (if shared then ["shared-node"] else []) ++ (if priv then ["private-node"] else [])
    ++ (if zeroInThread then ["last-put-in-thread"] else ["survives-threads"])
    ++ (if work then ["exclusive-work"] else []) ++ (if cushion then ["main-holds"] else [])

/-! ### seed -/

def mkSeed (s : Scen) : SCfg :=
  { seed := Generated.thrSeedInit, threads := s.seedCands.map fun cs => ⟨3, cs, .idle⟩ }

def sUnfinished (c : SCfg) : List Nat :=
  (List.range c.threads.length).filter fun t =>
    match c.threads[t]? with
    | some th => !(th.calls = 0 ∧ th.pc = .idle)
    | none => false

def sRunUntil (pick : Nat → List Nat → Nat) : Nat → Nat → SCfg → SCfg
  | 0, _, c => c
  | fuel + 1, k, c =>
    match sUnfinished c with
    | [] => c
    | live => sRunUntil pick fuel (k + 1) (seedStep c (pick k live))

def seedModel (s : Scen) (sc : Sched) : String :=
  let c0 := mkSeed s
  let fuel := 40 * (c0.threads.length + 1) + 8 * (s.seedCands.foldl (fun a l => a + l.length) 0)
  let pick : Nat → List Nat → Nat := match sc with
    | .seq => fun _ live => live.headD 0
    | .robin => fun k live => live.getD (k % live.length) 0
    | .rnd sd => fun k live => live.getD ((lcg (sd + k)) / 65536 % live.length) 0
  let c := sRunUntil pick fuel 0 c0
  if sUnfinished c ≠ [] then "STUCK generator never returned a usable candidate" else
  let agree := c.seed ≠ -1 ∧ c.hashes.all (fun e => e.used = c.seed)
  let perThreadOk := (List.range c.threads.length).all fun t =>
    match (c.hashes.filter (·.tid = t)) with
    | [] => true
    | e :: es => es.all (·.used = e.used)
  let genOk := (List.range c.threads.length).all (fun t =>
    match c.threads[t]?, s.seedCands[t]? with
    | some th, some cs =>
      let used := cs.length - th.cands.length
      let pre := (cs.takeWhile (· = -1)).length + 1
      used = 0 ∨ used = pre
    | _, _ => false) && c.writes.length = 1
  s!"seed agree={if agree then 1 else 0} notfound={if perThreadOk then "0" else ">0"} gen={if genOk then "ok" else "bad"}"

def allSame (l : List String) : String :=
  match l with
  | [] => "no-run"
  | x :: xs => if xs.all (· = x) then x else "SCHEDULE-DEPENDENT " ++ " | ".intercalate l

def evalScen (s : Scen) : String × String × List String :=
  if s.isSeed then
    let scheds := [Sched.seq, .robin, .rnd 1, .rnd 7]
    (allSame (scheds.map (seedModel s)), "seed agree=1 notfound=0 gen=ok",
      ["seed", s!"racers={s.seedCands.length}"]
        ++ (if s.seedCands.any (·.head? = some (-1)) then ["generator-returns-unset"] else []))
  else
    let scheds := [Sched.seq, .robin, .rnd 3]
    let ok := ownershipOk s
    (allSame (scheds.map (rcModel s)), if ok then rcSpec s else "*",
      rcCov s "model" ++ (if ok then [] else ["ownership-violated"]))

def step (st : St) (w : List String) : St × Out :=
  match w with
  | ["run", variant] =>
    let s := st.lines.foldl addLine {}
    if s.bad then (st, { model := "bad-scenario", spec := "*" }) else
    let r := match st.cache with
      | some r => r
      | none => evalScen s
    ({ st with cache := some r }, { model := r.1, spec := r.2.1, cov := ("run-" ++ variant) :: r.2.2 })
  | _ => ({ lines := st.lines ++ [w], cache := none }, { model := "ok", spec := "ok" })

end Driver.Thr
