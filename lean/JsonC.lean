-- Root of the JsonC library: models, specifications, lemmas and property theorems.
import JsonC.Base.Basic
import JsonC.Generated.Consts
import JsonC.Generated.Structure
import JsonC.Model.Printbuf
import JsonC.Spec.ByteBuf
