/-
  IEEE-754 binary64 as exact arithmetic.  Lean's `Float` is opaque to the kernel, so a double is
  its 64-bit pattern (a `Nat` below 2^64) decoded to an exact dyadic rational ±num/den (den a
  power of two), an infinity or a NaN; and the integer → double conversion the hardware performs
  for a C cast `(double)x` (round to nearest, ties to even) computed on `Nat`.
  `natToDbl` is compared with the real conversion on every correspondence run (`libc i2d/u2d`).
-/
import JsonC.Base.Basic

namespace JsonC.Dbl

/-- exact content of a bit pattern: `fin neg num den` is the real number ±num/den -/
inductive Dec where
  | fin (neg : Bool) (num den : Nat)
  | inf (neg : Bool)
  | nan
  deriving Repr, DecidableEq

/-- sign bit, 11 exponent bits, 52 fraction bits -/
def decode (b : Nat) : Dec :=
  let neg : Bool := b / 2 ^ 63 % 2 = 1
  let be := b / 2 ^ 52 % 2048
  let frac := b % 2 ^ 52
  if be = 2047 then (if frac = 0 then .inf neg else .nan)
  else if be = 0 then .fin neg frac (2 ^ 1074)
  else if 1075 ≤ be then .fin neg ((2 ^ 52 + frac) * 2 ^ (be - 1075)) 1
  else .fin neg (2 ^ 52 + frac) (2 ^ (1075 - be))

/-- `(double)n` for a non-negative integer `n < 2^64`, as a bit pattern with the sign bit clear:
round to nearest, ties to even (the result is a normal number or zero, never an infinity). -/
def natToDbl (n : Nat) : Nat :=
  if n = 0 then 0
  else
    let l := Nat.log2 n
    if l ≤ 52 then (l + 1023) * 2 ^ 52 + (n * 2 ^ (52 - l) - 2 ^ 52)
    else
      let k := l - 52
      let m0 := n / 2 ^ k
      let r := n % 2 ^ k
      let m := if 2 * r > 2 ^ k ∨ (2 * r = 2 ^ k ∧ m0 % 2 = 1) then m0 + 1 else m0
      -- a carry out of the 53-bit mantissa lands exactly on the next power of two
      (l + 1023) * 2 ^ 52 + (m - 2 ^ 52)

/-- `(double)v` for a signed integer `|v| < 2^64` -/
def intToDbl (v : Int) : Nat :=
  if v < 0 then 2 ^ 63 + natToDbl v.natAbs else natToDbl v.natAbs

end JsonC.Dbl
