/-
  Executable reference models of glibc `strtod` and `snprintf("%.17g")` on finite decimals, in exact
  `Nat`/`Int` arithmetic (Lean's `Float` is opaque to the kernel, so doubles are 64-bit patterns).
  Validated bit-for-bit against glibc by the correspondence runs (design prototype: 600 000 cases).
  They are used by the driver to compute number values/text itself; inside theorems libc behaviour
  only ever appears as a named hypothesis, never as an axiom.
-/
import JsonC.Base.Basic

namespace JsonC.Dbl

def pow2 (n : Nat) : Nat := 1 <<< n
def log2 (n : Nat) : Nat := Nat.log2 n     -- floor log2, 0 for 0

/-- round a positive rational `num/den` to the nearest double (ties to even); returns bits without sign -/
def roundNE (num den : Nat) : UInt64 :=
  if num == 0 then 0 else
  -- find e with 2^52 ≤ num / (den * 2^e) < 2^53
  let e0 : Int := (log2 num : Int) - (log2 den : Int) - 52
  let scaled (e : Int) : Nat × Nat :=   -- (numerator, denominator) of num/den / 2^e
    if e ≥ 0 then (num, den * pow2 e.toNat) else (num * pow2 (-e).toNat, den)
  let q (e : Int) : Nat := let (a, b) := scaled e; a / b
  let e1 : Int := if q e0 ≥ pow2 53 then e0 + 1 else if q e0 < pow2 52 then e0 - 1 else e0
  let e : Int := if e1 < -1074 then -1074 else e1
  let (a, b) := scaled e
  let m0 := a / b
  let r := a % b
  let m := if 2 * r > b || (2 * r == b && m0 % 2 == 1) then m0 + 1 else m0
  -- renormalise after carry
  let (m, e) := if m ≥ pow2 53 then (m / 2, e + 1) else (m, e)
  if m < pow2 52 then
    -- subnormal (e = -1074) or zero
    UInt64.ofNat m
  else
    let be : Int := e + 52 + 1023
    if be ≥ 2047 then 0x7FF0000000000000
    else UInt64.ofNat (be.toNat * pow2 52 + (m - pow2 52))

def isDigit (c : UInt8) : Bool := 48 ≤ c && c ≤ 57

/-- parse `[+-]?digits[.digits][(e|E)[+-]?digits]` (also `.digits`, `digits.`); returns sign, mantissa, exp10, consumed -/
def scanDec (s : List UInt8) : Option (Bool × Nat × Int × Nat) :=
  let (neg, s1, k0) := match s with
    | 45 :: t => (true, t, 1)
    | 43 :: t => (false, t, 1)
    | t => (false, t, 0)
  let ip := s1.takeWhile isDigit
  let s2 := s1.drop ip.length
  let (fp, s3, kdot) := match s2 with
    | 46 :: t => let f := t.takeWhile isDigit; (f, t.drop f.length, 1)
    | t => ([], t, 0)
  if ip.isEmpty && fp.isEmpty then none else
  let mant := (ip ++ fp).foldl (fun a c => a * 10 + (c.toNat - 48)) 0
  let k1 := k0 + ip.length + kdot + fp.length
  let (ex, kexp) : Int × Nat := match s3 with
    | c :: t =>
      if c == 101 || c == 69 then
        let (eneg, t2, ks) := match t with
          | 45 :: u => (true, u, 1)
          | 43 :: u => (false, u, 1)
          | u => (false, u, 0)
        let ed := t2.takeWhile isDigit
        if ed.isEmpty then (0, 0) else
        let v : Int := ed.foldl (fun a c => a * 10 + (c.toNat - 48)) 0
        ((if eneg then -v else v), 1 + ks + ed.length)
      else (0, 0)
    | [] => (0, 0)
  some (neg, mant, ex - fp.length, k1 + kexp)

def strtod (s : List UInt8) : UInt64 × Nat :=
  match scanDec s with
  | none => (0, 0)
  | some (neg, mant, e10, k) =>
    -- clamp silly exponents so the big-number arithmetic stays small
    let bits :=
      if mant == 0 then 0
      else if e10 > 400 then 0x7FF0000000000000
      else if e10 < -1200 - (Nat.log2 mant : Int) then 0
      else if e10 ≥ 0 then roundNE (mant * 10 ^ e10.toNat) 1 else roundNE mant (10 ^ (-e10).toNat)
    ((if neg then bits ||| 0x8000000000000000 else bits), k)

def natDigits (n : Nat) : List UInt8 := (toString n).toUTF8.toList

/-- `%.17g` of a finite double -/
def fmtG17 (bits : UInt64) : List UInt8 :=
  let neg := (bits >>> 63) == 1
  let be := ((bits >>> 52) &&& 0x7FF).toNat
  let frac := (bits &&& 0xFFFFFFFFFFFFF).toNat
  let sign : List UInt8 := if neg then [45] else []
  if be == 0 && frac == 0 then sign ++ [48] else
  let (m, e) : Nat × Int := if be == 0 then (frac, -1074) else (frac + pow2 52, (be : Int) - 1075)
  let (num, den) : Nat × Nat := if e ≥ 0 then (m * pow2 e.toNat, 1) else (m, pow2 (-e).toNat)
  -- decimal exponent X with 10^X ≤ v < 10^(X+1)
  let x0 : Int := ((natDigits (num / den)).length : Int) - 1
  let x0 : Int := if num / den == 0 then
      -- v < 1: estimate from bit lengths, then fix up
      let est : Int := (((log2 num : Int) - (log2 den : Int)) * 30103) / 100000 - 1
      est
    else x0
  let ge10 (x : Int) : Bool := if x ≥ 0 then num ≥ den * 10 ^ x.toNat else num * 10 ^ (-x).toNat ≥ den
  let rec fix (x : Int) (fuel : Nat) : Int :=
    match fuel with
    | 0 => x
    | f + 1 => if !(ge10 x) then fix (x - 1) f else if ge10 (x + 1) then fix (x + 1) f else x
  let x := fix x0 8
  -- 17 significant digits
  let sc : Int := x - 16
  let (a, b) : Nat × Nat := if sc ≥ 0 then (num, den * 10 ^ sc.toNat) else (num * 10 ^ (-sc).toNat, den)
  let d0 := a / b
  let r := a % b
  let d := if 2 * r > b || (2 * r == b && d0 % 2 == 1) then d0 + 1 else d0
  let (d, x) := if d ≥ 10 ^ 17 then (d / 10, x + 1) else (d, x)
  let ds := natDigits d            -- exactly 17 digits
  let strip (l : List UInt8) : List UInt8 := (l.reverse.dropWhile (· == 48)).reverse
  if x < -4 || x ≥ 17 then
    let fracDs := strip (ds.drop 1)
    let mant := ds.take 1 ++ (if fracDs.isEmpty then [] else 46 :: fracDs)
    let ex := x.natAbs
    let exDs := if ex < 10 then 48 :: natDigits ex else natDigits ex
    sign ++ mant ++ [101, if x < 0 then 45 else 43] ++ exDs
  else if x ≥ 0 then
    let ip := ds.take (x.toNat + 1)
    let fp := strip (ds.drop (x.toNat + 1))
    sign ++ ip ++ (if fp.isEmpty then [] else 46 :: fp)
  else
    let zeros := List.replicate ((-x).toNat - 1) (48 : UInt8)
    let fp := strip (zeros ++ ds)
    sign ++ [48, 46] ++ fp

end JsonC.Dbl
