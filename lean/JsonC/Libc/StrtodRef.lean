/-
  Reference semantics of glibc `strtod(s, &end)` in the C locale on arbitrary bytes: leading
  `isspace`, sign, `inf`/`infinity`, `nan`/`nan(n-char-seq)`, hexadecimal floating literals,
  decimal literals; the value (round to nearest even, `Dbl.roundNE`), `end - s`, and errno
  (ERANGE on overflow and on a tiny inexact result; tininess is detected after rounding, as glibc
  does on x86-64).  Extends `Dbl.scanDec`/`Dbl.roundNE` (JsonC/Libc/Dbl.lean, shared).
  Compared with the real libc on every correspondence run (`libc strtod` ops of harness/num.c);
  inside theorems strtod is a parameter, never an axiom.
-/
import JsonC.Libc.Dbl
import JsonC.Libc.DblDecode
import JsonC.Libc.Strtoll

namespace JsonC.Libc
open JsonC

/-- result of a strtod call: bit pattern, `end - s`, errno left (`none` = untouched) -/
structure DRes where
  bits : Nat
  consumed : Nat
  errno : Errno
  deriving Repr, DecidableEq

def lower (c : UInt8) : UInt8 := if 65 ≤ c && c ≤ 90 then c + 32 else c

/-- case-insensitive prefix test against a lowercase word -/
def hasPrefixCI (w s : Bytes) : Bool := (s.take w.length).map lower == w && w.length ≤ s.length

def hexDigitVal (c : UInt8) : Option Nat :=
  if 48 ≤ c && c ≤ 57 then some (c.toNat - 48)
  else if 97 ≤ c && c ≤ 102 then some (c.toNat - 87)
  else if 65 ≤ c && c ≤ 70 then some (c.toNat - 55)
  else none

def isHexDigit (c : UInt8) : Bool := (hexDigitVal c).isSome

def hexVal (ds : Bytes) : Nat := ds.foldl (fun a c => a * 16 + (hexDigitVal c).getD 0) 0

def posInf : Nat := 0x7FF0000000000000
def quietNaN : Nat := 0x7FF8000000000000
def signBit : Nat := 0x8000000000000000

/-- `strtoull(payload, &endp, 0)` on an n-char-sequence (letters, digits, `_` only): value,
bytes consumed, overflow -/
def nanPayloadNum (p : Bytes) : Nat × Nat × Bool :=
  let fin (v k : Nat) : Nat × Nat × Bool := if v > 18446744073709551615 then (18446744073709551615, k, true) else (v, k, false)
  match p with
  | 48 :: x :: t =>
    if (x == 120 || x == 88) && (t.head?.map isHexDigit).getD false then
      let ds := t.takeWhile isHexDigit
      fin (hexVal ds) (2 + ds.length)
    else
      let ds := (48 :: x :: t).takeWhile (fun c => 48 ≤ c && c ≤ 55)
      fin (ds.foldl (fun a c => a * 8 + (c.toNat - 48)) 0) ds.length
  | [48] => (0, 1, false)
  | _ =>
    let ds := p.takeWhile isDigit
    fin (digitsVal ds) ds.length

/-- after a matched `nan`: optional `(n-char-sequence)`; returns the bits, extra bytes consumed, errno -/
def nanTail (s : Bytes) : Nat × Nat × Errno :=
  match s with
  | 40 :: t =>
    let p := t.takeWhile (fun c => (48 ≤ c && c ≤ 57) || (65 ≤ c && c ≤ 90) || (97 ≤ c && c ≤ 122) || c == 95)
    match t.drop p.length with
    | 41 :: _ =>
      let (v, k, ovf) := nanPayloadNum p
      let bits := if k == p.length then quietNaN + v % 2 ^ 51 else quietNaN
      (bits, p.length + 2, if ovf then .ERANGE else .none)
    | _ => (quietNaN, 0, .none)
  | _ => (quietNaN, 0, .none)

/-- glibc's `round_and_return` on the positive rational `num/den`: the 53 leading bits `M`, the next
bit `R` and a sticky flag `S` are rounded to nearest even; errno = ERANGE on overflow and on an
inexact result that is tiny after rounding.  Observed on glibc 2.36 (and reproduced here, since the
reference has to describe the libc the code runs on): when the result is subnormal, `M` is shifted
right and `R` is forgotten (only `S` stays sticky) for every hexadecimal literal, and for a decimal
literal when the shift is exactly one bit; such a value is rounded as if its 54th bit were clear. -/
def roundGlibc (hex : Bool) (num den : Nat) : Nat × Errno :=
  if num == 0 then (0, .none)
  else
    let e0 : Int := (Nat.log2 num : Int) - (Nat.log2 den : Int) - 52
    let scaled (e : Int) : Nat × Nat :=
      if e ≥ 0 then (num, den * 2 ^ e.toNat) else (num * 2 ^ (-e).toNat, den)
    let q (e : Int) : Nat := (scaled e).1 / (scaled e).2
    let e : Int := if q e0 ≥ 2 ^ 53 then e0 + 1 else if q e0 < 2 ^ 52 then e0 - 1 else e0
    let (a, b) := scaled e
    let M := a / b
    let r := a % b
    let R : Bool := decide (2 * r ≥ b)
    let S : Bool := decide (2 * r ≠ b ∧ r ≠ 0)
    let E := e + 52
    if E ≥ -1022 then
      let M1 := if R && (S || M % 2 == 1) then M + 1 else M
      let (M1, E1) : Nat × Int := if M1 == 2 ^ 53 then (2 ^ 52, E + 1) else (M1, E)
      if E1 > 1023 then (posInf, .ERANGE) else ((E1 + 1023).toNat * 2 ^ 52 + (M1 - 2 ^ 52), .none)
    else if E < -1022 - 53 then (0, .ERANGE)
    else
      let shift := (-1022 - E).toNat
      let rb : Bool := M / 2 ^ (shift - 1) % 2 == 1
      let dropR : Bool := hex || shift == 1
      let st : Bool := S || (!dropR && R) || M % 2 ^ (shift - 1) != 0
      let M' := M / 2 ^ shift
      let M'' := if rb && (st || M' % 2 == 1) then M' + 1 else M'
      let tiny : Bool := !(shift == 1 && (R && (S || M % 2 == 1)) && M + 1 == 2 ^ 53)
      (M'', if tiny && (rb || st) then .ERANGE else .none)

def finishPos (num den : Nat) : Nat × Errno := roundGlibc false num den
def finishHex (num den : Nat) : Nat × Errno := roundGlibc true num den

/-- hexadecimal literal after the sign: `0x` hex* [`.` hex*] [`p` [+-] dec+], at least one hex digit -/
def scanHex (s : Bytes) : Option (Nat × Nat × Int × Nat) :=   -- mantissa, #hex digits, exp2, consumed
  match s with
  | 48 :: x :: t =>
    if x == 120 || x == 88 then
      let ip := t.takeWhile isHexDigit
      let s2 := t.drop ip.length
      let (fp, s3, kdot) : Bytes × Bytes × Nat := match s2 with
        | 46 :: u => let f := u.takeWhile isHexDigit; (f, u.drop f.length, 1)
        | u => ([], u, 0)
      if ip.isEmpty && fp.isEmpty then none
      else
        let mant := hexVal (ip ++ fp)
        let k1 := 2 + ip.length + kdot + fp.length
        let (ex, kexp) : Int × Nat := match s3 with
          | c :: u =>
            if c == 112 || c == 80 then
              let (eneg, u2, ks) : Bool × Bytes × Nat := match u with
                | 45 :: w => (true, w, 1)
                | 43 :: w => (false, w, 1)
                | w => (false, w, 0)
              let ed := u2.takeWhile isDigit
              if ed.isEmpty then (0, 0)
              else
                let v : Int := digitsVal ed
                ((if eneg then -v else v), 1 + ks + ed.length)
            else (0, 0)
          | [] => (0, 0)
        some (mant, ip.length + fp.length, ex - 4 * fp.length, k1 + kexp)
    else none
  | _ => none

def strtod (s : Bytes) : DRes :=
  let ws := s.takeWhile isSpace
  let s1 := s.drop ws.length
  let (neg, k0, s2) : Bool × Nat × Bytes := match s1 with
    | 45 :: t => (true, 1, t)
    | 43 :: t => (false, 1, t)
    | t => (false, 0, t)
  let sgn (b : Nat) : Nat := if neg then b + signBit else b
  let pre := ws.length + k0
  if hasPrefixCI [105, 110, 102] s2 then
    let k := if hasPrefixCI [105, 110, 102, 105, 110, 105, 116, 121] s2 then 8 else 3
    ⟨sgn posInf, pre + k, .none⟩
  else if hasPrefixCI [110, 97, 110] s2 then
    let (b, k, e) := nanTail (s2.drop 3)
    ⟨sgn b, pre + 3 + k, e⟩
  else
    match scanHex s2 with
    | some (mant, nd, e2, k) =>
      let (b, e) : Nat × Errno :=
        if mant == 0 then (0, .none)
        else if e2 > 1100 then (posInf, .ERANGE)
        else if e2 + 4 * nd < -1100 then (0, .ERANGE)
        else if e2 ≥ 0 then finishHex (mant * 2 ^ e2.toNat) 1 else finishHex mant (2 ^ (-e2).toNat)
      ⟨sgn b, pre + k, e⟩
    | none =>
      match s2 with
      | 45 :: _ => ⟨0, 0, .none⟩
      | 43 :: _ => ⟨0, 0, .none⟩
      | _ =>
        match Dbl.scanDec s2 with
        | none => ⟨0, 0, .none⟩
        | some (_, mant, e10, k) =>
          let (b, e) : Nat × Errno :=
            if mant == 0 then (0, .none)
            else if e10 > 400 then (posInf, .ERANGE)
            else if e10 < -1200 - (Nat.log2 mant : Int) then (0, .ERANGE)
            else if e10 ≥ 0 then finishPos (mant * 10 ^ e10.toNat) 1 else finishPos mant (10 ^ (-e10).toNat)
          ⟨sgn b, pre + k, e⟩

end JsonC.Libc
