/-
  Reference semantics of libc `strtoll(s, &end, 10)` / `strtoull(s, &end, 10)` in the C locale
  (C11 7.22.1.4): skip `isspace`, optional sign, longest run of decimal digits; no digits = no
  conversion (value 0, end = s); a value outside the range of the result type saturates and sets
  ERANGE; `strtoull` negates a `-`-signed in-range magnitude *in the unsigned type* (wraps).
  Exact `Nat`/`Int` arithmetic.  Compared with the real libc on every correspondence run (`libc`
  ops of harness/num.c); inside theorems libc appears only as a parameter constrained by a named
  hypothesis, never as an axiom.
-/
import JsonC.Base.Basic
import JsonC.Model.Value

namespace JsonC.Libc
open JsonC

/-- `isspace` in the C locale: space, \t \n \v \f \r -/
def isSpace (c : UInt8) : Bool := c == 32 || (9 ≤ c && c ≤ 13)

def isDigit (c : UInt8) : Bool := 48 ≤ c && c ≤ 57

/-- value of a run of decimal digits -/
def digitsVal (ds : Bytes) : Nat := ds.foldl (fun a c => a * 10 + (c.toNat - 48)) 0

/-- what the integer grammar finds at the start of a text -/
structure IntScan where
  neg : Bool
  mag : Nat          -- exact magnitude of the digit run
  consumed : Nat     -- bytes up to the end of the digit run
  deriving Repr, DecidableEq

/-- `[+-]? digit+` at the very start of `s`: sign, magnitude, bytes used; `none` = no digits -/
def scanBody (s : Bytes) : Option (Bool × Nat × Nat) :=
  match s with
  | 45 :: t =>
    let ds := t.takeWhile isDigit
    if ds.length = 0 then none else some (true, digitsVal ds, 1 + ds.length)
  | 43 :: t =>
    let ds := t.takeWhile isDigit
    if ds.length = 0 then none else some (false, digitsVal ds, 1 + ds.length)
  | t =>
    let ds := t.takeWhile isDigit
    if ds.length = 0 then none else some (false, digitsVal ds, ds.length)

/-- longest prefix `isspace* [+-]? digit+`; `none` = no conversion -/
def scanInt (s : Bytes) : Option IntScan :=
  let s1 := s.dropWhile isSpace
  match scanBody s1 with
  | none => none
  | some (neg, mag, k) => some ⟨neg, mag, (s.length - s1.length) + k⟩

/-- the exact integer denoted by the text under the strtoll grammar -/
def IntScan.value (r : IntScan) : Int := if r.neg then -(r.mag : Int) else r.mag

/-- result of a strto* call: value, `end - s`, and the errno it leaves (`none` = untouched) -/
structure StrRes where
  val : Int
  consumed : Nat
  errno : Errno
  deriving Repr, DecidableEq

def strtoll (s : Bytes) : StrRes :=
  match scanInt s with
  | none => ⟨0, 0, .none⟩
  | some r =>
    if r.value < INT64_MIN then ⟨INT64_MIN, r.consumed, .ERANGE⟩
    else if r.value > INT64_MAX then ⟨INT64_MAX, r.consumed, .ERANGE⟩
    else ⟨r.value, r.consumed, .none⟩

def strtoull (s : Bytes) : StrRes :=
  match scanInt s with
  | none => ⟨0, 0, .none⟩
  | some r =>
    if (r.mag : Int) > UINT64_MAX then ⟨UINT64_MAX, r.consumed, .ERANGE⟩
    else if r.neg ∧ r.mag ≠ 0 then ⟨UINT64_MAX + 1 - r.mag, r.consumed, .none⟩
    else ⟨r.mag, r.consumed, .none⟩

/-- the bytes a `const char *` argument denotes: up to the first NUL -/
def cstr (s : Bytes) : Bytes := s.takeWhile (· != 0)

end JsonC.Libc
