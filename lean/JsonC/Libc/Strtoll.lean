/-
  Reference semantics of libc `strtoll(s, &end, 10)` / `strtoull(s, &end, 10)` in the C locale
  (C11 7.22.1.4): skip `isspace`, optional sign, longest run of decimal digits; no digits = no
  conversion (value 0, end = s); a value outside the range of the result type saturates and sets
  ERANGE; `strtoull` negates a `-`-signed in-range magnitude *in the unsigned type* (wraps).
  Exact `Nat`/`Int` arithmetic.  Compared with the real libc on every correspondence run (`libc`
  ops of harness/num.c); inside theorems libc appears only as a parameter constrained by a named
  hypothesis, never as an axiom.
-/
import JsonC.Base.Basic
import JsonC.Model.Value

namespace JsonC.Libc
open JsonC

/-- `isspace` in the C locale: space, \t \n \v \f \r -/
def isSpace (c : UInt8) : Bool := c == 32 || (9 ≤ c && c ≤ 13)

def isDigit (c : UInt8) : Bool := 48 ≤ c && c ≤ 57

/-- value of a run of decimal digits -/
def digitsVal (ds : Bytes) : Nat := ds.foldl (fun a c => a * 10 + (c.toNat - 48)) 0

/-- what the integer grammar finds at the start of a text -/
structure IntScan where
  neg : Bool
  mag : Nat          -- exact magnitude of the digit run
  consumed : Nat     -- bytes up to the end of the digit run
  deriving Repr, DecidableEq

/-- longest prefix `isspace* [+-]? digit+`; `none` = no conversion -/
def scanInt (s : Bytes) : Option IntScan :=
  let ws := s.takeWhile isSpace
  let s1 := s.drop ws.length
  let (neg, sgn, s2) : Bool × Nat × Bytes := match s1 with
    | 45 :: t => (true, 1, t)
    | 43 :: t => (false, 1, t)
    | t => (false, 0, t)
  let ds := s2.takeWhile isDigit
  if ds.isEmpty then none else some ⟨neg, digitsVal ds, ws.length + sgn + ds.length⟩

/-- the exact integer denoted by the text under the strtoll grammar -/
def IntScan.value (r : IntScan) : Int := if r.neg then -(r.mag : Int) else r.mag

/-- result of a strto* call: value, `end - s`, and the errno it leaves (`none` = untouched) -/
structure StrRes where
  val : Int
  consumed : Nat
  errno : Errno
  deriving Repr, DecidableEq

def strtoll (s : Bytes) : StrRes :=
  match scanInt s with
  | none => ⟨0, 0, .none⟩
  | some r =>
    if r.value < INT64_MIN then ⟨INT64_MIN, r.consumed, .ERANGE⟩
    else if r.value > INT64_MAX then ⟨INT64_MAX, r.consumed, .ERANGE⟩
    else ⟨r.value, r.consumed, .none⟩

def strtoull (s : Bytes) : StrRes :=
  match scanInt s with
  | none => ⟨0, 0, .none⟩
  | some r =>
    if (r.mag : Int) > UINT64_MAX then ⟨UINT64_MAX, r.consumed, .ERANGE⟩
    else if r.neg ∧ r.mag ≠ 0 then ⟨UINT64_MAX + 1 - r.mag, r.consumed, .none⟩
    else ⟨r.mag, r.consumed, .none⟩

/-- the bytes a `const char *` argument denotes: up to the first NUL -/
def cstr (s : Bytes) : Bytes := s.takeWhile (· != 0)

end JsonC.Libc
