/-
  Model of the file-descriptor I/O of json_util.c ("checked C"):
    json_util_get_last_err, _json_c_set_last_err, json_object_from_fd, json_object_from_fd_ex,
    json_object_from_file, json_object_to_file_ext, json_object_to_fd, _json_object_to_fd.

  What is *not* modelled here but taken as a parameter (other components model it):
    * the serializer  `ser : τ → Int → Option Bytes`  (json_object_to_json_string_ext; `none` = NULL),
    * the tokener     `Env.tokNew` / `Env.parse` / `Env.errDesc`  (json_tokener_new_ex,
      one json_tokener_parse_ex call over a whole buffer, json_tokener_error_desc),
    * `strerror` (a text attached to every failing OS answer),
    * the operating system: an explicit list of per-call answers (`WRes` for write(2), `RRes` for
      read(2), `OpenRes` for open(2)).  A finite list is a finite *prefix* of the OS's behaviour:
      when it is used up while the C loop would still be running the model answers "still in the
      loop" (`ret = none` / `done = false`), never a made-up result.
  The print buffer is the C19 model (JsonC.Printbuf); the format strings and the size of the
  message buffer are regenerated from json_util.c (Generated/Structure.lean).
-/
import JsonC.Model.Printbuf

namespace JsonC.FdIO
open JsonC Generated

/-! ### C strings, the vsnprintf subset, the last-error buffer -/

/-- the C string stored at the start of `s` (bytes before the first NUL) -/
def cstr (s : Bytes) : Bytes := s.takeWhile (· ≠ 0)

/-- strlen of the NUL-terminated buffer `s ++ [0]` -/
def strlen (s : Bytes) : Nat := (cstr s).length

inductive Arg where
  | s (b : Bytes)   -- const char *
  | d (i : Int)     -- int
  deriving Repr, DecidableEq

def digitByte (c : Char) : UInt8 := UInt8.ofNat c.toNat

/-- "%d" -/
def decBytes (i : Int) : Bytes :=
  if i < 0 then 45 :: (Nat.toDigits 10 i.natAbs).map digitByte else (Nat.toDigits 10 i.toNat).map digitByte

/-- the conversions json_util.c uses: `%s`, `%d` (and `%%`); `pct` = a '%' has just been read.
A conversion without a matching argument is undefined behaviour in C; the model prints nothing for it
(no call site in json_util.c does that: the correspondence run compares whole messages). -/
def fmtGo : Bool → Bytes → List Arg → Bytes
  | _, [], _ => []
  | false, c :: r, as => if c = 37 then fmtGo true r as else c :: fmtGo false r as
  | true, c :: r, as =>
    if c = 115 then
      match as with
      | .s b :: as' => cstr b ++ fmtGo false r as'
      | _ => fmtGo false r as.tail
    else if c = 100 then
      match as with
      | .d i :: as' => decBytes i ++ fmtGo false r as'
      | _ => fmtGo false r as.tail
    else c :: fmtGo false r as

/-- the complete output vsnprintf would produce for format `f` (a C string) -/
def fmt (f : Bytes) (args : List Arg) : Bytes := fmtGo false (cstr f) args

/-- `_json_c_set_last_err`: vsnprintf into `static char _last_err[lastErrSize]` — the output is cut to
`lastErrSize - 1` bytes and NUL-terminated.  The stored C string is the state. -/
def setLastErr (msg : Bytes) : Bytes := (cstr msg).take (lastErrSize - 1)

/-- `json_util_get_last_err`: NULL when the buffer starts with NUL -/
def getLastErr (le : Bytes) : Option Bytes := if le = [] then none else some le

/-! ### write side -/

/-- one answer of write(2) -/
inductive WRes where
  | n (k : Nat)             -- accepted k bytes (the model clips k to the request: the OS cannot accept more)
  | err (strerr : Bytes)    -- returned -1; `strerr` = strerror(errno)
  deriving Repr, DecidableEq

/-- one write(2) call as the OS saw it -/
structure WCall where
  off : Nat                 -- the buffer argument is json_str + off
  req : Nat                 -- the count argument
  got : Option Bytes        -- the bytes the OS accepted; none = the call failed
  deriving Repr, DecidableEq

structure WOut where
  ret : Option Int          -- C return value; none = the given OS answers are used up, the loop is still running
  calls : List WCall
  lastErr : Bytes
  fdsLeft : Nat := 0        -- descriptors opened by the call and not closed at return
  deriving Repr, DecidableEq

/-- everything the descriptor received, in order -/
def delivered (o : WOut) : Bytes := (o.calls.filterMap (·.got)).flatten

/-- the `while (wpos < wsize)` loop of `_json_object_to_fd`.
`str` is the buffer json_str points to (without its terminating NUL), `le` the last-error state. -/
def writeLoop (str : Bytes) (wsize : Nat) (filename : Bytes) (le : Bytes) : List WRes → Nat → Outcome WOut
  | [], wpos => if wpos < wsize then .ok ⟨none, [], le, 0⟩ else .ok ⟨some 0, [], le, 0⟩
  | r :: rest, wpos =>
    if wpos < wsize then
      let req := wsize - wpos
      -- write(fd, json_str + wpos, wsize - wpos): the OS may read all of [wpos, wpos + req)
      if wpos + req > str.length + 1 then .fault "_json_object_to_fd: write reads past the serialization buffer"
      else
        match r with
        | .err e =>
          .ok ⟨some (-1), [⟨wpos, req, none⟩], setLastErr (fmt fmtToFdWrite [.s filename, .s e]), 0⟩
        | .n k =>
          let d := min k req
          -- wpos += (size_t)ret : wpos + d ≤ wsize, no wrap-around
          match writeLoop str wsize filename le rest (wpos + d) with
          | .ok o => .ok { o with calls := ⟨wpos, req, some ((str.drop wpos).take d)⟩ :: o.calls }
          | .fault w => .fault w
    else .ok ⟨some 0, [], le, 0⟩

/-- `static int _json_object_to_fd(int fd, struct json_object *obj, int flags, const char *filename)` -/
def toFdCore {τ : Type} (ser : τ → Int → Option Bytes) (le : Bytes) (obj : τ) (flags : Int)
    (filename : Option Bytes) (sched : List WRes) : Outcome WOut :=
  let filename := match filename with | some f => f | none => fdDefaultName
  match ser obj flags with
  | none => .ok ⟨some (-1), [], le, 0⟩          -- NB: -1 without a message
  | some s => writeLoop s (strlen s) filename le sched 0

/-- `int json_object_to_fd(int fd, struct json_object *obj, int flags)`; `obj = none` is the NULL pointer -/
def toFd {τ : Type} (ser : τ → Int → Option Bytes) (le : Bytes) (obj : Option τ) (flags : Int)
    (sched : List WRes) : Outcome WOut :=
  match obj with
  | none => .ok ⟨some (-1), [], setLastErr (fmt fmtToFdNull []), 0⟩
  | some o => toFdCore ser le o flags none sched

/-- answer of open(2) -/
inductive OpenRes where
  | fd (n : Int)
  | err (strerr : Bytes)
  deriving Repr, DecidableEq

/-- `int json_object_to_file_ext(const char *filename, struct json_object *obj, int flags)` -/
def toFileExt {τ : Type} (ser : τ → Int → Option Bytes) (le : Bytes) (filename : Bytes) (obj : Option τ)
    (flags : Int) (op : OpenRes) (sched : List WRes) : Outcome WOut :=
  match obj with
  | none => .ok ⟨some (-1), [], setLastErr (fmt fmtToFileNull []), 0⟩
  | some o =>
    match op with
    | .err e => .ok ⟨some (-1), [], setLastErr (fmt fmtToFileOpen [.s filename, .s e]), 0⟩
    | .fd _ =>
      -- one descriptor is open across the call; close(fd) follows on every path that returns
      match toFdCore ser le o flags (some filename) sched with
      | .ok r => .ok { r with fdsLeft := if r.ret.isSome then 0 else 1 }
      | .fault w => .fault w

/-! ### read side -/

/-- one answer of read(2) -/
inductive RRes where
  | data (bs : Bytes)       -- stored `bs` into the buffer and returned its length (`data []` = 0 = end of file)
  | err (strerr : Bytes)    -- returned -1
  deriving Repr, DecidableEq

/-- result of json_tokener_parse_ex: the returned pointer and tok->err afterwards -/
structure PRes (ρ : Type) where
  obj : Option ρ
  err : Nat

inductive TokNew where
  | ok
  | fail (strerr : Bytes)   -- NULL; `strerr` = strerror of the errno value then current

/-- the tokener and strerror, as far as json_object_from_fd_ex uses them -/
structure Env (ρ : Type) where
  tokNew : Int → TokNew                 -- json_tokener_new_ex(depth)
  parse : Int → Bytes → PRes ρ          -- fresh tokener of that depth, json_tokener_parse_ex(tok, buf, len) once
  errDesc : Nat → Bytes                 -- json_tokener_error_desc
  strerror : Errno → Bytes              -- strerror for the errno printbuf leaves behind

structure ROut (ρ : Type) where
  done : Bool                           -- false = the given OS answers are used up, the loop is still running
  obj : Option ρ                        -- returned pointer
  reads : List (Nat × Int)              -- per read(2) call: count argument, return value
  parsed : Option (Int × Bytes)         -- tokener depth and the buffer handed to json_tokener_parse_ex, if reached
  lastErr : Bytes
  live : List String                    -- allocations made by the call and not released at return
  fdsLeft : Nat := 0

/-- prepend the log of earlier read(2) calls -/
def addReads {ρ : Type} (rs : List (Nat × Int)) : Outcome (ROut ρ) → Outcome (ROut ρ)
  | .ok o => .ok { o with reads := rs ++ o.reads }
  | .fault w => .fault w

/-- the stack buffer after read(2) stored `bs` at its start -/
def bufAfter (buf bs : Bytes) : Bytes := bs ++ buf.drop bs.length

/-- the code after the read loop: parse the accumulated text in one call, free everything -/
def finishRead {ρ : Type} (env : Env ρ) (le : Bytes) (depth : Int) (pb : Printbuf.Pb) : Outcome (ROut ρ) :=
  -- json_tokener_parse_ex(tok, pb->buf, printbuf_length(pb)) reads buf[0 .. bpos)
  if pb.bpos > pb.cells.length ∨ (pb.cells.take pb.bpos).any (·.isNone) then
    .fault "json_object_from_fd_ex: parser reads bytes of pb->buf that were never written"
  else
    let data := Printbuf.contents pb
    let r := env.parse depth data
    let le' := match r.obj with
      | none => setLastErr (fmt fmtFromFdParse [.s (env.errDesc r.err)])
      | some _ => le
    -- json_tokener_free(tok); printbuf_free(pb);
    .ok ⟨true, r.obj, [], some (depth, data), le', [], 0⟩

/-- `while ((ret = read(fd, buf, sizeof(buf))) > 0)` with the code that follows it.
`buf` is `char buf[JSON_FILE_BUF_SIZE]`; "pb" and "tok" are live. -/
def readLoop {ρ : Type} (env : Env ρ) (le : Bytes) (fd depth : Int) :
    List RRes → Printbuf.Pb → Bytes → Outcome (ROut ρ)
  | [], _, _ => .ok ⟨false, none, [], none, le, ["pb", "tok"], 0⟩
  | .err e :: _, _, _ =>
    -- ret < 0: message, json_tokener_free(tok), printbuf_free(pb), NULL.  The partial text is dropped.
    .ok ⟨true, none, [(fileBufSize, -1)], none, setLastErr (fmt fmtFromFdRead [.d fd, .s e]), [], 0⟩
  | .data bs :: rest, pb, buf =>
    if bs.length > fileBufSize ∨ buf.length ≠ fileBufSize then
      .fault "read: more than sizeof(buf) bytes stored into buf"
    else if bs.length = 0 then
      addReads [(fileBufSize, 0)] (finishRead env le depth pb)
    else
      let buf' := bufAfter buf bs
      -- printbuf_memappend(pb, buf, ret): ssize_t → int conversion is exact (ret ≤ JSON_FILE_BUF_SIZE ≤ INT_MAX)
      match Printbuf.memappend pb buf' bs.length with
      | .fault w => .fault w
      | .ok r =>
        if r.ret < 0 then
          .ok ⟨true, none, [(fileBufSize, bs.length)], none,
            setLastErr (fmt fmtFromFdAppend [.d r.pb.bpos, .d bs.length, .s (env.strerror r.errno)]), [], 0⟩
        else
          addReads [(fileBufSize, (bs.length : Int))] (readLoop env le fd depth rest r.pb buf')

/-- the depth handed to json_tokener_new_ex -/
def effDepth (inDepth : Int) : Int := if inDepth ≠ -1 then inDepth else tokenerDefaultDepth

/-- contents of `char buf[JSON_FILE_BUF_SIZE]` at entry (indeterminate in C; never read before written) -/
def initBuf : Bytes := List.replicate fileBufSize 0

/-- `struct json_object *json_object_from_fd_ex(int fd, int in_depth)`; printbuf_new succeeds
(allocation failure is property C08). -/
def fromFdEx {ρ : Type} (env : Env ρ) (le : Bytes) (fd inDepth : Int) (sched : List RRes) : Outcome (ROut ρ) :=
  match Printbuf.new with
  | .fault w => .fault w
  | .ok pb =>
    let depth := effDepth inDepth
    match env.tokNew depth with
    | .fail e =>
      -- message, printbuf_free(pb), NULL
      .ok ⟨true, none, [], none, setLastErr (fmt fmtFromFdTokNew [.d depth, .s e]), [], 0⟩
    | .ok => readLoop env le fd depth sched pb initBuf

/-- `json_object_from_fd(fd)` -/
def fromFd {ρ : Type} (env : Env ρ) (le : Bytes) (fd : Int) (sched : List RRes) : Outcome (ROut ρ) :=
  fromFdEx env le fd (-1) sched

/-- `struct json_object *json_object_from_file(const char *filename)` -/
def fromFile {ρ : Type} (env : Env ρ) (le : Bytes) (filename : Bytes) (op : OpenRes) (sched : List RRes) :
    Outcome (ROut ρ) :=
  match op with
  | .err e => .ok ⟨true, none, [], none, setLastErr (fmt fmtFromFileOpen [.s filename, .s e]), [], 0⟩
  | .fd n =>
    match fromFd env le n sched with
    | .ok r => .ok { r with fdsLeft := if r.done then 0 else 1 }   -- close(fd)
    | .fault w => .fault w

end JsonC.FdIO
