/-
  Model of arraylist.c ("checked C" over `size_t`).

    struct array_list { void **array; size_t length; size_t size; array_list_free_fn *free_fn; }

  * `slots` is the allocation `array[0 .. size)` as it really is (its list length is the real extent
    of the allocation, `size` is the C field; the invariant ties them).  A slot is `uninit`
    (malloc / realloc tail, never written) or `val e`; `e : Elem := Option Id`, `none` = NULL,
    `some id` = an opaque element handle.
  * every `size_t` computation that could wrap carries its range check (`ckSize`, `ckSub`) and every
    array access its bounds / initialisation check; a violated check is `Outcome.fault`.
    (Unsigned wrap-around is defined in C, but no line of arraylist.c is meant to wrap: a wrap the
    code could perform is an error and surfaces here as a fault.)
  * `free_fn(x)` calls are logged, in call order, in `Res.released`.
  * the allocator is a parameter `alloc : bytes → granted?`; `qsort` / `bsearch` are parameters of
    `sort` / `bsearch` (their contracts are hypotheses of the theorems, never axioms).
  Literals of the growth policy and of the guards come from Generated/Structure.lean (st_al.py).
-/
import JsonC.Base.Basic
import JsonC.Generated.Consts
import JsonC.Generated.Structure

namespace JsonC.Arraylist
open JsonC Generated

abbrev Id := Nat
/-- an element pointer: `none` = NULL -/
abbrev Elem := Option Id

inductive Slot where
  | uninit
  | val (e : Elem)
  deriving Repr, DecidableEq

structure Al where
  slots : List Slot
  length : Nat
  size : Nat
  deriving Repr, DecidableEq

/-- `realloc`/`malloc` of that many bytes is granted? -/
abbrev Alloc := Nat → Bool

/-- new state, C return value (for `bsearch`: 1 = a slot address was returned, 0 = NULL; for `len`: the
length), value returned by get_idx / held by the slot bsearch found, index of that slot, `free_fn`
calls in order -/
structure Res where
  al : Al
  ret : Int
  val : Elem := none
  pos : Option Nat := none
  released : List Id := []
  deriving Repr, DecidableEq

def SIZE_T_MAX : Nat := sizeMax
/-- sizeof(void *) -/
def PTR : Nat := sizeofPtr

/-- a value computed in `size_t` arithmetic: beyond SIZE_T_MAX it would wrap -/
def ckSize (x : Nat) (site : String) : Outcome Nat :=
  if x ≤ SIZE_T_MAX then .ok x else .fault ("size_t wrap: " ++ site)

/-- `a - b` in `size_t` arithmetic -/
def ckSub (a b : Nat) (site : String) : Outcome Nat :=
  if b ≤ a then .ok (a - b) else .fault ("size_t wrap (below 0): " ++ site)

/-- `free_fn(e)` is called when `e` is non-NULL -/
def releaseOf : Elem → List Id
  | some x => [x]
  | none => []

/-- read `array[i]` (as a pointer value that is then tested / passed on) -/
def readSlot (a : Al) (i : Nat) (site : String) : Outcome Elem :=
  match a.slots[i]? with
  | some (.val e) => .ok e
  | some .uninit => .fault ("uninitialised read: " ++ site)
  | none => .fault ("read outside the allocation: " ++ site)

/-- `array[i] = e` -/
def writeSlot (a : Al) (i : Nat) (e : Elem) (site : String) : Outcome Al :=
  if i < a.slots.length then .ok { a with slots := a.slots.set i (.val e) }
  else .fault ("write outside the allocation: " ++ site)

/-- `memmove(array + dst, array + src, n * sizeof(void *))` (copies bytes: uninitialised slots
may be copied, both ranges must lie inside the allocation) -/
def memmoveSlots (slots : List Slot) (dst src n : Nat) (site : String) : Outcome (List Slot) :=
  if src + n ≤ slots.length ∧ dst + n ≤ slots.length then
    .ok (slots.take dst ++ (slots.drop src).take n ++ slots.drop (dst + n))
  else .fault ("memmove outside the allocation: " ++ site)

/-- `memset(array + off, 0, n * sizeof(void *))` -/
def memsetNull (slots : List Slot) (off n : Nat) (site : String) : Outcome (List Slot) :=
  if off + n ≤ slots.length then
    .ok (slots.take off ++ List.replicate n (.val none) ++ slots.drop (off + n))
  else .fault ("memset outside the allocation: " ++ site)

/-- `realloc(array, n * sizeof(void *))` granted: common prefix kept, new tail uninitialised -/
def reallocSlots (slots : List Slot) (n : Nat) : List Slot :=
  slots.take n ++ List.replicate (n - slots.length) .uninit

/-- read `array[0 .. n)` element by element (what `qsort`/`bsearch`/the free loop look at) -/
def readAll : List Slot → String → Outcome (List Elem)
  | [], _ => .ok []
  | .val e :: rest, site => do
    let es ← readAll rest site
    pure (e :: es)
  | .uninit :: _, site => .fault ("uninitialised read: " ++ site)

def readRange (a : Al) (n : Nat) (site : String) : Outcome (List Elem) :=
  if n ≤ a.slots.length then readAll (a.slots.take n) site
  else .fault ("read outside the allocation: " ++ site)

/-- struct array_list *array_list_new2(array_list_free_fn *free_fn, int initial_size);
`none` = NULL returned.  (`malloc(0)` for `initial_size = 0` is a request like any other.) -/
def new2 (alloc : Alloc) (initialSize : Int) : Outcome (Option Al) :=
  if initialSize < 0 ∨ initialSize.toNat ≥ SIZE_T_MAX / PTR then .ok none
  else do
    let n := initialSize.toNat
    let bytes ← ckSize (n * PTR) "new2: arr->size * sizeof(void *)"
    if alloc bytes then .ok (some { slots := List.replicate n .uninit, length := 0, size := n })
    else .ok none

/-- struct array_list *array_list_new(array_list_free_fn *free_fn) -/
def new (alloc : Alloc) : Outcome (Option Al) := new2 alloc arrayListDefaultSize

/-- void array_list_free(struct array_list *arr): the `free_fn` calls it makes -/
def free (a : Al) : Outcome (List Id) := do
  let xs ← readRange a a.length "array_list_free: array[i]"
  pure (xs.flatMap releaseOf)

/-- void *array_list_get_idx(struct array_list *arr, size_t i) -/
def getIdx (a : Al) (i : Nat) : Outcome Elem :=
  if i ≥ a.length then .ok none
  else readSlot a i "get_idx: array[i]"

/-- static int array_list_expand_internal(struct array_list *arr, size_t max) -/
def expandInternal (alloc : Alloc) (a : Al) (max : Nat) : Outcome (Al × Int) :=
  if max < a.size then .ok (a, 0)
  else do
    let newSize ←
      if a.size ≥ SIZE_T_MAX / alHalfDiv then pure max
      else do
        let d ← ckSize (a.size <<< alGrowShift) "expand_internal: arr->size << 1"
        pure (if d < max then max else d)
    if newSize > SIZE_T_MAX / PTR then .ok (a, -1)
    else do
      let bytes ← ckSize (newSize * PTR) "expand_internal: new_size * sizeof(void *)"
      if bytes = 0 then .fault "expand_internal: realloc(array, 0)"
      else if alloc bytes then
        .ok ({ a with slots := reallocSlots a.slots newSize, size := newSize }, 0)
      else .ok (a, -1)

/-- int array_list_shrink(struct array_list *arr, size_t empty_slots) -/
def shrink (alloc : Alloc) (a : Al) (emptySlots : Nat) : Outcome Res := do
  let lim ← ckSub (SIZE_T_MAX / PTR) a.length "shrink: SIZE_T_MAX / sizeof(void *) - arr->length"
  if emptySlots ≥ lim then .ok ⟨a, -1, none, none, []⟩
  else do
    let newSize ← ckSize (a.length + emptySlots) "shrink: arr->length + empty_slots"
    if newSize = a.size then .ok ⟨a, 0, none, none, []⟩
    else if newSize > a.size then do
      let (a1, rc) ← expandInternal alloc a newSize
      pure ⟨a1, rc, none, none, []⟩
    else do
      let newSize := if newSize = 0 then alShrinkMin else newSize
      let bytes ← ckSize (newSize * PTR) "shrink: new_size * sizeof(void *)"
      if bytes = 0 then .fault "shrink: realloc(array, 0)"
      else if alloc bytes then
        .ok ⟨{ a with slots := reallocSlots a.slots newSize, size := newSize }, 0, none, none, []⟩
      else .ok ⟨a, -1, none, none, []⟩

/-- int array_list_put_idx(struct array_list *arr, size_t idx, void *data) -/
def putIdx (alloc : Alloc) (a : Al) (idx : Nat) (data : Elem) : Outcome Res :=
  if idx > SIZE_T_MAX - alPutGuard then .ok ⟨a, -1, none, none, []⟩
  else do
    let need ← ckSize (idx + alPutNeed) "put_idx: idx + 1"
    let (a, rc) ← expandInternal alloc a need
    if rc ≠ 0 then .ok ⟨a, -1, none, none, []⟩
    else do
      let rel ←
        if idx < a.length then do
          let e ← readSlot a idx "put_idx: arr->array[idx]"
          pure (releaseOf e)
        else pure []
      let a ← writeSlot a idx data "put_idx: arr->array[idx] = data"
      let a ←
        if idx > a.length then do
          let d ← ckSub idx a.length "put_idx: idx - arr->length"
          let _ ← ckSize (d * PTR) "put_idx: (idx - arr->length) * sizeof(void *)"
          let s ← memsetNull a.slots a.length d "put_idx: gap"
          pure { a with slots := s }
        else pure a
      if a.length ≤ idx then do
        let len ← ckSize (idx + 1) "put_idx: arr->length = idx + 1"
        .ok ⟨{ a with length := len }, 0, none, none, rel⟩
      else .ok ⟨a, 0, none, none, rel⟩

/-- int array_list_insert_idx(struct array_list *arr, size_t idx, void *data) -/
def insertIdx (alloc : Alloc) (a : Al) (idx : Nat) (data : Elem) : Outcome Res :=
  if idx ≥ a.length then putIdx alloc a idx data
  else if a.length = SIZE_T_MAX then .ok ⟨a, -1, none, none, []⟩
  else do
    let need ← ckSize (a.length + alInsNeed) "insert_idx: arr->length + 1"
    let (a, rc) ← expandInternal alloc a need
    if rc ≠ 0 then .ok ⟨a, -1, none, none, []⟩
    else do
      let d ← ckSub a.length idx "insert_idx: arr->length - idx"
      let _ ← ckSize (d * PTR) "insert_idx: move_amount"
      let s ← memmoveSlots a.slots (idx + 1) idx d "insert_idx"
      let a ← writeSlot { a with slots := s } idx data "insert_idx: arr->array[idx] = data"
      let len ← ckSize (a.length + 1) "insert_idx: arr->length++"
      .ok ⟨{ a with length := len }, 0, none, none, []⟩

/-- int array_list_add(struct array_list *arr, void *data) -/
def add (alloc : Alloc) (a : Al) (data : Elem) : Outcome Res :=
  let idx := a.length
  if idx > SIZE_T_MAX - alAddGuard then .ok ⟨a, -1, none, none, []⟩
  else do
    let need ← ckSize (idx + alAddNeed) "add: idx + 1"
    let (a, rc) ← expandInternal alloc a need
    if rc ≠ 0 then .ok ⟨a, -1, none, none, []⟩
    else do
      let a ← writeSlot a idx data "add: arr->array[idx] = data"
      let len ← ckSize (a.length + 1) "add: arr->length++"
      .ok ⟨{ a with length := len }, 0, none, none, []⟩

/-- the release loop of array_list_del_idx: `for (i = idx; i < stop; ++i) if (array[i]) free_fn(array[i])`,
`n = stop - i` iterations left -/
def releaseLoop (a : Al) (i : Nat) : Nat → Outcome (List Id)
  | 0 => .ok []
  | n + 1 => do
    let e ← readSlot a i "del_idx: arr->array[i]"
    let rest ← releaseLoop a (i + 1) n
    pure (releaseOf e ++ rest)

/-- int array_list_del_idx(struct array_list *arr, size_t idx, size_t count) -/
def delIdx (a : Al) (idx count : Nat) : Outcome Res := do
  let room ← ckSub SIZE_T_MAX count "del_idx: SIZE_T_MAX - count (count is not a size_t)"
  if idx > room then .ok ⟨a, -1, none, none, []⟩
  else do
    let stop ← ckSize (idx + count) "del_idx: idx + count"
    if idx ≥ a.length ∨ stop > a.length then .ok ⟨a, -1, none, none, []⟩
    else do
      let rel ← releaseLoop a idx (stop - idx)
      let d ← ckSub a.length stop "del_idx: arr->length - stop"
      let _ ← ckSize (d * PTR) "del_idx: (arr->length - stop) * sizeof(void *)"
      let s ← memmoveSlots a.slots idx stop d "del_idx"
      let len ← ckSub a.length count "del_idx: arr->length -= count"
      .ok ⟨{ a with slots := s, length := len }, 0, none, none, rel⟩

/-- void array_list_sort(arr, compar): `qsort(array, length, sizeof(array[0]), compar)`;
`qs` is what qsort makes of the `length` elements it is given. -/
def sort (qs : List Elem → List Elem) (a : Al) : Outcome Res := do
  let xs ← readRange a a.length "sort: qsort reads array[0..length)"
  let ys := qs xs
  if ys.length ≠ xs.length then .fault "sort: qsort changed the number of elements"
  else .ok ⟨{ a with slots := ys.map .val ++ a.slots.drop a.length }, 0, none, none, []⟩

/-- void *array_list_bsearch(key, arr, compar): `bsearch(key, array, length, sizeof(array[0]), compar)`;
`bs key xs` is the index of the slot whose address bsearch returns (`none` = NULL). -/
def bsearch (bs : Elem → List Elem → Option Nat) (key : Elem) (a : Al) : Outcome Res := do
  let xs ← readRange a a.length "bsearch: array[0..length)"
  match bs key xs with
  | none => .ok ⟨a, 0, none, none, []⟩
  | some i =>
    match xs[i]? with
    | some e => .ok ⟨a, 1, e, some i, []⟩
    | none => .fault "bsearch: result outside array[0..length)"

/-- size_t array_list_length(struct array_list *arr) -/
def lengthOf (a : Al) : Nat := a.length

/-! ### operation language (shared with the harness) -/

inductive Op where
  | add (v : Elem)
  | put (i : Nat) (v : Elem)
  | ins (i : Nat) (v : Elem)
  | del (i n : Nat)
  | shrink (n : Nat)
  | get (i : Nat)
  | len
  | sort
  | bsearch (k : Elem)
  deriving Repr, DecidableEq

/-- the environment of a run: allocator, qsort, bsearch -/
structure Env where
  alloc : Alloc
  qs : List Elem → List Elem
  bs : Elem → List Elem → Option Nat

def step (env : Env) (a : Al) : Op → Outcome Res
  | .add v => add env.alloc a v
  | .put i v => putIdx env.alloc a i v
  | .ins i v => insertIdx env.alloc a i v
  | .del i n => delIdx a i n
  | .shrink n => shrink env.alloc a n
  | .get i => do
    let e ← getIdx a i
    pure ⟨a, 0, e, none, []⟩
  | .len => .ok ⟨a, (lengthOf a : Int), none, none, []⟩
  | .sort => sort env.qs a
  | .bsearch k => bsearch env.bs k a

def run (env : Env) (a : Al) : List Op → Outcome (Al × List Res)
  | [] => .ok (a, [])
  | op :: ops => do
    let r ← step env a op
    let (q, rs) ← run env r.al ops
    pure (q, r :: rs)

end JsonC.Arraylist
