/-
  JSON values as trees (shared by the serializer, equality/copy, pointer, patch, visitor and
  tokener models).  Reference counts and sharing live in Model/Heap.lean, not here.
-/
import JsonC.Base.Basic

namespace JsonC

/-- A json_object tree.
* `int signed v` : json_type_int; `signed = true` ⇒ stored as int64 (cint_type json_object_int_type_int64),
  `false` ⇒ stored as uint64. Range is an invariant (`JVal.WF`), not part of the type.
* `dbl bits text`: json_type_double with the IEEE-754 bit pattern; `text` = retained source text
  (json_object_new_double_s / the tokener), which the serializer prints instead of "%.17g".
* `str s`: any bytes, NUL included. `obj kvs`: insertion order; keys are C strings (NUL-free). -/
inductive JVal where
  | null
  | bool (b : Bool)
  | int (signed : Bool) (v : Int)
  | dbl (bits : UInt64) (text : Option Bytes)
  | str (s : Bytes)
  | arr (xs : List JVal)
  | obj (kvs : List (Bytes × JVal))
  deriving Repr, Inhabited

def INT64_MIN : Int := -9223372036854775808
def INT64_MAX : Int := 9223372036854775807
def UINT64_MAX : Int := 18446744073709551615
def INT32_MIN : Int := -2147483648
def INT32_MAX : Int := 2147483647

namespace JVal

mutual
  /-- number of nodes -/
  def size : JVal → Nat
    | arr xs => 1 + sizeList xs
    | obj kvs => 1 + sizeMembers kvs
    | _ => 1
  def sizeList : List JVal → Nat
    | [] => 0
    | x :: xs => size x + sizeList xs
  def sizeMembers : List (Bytes × JVal) → Nat
    | [] => 0
    | (_, v) :: kvs => size v + sizeMembers kvs
end

def hex16 (b : UInt64) : String :=
  String.join ((List.range 8).map fun i => hexByte (UInt8.ofNat ((b.toNat >>> (8 * (7 - i))) % 256)))

mutual
  /-- typed, canonical dump used by the line protocol:
  `n` null, `t`/`f`, `i<dec>` int64-typed, `u<dec>` uint64-typed, `d<16 hex bits>[:<hex text>]`,
  `s<hex>`, `[a,b]`, `{<hexkey>:v,…}` in insertion order. -/
  def dump : JVal → String
    | null => "n"
    | bool true => "t"
    | bool false => "f"
    | int true v => "i" ++ toString v
    | int false v => "u" ++ toString v
    | dbl bits none => "d" ++ hex16 bits
    | dbl bits (some t) => "d" ++ hex16 bits ++ ":" ++ toHex t
    | str s => "s" ++ toHex s
    | arr xs => "[" ++ dumpList xs ++ "]"
    | obj kvs => "{" ++ dumpMembers kvs ++ "}"
  def dumpList : List JVal → String
    | [] => ""
    | [x] => dump x
    | x :: xs => dump x ++ "," ++ dumpList xs
  def dumpMembers : List (Bytes × JVal) → String
    | [] => ""
    | [(k, v)] => toHex k ++ ":" ++ dump v
    | (k, v) :: kvs => toHex k ++ ":" ++ dump v ++ "," ++ dumpMembers kvs
end

end JVal

/-! ### parsing the dump format back (driver input) -/

namespace JVal

private def takeWhileC (p : Char → Bool) : List Char → List Char × List Char
  | [] => ([], [])
  | c :: cs => if p c then let (a, b) := takeWhileC p cs; (c :: a, b) else ([], c :: cs)

private def isHexC (c : Char) : Bool := c.isDigit || ('a' ≤ c && c ≤ 'f') || c == '-'

/-- parser for `dump`'s output; fuel = input length -/
def parseAux : Nat → List Char → Option (JVal × List Char)
  | 0, _ => none
  | fuel + 1, cs =>
    match cs with
    | 'n' :: r => some (null, r)
    | 't' :: r => some (bool true, r)
    | 'f' :: r => some (bool false, r)
    | 'i' :: r =>
      let (d, r') := takeWhileC (fun c => c.isDigit || c == '-') r
      (String.ofList d).toInt?.map fun v => (int true v, r')
    | 'u' :: r =>
      let (d, r') := takeWhileC (fun c => c.isDigit || c == '-') r
      (String.ofList d).toInt?.map fun v => (int false v, r')
    | 'd' :: r =>
      let h := r.take 16
      let r1 := r.drop 16
      match ofHexChars h with
      | none => none
      | some bs =>
        let bits := bs.foldl (fun acc b => acc * 256 + b.toNat) 0
        match r1 with
        | ':' :: r2 =>
          let (t, r3) := takeWhileC isHexC r2
          (ofHex (String.ofList t)).map fun tb => (dbl (UInt64.ofNat bits) (some tb), r3)
        | _ => some (dbl (UInt64.ofNat bits) none, r1)
    | 's' :: r =>
      let (t, r') := takeWhileC isHexC r
      (ofHex (String.ofList t)).map fun b => (str b, r')
    | '[' :: r =>
      match r with
      | ']' :: r' => some (arr [], r')
      | _ =>
        let rec elems (f : Nat) (cs : List Char) (acc : List JVal) : Option (JVal × List Char) :=
          match f with
          | 0 => none
          | f + 1 =>
            match parseAux fuel cs with
            | none => none
            | some (v, ',' :: r') => elems f r' (v :: acc)
            | some (v, ']' :: r') => some (arr (v :: acc).reverse, r')
            | _ => none
        elems fuel r []
    | '{' :: r =>
      match r with
      | '}' :: r' => some (obj [], r')
      | _ =>
        let rec members (f : Nat) (cs : List Char) (acc : List (Bytes × JVal)) : Option (JVal × List Char) :=
          match f with
          | 0 => none
          | f + 1 =>
            let (k, r1) := takeWhileC isHexC cs
            match ofHex (String.ofList k), r1 with
            | some kb, ':' :: r2 =>
              match parseAux fuel r2 with
              | none => none
              | some (v, ',' :: r') => members f r' ((kb, v) :: acc)
              | some (v, '}' :: r') => some (obj ((kb, v) :: acc).reverse, r')
              | _ => none
            | _, _ => none
        members fuel r []
    | _ => none

def parse (s : String) : Option JVal :=
  match parseAux (s.length + 1) s.toList with
  | some (v, []) => some v
  | _ => none

end JVal
end JsonC
