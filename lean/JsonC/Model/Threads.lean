/-
  Threaded build (ENABLE_THREADING): interleaving model of

    json_object_get / json_object_put   (json_object.c)   on shared reference counters, and of
    lh_char_hash's seed initialisation  (linkhash.c)      `read; if -1: generate; CAS(-1 -> s); read again; hash`.

  A configuration holds the shared memory (the counters / the seed) and, per thread, the rest of its
  program and a small program counter inside the current call.  `step sem c t` lets thread `t` perform
  its next *shared-memory access*; a schedule is a list of thread ids; "every interleaving" is "every
  schedule" (`run`).  Nothing else is shared between the modelled calls, so the granularity - one step per
  access to the shared location - is the finest one that matters.

  How an update of the counter is performed comes from the source text through
  `Generated.thrGetRefAccesses / thrPutRefAccesses` (tools/extract/st_thr.py, preprocessed with
  -DENABLE_THREADING): `refUpdateKind`.  Kind `atomicRMW` (`__sync_add_and_fetch`) is one indivisible
  step, anything else is modelled as a separate load step and store step (`Sem.split`, what `++x` compiles
  to), under which updates can be lost.

  What the model cannot carry (assumption of every theorem about it): that the `__sync_*` / `__atomic_*`
  builtins really are indivisible on the hardware, and that no other code touches the two locations.
-/
import JsonC.Base.Basic
import JsonC.Generated.Structure

namespace JsonC.Threads
open JsonC Generated

/-- 2^32: `_ref_count` is a `uint32_t` -/
def U32 : Nat := 4294967296

/-! ### classification of the extracted accesses -/

def isWrite : AccessKind → Bool
  | .atomicRMW | .cas | .atomicWrite | .plainWrite => true
  | .atomicRead | .plainRead => false

def isAtomic : AccessKind → Bool
  | .plainRead | .plainWrite => false
  | _ => true

/-- C11 5.1.2.4: two accesses to the same location conflict when at least one writes; a conflict is a data
race unless both are atomic or one happens before the other.  Calls of json_object_get/put on one node
(resp. of lh_char_hash) by different threads are not ordered by anything, so every pair of accesses of the
list - including an access and a second execution of itself - may be concurrent: the list is race free iff
no conflicting pair contains a plain access. -/
def conflictFree (l : List AccessKind) : Bool :=
  l.all fun a => l.all fun b => !(isWrite a || isWrite b) || (isAtomic a && isAtomic b)

def updatesOf (l : List AccessKind) : List AccessKind := l.filter isWrite

/-- How json_object_get / json_object_put update the counter in the threaded build: both functions
contain exactly one writing access, of the same kind, adding 1 resp. subtracting 1, and put tears the node
down iff the value it wrote is 0.  Anything else is treated as the weakest kind. -/
def refUpdateKind : AccessKind :=
  match updatesOf thrGetRefAccesses, updatesOf thrPutRefAccesses with
  | [a], [b] =>
    if a = b ∧ thrGetRmwDelta = 1 ∧ thrPutRmwDelta = -1 ∧ thrPutDestroyIffNewZero = true then a else .plainWrite
  | _, _ => .plainWrite

/-- semantics of a counter update -/
inductive Sem where
  | atomic   -- one indivisible read-modify-write
  | split    -- a load step and a later store step
  deriving DecidableEq, Repr

def semOfKind : AccessKind → Sem
  | .atomicRMW => .atomic
  | _ => .split

/-- the semantics the current source has -/
def refSem : Sem := semOfKind refUpdateKind

/-! ### reference counters -/

inductive Op where
  | get (n : Nat)    -- json_object_get(node n)
  | put (n : Nat)    -- json_object_put(node n)
  | work (n : Nat)   -- any use of node n that does not touch the counter (needs the node alive)
  deriving DecidableEq, Repr

def Op.node : Op → Nat
  | .get n | .put n | .work n => n

inductive Pc where
  | start              -- before the assert
  | checked            -- assert passed, before the update (atomic) / the load (split)
  | loaded (v : Nat)   -- split semantics only: value loaded, store pending
  deriving DecidableEq, Repr

structure Thread where
  prog : List Op
  pc : Pc := .start
  deriving Repr

structure Node where
  cnt : Nat
  /-- number of times the node was torn down (delete callback + free); > 0 = memory freed -/
  destroyed : Nat := 0
  deriving Repr, DecidableEq

/-- a completed operation: who, what, and the counter value it left behind -/
structure Ev where
  tid : Nat
  op : Op
  new : Nat
  deriving Repr, DecidableEq

structure Cfg where
  nodes : List Node
  threads : List Thread
  /-- completed operations, newest first -/
  trace : List Ev := []
  fault : Option String := none
  deriving Repr

/-- the value an update stores, computed from the value it read (`uint32_t` arithmetic) -/
def newVal (op : Op) (old cur : Nat) : Nat :=
  match op with
  | .get _ => (old + 1) % U32
  | .put _ => (old + U32 - 1) % U32
  | .work _ => cur

def nodeAfter (op : Op) (nd : Node) (new : Nat) : Node :=
  match op with
  | .put _ => if new = 0 then ⟨new, nd.destroyed + 1⟩ else ⟨new, nd.destroyed⟩
  | _ => ⟨new, nd.destroyed⟩

/-- completion of an operation: the store (for put: followed by the teardown when the stored value is 0),
the thread moves on to its next operation -/
def finishOp (c : Cfg) (t : Nat) (rest : List Op) (op : Op) (nd : Node) (old : Nat) : Cfg :=
  { nodes := c.nodes.set op.node (nodeAfter op nd (newVal op old nd.cnt)),
    threads := c.threads.set t ⟨rest, .start⟩,
    trace := ⟨t, op, newVal op old nd.cnt⟩ :: c.trace,
    fault := c.fault }

def setPc (c : Cfg) (t : Nat) (prog : List Op) (pc : Pc) : Cfg :=
  { c with threads := c.threads.set t ⟨prog, pc⟩ }

def withFault (c : Cfg) (why : String) : Cfg := { c with fault := some why }

/-- the assert at the head of json_object_get / json_object_put, on the value it reads -/
def assertOk (op : Op) (v : Nat) : Bool :=
  match op with
  | .get _ => v < U32 - 1     -- assert(jso->_ref_count < UINT32_MAX)
  | .put _ => 0 < v           -- assert(jso->_ref_count > 0)
  | .work _ => true

/-- one shared-memory access of the operation `op :: rest` of thread `t` on the live node `nd` -/
def stepOp (sem : Sem) (c : Cfg) (t : Nat) (pc : Pc) (op : Op) (rest : List Op) (nd : Node) : Cfg :=
  match op with
  | .work _ => finishOp c t rest op nd nd.cnt
  | _ =>
    match pc with
    | .start => if assertOk op nd.cnt then setPc c t (op :: rest) .checked else withFault c "assertion on _ref_count failed"
    | .checked =>
      match sem with
      | .atomic => finishOp c t rest op nd nd.cnt
      | .split => setPc c t (op :: rest) (.loaded nd.cnt)
    | .loaded v => finishOp c t rest op nd v

/-- thread `t` performs its next access (no-op when `t` does not exist, has finished, or the run faulted) -/
def step (sem : Sem) (c : Cfg) (t : Nat) : Cfg :=
  match c.fault with
  | some _ => c
  | none =>
    match c.threads[t]? with
    | none => c
    | some th =>
      match th.prog with
      | [] => c
      | op :: rest =>
        match c.nodes[op.node]? with
        | none => withFault c "no such node"
        | some nd =>
          if nd.destroyed = 0 then stepOp sem c t th.pc op rest nd
          else withFault c "use after free"

def run (sem : Sem) (c : Cfg) (sched : List Nat) : Cfg := sched.foldl (step sem) c

/-! observables -/

def progAt (c : Cfg) (t : Nat) : List Op :=
  match c.threads[t]? with
  | some th => th.prog
  | none => []

def cntAt (c : Cfg) (n : Nat) : Nat :=
  match c.nodes[n]? with
  | some nd => nd.cnt
  | none => 0

def destroyedAt (c : Cfg) (n : Nat) : Nat :=
  match c.nodes[n]? with
  | some nd => nd.destroyed
  | none => 0

def getsOn (tr : List Ev) (n : Nat) : Nat := tr.countP fun e => e.op = .get n
def putsOn (tr : List Ev) (n : Nat) : Nat := tr.countP fun e => e.op = .put n
/-- puts on node n that observed 0 (`__sync_sub_and_fetch(..) == 0`: the caller tears the node down) -/
def zeroPutsOn (tr : List Ev) (n : Nat) : Nat := tr.countP fun e => e.op = .put n ∧ e.new = 0

def getsIn (p : List Op) (n : Nat) : Nat := p.countP fun o => o = .get n
def putsIn (p : List Op) (n : Nat) : Nat := p.countP fun o => o = .put n

def sumTo : Nat → (Nat → Nat) → Nat
  | 0, _ => 0
  | k + 1, f => sumTo k f + f k

def finished (c : Cfg) : Prop := ∀ t, progAt c t = []

/-! ### ownership discipline (json_object.h: "a thread may only release a reference it owns") -/

def upd (h : Nat → Nat) (n v : Nat) : Nat → Nat := fun m => if m = n then v else h m

/-- `OkProg h p`: a thread that owns `h n` references to node `n` may run `p`: it calls get / put / uses a
node only while it owns a reference to it (get adds one, put gives one up). -/
def OkProg : (Nat → Nat) → List Op → Prop
  | _, [] => True
  | h, .get n :: rest => 0 < h n ∧ OkProg (upd h n (h n + 1)) rest
  | h, .put n :: rest => 0 < h n ∧ OkProg (upd h n (h n - 1)) rest
  | h, .work n :: rest => 0 < h n ∧ OkProg h rest

/-- executable version of `OkProg` for holdings given as a list (driver, examples) -/
def okProgB (h : List Nat) : List Op → Bool
  | [] => true
  | .get n :: rest => 0 < h.getD n 0 && okProgB (h.set n (h.getD n 0 + 1)) rest
  | .put n :: rest => 0 < h.getD n 0 && okProgB (h.set n (h.getD n 0 - 1)) rest
  | .work n :: rest => 0 < h.getD n 0 && okProgB h rest

/-- a well-formed trace (newest first): no operation on a node comes after a put on that node that
observed 0 - i.e. the put that tears a node down is the last operation on it -/
def okTrace : List Ev → Prop
  | [] => True
  | e :: older => zeroPutsOn older e.op.node = 0 ∧ okTrace older

/-- `Start c0 H0`: `c0` is an initial configuration in which thread `t` owns `H0 t n` references to node
`n`: every counter equals the number of references handed out, every program respects ownership, nothing
has run yet, and the counters cannot overflow (`bound`: references owned plus gets still to come stay
below 2^32 - the assert in json_object_get checks this at run time). -/
structure Start (c0 : Cfg) (H0 : Nat → Nat → Nat) : Prop where
  nofault : c0.fault = none
  notrace : c0.trace = []
  pcs : ∀ (t : Nat) (th : Thread), c0.threads[t]? = some th → th.pc = Pc.start
  ok : ∀ t, t < c0.threads.length → OkProg (H0 t) (progAt c0 t)
  dom : ∀ t n, 0 < H0 t n → t < c0.threads.length ∧ n < c0.nodes.length
  cnt : ∀ n, n < c0.nodes.length → cntAt c0 n = sumTo c0.threads.length (fun t => H0 t n)
  fresh : ∀ n, n < c0.nodes.length → destroyedAt c0 n = 0
  bound : ∀ n, n < c0.nodes.length → sumTo c0.threads.length (fun t => H0 t n + getsIn (progAt c0 t) n) < U32

/-! ### the hash seed -/

inductive SPc where
  | idle                     -- outside lh_char_hash
  | test                     -- about to read random_seed for `== -1`
  | gen                      -- in `while ((seed = json_c_get_random_seed()) == -1) {}`
  | casAt (cand : Int)       -- candidate in hand, about to compare-and-swap
  | hashAt (loc : Int)       -- about to hash; `loc` = what a local copy would hold at this point
  deriving DecidableEq, Repr

structure SThread where
  /-- calls of lh_char_hash still to make -/
  calls : Nat
  /-- what json_c_get_random_seed returns to this thread, in order -/
  cands : List Int
  pc : SPc := .idle
  deriving Repr

structure HashEv where
  tid : Nat
  /-- the seed handed to hashlittle -/
  used : Int
  deriving Repr, DecidableEq

structure SCfg where
  seed : Int
  threads : List SThread
  /-- hashes computed so far, newest first -/
  hashes : List HashEv := []
  /-- successful writes (old, new) to random_seed, newest first -/
  writes : List (Int × Int) := []
  deriving Repr

def SCfg.setT (c : SCfg) (t : Nat) (th : SThread) : SCfg := { c with threads := c.threads.set t th }

/-- One access of thread `t` in lh_char_hash.  `loop`: the generator call is wrapped in the `== -1` retry
loop; `reread`: the value hashed is read from `random_seed` again after the compare-and-swap (as opposed to
a local copy of the first read / of the thread's own candidate). -/
def sstep (loop reread : Bool) (c : SCfg) (t : Nat) : SCfg :=
  match c.threads[t]? with
  | none => c
  | some th =>
    match th.pc with
    | .idle => if th.calls = 0 then c else c.setT t { th with calls := th.calls - 1, pc := .test }
    | .test => if c.seed = -1 then c.setT t { th with pc := .gen } else c.setT t { th with pc := .hashAt c.seed }
    | .gen =>
      match th.cands with
      | [] => c      -- the generator does not return
      | x :: xs =>
        if loop = true ∧ x = -1 then c.setT t { th with cands := xs }
        else c.setT t { th with cands := xs, pc := .casAt x }
    | .casAt cand =>
      if c.seed = -1 then
        { (c.setT t { th with pc := .hashAt cand }) with seed := cand, writes := (-1, cand) :: c.writes }
      else c.setT t { th with pc := .hashAt cand }
    | .hashAt loc =>
      { (c.setT t { th with pc := .idle }) with hashes := ⟨t, if reread then c.seed else loc⟩ :: c.hashes }

def srun (loop reread : Bool) (c : SCfg) (sched : List Nat) : SCfg := sched.foldl (sstep loop reread) c

/-- the protocol shape the seed model transcribes: three accesses `read; cas; read`, the first one the
`== -1` test guarding generator and CAS, the CAS from the unset value to the candidate, unset = -1 -/
def seedShapeOk : Bool :=
  thrSeedGuardIsUnsetTest && thrSeedCasFromUnset && (thrSeedInit == -1) &&
  (thrSeedAccesses.map isWrite == [false, true, false]) && (thrSeedAccesses[1]? == some AccessKind.cas)

def seedStep : SCfg → Nat → SCfg := sstep thrSeedLoopPresent thrSeedRereadAfterCas
def seedRun (c : SCfg) (sched : List Nat) : SCfg := sched.foldl seedStep c

end JsonC.Threads
