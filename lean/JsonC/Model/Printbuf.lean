/-
  Model of printbuf.c ("checked C": every int operation carries its range check and every
  buffer access its bounds check; a violated check is `Outcome.fault`).

  struct printbuf { char *buf; int bpos; int size; }
  `cells` is the allocation `buf[0..size)`; `none` = never written (malloc / realloc tail).
-/
import JsonC.Base.Basic
import JsonC.Generated.Consts
import JsonC.Generated.Structure

namespace JsonC.Printbuf
open JsonC Generated

structure Pb where
  cells : List (Option UInt8)
  bpos : Nat
  size : Nat
  deriving Repr, DecidableEq

/-- new state, C return value, errno left behind (`none` = untouched) -/
structure Res where
  pb : Pb
  ret : Int
  errno : Errno := .none
  deriving Repr, DecidableEq

def INT_MAX : Int := (intMax : Int)

/-- a value computed in C `int` arithmetic: outside the range it is signed overflow (UB) -/
def ckInt (x : Int) (site : String) : Outcome Int :=
  if -INT_MAX - 1 ≤ x ∧ x ≤ INT_MAX then .ok x else .fault ("int overflow: " ++ site)

/-- `cells[off .. off+bs.length) := bs` (caller has checked the bounds) -/
def writeAt (cells : List (Option UInt8)) (off : Nat) (bs : Bytes) : List (Option UInt8) :=
  cells.take off ++ bs.map some ++ cells.drop (off + bs.length)

/-- realloc(buf, n): keeps the common prefix, new tail uninitialised -/
def reallocCells (cells : List (Option UInt8)) (n : Nat) : List (Option UInt8) :=
  cells.take n ++ List.replicate (n - cells.length) none

/-- printbuf_new (both allocations succeed) -/
def new : Outcome Pb :=
  let size := pbInitSize
  if 0 < size then
    .ok { cells := (List.replicate size none).set 0 (some 0), bpos := 0, size := size }
  else .fault "printbuf_new: buf[0] outside the allocation"

/-- static int printbuf_extend(struct printbuf *p, int min_size) -/
def extend (p : Pb) (minSize : Int) : Outcome Res :=
  if (p.size : Int) ≥ minSize then .ok ⟨p, 0, .none⟩
  else if minSize > INT_MAX - pbExtendGuard then .ok ⟨p, -1, .EFBIG⟩
  else do
    let newSize ←
      if (p.size : Int) > INT_MAX / 2 then ckInt (minSize + pbExtendSlack) "extend: min_size + 8"
      else do
        let d ← ckInt ((p.size : Int) * 2) "extend: p->size * 2"
        let m ← ckInt (minSize + pbExtendSlack) "extend: min_size + 8"
        pure (if d < m then m else d)
    if newSize ≤ 0 then .fault "extend: realloc with non-positive size"
    else
      .ok ⟨{ p with cells := reallocCells p.cells newSize.toNat, size := newSize.toNat }, 0, .none⟩

/-- int printbuf_memappend(struct printbuf *p, const char *buf, int size);
`data` is the object `buf` points into (its real extent), `size` the claimed count. -/
def memappend (p : Pb) (data : Bytes) (size : Int) : Outcome Res :=
  if size < 0 ∨ size > INT_MAX - p.bpos - 1 then .ok ⟨p, -1, .EFBIG⟩
  else do
    let need ← ckInt (p.bpos + size + 1) "memappend: p->bpos + size + 1"
    let r ← if (p.size : Int) ≤ need then extend p need else pure ⟨p, 0, .none⟩
    if r.ret < 0 then .ok ⟨r.pb, -1, r.errno⟩
    else
      let p := r.pb
      let n := size.toNat
      if n > data.length then .fault "memappend: memcpy reads past the source object"
      else if p.bpos + n > p.size ∨ p.size ≠ p.cells.length then .fault "memappend: memcpy writes past the allocation"
      else
        let cells := writeAt p.cells p.bpos (data.take n)
        let bpos := p.bpos + n
        if bpos ≥ p.size then .fault "memappend: terminating NUL outside the allocation"
        else .ok ⟨{ cells := cells.set bpos (some 0), bpos := bpos, size := p.size }, size, .none⟩

/-- the printbuf_memappend_fast macro (bufsize is an int expression ≥ 0 at every call site) -/
def memappendFast (p : Pb) (data : Bytes) (size : Int) : Outcome Res :=
  if (p.size : Int) - p.bpos > size then
    let n := size.toNat
    if size < 0 then .fault "memappend_fast: negative size reaches memcpy"
    else if n > data.length then .fault "memappend_fast: memcpy reads past the source object"
    else if p.bpos + n ≥ p.size ∨ p.size ≠ p.cells.length then .fault "memappend_fast: write outside the allocation"
    else
      let cells := writeAt p.cells p.bpos (data.take n)
      .ok ⟨{ cells := cells.set (p.bpos + n) (some 0), bpos := p.bpos + n, size := p.size }, 0, .none⟩
  else do
    let r ← memappend p data size
    pure ⟨r.pb, 0, r.errno⟩

/-- int printbuf_memset(struct printbuf *pb, int offset, int charvalue, int len) -/
def memset (p : Pb) (offset : Int) (ch : Int) (len : Int) : Outcome Res :=
  let offset := if offset = -1 then (p.bpos : Int) else offset
  if len < 0 ∨ offset < -1 ∨ len > INT_MAX - offset then .ok ⟨p, -1, .EFBIG⟩
  else do
    let sizeNeeded ← ckInt (offset + len) "memset: offset + len"
    let r ← if (p.size : Int) < sizeNeeded then extend p sizeNeeded else pure ⟨p, 0, .none⟩
    if r.ret < 0 then .ok ⟨r.pb, -1, r.errno⟩
    else
      let p := r.pb
      if offset < 0 then .fault "memset: negative offset reaches memset"
      else
        let off := offset.toNat
        let n := len.toNat
        if p.size ≠ p.cells.length then .fault "memset: size field does not describe the allocation"
        else if p.bpos < off ∧ off > p.size then .fault "memset: zero fill past the allocation"
        else
          let cells := if p.bpos < off then writeAt p.cells p.bpos (List.replicate (off - p.bpos) 0) else p.cells
          if off + n > p.size then .fault "memset: fill past the allocation"
          else
            let cells := writeAt cells off (List.replicate n (UInt8.ofNat (ch % 256).toNat))
            let bpos := if (p.bpos : Int) < sizeNeeded then sizeNeeded.toNat else p.bpos
            .ok ⟨{ cells := cells, bpos := bpos, size := p.size }, 0, .none⟩

/-- what vsnprintf(buf, N, …) leaves in `char buf[N]` for a formatted output `out` -/
def stackImage (out : Bytes) : List UInt8 :=
  out.take (sprintbufStack - 1) ++ [0]

/-- int sprintbuf(struct printbuf *p, const char *msg, ...): `out` is the complete formatted
output (what vasprintf would produce); vasprintf succeeds. -/
def sprintbuf (p : Pb) (out : Bytes) : Outcome Res :=
  let size : Int := out.length
  if size > INT_MAX then .ok ⟨p, -1, .none⟩        -- vsnprintf/vasprintf report failure
  else if size > sprintbufHeapAbove then memappend p out size
  else memappend p (stackImage out) size

/-- void printbuf_reset(struct printbuf *p) -/
def reset (p : Pb) : Outcome Pb :=
  if 0 < p.size ∧ p.size = p.cells.length then .ok { p with cells := p.cells.set 0 (some 0), bpos := 0 }
  else .fault "printbuf_reset: buf[0] outside the allocation"

/-- contents `buf[0..bpos)` as the caller sees them -/
def contents (p : Pb) : Bytes := (p.cells.take p.bpos).map (·.getD 0)

/-- is `buf[bpos]` inside the allocation and NUL? -/
def terminated (p : Pb) : Bool := p.bpos < p.size && p.cells[p.bpos]? == some (some 0)

/-! ### operation language (shared with the harness) -/

inductive Op where
  | append (data : Bytes)                 -- printbuf_memappend(p, data, |data|)
  | appendClaim (size : Int)              -- printbuf_memappend(p, <8-byte object>, size) : refusal paths
  | fast (data : Bytes)                   -- printbuf_memappend_fast
  | memset (offset ch len : Int)
  | sprintbuf (out : Bytes)
  | reset
  deriving Repr, DecidableEq

def claimSource : Bytes := [0, 0, 0, 0, 0, 0, 0, 0]

def step (p : Pb) : Op → Outcome Res
  | .append d => memappend p d d.length
  | .appendClaim n => memappend p claimSource n
  | .fast d => memappendFast p d d.length
  | .memset o c l => memset p o c l
  | .sprintbuf out => sprintbuf p out
  | .reset => do let q ← reset p; pure ⟨q, 0, .none⟩

def run (p : Pb) : List Op → Outcome (Pb × List Res)
  | [] => .ok (p, [])
  | op :: ops => do
    let r ← step p op
    let (q, rs) ← run r.pb ops
    pure (q, r :: rs)

end JsonC.Printbuf
