/-
  Model of json_object_equal / json_array_equal / json_object_all_values_equal and of
  json_object_deep_copy / json_object_deep_copy_recursive / json_c_shallow_copy_default /
  json_object_copy_serializer_data (json_object.c), value level over the shared tree type `JVal`.

  Node identity.  A value tree has no addresses, but `json_object_equal` starts with the pointer test
  `jso1 == jso2`, and that test decides the result whenever the two nodes contain a NaN.  Pointer
  equality therefore enters as an explicit *oracle* `same : Pos → Pos → Bool` on tree positions
  (`same p q` = the node at position `p` below the left root and the node at position `q` below the
  right root are one heap node).  `Same.none` = two trees without a common node (what any two
  separately built trees are), `Same.diag` = both arguments are the same root.  NULL == NULL holds
  whatever the oracle says (`ptrEq`).

  Doubles are 64-bit patterns; `==` on `double` is defined on the patterns (`ieeeEq`), Lean's `Float`
  does not occur.  Allocation is assumed to succeed (failure is property C08).
-/
import JsonC.Model.Value
import JsonC.Generated.Structure

namespace JsonC

/-! ### well-formedness of a tree that the public API can build -/
namespace JVal

/-- a C string: no NUL inside -/
def nulFree (b : Bytes) : Bool := !b.contains 0

def keysNodup : List Bytes → Bool
  | [] => true
  | k :: ks => !ks.contains k && keysNodup ks

mutual
  /-- what `json_object_new_*` / `json_object_object_add` / `json_object_array_add` can produce:
  integers in the range of their C type, retained number text and member keys are C strings, and an
  object holds every key once (adding an existing key replaces its value). -/
  def wf : JVal → Bool
    | null => true
    | bool _ => true
    | int true v => decide (INT64_MIN ≤ v) && decide (v ≤ INT64_MAX)
    | int false v => decide (0 ≤ v) && decide (v ≤ UINT64_MAX)
    | dbl _ none => true
    | dbl _ (some t) => nulFree t
    | str _ => true
    | arr xs => wfList xs
    | obj kvs => wfMembers kvs && keysNodup (keysOf kvs)
  def wfList : List JVal → Bool
    | [] => true
    | x :: xs => wf x && wfList xs
  def wfMembers : List (Bytes × JVal) → Bool
    | [] => true
    | (k, v) :: kvs => nulFree k && wf v && wfMembers kvs
  def keysOf : List (Bytes × JVal) → List Bytes
    | [] => []
    | (k, _) :: kvs => k :: keysOf kvs
end

/-- `JVal.WF v`: `v` is a tree the API can build (`wf` is its decision procedure). -/
def WF (v : JVal) : Prop := wf v = true

instance (v : JVal) : Decidable (WF v) := inferInstanceAs (Decidable (wf v = true))

/-- enum json_type of a node (NULL pointer = json_type_null) -/
inductive Kind where
  | null | boolean | double | int | object | array | string
  deriving Repr, DecidableEq

def kind : JVal → Kind
  | null => .null
  | bool _ => .boolean
  | int _ _ => .int
  | dbl _ _ => .double
  | str _ => .string
  | arr _ => .array
  | obj _ => .object

def isNull : JVal → Bool
  | null => true
  | _ => false

end JVal

namespace Equal
open JVal

/-! ### node identity -/

/-- position of a node below a root: array index / member index (iteration order) at every level -/
abbrev Pos := List Nat

/-- pointer-equality oracle between the nodes of the left and of the right argument -/
abbrev Same := Pos → Pos → Bool

/-- two trees that have no node in common -/
def Same.none : Same := fun _ _ => false
/-- both arguments are the same root node (hence all nodes below coincide position by position) -/
def Same.diag : Same := fun p q => p == q
/-- the oracle seen from child `i` of the left node and child `j` of the right node -/
def Same.shift (s : Same) (i j : Nat) : Same := fun p q => s (i :: p) (j :: q)

/-- child `i` of a node: array element / member value in iteration order -/
def child : JVal → Nat → Option JVal
  | .arr xs, i => xs[i]?
  | .obj kvs, i => kvs[i]?.map (·.2)
  | _, _ => none

/-- the node at a position -/
def nodeAt : JVal → Pos → Option JVal
  | v, [] => some v
  | v, i :: p => (child v i).bind (nodeAt · p)

/-- what an oracle must satisfy to describe a heap: one node has one value -/
def Same.Sound (same : Same) (a b : JVal) : Prop :=
  ∀ p q x y, nodeAt a p = some x → nodeAt b q = some y → same p q = true → x = y

/-- `jso1 == jso2` on two `struct json_object *`: NULL equals NULL; a node never equals NULL -/
def ptrEq (same : Same) : JVal → JVal → Bool
  | .null, .null => true
  | .null, _ => false
  | _, .null => false
  | _, _ => same [] []

/-! ### leaves -/

/-- `isnan` on a binary64 pattern: magnitude bits above those of +Infinity -/
def isNaNBits (b : UInt64) : Bool := b.toNat % 2 ^ 63 > 0x7ff0000000000000
/-- +0.0 or -0.0 -/
def isZeroBits (b : UInt64) : Bool := b.toNat % 2 ^ 63 == 0

/-- C `x == y` on two `double`s given by their patterns (IEEE 754 compareQuietEqual):
unordered if either is a NaN, +0 = -0, otherwise equal values have equal patterns. -/
def ieeeEq (x y : UInt64) : Bool :=
  if isNaNBits x || isNaNBits y then false
  else if isZeroBits x && isZeroBits y then true
  else x == y

/-- `(uint64_t)v` for an `int64_t v` -/
def castU64 (v : Int) : Int := v % 2 ^ 64

/-- the `json_type_int` case of json_object_equal: four combinations of `cint_type` -/
def intEq (s1 : Bool) (v1 : Int) (s2 : Bool) (v2 : Int) : Bool :=
  if s1 then                                  -- int1->cint_type == json_object_int_type_int64
    if s2 then v1 == v2                       --   return c_int64 == c_int64
    else if v1 < 0 then false                 --   if (int1->cint.c_int64 < 0) return 0
    else castU64 v1 == v2                     --   return (uint64_t)c_int64 == c_uint64
  else                                        -- jso1 is a uint64
    if !s2 then v1 == v2                      --   return c_uint64 == c_uint64
    else if v2 < 0 then false                 --   if (int2->cint.c_int64 < 0) return 0
    else v1 == castU64 v2                     --   return c_uint64 == (uint64_t)c_int64

/-- `memcmp(p, q, n) == 0` -/
def memcmpEq (p q : Bytes) (n : Nat) : Bool := p.take n == q.take n

/-- the `json_type_string` case: equal lengths and `memcmp` over that length -/
def strEq (s t : Bytes) : Bool := s.length == t.length && memcmpEq s t s.length

/-- `lh_table_lookup_ex(t, k, &v)` on an object whose members are `m` (keys compared as C strings),
with the member index of the entry found -/
def lookupIdx (k : Bytes) : List (Bytes × JVal) → Nat → Option (Nat × JVal)
  | [], _ => none
  | (k', v) :: r, i => if k' == k then some (i, v) else lookupIdx k r (i + 1)

/-- second loop of json_object_all_values_equal: every key of jso2 exists in jso1 -/
def keysAllIn : List (Bytes × JVal) → List (Bytes × JVal) → Bool
  | [], _ => true
  | (k, _) :: r, m1 => (lookupIdx k m1 0).isSome && keysAllIn r m1

/-! ### json_object_equal -/

mutual
  /-- json_object_equal after the `jso1 == jso2` test: NULL check, `o_type` check, switch.
  (A child pair is compared by `ptrEq … || equalK …`, i.e. by json_object_equal.) -/
  def equalK (same : Same) : JVal → JVal → Bool
    | .null, _ => false                                    -- !jso1
    | .bool x, b => match b with
        | .bool y => x == y
        | _ => false
    | .dbl x _, b => match b with
        | .dbl y _ => ieeeEq x y
        | _ => false
    | .int s1 v1, b => match b with
        | .int s2 v2 => intEq s1 v1 s2 v2
        | _ => false
    | .str s, b => match b with
        | .str t => strEq s t
        | _ => false
    | .obj m1, b => match b with
        | .obj m2 => allValues same 0 m1 m2 && keysAllIn m2 m1
        | _ => false
    | .arr xs, b => match b with
        | .arr ys => xs.length == ys.length && equalElems same 0 xs ys
        | _ => false
  /-- json_array_equal's loop from index `i` (`ys` = elements of jso2 from `i`; beyond its length
  json_object_array_get_idx gives NULL) -/
  def equalElems (same : Same) (i : Nat) : List JVal → List JVal → Bool
    | [], _ => true
    | x :: xs, ys =>
      let y := ys.headD .null
      (ptrEq (same.shift i i) x y || equalK (same.shift i i) x y) && equalElems same (i + 1) xs ys.tail
  /-- first loop of json_object_all_values_equal from member `i` of jso1: look the key up in jso2 -/
  def allValues (same : Same) (i : Nat) : List (Bytes × JVal) → List (Bytes × JVal) → Bool
    | [], _ => true
    | (k, v) :: rest, m2 =>
      match lookupIdx k m2 0 with
      | none => false
      | some (j, sub) =>
        (ptrEq (same.shift i j) v sub || equalK (same.shift i j) v sub) && allValues same (i + 1) rest m2
end

/-- int json_object_equal(jso1, jso2) -/
def equalP (same : Same) (a b : JVal) : Bool := ptrEq same a b || equalK same a b

/-- two separately built trees -/
def equal (a b : JVal) : Bool := equalP Same.none a b

/-- json_object_equal(x, x) -/
def equalSelf (a : JVal) : Bool := equalP Same.diag a a

/-! ### json_object_deep_copy -/

/-- `strdup` -/
def strdup (t : Bytes) : Bytes := t.takeWhile (· != 0)

/-- json_object_copy_serializer_data on a node whose `_userdata` is the retained number text
(`_to_json_string` was copied by the shallow copy, so the userdata serializer is recognised) -/
def copySerializerData (srcText : Option Bytes) : Option Bytes := srcText.map strdup

/-- json_object_object_add(obj, key, val) on the member list: an existing key keeps its place and
gets the new value, a new key (duplicated with strdup) is appended -/
def objAdd (kvs : List (Bytes × JVal)) (k : Bytes) (v : JVal) : List (Bytes × JVal) :=
  let k' := strdup k
  if kvs.any (·.1 == k') then kvs.map (fun kv => if kv.1 == k' then (kv.1, v) else kv)
  else kvs ++ [(k', v)]

mutual
  /-- json_object_deep_copy_recursive with json_c_shallow_copy_default (result = `*dst`):
  the shallow copy creates a node of the same type (an int keeps its `cint_type`, a string is
  copied by length), members and elements are copied in order — a NULL child is attached as NULL
  without a recursive call —, then the serializer data (retained number text) is duplicated.
  `src` must not be NULL: the shallow copy reads `src->o_type`. -/
  def copyRec : JVal → Outcome JVal
    | .null => .fault "json_c_shallow_copy_default: src->o_type with src == NULL"
    | .bool b => .ok (.bool b)
    | .int s v => .ok (.int s v)
    | .dbl bits text => .ok (.dbl bits (copySerializerData text))
    | .str s => .ok (.str (s.take s.length))
    | .arr xs => do
      let ys ← copyElems xs []
      pure (.arr ys)
    | .obj kvs => do
      let m ← copyMembers kvs []
      pure (.obj m)
  /-- the array loop; `acc` = elements of `*dst` so far (json_object_array_add appends) -/
  def copyElems : List JVal → List JVal → Outcome (List JVal)
    | [], acc => .ok acc
    | x :: xs, acc => do
      let y ← (match x with
        | .null => (.ok .null : Outcome JVal)
        | _ => copyRec x)
      copyElems xs (acc ++ [y])
  /-- the object loop; `acc` = members of `*dst` so far -/
  def copyMembers : List (Bytes × JVal) → List (Bytes × JVal) → Outcome (List (Bytes × JVal))
    | [], acc => .ok acc
    | (k, v) :: rest, acc => do
      let y ← (match v with
        | .null => (.ok .null : Outcome JVal)
        | _ => copyRec v)
      copyMembers rest (objAdd acc k y)
end

structure CopyRes where
  rc : Int
  /-- `*dst` afterwards (`none`: `dst` itself was NULL) -/
  dst : Option JVal
  errno : Errno := .none
  deriving Repr

/-- int json_object_deep_copy(src, dst, NULL).  `src = .null` is the NULL pointer; `dst = none` is
`dst == NULL`, `dst = some cur` means `*dst == cur` before the call. -/
def deepCopy (src : JVal) (dst : Option JVal) : Outcome CopyRes :=
  match dst with
  | none => .ok ⟨-1, none, .EINVAL⟩                         -- !dst
  | some cur =>
    if src.isNull || !cur.isNull then .ok ⟨-1, some cur, .EINVAL⟩   -- !src || *dst
    else do
      let c ← copyRec src
      pure ⟨0, some c, .none⟩

/-! ### trees the public API builds; node identities -/

/-- trees obtained from the constructors of the public API -/
inductive Built : JVal → Prop
  | null : Built .null
  | boolean (b : Bool) : Built (.bool b)                                         -- json_object_new_boolean
  | int64 (v : Int) (h : INT64_MIN ≤ v ∧ v ≤ INT64_MAX) : Built (.int true v)    -- json_object_new_int64
  | uint64 (v : Int) (h : 0 ≤ v ∧ v ≤ UINT64_MAX) : Built (.int false v)         -- json_object_new_uint64
  | double (bits : UInt64) : Built (.dbl bits none)                              -- json_object_new_double
  | doubleS (bits : UInt64) (t : Bytes) (h : nulFree t = true) : Built (.dbl bits (some t))  -- json_object_new_double_s
  | string (s : Bytes) : Built (.str s)                                          -- json_object_new_string_len
  | newArray : Built (.arr [])                                                   -- json_object_new_array
  | arrayAdd (xs : List JVal) (x : JVal) : Built (.arr xs) → Built x → Built (.arr (xs ++ [x]))
  | newObject : Built (.obj [])                                                  -- json_object_new_object
  | objectAdd (m : List (Bytes × JVal)) (k : Bytes) (v : JVal) :                 -- json_object_object_add, any key
      Built (.obj m) → Built v → Built (.obj (objAdd m k v))

/-- identities of the non-NULL nodes of a tree whose root node is `root` (identity = root + position) -/
def nodeIds (root : Nat) (v : JVal) : List (Nat × Pos) :=
  go root [] v
where
  go (root : Nat) (p : Pos) : JVal → List (Nat × Pos)
    | .null => []
    | .arr xs => (root, p) :: goList root p 0 xs
    | .obj kvs => (root, p) :: goMembers root p 0 kvs
    | _ => [(root, p)]
  goList (root : Nat) (p : Pos) (i : Nat) : List JVal → List (Nat × Pos)
    | [] => []
    | x :: xs => go root (p ++ [i]) x ++ goList root p (i + 1) xs
  goMembers (root : Nat) (p : Pos) (i : Nat) : List (Bytes × JVal) → List (Nat × Pos)
    | [] => []
    | (_, v) :: kvs => go root (p ++ [i]) v ++ goMembers root p (i + 1) kvs

/-! ### mutation probes used by the correspondence run (`copymut`) -/

inductive Mut where
  | setStr (s : Bytes)                 -- json_object_set_string_len
  | setInt (v : Int)                   -- json_object_set_int64
  | setDouble (bits : UInt64)          -- json_object_set_double
  | addMem (k : Bytes) (v : JVal)      -- json_object_object_add
  | delMem (k : Bytes)                 -- json_object_object_del
  | putIdx (i : Nat) (v : JVal)        -- json_object_array_put_idx
  | addElem (v : JVal)                 -- json_object_array_add
  deriving Repr

/-- the mutation applied to the node itself; `none` = the call is refused / not applicable -/
def Mut.applyHere : Mut → JVal → Option JVal
  | .setStr s, .str _ => some (.str s)
  | .setInt v, .int _ _ => some (.int true v)
  | .setDouble b, .dbl _ _ => some (.dbl b none)
  | .addMem k v, .obj kvs => some (.obj (objAdd kvs k v))
  | .delMem k, .obj kvs => some (.obj (kvs.filter (fun kv => !(kv.1 == k))))
  | .putIdx i v, .arr xs =>
      some (.arr (if i < xs.length then xs.set i v else xs ++ List.replicate (i - xs.length) .null ++ [v]))
  | .addElem v, .arr xs => some (.arr (xs ++ [v]))
  | _, _ => none

mutual
  /-- apply `m` at position `p` below `v` (`none`: no node there, or refused) -/
  def mutAt (m : Mut) : Pos → JVal → Option JVal
    | [], v => m.applyHere v
    | i :: p, .arr xs => (mutAtList m i p xs).map .arr
    | i :: p, .obj kvs => (mutAtMembers m i p kvs).map .obj
    | _ :: _, _ => none
  def mutAtList (m : Mut) : Nat → Pos → List JVal → Option (List JVal)
    | _, _, [] => none
    | 0, p, x :: xs => (mutAt m p x).map (· :: xs)
    | i + 1, p, x :: xs => (mutAtList m i p xs).map (x :: ·)
  def mutAtMembers (m : Mut) : Nat → Pos → List (Bytes × JVal) → Option (List (Bytes × JVal))
    | _, _, [] => none
    | 0, p, (k, v) :: kvs => (mutAt m p v).map (fun v' => (k, v') :: kvs)
    | i + 1, p, kv :: kvs => (mutAtMembers m i p kvs).map (kv :: ·)
end

end Equal
end JsonC
