/-
  Allocation model, part 2 (C08): the serializers of json_object.c as the sequence of printbuf
  appends they make, run over the allocation-aware printbuf of Model/Alloc.lean.

  This is the model of the known finding `ser.unchecked-append`: every emitter ignores the result of
  its appends except (at most) the last one, so a printbuf_extend whose realloc fails drops one piece
  of the text and the serializer carries on.  The model takes the same branches; `PbT.dropped`
  records that an append failed and was ignored.

  Values are `JVal` trees (Model/Value.lean).  Doubles are covered only when they carry their
  retained text (json_object_new_double_s): formatting with "%.17g" is property C02's business.
-/
import JsonC.Model.Alloc
import JsonC.Model.Value

namespace JsonC.Alloc
open JsonC Generated

/-- a printbuf with its text: `pa.bpos = text.length` -/
structure PbT where
  pa : PbA
  text : Bytes
  dropped : Bool := false
  deriving Repr, DecidableEq

/-- printbuf_memappend(pb, bs, |bs|) -/
def appendT (p : PbT) (bs : Bytes) : A (PbT × Int) := do
  let (q, rc) ← pbMemappend p.pa bs.length
  if rc < 0 then pure ({ p with pa := q, dropped := true }, -1)
  else pure ({ p with pa := q, text := p.text ++ bs }, rc)

/-- the printbuf_memappend_fast macro (no result) -/
def appendFastT (p : PbT) (bs : Bytes) : A PbT :=
  if (p.pa.size : Int) - p.pa.bpos > bs.length then
    pure { p with pa := { p.pa with bpos := p.pa.bpos + bs.length }, text := p.text ++ bs }
  else do
    let (q, _) ← appendT p bs
    pure q

/-- printbuf_memset(pb, -1, ch, len) -/
def memsetEndT (p : PbT) (ch : UInt8) (len : Int) : A (PbT × Int) :=
  let offset : Int := p.pa.bpos
  if len < 0 ∨ len > INT_MAX - offset then do
    setErrno .EFBIG
    pure ({ p with dropped := true }, -1)
  else do
    let need := offset + len
    let r ← (if (p.pa.size : Int) < need then pbExtend p.pa need else pure (p.pa, 0))
    if r.2 < 0 then pure ({ p with pa := r.1, dropped := true }, -1)
    else pure ({ p with pa := { r.1 with bpos := need.toNat }, text := p.text ++ List.replicate len.toNat ch }, 0)

def hasFlag (flags bit : Nat) : Bool := flags &&& bit ≠ 0

/-- decimal digits of `n`, most significant first (`fuel` ≥ number of digits) -/
def natDigits : Nat → Nat → Bytes → Bytes
  | 0, _, acc => acc
  | fuel + 1, n, acc =>
    let acc := UInt8.ofNat (48 + n % 10) :: acc
    if n / 10 = 0 then acc else natDigits fuel (n / 10) acc

/-- what snprintf("%" PRId64 / PRIu64) writes -/
def intBytes (v : Int) : Bytes :=
  if v < 0 then 45 :: natDigits 20 (-v).toNat [] else natDigits 20 v.toNat []

def bytesTrue : Bytes := [116, 114, 117, 101]
def bytesFalse : Bytes := [102, 97, 108, 115, 101]
def bytesNull : Bytes := [110, 117, 108, 108]

/-- static void indent(struct printbuf *pb, int level, int flags) -/
def indentT (p : PbT) (level : Nat) (flags : Nat) : A PbT :=
  if hasFlag flags toStringPretty then do
    let r ← (if hasFlag flags toStringPrettyTab then memsetEndT p 9 level else memsetEndT p 32 (level * 2))
    pure r.1
  else pure p

def colorReset : Bytes := [27, 91, 48, 109]
def colorGreen : Bytes := [27, 91, 48, 59, 51, 50, 109]
def colorBlue : Bytes := [27, 91, 48, 59, 51, 52, 109]
def colorMagenta : Bytes := [27, 91, 48, 59, 51, 53, 109]

def hexLower (n : Nat) : UInt8 := if n < 10 then UInt8.ofNat (48 + n) else UInt8.ofNat (87 + n)

/-- the two-character escapes of json_escape_str -/
def shortEscape (c : UInt8) : Option Bytes :=
  if c = 8 then some [92, 98] else if c = 10 then some [92, 110] else if c = 13 then some [92, 114]
  else if c = 9 then some [92, 116] else if c = 12 then some [92, 102] else if c = 34 then some [92, 34]
  else if c = 92 then some [92, 92] else if c = 47 then some [92, 47] else none

/-- the append that flushes the pending run `str[start_offset .. pos)` -/
def flushRun (p : PbT) (run : Bytes) : A PbT :=
  if run.isEmpty then pure p
  else do
    let (q, _) ← appendT p run.reverse
    pure q

/-- static int json_escape_str(pb, str, len, flags); `run` = the pending unescaped bytes, reversed -/
def escapeStrT (flags : Nat) : Bytes → Bytes → PbT → A PbT
  | [], run, p => flushRun p run
  | c :: cs, run, p =>
    match shortEscape c with
    | some e =>
      if hasFlag flags toStringNoSlashEscape ∧ c = 47 then escapeStrT flags cs (c :: run) p
      else do
        let p1 ← flushRun p run
        let (p2, _) ← appendT p1 e
        escapeStrT flags cs [] p2
    | none =>
      if c < 32 then do
        let p1 ← flushRun p run
        let p2 ← appendFastT p1 ([92, 117, 48, 48] ++ [hexLower (c.toNat / 16), hexLower (c.toNat % 16)])
        escapeStrT flags cs [] p2
      else escapeStrT flags cs (c :: run) p

/-- appending a literal whose result is ignored -/
def lit (p : PbT) (bs : Bytes) : A PbT := do
  let (q, _) ← appendT p bs
  pure q

def litIf (c : Bool) (p : PbT) (bs : Bytes) : A PbT := if c then lit p bs else pure p

/-- the `"..."` of a string value or member name, with its colour -/
def quotedT (flags : Nat) (color : Bytes) (s : Bytes) (p : PbT) : A PbT := do
  let p ← litIf (hasFlag flags toStringColor) p color
  let p ← lit p [34]
  let p ← escapeStrT flags s [] p
  let p ← lit p [34]
  litIf (hasFlag flags toStringColor) p colorReset

def nullT (flags : Nat) (p : PbT) : A PbT := do
  let p ← litIf (hasFlag flags toStringColor) p colorMagenta
  let p ← lit p bytesNull
  litIf (hasFlag flags toStringColor) p colorReset

def spacedOnly (flags : Nat) : Bool := hasFlag flags toStringSpaced && !hasFlag flags toStringPretty

/-- the C string a key is for the serializer: cut at the first NUL (keys are C strings) -/
def cstr : Bytes → Bytes
  | [] => []
  | c :: cs => if c = 0 then [] else c :: cstr cs

def isNullV : JVal → Bool
  | .null => true
  | _ => false

/-- what the container emitters write before each child: separator, newline, space, indentation -/
def sepT (flags : Nat) (had : Bool) (level : Nat) (p : PbT) : A PbT := do
  let p ← litIf had p [44]
  let p ← litIf (hasFlag flags toStringPretty) p [10]
  let p ← litIf (spacedOnly flags) p [32]
  indentT p (level + 1) flags

/-- what they write after the last child; the result of the final append is the emitter's result -/
def closeT (flags : Nat) (had : Bool) (level : Nat) (c : UInt8) (p : PbT) : A (PbT × Int) := do
  let p ← (if hasFlag flags toStringPretty ∧ had then (do
      let p ← lit p [10]
      indentT p level flags) else pure p)
  (if spacedOnly flags then appendT p [32, c] else appendT p [c])

mutual
  /-- jso->_to_json_string(jso, pb, level, flags): (printbuf, return value).
  `none` = a value this model does not cover (a double without retained text). -/
  def serT (flags : Nat) : JVal → Nat → PbT → A (Option (PbT × Int))
    | .null, _, p => pure (some (p, 0))            -- never called: NULL children are written by the container
    | .bool b, _, p => do
      let p ← litIf (hasFlag flags toStringColor) p colorMagenta
      let r ← appendT p (if b then bytesTrue else bytesFalse)
      if r.2 > -1 ∧ hasFlag flags toStringColor then do
        let r2 ← appendT r.1 colorReset
        pure (some r2)
      else pure (some r)
    | .int _ v, _, p => do
      let r ← appendT p (intBytes v)
      pure (some r)
    | .dbl _ (some t), _, p => do
      -- json_object_userdata_to_json_string: the result of the append is not looked at
      let r ← appendT p (cstr t)
      pure (some (r.1, (cstr t).length))
    | .dbl _ none, _, _ => pure none
    | .str s, _, p => do
      let p ← quotedT flags colorGreen s p
      pure (some (p, 0))
    | .arr xs, level, p => do
      let p ← lit p [91]
      match ← serElemsT flags xs level false p with
      | none => pure none
      | some (p, false, had) => do
        let r ← closeT flags had level 93 p
        pure (some r)
      | some (p, true, _) => pure (some (p, -1))
    | .obj kvs, level, p => do
      let p ← lit p [123]
      match ← serMembersT flags kvs level false p with
      | none => pure none
      | some (p, false, had) => do
        let r ← closeT flags had level 125 p
        pure (some r)
      | some (p, true, _) => pure (some (p, -1))
  /-- the element loop: (printbuf, a child returned < 0, had_children) -/
  def serElemsT (flags : Nat) : List JVal → Nat → Bool → PbT → A (Option (PbT × Bool × Bool))
    | [], _, had, p => pure (some (p, false, had))
    | x :: xs, level, had, p => do
      let p ← sepT flags had level p
      if isNullV x then do
        let p ← nullT flags p
        serElemsT flags xs level true p
      else
        match ← serT flags x (level + 1) p with
        | none => pure none
        | some (p, rc) => if rc < 0 then pure (some (p, true, true)) else serElemsT flags xs level true p
  def serMembersT (flags : Nat) : List (Bytes × JVal) → Nat → Bool → PbT → A (Option (PbT × Bool × Bool))
    | [], _, had, p => pure (some (p, false, had))
    | (k, v) :: kvs, level, had, p => do
      let p ← sepT flags had level p
      let p ← quotedT flags colorBlue (cstr k) p
      let p ← lit p (if hasFlag flags toStringSpaced then [58, 32] else [58])
      if isNullV v then do
        let p ← nullT flags p
        serMembersT flags kvs level true p
      else
        match ← serT flags v (level + 1) p with
        | none => pure none
        | some (p, rc) => if rc < 0 then pure (some (p, true, true)) else serMembersT flags kvs level true p
end

/-! ### the complete text: what the emitters write when every append is served -/

def escText (flags : Nat) : Bytes → Bytes
  | [] => []
  | c :: cs =>
    (match shortEscape c with
      | some e => if hasFlag flags toStringNoSlashEscape ∧ c = 47 then [c] else e
      | none => if c < 32 then [92, 117, 48, 48] ++ [hexLower (c.toNat / 16), hexLower (c.toNat % 16)] else [c])
    ++ escText flags cs

def colorIf (flags : Nat) (c : Bytes) : Bytes := if hasFlag flags toStringColor then c else []

def quotedText (flags : Nat) (color s : Bytes) : Bytes :=
  colorIf flags color ++ ([34] ++ (escText flags s ++ ([34] ++ colorIf flags colorReset)))

def nullText (flags : Nat) : Bytes := colorIf flags colorMagenta ++ (bytesNull ++ colorIf flags colorReset)

def indentText (level flags : Nat) : Bytes :=
  if hasFlag flags toStringPretty then
    (if hasFlag flags toStringPrettyTab then List.replicate level 9 else List.replicate (level * 2) 32)
  else []

/-- separator, newline, space and indentation written before a child -/
def sepText (flags : Nat) (had : Bool) (level : Nat) : Bytes :=
  (if had then [44] else []) ++ ((if hasFlag flags toStringPretty then [10] else []) ++
    ((if spacedOnly flags then [32] else []) ++ indentText (level + 1) flags))

/-- what follows the last child: newline + indentation in pretty mode, then the closing bracket -/
def closeText (flags : Nat) (had : Bool) (level : Nat) (c : UInt8) : Bytes :=
  (if hasFlag flags toStringPretty ∧ had then [10] ++ indentText level flags else []) ++
    (if spacedOnly flags then [32, c] else [c])

mutual
  /-- the text `_to_json_string` appends for a value (`none`: a double without retained text) -/
  def emit (flags : Nat) : JVal → Nat → Option Bytes
    | .null, _ => some []
    | .bool b, _ => some (colorIf flags colorMagenta ++ ((if b then bytesTrue else bytesFalse) ++ colorIf flags colorReset))
    | .int _ v, _ => some (intBytes v)
    | .dbl _ (some t), _ => some (cstr t)
    | .dbl _ none, _ => none
    | .str s, _ => some (quotedText flags colorGreen s)
    | .arr xs, level =>
      match emitElems flags xs level false with
      | none => none
      | some (t, had) => some ([91] ++ (t ++ closeText flags had level 93))
    | .obj kvs, level =>
      match emitMembers flags kvs level false with
      | none => none
      | some (t, had) => some ([123] ++ (t ++ closeText flags had level 125))
  def emitElems (flags : Nat) : List JVal → Nat → Bool → Option (Bytes × Bool)
    | [], _, had => some ([], had)
    | x :: xs, level, had =>
      match (if isNullV x then some (nullText flags) else emit flags x (level + 1)) with
      | none => none
      | some c =>
        match emitElems flags xs level true with
        | none => none
        | some (t, had') => some (sepText flags had level ++ (c ++ t), had')
  def emitMembers (flags : Nat) : List (Bytes × JVal) → Nat → Bool → Option (Bytes × Bool)
    | [], _, had => some ([], had)
    | (k, v) :: kvs, level, had =>
      match (if isNullV v then some (nullText flags) else emit flags v (level + 1)) with
      | none => none
      | some c =>
        match emitMembers flags kvs level true with
        | none => none
        | some (t, had') =>
          some (sepText flags had level ++ (quotedText flags colorBlue (cstr k) ++
            ((if hasFlag flags toStringSpaced then [58, 32] else [58]) ++ (c ++ t))), had')
end

/-- the complete text of json_object_to_json_string_ext(jso, flags) -/
def fullText (v : JVal) (flags : Nat) : Option Bytes :=
  match v with
  | .null => some bytesNull
  | _ => emit flags v 0

/-- what json_object_to_json_string_length leaves: the text returned (`none` = NULL) and the printbuf
now cached in the node (`none` = printbuf_new failed) -/
structure SerRes where
  text : Option Bytes
  pb : Option PbA
  dropped : Bool
  deriving Repr

/-- const char *json_object_to_json_string_length(jso, flags, &len) on a node that has not been
serialised before (`_pb == NULL`).  Outer `none`: value not covered by the model. -/
def serializeBody (v : JVal) (flags : Nat) : A (Option SerRes) := do
  match ← pbNew with
  | none => pure (some { text := none, pb := none, dropped := false })
  | some pa =>
    match ← serT flags v 0 { pa := pa, text := [] } with
    | none => pure none
    | some (p, rc) =>
      if rc ≥ 0 then pure (some { text := some p.text, pb := some p.pa, dropped := p.dropped })
      else pure (some { text := none, pb := some p.pa, dropped := p.dropped })

def serialize (v : JVal) (flags : Nat) : A (Option SerRes) :=
  match v with
  | .null =>
    -- jso == NULL: the static text "null", no printbuf
    pure (some { text := some bytesNull, pb := none, dropped := false })
  | _ => serializeBody v flags

end JsonC.Alloc
