/-
  Model of json_pointer.c ("checked C"): the path is a C string in an allocation (`Bytes`, the
  terminating NUL included), every read/write of it carries its bounds check, every `size_t`
  subtraction its wrap check; a violated check is `Outcome.fault`.

  Trees are `JVal` values.  A node is identified by its *position* (the list of child indices from
  the root), so "the very node" is expressible at value level; `json_object *` NULL is `JVal.null`.
  Ownership (`json_pointer_set` takes `value` only on success) is the `owned` flag of `SetRes`
  together with `freed` (how many nodes the call released with `json_object_put`).

  Parameters, never axioms: the formatted output of the printf-style variants (`out`, what
  `vasprintf` produced), and `mem n` = "growing the target array so that it can hold `n` slots
  succeeds" (the `realloc` inside `array_list_expand_internal`).  `strdup`/`vasprintf` succeed
  (allocation failure is C08).
-/
import JsonC.Base.Basic
import JsonC.Generated.Consts
import JsonC.Generated.Structure
import JsonC.Model.Value

namespace JsonC.Pointer
open JsonC Generated

/-! ### C strings inside an allocation -/

/-- `buf[i]` (read) -/
def rd (buf : Bytes) (i : Nat) (site : String) : Outcome UInt8 :=
  match buf[i]? with
  | some b => .ok b
  | none => .fault ("read outside the allocation: " ++ site)

/-- `buf[i] = b` -/
def wr (buf : Bytes) (i : Nat) (b : UInt8) (site : String) : Outcome Bytes :=
  if i < buf.length then .ok (buf.set i b) else .fault ("write outside the allocation: " ++ site)

/-- index of the first byte equal to `c` -/
def idxOfByte (c : UInt8) : Bytes → Option Nat
  | [] => none
  | b :: bs => if b = c then some 0 else (idxOfByte c bs).map (· + 1)

/-- index of the last byte equal to `c` -/
def lastIdxOfByte (c : UInt8) : Bytes → Option Nat
  | [] => none
  | b :: bs =>
    match lastIdxOfByte c bs with
    | some i => some (i + 1)
    | none => if b = c then some 0 else none

/-- the C string that starts at `buf + off`: the bytes before the first NUL.  Scanning for the
NUL must not leave the allocation. -/
def cstrAt (buf : Bytes) (off : Nat) (site : String) : Outcome Bytes :=
  match idxOfByte 0 (buf.drop off) with
  | some n => .ok ((buf.drop off).take n)
  | none => .fault ("no NUL before the end of the allocation: " ++ site)

/-- `strstr` on lists: offset of the first occurrence of `needle` -/
def findSub (needle : Bytes) : Bytes → Option Nat
  | [] => if needle.isEmpty then some 0 else none
  | h :: t => if needle.isPrefixOf (h :: t) then some 0 else (findSub needle t).map (· + 1)

/-! ### static void string_replace_all_occurrences_with_char(char *s, const char *occur, char repl_char) -/

/-- the `while ((p = strstr(p, occur)))` loop; `s` and `p` are offsets into `buf`.
`fuel` bounds the iterations (every iteration advances `p`). -/
def replaceLoop (occ : Bytes) (repl : UInt8) (s skip : Nat) : Nat → Bytes → Nat → Nat → Outcome Bytes
  | 0, _, _, _ => .fault "string_replace_all_occurrences_with_char: iteration bound exceeded"
  | fuel + 1, buf, slen, p => do
    let str ← cstrAt buf p "strstr(p, occur)"
    match findSub occ str with
    | none => .ok buf
    | some i =>
      let q := p + i                                   -- p = strstr(p, occur)
      let buf ← wr buf q repl "*p = repl_char"
      let p := q + 1                                   -- p++
      if slen < skip then .fault "string_replace_all_occurrences_with_char: slen -= skip wraps"
      else
        let slen := slen - skip
        if p < s ∨ slen < p - s then .fault "string_replace_all_occurrences_with_char: memmove length wraps"
        else
          let n := slen - (p - s) + 1                  -- includes the NUL
          if p + skip + n > buf.length then .fault "string_replace_all_occurrences_with_char: memmove reads outside the allocation"
          else
            let buf := buf.take p ++ (buf.drop (p + skip)).take n ++ buf.drop (p + n)
            replaceLoop occ repl s skip fuel buf slen p

def replaceC (buf : Bytes) (s : Nat) (occ : Bytes) (repl : UInt8) : Outcome Bytes := do
  let str ← cstrAt buf s "strlen(s)"
  let slen := str.length
  if occ.length = 0 then .fault "string_replace_all_occurrences_with_char: strlen(occur) - 1 wraps"
  else replaceLoop occ repl s (occ.length - 1) (slen + 1) buf slen s

/-- the sequence of replace calls a function makes on one token (read off the source:
`Generated.ptrGetUnescape`, `Generated.ptrSetUnescape`) -/
def unescapeC : List (Bytes × UInt8) → Bytes → Nat → Outcome Bytes
  | [], buf, _ => .ok buf
  | (occ, r) :: rest, buf, s => do
    let b ← replaceC buf s occ r
    unescapeC rest b s

/-! ### static int is_valid_index(const char *path, size_t *idx) -/

def isPlainDigit (c : UInt8) : Bool := 48 ≤ c && c ≤ 57

/-- value of a digit string -/
def decVal (ds : Bytes) : Nat := ds.foldl (fun a d => a * 10 + (d.toNat - 48)) 0

/-- `strtoull(path, NULL, 10)` on an all-digit string: the value, saturated at ULLONG_MAX
(then errno = ERANGE: second component) -/
def strtoullDigits (ds : Bytes) : Nat × Bool :=
  if decVal ds > ullongMax then (ullongMax, true) else (decVal ds, false)

/-- conversion `unsigned long long` → `size_t` -/
def toSizeT (v : Nat) : Nat := v % (sizeMax + 1)

/-- `none` = returns 0 with errno = EINVAL; `some (idx, erange)` = returns 1 with `*idx = idx`
(`erange`: strtoull left ERANGE in errno).  `tok` is the C string `path`. -/
def isValidIndex (tok : Bytes) : Option (Nat × Bool) :=
  if tok.length = 0 then none
  else if tok.length = 1 then
    match tok with
    | [c] => if isPlainDigit c then some (c.toNat - 48, false) else none
    | _ => none
  else if tok.head? = some 48 then none
  else if !tok.all isPlainDigit then none
  else
    let r := strtoullDigits tok
    some (toSizeT r.1, r.2)

/-! ### objects and arrays at value level (json_object_object_get_ex / _add, json_object_array_*) -/

/-- member lookup by key (`strcmp` equality): position and value of the member -/
def lookupIdx (key : Bytes) : List (Bytes × JVal) → Option (Nat × JVal)
  | [] => none
  | (k, v) :: rest => if k = key then some (0, v) else (lookupIdx key rest).map (fun p => (p.1 + 1, p.2))

/-- replace the value of an existing member where it stands -/
def replaceVal (key : Bytes) (v : JVal) : List (Bytes × JVal) → List (Bytes × JVal)
  | [] => []
  | (k, x) :: rest => if k = key then (k, v) :: rest else (k, x) :: replaceVal key v rest

mutual
  /-- number of `struct json_object`s in a tree (JSON null is the NULL pointer: no node) -/
  def liveNodes : JVal → Nat
    | .null => 0
    | .arr xs => 1 + liveNodesList xs
    | .obj kvs => 1 + liveNodesMembers kvs
    | _ => 1
  def liveNodesList : List JVal → Nat
    | [] => 0
    | x :: xs => liveNodes x + liveNodesList xs
  def liveNodesMembers : List (Bytes × JVal) → Nat
    | [] => 0
    | (_, v) :: kvs => liveNodes v + liveNodesMembers kvs
end

/-! ### positions -/

def child (t : JVal) (i : Nat) : Option JVal :=
  match t with
  | .arr xs => xs[i]?
  | .obj kvs => kvs[i]?.map (·.2)
  | _ => none

/-- the node at a position -/
def nodeAt : JVal → List Nat → Option JVal
  | t, [] => some t
  | t, i :: is =>
    match child t i with
    | some c => nodeAt c is
    | none => none

def setChild (t : JVal) (i : Nat) (c : JVal) : JVal :=
  match t with
  | .arr xs => .arr (xs.set i c)
  | .obj kvs => .obj (match kvs[i]? with | some (k, _) => kvs.set i (k, c) | none => kvs)
  | t => t

/-- the tree with the node at `pos` replaced (in C: that node is mutated in place) -/
def replaceAt : JVal → List Nat → JVal → JVal
  | _, [], n => n
  | t, i :: is, n =>
    match child t i with
    | some c => setChild t i (replaceAt c is n)
    | none => t

/-! ### results -/

/-- a field of the caller's `struct json_pointer_get_result` / `*res`: left as it was, or written -/
inductive Field (α : Type) where
  | unset
  | set (a : α)
  deriving Repr

/-- what a lookup leaves behind.  `pos`/`val`: the node found (meaningful when `rc = 0`).
`parent`: position of `res->parent` (`none` = NULL); `key`: `res->key_in_parent` (`none` = NULL);
`index`: `res->index_in_parent`. -/
structure GetRes where
  rc : Int
  errno : Errno := .none
  pos : List Nat := []
  val : JVal := .null
  parent : Field (Option (List Nat)) := .unset
  key : Field (Option Bytes) := .unset
  index : Field Nat := .unset
  deriving Repr

def GetRes.fail (e : Errno) : GetRes := { rc := -1, errno := e }

/-- one step of the walk -/
inductive Step where
  | fail (e : Errno)
  | found (i : Nat) (c : JVal)
  deriving Repr

/-! ### static int json_pointer_get_single_path(obj, char *path, &value, &idx) -/

/-- `path` is an offset into the working copy `buf`; returns the (possibly unescaped-in-place) copy -/
def getSinglePath (obj : JVal) (buf : Bytes) (path : Nat) : Outcome (Bytes × Step) :=
  match obj with
  | .arr xs => do
    let tok ← cstrAt buf path "is_valid_index: strlen(path)"
    match isValidIndex tok with
    | none => pure (buf, .fail .EINVAL)
    | some (idx, _) =>
      if idx ≥ xs.length then pure (buf, .fail .ENOENT)
      else
        match xs[idx]? with
        | some c => pure (buf, .found idx c)           -- may be JSON null: still found
        | none => .fault "json_object_array_get_idx beyond the length"
  | _ => do
    let buf ← unescapeC ptrGetUnescape buf path
    let key ← cstrAt buf path "json_object_object_get_ex(obj, path)"
    match obj with
    | .obj kvs =>
      match lookupIdx key kvs with
      | some (i, v) => pure (buf, .found i v)
      | none => pure (buf, .fail .ENOENT)
    | _ => pure (buf, .fail .ENOENT)                   -- NULL or a non-container

/-- truncation of `size_t idx` to the `index_in_parent` field -/
def toIndexField (idx : Nat) : Nat := idx % 2 ^ (8 * ptrIndexFieldBytes)

/-! ### static int json_pointer_result_get_recursive(obj, char *path, res) -/

/-- `off`: offset of `path` in the working copy; `pos`: position of `obj`. -/
def getRecursive : Nat → JVal → Bytes → Nat → List Nat → Outcome GetRes
  | 0, _, _, _, _ => .fault "json_pointer_result_get_recursive: recursion bound exceeded"
  | fuel + 1, obj, buf, off, pos => do
    let c ← rd buf off "path[0]"
    if c ≠ 47 then pure (GetRes.fail .EINVAL)
    else
      let path := off + 1
      let str ← cstrAt buf path "strchr(path, '/')"
      let endp := (idxOfByte 47 str).map (· + path)
      let buf ← (match endp with
        | some e => wr buf e 0 "*endp = '\\0'"
        | none => pure buf)
      let (buf, st) ← getSinglePath obj buf path
      match st with
      | .fail e => pure (GetRes.fail e)
      | .found i c =>
        match endp with
        | some e => do
          let buf ← wr buf e 47 "*endp = '/'"
          getRecursive fuel c buf e (pos ++ [i])
        | none =>
          match obj with
          | .arr _ =>
            pure { rc := 0, pos := pos ++ [i], val := c, parent := .set (some pos), index := .set (toIndexField i) }
          | _ => do
            let key ← cstrAt buf path "lh_table_lookup_entry(parent, path)"
            let stored := match obj with
              | .obj kvs => (lookupIdx key kvs).map (fun _ => key)
              | _ => none
            pure { rc := 0, pos := pos ++ [i], val := c, parent := .set (some pos), key := .set stored }

/-! ### int json_pointer_get_internal(obj, path, res) -/

def uint32Max : Nat := 4294967295

/-- the part of json_pointer_get_internal after the `!obj` test -/
def getInternalBody (obj : JVal) (p : Bytes) : Outcome GetRes := do
  let path := p ++ [0]
  let c ← rd path 0 "path[0]"
  if c = 0 then
    pure { rc := 0, pos := [], val := obj, parent := .set none, key := .set none,
           index := .set (uint32Max % 2 ^ (8 * ptrIndexFieldBytes)) }
  else do
    let s ← cstrAt path 0 "strdup(path)"
    let copy := s ++ [0]
    getRecursive copy.length obj copy 0 []

def getInternal (obj : JVal) (p : Bytes) : Outcome GetRes :=
  match obj with
  | .null => pure (GetRes.fail .EINVAL)                  -- !obj
  | _ => getInternalBody obj p

/-- what `json_pointer_get` / `json_pointer_getf` report: return code, errno, and `*res`
(`node = none`: `*res` not written) -/
structure Got where
  rc : Int
  errno : Errno := .none
  node : Option (List Nat × JVal) := none
  deriving Repr

/-- int json_pointer_get(obj, path, &res) -/
def get (obj : JVal) (p : Bytes) : Outcome Got := do
  let r ← getInternal obj p
  if r.rc ≠ 0 then pure { rc := r.rc, errno := r.errno }
  else pure { rc := 0, node := some (r.pos, r.val) }

/-- int json_pointer_getf(obj, &res, fmt, ...): `out` = the bytes vasprintf produced -/
def getfBody (obj : JVal) (out : Bytes) : Outcome Got := do
  let copy := out ++ [0]
  let c ← rd copy 0 "path_copy[0]"
  if c = 0 then pure { rc := 0, node := some ([], obj) }
  else do
    -- json_pointer_object_get_recursive
    let r ← getRecursive copy.length obj copy 0 []
    if r.rc ≠ 0 then pure { rc := r.rc, errno := r.errno }
    else pure { rc := 0, node := some (r.pos, r.val) }

def getf (obj : JVal) (out : Bytes) : Outcome Got :=
  match obj with
  | .null => pure { rc := -1, errno := .EINVAL }         -- !obj
  | _ => getfBody obj out

/-! ### set -/

/-- `tree`: the document afterwards; `owned`: the tree now owns `value`; `loc`: where `value` sits;
`freed`: nodes released by `json_object_put` during the call. `errno = .none`: not written. -/
structure SetRes where
  rc : Int
  errno : Errno := .none
  tree : JVal
  owned : Bool := false
  loc : Option (List Nat) := none
  freed : Nat := 0
  deriving Repr

def SetRes.fail (t : JVal) (e : Errno) : SetRes := { rc := -1, errno := e, tree := t }

/-- array_list_expand_internal(arr, n) as far as the value level sees it: more than
SIZE_MAX / sizeof(void *) slots are refused outright (errno untouched), otherwise `realloc` decides. -/
inductive Grow where
  | ok | refused | nomem

def grow (mem : Nat → Bool) (n : Nat) : Grow :=
  if n > sizeMax / sizeofPtr then .refused else if mem n then .ok else .nomem

/-- json_object_array_put_idx(parent, idx, value) → array_list_put_idx; `e0` = errno on entry.
Beyond the end the gap is filled with NULL (JSON null) elements. -/
def arrayPutIdx (mem : Nat → Bool) (xs : List JVal) (idx : Nat) (v : JVal) (e0 : Errno) :
    Errno ⊕ (List JVal × Nat) :=
  if idx > sizeMax - 1 then .inl e0
  else match grow mem (idx + 1) with
    | .refused => .inl e0
    | .nomem => .inl .ENOMEM
    | .ok =>
      match xs[idx]? with
      | some old => .inr (xs.set idx v, liveNodes old)
      | none => .inr (xs ++ List.replicate (idx - xs.length) .null ++ [v], 0)

/-- json_object_array_add(parent, value) -/
def arrayAdd (mem : Nat → Bool) (xs : List JVal) (v : JVal) (e0 : Errno) : Errno ⊕ List JVal :=
  if xs.length > sizeMax - 1 then .inl e0
  else match grow mem (xs.length + 1) with
    | .refused => .inl e0
    | .nomem => .inl .ENOMEM
    | .ok => .inr (xs ++ [v])

/-- json_object_object_add(parent, key, value): an existing member keeps its place and its old
value is released; a new member goes to the end.  Returns the members, the member's index, and the
number of nodes released. -/
def objectAdd (kvs : List (Bytes × JVal)) (key : Bytes) (v : JVal) : List (Bytes × JVal) × Nat × Nat :=
  match lookupIdx key kvs with
  | some (i, old) => (replaceVal key v kvs, i, liveNodes old)
  | none => (kvs ++ [(key, v)], kvs.length, 0)

/-- `path[0] == '-' && path[1] == '\0'` (the second byte is read only after the first matched) -/
def isDashC (buf : Bytes) (path : Nat) : Outcome Bool := do
  let c0 ← rd buf path "path[0]"
  if c0 = 45 then do
    let c1 ← rd buf (path + 1) "path[1]"
    pure (c1 == 0)
  else pure false

/-- static int json_pointer_set_single_path(parent, const char *path, value, array_set_cb, priv)
with `array_set_cb = json_object_array_put_idx_cb`.
`root`/`ppos`: the document and the position of `parent` in it; `buf`/`path`: the C string. -/
def setSinglePath (mem : Nat → Bool) (root : JVal) (ppos : List Nat) (parent : JVal)
    (buf : Bytes) (path : Nat) (v : JVal) : Outcome SetRes :=
  match parent with
  | .arr xs => do
    let dash ← isDashC buf path
    if dash then
      match arrayAdd mem xs v .none with
      | .inl e => pure (SetRes.fail root e)
      | .inr xs' => pure { rc := 0, tree := replaceAt root ppos (.arr xs'), owned := true,
                           loc := some (ppos ++ [xs.length]) }
    else do
      let tok ← cstrAt buf path "is_valid_index: strlen(path)"
      match isValidIndex tok with
      | none => pure (SetRes.fail root .EINVAL)
      | some (idx, erange) =>
        match arrayPutIdx mem xs idx v (if erange then .ERANGE else .none) with
        | .inl e => pure (SetRes.fail root e)
        | .inr (xs', freed) =>
          pure { rc := 0, tree := replaceAt root ppos (.arr xs'), owned := true,
                 loc := some (ppos ++ [idx]), freed := freed }
  | .obj kvs => do
    -- key = strdup(path)
    let tok ← cstrAt buf path "strdup(path)"
    let kbuf ← unescapeC ptrSetUnescape (tok ++ [0]) 0
    let key ← cstrAt kbuf 0 "json_object_object_add(parent, key, value)"
    let (kvs', i, freed) := objectAdd kvs key v
    pure { rc := 0, tree := replaceAt root ppos (.obj kvs'), owned := true, loc := some (ppos ++ [i]),
           freed := freed }
  | _ => pure (SetRes.fail root .ENOENT)

/-- int json_pointer_set_with_array_cb(&obj, path, value, json_object_array_put_idx_cb, NULL)
= json_pointer_set(&obj, path, value).  `t` = `*obj` (may be NULL = JSON null). -/
def set (mem : Nat → Bool) (t : JVal) (p : Bytes) (v : JVal) : Outcome SetRes := do
  let path := p ++ [0]
  let c0 ← rd path 0 "path[0]"
  if c0 = 0 then
    -- json_object_put(*obj); *obj = value;
    pure { rc := 0, tree := v, owned := true, loc := some [], freed := liveNodes t }
  else if c0 ≠ 47 then pure (SetRes.fail t .EINVAL)
  else do
    let str ← cstrAt path 0 "strrchr(path, '/')"
    match lastIdxOfByte 47 str with
    | none => .fault "strrchr(path, '/') returned NULL"
    | some endp =>
      if endp = 0 then setSinglePath mem t [] t path 1 v
      else do
        let copy ← wr (str ++ [0]) endp 0 "path_copy[endp - path] = '\\0'"
        let r ← getRecursive copy.length t copy 0 []
        if r.rc ≠ 0 then pure (SetRes.fail t r.errno)
        else setSinglePath mem t r.pos r.val path (endp + 1) v

/-- int json_pointer_setf(&obj, value, fmt, ...): `out` = the bytes vasprintf produced -/
def setf (mem : Nat → Bool) (t : JVal) (out : Bytes) (v : JVal) : Outcome SetRes := do
  let copy := out ++ [0]
  let c0 ← rd copy 0 "path_copy[0]"
  if c0 = 0 then
    pure { rc := 0, tree := v, owned := true, loc := some [], freed := liveNodes t }
  else if c0 ≠ 47 then pure (SetRes.fail t .EINVAL)
  else do
    let str ← cstrAt copy 0 "strrchr(path_copy, '/')"
    match lastIdxOfByte 47 str with
    | none => .fault "strrchr(path_copy, '/') returned NULL"
    | some endp =>
      if endp = 0 then setSinglePath mem t [] t copy (endp + 1) v
      else do
        let copy ← wr copy endp 0 "*endp = '\\0'"
        let r ← getRecursive copy.length t copy 0 []
        if r.rc ≠ 0 then pure (SetRes.fail t r.errno)
        else setSinglePath mem t r.pos r.val copy (endp + 1) v

end JsonC.Pointer
