/-
  Model of json_tokener.c: `json_tokener_parse_ex` as a byte-driven machine.

  `struct json_tokener` is mirrored field for field (`Tok`); the per-call locals that matter are a
  second record (`Loc`).  `disp` is one trip through `switch (state)` for the byte just peeked;
  `feed` follows the `goto redo_char` chains; `run` is the `while (PEEK_CHAR(c, tok))` loop with
  `ADVANCE_CHAR` and the "a consumed NUL ends the call" rule; `epilogue` is the code after `out:`.

  The tight loops of the C code (strings, comments, numbers, member names, whitespace) process
  several bytes per dispatch and append to `tok->pb` once per chunk; the machine processes one byte
  per dispatch and appends per byte.  That these agree at every call boundary is not assumed: the
  harness dumps the public tokener fields after every call and they must equal the machine's.

  Values are `JVal` trees; `JVal.null` stands for the C NULL pointer (JSON null *is* NULL in json-c).
  Allocation never fails here (property C08 models allocation failure); the locale switch around the
  loop is property C14.  libc enters through `Libc` : `strtoll`, `strtoull`, `strtod` on the saved
  number text.
-/
import JsonC.Model.Value
import JsonC.Libc.Dbl
import JsonC.Generated.Consts

namespace JsonC.Tokener
open JsonC

/-- enum json_tokener_state, in the order of json_tokener.h -/
inductive St where
  | eatws | start | finish | null | commentStart | comment | commentEol | commentEnd
  | string | stringEscape | escapeUnicode | needEscape | needU | boolean | number
  | array | arrayAdd | arraySep | objectFieldStart | objectField | objectFieldEnd
  | objectValue | objectValueAdd | objectSep | arrayAfterSep | objectFieldStartAfterSep | inf
  deriving Repr, DecidableEq, Inhabited

/-- numeric value of the enumerator (must agree with the regenerated `Generated.st*` constants;
`Props` proves it does) -/
def St.code : St → Nat
  | .eatws => 0 | .start => 1 | .finish => 2 | .null => 3 | .commentStart => 4 | .comment => 5
  | .commentEol => 6 | .commentEnd => 7 | .string => 8 | .stringEscape => 9 | .escapeUnicode => 10
  | .needEscape => 11 | .needU => 12 | .boolean => 13 | .number => 14 | .array => 15
  | .arrayAdd => 16 | .arraySep => 17 | .objectFieldStart => 18 | .objectField => 19
  | .objectFieldEnd => 20 | .objectValue => 21 | .objectValueAdd => 22 | .objectSep => 23
  | .arrayAfterSep => 24 | .objectFieldStartAfterSep => 25 | .inf => 26

/-- enum json_tokener_error -/
inductive Err where
  | success | continue_ | depth | eof | unexpected | null | boolean | number | array
  | keyName | keySep | valueSep | string | comment | utf8 | size | memory
  deriving Repr, DecidableEq, Inhabited

def Err.code : Err → Nat
  | .success => 0 | .continue_ => 1 | .depth => 2 | .eof => 3 | .unexpected => 4 | .null => 5
  | .boolean => 6 | .number => 7 | .array => 8 | .keyName => 9 | .keySep => 10 | .valueSep => 11
  | .string => 12 | .comment => 13 | .utf8 => 14 | .size => 15 | .memory => 16

/-- the error codes the state machine itself can raise (`goto out` with `tok->err = …`) -/
inductive PErr where
  | depth | unexpected | null | boolean | number | array | keyName | keySep | valueSep | string | comment | utf8
  deriving Repr, DecidableEq, Inhabited

def PErr.toErr : PErr → Err
  | .depth => .depth | .unexpected => .unexpected | .null => .null | .boolean => .boolean | .number => .number
  | .array => .array | .keyName => .keyName | .keySep => .keySep | .valueSep => .valueSep | .string => .string
  | .comment => .comment | .utf8 => .utf8

/-- struct json_tokener_srec (the `obj` member is unused by the C code) -/
structure Level where
  state : St
  saved : St
  current : JVal             -- NULL = JVal.null
  name : Option Bytes        -- obj_field_name
  deriving Repr, Inhabited

def freshLevel : Level := ⟨.eatws, .start, .null, none⟩

/-- struct json_tokener. `stack` holds levels depth, depth-1, …, 0 (head = `stack[depth]`);
`err` and `char_offset` are re-initialised by every call and live in `Final`. -/
structure Tok where
  stack : List Level
  maxDepth : Nat
  pb : Bytes
  stPos : Nat
  isDouble : Bool
  ucs : Nat
  hs : Nat
  quote : UInt8
  flags : Nat
  deriving Repr, Inhabited

/-- scanner flags of `case json_tokener_state_number` (C locals, re-derived at each entry; the model
forgets them (`none`) as soon as the number state is left, they are dead from there on) -/
structure NumLoc where
  isExp : Bool
  negOk : Bool
  posOk : Bool
  deriving Repr, DecidableEq

/-- per-call locals -/
structure Loc where
  num : Option NumLoc := none   -- none: `case number` not entered yet for the pending token in this call
  nBytes : Nat := 0             -- UTF-8 continuation bytes still expected (VALIDATE_UTF8)
  deriving Repr, DecidableEq
/- The third local that matters, `obj` (the completed child on its way to its parent), lives for
   exactly two `goto redo_char` trips: `case finish` sets it and pops, and the parent, which is always
   in `array_add` / `object_value_add` (it was put there when the child level was pushed), consumes it
   at once.  `dFinish` below performs both trips; a parent in any other state is reported as a fault
   (and proved unreachable), so `obj` never has to be carried. -/

inductive Act where
  | consume (t : Tok) (l : Loc)          -- byte used: ADVANCE_CHAR
  | redo (t : Tok) (l : Loc)             -- goto redo_char
  | err (e : PErr) (t : Tok) (l : Loc)   -- tok->err = e; goto out (byte not consumed)
  | done (t : Tok) (l : Loc)             -- state finish at depth 0: goto out (byte not consumed)
  | fault (why : String)                 -- the C code would index out of bounds / shift out of range
  deriving Repr

/-! ### flags and character classes -/

def Tok.strict (t : Tok) : Bool := t.flags &&& Generated.tokenerStrict ≠ 0
def Tok.allowTrailing (t : Tok) : Bool := t.flags &&& Generated.tokenerAllowTrailing ≠ 0
def Tok.validateUtf8 (t : Tok) : Bool := t.flags &&& Generated.tokenerValidateUtf8 ≠ 0

def isWs (c : UInt8) : Bool := c == 32 || c == 9 || c == 10 || c == 13
def isDigit (c : UInt8) : Bool := 48 ≤ c && c ≤ 57
def isHex (c : UInt8) : Bool := (48 ≤ c && c ≤ 57) || (65 ≤ c && c ≤ 70) || (97 ≤ c && c ≤ 102)
/-- jt_hexdigit -/
def hexDigitVal (c : UInt8) : Nat := if c ≤ 57 then c.toNat - 48 else (c.toNat &&& 7) + 9
def toLowerB (c : UInt8) : UInt8 := if 65 ≤ c && c ≤ 90 then c + 32 else c

def infStr : Bytes := [73, 110, 102, 105, 110, 105, 116, 121]   -- "Infinity"
def infStrInvert : Bytes := [105, 78, 70, 73, 78, 73, 84, 89]   -- "iNFINITY"
def nullStr : Bytes := [110, 117, 108, 108]   -- "null"
def nanStr : Bytes := [78, 97, 78]   -- "NaN"
def trueStr : Bytes := [116, 114, 117, 101]   -- "true"
def falseStr : Bytes := [102, 97, 108, 115, 101]   -- "false"
def replacement : Bytes := [0xEF, 0xBF, 0xBD]

/-- `strncmp(kw, buf, n) == 0` resp. `strncasecmp` where `buf` is the NUL-terminated printbuf
contents `pb ++ [0]` and `kw` a keyword without NUL. -/
def kwPrefix (ci : Bool) (kw pb : Bytes) : Nat → Bool
  | 0 => true
  | n + 1 =>
    match kw, pb with
    | [], [] => true                              -- both at their NUL
    | [], _ :: _ => false
    | _ :: _, [] => false                         -- buf ended (its NUL) before kw
    | k :: ks, b :: bs =>
      if b == 0 then false                        -- NUL inside buf ≠ keyword char
      else if (if ci then toLowerB k == toLowerB b else k == b) then kwPrefix ci ks bs n else false

/-- keyword test of the null / boolean states: case-insensitive unless STRICT -/
def kwMatch (strict : Bool) (kw pb : Bytes) (n : Nat) : Bool :=
  (!strict && kwPrefix true kw pb n) || kwPrefix false kw pb n

/-! ### values -/

def nanBits : UInt64 := 0x7FF8000000000000
def posInfBits : UInt64 := 0x7FF0000000000000
def negInfBits : UInt64 := 0xFFF0000000000000

/-- json_object_object_add on a fresh or existing key: existing key keeps its position -/
def addOrReplace (kvs : List (Bytes × JVal)) (k : Bytes) (v : JVal) : List (Bytes × JVal) :=
  if kvs.any (·.1 == k) then kvs.map (fun kv => if kv.1 == k then (k, v) else kv) else kvs ++ [(k, v)]

/-- strdup(): a C string ends at its first NUL -/
def cstr (b : Bytes) : Bytes := b.takeWhile (· != 0)

/-- UTF-8 encoding as the escape_unicode state emits it -/
def utf8Of (u : Nat) : Bytes := utf8Encode u

/-- IS_HIGH_SURROGATE(uc) = ((uc & 0xFFFFFC00) == 0xD800) on the 32-bit `ucs_char`: the mask clears the
low ten bits, i.e. the test is `uc / 1024 * 1024 == 0xD800` (written arithmetically so that `omega`
can reason about it; the harness exercises all 65536 units and the pair grid against the C macro) -/
def isHighSurrogate (u : Nat) : Bool := u / 1024 * 1024 == 0xD800
def isLowSurrogate (u : Nat) : Bool := u / 1024 * 1024 == 0xDC00
def decodePair (hi lo : Nat) : Nat := ((hi &&& 0x3FF) <<< 10) + (lo &&& 0x3FF) + 0x10000

/-! ### libc on the saved number text -/

structure Libc where
  /-- json_parse_int64: (return code ≠ 0 ⇒ none) value and whether errno == ERANGE -/
  parseInt64 : Bytes → Option (Int × Bool)
  /-- json_parse_uint64 -/
  parseUint64 : Bytes → Option (Int × Bool)
  /-- strtod: bits and number of bytes consumed -/
  strtod : Bytes → UInt64 × Nat

def digitsVal (ds : Bytes) : Nat := ds.foldl (fun a c => a * 10 + (c.toNat - 48)) 0

def isSpaceC (c : UInt8) : Bool := c == 32 || (9 ≤ c && c ≤ 13)

/-- reference json_parse_int64 = strtoll(buf, &end, 10) with the wrapper's error rule -/
def refParseInt64 (buf : Bytes) : Option (Int × Bool) :=
  let s := buf.dropWhile isSpaceC
  let (neg, s) := match s with
    | 45 :: r => (true, r)
    | 43 :: r => (false, r)
    | r => (false, r)
  let ds := s.takeWhile isDigit
  if ds.isEmpty then none
  else
    let v : Int := if neg then -(digitsVal ds : Int) else digitsVal ds
    if v > INT64_MAX then some (INT64_MAX, true)
    else if v < INT64_MIN then some (INT64_MIN, true)
    else some (v, false)

/-- reference json_parse_uint64: skips spaces, refuses a leading '-', then strtoull -/
def refParseUint64 (buf : Bytes) : Option (Int × Bool) :=
  let b := buf.dropWhile (· == 32)
  match b with
  | 45 :: _ => none
  | _ =>
    let s := b.dropWhile isSpaceC
    let (neg, s) := match s with
      | 45 :: r => (true, r)
      | 43 :: r => (false, r)
      | r => (false, r)
    let ds := s.takeWhile isDigit
    if ds.isEmpty then none
    else
      let m := digitsVal ds
      if (m : Int) > UINT64_MAX then some (UINT64_MAX, true)
      else if neg then some ((if m = 0 then 0 else UINT64_MAX + 1 - m), false)   -- strtoull negates modulo 2^64
      else some (m, false)

def refLibc : Libc := ⟨refParseInt64, refParseUint64, Dbl.strtod⟩

/-! ### one dispatch per state -/

section disp
variable (lc : Libc)

def setTop (t : Tok) (top : Level) (rest : List Level) : Tok := { t with stack := top :: rest }

/-- value complete: `saved_state = finish; state = eatws` with `current = v` -/
def finishWith (t : Tok) (top : Level) (rest : List Level) (v : JVal) : Tok :=
  setTop t { top with state := .eatws, saved := .finish, current := v } rest

def dEatws (t : Tok) (l : Loc) (top : Level) (rest : List Level) (c : UInt8) : Act :=
  if isWs c then .consume t l
  else if c == 47 && !t.strict then
    .consume { setTop t { top with state := .commentStart } rest with pb := [47] } l
  else .redo (setTop t { top with state := top.saved } rest) l

def dStart (t : Tok) (l : Loc) (top : Level) (rest : List Level) (c : UInt8) : Act :=
  if c == 123 then .consume (setTop t { top with state := .eatws, saved := .objectFieldStart, current := .obj [] } rest) l
  else if c == 91 then .consume (setTop t { top with state := .eatws, saved := .array, current := .arr [] } rest) l
  else if c == 73 || c == 105 then
    .redo { setTop t { top with state := .inf } rest with pb := [], stPos := 0 } l
  else if c == 78 || c == 110 then
    .redo { setTop t { top with state := .null } rest with pb := [], stPos := 0 } l
  else if c == 39 && t.strict then .err .unexpected t l
  else if c == 34 || c == 39 then
    .consume { setTop t { top with state := .string } rest with pb := [], quote := c } l
  else if c == 84 || c == 116 || c == 70 || c == 102 then
    .redo { setTop t { top with state := .boolean } rest with pb := [], stPos := 0 } l
  else if isDigit c || c == 45 then
    .redo { setTop t { top with state := .number } rest with pb := [], isDouble := false } { l with num := none }
  else .err .unexpected t l

/-- `case finish` at depth > 0 (obj = current; reset level; depth--; redo) followed by the parent's
`case array_add` / `case object_value_add` (attach obj; state = eatws; redo) -/
def dFinish (t : Tok) (l : Loc) (top : Level) (rest : List Level) : Act :=
  match rest with
  | [] => .done t l
  | parent :: rest' =>
    match parent.state with
    | .arrayAdd =>
      match parent.current with
      | .arr xs =>
        .redo { t with stack := { parent with state := .eatws, saved := .arraySep, current := .arr (xs ++ [top.current]) } :: rest' } l
      | _ => .fault "array_add: current is not an array"
    | .objectValueAdd =>
      match parent.current, parent.name with
      | .obj kvs, some k =>
        .redo { t with stack := { parent with state := .eatws, saved := .objectSep,
                                              current := .obj (addOrReplace kvs k top.current), name := none } :: rest' } l
      | _, _ => .fault "object_value_add: current is not an object or no field name"
    | _ => .fault "finish: the parent level is not waiting for a child"

def dInf (t : Tok) (l : Loc) (top : Level) (rest : List Level) (c : UInt8) : Act :=
  if t.stPos < infStr.length then
    if infStr[t.stPos]? != some c && (t.strict || infStrInvert[t.stPos]? != some c) then .err .unexpected t l
    else .consume { t with stPos := t.stPos + 1 } l
  else
    let neg := t.pb.head? == some 45
    .redo (finishWith t top rest (.dbl (if neg then negInfBits else posInfBits) none)) l

def dNull (t : Tok) (l : Loc) (top : Level) (rest : List Level) (c : UInt8) : Act :=
  let pb := t.pb ++ [c]
  let t := { t with pb := pb }
  if kwMatch t.strict nullStr pb (min (t.stPos + 1) nullStr.length) then
    if t.stPos == nullStr.length then .redo (finishWith t top rest .null) l
    else .consume { t with stPos := t.stPos + 1 } l
  else if kwMatch t.strict nanStr pb (min (t.stPos + 1) nanStr.length) then
    if t.stPos == nanStr.length then .redo (finishWith t top rest (.dbl nanBits none)) l
    else .consume { t with stPos := t.stPos + 1 } l
  else .err .null t l

def dBoolean (t : Tok) (l : Loc) (top : Level) (rest : List Level) (c : UInt8) : Act :=
  let pb := t.pb ++ [c]
  let t := { t with pb := pb }
  if kwMatch t.strict trueStr pb (min (t.stPos + 1) trueStr.length) then
    if t.stPos == trueStr.length then .redo (finishWith t top rest (.bool true)) l
    else .consume { t with stPos := t.stPos + 1 } l
  else if kwMatch t.strict falseStr pb (min (t.stPos + 1) falseStr.length) then
    if t.stPos == falseStr.length then .redo (finishWith t top rest (.bool false)) l
    else .consume { t with stPos := t.stPos + 1 } l
  else .err .boolean t l

def dCommentStart (t : Tok) (l : Loc) (top : Level) (rest : List Level) (c : UInt8) : Act :=
  if c == 42 then .consume { setTop t { top with state := .comment } rest with pb := t.pb ++ [c] } l
  else if c == 47 then .consume { setTop t { top with state := .commentEol } rest with pb := t.pb ++ [c] } l
  else .err .comment t l

def dComment (t : Tok) (l : Loc) (top : Level) (rest : List Level) (c : UInt8) : Act :=
  if c == 42 then .consume { setTop t { top with state := .commentEnd } rest with pb := t.pb ++ [c] } l
  else .consume { t with pb := t.pb ++ [c] } l

def dCommentEol (t : Tok) (l : Loc) (top : Level) (rest : List Level) (c : UInt8) : Act :=
  if c == 10 then .consume (setTop t { top with state := .eatws } rest) l
  else .consume { t with pb := t.pb ++ [c] } l

def dCommentEnd (t : Tok) (l : Loc) (top : Level) (rest : List Level) (c : UInt8) : Act :=
  let t := { t with pb := t.pb ++ [c] }
  if c == 47 then .consume (setTop t { top with state := .eatws } rest) l
  else if c == 42 then .consume t l          -- another '*': still waiting for the '/'
  else .consume (setTop t { top with state := .comment } rest) l

def dString (t : Tok) (l : Loc) (top : Level) (rest : List Level) (c : UInt8) : Act :=
  if c == t.quote then .consume (finishWith t top rest (.str t.pb)) l
  else if c == 92 then .consume (setTop t { top with state := .stringEscape, saved := .string } rest) l
  else if t.strict && c ≤ 0x1f then .err .string t l
  else .consume { t with pb := t.pb ++ [c] } l

def dObjectField (t : Tok) (l : Loc) (top : Level) (rest : List Level) (c : UInt8) : Act :=
  if c == t.quote then
    .consume (setTop t { top with state := .eatws, saved := .objectFieldEnd, name := some (cstr t.pb) } rest) l
  else if c == 92 then .consume (setTop t { top with state := .stringEscape, saved := .objectField } rest) l
  else if t.strict && c ≤ 0x1f then .err .string t l
  else .consume { t with pb := t.pb ++ [c] } l

def dStringEscape (t : Tok) (l : Loc) (top : Level) (rest : List Level) (c : UInt8) : Act :=
  let back (b : UInt8) : Act := .consume { setTop t { top with state := top.saved } rest with pb := t.pb ++ [b] } l
  if c == 34 || c == 92 || c == 47 then back c
  else if c == 98 then back 8
  else if c == 110 then back 10
  else if c == 114 then back 13
  else if c == 116 then back 9
  else if c == 102 then back 12
  else if c == 117 then
    .consume { setTop t { top with state := .escapeUnicode } rest with ucs := 0, stPos := 0 } l
  else .err .string t l

/-- the UTF-8 ladder for the (possibly pair-combined) unit `u`, with `pb` already holding the
replacement for an unpaired pending high surrogate -/
def emitUnit (t : Tok) (l : Loc) (top : Level) (rest : List Level) (u : Nat) (pb : Bytes) : Act :=
  let back (bs : Bytes) : Act :=
    .consume { setTop t { top with state := top.saved } rest with hs := 0, pb := pb ++ bs, stPos := 0, ucs := u } l
  if u < 0x80 then back (utf8Of u)
  else if u < 0x800 then back (utf8Of u)
  else if isHighSurrogate u then
    .consume { setTop t { top with state := .needEscape } rest with hs := u, ucs := 0, pb := pb, stPos := 0 } l
  else if isLowSurrogate u then back replacement
  else if u < 0x10000 then back (utf8Of u)
  else if u < 0x110000 then back (utf8Of u)
  else back replacement

/-- a complete \uNNNN unit `u` has been read (the code after the 4-digit loop) -/
def unicodeUnit (t : Tok) (l : Loc) (top : Level) (rest : List Level) (u : Nat) : Act :=
  -- If the *previous* sequence was a high surrogate ...
  if t.hs != 0 then
    if isLowSurrogate u then emitUnit t l top rest (decodePair t.hs u) t.pb
    else emitUnit t l top rest u (t.pb ++ replacement)
  else emitUnit t l top rest u t.pb

def dEscapeUnicode (t : Tok) (l : Loc) (top : Level) (rest : List Level) (c : UInt8) : Act :=
  if c == 0 || !isHex c then .err .string t l
  else if t.stPos > 3 then .fault "escape_unicode: shift count (3 - st_pos) * 4 negative"
  else
    let u := t.ucs ||| (hexDigitVal c <<< ((3 - t.stPos) * 4))
    if t.stPos + 1 < 4 then .consume { t with ucs := u, stPos := t.stPos + 1 } l
    else unicodeUnit { t with ucs := u } l top rest u

def dNeedEscape (t : Tok) (l : Loc) (top : Level) (rest : List Level) (c : UInt8) : Act :=
  if c != 92 then
    .redo { setTop t { top with state := top.saved } rest with
            pb := t.pb ++ replacement, hs := 0, ucs := 0, stPos := 0 } l
  else .consume (setTop t { top with state := .needU } rest) l

def dNeedU (t : Tok) (l : Loc) (top : Level) (rest : List Level) (c : UInt8) : Act :=
  if c != 117 then
    .redo { setTop t { top with state := .stringEscape } rest with
            pb := t.pb ++ replacement, hs := 0, ucs := 0, stPos := 0 } l
  else .consume (setTop t { top with state := .escapeUnicode } rest) l

/-- the flags `case json_tokener_state_number` starts with, derived from the saved text -/
def deriveNum (pb : Bytes) : NumLoc :=
  match pb.getLast? with
  | none => ⟨false, true, false⟩
  | some last =>
    let sg := last == 101 || last == 69 || last == 46
    ⟨pb.any (fun b => b == 101 || b == 69), sg, sg⟩

/-- non-strict: trim trailing e E - + (keep at least one byte) -/
def trimNum : Bytes → Bytes
  | pb =>
    let rec go : List UInt8 → List UInt8      -- on the reversed text
      | [] => []
      | [b] => [b]
      | b :: r => if b == 101 || b == 69 || b == 45 || b == 43 then go r else b :: r
    (go pb.reverse).reverse

/-- `digits[1] >= '0' && digits[1] <= '9'` on the rest of the text (NUL-terminated: false at its end) -/
def startsWithDigit : Bytes → Bool
  | d :: _ => isDigit d
  | [] => false

/-- classification of the saved number text: the block after the scanning loop -/
def classifyNum (t : Tok) (pb : Bytes) : Except PErr JVal :=
  let digits := if pb.head? == some 45 then pb.drop 1 else pb
  if t.strict && digits.head? == some 48 && startsWithDigit (digits.drop 1) then
    .error .number
  else if !t.isDouble && pb.head? == some 45 then
    match lc.parseInt64 pb with
    | some (v, erange) => if erange && t.strict then .error .number else .ok (.int true v)
    | none => .error .number
  else if !t.isDouble then
    match lc.parseUint64 pb with
    | some (v, erange) =>
      if erange && t.strict then .error .number
      else if v != 0 && pb.head? == some 48 && t.strict then .error .number
      else if v ≤ INT64_MAX then .ok (.int true v) else .ok (.int false v)
    | none => .error .number
  else
    let (bits, used) := lc.strtod pb
    if used == pb.length then .ok (.dbl bits (some pb)) else .error .number

/-- scanner flags in force: the live locals, or (first dispatch of this call) re-derived from `pb` -/
def numFlags (t : Tok) (l : Loc) : NumLoc :=
  match l.num with
  | some n => n
  | none => deriveNum t.pb

/-- does the scanning loop accept `c`? -/
def numAccepts (t : Tok) (nl : NumLoc) (c : UInt8) : Bool :=
  c != 0 && (isDigit c || (!nl.isExp && (c == 101 || c == 69)) || (nl.negOk && c == 45) ||
    (nl.posOk && c == 43) || (!t.isDouble && c == 46))

/-- the flags after accepting `c` -/
def numNext (nl : NumLoc) (c : UInt8) : NumLoc :=
  if c == 46 then { nl with negOk := true, posOk := true }
  else if c == 101 || c == 69 then ⟨true, true, true⟩
  else { nl with negOk := false, posOk := false }

def numDouble (t : Tok) (c : UInt8) : Bool := t.isDouble || c == 46 || c == 101 || c == 69

def dNumberCore (t : Tok) (l : Loc) (top : Level) (rest : List Level) (c : UInt8) (nl : NumLoc) : Act :=
  if numAccepts t nl c then
    .consume { t with pb := t.pb ++ [c], isDouble := numDouble t c } { l with num := some (numNext nl c) }
  else if !rest.isEmpty && c != 44 && c != 93 && c != 125 && c != 47 && c != 73 && c != 105 && !isWs c then
    .err .number t { l with num := none }
  else if t.pb.head? == some 45 && t.pb.length == 1 && (c == 105 || c == 73) then
    .redo { setTop t { top with state := .inf } rest with stPos := 0 } { l with num := none }
  else
    let pb := if t.isDouble && !t.strict then trimNum t.pb else t.pb
    let t := { t with pb := pb }
    match classifyNum lc t pb with
    | .ok v => .redo (finishWith t top rest v) { l with num := none }
    | .error e => .err e t { l with num := none }

def dNumber (t : Tok) (l : Loc) (top : Level) (rest : List Level) (c : UInt8) : Act :=
  dNumberCore lc t l top rest c (numFlags t l)

def pushLevel (t : Tok) (l : Loc) (top : Level) (rest : List Level) (st : St) : Act :=
  -- tok->depth >= tok->max_depth - 1   (int arithmetic; depth = rest.length)
  if (rest.length : Int) ≥ (t.maxDepth : Int) - 1 then .err .depth t l
  else if rest.length + 1 ≥ t.maxDepth then .fault "stack[depth+1] outside the level array"
  else .redo { t with stack := freshLevel :: { top with state := st } :: rest } l

def dArray (t : Tok) (l : Loc) (top : Level) (rest : List Level) (c : UInt8) (afterSep : Bool) : Act :=
  if c == 93 then
    if afterSep && t.strict then .err .unexpected t l
    else .consume (setTop t { top with state := .eatws, saved := .finish } rest) l
  else pushLevel t l top rest .arrayAdd

def dArraySep (t : Tok) (l : Loc) (top : Level) (rest : List Level) (c : UInt8) : Act :=
  if c == 93 then .consume (setTop t { top with state := .eatws, saved := .finish } rest) l
  else if c == 44 then .consume (setTop t { top with state := .eatws, saved := .arrayAfterSep } rest) l
  else .err .array t l

def dObjectFieldStart (t : Tok) (l : Loc) (top : Level) (rest : List Level) (c : UInt8) (afterSep : Bool) : Act :=
  if c == 125 then
    if afterSep && t.strict then .err .unexpected t l
    else .consume (setTop t { top with state := .eatws, saved := .finish } rest) l
  else if c == 34 || (c == 39 && !t.strict) then
    .consume { setTop t { top with state := .objectField } rest with quote := c, pb := [] } l
  else .err .keyName t l

def dObjectFieldEnd (t : Tok) (l : Loc) (top : Level) (rest : List Level) (c : UInt8) : Act :=
  if c == 58 then .consume (setTop t { top with state := .eatws, saved := .objectValue } rest) l
  else .err .keySep t l

def dObjectSep (t : Tok) (l : Loc) (top : Level) (rest : List Level) (c : UInt8) : Act :=
  if c == 125 then .consume (setTop t { top with state := .eatws, saved := .finish } rest) l
  else if c == 44 then .consume (setTop t { top with state := .eatws, saved := .objectFieldStartAfterSep } rest) l
  else .err .valueSep t l

/-- one trip through `switch (state)` with the peeked byte `c` -/
def disp (t : Tok) (l : Loc) (c : UInt8) : Act :=
  match t.stack with
  | [] => .fault "empty level stack"
  | top :: rest =>
    match top.state with
    | .eatws => dEatws t l top rest c
    | .start => dStart t l top rest c
    | .finish => dFinish t l top rest
    | .null => dNull t l top rest c
    | .commentStart => dCommentStart t l top rest c
    | .comment => dComment t l top rest c
    | .commentEol => dCommentEol t l top rest c
    | .commentEnd => dCommentEnd t l top rest c
    | .string => dString t l top rest c
    | .stringEscape => dStringEscape t l top rest c
    | .escapeUnicode => dEscapeUnicode t l top rest c
    | .needEscape => dNeedEscape t l top rest c
    | .needU => dNeedU t l top rest c
    | .boolean => dBoolean t l top rest c
    | .number => dNumber lc t l top rest c
    | .array => dArray t l top rest c false
    | .arrayAfterSep => dArray t l top rest c true
    | .arrayAdd => .fault "array_add on top of the stack without a completed child"
    | .arraySep => dArraySep t l top rest c
    | .objectFieldStart => dObjectFieldStart t l top rest c false
    | .objectFieldStartAfterSep => dObjectFieldStart t l top rest c true
    | .objectField => dObjectField t l top rest c
    | .objectFieldEnd => dObjectFieldEnd t l top rest c
    | .objectValue => pushLevel t l top rest .objectValueAdd
    | .objectValueAdd => .fault "object_value_add on top of the stack without a completed child"
    | .objectSep => dObjectSep t l top rest c
    | .inf => dInf t l top rest c

/-- follow `goto redo_char` (fuel; `Props` proves 16 is never exhausted) -/
def feedN : Nat → Tok → Loc → UInt8 → Act
  | 0, t, l, _ => .redo t l
  | n + 1, t, l, c =>
    match disp lc t l c with
    | .redo t' l' => feedN n t' l' c
    | a => a

def fuel : Nat := 16

def feed (t : Tok) (l : Loc) (c : UInt8) : Act := feedN lc fuel t l c

end disp

/-! ### the call: loop and epilogue -/

/-- json_tokener_validate_utf8 -/
def validateUtf8 (c : UInt8) (nBytes : Nat) : Option Nat :=
  if nBytes == 0 then
    if c ≥ 0x80 then
      if c &&& 0xE0 == 0xC0 then some 1
      else if c &&& 0xF0 == 0xE0 then some 2
      else if c &&& 0xF8 == 0xF0 then some 3
      else none
    else some 0
  else if c &&& 0xC0 != 0x80 then none
  else some (nBytes - 1)

/-- how the loop ended -/
inductive Stop where
  | endOfChunk          -- PEEK_CHAR at char_offset == len
  | err (e : PErr)      -- goto out with tok->err set
  | done                -- finish at depth 0
  | nul                 -- a NUL byte was consumed (`if (!c) break;` and the tight loops)
  | stuck               -- out of redo fuel (proved impossible)
  | fault (why : String)
  deriving Repr, DecidableEq

structure LoopEnd where
  tok : Tok
  loc : Loc
  c : UInt8             -- the C local `c`: last byte peeked ('\1' if none)
  offset : Nat          -- tok->char_offset
  stop : Stop
  deriving Repr

/-- PEEK_CHAR on an available byte: the UTF-8 validation step (none = invalid) -/
def peek (t : Tok) (l : Loc) (b : UInt8) : Option Loc :=
  if t.validateUtf8 then (validateUtf8 b l.nBytes).map (fun nb => { l with nBytes := nb }) else some l

def run (lc : Libc) (t : Tok) (l : Loc) (c : UInt8) (off : Nat) : Bytes → LoopEnd
  | [] => ⟨t, l, c, off, .endOfChunk⟩
  | b :: bs =>
    match peek t l b with
    | none => ⟨t, l, c, off, .err .utf8⟩
    | some l1 =>
      match feed lc t l1 b with
      | .consume t' l' => if b == 0 then ⟨t', l', b, off + 1, .nul⟩ else run lc t' l' b (off + 1) bs
      | .err e t' l' => ⟨t', l', b, off, .err e⟩
      | .done t' l' => ⟨t', l', b, off, .done⟩
      | .redo t' l' => ⟨t', l', b, off, .stuck⟩
      | .fault w => ⟨t, l1, b, off, .fault w⟩

/-- result of one json_tokener_parse_ex call -/
structure Final where
  err : Err
  value : Option JVal       -- some v: returned object (JVal.null = NULL with err = success)
  offset : Nat
  tok : Tok
  stuck : Bool := false
  fault : Option String := none
  deriving Repr

def topState (t : Tok) : St × St := match t.stack with | top :: _ => (top.state, top.saved) | [] => (.eatws, .start)
def topCurrent (t : Tok) : JVal := match t.stack with | top :: _ => top.current | [] => .null

/-- tok->err as the loop leaves it -/
def loopErr (e : LoopEnd) : Err :=
  match e.stop with
  | .endOfChunk =>
    if e.tok.stack.length == 1 && (topState e.tok).1 == .eatws && (topState e.tok).2 == .finish then .success
    else .continue_
  | .err x => x.toErr
  | _ => .success           -- tok->err still holds the value the call started with

/-- tok->err after the code at `out:` (the three overrides, last one wins) -/
def finalErr (e : LoopEnd) : Err :=
  let t := e.tok
  let st := (topState t).1
  let sv := (topState t).2
  if e.c == 0 && (t.stack.length > 1 || (st != .finish && sv != .finish)) then .eof
  else if e.c != 0 && st == .finish && t.stack.length == 1 && t.strict && !t.allowTrailing then .unexpected
  else if t.validateUtf8 && e.loc.nBytes != 0 then .utf8
  else loopErr e

def epilogue (e : LoopEnd) : Final :=
  let stuck := match e.stop with | .stuck => true | _ => false
  let fault := match e.stop with | .fault w => some w | _ => none
  if finalErr e == .success then
    -- return current; reset levels depth … 0 (depth is 0 on every success path)
    ⟨.success, some (topCurrent e.tok), e.offset, { e.tok with stack := [freshLevel] }, stuck, fault⟩
  else ⟨finalErr e, none, e.offset, e.tok, stuck, fault⟩

/-- json_tokener_parse_ex(tok, data, len = |data|) -/
def parseEx (lc : Libc) (t : Tok) (data : Bytes) : Final :=
  epilogue (run lc t {} 1 0 data)

/-- json_tokener_parse_ex(tok, str, -1): `str` is NUL-terminated; bytes after the first NUL are not part of the input -/
def parseExZ (lc : Libc) (t : Tok) (str : Bytes) : Final :=
  let f := parseEx lc t (cstr str ++ [0])
  -- running off the end of `cstr str ++ [0]` would be a read past the terminator
  match f.err with
  | .continue_ => { f with fault := some "len = -1: read past the terminating NUL" }
  | _ => f

/-- json_tokener_new_ex -/
def new (depth : Int) (flags : Nat := 0) : Option Tok :=
  if depth < 1 then none
  else some { stack := [freshLevel], maxDepth := depth.toNat, pb := [], stPos := 0, isDouble := false,
              ucs := 0, hs := 0, quote := 0, flags := flags }

/-- json_tokener_reset -/
def reset (t : Tok) : Tok := { t with stack := [freshLevel], hs := 0 }

def setFlags (t : Tok) (flags : Nat) : Tok := { t with flags := flags }

end JsonC.Tokener
