/-
  Allocation model (C08): the allocator calls of the json-c functions whose allocation order is
  simple and stable, transcribed from the C at the current HEAD.

  * The heap is abstract: a block is `(id, size)`, `id` = index of the allocator call that created
    it (1-based, counted over malloc / calloc / realloc / strdup), `size` = bytes requested.  The
    state is `Heap = (next, live, errno, log)`: calls made so far, live blocks in allocation order,
    errno class, and the request log (compared with the real allocator trace by the harness).
  * Which calls fail is a parameter, the oracle `g : Nat → Bool` (`g k` = the k-th call is granted):
    `failAt k` is the single fault of the property, `failAt2` the double fault; the theorems hold
    for every oracle.
  * `A α = Oracle → Heap → Outcome (α × Heap)`: `Outcome.fault` = the code would free a block that is
    not live (double free / wild pointer), overflow a C integer, or has a shape this transcription
    does not cover (a structural fact of `Generated/Structure.lean`, st_alloc.py, is false).
  * Objects are described by the blocks they own plus the fields that decide later allocations
    (capacities, counts, string lengths, keys).  Reference counts are 1 everywhere (trees, no sharing)
    and `_pb` is NULL (never serialised): the harness builds exactly such trees.
-/
import JsonC.Base.Basic
import JsonC.Generated.Consts
import JsonC.Generated.Structure
import JsonC.Model.Printbuf
import JsonC.Model.Arraylist
import JsonC.Model.Linkhash

namespace JsonC.Alloc
open JsonC Generated

/-! ### heap, oracle, monad -/

structure Blk where
  id : Nat
  size : Nat
  deriving Repr, DecidableEq

/-- one allocator call, as logged (`got = none`: the call failed) -/
inductive Ev where
  | malloc (size : Nat) (got : Option Nat)
  | calloc (size : Nat) (got : Option Nat)
  | strdup (size : Nat) (got : Option Nat)
  | realloc (old : Blk) (size : Nat) (got : Option Nat)
  | free (b : Blk)
  deriving Repr, DecidableEq

structure Heap where
  next : Nat := 0
  live : List Blk := []
  errno : Errno := .none
  log : List Ev := []
  deriving Repr

/-- `g k` : the k-th allocator call (1-based) is granted -/
abbrev Oracle := Nat → Bool

def grantAll : Oracle := fun _ => true
/-- the property's fault: exactly the k-th call fails (`k = 0`: none) -/
def failAt (k : Nat) : Oracle := fun i => i != k
def failAt2 (k1 k2 : Nat) : Oracle := fun i => i != k1 && i != k2

def A (α : Type) : Type := Oracle → Heap → Outcome (α × Heap)

instance : Monad A where
  pure a := fun _ h => .ok (a, h)
  bind x f := fun g h =>
    match x g h with
    | .ok (a, h') => f a g h'
    | .fault w => .fault w

def fault {α : Type} (w : String) : A α := fun _ _ => .fault w

def allocCall (mk : Nat → Option Nat → Ev) (size : Nat) : A (Option Blk) := fun g h =>
  let k := h.next + 1
  if g k then
    .ok (some ⟨k, size⟩, { h with next := k, live := h.live ++ [⟨k, size⟩], log := h.log ++ [mk size (some k)] })
  else
    .ok (none, { h with next := k, errno := .ENOMEM, log := h.log ++ [mk size none] })

def malloc (size : Nat) : A (Option Blk) := allocCall Ev.malloc size
def calloc (n sz : Nat) : A (Option Blk) := allocCall Ev.calloc (n * sz)
/-- strdup of a C string of `len` characters -/
def strdup (len : Nat) : A (Option Blk) := allocCall Ev.strdup (len + 1)

def free (b : Blk) (site : String) : A Unit := fun _ h =>
  if b ∈ h.live then .ok ((), { h with live := h.live.filter (· != b), log := h.log ++ [.free b] })
  else .fault ("free of a block that is not live (double free / wild pointer): " ++ site)

/-- realloc(b, size): on failure the old block stays; on success it is replaced by a new one -/
def realloc (b : Blk) (size : Nat) (site : String) : A (Option Blk) := fun g h =>
  if b ∈ h.live then
    let k := h.next + 1
    if g k then
      .ok (some ⟨k, size⟩, { h with next := k, live := h.live.filter (· != b) ++ [⟨k, size⟩],
                                     log := h.log ++ [.realloc b size (some k)] })
    else
      .ok (none, { h with next := k, errno := .ENOMEM, log := h.log ++ [.realloc b size none] })
  else .fault ("realloc of a block that is not live: " ++ site)

def setErrno (e : Errno) : A Unit := fun _ h => .ok ((), { h with errno := e })

def liftO {α : Type} (o : Outcome α) : A α := fun _ h =>
  match o with
  | .ok a => .ok (a, h)
  | .fault w => .fault w

def INT_MAX : Int := (intMax : Int)
def SIZE_T_MAX : Nat := sizeMax
def PTR : Nat := sizeofPtr

/-! ### printbuf.c -/

structure PbA where
  self : Blk
  buf : Blk
  size : Nat
  bpos : Nat
  deriving Repr, DecidableEq

/-- struct printbuf *printbuf_new(void) -/
def pbNew : A (Option PbA) := do
  match ← calloc 1 sizeofPrintbuf with
  | none => pure none
  | some p =>
    match ← malloc pbInitSize with
    | none => do
      free p "printbuf_new: free(p)"
      pure none
    | some b => pure (some ⟨p, b, pbInitSize, 0⟩)

/-- void printbuf_free(struct printbuf *p) (p non-NULL) -/
def pbFree (p : PbA) : A Unit := do
  free p.buf "printbuf_free: free(p->buf)"
  free p.self "printbuf_free: free(p)"

/-- `new_size` of printbuf_extend (the two early returns excluded by the caller) -/
def pbNewSize (size : Nat) (minSize : Int) : Outcome Int :=
  if (size : Int) > INT_MAX / 2 then Printbuf.ckInt (minSize + pbExtendSlack) "extend: min_size + 8"
  else do
    let d ← Printbuf.ckInt ((size : Int) * 2) "extend: p->size * 2"
    let m ← Printbuf.ckInt (minSize + pbExtendSlack) "extend: min_size + 8"
    pure (if d < m then m else d)

/-- static int printbuf_extend(struct printbuf *p, int min_size) -/
def pbExtend (p : PbA) (minSize : Int) : A (PbA × Int) :=
  if (p.size : Int) ≥ minSize then pure (p, 0)
  else if minSize > INT_MAX - pbExtendGuard then do
    setErrno .EFBIG
    pure (p, -1)
  else if allocPbExtendChecksTemp = false then
    fault "printbuf_extend: realloc result is not checked before p->buf is assigned (shape not covered)"
  else do
    let n ← liftO (pbNewSize p.size minSize)
    if n ≤ 0 then fault "extend: realloc with non-positive size"
    else
      match ← realloc p.buf n.toNat "printbuf_extend: realloc(p->buf, new_size)" with
      | none => pure (p, -1)
      | some b => pure ({ p with buf := b, size := n.toNat }, 0)

/-- int printbuf_memappend(struct printbuf *p, const char *buf, int size), contents abstracted -/
def pbMemappend (p : PbA) (size : Int) : A (PbA × Int) :=
  if size < 0 ∨ size > INT_MAX - p.bpos - 1 then do
    setErrno .EFBIG
    pure (p, -1)
  else do
    let (q, rc) ← if (p.size : Int) ≤ p.bpos + size + 1 then pbExtend p (p.bpos + size + 1) else pure (p, 0)
    if rc < 0 then pure (q, -1)
    else pure ({ q with bpos := q.bpos + size.toNat }, size)

/-! ### arraylist.c -/

structure AlA where
  self : Blk
  array : Blk
  size : Nat
  length : Nat
  deriving Repr, DecidableEq

/-- struct array_list *array_list_new2(array_list_free_fn *free_fn, int initial_size) -/
def alNew2 (initialSize : Int) : A (Option AlA) :=
  if initialSize < 0 ∨ initialSize.toNat ≥ SIZE_T_MAX / PTR then pure none
  else do
    match ← malloc sizeofArrayList with
    | none => pure none
    | some a =>
      match ← malloc (initialSize.toNat * PTR) with
      | none => do
        free a "array_list_new2: free(arr)"
        pure none
      | some arr => pure (some ⟨a, arr, initialSize.toNat, 0⟩)

/-- void array_list_free(struct array_list *arr), after the free_fn calls -/
def alFree (a : AlA) : A Unit := do
  free a.array "array_list_free: free(arr->array)"
  free a.self "array_list_free: free(arr)"

/-- `new_size` of array_list_expand_internal (`max >= arr->size`) -/
def alNewSize (size max : Nat) : Outcome Nat :=
  if size ≥ SIZE_T_MAX / alHalfDiv then .ok max
  else do
    let d ← Arraylist.ckSize (size <<< alGrowShift) "expand_internal: arr->size << 1"
    pure (if d < max then max else d)

/-- static int array_list_expand_internal(struct array_list *arr, size_t max) -/
def alExpand (a : AlA) (max : Nat) : A (AlA × Int) :=
  if max < a.size then pure (a, 0)
  else do
    let newSize ← liftO (alNewSize a.size max)
    if newSize > SIZE_T_MAX / PTR then pure (a, -1)
    else if allocAlExpandChecksTemp = false then
      fault "array_list_expand_internal: realloc result is not checked before arr->array is assigned (shape not covered)"
    else do
      let bytes ← liftO (Arraylist.ckSize (newSize * PTR) "expand_internal: new_size * sizeof(void *)")
      match ← realloc a.array bytes "array_list_expand_internal: realloc(arr->array, ..)" with
      | none => pure (a, -1)
      | some b => pure ({ a with array := b, size := newSize }, 0)

/-- int array_list_shrink(struct array_list *arr, size_t empty_slots) -/
def alShrink (a : AlA) (emptySlots : Nat) : A (AlA × Int) := do
  let lim ← liftO (Arraylist.ckSub (SIZE_T_MAX / PTR) a.length "shrink: SIZE_T_MAX / sizeof(void *) - arr->length")
  if emptySlots ≥ lim then pure (a, -1)
  else do
    let newSize ← liftO (Arraylist.ckSize (a.length + emptySlots) "shrink: arr->length + empty_slots")
    if newSize = a.size then pure (a, 0)
    else if newSize > a.size then alExpand a newSize
    else if allocAlShrinkChecksTemp = false then
      fault "array_list_shrink: realloc result is not checked before arr->array is assigned (shape not covered)"
    else do
      let newSize := if newSize = 0 then alShrinkMin else newSize
      let bytes ← liftO (Arraylist.ckSize (newSize * PTR) "shrink: new_size * sizeof(void *)")
      match ← realloc a.array bytes "array_list_shrink: realloc(arr->array, ..)" with
      | none => pure (a, -1)
      | some b => pure ({ a with array := b, size := newSize }, 0)

/-- int array_list_add(struct array_list *arr, void *data) -/
def alAdd (a : AlA) : A (AlA × Int) :=
  if a.length > SIZE_T_MAX - alAddGuard then pure (a, -1)
  else do
    let (a, rc) ← alExpand a (a.length + alAddNeed)
    if rc ≠ 0 then pure (a, -1)
    else pure ({ a with length := a.length + 1 }, 0)

/-- int array_list_put_idx(struct array_list *arr, size_t idx, void *data): capacity and length only -/
def alPutIdx (a : AlA) (idx : Nat) : A (AlA × Int) :=
  if idx > SIZE_T_MAX - alPutGuard then pure (a, -1)
  else do
    let (a, rc) ← alExpand a (idx + alPutNeed)
    if rc ≠ 0 then pure (a, -1)
    else pure ({ a with length := if a.length ≤ idx then idx + 1 else a.length }, 0)

/-- int array_list_insert_idx(struct array_list *arr, size_t idx, void *data) -/
def alInsertIdx (a : AlA) (idx : Nat) : A (AlA × Int) :=
  if idx ≥ a.length then alPutIdx a idx
  else if a.length = SIZE_T_MAX then pure (a, -1)
  else do
    let (a, rc) ← alExpand a (a.length + alInsNeed)
    if rc ≠ 0 then pure (a, -1)
    else pure ({ a with length := a.length + 1 }, 0)

/-! ### linkhash.c -/

structure LhA where
  self : Blk
  table : Blk
  size : Nat
  count : Nat
  deriving Repr, DecidableEq

/-- struct lh_table *lh_table_new(int size, ...) -/
def lhNew (size : Nat) : A (Option LhA) :=
  if size = 0 then fault "lh_table_new: assert(size > 0)"
  else do
    match ← calloc 1 sizeofLhTable with
    | none => pure none
    | some t =>
      match ← calloc size sizeofLhEntry with
      | none => do
        free t "lh_table_new: free(t)"
        pure none
      | some tab => pure (some ⟨t, tab, size, 0⟩)

/-- void lh_table_free(struct lh_table *t), after the free_fn calls -/
def lhFree (t : LhA) : A Unit := do
  free t.table "lh_table_free: free(t->table)"
  free t.self "lh_table_free: free(t)"

/-- the `for (ent = t->head; ...)` loop of lh_table_resize: `n` entries still to be re-inserted into
the new table with `ins` (= lh_table_insert_w_hash); on failure the new table is freed -/
def lhRebuild (ins : LhA → A (LhA × Int)) : Nat → LhA → A (Option LhA)
  | 0, nt => pure (some nt)
  | n + 1, nt => do
    let (nt1, rc) ← ins nt
    if rc ≠ 0 then do
      lhFree nt1
      pure none
    else lhRebuild ins n nt1

/-- int lh_table_resize(struct lh_table *t, int new_size), re-inserting with `ins` -/
def lhResizeWith (ins : LhA → A (LhA × Int)) (t : LhA) (newSize : Nat) : A (LhA × Int) := do
  match ← lhNew newSize with
  | none => pure (t, -1)
  | some nt0 =>
    match ← lhRebuild ins t.count nt0 with
    | none => pure (t, -1)
    | some nt => do
      free t.table "lh_table_resize: free(t->table)"
      free nt.self "lh_table_resize: free(new_t)"
      pure ({ t with table := nt.table, size := if lhResizeKeepsArgSize then newSize else nt.size }, 0)

/-- int lh_table_insert_w_hash(t, k, v, h, opts): allocation behaviour only (`count`, `size`).
lh_table_resize re-inserts with this same function, hence the recursion; `fuel` bounds its depth. -/
def lhInsertN : Nat → LhA → A (LhA × Int)
  | fuel, t =>
    if Linkhash.loadTest t.count t.size then
      if t.size = intMax then pure (t, -1)
      else
        match fuel with
        | 0 => fault "insert: resize recursion deeper than 64"
        | f + 1 => do
          let newSize := if t.size > intMax / 2 then intMax else t.size * 2
          let (t1, rc) ← lhResizeWith (lhInsertN f) t newSize
          if rc ≠ 0 then pure (t, -1)
          else pure ({ t1 with count := t1.count + 1 }, 0)
    else pure ({ t with count := t.count + 1 }, 0)

def lhFuel : Nat := 64
def lhInsert (t : LhA) : A (LhA × Int) := lhInsertN lhFuel t
def lhResize (t : LhA) (newSize : Nat) : A (LhA × Int) := lhResizeWith (lhInsertN lhFuel) t newSize

/-! ### json_object.c: nodes -/

inductive PrimKind where
  | boolean | double | int
  deriving Repr, DecidableEq

def PrimKind.size : PrimKind → Nat
  | .boolean => sizeofJsonObjectBoolean
  | .double => sizeofJsonObjectDouble
  | .int => sizeofJsonObjectInt

/-- a json_object tree as the allocator sees it.  `null` = the NULL pointer.
`dbls`: double with retained text (json_object_new_double_s), `ud` = the strdup'ed userdata.
`str`: `pdata` = the separately allocated buffer once json_object_set_string grew the string (len < 0).
`obj` members: key, the strdup'ed key block (`none`: JSON_C_OBJECT_ADD_CONSTANT_KEY), value. -/
inductive Node where
  | null
  | prim (k : PrimKind) (blk : Blk)
  | dbls (blk : Blk) (ud : Blk)
  | str (blk : Blk) (s : Bytes) (pdata : Option Blk)
  | arr (blk : Blk) (al : AlA) (elems : List Node)
  | obj (blk : Blk) (lh : LhA) (members : List (Bytes × Option Blk × Node))
  deriving Repr

mutual
  /-- every block a tree owns -/
  def owned : Node → List Blk
    | .null => []
    | .prim _ b => [b]
    | .dbls b ud => [b, ud]
    | .str b _ pd => b :: pd.toList
    | .arr b al es => b :: al.self :: al.array :: ownedList es
    | .obj b lh ms => b :: lh.self :: lh.table :: ownedMembers ms
  def ownedList : List Node → List Blk
    | [] => []
    | e :: es => owned e ++ ownedList es
  def ownedMembers : List (Bytes × Option Blk × Node) → List Blk
    | [] => []
    | (_, kb, v) :: ms => kb.toList ++ owned v ++ ownedMembers ms
end

mutual
  /-- int json_object_put(struct json_object *jso) with reference count 1: the teardown.
  Order as in the C: _user_delete first, then the type's delete (children in order, container, node). -/
  def putNode : Node → A Unit
    | .null => pure ()
    | .prim _ b => free b "json_object_generic_delete: free(jso)"
    | .dbls b ud => do
      free ud "json_object_free_userdata: free(userdata)"
      free b "json_object_generic_delete: free(jso)"
    | .str b _ pd => do
      match pd with
      | some p => free p "json_object_string_delete: free(pdata)"
      | none => pure ()
      free b "json_object_generic_delete: free(jso)"
    | .arr b al es => do
      putList es
      alFree al
      free b "json_object_generic_delete: free(jso)"
    | .obj b lh ms => do
      putMembers ms
      lhFree lh
      free b "json_object_generic_delete: free(jso)"
  def putList : List Node → A Unit
    | [] => pure ()
    | e :: es => do
      putNode e
      putList es
  def putMembers : List (Bytes × Option Blk × Node) → A Unit
    | [] => pure ()
    | (_, kb, v) :: ms => do
      match kb with
      | some k => free k "json_object_lh_entry_free: free(key)"
      | none => pure ()
      putNode v
      putMembers ms
end

/-- json_object_new_boolean / _double / _int64 / _uint64: one malloc -/
def newPrim (k : PrimKind) : A Node := do
  match ← malloc k.size with
  | none => pure .null
  | some b => pure (.prim k b)

/-- struct json_object *json_object_new_double_s(double d, const char *ds), `dsLen = strlen(ds)` -/
def newDoubleS (dsLen : Nat) : A Node := do
  match ← malloc PrimKind.double.size with
  | none => pure .null
  | some b =>
    match ← strdup dsLen with
    | none => do
      free b "json_object_new_double_s: json_object_generic_delete(jso)"
      setErrno .ENOMEM
      pure .null
    | some ud => pure (.dbls b ud)

/-- objsize of _json_object_new_string -/
def strObjSize (len : Nat) : Nat :=
  (sizeofJsonObjectString - sizeofStringUnion) + len + strNewNulRoom + (if len < sizeofPtr then sizeofPtr - len else 0)

/-- static struct json_object *_json_object_new_string(const char *s, const size_t len) -/
def newStringLen (s : Bytes) : A Node :=
  if s.length > ssizeMax - (sizeofJsonObjectString - sizeofStringUnion) - strNewGuardSlack then pure .null
  else if s.length ≥ intMax - strNewIntGuardSlack then pure .null
  else do
    match ← malloc (strObjSize s.length) with
    | none => pure .null
    | some b => pure (.str b s none)

/-- struct json_object *json_object_new_array_ext(int initial_size) -/
def newArrayExt (initialSize : Int) : A Node := do
  match ← malloc sizeofJsonObjectArray with
  | none => pure .null
  | some b =>
    match ← alNew2 initialSize with
    | none => do
      free b "json_object_new_array_ext: free(jso)"
      pure .null
    | some al => pure (.arr b al [])

/-- struct json_object *json_object_new_object(void) -/
def newObject : A Node := do
  match ← malloc sizeofJsonObjectObject with
  | none => pure .null
  | some b =>
    match ← lhNew objectDefHashEntries with
    | none => do
      free b "json_object_new_object: json_object_generic_delete(jso)"
      setErrno .ENOMEM
      pure .null
    | some lh => pure (.obj b lh [])

/-! ### json_object.c: mutators -/

/-- int json_object_array_add(jso, val) on an array node: (node', rc); `val` is owned by the array
afterwards iff rc = 0 -/
def arrayAdd (jso : Node) (val : Node) : A (Node × Int) :=
  match jso with
  | .arr b al es => do
    let (al1, rc) ← alAdd al
    if rc ≠ 0 then pure (.arr b al1 es, -1)
    else pure (.arr b al1 (es ++ [val]), 0)
  | _ => fault "json_object_array_add: assert(json_object_get_type(jso) == json_type_array)"

/-- the elements after array_list_put_idx(arr, idx, val): (released old element, new list) -/
def putElems (es : List Node) (idx : Nat) (val : Node) : Node × List Node :=
  if idx < es.length then (es.getD idx .null, es.set idx val)
  else (.null, es ++ List.replicate (idx - es.length) .null ++ [val])

/-- int json_object_array_put_idx(jso, idx, val) -/
def arrayPutIdx (jso : Node) (idx : Nat) (val : Node) : A (Node × Int) :=
  match jso with
  | .arr b al es => do
    let (al1, rc) ← alPutIdx al idx
    if rc ≠ 0 then pure (.arr b al1 es, -1)
    else do
      let (old, es1) := putElems es idx val
      putNode old
      pure (.arr b al1 es1, 0)
  | _ => fault "json_object_array_put_idx: assert(json_object_get_type(jso) == json_type_array)"

/-- int json_object_array_insert_idx(jso, idx, val) -/
def arrayInsertIdx (jso : Node) (idx : Nat) (val : Node) : A (Node × Int) :=
  match jso with
  | .arr b al es =>
    if idx ≥ al.length then arrayPutIdx jso idx val
    else do
      let (al1, rc) ← alInsertIdx al idx
      if rc ≠ 0 then pure (.arr b al1 es, -1)
      else pure (.arr b al1 (es.take idx ++ [val] ++ es.drop idx), 0)
  | _ => fault "json_object_array_insert_idx: assert(json_object_get_type(jso) == json_type_array)"

/-- int json_object_array_shrink(jso, empty_slots), `empty_slots >= 0` -/
def arrayShrink (jso : Node) (emptySlots : Nat) : A (Node × Int) :=
  match jso with
  | .arr b al es => do
    let (al1, rc) ← alShrink al emptySlots
    pure (.arr b al1 es, rc)
  | _ => fault "json_object_array_shrink: not an array"

def findKey (key : Bytes) : List (Bytes × Option Blk × Node) → Option Nat
  | [] => none
  | (k, _, _) :: ms => if k = key then some 0 else (findKey key ms).map (· + 1)

def setMemberVal (ms : List (Bytes × Option Blk × Node)) (i : Nat) (v : Node) : List (Bytes × Option Blk × Node) :=
  match ms[i]? with
  | some (k, kb, _) => ms.set i (k, kb, v)
  | none => ms

def memberVal (ms : List (Bytes × Option Blk × Node)) (i : Nat) : Node :=
  match ms[i]? with
  | some (_, _, v) => v
  | none => .null

/-- json_object_object_add_ex once the key pointer `kb` is settled (`none` = the caller's constant
key): lh_table_insert_w_hash, and on failure the key copy is given back -/
def objectAddInsert (b : Blk) (lh : LhA) (ms : List (Bytes × Option Blk × Node)) (key : Bytes)
    (kb : Option Blk) (val : Node) : A (Node × Int) := do
  let (lh1, rc) ← lhInsert lh
  if rc ≠ 0 then do
    if allocObjAddFreesKeyOnFail then
      match kb with
      | some k => free k "json_object_object_add_ex: free(k)"
      | none => pure ()
    else pure ()
    pure (.obj b lh1 ms, -1)
  else pure (.obj b lh1 (ms ++ [(key, kb, val)]), 0)

/-- int json_object_object_add_ex(jso, key, val, opts): (node', rc).
`keyIsNew` = JSON_C_OBJECT_ADD_KEY_IS_NEW, `constKey` = JSON_C_OBJECT_ADD_CONSTANT_KEY. -/
def objectAddEx (jso : Node) (key : Bytes) (val : Node) (keyIsNew constKey : Bool) : A (Node × Int) :=
  match jso with
  | .obj b lh ms =>
    match (if keyIsNew then none else findKey key ms) with
    | some i => do
      -- existing entry: release the old value, store the new one; no allocation
      putNode (memberVal ms i)
      pure (.obj b lh (setMemberVal ms i val), 0)
    | none =>
      if allocObjAddChecksStrdup = false then
        fault "json_object_object_add_ex: strdup(key) is not checked (shape not covered)"
      else if constKey then objectAddInsert b lh ms key none val
      else do
        match ← strdup key.length with
        | none => pure (jso, -1)
        | some k => objectAddInsert b lh ms key (some k) val
  | _ => fault "json_object_object_add_ex: assert(json_object_get_type(jso) == json_type_object)"

/-- static int _json_object_set_string_len(json_object *jso, const char *s, size_t len): (node', ret) -/
def setStringLen (jso : Node) (s : Bytes) : A (Node × Int) :=
  match jso with
  | .str b old pd =>
    if s.length ≥ intMax - strSetGuardSlack then pure (jso, 0)
    else do
      -- curlen < 0 (pdata in use) and len == 0: the buffer is released, the node is inline again
      let (pd1, curlen) ← match pd with
        | some p =>
          if s.length = 0 then do
            free p "_json_object_set_string_len: free(pdata) (len == 0)"
            pure (none, 0)
          else pure (some p, old.length)
        | none => pure (none, old.length)
      if s.length > curlen then
        if allocSetStrFreeAfterMalloc = false then
          fault "_json_object_set_string_len: old pdata is not freed after the malloc check (shape not covered)"
        else do
          match ← malloc (s.length + strGrowNulRoom) with
          | none => pure (.str b old pd1, 0)
          | some nb => do
            match pd1 with
            | some p => free p "_json_object_set_string_len: free(old pdata)"
            | none => pure ()
            pure (.str b s (some nb), 1)
      else pure (.str b s pd1, 1)
  | _ => pure (jso, 0)

/-! ### json_tokener.c -/

structure TokA where
  self : Blk
  stack : Blk
  pb : PbA
  depth : Nat
  deriving Repr, DecidableEq

/-- struct json_tokener *json_tokener_new_ex(int depth) -/
def tokenerNewEx (depth : Int) : A (Option TokA) :=
  if depth < 1 then pure none
  else do
    match ← calloc 1 sizeofJsonTokener with
    | none => pure none
    | some t =>
      match ← calloc depth.toNat sizeofJsonTokenerSrec with
      | none => do
        free t "json_tokener_new_ex: free(tok)"
        pure none
      | some st =>
        match ← pbNew with
        | none => do
          free st "json_tokener_new_ex: free(tok->stack)"
          free t "json_tokener_new_ex: free(tok)"
          pure none
        | some pb => pure (some ⟨t, st, pb, depth.toNat⟩)

/-- void json_tokener_free(struct json_tokener *tok) of a tokener that holds no partial value -/
def tokenerFree (t : TokA) : A Unit := do
  pbFree t.pb
  free t.stack "json_tokener_free: free(tok->stack)"
  free t.self "json_tokener_free: free(tok)"

/-- json_tokener_parse_ex, state array_add: attach the completed child `obj` to `current`.
Result: (current', memory error?).  On failure the child is released (it has no other owner). -/
def tokAttachArray (current child : Node) : A (Node × Bool) := do
  let (cur1, rc) ← arrayAdd current child
  if rc ≠ 0 then do
    if allocTokAttachPutsChild then putNode child else pure ()
    pure (cur1, true)
  else pure (cur1, false)

/-- json_tokener_parse_ex, state object_value_add: json_object_object_add(current, obj_field_name, obj) -/
def tokAttachObject (current : Node) (key : Bytes) (child : Node) : A (Node × Bool) := do
  let (cur1, rc) ← objectAddEx current key child false false
  if rc ≠ 0 then do
    if allocTokAttachPutsChild then putNode child else pure ()
    pure (cur1, true)
  else pure (cur1, false)

/-! ### json_object_deep_copy -/

mutual
  /-- json_object_deep_copy_recursive with json_c_shallow_copy_default: (rc >= 0 ?, *dst).
  On failure `*dst` is the partial copy, which the caller releases. -/
  def copyRec : Node → A (Bool × Node)
    | .null => pure (true, .null)        -- callers never recurse into NULL; kept total
    | .prim k _ => do
      match ← newPrim k with
      | .null => do
        setErrno .EINVAL
        pure (false, .null)
      | d => pure (true, d)
    | .dbls _ ud => do
      match ← newPrim .double with
      | .prim _ b => do
        -- json_object_copy_serializer_data: strdup(src->_userdata)
        match ← strdup (ud.size - 1) with
        | none => pure (false, .prim .double b)
        | some u => pure (true, .dbls b u)
      | _ => do
        setErrno .EINVAL
        pure (false, .null)
    | .str _ s _ => do
      match ← newStringLen s with
      | .null => do
        setErrno .EINVAL
        pure (false, .null)
      | d => pure (true, d)
    | .arr _ _ es => do
      match ← newArrayExt arrayListDefaultSize with
      | .null => do
        setErrno .EINVAL
        pure (false, .null)
      | d => copyElems es d
    | .obj _ _ ms => do
      match ← newObject with
      | .null => do
        setErrno .EINVAL
        pure (false, .null)
      | d => copyMembers ms d
  def copyElems : List Node → Node → A (Bool × Node)
    | [], dst => pure (true, dst)
    | e :: es, dst => do
      let (ok, c) ← copyRec e
      if !ok then do
        if allocDeepCopyPutsChild then putNode c else pure ()
        pure (false, dst)
      else do
        let (dst1, rc) ← arrayAdd dst c
        if rc ≠ 0 then do
          if allocDeepCopyPutsChild then putNode c else pure ()
          pure (false, dst1)
        else copyElems es dst1
  def copyMembers : List (Bytes × Option Blk × Node) → Node → A (Bool × Node)
    | [], dst => pure (true, dst)
    | (k, _, v) :: ms, dst => do
      let (ok, c) ← copyRec v
      if !ok then do
        if allocDeepCopyPutsChild then putNode c else pure ()
        pure (false, dst)
      else do
        let (dst1, rc) ← objectAddEx dst k c false false
        if rc ≠ 0 then do
          if allocDeepCopyPutsChild then putNode c else pure ()
          pure (false, dst1)
        else copyMembers ms dst1
end

/-- int json_object_deep_copy(src, &dst, NULL) with `*dst == NULL`, `src != NULL`: (rc, *dst) -/
def deepCopy (src : Node) : A (Int × Node) :=
  match src with
  | .null => do
    setErrno .EINVAL
    pure (-1, .null)
  | _ => do
    let (ok, dst) ← copyRec src
    if !ok then do
      if allocDeepCopyPutsPartial then putNode dst else pure ()
      pure (-1, .null)
    else pure (0, dst)

/-! ### json_pointer_set -/

/-- how json_pointer_set_single_path reads the last reference token when the parent is an array -/
inductive PtrTok where
  | dash
  | index (i : Nat)
  | other
  deriving Repr, DecidableEq

/-- what the path resolves to (computed by the caller of the model; the theorems hold for every plan):
`pathLen = strlen(path)`, `multi` = more than one '/', `parentPos` = where
json_pointer_object_get_recursive finds the parent (child positions from the root; `none` = it fails
with `getErrno`), `tok` / `tokLen` / `key` = the last token as an index, its length, its unescaped text. -/
structure PtrPlan where
  pathLen : Nat
  startsWithSlash : Bool
  multi : Bool
  parentPos : Option (List Nat)
  getErrno : Errno
  tok : PtrTok
  tokLen : Nat
  key : Bytes
  deriving Repr

def childAt (n : Node) (i : Nat) : Option Node :=
  match n with
  | .arr _ _ es => es[i]?
  | .obj _ _ ms => (ms[i]?).map (fun m => m.2.2)
  | _ => none

def nodeAt : Node → List Nat → Option Node
  | n, [] => some n
  | n, i :: is => (childAt n i).bind (fun c => nodeAt c is)

def setChildAt (n : Node) (i : Nat) (c : Node) : Node :=
  match n with
  | .arr b al es => .arr b al (es.set i c)
  | .obj b lh ms => .obj b lh (setMemberVal ms i c)
  | _ => n

def replaceAt : Node → List Nat → Node → Node
  | _, [], r => r
  | n, i :: is, r =>
    match childAt n i with
    | some c => setChildAt n i (replaceAt c is r)
    | none => n

/-- static int json_pointer_set_single_path(parent, path, value, json_object_array_put_idx_cb, NULL) -/
def ptrSetSingle (parent : Node) (plan : PtrPlan) (value : Node) : A (Node × Int) :=
  match parent with
  | .arr .. =>
    match plan.tok with
    | .dash => arrayAdd parent value
    | .index i => arrayPutIdx parent i value
    | .other => do
      setErrno .EINVAL
      pure (parent, -1)
  | .obj .. => do
    match ← strdup plan.tokLen with
    | none => do
      setErrno .ENOMEM
      pure (parent, -1)
    | some kc => do
      let (p1, rc) ← objectAddEx parent plan.key value false false
      if allocPtrSetFreesKey then free kc "json_pointer_set_single_path: free(key)" else pure ()
      pure (p1, rc)
  | _ => do
    setErrno .ENOENT
    pure (parent, -1)

/-- int json_pointer_set(struct json_object **obj, const char *path, struct json_object *value):
(*obj afterwards, rc).  `value` is owned by the tree afterwards iff rc = 0. -/
def pointerSet (root : Node) (plan : PtrPlan) (value : Node) : A (Node × Int) :=
  if plan.pathLen = 0 then do
    putNode root
    pure (value, 0)
  else if plan.startsWithSlash = false then do
    setErrno .EINVAL
    pure (root, -1)
  else if plan.multi = false then ptrSetSingle root plan value
  else do
    match ← strdup plan.pathLen with
    | none => do
      setErrno .ENOMEM
      pure (root, -1)
    | some pc => do
      if allocPtrSetFreesPathCopy then free pc "json_pointer_set_with_array_cb: free(path_copy)" else pure ()
      match plan.parentPos with
      | none => do
        setErrno plan.getErrno
        pure (root, -1)
      | some pos =>
        match nodeAt root pos with
        | none => fault "json_pointer_set: plan does not describe the tree"
        | some parent => do
          let (p1, rc) ← ptrSetSingle parent plan value
          pure (replaceAt root pos p1, rc)

end JsonC.Alloc
