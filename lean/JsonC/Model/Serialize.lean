/-
  Model of the serializer of json_object.c ("checked C", value level over `JVal`):

    json_object_to_json_string_length / _ext          `serialize`
    json_object_object_to_json_string                 `serChild (.obj ..)` + `serMembers`
    json_object_array_to_json_string                  `serChild (.arr ..)` + `serElems`
    indent                                            `indent`
    json_object_boolean_to_json_string                `boolText`
    json_object_int_to_json_string                    `intText`
    json_object_string_to_json_string                 `stringText`
    json_escape_str (byte loop, start_offset batching) `escapeStr` / `escapeLoop` / `escOf`
    json_object_double_to_json_string_format          `doubleText` / `doublePost` (128-byte buffer)
    json_object_userdata_to_json_string               `userdataText`

  The output is the byte string that the calls append to the node's printbuf, in order (printbuf
  itself is property C19; every append is assumed to succeed: allocation failure is C08).  Every
  array access and every `int` computation carries its check (`Outcome.fault`).
  libc enters as a parameter: `fmt : UInt64 → Bytes` is what `snprintf(buf, …, "%.17g", d)` formats
  for the finite double with that bit pattern (reference: `Dbl.fmtG17`, compared with glibc by the
  correspondence run).  `json_c_set_serialization_double_format` is not called (format = std_format).
-/
import JsonC.Model.Value
import JsonC.Generated.Consts
import JsonC.Generated.Structure

namespace JsonC.Serialize
open JsonC Generated

/-! ### flags -/

/-- the JSON_C_TO_STRING_* bits the serializer tests, decoded once -/
structure Fl where
  spaced : Bool
  pretty : Bool
  prettyTab : Bool
  noZero : Bool
  noSlash : Bool
  color : Bool
  deriving Repr, DecidableEq

def hasBit (flags bit : Nat) : Bool := flags &&& bit != 0

/-- `flags & JSON_C_TO_STRING_X` for the six bits (constants regenerated from json_object.h) -/
def Fl.ofNat (flags : Nat) : Fl :=
  { spaced := hasBit flags toStringSpaced, pretty := hasBit flags toStringPretty,
    prettyTab := hasBit flags toStringPrettyTab, noZero := hasBit flags toStringNoZero,
    noSlash := hasBit flags toStringNoSlashEscape, color := hasBit flags toStringColor }

/-- `flags & SPACED && !(flags & PRETTY)` -/
def Fl.spacedOnly (f : Fl) : Bool := f.spaced && !f.pretty

/-- a value computed in C `int` arithmetic -/
def ckInt (x : Nat) (site : String) : Outcome Nat :=
  if x ≤ intMax then .ok x else .fault ("int overflow: " ++ site)

/-! ### json_escape_str -/

/-- `json_hex_chars[i]` -/
def hexChar (i : Nat) : Outcome UInt8 :=
  match serHexChars[i]? with
  | some c => .ok c
  | none => .fault "json_escape_str: json_hex_chars index out of bounds"

/-- What the `switch (c)` does with one byte: `none` = the byte stays in the pending run
(`pos++`), `some e` = the pending run is flushed and `e` appended (`start_offset = ++pos`). -/
def escOf (noSlash : Bool) (c : UInt8) : Outcome (Option Bytes) :=
  if c == 8 then .ok (some [92, 98])             -- \b
  else if c == 10 then .ok (some [92, 110])      -- \n
  else if c == 13 then .ok (some [92, 114])      -- \r
  else if c == 9 then .ok (some [92, 116])       -- \t
  else if c == 12 then .ok (some [92, 102])      -- \f
  else if c == 34 then .ok (some [92, 34])       -- \"
  else if c == 92 then .ok (some [92, 92])       -- \\
  else if c == 47 then                           -- '/'
    if noSlash then .ok none else .ok (some [92, 47])
  else if c < 32 then do
    -- snprintf(sbuf, 7, "\\u00%c%c", json_hex_chars[c >> 4], json_hex_chars[c & 0xf]); 6 bytes appended
    let hi ← hexChar (c.toNat >>> 4)
    let lo ← hexChar (c.toNat &&& 0xf)
    let s := serEscUPrefix ++ [hi, lo]
    if s.length + 1 > serEscBuf then .fault "json_escape_str: sbuf too small"
    else .ok (some (s.take (serEscBuf - 1)))
  else .ok none

/-- the `while (len)` loop: `pending` = `str[start_offset .. pos)`, `out` = bytes appended so far -/
def escapeLoop (noSlash : Bool) : Bytes → Bytes → Bytes → Outcome Bytes
  | [], pending, out => .ok (out ++ pending)          -- if (pos > start_offset) memappend
  | c :: rest, pending, out => do
    match (← escOf noSlash c) with
    | none => escapeLoop noSlash rest (pending ++ [c]) out
    | some e => escapeLoop noSlash rest [] (out ++ pending ++ e)

/-- json_escape_str(pb, str, len, flags): the bytes appended -/
def escapeStr (noSlash : Bool) (str : Bytes) : Outcome Bytes := escapeLoop noSlash str [] []

/-! ### scalars -/

def withColor (f : Fl) (col : Bytes) (body : Bytes) : Bytes :=
  if f.color then col ++ body ++ serColorReset else body

def nullBytes : Bytes := [110, 117, 108, 108]
def trueBytes : Bytes := [116, 114, 117, 101]
def falseBytes : Bytes := [102, 97, 108, 115, 101]

/-- json_object_boolean_to_json_string -/
def boolText (f : Fl) (b : Bool) : Bytes := withColor f serColorMagenta (if b then trueBytes else falseBytes)

/-- decimal digits of a natural number, most significant first ("%u"-style, "0" for 0) -/
def decDigits (n : Nat) : Bytes :=
  if _h : n < 10 then [UInt8.ofNat (48 + n)]
  else decDigits (n / 10) ++ [UInt8.ofNat (48 + n % 10)]
termination_by n
decreasing_by omega

/-- "%" PRId64 / "%" PRIu64 -/
def decInt (v : Int) : Bytes := if v < 0 then 45 :: decDigits v.natAbs else decDigits v.toNat

/-- what snprintf(buf, n, …) leaves as the C string in `char buf[n]` for the formatted output `out` -/
def snprintfImage (n : Nat) (out : Bytes) : Bytes := (out.take (n - 1)).takeWhile (· != 0)

/-- json_object_int_to_json_string: snprintf into `char sbuf[21]`, then strlen(sbuf) bytes appended.
(`signed` only selects PRId64/PRIu64; the value is the node's, in the range of its C type.) -/
def intText (_signed : Bool) (v : Int) : Bytes := snprintfImage serIntBuf (decInt v)

/-- json_object_string_to_json_string: the stored length is used, so NUL bytes are data -/
def stringText (f : Fl) (s : Bytes) : Outcome Bytes := do
  let e ← escapeStr f.noSlash s
  pure (withColor f serColorGreen ([34] ++ e ++ [34]))

/-! ### doubles -/

def isDigitB (c : UInt8) : Bool := 48 ≤ c && c ≤ 57

def isNaN (bits : UInt64) : Bool := bits.toNat % 2 ^ 63 > 0x7ff0000000000000
def isInf (bits : UInt64) : Bool := bits.toNat % 2 ^ 63 == 0x7ff0000000000000
def isNeg (bits : UInt64) : Bool := bits.toNat ≥ 2 ^ 63

/-- index of the first occurrence (`strchr`) -/
def strchr (s : Bytes) (c : UInt8) : Option Nat :=
  let i := (s.takeWhile (· != c)).length
  if i < s.length then some i else none

/-- NOZERO: `p++; for (q = p; *q && *q != 'e' && *q != 'E'; q++) if (*q != '0') p = q;`
on the characters from `p` on; returns (p, q) as offsets from the start of the scan -/
def scanZeros : Bytes → Nat → Nat → Nat × Nat
  | [], p, q => (p, q)
  | c :: r, p, q =>
    if c == 101 || c == 69 then (p, q)
    else scanZeros r (if c != 48 then q else p) (q + 1)

/-- `p = strchr(buf, ','); if (p) *p = '.'; else p = strchr(buf, '.');` : the buffer and `p` (as an index) -/
def commaToPoint (buf : Bytes) : Bytes × Option Nat :=
  match strchr buf 44 with
  | some i => (buf.set i 46, some i)
  | none => (buf, strchr buf 46)

/-- `looks_numeric = is_plain_digit(buf[0]) || (size > 1 && buf[0] == '-' && is_plain_digit(buf[1]))`
(`buf[strlen]` is the terminating NUL, not a digit) -/
def looksNumeric (size : Nat) (buf : Bytes) : Bool :=
  isDigitB (buf.headD 0) || (decide (size > 1) && buf.headD 0 == 45 && isDigitB ((buf.drop 1).headD 0))

/-- the ".0" suffix: `if (size < (int)sizeof(buf) - 2 && looks_numeric && !p && strchr(buf, 'e') == NULL)
{ strcat(buf, ".0"); size += 2; }` (format_drops_decimals is 1 for the standard format) -/
def dotZero (size : Nat) (buf : Bytes) (p : Option Nat) : Outcome (Bytes × Nat) :=
  if size + serDotZeroSlack < serDblBuf && looksNumeric size buf && p.isNone && (strchr buf 101).isNone then
    -- strcat writes buf[strlen .. strlen + 2]
    if buf.length + 3 > serDblBuf then .fault "double: strcat(buf, \".0\") writes past buf"
    else .ok (buf ++ [46, 48], size + 2)
  else .ok (buf, size)

/-- `if (p && (flags & NOZERO)) { p++; for (q = p; *q && *q != 'e' && *q != 'E'; q++) if (*q != '0') p = q;
if (p < q) memmove(p + 1, q, strlen(q) + 1); size = strlen(buf); }` -/
def noZeroTrim (noZero : Bool) (p : Option Nat) (buf : Bytes) (size : Nat) : Bytes × Nat :=
  match p, noZero with
  | some i, true =>
    let sc := scanZeros (buf.drop (i + 1)) 0 0
    let pp := i + 1 + sc.1
    let qq := i + 1 + sc.2
    let b := if pp < qq then buf.take (pp + 1) ++ buf.drop qq else buf
    (b, b.length)
  | _, _ => (buf, size)

/-- `if (size >= (int)sizeof(buf)) size = sizeof(buf) - 1; printbuf_memappend(pb, buf, size);` -/
def finalAppend (buf : Bytes) (size : Nat) : Outcome Bytes :=
  let size' := if size ≥ serDblBuf then serDblBuf - 1 else size
  if size' = buf.length then .ok buf
  else .fault "double: size differs from strlen(buf) (the formatted output contains NUL): bytes past the terminator appended"

/-- The code after `size = snprintf(buf, sizeof(buf), format, d)` for a finite double: `out` is the
complete formatted output (`size = |out|`), the buffer holds its first 127 bytes and a NUL.
Returns the bytes handed to printbuf_memappend. -/
def doublePost (noZero : Bool) (out : Bytes) : Outcome Bytes := do
  let size0 ← ckInt out.length "double: snprintf result"
  let cp := commaToPoint (snprintfImage serDblBuf out)
  let r ← dotZero size0 cp.1 cp.2
  let z := noZeroTrim noZero cp.2 r.1 r.2
  finalAppend z.1 z.2

/-- json_object_double_to_json_string_format with format = NULL and no custom global/thread format -/
def doubleText (fmt : UInt64 → Bytes) (f : Fl) (bits : UInt64) : Outcome Bytes :=
  if isNaN bits then .ok (snprintfImage serDblBuf serNaN)
  else if isInf bits then .ok (snprintfImage serDblBuf (if isNeg bits then serNegInf else serPosInf))
  else doublePost f.noZero (fmt bits)

/-- json_object_userdata_to_json_string: `strlen(_userdata)` bytes (as an `int`) of the retained text -/
def userdataText (text : Bytes) : Outcome Bytes := do
  let t := text.takeWhile (· != 0)
  let _ ← ckInt t.length "userdata_to_json_string: int userdata_len = strlen(..)"
  pure t

/-! ### containers -/

/-- indent(pb, level, flags) -/
def indent (f : Fl) (level : Nat) : Outcome Bytes :=
  if f.pretty then
    if f.prettyTab then .ok (List.replicate level 9)
    else do
      let n ← ckInt (level * 2) "indent: level * 2"
      pure (List.replicate n 32)
  else .ok []

/-- the bytes emitted before a member / element: `,` after the first, newline, or the single space -/
def sepBytes (f : Fl) (hadChildren : Bool) : Bytes :=
  (if hadChildren then [44] else []) ++ (if f.pretty then [10] else []) ++ (if f.spacedOnly then [32] else [])

/-- the bytes emitted after the loop, before the closing bracket -/
def closeBytes (f : Fl) (level : Nat) (hadChildren : Bool) (closer : UInt8) : Outcome Bytes :=
  if f.pretty && hadChildren then do
    let i ← indent f level
    pure ([10] ++ i ++ (if f.spacedOnly then [32, closer] else [closer]))
  else .ok (if f.spacedOnly then [32, closer] else [closer])

variable (fmt : UInt64 → Bytes)

mutual
  /-- a child slot (array element / member value) at nesting `level`: a NULL pointer prints `null`
  (coloured), anything else goes through the node's `_to_json_string` -/
  def serChild (f : Fl) (level : Nat) : JVal → Outcome Bytes
    | .null => .ok (withColor f serColorMagenta nullBytes)
    | .bool b => .ok (boolText f b)
    | .int s v => .ok (intText s v)
    | .dbl bits none => doubleText fmt f bits
    | .dbl _ (some t) => userdataText t
    | .str s => stringText f s
    | .arr xs => do
      let body ← serElems f level xs false
      let close ← closeBytes f level (!xs.isEmpty) 93
      pure ([91] ++ body ++ close)
    | .obj kvs => do
      let body ← serMembers f level kvs false
      let close ← closeBytes f level (!kvs.isEmpty) 125
      pure ([123] ++ body ++ close)
  /-- the element loop of json_object_array_to_json_string (`level` = the array's level) -/
  def serElems (f : Fl) (level : Nat) : List JVal → Bool → Outcome Bytes
    | [], _ => .ok []
    | x :: xs, had => do
      let l1 ← ckInt (level + 1) "array: level + 1"
      let ind ← indent f l1
      let v ← serChild f l1 x
      let rest ← serElems f level xs true
      pure (sepBytes f had ++ ind ++ v ++ rest)
  /-- the member loop of json_object_object_to_json_string (`level` = the object's level); the key is a
  C string (`strlen(iter.key)`) -/
  def serMembers (f : Fl) (level : Nat) : List (Bytes × JVal) → Bool → Outcome Bytes
    | [], _ => .ok []
    | (k, x) :: kvs, had => do
      let l1 ← ckInt (level + 1) "object: level + 1"
      let ind ← indent f l1
      let ke ← escapeStr f.noSlash (k.takeWhile (· != 0))
      let key := withColor f serColorBlue ([34] ++ ke ++ [34])
      let colon : Bytes := if f.spaced then [58, 32] else [58]
      let v ← serChild f l1 x
      let rest ← serMembers f level kvs true
      pure (sepBytes f had ++ ind ++ key ++ colon ++ v ++ rest)
end

/-- json_object_to_json_string_length(jso, flags, &length): the text returned (its length is the
reported length: `s = bpos`, resp. 4 for the literal "null" of a NULL `jso`) -/
def serialize (flags : Nat) (v : JVal) : Outcome Bytes :=
  match v with
  | .null => .ok nullBytes
  | v => serChild fmt (Fl.ofNat flags) 0 v

end JsonC.Serialize
