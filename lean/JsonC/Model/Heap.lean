/-
  Model of the reference-counting object API of json_object.c (with linkhash.c / arraylist.c at the
  level "which child references are released when").

    struct json_object { o_type; _ref_count; _to_json_string; _pb; _user_delete; _userdata; }

  * the heap is an association list `Id ↦ Node`; ids are allocated increasing and never reused;
  * a node's children are the slots of its container payload: array = `List (Option Id)` (NULL gaps),
    object = `List (Key × Option Id)` in insertion order (the linked list of lh_table);
  * `json_object_put` is an explicit work list (`release`): pop `i`, decrement; at 0 run the user
    delete callback, log the destruction, drop the node and push its children, in container order,
    on the *front* of the list (the depth-first order of lh_table_free / array_list_free).  C's
    `assert(_ref_count > 0)` and a put on freed memory are `Step.fault`;
  * `ext : Id → Nat` is a ghost: the number of references the *caller* holds by the documented rules
    (constructors give one, get adds one, put and "add to a container" take one).  It is never read by
    the part of the model that computes C-observable results except to report `misuse`;
  * a call the documented rules forbid (dead handle, putting / giving away a reference one does not
    own, building a cycle, a type-mismatch that trips an `assert`) is `Step.misuse`: the well-formed
    histories are exactly those on which the model never says `misuse` (decidable, `History.WF`).
  * allocation succeeds, except requests the index guards / a realloc of ≥ 2^51 bytes refuse
    (`idxRefused`).  Allocation failure proper is property C08.
-/
import JsonC.Base.Basic
import JsonC.Generated.Consts
import JsonC.Generated.Structure

namespace JsonC.Heap
open JsonC Generated

abbrev Id := Nat
abbrev Key := Bytes

/-- outcome of a piece of the model: value, contract violation by the caller, or C-level fault -/
inductive Step (α : Type) where
  | ok (a : α)
  | misuse (why : String)
  | fault (why : String)
  deriving Repr

namespace Step
@[inline] def bind {α β : Type} (x : Step α) (f : α → Step β) : Step β :=
  match x with
  | ok a => f a
  | misuse w => misuse w
  | fault w => fault w
instance : Monad Step where
  pure := ok
  bind := bind
def isOk {α : Type} : Step α → Bool
  | ok _ => true
  | _ => false
def isMisuse {α : Type} : Step α → Bool
  | misuse _ => true
  | _ => false
@[simp] theorem bind_ok {α β : Type} (a : α) (f : α → Step β) : (ok a >>= f) = f a := rfl
@[simp] theorem bind_misuse {α β : Type} (w : String) (f : α → Step β) :
    ((misuse w : Step α) >>= f) = misuse w := rfl
@[simp] theorem bind_fault {α β : Type} (w : String) (f : α → Step β) :
    ((fault w : Step α) >>= f) = fault w := rfl
@[simp] theorem pure_eq {α : Type} (a : α) : (pure a : Step α) = ok a := rfl
end Step

inductive Scalar where
  | string | int | double | boolean
  deriving Repr, DecidableEq

inductive Body where
  | scalar (k : Scalar)
  | arr (xs : List (Option Id))
  | obj (kvs : List (Key × Option Id))
  deriving Repr, DecidableEq

/-- the child references a payload holds, in container order -/
def Body.children : Body → List Id
  | .scalar _ => []
  | .arr xs => xs.filterMap id
  | .obj kvs => kvs.filterMap (·.2)

structure Node where
  rc : Nat                 -- _ref_count
  body : Body
  ud : Option Nat          -- `some t`: a _user_delete callback is installed, its _userdata is `t`
  deriving Repr, DecidableEq

def Node.hasUserDelete (n : Node) : Bool := n.ud.isSome

abbrev Heap := List (Id × Node)

namespace Heap
def get? : Heap → Id → Option Node
  | [], _ => none
  | (j, n) :: h, i => if j = i then some n else get? h i

def set : Heap → Id → Node → Heap
  | [], _, _ => []
  | (j, n) :: h, i, n' => if j = i then (j, n') :: h else (j, n) :: set h i n'

def erase : Heap → Id → Heap
  | [], _ => []
  | (j, n) :: h, i => if j = i then h else (j, n) :: erase h i

def keys (h : Heap) : List Id := h.map (·.1)

/-- every child reference stored in a live container (with multiplicity) -/
def edges (h : Heap) : List Id := h.flatMap (fun p => p.2.body.children)

/-- number of container slots that refer to `i` -/
def indeg (h : Heap) (i : Id) : Nat := (edges h).count i

def childrenOf (h : Heap) (i : Id) : List Id :=
  match get? h i with
  | some n => n.body.children
  | none => []
end Heap

/-- one invocation of a user delete callback: node, its userdata token, and whether it ran because
the node is being destroyed (`_ref_count == 0` inside the callback) or because set_userdata /
set_serializer replaced it -/
structure Cb where
  id : Id
  tok : Nat
  final : Bool
  deriving Repr, DecidableEq

def cbOf (i : Id) (n : Node) (final : Bool) : List Cb :=
  match n.ud with
  | some t => [⟨i, t, final⟩]
  | none => []

/-- result of running a work list of `json_object_put` calls -/
structure Rel where
  heap : Heap
  dead : List Id          -- nodes destroyed, in the order their destruction starts (callback order)
  cbs : List Cb
  deriving Repr, DecidableEq

/-- `json_object_put` on every id of the work list, depth first.  `fuel` bounds the number of pops. -/
def release : Nat → Heap → List Id → Step Rel
  | _, h, [] => .ok ⟨h, [], []⟩
  | 0, _, _ :: _ => .fault "release: out of fuel"
  | fuel + 1, h, i :: w =>
    match h.get? i with
    | none => .fault "json_object_put: node already freed"
    | some n =>
      if n.rc = 0 then .fault "json_object_put: assert(_ref_count > 0)"
      else if n.rc > 1 then release fuel (h.set i { n with rc := n.rc - 1 }) w
      else
        -- _ref_count reaches 0: _user_delete, then the container releases its children, then free
        match release fuel (h.erase i) (n.body.children ++ w) with
        | .ok r => .ok ⟨r.heap, i :: r.dead, cbOf i n true ++ r.cbs⟩
        | .misuse why => .misuse why
        | .fault why => .fault why

/-- enough fuel for `release h w`: every pop removes one work item or one stored edge -/
def relFuel (h : Heap) (w : List Id) : Nat := w.length + (Heap.edges h).length

structure State where
  heap : Heap := []
  next : Id := 0
  ext : Id → Nat := fun _ => 0
  log : List Id := []          -- ghost: every node destroyed so far

def State.live (s : State) (i : Id) : Bool := (s.heap.get? i).isSome

structure Res where
  ret : Int := 0
  made : Option Id := none     -- constructors / deep copy: the new root
  dead : List Id := []
  cbs : List Cb := []
  deriving Repr, DecidableEq

def extInc (ext : Id → Nat) (i : Id) : Id → Nat := fun x => if x = i then ext x + 1 else ext x
def extDec (ext : Id → Nat) (i : Id) : Id → Nat := fun x => if x = i then ext x - 1 else ext x
def extGive (ext : Id → Nat) : Option Id → Id → Nat
  | none => ext
  | some j => extDec ext j

/-- depth-first search for `b` below `a`, conservative: running out of fuel answers `true`.
`false` therefore means: no path of any length from `a` to `b`. -/
def reachB : Nat → Heap → Id → Id → Bool
  | 0, _, _, _ => true
  | fuel + 1, h, a, b => a == b || (h.childrenOf a).any (fun c => reachB fuel h c b)

def UINT32_MAX : Nat := 4294967295
def SIZE_T_MAX : Nat := sizeMax

/-- array_list_put_idx refuses: `idx > SIZE_T_MAX - 1`, or array_list_expand_internal refuses
(`new_size > SIZE_T_MAX / sizeof(void *)`) or its realloc of ≥ 2^51 bytes fails (assumption). -/
def idxRefused (idx : Nat) : Bool := idx > SIZE_T_MAX - 1 || idx + 1 > 2 ^ 48

/-- json_object_new*: `_ref_count = 1`, no user data; the caller receives the one reference -/
def alloc (s : State) (body : Body) : State × Id :=
  let i := s.next
  ({ s with heap := s.heap ++ [(i, ⟨heapNewRefCount, body, none⟩)], next := i + 1, ext := extInc s.ext i }, i)

/-- json_object_get -/
def get (s : State) (i : Id) : Step (State × Res) :=
  match s.heap.get? i with
  | none => .misuse "get: dead handle"
  | some n =>
    if n.rc ≥ UINT32_MAX then .misuse "get: assert(_ref_count < UINT32_MAX)"
    else .ok ({ s with heap := s.heap.set i { n with rc := n.rc + 1 }, ext := extInc s.ext i }, {})

/-- run a work list of puts on the state and account for it -/
def runRelease (s : State) (w : List Id) (ret : Int) : Step (State × Res) :=
  match release (relFuel s.heap w) s.heap w with
  | .ok r => .ok ({ s with heap := r.heap, log := s.log ++ r.dead }, { ret := ret, dead := r.dead, cbs := r.cbs })
  | .misuse why => .misuse why
  | .fault why => .fault why

/-- json_object_put: returns 1 exactly when the node was freed -/
def put (s : State) (i : Id) : Step (State × Res) :=
  if s.ext i = 0 then .misuse "put: reference not owned by the caller"
  else
    match runRelease { s with ext := extDec s.ext i } [i] 0 with
    -- the outermost call returns 1 iff it reached the teardown, i.e. the first pop destroyed `i`
    | .ok (s', r) => .ok (s', { r with ret := if r.dead.head? = some i then heapPutReturnsFreed else 0 })
    | .misuse why => .misuse why
    | .fault why => .fault why

/-- the caller may hand `v` to container `p`: it owns a reference to it and `p` is not below `v` -/
def checkVal (s : State) (p : Id) : Option Id → Option String
  | none => none
  | some j =>
    if s.ext j = 0 then some "value: reference not owned by the caller"
    else if reachB (s.heap.length + 1) s.heap j p then some "value: container is the value or one of its descendants (cycle)"
    else none

/-- store the new payload of container `p`, take the caller's reference to `given`, then put
every id of `rel` (the references the container dropped), in order.  (C puts the old value before
storing the new one; the order is immaterial because the cascade never reaches `p`.) -/
def commit (s : State) (p : Id) (n : Node) (body' : Body) (given : Option Id) (rel : List Id) :
    Step (State × Res) :=
  runRelease { s with heap := s.heap.set p { n with body := body' }, ext := extGive s.ext given } rel 0

def findKey : List (Key × Option Id) → Key → Option (Option Id)
  | [], _ => none
  | (k, v) :: kvs, key => if k = key then some v else findKey kvs key

def setKey : List (Key × Option Id) → Key → Option Id → List (Key × Option Id)
  | [], _, _ => []
  | (k, v) :: kvs, key, v' => if k = key then (k, v') :: kvs else (k, v) :: setKey kvs key v'

def eraseKey : List (Key × Option Id) → Key → List (Key × Option Id)
  | [], _ => []
  | (k, v) :: kvs, key => if k = key then kvs else (k, v) :: eraseKey kvs key

/-- json_object_object_add_ex(jso, key, val, opts); `keyIsNew` = JSON_C_OBJECT_ADD_KEY_IS_NEW -/
def objAdd (s : State) (p : Id) (key : Key) (v : Option Id) (keyIsNew : Bool) : Step (State × Res) :=
  match s.heap.get? p with
  | none => .misuse "object_add: dead handle"
  | some n =>
    match n.body with
    | .obj kvs =>
      if v = some p then .ok (s, { ret := -1 })              -- `if (jso == val) return -1;`
      else
        match checkVal s p v with
        | some why => .misuse why
        | none =>
          match findKey kvs key with
          | none => commit s p n (.obj (kvs ++ [(key, v)])) v []       -- lh_table_insert: appended
          | some old =>
            if keyIsNew then .misuse "object_add: KEY_IS_NEW with a key that is present"
            else
              -- existing entry: `if (existing_value) json_object_put(existing_value); lh_entry_set_val(...)`
              -- (also when existing_value == val: the reference given replaces the one dropped)
              commit s p n (.obj (setKey kvs key v)) v old.toList
    | _ => .misuse "object_add: assert(type == object)"

/-- json_object_object_del (void; reported as 0) -/
def objDel (s : State) (p : Id) (key : Key) : Step (State × Res) :=
  match s.heap.get? p with
  | none => .misuse "object_del: dead handle"
  | some n =>
    match n.body with
    | .obj kvs =>
      match findKey kvs key with
      | none => .ok (s, {})
      | some old => commit s p n (.obj (eraseKey kvs key)) none old.toList
    | _ => .misuse "object_del: assert(type == object)"

/-- array_list_put_idx on the slots -/
def arrPutCore (s : State) (p : Id) (n : Node) (xs : List (Option Id)) (idx : Nat) (v : Option Id) :
    Step (State × Res) :=
  if idxRefused idx then .ok (s, { ret := -1 })
  else if idx < xs.length then
    commit s p n (.arr (xs.set idx v)) v ((xs.getD idx none).toList)
  else
    commit s p n (.arr (xs ++ List.replicate (idx - xs.length) none ++ [v])) v []

inductive ArrOp where
  | add | put (idx : Nat) | ins (idx : Nat)
  deriving Repr, DecidableEq

/-- json_object_array_add / _put_idx / _insert_idx -/
def arrStore (s : State) (p : Id) (op : ArrOp) (v : Option Id) : Step (State × Res) :=
  match s.heap.get? p with
  | none => .misuse "array op: dead handle"
  | some n =>
    match n.body with
    | .arr xs =>
      match checkVal s p v with
      | some why => .misuse why
      | none =>
        match op with
        | .add => commit s p n (.arr (xs ++ [v])) v []
        | .put idx => arrPutCore s p n xs idx v
        | .ins idx =>
          if idx ≥ xs.length then arrPutCore s p n xs idx v
          else commit s p n (.arr (xs.take idx ++ v :: xs.drop idx)) v []
    | _ => .misuse "array op: assert(type == array)"

/-- json_object_array_del_idx -/
def arrDel (s : State) (p : Id) (idx count : Nat) : Step (State × Res) :=
  match s.heap.get? p with
  | none => .misuse "array_del_idx: dead handle"
  | some n =>
    match n.body with
    | .arr xs =>
      if idx > SIZE_T_MAX - count then .ok (s, { ret := -1 })
      else if idx ≥ xs.length ∨ idx + count > xs.length then .ok (s, { ret := -1 })
      else commit s p n (.arr (xs.take idx ++ xs.drop (idx + count))) none
             (((xs.drop idx).take count).filterMap id)
    | _ => .misuse "array_del_idx: assert(type == array)"

/-- json_object_set_userdata / json_object_set_serializer: the previous callback runs first -/
def setUserdata (s : State) (i : Id) (tok : Option Nat) : Step (State × Res) :=
  match s.heap.get? i with
  | none => .misuse "set_userdata: dead handle"
  | some n =>
    .ok ({ s with heap := s.heap.set i { n with ud := tok } }, { cbs := cbOf i n false })

/-! ### json_object_deep_copy

The harness passes a shallow-copy function that creates the node (json_c_shallow_copy_default),
installs a delete callback whose token is the new id, and returns 2; its `failAt`-th invocation
returns -1 instead (how a failure in the middle of a copy is produced).  A copy under construction is
held by a C local: ghost `ext = 1` until json_object_object_add / json_object_array_add hands it to the
parent copy. -/

structure Cp where
  st : State
  calls : Nat                 -- shallow_copy invocations so far
  dead : List Id := []
  cbs : List Cb := []

/-- result of json_object_deep_copy_recursive: `dst` is what the callee left in `*dst` -/
structure CpRes where
  cp : Cp
  dst : Option Id
  okay : Bool

def Cp.absorb (c : Cp) (x : State × Res) : Cp :=
  { c with st := x.1, dead := c.dead ++ x.2.dead, cbs := c.cbs ++ x.2.cbs }

/-- `json_object_put(jso)` on a local (NULL allowed) -/
def cpPut (c : Cp) : Option Id → Step Cp
  | none => .ok c
  | some j => do
    let x ← put c.st j
    pure (c.absorb x)

/-- json_object_object_add(dst, key, jso) / json_object_array_add(dst, jso) inside the copy -/
def cpAttach (c : Cp) (dst : Id) (key : Option Key) (v : Option Id) : Step Cp :=
  match c.st.heap.get? dst with
  | none => .fault "deep_copy: destination vanished"
  | some n =>
    match n.body, key with
    | .obj kvs, some k =>
      match findKey kvs k with
      | none => do let x ← commit c.st dst n (.obj (kvs ++ [(k, v)])) v []; pure (c.absorb x)
      | some old => do let x ← commit c.st dst n (.obj (setKey kvs k v)) v old.toList; pure (c.absorb x)
    | .arr xs, none => do let x ← commit c.st dst n (.arr (xs ++ [v])) v []; pure (c.absorb x)
    | _, _ => .fault "deep_copy: destination has the wrong type"

/-- the loop over the members / elements of the source container -/
def copyKids (rec : Cp → Id → Step CpRes) (dst : Id) : Cp → List (Option Key × Option Id) → Step (Cp × Bool)
  | c, [] => .ok (c, true)
  | c, (key, none) :: rest => do
    let c ← cpAttach c dst key none
    copyKids rec dst c rest
  | c, (key, some child) :: rest => do
    let r ← rec c child
    if r.okay then do
      let c ← cpAttach r.cp dst key r.dst
      copyKids rec dst c rest
    else do
      let c ← cpPut r.cp r.dst            -- `json_object_put(jso); return -1;`
      pure (c, false)

def Body.slots : Body → List (Option Key × Option Id)
  | .scalar _ => []
  | .arr xs => xs.map (fun v => (none, v))
  | .obj kvs => kvs.map (fun kv => (some kv.1, kv.2))

def Body.emptyLike : Body → Body
  | .scalar k => .scalar k
  | .arr _ => .arr []
  | .obj _ => .obj []

/-- json_object_deep_copy_recursive; `fuel` bounds the recursion depth -/
def copyNode (failAt : Option Nat) : Nat → Cp → Id → Step CpRes
  | 0, _, _ => .fault "deep_copy: out of fuel (recursion deeper than the number of live nodes)"
  | fuel + 1, c, src =>
    match c.st.heap.get? src with
    | none => .fault "deep_copy: source node already freed"
    | some n =>
      let calls := c.calls + 1
      if failAt = some calls then .ok ⟨{ c with calls := calls }, none, false⟩
      else
        let (st1, d) := alloc c.st n.body.emptyLike
        -- the harness's shallow copy installs the callback with token = new id
        match setUserdata st1 d (some d) with
        | .ok (st2, _) => do
          let (c3, good) ← copyKids (copyNode failAt fuel) d { c with st := st2, calls := calls } n.body.slots
          pure ⟨c3, some d, good⟩
        | .misuse why => .misuse why
        | .fault why => .fault why

/-- json_object_deep_copy(src, &dst, shallow_copy) with `dst == NULL` on entry -/
def deepCopy (s : State) (src : Id) (failAt : Option Nat) : Step (State × Res) :=
  match s.heap.get? src with
  | none => .misuse "deep_copy: dead handle"
  | some _ => do
    let r ← copyNode failAt (s.heap.length + 1) ⟨s, 0, [], []⟩ src
    if r.okay then
      pure (r.cp.st, { ret := 0, made := r.dst, dead := r.cp.dead, cbs := r.cp.cbs })
    else do
      let c ← cpPut r.cp r.dst             -- `json_object_put(*dst); *dst = NULL;`
      pure (c.st, { ret := -1, dead := c.dead, cbs := c.cbs })

/-! ### json_pointer_set, as far as ownership goes

`path` is the list of reference tokens (already split at '/', the generator uses no `~`).  The walk
over all but the last token borrows; the last token is a json_object_array_add / _put_idx /
json_object_object_add on the node reached.  The empty pointer replaces the caller's root variable:
`json_object_put(*obj); *obj = value;` (the caller keeps its reference to `value`, now through `*obj`). -/

def isDigit (b : UInt8) : Bool := 48 ≤ b && b ≤ 57

/-- is_valid_index: non-empty, decimal digits only, no leading zero unless the token is "0";
strtoull saturates -/
def validIndex (t : Bytes) : Option Nat :=
  if t.isEmpty then none
  else if !t.all isDigit then none
  else if t.length > 1 && t.head? == some 48 then none
  else
    let v := t.foldl (fun acc b => acc * 10 + (b.toNat - 48)) 0
    some (if v > SIZE_T_MAX then SIZE_T_MAX else v)

/-- json_pointer_get_recursive over the leading tokens: `none` = -1 (ENOENT / EINVAL) -/
def ptrWalk (h : Heap) : Option Id → List Bytes → Option (Option Id)
  | cur, [] => some cur
  | none, _ :: _ => none
  | some i, t :: ts =>
    match h.get? i with
    | none => none
    | some n =>
      match n.body with
      | .arr xs =>
        match validIndex t with
        | some idx => if idx < xs.length then ptrWalk h (xs.getD idx none) ts else none
        | none => none
      | .obj kvs =>
        match findKey kvs t with
        | some v => ptrWalk h v ts
        | none => none
      | .scalar _ => none

/-- the container json_pointer_set stores into (the node reached by all but the last token) -/
def ptrParent (s : State) (root : Id) (path : List Bytes) : Option Id :=
  match path with
  | [] => none
  | _ => (ptrWalk s.heap (some root) path.dropLast).join

def ptrSet (s : State) (root : Id) (path : List Bytes) (v : Option Id) : Step (State × Res) :=
  match s.heap.get? root with
  | none => .misuse "pointer_set: dead handle"
  | some _ =>
    match v with
    | some j => if s.ext j = 0 then .misuse "pointer_set: value not owned by the caller" else go
    | none => go
where
  go : Step (State × Res) :=
    match path.getLast? with
    | none =>
      -- "" : json_object_put(*obj); *obj = value; return 0
      match put s root with
      | .ok (s', r) => .ok (s', { r with ret := 0 })
      | .misuse why => .misuse why
      | .fault why => .fault why
    | some last =>
      match ptrParent s root path with
      | none => .ok (s, { ret := -1 })
      | some p =>
        match s.heap.get? p with
        | none => .fault "pointer_set: walked into a freed node"
        | some n =>
          match n.body with
          | .arr _ =>
            if last = [45] then arrStore s p .add v                      -- "-"
            else match validIndex last with
              | some idx => arrStore s p (.put idx) v
              | none => .ok (s, { ret := -1 })
          | .obj _ => objAdd s p last v false
          | .scalar _ => .ok (s, { ret := -1 })

/-! ### operation language (shared with the harness) -/

inductive Op where
  | newObject | newArray | newScalar (k : Scalar)
  | get (i : Id)
  | put (i : Id)
  | objAdd (p : Id) (key : Key) (v : Option Id) (keyIsNew : Bool)
  | objDel (p : Id) (key : Key)
  | arrAdd (p : Id) (v : Option Id)
  | arrPut (p : Id) (idx : Nat) (v : Option Id)
  | arrIns (p : Id) (idx : Nat) (v : Option Id)
  | arrDel (p : Id) (idx count : Nat)
  | setUserdata (i : Id) (tok : Option Nat)
  | setSerializer (i : Id) (tok : Option Nat)
  | deepCopy (src : Id) (failAt : Option Nat)
  | ptrSet (root : Id) (path : List Bytes) (v : Option Id)
  deriving Repr, DecidableEq

/-- constructor as the harness performs it: json_object_new_*, then set_userdata(token = id) -/
def construct (s : State) (body : Body) : Step (State × Res) :=
  let (s1, i) := alloc s body
  match setUserdata s1 i (some i) with
  | .ok (s2, _) => .ok (s2, { made := some i })
  | .misuse why => .misuse why
  | .fault why => .fault why

def step (s : State) : Op → Step (State × Res)
  | .newObject => construct s (.obj [])
  | .newArray => construct s (.arr [])
  | .newScalar k => construct s (.scalar k)
  | .get i => get s i
  | .put i => put s i
  | .objAdd p key v isNew => objAdd s p key v isNew
  | .objDel p key => objDel s p key
  | .arrAdd p v => arrStore s p .add v
  | .arrPut p idx v => arrStore s p (.put idx) v
  | .arrIns p idx v => arrStore s p (.ins idx) v
  | .arrDel p idx count => arrDel s p idx count
  | .setUserdata i tok => setUserdata s i tok
  | .setSerializer i tok => setUserdata s i tok
  | .deepCopy src failAt => deepCopy s src failAt
  | .ptrSet root path v => ptrSet s root path v

def run (s : State) : List Op → Step (State × List Res)
  | [] => .ok (s, [])
  | op :: ops => do
    let (s1, r) ← step s op
    let (s2, rs) ← run s1 ops
    pure (s2, r :: rs)

def init : State := {}

/-- the history follows the documented ownership rules: the model never reports `misuse` -/
def History.WF (ops : List Op) : Prop := (run init ops).isMisuse = false

instance (ops : List Op) : Decidable (History.WF ops) := by unfold History.WF; infer_instance

/-- allocator blocks a live node accounts for: scalar 1 (string data is inline); array 3
(json_object_array, array_list, slot buffer); object 3 (json_object_object, lh_table, entry table)
plus one strdup'd key per member -/
def Node.blocks (n : Node) : Nat :=
  match n.body with
  | .scalar _ => 1
  | .arr _ => 3
  | .obj kvs => 3 + kvs.length

def Heap.blocks (h : Heap) : Nat := (h.map (fun p => p.2.blocks)).sum

end JsonC.Heap
