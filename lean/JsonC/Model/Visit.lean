/-
  Model of json_visit.c: `json_c_visit` and the recursive `_json_c_visit`, transcribed statement
  by statement.  The user function is a parameter `cb : σ → Call → Int × σ` (any function; the
  state σ stands for `userarg` and everything else the callback can read or write, except the tree
  being visited and `*jso_index`, which it is assumed to leave alone).

  json_visit.c performs no arithmetic that can overflow and no buffer access of its own (the
  array index runs below `json_object_array_length`), so there is no `Outcome.fault` site here; the
  recursion depth equals the nesting depth of the tree (C stack exhaustion is not modelled).

  Node identity: a node is named by its pre-order number in the visited tree; the root call passes
  `id = 0`, a child's number is its parent's number + 1 + the sizes of the earlier siblings.
  The interface types `Call`, `Slot`, `Cb` are those of Spec/Traversal.lean.
-/
import JsonC.Base.Basic
import JsonC.Generated.Consts
import JsonC.Model.Value
import JsonC.Spec.Traversal

namespace JsonC.Visit
open JsonC Generated Traversal

/-- the `switch (userret)` after the first userfunc call (json_visit.c:35-47):
`none` = `break` (go on to the type switch), `some c` = `return c` -/
def firstSwitch (userret : Int) : Option Int :=
  if userret = visitContinue then none
  else if userret = visitSkip ∨ userret = visitPop ∨ userret = visitStop ∨ userret = visitError then
    some userret
  else some visitError     -- default: "ERROR: invalid return value from json_c_visit userfunc"

/-- what the member / element loops do with the value a recursive call returned (json_visit.c:63-74, 85-96) -/
inductive LoopStep where
  | next              -- go round the loop again
  | brk               -- `break`
  | ret (c : Int)     -- `return c`
  deriving Repr, DecidableEq

def afterChild (userret : Int) : LoopStep :=
  if userret = visitPop then .brk
  else if userret = visitStop ∨ userret = visitError then .ret userret
  else if userret ≠ visitContinue ∧ userret ≠ visitSkip then
    .ret visitError    -- "INTERNAL ERROR: _json_c_visit returned %d"
  else .next

/-- the `switch (userret)` after the JSON_C_VISIT_SECOND call (json_visit.c:113-126) -/
def secondSwitch (userret : Int) : Int :=
  if userret = visitSkip ∨ userret = visitPop ∨ userret = visitContinue then visitContinue
  else if userret = visitStop ∨ userret = visitError then userret
  else visitError          -- default: "ERROR: invalid return value from json_c_visit userfunc"

/-- how a child loop ended -/
inductive LoopEnd where
  | fin               -- ran off the end of the members / elements
  | brk               -- left by `break` (a child returned POP)
  | ret (c : Int)     -- the function returned `c` from inside the loop
  deriving Repr, DecidableEq

/-- what follows a child loop (json_visit.c:108-127): a `return` from inside the loop has already left
the function; otherwise (loop ran to its end, or `break`) the user function is called a second time with
JSON_C_VISIT_SECOND (`second` is that call) and its answer mapped by `secondSwitch` -/
def afterLoop {σ : Type} (cb : Cb σ) (l : LoopEnd × σ) (second : Call) : Int × σ :=
  match l.1 with
  | .ret c => (c, l.2)
  | _ =>
    let r2 := cb l.2 second
    (secondSwitch r2.1, r2.2)

mutual
  /-- `_json_c_visit(jso, parent_jso, jso_key, jso_index, userfunc, userarg)`; `id` names `jso`,
  `parent`/`slot` are `parent_jso` and `jso_key`/`*jso_index` -/
  def visitNode {σ : Type} (cb : Cb σ) (s : σ) (v : JVal) (id : Nat) (parent : Option Nat) (slot : Slot) :
      Int × σ :=
    match v with
    | .arr xs =>
      let r := cb s ⟨id, .arr xs, 0, parent, slot⟩
      match firstSwitch r.1 with
      | some c => (c, r.2)
      | none =>
        -- case json_type_array: for (ii = 0; ii < array_len; ii++)
        afterLoop cb (visitElems cb r.2 xs id 0 (id + 1)) ⟨id, .arr xs, visitSecond, parent, slot⟩
    | .obj kvs =>
      let r := cb s ⟨id, .obj kvs, 0, parent, slot⟩
      match firstSwitch r.1 with
      | some c => (c, r.2)
      | none =>
        -- case json_type_object: json_object_object_foreach(jso, key, child)
        afterLoop cb (visitMembers cb r.2 kvs id (id + 1)) ⟨id, .obj kvs, visitSecond, parent, slot⟩
    | v =>
      -- null, boolean, double, int, string
      let r := cb s ⟨id, v, 0, parent, slot⟩
      match firstSwitch r.1 with
      | some c => (c, r.2)
      | none => (visitContinue, r.2)
  /-- the array loop from element `ii` on; `cid` names the element `xs` starts with -/
  def visitElems {σ : Type} (cb : Cb σ) (s : σ) (xs : List JVal) (pid : Nat) (ii : Nat) (cid : Nat) :
      LoopEnd × σ :=
    match xs with
    | [] => (.fin, s)
    | x :: xs =>
      let r := visitNode cb s x cid (some pid) (.idx ii)
      match afterChild r.1 with
      | .brk => (.brk, r.2)
      | .ret c => (.ret c, r.2)
      | .next => visitElems cb r.2 xs pid (ii + 1) (cid + x.size)
  /-- the member loop (linkhash iteration = insertion order) -/
  def visitMembers {σ : Type} (cb : Cb σ) (s : σ) (kvs : List (Bytes × JVal)) (pid : Nat) (cid : Nat) :
      LoopEnd × σ :=
    match kvs with
    | [] => (.fin, s)
    | (k, v) :: kvs =>
      let r := visitNode cb s v cid (some pid) (.key k)
      match afterChild r.1 with
      | .brk => (.brk, r.2)
      | .ret c => (.ret c, r.2)
      | .next => visitMembers cb r.2 kvs pid (cid + v.size)
end

/-- the `switch (ret)` of `json_c_visit` (json_visit.c:21-29) -/
def finalSwitch (ret : Int) : Int :=
  if ret = visitContinue ∨ ret = visitSkip ∨ ret = visitPop ∨ ret = visitStop then 0
  else visitError

/-- `json_c_visit(jso, future_flags, userfunc, userarg)`: `future_flags` is not used by the C code -/
def visit {σ : Type} (cb : Cb σ) (s : σ) (t : JVal) (_futureFlags : Int := 0) : Int × σ :=
  let r := visitNode cb s t 0 none .root
  (finalSwitch r.1, r.2)

end JsonC.Visit
