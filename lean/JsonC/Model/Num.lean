/-
  Model of the numeric accessors and mutators of json_object.c and of json_parse_int64 /
  json_parse_uint64 of json_util.c ("checked C").

  * A node is a `JVal` (`null` = the NULL pointer).  `int true v` is stored as int64, `int false v`
    as uint64; `bool` holds 0/1.
  * A double is its 64-bit pattern, decoded exactly (`Dbl.decode`) to ±num/den | inf | nan.  The
    C comparisons `c_double >= (double)INT64_MAX` etc. are exact comparisons with 2^63, 2^64,
    -2^31 …; a C cast double → integer is the truncation, and is `Outcome.fault` when the
    truncated value is outside the target type or the operand is an infinity or NaN (C11 6.3.1.4);
    signed int64 arithmetic that overflows is a fault.
  * errno: every function reports what it does to errno (`ErrEff`): leaves it, or sets a class.
  * libc (`strtoll`, `strtoull`, `strtod`) is a parameter (`LibcNum`).
  * Known-defect clauses log a tag naming the C site (`R.tags`): two, both in json_object_get_double.
-/
import JsonC.Base.Basic
import JsonC.Generated.Structure
import JsonC.Model.Value
import JsonC.Libc.DblDecode
import JsonC.Libc.Strtoll
import JsonC.Libc.StrtodRef

namespace JsonC.Num
open JsonC JsonC.Dbl JsonC.Libc Generated

/-- what a call does to errno -/
inductive ErrEff where
  | keep                 -- errno not written
  | set (e : Errno)      -- errno = e at return (`set .none`: the function executed `errno = 0`)
  deriving Repr, DecidableEq

/-- errno after the call, given errno before it -/
def ErrEff.after : ErrEff → Errno → Errno
  | .keep, before => before
  | .set e, _ => e

/-- result of an accessor -/
structure R (α : Type) where
  val : α
  err : ErrEff
  tags : List String := []
  deriving Repr, DecidableEq

/-- the C library functions the code calls -/
structure LibcNum where
  strtoll : Bytes → StrRes
  strtoull : Bytes → StrRes
  strtod : Bytes → DRes

/-- the reference instance (used by the driver; validated against the real libc on every run) -/
def refLibc : LibcNum := ⟨Libc.strtoll, Libc.strtoull, Libc.strtod⟩

def TWO63 : Int := 9223372036854775808
def TWO64 : Int := 18446744073709551616

/-- a converted value must lie in the target type, else the conversion is undefined -/
def ckRange (lo hi x : Int) (site : String) : Outcome Int :=
  if lo ≤ x ∧ x ≤ hi then .ok x else .fault site

/-! ### C semantics of `double` operands -/

def sgnNum (neg : Bool) (num : Nat) : Int := if neg then -(num : Int) else num

/-- `d < c` for an integer constant `c` (exactly representable); false for NaN -/
def _root_.JsonC.Dbl.Dec.lt (d : Dec) (c : Int) : Bool :=
  match d with
  | .fin neg num den => decide (sgnNum neg num < c * den)
  | .inf neg => neg
  | .nan => false

def _root_.JsonC.Dbl.Dec.le (d : Dec) (c : Int) : Bool :=
  match d with
  | .fin neg num den => decide (sgnNum neg num ≤ c * den)
  | .inf neg => neg
  | .nan => false

def _root_.JsonC.Dbl.Dec.gt (d : Dec) (c : Int) : Bool :=
  match d with
  | .fin neg num den => decide (sgnNum neg num > c * den)
  | .inf neg => !neg
  | .nan => false

def _root_.JsonC.Dbl.Dec.ge (d : Dec) (c : Int) : Bool :=
  match d with
  | .fin neg num den => decide (sgnNum neg num ≥ c * den)
  | .inf neg => !neg
  | .nan => false

def _root_.JsonC.Dbl.Dec.isNan : Dec → Bool
  | .nan => true
  | _ => false

/-- `d != 0` -/
def _root_.JsonC.Dbl.Dec.neZero : Dec → Bool
  | .fin _ num _ => num != 0
  | _ => true

/-- `(T)d` for an integer type T = [lo, hi] -/
def _root_.JsonC.Dbl.Dec.cast (d : Dec) (lo hi : Int) (site : String) : Outcome Int :=
  match d with
  | .fin neg num den =>
    if den = 0 then .fault "decode: zero denominator"
    else ckRange lo hi (sgnNum neg (num / den)) site
  | _ => .fault site

/-! ### json_util.c -/

/-- outcome of json_parse_int64 / json_parse_uint64: return code, what was stored through
`retval` (`none` = not written), errno at return -/
structure ParseRes where
  rc : Int
  retval : Option Int
  errno : Errno
  tags : List String := []
  deriving Repr, DecidableEq

/-- the common tail of both parsers: `if (end != buf) *retval = val;
if ((val == 0 && errno != 0) || (end == buf)) { errno = EINVAL; return 1; } return 0;` -/
def parseTail (r : StrRes) (tags : List String) : ParseRes :=
  let retval := if r.consumed ≠ 0 then some r.val else none
  if (r.val = 0 ∧ r.errno ≠ .none) ∨ r.consumed = 0 then ⟨1, retval, .EINVAL, []⟩
  else ⟨0, retval, r.errno, tags⟩

/-- int json_parse_int64(const char *buf, int64_t *retval) -/
def parseInt64 (L : LibcNum) (buf : Bytes) : ParseRes :=
  parseTail (L.strtoll buf) []                -- errno = 0; val = strtoll(buf, &end, 10);

/-- int json_parse_uint64(const char *buf, uint64_t *retval) -/
def parseUint64 (L : LibcNum) (buf : Bytes) : ParseRes :=
  let b := buf.dropWhile isSpace              -- while (isspace((unsigned char)*buf)) buf++;
  match b with
  | 45 :: _ => ⟨1, none, .EINVAL, []⟩         -- if (*buf == '-') { errno = EINVAL; return 1; }
  | _ => parseTail (L.strtoull b) []          -- val = strtoull(buf, &end, 10); …

/-- `if (json_parse_…(s, &c) == 0) return c; /* FALLTHRU */ default: return 0;` -/
def useParsed (p : ParseRes) (site : String) : Outcome (R Int) :=
  if p.rc = 0 then
    match p.retval with
    | some c => .ok ⟨c, .set p.errno, p.tags⟩
    | none => .fault site
  else .ok ⟨0, .set p.errno, p.tags⟩

/-! ### accessors -/

def boolInt (b : Bool) : Int := if b then 1 else 0

/-- json_bool json_object_get_boolean(const struct json_object *jso) -/
def getBoolean : JVal → Outcome (R Bool)
  | .null => .ok ⟨false, .keep, []⟩
  | .bool b => .ok ⟨b, .keep, []⟩
  | .int _ v => .ok ⟨decide (v ≠ 0), .keep, []⟩
  | .dbl bits _ => .ok ⟨(decode bits.toNat).neZero, .keep, []⟩
  | .str s => .ok ⟨decide (s.length ≠ 0), .keep, []⟩
  | .arr _ => .ok ⟨false, .keep, []⟩
  | .obj _ => .ok ⟨false, .keep, []⟩

/-- the `case json_type_int:` tail of json_object_get_int; `e0` = errno on entry to it -/
def clampInt32 (cint64 : Int) (e0 : Errno) (tags : List String) : Outcome (R Int) :=
  if cint64 < INT32_MIN then .ok ⟨INT32_MIN, .set .ERANGE, tags⟩
  else if cint64 > INT32_MAX then .ok ⟨INT32_MAX, .set .ERANGE, tags⟩
  else .ok ⟨cint64, .set e0, tags⟩          -- (int32_t)cint64 : in range

/-- int32_t json_object_get_int(const struct json_object *jso) -/
def getInt (L : LibcNum) : JVal → Outcome (R Int)
  | .null => .ok ⟨0, .set .none, []⟩                 -- errno = 0; if (!jso) return 0;
  | .int true v => clampInt32 v .none []
  | .int false v =>
    if v ≥ INT64_MAX then clampInt32 INT64_MAX .none []
    else do
      let c ← ckRange INT64_MIN INT64_MAX v "get_int: (int64_t)c_uint64"
      clampInt32 c .none []
  | .str s =>
    let p := parseInt64 L (cstr s)
    if p.rc ≠ 0 then .ok ⟨0, .set p.errno, p.tags⟩
    else
      -- cint64 was initialised to 0, so it is defined even if json_parse_int64 did not store
      clampInt32 (p.retval.getD 0) p.errno p.tags
  | .dbl bits _ =>
    let d := decode bits.toNat
    if (if numI32DblLoStrict then d.lt INT32_MIN else d.le INT32_MIN) then .ok ⟨INT32_MIN, .set .ERANGE, []⟩
    else if (if numI32DblHiStrict then d.gt INT32_MAX else d.ge INT32_MAX) then .ok ⟨INT32_MAX, .set .ERANGE, []⟩
    else if d.isNan then .ok ⟨INT32_MIN, .set .EINVAL, []⟩
    else do
      let c ← d.cast INT32_MIN INT32_MAX "get_int: (int32_t)cdouble outside int32"
      .ok ⟨c, .set .none, []⟩
  | .bool b => .ok ⟨boolInt b, .set .none, []⟩
  | .arr _ => .ok ⟨0, .set .none, []⟩
  | .obj _ => .ok ⟨0, .set .none, []⟩

/-- int64_t json_object_get_int64(const struct json_object *jso) -/
def getInt64 (L : LibcNum) : JVal → Outcome (R Int)
  | .null => .ok ⟨0, .set .none, []⟩
  | .int true v => .ok ⟨v, .set .none, []⟩
  | .int false v =>
    if v > INT64_MAX then .ok ⟨INT64_MAX, .set .ERANGE, []⟩
    else do
      let c ← ckRange INT64_MIN INT64_MAX v "get_int64: (int64_t)c_uint64"
      .ok ⟨c, .set .none, []⟩
  | .dbl bits _ =>
    let d := decode bits.toNat
    if (if numI64DblHiIncl then d.ge TWO63 else d.gt TWO63) then .ok ⟨INT64_MAX, .set .ERANGE, []⟩
    else if (if numI64DblLoStrict then d.lt (-TWO63) else d.le (-TWO63)) then .ok ⟨INT64_MIN, .set .ERANGE, []⟩
    else if d.isNan then .ok ⟨INT64_MIN, .set .EINVAL, []⟩
    else do
      let c ← d.cast INT64_MIN INT64_MAX "get_int64: (int64_t)c_double outside int64"
      .ok ⟨c, .set .none, []⟩
  | .bool b => .ok ⟨boolInt b, .set .none, []⟩
  | .str s =>
    useParsed (parseInt64 L (cstr s)) "get_int64: cint read uninitialised"
  | .arr _ => .ok ⟨0, .set .none, []⟩
  | .obj _ => .ok ⟨0, .set .none, []⟩

/-- uint64_t json_object_get_uint64(const struct json_object *jso) -/
def getUint64 (L : LibcNum) : JVal → Outcome (R Int)
  | .null => .ok ⟨0, .set .none, []⟩
  | .int true v =>
    if v < 0 then .ok ⟨0, .set .ERANGE, []⟩
    else do
      let c ← ckRange 0 UINT64_MAX v "get_uint64: (uint64_t)c_int64"
      .ok ⟨c, .set .none, []⟩
  | .int false v => .ok ⟨v, .set .none, []⟩
  | .dbl bits _ =>
    let d := decode bits.toNat
    if (if numU64DblHiIncl then d.ge TWO64 else d.gt TWO64) then .ok ⟨UINT64_MAX, .set .ERANGE, []⟩
    else if (if numU64DblLoStrict then d.lt 0 else d.le 0) then .ok ⟨0, .set .ERANGE, []⟩
    else if d.isNan then .ok ⟨0, .set .EINVAL, []⟩
    else do
      let c ← d.cast 0 UINT64_MAX "get_uint64: (uint64_t)c_double outside uint64"
      .ok ⟨c, .set .none, []⟩
  | .bool b => .ok ⟨boolInt b, .set .none, []⟩
  | .str s =>
    useParsed (parseUint64 L (cstr s)) "get_uint64: cuint read uninitialised"
  | .arr _ => .ok ⟨0, .set .none, []⟩
  | .obj _ => .ok ⟨0, .set .none, []⟩

/-- double json_object_get_double(const struct json_object *jso): the result is a bit pattern -/
def getDouble (L : LibcNum) : JVal → Outcome (R Nat)
  | .null => .ok ⟨0, .keep, []⟩
  | .dbl bits _ => .ok ⟨bits.toNat, .keep, []⟩
  | .int _ v => .ok ⟨intToDbl v, .keep, []⟩          -- (double)c_int64 / (double)c_uint64
  | .bool b => .ok ⟨if b then 0x3FF0000000000000 else 0, .keep, []⟩
  | .str s =>
    let t := cstr s
    let r := L.strtod t                              -- errno = 0; cdouble = strtod(s, &errPtr);
    if r.consumed = 0 then .ok ⟨0, .set .EINVAL, []⟩     -- errPtr == s
    else if r.consumed > t.length then .fault "get_double: strtod end pointer past the string"
    else if r.consumed ≠ t.length then .ok ⟨0, .set .EINVAL, []⟩   -- *errPtr != '\0'
    else if r.bits % 2 ^ 63 = posInf ∧ r.errno = .ERANGE then
      -- (HUGE_VAL == cdouble || -HUGE_VAL == cdouble) && ERANGE == errno: cdouble = 0.0
      -- the header documents "the closest infinity with errno set to ERANGE"
      .ok ⟨0, .set .ERANGE, ["num.get_double.string-overflow-zero"]⟩
    else .ok ⟨r.bits, .set r.errno, []⟩
  | .arr _ =>
    -- default: errno = EINVAL; return 0.0 — the header documents [] = 0 without error,
    -- [x] = conversion of x, longer arrays = NaN
    .ok ⟨0, .set .EINVAL, ["num.get_double.array-doc"]⟩
  | .obj _ => .ok ⟨0, .set .EINVAL, []⟩

/-! ### mutators -/

/-- int json_object_set_boolean(struct json_object *jso, json_bool new_value) -/
def setBoolean (n : JVal) (b : Bool) : Int × JVal :=
  match n with
  | .bool _ => (1, .bool b)
  | _ => (0, n)

/-- int json_object_set_int64(struct json_object *jso, int64_t new_value) -/
def setInt64 (n : JVal) (v : Int) : Int × JVal :=
  match n with
  | .int _ _ => (1, .int true v)
  | _ => (0, n)

/-- int json_object_set_int(struct json_object *jso, int new_value) -/
def setInt (n : JVal) (v : Int) : Int × JVal := setInt64 n v

/-- int json_object_set_uint64(struct json_object *jso, uint64_t new_value) -/
def setUint64 (n : JVal) (v : Int) : Int × JVal :=
  match n with
  | .int _ _ => (1, .int false v)
  | _ => (0, n)

/-- int json_object_set_double(struct json_object *jso, double new_value): a retained source text
(json_object_new_double_s) is dropped together with its serializer -/
def setDouble (n : JVal) (bits : UInt64) : Int × JVal :=
  match n with
  | .dbl _ _ => (1, .dbl bits none)
  | _ => (0, n)

/-- 2^64, the modulus of uint64_t arithmetic (a literal, so that `omega` sees through it) -/
local notation "MOD64" => (18446744073709551616 : Int)

/-- `(uint64_t)x` of an int64 -/
def toU64 (x : Int) : Int := x % MOD64

/-- the magnitude of a negative increment, as the source computes it -/
def negMag (val : Int) : Outcome Int :=
  if numIncNegatesUnsigned then .ok ((-(toU64 val)) % MOD64)            -- -(uint64_t)val
  else do
    let m ← ckRange INT64_MIN INT64_MAX (-val) "int_inc: -val overflows int64"
    .ok (toU64 m)

/-- int json_object_int_inc(struct json_object *jso, int64_t val) -/
def intInc (n : JVal) (val : Int) : Outcome (Int × JVal) :=
  match n with
  | .int true c =>
    if val > 0 ∧ c > INT64_MAX - val then
      .ok (1, .int false ((toU64 c + toU64 val) % MOD64))
    else if val < 0 ∧ c < INT64_MIN - val then .ok (1, .int true INT64_MIN)
    else do
      let s ← ckRange INT64_MIN INT64_MAX (c + val) "int_inc: c_int64 += val overflows"
      .ok (1, .int true s)
  | .int false u =>
    if val > 0 ∧ u > UINT64_MAX - toU64 val then .ok (1, .int false UINT64_MAX)
    else if val < 0 then do
      let m ← negMag val
      if u < m then do
        let cu ← ckRange INT64_MIN INT64_MAX u "int_inc: (int64_t)c_uint64"
        let s ← ckRange INT64_MIN INT64_MAX (cu + val) "int_inc: (int64_t)c_uint64 + val overflows"
        .ok (1, .int true s)
      else .ok (1, .int false ((u - m) % MOD64))
    else .ok (1, .int false ((u + toU64 val) % MOD64))
  | _ => .ok (0, n)

/-- the number an int node holds -/
def intValue : JVal → Option Int
  | .int _ v => some v
  | _ => none

/-- representation invariant of an int node / range of the C argument types -/
def _root_.JsonC.JVal.NumWF : JVal → Prop
  | .int true v => INT64_MIN ≤ v ∧ v ≤ INT64_MAX
  | .int false v => 0 ≤ v ∧ v ≤ UINT64_MAX
  | _ => True

def IsI64 (v : Int) : Prop := INT64_MIN ≤ v ∧ v ≤ INT64_MAX
def IsU64 (v : Int) : Prop := 0 ≤ v ∧ v ≤ UINT64_MAX

end JsonC.Num
