/-
  Model of the string node of json_object.c / json_object_private.h ("checked C").

    struct json_object_string {
      struct json_object base;
      ssize_t len;                 // sign selects the representation
      union { char idata[1];       // len >= 0: the bytes follow the header inside the node's allocation
              char *pdata; }       // len <  0: separately allocated buffer holding -len bytes
        c_string; };

  Memory is a list of blocks (`id` = index, never reused); a block is what one `malloc` returned.
  Every access is checked (block live, inside the allocation, bytes read are initialised), every
  `size_t` / `ssize_t` computation is range-checked: a violated check is `Outcome.fault`.  Every
  allocator call and every access is also appended to an event log (`ByteStr.Ev`) so that the
  allocator discipline can be stated on the log alone.  The outcome of `malloc` is a parameter.

  The node's header fields (`len`, the pointer value of `pdata`) are the fields of `Node`; they
  live inside block `blk`, so every function first checks that this block is live.  The bytes of
  the union are the cells of block `blk` from offset `off`; storing a pointer there makes the
  first `sizeof(char *)` of them indeterminate as characters, storing characters destroys the
  pointer (`pdata := none`).
-/
import JsonC.Base.Basic
import JsonC.Generated.Consts
import JsonC.Generated.Structure
import JsonC.Spec.ByteStr

namespace JsonC.StrStore
open JsonC Generated
open JsonC.ByteStr (Ev)

def INT_MAX : Int := (intMax : Int)
def INT_MIN : Int := -(intMax : Int) - 1
def SSIZE_MAX : Int := (ssizeMax : Int)
def SIZE_MAX : Int := (sizeMax : Int)
/-- offsetof(struct json_object_string, c_string): where idata starts inside the node's block -/
def off : Nat := offsetofStringData
/-- sizeof(void *): the room `pdata` needs -/
def ptrSize : Nat := sizeofPtr

/-- a value computed in `size_t` arithmetic; the code never relies on wrap-around here -/
def ckSize (x : Int) (site : String) : Outcome Nat :=
  if 0 ≤ x ∧ x ≤ SIZE_MAX then .ok x.toNat else .fault ("size_t wrap: " ++ site)

/-- a value computed in, or converted to, `ssize_t` -/
def ckSsize (x : Int) (site : String) : Outcome Int :=
  if -SSIZE_MAX - 1 ≤ x ∧ x ≤ SSIZE_MAX then .ok x else .fault ("ssize_t overflow: " ++ site)

/-- conversion `ssize_t → int` (implementation-defined outside the range; gcc reduces modulo 2^32).
The flag reports that the value did not fit. -/
def toInt (x : Int) : Int × Bool :=
  if INT_MIN ≤ x ∧ x ≤ INT_MAX then (x, false)
  else ((x + (INT_MAX + 1)) % (2 * (INT_MAX + 1)) - (INT_MAX + 1), true)

/-- conversion `int → size_t` (defined: modulo SIZE_MAX + 1) -/
def toSizeT (x : Int) : Nat := if x < 0 then (x + (SIZE_MAX + 1)).toNat else x.toNat

/-! ### memory -/

structure Block where
  size : Nat                      -- what malloc was asked for
  cells : List (Option UInt8)     -- `none` = indeterminate (never written / holds a pointer)
  live : Bool
  deriving Repr, DecidableEq

structure Mem where
  heap : List Block := []
  trace : List Ev := []
  deriving Repr

/-- `cells[o .. o+cs.length) := cs` (caller has checked the bounds) -/
def writeAt (cells : List (Option UInt8)) (o : Nat) (cs : List (Option UInt8)) : List (Option UInt8) :=
  cells.take o ++ cs ++ cells.drop (o + cs.length)

/-- all cells initialised? -/
def allSome : List (Option UInt8) → Option Bytes
  | [] => some []
  | none :: _ => none
  | some b :: cs => (allSome cs).map (b :: ·)

/-- malloc(size): `ok` = the allocator's answer (parameter) -/
def Mem.malloc (m : Mem) (size : Nat) (ok : Bool) : Mem × Option Nat :=
  if ok then
    ({ heap := m.heap ++ [{ size := size, cells := List.replicate size none, live := true }],
       trace := m.trace ++ [.malloc m.heap.length size] }, some m.heap.length)
  else ({ m with trace := m.trace ++ [.mallocFail size] }, none)

/-- free(p) -/
def Mem.free (m : Mem) (id : Nat) (site : String) : Outcome Mem :=
  match m.heap[id]? with
  | none => .fault (site ++ ": free of a pointer that malloc never returned")
  | some b =>
    if b.live then .ok { heap := m.heap.set id { b with live := false }, trace := m.trace ++ [.free id] }
    else .fault (site ++ ": double free")

/-- store `cs` at `block id + o` -/
def Mem.store (m : Mem) (id o : Nat) (cs : List (Option UInt8)) (site : String) : Outcome Mem :=
  match m.heap[id]? with
  | none => .fault (site ++ ": wild pointer")
  | some b =>
    if b.live = false then .fault (site ++ ": write to freed memory")
    else if o + cs.length > b.size ∨ b.size ≠ b.cells.length then .fault (site ++ ": write outside the allocation")
    else .ok { heap := m.heap.set id { b with cells := writeAt b.cells o cs }, trace := m.trace ++ [.write id] }

/-- read `n` bytes at `block id + o` -/
def Mem.load (m : Mem) (id o n : Nat) (site : String) : Outcome (Mem × Bytes) :=
  match m.heap[id]? with
  | none => .fault (site ++ ": wild pointer")
  | some b =>
    if b.live = false then .fault (site ++ ": read of freed memory")
    else if o + n > b.size ∨ b.size ≠ b.cells.length then .fault (site ++ ": read outside the allocation")
    else match allSome ((b.cells.drop o).take n) with
      | none => .fault (site ++ ": read of indeterminate bytes")
      | some bs => .ok ({ m with trace := m.trace ++ [.read id] }, bs)

/-- index of the first NUL among initialised cells; `none` when an indeterminate cell or the end
of the block comes first -/
def scanNul : List (Option UInt8) → Option Nat
  | [] => none
  | none :: _ => none
  | some b :: cs => if b = 0 then some 0 else (scanNul cs).map (· + 1)

/-- strlen(block id + o) -/
def Mem.strlen (m : Mem) (id o : Nat) (site : String) : Outcome (Mem × Nat) :=
  match m.heap[id]? with
  | none => .fault (site ++ ": wild pointer")
  | some b =>
    if b.live = false then .fault (site ++ ": read of freed memory")
    else if o > b.size ∨ b.size ≠ b.cells.length then .fault (site ++ ": read outside the allocation")
    else match scanNul (b.cells.drop o) with
      | none => .fault (site ++ ": strlen runs into indeterminate bytes or past the allocation")
      | some k => .ok ({ m with trace := m.trace ++ [.read id] }, k)

/-- strlen of a caller-owned object: `none` when it holds no NUL (the caller broke the contract) -/
def cstrlen : Bytes → Option Nat
  | [] => none
  | b :: bs => if b = 0 then some 0 else (cstrlen bs).map (· + 1)

/-- where `memcpy` reads from -/
inductive Src where
  | caller (obj : Bytes)        -- a caller-owned object of exactly these bytes, disjoint from every block
  | block (id o : Nat)          -- a pointer into a block of the model (deep copy)
  deriving Repr, DecidableEq

def fetch (m : Mem) (src : Src) (n : Nat) (site : String) : Outcome (Mem × Bytes) :=
  match src with
  | .caller obj =>
    if n > obj.length then .fault (site ++ ": reads past the source object") else .ok (m, obj.take n)
  | .block id o => m.load id o n site

/-! ### the node -/

structure Node where
  blk : Nat                -- the node's own allocation
  len : Int                -- jso->len
  pdata : Option Nat       -- c_string.pdata when the union last received a pointer
  deriving Repr, DecidableEq

/-- dereferencing `jso` -/
def liveNode (m : Mem) (n : Node) (site : String) : Outcome Unit :=
  match m.heap[n.blk]? with
  | none => .fault (site ++ ": wild node pointer")
  | some b => if b.live then .ok () else .fault (site ++ ": use of a freed node")

/-- reading `c_string.pdata` -/
def readPdata (n : Node) (site : String) : Outcome Nat :=
  match n.pdata with
  | some p => .ok p
  | none => .fault (site ++ ": pdata read while the union holds characters")

/-- static struct json_object *_json_object_new_string(const char *s, const size_t len) -/
def newString (m : Mem) (src : Src) (len : Nat) (mallocOk : Bool) : Outcome (Mem × Option Node) := do
  let h ← ckSize ((sizeofJsonObjectString : Int) - sizeofStringUnion) "new: sizeof(*jso) - sizeof(jso->c_string)"
  let lim1 ← ckSize (SSIZE_MAX - h) "new: SSIZE_T_MAX - (sizeof(*jso) - sizeof(jso->c_string))"
  let lim ← ckSize ((lim1 : Int) - strNewGuardSlack) "new: SSIZE_T_MAX - (...) - 1"
  if len > lim then .ok (m, none)
  else if (len : Int) ≥ INT_MAX - strNewIntGuardSlack then .ok (m, none)
  else
    let s1 ← ckSize ((h : Int) + len) "new: (sizeof(*jso) - sizeof(jso->c_string)) + len"
    let s2 ← ckSize ((s1 : Int) + strNewNulRoom) "new: ... + len + 1"
    let objsize ← if len < ptrSize then ckSize ((s2 : Int) + ((ptrSize : Int) - len)) "new: objsize += sizeof(void *) - len"
                  else pure s2
    match m.malloc objsize mallocOk with
    | (m, none) => .ok (m, none)
    | (m, some id) =>
      let l ← ckSsize len "new: jso->len = len"
      let (m, bs) ← fetch m src len "new: memcpy(jso->c_string.idata, s, len)"
      let m ← m.store id off (bs.map some) "new: memcpy(jso->c_string.idata, s, len)"
      let m ← m.store id (off + len) [some 0] "new: idata[len] = 0"
      .ok (m, some { blk := id, len := l, pdata := none })

/-- struct json_object *json_object_new_string(const char *s): `obj` is the object `s` points to -/
def newStringZ (m : Mem) (obj : Bytes) (mallocOk : Bool) : Outcome (Mem × Option Node) :=
  match cstrlen obj with
  | none => .fault "json_object_new_string: strlen runs past the source object"
  | some k => newString m (.caller obj) k mallocOk

/-- struct json_object *json_object_new_string_len(const char *s, const int len) -/
def newStringLen (m : Mem) (src : Src) (len : Int) (mallocOk : Bool) : Outcome (Mem × Option Node) :=
  newString m src (toSizeT len) mallocOk

/-- get_string_component_mutable: (block, offset) of the first character -/
def stringComponent (m : Mem) (n : Node) (site : String) : Outcome (Nat × Nat) := do
  liveNode m n site
  if n.len < 0 then
    let p ← readPdata n site
    pure (p, 0)
  else pure (n.blk, off)

/-- static inline ssize_t _json_object_get_string_len(const struct json_object_string *jso) -/
def absLen (m : Mem) (n : Node) (site : String) : Outcome Int := do
  liveNode m n site
  if n.len < 0 then ckSsize (-n.len) (site ++ ": -(ssize_t)len") else pure n.len

/-- int json_object_get_string_len(const struct json_object *jso); flag = the ssize_t did not fit the int -/
def getStringLen (m : Mem) (n : Node) : Outcome (Int × Bool) := do
  let l ← absLen m n "json_object_get_string_len"
  pure (toInt l)

/-- static int _json_object_set_string_len(json_object *jso, const char *s, size_t len) -/
def setString (m : Mem) (n : Node) (src : Src) (len : Nat) (mallocOk : Bool) : Outcome (Mem × Node × Int) := do
  liveNode m n "set"
  if (len : Int) ≥ INT_MAX - strSetGuardSlack then .ok (m, n, 0)
  else
    -- curlen = JC_STRING(jso)->len; if (curlen < 0) { if (len == 0) { free(pdata); len = curlen = 0; } else curlen = -curlen; }
    let (m, n, curlen) ←
      if n.len < 0 then
        if len = 0 then do
          let p ← readPdata n "set: free(pdata), len == 0"
          let m ← m.free p "set: free(pdata), len == 0"
          pure (m, { n with len := 0 }, (0 : Int))
        else do
          let c ← ckSsize (-n.len) "set: curlen = -curlen"
          pure (m, n, c)
      else pure (m, n, n.len)
    let newlen ← ckSsize len "set: newlen = len"
    let dst ← stringComponent m n "set: get_string_component_mutable"
    let lenS ← ckSsize len "set: (ssize_t)len"
    if lenS > curlen then
      let sz ← ckSize ((len : Int) + strGrowNulRoom) "set: malloc(len + 1)"
      match m.malloc sz mallocOk with
      | (m, none) => .ok (m, n, 0)
      | (m, some id) =>
        let m ← if n.len < 0 then do
                  let p ← readPdata n "set: free(old pdata)"
                  m.free p "set: free(old pdata)"
                else pure m
        -- JC_STRING(jso)->c_string.pdata = dstbuf: the pointer overwrites the first bytes of the union
        let m ← m.store n.blk off (List.replicate ptrSize none) "set: c_string.pdata = dstbuf"
        let nl ← ckSsize (-(len : Int)) "set: newlen = -(ssize_t)len"
        let (m, bs) ← fetch m src len "set: memcpy(dstbuf, s, len)"
        let m ← m.store id 0 (bs.map some) "set: memcpy(dstbuf, s, len)"
        let m ← m.store id len [some 0] "set: dstbuf[len] = 0"
        .ok (m, { n with pdata := some id, len := nl }, 1)
    else
      let nl ← if n.len < 0 then ckSsize (-(len : Int)) "set: newlen = -(ssize_t)len" else pure newlen
      let (m, bs) ← fetch m src len "set: memcpy(dstbuf, s, len)"
      let m ← m.store dst.1 dst.2 (bs.map some) "set: memcpy(dstbuf, s, len)"
      let m ← m.store dst.1 (dst.2 + len) [some 0] "set: dstbuf[len] = 0"
      -- characters written into the union destroy a pointer held there
      let pd := if n.len < 0 then n.pdata else none
      .ok (m, { n with pdata := pd, len := nl }, 1)

/-- int json_object_set_string(json_object *jso, const char *s) -/
def setStringZ (m : Mem) (n : Node) (obj : Bytes) (mallocOk : Bool) : Outcome (Mem × Node × Int) :=
  match cstrlen obj with
  | none => .fault "json_object_set_string: strlen runs past the source object"
  | some k => setString m n (.caller obj) k mallocOk

/-- int json_object_set_string_len(json_object *jso, const char *s, int len) -/
def setStringLen (m : Mem) (n : Node) (src : Src) (len : Int) (mallocOk : Bool) : Outcome (Mem × Node × Int) :=
  setString m n src (toSizeT len) mallocOk

/-- static void json_object_string_delete(struct json_object *jso)  (then json_object_generic_delete) -/
def stringDelete (m : Mem) (n : Node) : Outcome Mem := do
  liveNode m n "delete"
  let m ← if n.len < 0 then do
            let p ← readPdata n "delete: free(pdata)"
            m.free p "delete: free(pdata)"
          else pure m
  m.free n.blk "delete: free(jso)"

/-- what a caller of json_object_get_string / json_object_get_string_len observes -/
structure View where
  len : Int               -- json_object_get_string_len
  bytes : Bytes           -- ptr[0 .. len)   (nothing is read when the reported length is negative)
  term : Option UInt8     -- ptr[len]        (`none`: not read, the reported length is negative)
  strlen : Nat            -- strlen(ptr)
  wrapped : Bool          -- the length did not fit the int
  deriving Repr, DecidableEq

/-- json_object_get_string + json_object_get_string_len, then the reads a caller makes through them -/
def observe (m : Mem) (n : Node) : Outcome (Mem × View) := do
  let (l, w) ← getStringLen m n
  let p ← stringComponent m n "json_object_get_string"
  let (m, k) ← m.strlen p.1 p.2 "caller: strlen(ptr)"
  if l < 0 then .ok (m, { len := l, bytes := [], term := none, strlen := k, wrapped := w })
  else
    let (m, bs) ← m.load p.1 p.2 l.toNat "caller: ptr[0..len)"
    let (m, t) ← m.load p.1 (p.2 + l.toNat) 1 "caller: ptr[len]"
    .ok (m, { len := l, bytes := bs, term := t.head?, strlen := k, wrapped := w })

/-- json_object_equal, case json_type_string -/
def equalStr (m : Mem) (n1 n2 : Node) : Outcome (Mem × Bool) := do
  let l1 ← absLen m n1 "equal: len(jso1)"
  let l2 ← absLen m n2 "equal: len(jso2)"
  if l1 ≠ l2 then .ok (m, false)
  else
    let p1 ← stringComponent m n1 "equal: get_string_component(jso1)"
    let p2 ← stringComponent m n2 "equal: get_string_component(jso2)"
    let l ← absLen m n1 "equal: memcmp length"
    let cnt ← ckSize l "equal: memcmp length as size_t"
    let (m, b1) ← m.load p1.1 p1.2 cnt "equal: memcmp"
    let (m, b2) ← m.load p2.1 p2.2 cnt "equal: memcmp"
    .ok (m, b1 == b2)

/-- json_c_shallow_copy_default, case json_type_string (all json_object_deep_copy does for a string);
flag = the length did not fit the `int` parameter of json_object_new_string_len -/
def shallowCopy (m : Mem) (n : Node) (mallocOk : Bool) : Outcome (Mem × Option Node × Bool) := do
  let p ← stringComponent m n "copy: get_string_component(src)"
  let l ← absLen m n "copy: _json_object_get_string_len(src)"
  let (li, w) := toInt l
  let (m, c) ← newStringLen m (.block p.1 p.2) li mallocOk
  pure (m, c, w)

/-- json_object_string_to_json_string: the (pointer, length) handed to json_escape_str, i.e. the bytes
the serializer escapes -/
def serializePayload (m : Mem) (n : Node) : Outcome (Mem × Bytes) := do
  liveNode m n "serialize"
  let p ← stringComponent m n "serialize: get_string_component"
  let l ← if n.len < 0 then ckSsize (-n.len) "serialize: -(ssize_t)len" else pure n.len
  let cnt ← ckSize l "serialize: len as size_t"
  m.load p.1 p.2 cnt "serialize: json_escape_str reads str[0..len)"

/-! ### operation language (shared with the harness) -/

/-- the 8-byte object behind claimed-size calls -/
def claimSource : Bytes := [0, 0, 0, 0, 0, 0, 0, 0]

inductive Op where
  | new (obj : Bytes) (mallocOk : Bool)       -- json_object_new_string_len(obj, |obj|)
  | newn (n : Int)                            -- json_object_new_string_len(<8-byte object>, n)
  | newz (obj : Bytes) (mallocOk : Bool)      -- json_object_new_string(obj "\0")
  | set (obj : Bytes) (mallocOk : Bool)       -- json_object_set_string_len(o, obj, |obj|)
  | setn (n : Int)                            -- json_object_set_string_len(o, <8-byte object>, n)
  | setz (obj : Bytes) (mallocOk : Bool)      -- json_object_set_string(o, obj "\0")
  | get
  | eq (a : Bytes) (b : Option Bytes)         -- compare with a fresh node new(a) [then set(b)], both ways
  | copy (mallocOk : Bool)                    -- deep copy, observe it, compare both ways, release it
  | ser
  | del
  deriving Repr, DecidableEq

/-- one result line -/
inductive Res where
  | noNode                                             -- jso == NULL (set/get/del on it are defined no-ops)
  | busy                                               -- `new` while the slot is occupied: nothing is called
  | made (ok : Bool) (v : Option View)                 -- constructor: NULL or node
  | did (ret : Int) (v : View)                         -- setter: return value and what is read afterwards
  | saw (v : View)
  | cmp (ab ba : Bool)
  | copied (v : Option View) (ab ba : Bool)            -- deep copy failed (none) or its view and the comparisons
  | payload (bs : Bytes)
  | deleted
  deriving Repr, DecidableEq

structure World where
  mem : Mem := {}
  node : Option Node := none
  deriving Repr

def afterNew (r : Mem × Option Node) : Outcome (World × Res) :=
  match r with
  | (m, none) => .ok ({ mem := m, node := none }, .made false none)
  | (m, some n) => do
    let (m, v) ← observe m n
    pure ({ mem := m, node := some n }, .made true (some v))

def afterSet (r : Mem × Node × Int) : Outcome (World × Res) := do
  let (m, n, ret) := r
  let (m, v) ← observe m n
  pure ({ mem := m, node := some n }, .did ret v)

def step (w : World) (op : Op) : Outcome (World × Res) :=
  match w.node, op with
  | some _, .new _ _ | some _, .newn _ | some _, .newz _ _ => .ok (w, .busy)
  | none, .new obj okm => do afterNew (← newStringLen w.mem (.caller obj) obj.length okm)
  | none, .newn k => do afterNew (← newStringLen w.mem (.caller claimSource) k true)
  | none, .newz obj okm => do afterNew (← newStringZ w.mem (obj ++ [0]) okm)
  | none, _ => .ok (w, .noNode)
  | some n, .set obj okm => do afterSet (← setStringLen w.mem n (.caller obj) obj.length okm)
  | some n, .setn k => do afterSet (← setStringLen w.mem n (.caller claimSource) k true)
  | some n, .setz obj okm => do afterSet (← setStringZ w.mem n (obj ++ [0]) okm)
  | some n, .get => do
    let (m, v) ← observe w.mem n
    pure ({ w with mem := m }, .saw v)
  | some n, .eq a b => do
    let (m, f) ← newStringLen w.mem (.caller a) a.length true
    match f with
    | none => .fault "eq: constructor failed although malloc succeeds"
    | some f =>
      let (m, f) ← match b with
        | none => pure (m, f)
        | some b => do
          let (m, f, _) ← setStringLen m f (.caller b) b.length true
          pure (m, f)
      let (m, ab) ← equalStr m n f
      let (m, ba) ← equalStr m f n
      let m ← stringDelete m f
      pure ({ w with mem := m }, .cmp ab ba)
  | some n, .copy okm => do
    let (m, c, _) ← shallowCopy w.mem n okm
    match c with
    | none => pure ({ w with mem := m }, .copied none false false)
    | some c =>
      let (m, v) ← observe m c
      let (m, ab) ← equalStr m n c
      let (m, ba) ← equalStr m c n
      let m ← stringDelete m c
      pure ({ w with mem := m }, .copied (some v) ab ba)
  | some n, .ser => do
    let (m, bs) ← serializePayload w.mem n
    pure ({ w with mem := m }, .payload bs)
  | some n, .del => do
    let m ← stringDelete w.mem n
    pure ({ mem := m, node := none }, .deleted)

def run (w : World) : List Op → Outcome (World × List Res)
  | [] => .ok (w, [])
  | op :: ops => do
    let (w1, r) ← step w op
    let (w2, rs) ← run w1 ops
    pure (w2, r :: rs)

end JsonC.StrStore
