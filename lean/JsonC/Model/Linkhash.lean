/-
  Model of linkhash.c and of the json_object object layer on top of it ("checked C": every table
  access carries its bounds check, every pointer dereference its NULL check, every loop that C
  leaves unbounded a fuel whose exhaustion is the distinct outcome `Outcome.fault`).

  struct lh_table { int size; int count; lh_entry *head, *tail; lh_entry *table; free_fn, hash_fn, equal_fn }
  struct lh_entry { const void *k; int k_is_constant; const void *v; lh_entry *next, *prev; }

  The array of entries is kept field by field: `slots[i]` = (k, k_is_constant, v) of `table[i]`
  (`empty` = LH_EMPTY, `freed` = LH_FREED), `next[i]` / `prev[i]` = the two link pointers as slot
  indices (`none` = NULL).  `size` is the field `t->size`; the allocation is `slots.length` long
  (kept apart because lh_table_resize once stored the requested size instead of the size of the
  table it had built, see `resizeWith`; the invariant says they agree).
  Keys are compared with `=` (equal_fn = strcmp(..) == 0 on C strings); the hash is an arbitrary
  function parameter `hash : K → Nat` (hash_fn: lh_char_hash with any seed, lh_perllike_str_hash,
  or any caller-supplied function).
-/
import JsonC.Base.Basic
import JsonC.Generated.Consts
import JsonC.Generated.Structure

namespace JsonC.Linkhash
open JsonC Generated

inductive Slot (K V : Type) where
  | empty                                   -- k == LH_EMPTY
  | freed                                   -- k == LH_FREED (tombstone)
  | live (k : K) (v : V) (kconst : Bool)    -- k, v, k_is_constant
  deriving Repr, DecidableEq

def Slot.isLive {K V : Type} : Slot K V → Bool
  | .live .. => true
  | _ => false

structure Table (K V : Type) where
  size : Nat
  count : Int
  head : Option Nat
  tail : Option Nat
  slots : List (Slot K V)
  next : List (Option Nat)
  prev : List (Option Nat)
  deriving Repr, DecidableEq

/-- what a call leaves behind: the table, the C return value, the entries handed to free_fn
(key, k_is_constant, value) in call order, known-defect tags -/
structure Res (K V : Type) where
  t : Table K V
  ret : Int
  freed : List (K × Bool × V) := []
  tags : List String := []
  deriving Repr, DecidableEq

variable {K V : Type}

def INT_MAX : Nat := intMax

/-! ### the load-factor test, bit-exact

`t->count >= t->size * LH_LOAD_FACTOR` is evaluated in IEEE double arithmetic: both ints convert
exactly, the product `size * 0.66` is rounded to nearest-even to 53 significant bits, the comparison
is exact.  `lhLoadNum / lhLoadDen` (`Generated.Consts`, den = 2^60) is the exact value of the double
constant.  The rounding matters: for size = 50 the product is 33.0000000000000015… which rounds to
33.0, so count = 33 triggers growth although 33 < 50 * (the exact constant).  (The harness compares
this definition with the compiled C expression for every size < 2^22 in the thorough tier.) -/

/-- round the natural number `n` to 53 significant bits, ties to even (scale-free: the value of the
double nearest to `n / 2^60` is `roundDouble n / 2^60`) -/
def roundDouble (n : Nat) : Nat :=
  let L := n.log2 + 1
  if L ≤ 53 then n
  else
    let s := L - 53
    let q := n / 2 ^ s
    let r := n % 2 ^ s
    if 2 * r > 2 ^ s ∨ (2 * r = 2 ^ s ∧ q % 2 = 1) then (q + 1) * 2 ^ s else q * 2 ^ s

/-- `count >= size * LH_LOAD_FACTOR` -/
def loadTest (count : Int) (size : Nat) : Bool :=
  decide (count * (lhLoadDen : Int) ≥ ((roundDouble (size * lhLoadNum) : Nat) : Int))

/-! ### lh_table_new -/

/-- lh_table_new(size, ..) with both allocations succeeding -/
def new (size : Nat) : Outcome (Table K V) :=
  if size = 0 then .fault "lh_table_new: assert(size > 0)"
  else if size > INT_MAX then .fault "lh_table_new: size is not an int"
  else .ok { size := size, count := 0, head := none, tail := none,
             slots := List.replicate size .empty,
             next := List.replicate size none, prev := List.replicate size none }

/-- `if ((int)++n == t->size) n = 0;` -/
def nextIdx (size n : Nat) : Nat := if n + 1 = size then 0 else n + 1

/-! ### lh_table_lookup_entry_w_hash -/

/-- the probe loop; `cnt` is the C local `count`, `fuel` only bounds the model's recursion (the C
loop is bounded by `count < t->size` — `lhLookupBounded`, read off the current source) -/
def lookupLoop [DecidableEq K] (t : Table K V) (k : K) : Nat → Nat → Nat → Outcome (Option Nat)
  | 0, _, _ => .fault "lookup: probe loop does not terminate"
  | fuel + 1, n, cnt =>
    if lhLookupBounded ∧ ¬ cnt < t.size then .ok none
    else
      match t.slots[n]? with
      | none => .fault "lookup: table index outside the allocation"
      | some .empty => .ok none
      | some .freed => lookupLoop t k fuel (nextIdx t.size n) (cnt + 1)
      | some (.live k' _ _) =>
        if k' = k then .ok (some n) else lookupLoop t k fuel (nextIdx t.size n) (cnt + 1)

/-- struct lh_entry *lh_table_lookup_entry_w_hash(t, k, h): index of the entry or none (NULL) -/
def lookupEntryWHash [DecidableEq K] (t : Table K V) (k : K) (h : Nat) : Outcome (Option Nat) :=
  if t.size = 0 then .fault "lookup: h % t->size with size 0"
  else lookupLoop t k (t.size + 1) (h % t.size) 0

/-- json_bool lh_table_lookup_ex(t, k, &v): (found, *v) -/
def lookupEx [DecidableEq K] (hash : K → Nat) (t : Table K V) (k : K) : Outcome (Bool × Option V × Option Nat) :=
  match lookupEntryWHash t k (hash k) with
  | .fault w => .fault w
  | .ok none => .ok (false, none, none)
  | .ok (some n) =>
    match t.slots[n]? with
    | some (.live _ v _) => .ok (true, some v, some n)
    | _ => .fault "lookup_ex: entry is not live"

/-! ### lh_table_insert_w_hash -/

/-- the `while (1)` probe of insert: first EMPTY or FREED slot from `n`; nothing in the C loop
bounds it, so running out of fuel (= `size` probes, every slot seen once) is the endless loop -/
def findFree (t : Table K V) : Nat → Nat → Outcome Nat
  | 0, _ => .fault "insert: probe loop does not terminate (no EMPTY or FREED slot)"
  | fuel + 1, n =>
    match t.slots[n]? with
    | none => .fault "insert: table index outside the allocation"
    | some s => if s.isLive then findFree t fuel (nextIdx t.size n) else .ok n

/-- lh_table_insert_w_hash after the load test: probe, store, `count++`, append to the list -/
def place (t : Table K V) (k : K) (v : V) (h : Nat) (kconst : Bool) : Outcome (Table K V) :=
  if t.size = 0 then .fault "insert: h % t->size with size 0"
  else
    match findFree t t.size (h % t.size) with
    | .fault w => .fault w
    | .ok n =>
      if ¬ (n < t.next.length ∧ n < t.prev.length) then .fault "insert: table index outside the allocation"
      else if t.count + 1 > (INT_MAX : Int) then .fault "insert: t->count++ overflows int"
      else
        let slots := t.slots.set n (.live k v kconst)
        match t.head with
        | none =>
          .ok { t with slots := slots, count := t.count + 1, head := some n, tail := some n,
                       next := t.next.set n none, prev := t.prev.set n none }
        | some _ =>
          match t.tail with
          | none => .fault "insert: t->tail is NULL while t->head is not"
          | some tl =>
            if ¬ tl < t.next.length then .fault "insert: t->tail outside the allocation"
            else
              .ok { t with slots := slots, count := t.count + 1, tail := some n,
                           next := (t.next.set tl (some n)).set n none,
                           prev := t.prev.set n (some tl) }

/-- the `for (ent = t->head; ent != NULL; ent = ent->next)` loop of lh_table_resize, inserting into
the new table with `ins`; `none` = an insert failed (new table freed, -1) -/
def rebuildLoop (ins : Table K V → K → V → Bool → Outcome (Res K V)) (t : Table K V) :
    Nat → Option Nat → Table K V → Outcome (Option (Table K V))
  | 0, _, _ => .fault "resize: the entry list does not end"
  | _ + 1, none, nt => .ok (some nt)
  | fuel + 1, some e, nt =>
    match t.slots[e]?, t.next[e]? with
    | some (.live k v c), some nx =>
      match ins nt k v c with
      | .fault w => .fault w
      | .ok r => if r.ret ≠ 0 then .ok none else rebuildLoop ins t fuel nx r.t
    | some _, some _ => .fault "resize: list entry is not live (its key is LH_EMPTY/LH_FREED)"
    | _, _ => .fault "resize: list entry outside the allocation"

/-- int lh_table_resize(t, new_size), the inserts into the new table done by `ins`.
The new table may itself have grown while it was filled.  Which size is stored is read off the
current source (`lhResizeKeepsArgSize`): `t->size = new_t->size` (false; the code as repaired by the
fix: commit "lh_table_resize recorded the requested size") or `t->size = new_size` (true; then
`size` no longer describes the allocation and the tag `lh.resize.size-not-propagated` is logged). -/
def resizeWith (ins : Table K V → K → V → Bool → Outcome (Res K V)) (t : Table K V) (newSize : Nat) :
    Outcome (Res K V) :=
  match (new newSize : Outcome (Table K V)) with
  | .fault w => .fault w
  | .ok nt0 =>
    match rebuildLoop ins t (t.slots.length + 1) t.head nt0 with
    | .fault w => .fault w
    | .ok none => .ok { t := t, ret := -1 }
    | .ok (some nt) =>
      .ok { t := { t with slots := nt.slots, next := nt.next, prev := nt.prev,
                          size := if lhResizeKeepsArgSize then newSize else nt.size,
                          head := nt.head, tail := nt.tail },
            ret := 0,
            tags := if lhResizeKeepsArgSize ∧ nt.size ≠ newSize then ["lh.resize.size-not-propagated"] else [] }

/-- int lh_table_insert_w_hash(t, k, v, h, opts).  lh_table_resize inserts into the new table with
this same function, hence the recursion; `fuel` bounds its depth (each level at least doubles the
size or reaches INT_MAX, where no further resize is attempted). -/
def insertN (hash : K → Nat) : Nat → Table K V → K → V → Nat → Bool → Outcome (Res K V)
  | fuel, t, k, v, h, kconst =>
    if loadTest t.count t.size then
      if t.size = INT_MAX then .ok { t := t, ret := -1 }
      else
        let newSize := if t.size > INT_MAX / 2 then INT_MAX else t.size * 2
        match fuel with
        | 0 => .fault "insert: resize recursion deeper than 64"
        | f + 1 =>
          match resizeWith (fun nt k' v' c' => insertN hash f nt k' v' (hash k') c') t newSize with
          | .fault w => .fault w
          | .ok r =>
            if r.ret ≠ 0 then .ok { t := t, ret := -1 }
            else
              match place r.t k v h kconst with
              | .fault w => .fault w
              | .ok t' => .ok { t := t', ret := 0, tags := r.tags }
    else
      match place t k v h kconst with
      | .fault w => .fault w
      | .ok t' => .ok { t := t', ret := 0 }

def insertFuel : Nat := 64

def insertWHash (hash : K → Nat) (t : Table K V) (k : K) (v : V) (h : Nat) (kconst : Bool) : Outcome (Res K V) :=
  insertN hash insertFuel t k v h kconst

/-- int lh_table_insert(t, k, v) -/
def insert (hash : K → Nat) (t : Table K V) (k : K) (v : V) : Outcome (Res K V) :=
  insertWHash hash t k v (hash k) false

/-- int lh_table_resize(t, new_size) -/
def resize (hash : K → Nat) (t : Table K V) (newSize : Nat) : Outcome (Res K V) :=
  resizeWith (fun nt k v c => insertN hash insertFuel nt k v (hash k) c) t newSize

/-! ### lh_table_delete_entry / lh_table_delete -/

/-- the common end of lh_table_delete_entry: `t->count--; free_fn(e); v = NULL; k = LH_FREED;` …
`t->table[n].next = t->table[n].prev = NULL;` with the list ends / neighbour links already updated -/
def unlinkFinish (t : Table K V) (n : Nat) (k : K) (v : V) (c : Bool) (head tail : Option Nat)
    (next prev : List (Option Nat)) : Outcome (Res K V) :=
  .ok { t := { t with slots := t.slots.set n .freed, count := t.count - 1, head := head, tail := tail,
                      next := next.set n none, prev := prev.set n none },
        ret := 0, freed := [(k, c, v)] }

/-- int lh_table_delete_entry(t, e) with e = &t->table[n] -/
def deleteEntry (t : Table K V) (n : Nat) : Outcome (Res K V) :=
  match t.slots[n]? with
  | none => .fault "delete_entry: entry outside the allocation"
  | some .empty => .ok { t := t, ret := -1 }
  | some .freed => .ok { t := t, ret := -1 }
  | some (.live k v c) =>
    if ¬ (n < t.next.length ∧ n < t.prev.length) then .fault "delete_entry: entry outside the allocation"
    else if t.tail = some n ∧ t.head = some n then unlinkFinish t n k v c none none t.next t.prev
    else if t.head = some n then
      -- t->head->next->prev = NULL; t->head = t->head->next;
      match t.next[n]? with
      | some (some nx) =>
        if ¬ nx < t.prev.length then .fault "delete_entry: t->head->next outside the allocation"
        else unlinkFinish t n k v c (some nx) t.tail t.next (t.prev.set nx none)
      | _ => .fault "delete_entry: NULL dereference t->head->next->prev"
    else if t.tail = some n then
      -- t->tail->prev->next = NULL; t->tail = t->tail->prev;
      match t.prev[n]? with
      | some (some pv) =>
        if ¬ pv < t.next.length then .fault "delete_entry: t->tail->prev outside the allocation"
        else unlinkFinish t n k v c t.head (some pv) (t.next.set pv none) t.prev
      | _ => .fault "delete_entry: NULL dereference t->tail->prev->next"
    else
      -- t->table[n].prev->next = t->table[n].next; t->table[n].next->prev = t->table[n].prev;
      match t.prev[n]?, t.next[n]? with
      | some (some pv), some (some nx) =>
        if ¬ (pv < t.next.length ∧ nx < t.prev.length) then .fault "delete_entry: neighbour outside the allocation"
        else unlinkFinish t n k v c t.head t.tail (t.next.set pv (some nx)) (t.prev.set nx (some pv))
      | _, _ => .fault "delete_entry: NULL dereference of table[n].prev / table[n].next"

/-- int lh_table_delete(t, k) -/
def delete [DecidableEq K] (hash : K → Nat) (t : Table K V) (k : K) : Outcome (Res K V) :=
  match lookupEntryWHash t k (hash k) with
  | .fault w => .fault w
  | .ok none => .ok { t := t, ret := -1 }
  | .ok (some n) => deleteEntry t n

/-- int lh_table_length(t) -/
def length (t : Table K V) : Int := t.count

/-! ### walking the list: lh_foreach, lh_table_free, the json_object iteration forms -/

/-- `lh_foreach(t, e)`: the entries in list order; fuel = one more than the number of slots -/
def walk (t : Table K V) : Nat → Option Nat → Outcome (List (K × Bool × V))
  | 0, _ => .fault "lh_foreach: the entry list does not end"
  | _ + 1, none => .ok []
  | fuel + 1, some e =>
    match t.slots[e]?, t.next[e]? with
    | some (.live k v c), some nx =>
      match walk t fuel nx with
      | .fault w => .fault w
      | .ok l => .ok ((k, c, v) :: l)
    | some _, some _ => .fault "lh_foreach: list entry is not live"
    | _, _ => .fault "lh_foreach: list entry outside the allocation"

/-- contents in list order, as `lh_foreach` sees them -/
def toList (t : Table K V) : Outcome (List (K × V)) :=
  match walk t (t.slots.length + 1) t.head with
  | .fault w => .fault w
  | .ok l => .ok (l.map (fun e => (e.1, e.2.2)))

/-- void lh_table_free(t): free_fn on every entry in list order -/
def free (t : Table K V) : Outcome (List (K × Bool × V)) := walk t (t.slots.length + 1) t.head

/-- json_object_object_foreach(obj, key, val) { body }: the macro reads key, value **and the next
pointer** of the current entry before the body runs; the body may change the table -/
def foreachN (body : Table K V → K → V → Outcome (Table K V)) :
    Nat → Table K V → Option Nat → Outcome (Table K V × List (K × V))
  | 0, _, _ => .fault "foreach: the iteration does not end"
  | _ + 1, t, none => .ok (t, [])
  | fuel + 1, t, some e =>
    match t.slots[e]?, t.next[e]? with
    | some (.live k v _), some nx =>
      match body t k v with
      | .fault w => .fault w
      | .ok t' =>
        match foreachN body fuel t' nx with
        | .fault w => .fault w
        | .ok (tf, l) => .ok (tf, (k, v) :: l)
    | some _, some _ => .fault "foreach: entry is not live (key pointer is LH_EMPTY/LH_FREED)"
    | _, _ => .fault "foreach: entry outside the allocation"

/-- json_object_object_foreachC(obj, iter) { body }: the next pointer is read **after** the body -/
def foreachCN (body : Table K V → K → V → Outcome (Table K V)) :
    Nat → Table K V → Option Nat → Outcome (Table K V × List (K × V))
  | 0, _, _ => .fault "foreachC: the iteration does not end"
  | _ + 1, t, none => .ok (t, [])
  | fuel + 1, t, some e =>
    match t.slots[e]? with
    | some (.live k v _) =>
      match body t k v with
      | .fault w => .fault w
      | .ok t' =>
        match t'.next[e]? with
        | none => .fault "foreachC: entry outside the allocation"
        | some nx =>
          match foreachCN body fuel t' nx with
          | .fault w => .fault w
          | .ok (tf, l) => .ok (tf, (k, v) :: l)
    | some _ => .fault "foreachC: entry is not live (key pointer is LH_EMPTY/LH_FREED)"
    | none => .fault "foreachC: entry outside the allocation"

def foreach (body : Table K V → K → V → Outcome (Table K V)) (t : Table K V) :
    Outcome (Table K V × List (K × V)) :=
  foreachN body (t.slots.length + 1) t t.head

def foreachC (body : Table K V → K → V → Outcome (Table K V)) (t : Table K V) :
    Outcome (Table K V × List (K × V)) :=
  foreachCN body (t.slots.length + 1) t t.head

/-- a loop body that leaves the object alone -/
def keep : Table K V → K → V → Outcome (Table K V) := fun t _ _ => .ok t

/-! json_object_iterator.c: an iterator is an entry pointer, the end iterator is NULL -/
def iterBegin (t : Table K V) : Option Nat := t.head
def iterEnd (_ : Table K V) : Option Nat := none
def iterEqual (a b : Option Nat) : Bool := a == b
/-- json_object_iter_next (JASSERT(iter != end)) -/
def iterNext (t : Table K V) : Option Nat → Outcome (Option Nat)
  | none => .fault "iter_next: at the end iterator"
  | some e => match t.next[e]? with
    | some nx => .ok nx
    | none => .fault "iter_next: entry outside the allocation"
/-- json_object_iter_peek_name / json_object_iter_peek_value -/
def iterPeek (t : Table K V) : Option Nat → Outcome (K × V)
  | none => .fault "iter_peek: at the end iterator"
  | some e => match t.slots[e]? with
    | some (.live k v _) => .ok (k, v)
    | some _ => .fault "iter_peek: entry is not live"
    | none => .fault "iter_peek: entry outside the allocation"

/-- `it = begin; while (!equal(it, end)) { peek_name; peek_value; next }` -/
def iterCollectN (t : Table K V) : Nat → Option Nat → Outcome (List (K × V))
  | 0, _ => .fault "iterator: the iteration does not end"
  | fuel + 1, it =>
    if iterEqual it (iterEnd t) then .ok []
    else
      match iterPeek t it with
      | .fault w => .fault w
      | .ok kv =>
        match iterNext t it with
        | .fault w => .fault w
        | .ok it' =>
          match iterCollectN t fuel it' with
          | .fault w => .fault w
          | .ok l => .ok (kv :: l)

def iterCollect (t : Table K V) : Outcome (List (K × V)) :=
  iterCollectN t (t.slots.length + 1) (iterBegin t)

/-! ### the json_object layer (json_object.c): the object's table uses the process-wide string hash -/

/-- int json_object_object_add_ex(jso, key, val, opts); `self` = (jso == val).
A new key is strdup'ed unless JSON_C_OBJECT_ADD_CONSTANT_KEY; an existing key keeps its entry
(position, key pointer, k_is_constant) and only the value is exchanged (old value released). -/
def objectAddEx [DecidableEq K] (hash : K → Nat) (t : Table K V) (k : K) (v : V)
    (self keyIsNew constKey : Bool) : Outcome (Res K V) :=
  let h := hash k
  match (if keyIsNew then (.ok none : Outcome (Option Nat)) else lookupEntryWHash t k h) with
  | .fault w => .fault w
  | .ok existing =>
    if self then .ok { t := t, ret := -1 }
    else
      match existing with
      | none => insertWHash hash t k v h constKey
      | some n =>
        match t.slots[n]? with
        | some (.live k' _ c') => .ok { t := { t with slots := t.slots.set n (.live k' v c') }, ret := 0 }
        | _ => .fault "object_add_ex: existing entry is not live"

/-- void json_object_object_del(jso, key) -/
def objectDel [DecidableEq K] (hash : K → Nat) (t : Table K V) (k : K) : Outcome (Res K V) :=
  delete hash t k

/-- json_bool json_object_object_get_ex(jso, key, &value) -/
def objectGetEx [DecidableEq K] (hash : K → Nat) (t : Table K V) (k : K) :
    Outcome (Bool × Option V × Option Nat) :=
  lookupEx hash t k

/-- int json_object_object_length(jso) -/
def objectLength (t : Table K V) : Int := length t

/-- loop body "delete the current key when it is one of `ks`" -/
def delIfIn [DecidableEq K] (hash : K → Nat) (ks : List K) : Table K V → K → V → Outcome (Table K V) :=
  fun t k _ =>
    if k ∈ ks then
      match objectDel hash t k with
      | .fault w => .fault w
      | .ok r => .ok r.t
    else .ok t

/-! ### operation language (shared with the harness) -/

inductive IterForm where
  | lhForeach        -- lh_foreach on the table
  | foreach          -- json_object_object_foreach (also: json_c_visit, which uses this macro)
  | foreachC         -- json_object_object_foreachC (also: the serializer, which uses this macro)
  | iterator         -- json_object_iter_begin/next/peek/equal/end
  deriving Repr, DecidableEq

inductive Op (K V : Type) where
  | insert (k : K) (v : V) (kconst : Bool)   -- lh_table_insert_w_hash(t, k, v, lh_get_hash(t, k), opts)
  | lookup (k : K)                           -- lh_table_lookup_ex
  | delete (k : K)                           -- lh_table_delete
  | deleteEntry (n : Nat)                    -- lh_table_delete_entry(t, &t->table[n])
  | resize (n : Nat)                         -- lh_table_resize
  | length                                   -- lh_table_length
  | oadd (k : K) (v : V) (self keyIsNew constKey : Bool)   -- json_object_object_add_ex
  | oget (k : K)                             -- json_object_object_get_ex
  | odel (k : K)                             -- json_object_object_del
  | olen                                     -- json_object_object_length
  | iter (f : IterForm)                      -- a read-only iteration
  | foreachDel (ks : List K)                 -- foreach macro whose body deletes the current key when in `ks`
  | foreachCDel (ks : List K)                -- the same with foreachC (stops after the first deletion)
  deriving Repr

/-- observable results of one operation -/
structure StepOut (K V : Type) where
  ret : Int := 0
  val : Option V := none
  idx : Option Nat := none
  list : List (K × V) := []
  freed : List (K × Bool × V) := []
  tags : List String := []
  deriving Repr

def ofRes (r : Res K V) : Table K V × StepOut K V :=
  (r.t, { ret := r.ret, freed := r.freed, tags := r.tags })

def step [DecidableEq K] (hash : K → Nat) (t : Table K V) : Op K V → Outcome (Table K V × StepOut K V)
  | .insert k v c =>
    match insertWHash hash t k v (hash k) c with
    | .fault w => .fault w
    | .ok r => .ok (ofRes r)
  | .lookup k | .oget k =>
    match lookupEx hash t k with
    | .fault w => .fault w
    | .ok (found, v, idx) => .ok (t, { ret := if found then 1 else 0, val := v, idx := idx })
  | .delete k =>
    match delete hash t k with
    | .fault w => .fault w
    | .ok r => .ok (ofRes r)
  | .deleteEntry n =>
    match deleteEntry t n with
    | .fault w => .fault w
    | .ok r => .ok (ofRes r)
  | .resize n =>
    match resize hash t n with
    | .fault w => .fault w
    | .ok r => .ok (ofRes r)
  | .length | .olen => .ok (t, { ret := length t })
  | .oadd k v self isNew cst =>
    match objectAddEx hash t k v self isNew cst with
    | .fault w => .fault w
    | .ok r => .ok (ofRes r)
  | .odel k =>
    match objectDel hash t k with
    | .fault w => .fault w
    | .ok r => .ok (r.t, { ret := 0, freed := r.freed })      -- the function returns void
  | .iter .lhForeach =>
    match toList t with
    | .fault w => .fault w
    | .ok l => .ok (t, { list := l })
  | .iter .foreach =>
    match foreach keep t with
    | .fault w => .fault w
    | .ok (t', l) => .ok (t', { list := l })
  | .iter .foreachC =>
    match foreachC keep t with
    | .fault w => .fault w
    | .ok (t', l) => .ok (t', { list := l })
  | .iter .iterator =>
    match iterCollect t with
    | .fault w => .fault w
    | .ok l => .ok (t, { list := l })
  | .foreachDel ks =>
    match foreach (delIfIn hash ks) t with
    | .fault w => .fault w
    | .ok (t', l) => .ok (t', { list := l })
  | .foreachCDel ks =>
    match foreachC (delIfIn hash ks) t with
    | .fault w => .fault w
    | .ok (t', l) => .ok (t', { list := l })

def run [DecidableEq K] (hash : K → Nat) (t : Table K V) : List (Op K V) → Outcome (Table K V × List (StepOut K V))
  | [] => .ok (t, [])
  | op :: ops =>
    match step hash t op with
    | .fault w => .fault w
    | .ok (t', o) =>
      match run hash t' ops with
      | .fault w => .fault w
      | .ok (tf, os) => .ok (tf, o :: os)

end JsonC.Linkhash
