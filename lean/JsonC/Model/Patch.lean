/-
  Model of json_patch.c (json_patch_apply and its helpers) together with the parts of
  json_pointer.c it calls (json_pointer_get, json_pointer_get_internal,
  json_pointer_set_with_array_cb and the two array callbacks of json_patch.c), as the code is now.

  Value level: the document `*base` is a `JVal`; the C NULL pointer and JSON null are the same
  value `.null`.  The C code obtains a pointer to a node (json_pointer_get_internal:
  parent / key_in_parent / index_in_parent) and then mutates through it; here the pointer is the
  *location* of the node (`List Step` from the root) and the mutation is `updateAt` along that
  location.  This is exact as long as the document is a tree (no node reachable twice) - which is
  the sharing clause the harness checks on every run - and a location that no longer fits the
  document is `R.fault` (the C code would then be using a dangling pointer).

  Strings are C strings: `getString` is json_object_get_string (NULL for JSON null, the data up to
  the first NUL for a string, the JSON serialization `ser v` for everything else).  `ser`
  (json_object_to_json_string, property C02) and `eq` (json_object_equal, property C09) are
  parameters; `jsonObjectEqual` below is the transcription of json_object_equal used by the driver.
  json_object_deep_copy is the identity on values (allocation failure is property C08).

  Known-defect clauses log a tag (see `Tag`); the theorems in Props/C13.lean that need it carry
  the hypothesis "no tag fired".
-/
import JsonC.Model.Value
import JsonC.Generated.Consts
import JsonC.Spec.Rfc6902      -- only for the condition of the tag `patch.test.int-vs-double`

namespace JsonC.Patch
open JsonC

/-- errno values json_patch.c stores in `errno_code` (`none` = 0) -/
inductive PErr where
  | none | EINVAL | ENOENT | ENOMEM | EFAULT
  deriving Repr, DecidableEq, Inhabited

def PErr.toString : PErr → String
  | .none => "0" | .EINVAL => "EINVAL" | .ENOENT => "ENOENT" | .ENOMEM => "ENOMEM" | .EFAULT => "EFAULT"
instance : ToString PErr := ⟨PErr.toString⟩

/-- result of a helper: value, C error return (with errno), or an operation C leaves undefined -/
inductive R (α : Type) where
  | ok (a : α)
  | err (e : PErr)
  | fault (why : String)
  deriving Repr

namespace R
@[inline] def bind {α β : Type} (x : R α) (f : α → R β) : R β :=
  match x with
  | ok a => f a
  | err e => err e
  | fault w => fault w
instance : Monad R where
  pure := ok
  bind := bind
def map' {α β : Type} (f : α → β) : R α → R β
  | ok a => ok (f a)
  | err e => err e
  | fault w => fault w
def ofExcept {α : Type} : Except PErr α → R α
  | .ok a => ok a
  | .error e => err e
end R

/-! ### known-defect clauses -/

/-- json_pointer_get_internal rejects `obj == NULL`; a document that has become JSON null
(add/replace "" null, remove "") can then no longer be referenced by "" -/
def tagNullRoot : String := "patch.null-root"
/-- json_patch_apply_test uses json_object_equal, for which an int and a double are never equal;
RFC 6902 4.6 compares numbers numerically (1 and 1.0 are equal) -/
def tagIntDouble : String := "patch.test.int-vs-double"
/-- a `~` not followed by `0` or `1` is kept as a literal character instead of being rejected -/
def tagTilde : String := "patch.ptr.tilde-lenient"
/-- `op` / `path` / `from` strings are cut at their first NUL byte -/
def tagNul : String := "patch.cstr-truncation"

/-! ### C strings -/

/-- the C string a byte buffer denotes -/
def cstr (s : Bytes) : Bytes := s.takeWhile (· != 0)

/-- json_object_get_string -/
def getString (ser : JVal → Bytes) : JVal → Option Bytes
  | .null => none
  | .str s => some (cstr s)
  | v => some (cstr (ser v))

def hasNul : JVal → Bool
  | .str s => s.any (· == 0)
  | _ => false

/-- every `~` is followed by `0` or `1` (RFC 6901 section 3) -/
def tildeOk : Bytes → Bool
  | [] => true
  | c :: r =>
    if c = 0x7e then
      match r with
      | [] => false
      | d :: r' => (d == 0x30 || d == 0x31) && tildeOk r'
    else tildeOk r

/-- string_replace_all_occurrences_with_char for a two-byte `occur` = `a b`: every occurrence
found by the left-to-right strstr scan is replaced by `r`, the scan continues after it -/
def replaceAll (a b r : UInt8) : Bytes → Bytes
  | [] => []
  | [x] => [x]
  | x :: y :: rest =>
    if x = a ∧ y = b then r :: replaceAll a b r rest
    else x :: replaceAll a b r (y :: rest)

/-- "first all ~1 then all ~0" -/
def unescapeC (tok : Bytes) : Bytes :=
  replaceAll 0x7e 0x30 0x7e (replaceAll 0x7e 0x31 0x2f tok)

def isPlainDigit (c : UInt8) : Bool := c ≥ 0x30 && c ≤ 0x39

def ULLONG_MAX : Nat := Generated.sizeMax

/-- strtoull(path, NULL, 10) on an all-digit string: saturates at ULLONG_MAX (size_t and
unsigned long long have the same width) -/
def strtoull10 (ds : Bytes) : Nat :=
  min (ds.foldl (fun a c => a * 10 + (c.toNat - 48)) 0) ULLONG_MAX

/-- is_valid_index: `none` = returns 0 with errno = EINVAL -/
def isValidIndex (tok : Bytes) : Option Nat :=
  match tok with
  | [] => none
  | [c] => if isPlainDigit c then some (c.toNat - 48) else none
  | c :: _ :: _ =>
    if c = 0x30 then none
    else if tok.all isPlainDigit then some (strtoull10 tok) else none

/-- the reference tokens of the text after the leading '/' (the strchr loop of
json_pointer_result_get_recursive) -/
def splitTokens : Bytes → List Bytes
  | [] => [[]]
  | c :: r =>
    if c = 0x2f then [] :: splitTokens r
    else
      match splitTokens r with
      | t :: ts => (c :: t) :: ts
      | [] => [[c]]

/-- `none` = "All paths must have a leading '/'" (EINVAL) -/
def rawTokens (path : Bytes) : Option (List Bytes) :=
  match path with
  | [] => some []
  | c :: r => if c = 0x2f then some (splitTokens r) else none

/-! ### containers (what linkhash / arraylist do, on values) -/

/-- lh_table_lookup_ex -/
def objLookup (k : Bytes) : List (Bytes × JVal) → Option JVal
  | [] => none
  | (k', v) :: r => if k' = k then some v else objLookup k r

/-- lh_entry_set_val on the entry of `k` -/
def objSetVal (k : Bytes) (v : JVal) : List (Bytes × JVal) → List (Bytes × JVal)
  | [] => []
  | (k', v') :: r => if k' = k then (k', v) :: r else (k', v') :: objSetVal k v r

/-- json_object_object_add: the existing entry keeps its place, a new one goes to the end -/
def objAdd (kvs : List (Bytes × JVal)) (k : Bytes) (v : JVal) : List (Bytes × JVal) :=
  match objLookup k kvs with
  | some _ => objSetVal k v kvs
  | none => kvs ++ [(k, v)]

/-- lh_table_delete -/
def objDel (k : Bytes) : List (Bytes × JVal) → List (Bytes × JVal)
  | [] => []
  | (k', v') :: r => if k' = k then r else (k', v') :: objDel k r

/-- json_object_object_get_ex (0 for a non-object, NULL included) -/
def objGet (v : JVal) (k : Bytes) : Option JVal :=
  match v with
  | .obj kvs => objLookup k kvs
  | _ => none

/-- array_list_put_idx -/
def arrPutIdx (xs : List JVal) (i : Nat) (v : JVal) : List JVal :=
  if i < xs.length then xs.set i v else xs ++ List.replicate (i - xs.length) .null ++ [v]

/-- array_list_insert_idx: at or beyond the end it is put_idx -/
def arrInsertIdx (xs : List JVal) (i : Nat) (v : JVal) : List JVal :=
  if i ≥ xs.length then arrPutIdx xs i v else xs.take i ++ v :: xs.drop i

/-! ### json_pointer_get_internal -/

inductive Step where
  | idx (i : Nat)
  | key (k : Bytes)
  deriving Repr, DecidableEq

/-- json_pointer_get_single_path: the child and how it hangs in `v` -/
def getSingle (v : JVal) (tok : Bytes) : Except PErr (JVal × Step) :=
  match v with
  | .arr xs =>
    match isValidIndex tok with
    | none => .error .EINVAL
    | some i =>
      match xs[i]? with
      | some c => .ok (c, .idx i)
      | none => .error .ENOENT
  | .obj kvs =>
    let k := unescapeC tok
    match objLookup k kvs with
    | some c => .ok (c, .key k)
    | none => .error .ENOENT
  | _ => .error .ENOENT

/-- json_pointer_result_get_recursive over the reference tokens: the location and the value reached -/
def walk : JVal → List Bytes → Except PErr (List Step × JVal)
  | v, [] => .ok ([], v)
  | v, t :: ts =>
    match getSingle v t with
    | .error e => .error e
    | .ok (c, s) =>
      match walk c ts with
      | .error e => .error e
      | .ok (ss, r) => .ok (s :: ss, r)

/-- where the found value hangs: `parent` / `key_in_parent` / `index_in_parent` of
struct json_pointer_get_result, with the parent pointer given as its location -/
inductive Place where
  /-- parent == NULL: the value is the root -/
  | root
  /-- parent is an array at `loc`; `idx32` is index_in_parent, a uint32_t -/
  | elem (loc : List Step) (idx32 : Nat)
  /-- parent is an object at `loc`; `key` is key_in_parent (the key stored in the parent, found by
  lh_table_lookup_entry right after the successful lookup) -/
  | member (loc : List Step) (key : Bytes)
  deriving Repr

/-- struct json_pointer_get_result -/
structure GetRes where
  place : Place
  obj : JVal
  deriving Repr

def UINT32_MOD : Nat := 4294967296

def isNull : JVal → Bool
  | .null => true
  | _ => false

/-- json_pointer_get_internal(obj, path, &res).  The recursion of
json_pointer_result_get_recursive is `walk` over all tokens but the last (which yields the
parent) followed by the same single step for the last token. -/
def getInternal (doc : JVal) (path : Option Bytes) : R GetRes :=
  match path with
  | none => .err .EINVAL
  | some p =>
    if isNull doc then .err .EINVAL
    else
      match p with
      | [] => .ok { place := .root, obj := doc }
      | _ :: _ =>
        match rawTokens p with
        | none => .err .EINVAL
        | some toks =>
          match toks.getLast? with
          | none => .fault "json_pointer_get_internal: no reference token"
          | some last =>
            match walk doc toks.dropLast with
            | .error e => .err e
            | .ok (loc, parent) =>
              match getSingle parent last with
              | .error e => .err e
              | .ok (obj, .idx i) => .ok { place := .elem loc (i % UINT32_MOD), obj := obj }
              | .ok (obj, .key k) => .ok { place := .member loc k, obj := obj }

/-- mutate the node at `loc` (a pointer obtained earlier): `f` is applied to it in place -/
def updateAt : JVal → List Step → (JVal → R JVal) → R JVal
  | v, [], f => f v
  | v, s :: ss, f =>
    match v, s with
    | .arr xs, .idx i =>
      match xs[i]? with
      | some c => (updateAt c ss f).map' fun c' => .arr (xs.set i c')
      | none => .fault "dangling pointer: array element no longer there"
    | .obj kvs, .key k =>
      match objLookup k kvs with
      | some c => (updateAt c ss f).map' fun c' => .obj (objSetVal k c' kvs)
      | none => .fault "dangling pointer: member no longer there"
    | _, _ => .fault "dangling pointer: node changed type"

/-! ### json_pointer_set_with_array_cb -/

/-- which `array_set_cb` is passed: json_object_array_insert_idx_cb with *add = 1 / = 0,
or json_object_array_move_cb -/
inductive SetMode where
  | insert | put | move
  deriving Repr, DecidableEq

/-- the callbacks of json_patch.c (errno = EINVAL on refusal) -/
def arrayCb (mode : SetMode) (xs : List JVal) (idx : Nat) (v : JVal) : Except PErr (List JVal) :=
  if idx > xs.length then .error .EINVAL
  else
    match mode with
    | .insert => .ok (arrInsertIdx xs idx v)
    | .put => .ok (arrPutIdx xs idx v)
    | .move => .ok (arrInsertIdx xs idx v)

/-- json_pointer_set_single_path -/
def setSingle (tok : Bytes) (v : JVal) (mode : SetMode) (parent : JVal) : R JVal :=
  match parent with
  | .arr xs =>
    if tok = [0x2d] then .ok (.arr (xs ++ [v]))          -- json_object_array_add
    else
      match isValidIndex tok with
      | none => .err .EINVAL
      | some i =>
        match arrayCb mode xs i v with
        | .ok ys => .ok (.arr ys)
        | .error e => .err e
  | .obj kvs => .ok (.obj (objAdd kvs (unescapeC tok) v))
  | _ => .err .ENOENT

/-- json_pointer_set_with_array_cb(&doc, path, value, cb, priv): the new `*obj` -/
def setWithCb (doc : JVal) (path : Option Bytes) (v : JVal) (mode : SetMode) : R JVal :=
  match path with
  | none => .err .EINVAL
  | some [] => .ok v                      -- json_object_put(*obj); *obj = value
  | some p =>
    match rawTokens p with
    | none => .err .EINVAL
    | some toks =>
      match toks.getLast? with
      | none => .fault "json_pointer_set_with_array_cb: no reference token"
      | some last =>
        -- strrchr: everything before the last '/' is looked up (nothing, if that is the first '/')
        match walk doc toks.dropLast with
        | .error e => .err e
        | .ok (steps, _) => updateAt doc steps (setSingle last v mode)

/-! ### json_patch.c -/

/-- state after one operation: `*res`, the return code, `patch_error->errno_code` -/
structure OpRes where
  doc : JVal
  rc : Int
  err : PErr := .none
  tags : List String := []
  deriving Repr

def OpRes.fail (doc : JVal) (e : PErr) (tags : List String := []) : Outcome OpRes :=
  .ok { doc := doc, rc := -1, err := e, tags := tags }

def OpRes.done (doc : JVal) (tags : List String := []) : Outcome OpRes :=
  .ok { doc := doc, rc := 0, err := .none, tags := tags }

/-- the clause `!obj` of json_pointer_get_internal decides the call although RFC 6901 gives the
whole document for "" -/
def nullRootTags (doc : JVal) (path : Option Bytes) : List String :=
  match doc, path with
  | .null, some [] => [tagNullRoot]
  | _, _ => []

def kOp : Bytes := [0x6f, 0x70]
def kPath : Bytes := [0x70, 0x61, 0x74, 0x68]
def kFrom : Bytes := [0x66, 0x72, 0x6f, 0x6d]
def kValue : Bytes := [0x76, 0x61, 0x6c, 0x75, 0x65]
def sAdd : Bytes := [0x61, 0x64, 0x64]
def sRemove : Bytes := [0x72, 0x65, 0x6d, 0x6f, 0x76, 0x65]
def sReplace : Bytes := [0x72, 0x65, 0x70, 0x6c, 0x61, 0x63, 0x65]
def sMove : Bytes := [0x6d, 0x6f, 0x76, 0x65]
def sCopy : Bytes := [0x63, 0x6f, 0x70, 0x79]
def sTest : Bytes := [0x74, 0x65, 0x73, 0x74]

/-- json_patch_apply_test -/
def opTest (eq : JVal → JVal → Bool) (doc elem : JVal) (path : Option Bytes) : Outcome OpRes :=
  match objGet elem kValue with
  | none => OpRes.fail doc .EINVAL
  | some value1 =>
    match getInternal doc path with
    | .fault w => .fault w
    | .err e => OpRes.fail doc e (nullRootTags doc path)
    | .ok g =>
      -- the clause fires when json_object_equal and RFC 6902 4.6 disagree on the two values
      let tags := if eq value1 g.obj != Rfc6902.valEq value1 g.obj then [tagIntDouble] else []
      if eq value1 g.obj then OpRes.done doc tags else OpRes.fail doc .ENOENT tags

/-- json_object_array_del_idx(parent, index_in_parent, 1) on the parent node -/
def delIdxFn (idx32 : Nat) (parent : JVal) : R JVal :=
  match parent with
  | .arr xs => if idx32 < xs.length then .ok (.arr (xs.eraseIdx idx32)) else .err .EINVAL
  | _ => .fault "__json_patch_apply_remove: parent is not an array"

/-- json_object_object_del(parent, key_in_parent) on the parent node -/
def delKeyFn (k : Bytes) (parent : JVal) : R JVal :=
  match parent with
  | .obj kvs => .ok (.obj (objDel k kvs))
  | _ => .fault "__json_patch_apply_remove: parent is not an object"

/-- __json_patch_apply_remove(&jpres): the new document and the new `jpres->obj`;
`.err` = a negative return code -/
def removeAt (doc : JVal) (g : GetRes) : R (JVal × JVal) :=
  match g.place with
  | .elem loc idx32 => (updateAt doc loc (delIdxFn idx32)).map' fun d => (d, g.obj)
  | .member loc k => (updateAt doc loc (delKeyFn k)).map' fun d => (d, g.obj)
  | .root =>
    -- "We're removing the root object": json_object_put(jpres->obj); jpres->obj = NULL.
    -- The caller's `*res` is not touched here.
    .ok (doc, .null)

/-- json_patch_apply_remove -/
def opRemove (doc : JVal) (path : Option Bytes) : Outcome OpRes :=
  match getInternal doc path with
  | .fault w => .fault w
  | .err e => OpRes.fail doc e (nullRootTags doc path)
  | .ok g =>
    match removeAt doc g with
    | .fault w => .fault w
    | .err _ => OpRes.fail doc .EINVAL
    | .ok (d, _) =>
      -- "This means we removed and freed the root object, i.e. *res"
      match g.place with
      | .root => OpRes.done .null
      | _ => OpRes.done d

/-- json_patch_apply_add_replace -/
def opAddReplace (doc elem : JVal) (path : Option Bytes) (add : Bool) : Outcome OpRes :=
  match objGet elem kValue with
  | none => OpRes.fail doc .EINVAL
  | some value =>
    let existing : R Unit :=
      if add then .ok () else (getInternal doc path).map' fun _ => ()
    match existing with
    | .fault w => .fault w
    | .err e => OpRes.fail doc e (nullRootTags doc path)
    | .ok () =>
      -- json_patch_copy_value: the document gets its own copy of `value`
      match setWithCb doc path value (if add then .insert else .put) with
      | .fault w => .fault w
      | .err e => OpRes.fail doc e
      | .ok d => OpRes.done d

/-- the strncmp test: `from` is a prefix of `path`, reference token by reference token -/
def fromIsPrefix (fromS path : Bytes) : Bool :=
  fromS.isPrefixOf path &&
    (match path.drop fromS.length with
     | [] => true
     | c :: _ => c == 0x2f)

/-- json_patch_apply_move_copy -/
def opMoveCopy (ser : JVal → Bytes) (doc elem : JVal) (path : Option Bytes) (move : Bool) : Outcome OpRes :=
  match objGet elem kFrom with
  | none => OpRes.fail doc .EINVAL
  | some jfrom =>
    match getString ser jfrom with
    | none => OpRes.fail doc .EINVAL
    | some fromS =>
      match path with
      | none => OpRes.fail doc .EINVAL
      | some p =>
        let pre := fromIsPrefix fromS p
        if pre && move && fromS.length == p.length then
          -- same location: nothing to do, but it still has to exist
          match getInternal doc (some fromS) with
          | .fault w => .fault w
          | .err e => OpRes.fail doc e (nullRootTags doc (some fromS))
          | .ok _ => OpRes.done doc
        else if pre && move then OpRes.fail doc .EINVAL
        else
          match getInternal doc (some fromS) with
          | .fault w => .fault w
          | .err e => OpRes.fail doc e (nullRootTags doc (some fromS))
          | .ok g =>
            if !move then
              -- json_patch_copy_value(from.obj, &from.obj)
              match setWithCb doc path g.obj .insert with
              | .fault w => .fault w
              | .err e => OpRes.fail doc e
              | .ok d => OpRes.done d
            else
              match removeAt doc g with
              | .fault w => .fault w
              | .err _ => .ok { doc := doc, rc := -1, err := .none }   -- returns rc without _set_err
              | .ok (d1, obj) =>
                match setWithCb d1 path obj .move with
                | .fault w => .fault w
                | .err e => OpRes.fail d1 e
                | .ok d => OpRes.done d

/-- clauses that fire on the text of a field: cut at a NUL, or a `~` that is not an escape -/
def fieldTags (ser : JVal → Bytes) (j : JVal) (isPointer : Bool) : List String :=
  (if hasNul j then [tagNul] else []) ++
  (match getString ser j with
   | some s => if !isPointer || tildeOk s then [] else [tagTilde]
   | none => [])

/-- one iteration of the loop of json_patch_apply -/
def step (ser : JVal → Bytes) (eq : JVal → JVal → Bool) (doc elem : JVal) : Outcome OpRes :=
  match objGet elem kOp with
  | none => OpRes.fail doc .EINVAL
  | some jop =>
    match getString ser jop with
    | none => OpRes.fail doc .EINVAL
    | some op =>
      match objGet elem kPath with
      | none => OpRes.fail doc .EINVAL
      | some jpath =>
        let path := getString ser jpath
        let tags := fieldTags ser jop false ++ fieldTags ser jpath true ++
          (if op = sMove ∨ op = sCopy then
            match objGet elem kFrom with
            | some jfrom => fieldTags ser jfrom true
            | none => []
           else [])
        let r :=
          if op = sTest then opTest eq doc elem path
          else if op = sRemove then opRemove doc path
          else if op = sAdd then opAddReplace doc elem path true
          else if op = sReplace then opAddReplace doc elem path false
          else if op = sMove then opMoveCopy ser doc elem path true
          else if op = sCopy then opMoveCopy ser doc elem path false
          else OpRes.fail doc .EINVAL
        match r with
        | .fault w => .fault w
        | .ok o => .ok { o with tags := tags ++ o.tags }

/-- what json_patch_apply leaves behind -/
structure ApplyRes where
  rc : Int
  /-- patch_failure_idx; `none` = SIZE_T_MAX -/
  idx : Option Nat
  err : PErr
  /-- `*base` -/
  doc : JVal
  /-- the patch document as the loop saw it last -/
  patch : JVal
  tags : List String
  deriving Repr

/-- the loop, from operation number `i` with `rest` still to do -/
def applyLoop (ser : JVal → Bytes) (eq : JVal → JVal → Bool) (patch : JVal) :
    Nat → Option Nat → JVal → List String → List JVal → Outcome ApplyRes
  | _, last, doc, tags, [] => .ok { rc := 0, idx := last, err := .none, doc := doc, patch := patch, tags := tags }
  | i, _, doc, tags, elem :: rest =>
    match step ser eq doc elem with
    | .fault w => .fault w
    | .ok o =>
      if o.rc < 0 then
        .ok { rc := o.rc, idx := some i, err := o.err, doc := o.doc, patch := patch, tags := tags ++ o.tags }
      else applyLoop ser eq patch (i + 1) (some i) o.doc (tags ++ o.tags) rest

/-- json_patch_apply(copy_from, patch, &base, &patch_error) with `base` = the value of `*base`
before the call (`.null` = NULL). -/
def applyC (ser : JVal → Bytes) (eq : JVal → JVal → Bool) (copyFrom base patch : JVal) : Outcome ApplyRes :=
  if (isNull base && isNull copyFrom) || (!isNull base && !isNull copyFrom) then
    .ok { rc := -1, idx := none, err := .EFAULT, doc := base, patch := patch, tags := [] }
  else
    match patch with
    | .arr elems =>
      -- json_object_deep_copy(copy_from, base, NULL)
      let doc := if isNull copyFrom then base else copyFrom
      applyLoop ser eq patch 0 none doc [] elems
    | _ => .ok { rc := -1, idx := none, err := .EFAULT, doc := base, patch := patch, tags := [] }

/-! ### json_object_equal (transcription used by the driver; property C09 is about it) -/

/-- `c_double == c_double` on bit patterns: NaN is unequal to everything, +0 equals -0 -/
def dblEq (a b : UInt64) : Bool :=
  let isNaN (x : UInt64) : Bool := (x.toNat / 4503599627370496) % 2048 == 2047 && x.toNat % 4503599627370496 != 0
  let isZero (x : UInt64) : Bool := x.toNat % 9223372036854775808 == 0
  if isNaN a || isNaN b then false
  else if isZero a && isZero b then true
  else a == b

/-- second loop of json_object_all_values_equal: every key of `b` exists in `a` -/
def allKeysIn (b a : List (Bytes × JVal)) : Bool := b.all fun p => (objLookup p.1 a).isSome

mutual
  def jsonObjectEqual : JVal → JVal → Bool
    | .null, .null => true
    | .bool a, .bool b => a == b
    | .int _ a, .int _ b => a == b          -- int64/uint64 compared by value across the two storage types
    | .dbl a _, .dbl b _ => dblEq a b
    | .str a, .str b => a == b
    | .arr xs, .arr ys => arrEqual xs ys
    | .obj a, .obj b => allValuesEqual a b && allKeysIn b a
    | _, _ => false
  /-- json_array_equal -/
  def arrEqual : List JVal → List JVal → Bool
    | [], [] => true
    | x :: xs, y :: ys => jsonObjectEqual x y && arrEqual xs ys
    | _, _ => false
  /-- first loop of json_object_all_values_equal -/
  def allValuesEqual : List (Bytes × JVal) → List (Bytes × JVal) → Bool
    | [], _ => true
    | (k, v) :: r, b =>
      (match objLookup k b with
       | some w => jsonObjectEqual v w
       | none => false) && allValuesEqual r b
end


end JsonC.Patch
