/-
  Model for C14 (locale independence).

  Part 1 – the POSIX per-thread locale API as json_tokener_parse_ex uses it, as "checked C":
  the state is the calling thread's locale handle (LC_GLOBAL_LOCALE or a locale object) and the
  list of live locale objects; using, duplicating, modifying or freeing an object that is not live,
  freeing LC_GLOBAL_LOCALE / NULL, or freeing the object the thread currently uses is `fault`.
  What the libc calls *return* when they fail is a parameter (`Inj`), never an axiom.

  Part 2 – `parseEx`: prologue and epilogue of json_tokener_parse_ex (json_tokener.c, the
  HAVE_USELOCALE + HAVE_DUPLOCALE configuration of build/cfg/config.h) around an abstract body.
  The body is abstract on purpose: by `Generated.localeCallsInBody = 0` it makes no locale call, so
  all that matters is how it is left (`Exit`) and with which `tok->err` (`err`).  The epilogue is
  not transcribed by hand: it is the *interpretation* of `Generated.epilogueLocaleCalls`, the list
  of locale calls that tools/extract/st_locale.py reads after the `out:` label of the current source.

  Part 3 – `post`: what json_object_double_to_json_string_format (json_object.c) does to the
  snprintf output in `char buf[128]` (separator fix-up, ".0" completion, NOZERO trimming, truncation).
-/
import JsonC.Base.Basic
import JsonC.Generated.Consts
import JsonC.Generated.Structure

namespace JsonC.Locale
open JsonC Generated

/-! ## Part 1: locale handles and objects -/

/-- the LC_NUMERIC category of a locale: the "C" conventions (decimal point `.`) or a
comma-decimal one -/
inductive Numeric where
  | C | comma
  deriving DecidableEq, Repr

/-- a non-null `locale_t` -/
inductive Handle where
  | global                -- LC_GLOBAL_LOCALE
  | obj (id : Nat)        -- a locale object made by newlocale/duplocale
  deriving DecidableEq, Repr

structure LState where
  cur : Handle                     -- uselocale() state of the calling thread
  live : List (Nat × Numeric)      -- live locale objects (id, its LC_NUMERIC), in creation order
  next : Nat                       -- ids are never reused (a dangling handle stays detectable)
  globalNum : Numeric              -- LC_NUMERIC of the global locale (setlocale)
  deriving DecidableEq, Repr

def isLive (s : LState) (i : Nat) : Bool := s.live.any (·.1 == i)

def numOf (s : LState) (i : Nat) : Numeric :=
  match s.live.find? (·.1 == i) with
  | some p => p.2
  | none => .C

/-- the numeric conventions of a handle -/
def numericOf (s : LState) : Handle → Numeric
  | .global => s.globalNum
  | .obj i => numOf s i

/-- the numeric conventions in effect for the calling thread: what printf("%f") / strtod follow -/
def effective (s : LState) : Numeric := numericOf s s.cur

def removeObj (l : List (Nat × Numeric)) (i : Nat) : List (Nat × Numeric) := l.filter (·.1 != i)

/-- one libc locale call as the wrapped harness logs it (arguments / results as handles, NULL = none) -/
inductive Ev where
  | uselocale (arg : Option Handle) (ret : Handle)
  | duplocale (arg : Handle) (ret : Option Handle)
  | newlocale (base : Option Handle) (ret : Option Handle)
  | freelocale (arg : Option Handle)
  deriving DecidableEq, Repr

/-- state + log of the calls made so far -/
structure Ctx where
  st : LState
  trace : List Ev
  deriving DecidableEq, Repr

/-- locale_t uselocale(locale_t l): NULL queries, otherwise installs `l`; returns the previous handle -/
def uselocale (c : Ctx) (a : Option Handle) : Outcome (Handle × Ctx) :=
  let old := c.st.cur
  match a with
  | none => .ok (old, { c with trace := c.trace ++ [.uselocale none old] })
  | some .global =>
      .ok (old, { st := { c.st with cur := .global }, trace := c.trace ++ [.uselocale (some .global) old] })
  | some (.obj i) =>
      if isLive c.st i then
        .ok (old, { st := { c.st with cur := .obj i }, trace := c.trace ++ [.uselocale (some (.obj i)) old] })
      else .fault "uselocale: handle is not a live locale object"

/-- locale_t duplocale(locale_t l): `succeeds = false` → returns (locale_t)0, nothing created -/
def duplocale (c : Ctx) (h : Handle) (succeeds : Bool) : Outcome (Option Handle × Ctx) :=
  let valid := match h with
    | .global => true
    | .obj i => isLive c.st i
  if !valid then .fault "duplocale: handle is not a live locale object"
  else if succeeds then
    let n := c.st.next
    .ok (some (.obj n),
      { st := { c.st with live := c.st.live ++ [(n, numericOf c.st h)], next := n + 1 },
        trace := c.trace ++ [.duplocale h (some (.obj n))] })
  else .ok (none, { c with trace := c.trace ++ [.duplocale h none] })

/-- locale_t newlocale(LC_NUMERIC_MASK, "C", base): on success `base` (if not NULL) is consumed and the
result is a (new) object whose LC_NUMERIC is "C"; on failure `base` is untouched and still live. -/
def newlocaleNumericC (c : Ctx) (base : Option Handle) (succeeds : Bool) : Outcome (Option Handle × Ctx) :=
  match base with
  | some .global => .fault "newlocale: base is LC_GLOBAL_LOCALE (undefined)"
  | some (.obj i) =>
      if !isLive c.st i then .fault "newlocale: base is not a live locale object"
      else if succeeds then
        let n := c.st.next
        .ok (some (.obj n),
          { st := { c.st with live := removeObj c.st.live i ++ [(n, .C)], next := n + 1 },
            trace := c.trace ++ [.newlocale base (some (.obj n))] })
      else .ok (none, { c with trace := c.trace ++ [.newlocale base none] })
  | none =>
      if succeeds then
        let n := c.st.next
        .ok (some (.obj n),
          { st := { c.st with live := c.st.live ++ [(n, .C)], next := n + 1 },
            trace := c.trace ++ [.newlocale none (some (.obj n))] })
      else .ok (none, { c with trace := c.trace ++ [.newlocale none none] })

/-- void freelocale(locale_t l) -/
def freelocale (c : Ctx) (a : Option Handle) : Outcome Ctx :=
  match a with
  | none => .fault "freelocale: null handle"
  | some .global => .fault "freelocale: LC_GLOBAL_LOCALE"
  | some (.obj i) =>
      if !isLive c.st i then .fault "freelocale: handle is not a live locale object (double free)"
      else if c.st.cur = .obj i then .fault "freelocale: the object is the calling thread's current locale"
      else .ok { st := { c.st with live := removeObj c.st.live i }, trace := c.trace ++ [.freelocale a] }

/-! ## Part 2: json_tokener_parse_ex -/

/-- what `duplocale(oldlocale)` does -/
inductive DupRes where
  | ok
  | enomem          -- NULL, errno = ENOMEM (the only failure POSIX allows for a valid handle)
  | failOther       -- NULL, errno ≠ ENOMEM
  deriving DecidableEq, Repr

structure Inj where
  dup : DupRes
  newOk : Bool      -- does newlocale succeed?
  deriving DecidableEq, Repr

/-- how control leaves the part of the function between `uselocale(newloc)` and `out:` -/
inductive Exit where
  | loopEnd         -- the `while (PEEK_CHAR(c, tok))` loop ends (end of chunk, or `break` on NUL): falls into `out:`
  | gotoOut         -- one of the `goto out;`
  | earlyReturn     -- a `return` that bypasses `out:`
  deriving DecidableEq, Repr

/-- Which exits the *current source* has: read off the preprocessed text by tools/extract/st_locale.py. -/
def Exit.feasible : Exit → Prop
  | .loopEnd => True
  | .gotoOut => 0 < gotoOutAfterSwitch
  | .earlyReturn => 0 < earlyReturnsAfterSwitch

instance (e : Exit) : Decidable e.feasible := by
  cases e <;> unfold Exit.feasible <;> infer_instance

/-- where the call returned from -/
inductive Via where
  | sizeCheck | dupEnomem | newlocaleFailed | earlyReturn | commonExit
  deriving DecidableEq, Repr

structure PRes where
  ctx : Ctx
  err : Nat                        -- tok->err (json_tokener_error value)
  via : Via
  bodyNumeric : Option Numeric     -- numeric conventions in effect while the body ran (none: body not reached)
  deriving DecidableEq, Repr

/-- the locals the epilogue refers to -/
structure Locals where
  oldlocale : Handle
  newloc : Handle

/-- one locale call of the epilogue, as extracted (`Generated.epilogueLocaleCalls`).  Anything that is
not one of the two unconditional calls the model understands is a fault: the model then no longer
describes the source and every theorem about `parseEx` stops checking. -/
def epilogueCall (l : Locals) (c : Ctx) (call : String) : Outcome Ctx :=
  if call = "uselocale(oldlocale)" then do
    let (_, c) ← uselocale c (some l.oldlocale)
    pure c
  else if call = "freelocale(newloc)" then freelocale c (some l.newloc)
  else if call = "freelocale(oldlocale)" then freelocale c (some l.oldlocale)
  else if call = "uselocale(newloc)" then do
    let (_, c) ← uselocale c (some l.newloc)
    pure c
  else .fault ("epilogue: locale call the model does not know: " ++ call)

def runEpilogue (l : Locals) (c : Ctx) : List String → Outcome Ctx
  | [] => .ok c
  | call :: rest => do
    let c ← epilogueCall l c call
    runEpilogue l c rest

/-- The prologue as this model transcribes it: the locale calls and `return`s of the source up to and
including `uselocale(newloc)`, locals named by role, `?` = under a condition. -/
def prologueAsModelled : List String :=
  ["uselocale(NULL)", "?return", "duplocale(oldlocale)", "?return",
   "newlocale(LC_NUMERIC_MASK,\"C\",duploc)", "?freelocale(duploc)", "?return", "uselocale(newloc)"]

/-- Does the current source (as read by tools/extract/st_locale.py) still have the control skeleton
that `parseEx` transcribes?  The prologue is the modelled one (so in particular the switch is not
under a condition), nothing jumps to `out:` before `newloc` is set, and the body between the switch
and `out:` makes no locale call.  When this fails `parseEx` is `fault`: the driver then disagrees with
the implementation on every call and every theorem about `parseEx` stops checking. -/
def skeletonOk : Bool :=
  prologueLocaleEvents == prologueAsModelled && gotoOutBeforeSwitch == 0 && localeCallsInBody == 0

/-- struct json_object *json_tokener_parse_ex(tok, str, len), locale-relevant skeleton.
`sizeOk` = the `len` argument passes the INT32_MAX check; `err` = the `tok->err` the body and the
checks after `out:` leave (any value: the locale handling does not depend on it). -/
def parseEx (s : LState) (sizeOk : Bool) (inj : Inj) (exit : Exit) (err : Nat) : Outcome PRes := do
  if !skeletonOk then .fault "parse_ex: the source no longer has the control skeleton this model transcribes" else
  let c : Ctx := ⟨s, []⟩
  -- locale_t oldlocale = uselocale(NULL); locale_t newloc;
  let (oldlocale, c) ← uselocale c none
  -- if ((len < -1) || (len == -1 && strlen(str) > INT32_MAX)) { tok->err = json_tokener_error_size; return NULL; }
  if !sizeOk then return ⟨c, errSize, .sizeCheck, none⟩
  -- locale_t duploc = duplocale(oldlocale);
  let (duploc, c) ← duplocale c oldlocale (inj.dup == .ok)
  -- if (duploc == NULL && errno == ENOMEM) { tok->err = json_tokener_error_memory; return NULL; }
  if duploc = none ∧ inj.dup = .enomem then return ⟨c, errMemory, .dupEnomem, none⟩
  -- newloc = newlocale(LC_NUMERIC_MASK, "C", duploc);
  let (newloc, c) ← newlocaleNumericC c duploc inj.newOk
  match newloc with
  | none =>
    -- if (newloc == NULL) { tok->err = json_tokener_error_memory; freelocale(duploc); return NULL; }
    let c ← freelocale c duploc
    return ⟨c, errMemory, .newlocaleFailed, none⟩
  | some newloc =>
    -- uselocale(newloc);
    let (_, c) ← uselocale c (some newloc)
    let bodyNum := effective c.st
    -- while (PEEK_CHAR(c, tok)) { ... }   -- no locale call in here (Generated.localeCallsInBody)
    match exit with
    | .earlyReturn => return ⟨c, err, .earlyReturn, some bodyNum⟩
    | _ =>
      -- out: ... uselocale(oldlocale); freelocale(newloc); ... return
      let c ← runEpilogue ⟨oldlocale, newloc⟩ c epilogueLocaleCalls
      return ⟨c, err, .commonExit, some bodyNum⟩

/-! ## Part 3: the serializer's post-processing of the snprintf output -/

def cComma : UInt8 := 44
def cPoint : UInt8 := 46
def cMinus : UInt8 := 45
def cZero : UInt8 := 48
def cLowerE : UInt8 := 101
def cUpperE : UInt8 := 69

def isPlainDigit (b : UInt8) : Bool := 48 ≤ b && b ≤ 57

/-- strchr on a NUL-free C string: index of the first occurrence -/
def strchr : Bytes → UInt8 → Option Nat
  | [], _ => none
  | x :: xs, b => if x = b then some 0 else (strchr xs b).map (· + 1)

/-- `p = strchr(buf, ','); if (p) *p = '.'; else p = strchr(buf, '.');` → (buf, p) -/
def fixSep (buf : Bytes) : Bytes × Option Nat :=
  match strchr buf cComma with
  | some i => (buf.set i cPoint, some i)
  | none => (buf, strchr buf cPoint)

/-- the NOZERO scan `for (q = p; *q && *q != 'e' && *q != 'E'; q++) if (*q != '0') p = q;`
over `rest = buf[q..]`; `p`, `q` are indices into buf.  Returns the final (p, q). -/
def scanFrac : Bytes → Nat → Nat → Nat × Nat
  | [], p, q => (p, q)
  | x :: xs, p, q =>
    if x = cLowerE ∨ x = cUpperE then (p, q)
    else scanFrac xs (if x ≠ cZero then q else p) (q + 1)

/-- NOZERO: `p++; scan; if (p < q) memmove(p + 1, q, strlen(q) + 1);` -/
def trimZeros (buf : Bytes) (p : Nat) : Bytes :=
  let p1 := p + 1
  let (pl, q) := scanFrac (buf.drop p1) p1 p1
  if pl < q then buf.take (pl + 1) ++ buf.drop q else buf

/-- `looks_numeric = is_plain_digit(buf[0]) || (size > 1 && buf[0] == '-' && is_plain_digit(buf[1]))`
(buf[0] is the terminating NUL when the output is empty; buf[1] is read only when size > 1) -/
def looksNumeric (buf : Bytes) (size : Nat) : Bool :=
  let b0 := buf.getD 0 0
  isPlainDigit b0 || (decide (size > 1) && b0 == cMinus && isPlainDigit (buf.getD 1 0))

/-- `if (size < (int)sizeof(buf) - 2 && looks_numeric && !p && strchr(buf, 'e') == NULL &&
format_drops_decimals) { strcat(buf, ".0"); size += 2; }` → (buf, size) -/
def addPointZero (dropsDecimals : Bool) (buf : Bytes) (p : Option Nat) (size : Nat) : Bytes × Nat :=
  if decide (size < serBufSize - 2) && looksNumeric buf size && p.isNone && (strchr buf cLowerE).isNone && dropsDecimals
  then (buf ++ [cPoint, cZero], size + 2) else (buf, size)

/-- `if (p && (flags & JSON_C_TO_STRING_NOZERO)) { …trim…; size = (int)strlen(buf); }` → (buf, size) -/
def nozeroStep (nozero : Bool) (buf : Bytes) (p : Option Nat) (size : Nat) : Bytes × Nat :=
  match p with
  | some i => if nozero then (trimZeros buf i, (trimZeros buf i).length) else (buf, size)
  | none => (buf, size)

/-- `if (size >= (int)sizeof(buf)) size = sizeof(buf) - 1; printbuf_memappend(pb, buf, size);`
with the two accesses checked: `buf` (plus its NUL) must fit `char buf[N]`, and memappend must not
read past the NUL. -/
def finish (buf : Bytes) (size : Nat) : Outcome Bytes :=
  if buf.length ≥ serBufSize then .fault "double_to_json_string_format: write past char buf[N]"
  else
    let size := if size ≥ serBufSize then serBufSize - 1 else size
    if size > buf.length then .fault "double_to_json_string_format: memappend reads past the terminating NUL"
    else .ok (buf.take size)

/-- Everything after `size = snprintf(buf, sizeof(buf), format, d)` for a finite double.
`out` = the complete formatted output (no NUL inside), `dropsDecimals` = `format == std_format ||
strstr(format, ".0f") == NULL`, `nozero` = `flags & JSON_C_TO_STRING_NOZERO`.  Result: the bytes handed
to printbuf_memappend. -/
def post (nozero dropsDecimals : Bool) (out : Bytes) : Outcome Bytes :=
  -- snprintf truncates to N-1 bytes and terminates; `size` is the untruncated length
  let fs := fixSep (out.take (serBufSize - 1))
  let az := addPointZero dropsDecimals fs.1 fs.2 out.length
  let nz := nozeroStep nozero az.1 fs.2 az.2
  finish nz.1 nz.2

/-- `snprintf(buf, …, "NaN" / "Infinity" / "-Infinity")` branches: no post-processing -/
def nonFinite (nan neg : Bool) : Bytes :=
  if nan then strBytes "NaN" else if neg then strBytes "-Infinity" else strBytes "Infinity"

end JsonC.Locale
