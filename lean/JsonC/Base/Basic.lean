/-
  Base definitions shared by every model: byte strings, the `Outcome` monad of
  "checked C" (a computation either yields a value or performs an operation that
  C leaves undefined / that would touch memory outside an allocation), errno
  classes, hex printing for the line protocol.
-/
namespace JsonC

abbrev Bytes := List UInt8

/-- Result of a piece of checked C.  `fault why` = undefined behaviour or an
out-of-bounds access was reached; `why` names the C site. -/
inductive Outcome (α : Type) where
  | ok (a : α)
  | fault (why : String)
  deriving Repr, DecidableEq

namespace Outcome

@[inline] def bind {α β : Type} (x : Outcome α) (f : α → Outcome β) : Outcome β :=
  match x with
  | ok a => f a
  | fault w => fault w

instance : Monad Outcome where
  pure := ok
  bind := bind

def isOk {α : Type} : Outcome α → Bool
  | ok _ => true
  | fault _ => false

@[simp] theorem bind_ok {α β : Type} (a : α) (f : α → Outcome β) : (ok a >>= f) = f a := rfl
@[simp] theorem bind_fault {α β : Type} (w : String) (f : α → Outcome β) :
    ((fault w : Outcome α) >>= f) = fault w := rfl
@[simp] theorem pure_eq {α : Type} (a : α) : (pure a : Outcome α) = ok a := rfl
@[simp] theorem isOk_ok {α : Type} (a : α) : (ok a).isOk = true := rfl
@[simp] theorem isOk_fault {α : Type} (w : String) : (fault w : Outcome α).isOk = false := rfl

end Outcome

/-- errno classes the library documents. -/
inductive Errno where
  | none | ERANGE | EINVAL | ENOENT | ENOMEM | EFBIG | EBADF | other
  deriving Repr, DecidableEq, Inhabited

def Errno.toString : Errno → String
  | .none => "0" | .ERANGE => "ERANGE" | .EINVAL => "EINVAL" | .ENOENT => "ENOENT"
  | .ENOMEM => "ENOMEM" | .EFBIG => "EFBIG" | .EBADF => "EBADF" | .other => "other"

instance : ToString Errno := ⟨Errno.toString⟩

/-! ### hex for the line protocol -/

def hexDigit (n : Nat) : Char :=
  if n < 10 then Char.ofNat (48 + n) else Char.ofNat (87 + n)

def hexByte (b : UInt8) : String :=
  String.ofList [hexDigit (b.toNat / 16), hexDigit (b.toNat % 16)]

/-- bytes → lowercase hex; the empty string is written `-` so that fields never vanish. -/
def toHex (bs : Bytes) : String :=
  if bs.isEmpty then "-" else String.join (bs.map hexByte)

def hexVal (c : Char) : Option Nat :=
  if '0' ≤ c ∧ c ≤ '9' then some (c.toNat - 48)
  else if 'a' ≤ c ∧ c ≤ 'f' then some (c.toNat - 87)
  else if 'A' ≤ c ∧ c ≤ 'F' then some (c.toNat - 55)
  else none

def ofHexChars : List Char → Option Bytes
  | [] => some []
  | [_] => none
  | a :: b :: rest => do
    let x ← hexVal a
    let y ← hexVal b
    let r ← ofHexChars rest
    pure (UInt8.ofNat (x * 16 + y) :: r)

def ofHex (s : String) : Option Bytes :=
  if s = "-" then some [] else ofHexChars s.toList

def strBytes (s : String) : Bytes := s.toUTF8.toList

/-- UTF-8 encoding of a code point below 0x110000 (1 to 4 bytes), in the shift/mask form both the
tokener and the specification use (checked against an independent encoder by the correspondence runs) -/
def utf8Encode (u : Nat) : Bytes :=
  if u < 0x80 then [UInt8.ofNat u]
  else if u < 0x800 then [UInt8.ofNat (0xC0 ||| (u >>> 6)), UInt8.ofNat (0x80 ||| (u &&& 0x3F))]
  else if u < 0x10000 then
    [UInt8.ofNat (0xE0 ||| (u >>> 12)), UInt8.ofNat (0x80 ||| ((u >>> 6) &&& 0x3F)), UInt8.ofNat (0x80 ||| (u &&& 0x3F))]
  else
    [UInt8.ofNat (0xF0 ||| ((u >>> 18) &&& 7)), UInt8.ofNat (0x80 ||| ((u >>> 12) &&& 0x3F)),
     UInt8.ofNat (0x80 ||| ((u >>> 6) &&& 0x3F)), UInt8.ofNat (0x80 ||| (u &&& 0x3F))]

end JsonC
