/-
  The C semantics the translator (tools/extract/c2lean.py) targets: integer types as ranges of `Int`,
  signed overflow / division by zero / over-wide shifts as `Outcome.fault`, unsigned arithmetic and
  narrowing conversions as wrap-around, pointers as abstract addresses.
-/
import JsonC.Base.Basic

namespace JsonC.CSem
open JsonC

/-- reduction into the range of an unsigned type of `bits` bits -/
def wrapU (bits : Nat) (x : Int) : Int := x % (2 ^ bits : Int)

/-- reduction into the range of a two's-complement type of `bits` bits (what gcc and clang define for
out-of-range conversions to a signed type) -/
def wrapS (bits : Nat) (x : Int) : Int :=
  (x + (2 ^ (bits - 1) : Int)) % (2 ^ bits : Int) - (2 ^ (bits - 1) : Int)

/-- the result of an arithmetic operation in a signed type: outside the range it is undefined behaviour -/
def ckS (bits : Nat) (x : Int) (site : String) : Outcome Int :=
  if -(2 ^ (bits - 1) : Int) ≤ x ∧ x ≤ (2 ^ (bits - 1) : Int) - 1 then .ok x
  else .fault ("signed overflow: " ++ site)

/-- C division (truncating); division by zero and INT_MIN / -1 are undefined -/
def cdiv (bits : Nat) (signed : Bool) (a b : Int) (site : String) : Outcome Int :=
  if b = 0 then .fault ("division by zero: " ++ site)
  else if signed ∧ a = -(2 ^ (bits - 1) : Int) ∧ b = -1 then .fault ("signed overflow: " ++ site)
  else .ok (Int.tdiv a b)

def cmod (bits : Nat) (signed : Bool) (a b : Int) (site : String) : Outcome Int :=
  if b = 0 then .fault ("division by zero: " ++ site)
  else if signed ∧ a = -(2 ^ (bits - 1) : Int) ∧ b = -1 then .fault ("signed overflow: " ++ site)
  else .ok (Int.tmod a b)

/-- `a << s` in a signed type: undefined for a negative operand or a result that does not fit -/
def ckShlS (bits : Nat) (a : Int) (s : Nat) (site : String) : Outcome Int :=
  if 0 ≤ a ∧ a * (2 ^ s : Int) ≤ (2 ^ (bits - 1) : Int) - 1 then .ok (a * (2 ^ s : Int))
  else .fault ("signed shift: " ++ site)

/-- a shift by a computed amount -/
def cshift (bits : Nat) (signed left : Bool) (a s : Int) (site : String) : Outcome Int :=
  if s < 0 ∨ s ≥ bits then .fault ("shift amount: " ++ site)
  else if left then
    (if signed then ckShlS bits a s.toNat site else .ok (wrapU bits (a * (2 ^ s.toNat : Int))))
  else .ok (a / (2 ^ s.toNat : Int))

def band (bits : Nat) (signed : Bool) (a b : Int) : Int :=
  let r := Int.ofNat ((wrapU bits a).toNat &&& (wrapU bits b).toNat)
  if signed then wrapS bits r else r
def bor (bits : Nat) (signed : Bool) (a b : Int) : Int :=
  let r := Int.ofNat ((wrapU bits a).toNat ||| (wrapU bits b).toNat)
  if signed then wrapS bits r else r
def bxor (bits : Nat) (signed : Bool) (a b : Int) : Int :=
  let r := Int.ofNat ((wrapU bits a).toNat ^^^ (wrapU bits b).toNat)
  if signed then wrapS bits r else r

/-- the address of a named object or function: some fixed non-null address -/
def addrOf (name : String) : Int := 4096 + (name.length : Int)

/-- the address of a member of the structure at `base` (only its identity matters) -/
def field (base : Int) (_name : String) : Int := base

/-- a call of a function that does not return (`abort`, a failed `assert`) -/
def noreturn {α : Type} (what : String) : Outcome α := .fault ("noreturn: " ++ what)

/-- the definition of a translated loop ran out of the fuel it was given (never the C loop itself: the theorems
choose the fuel and show that it suffices) -/
def outOfFuel {α : Type} : Outcome α := .fault "translated loop: out of fuel"

@[simp] theorem wrapU_of_range {bits : Nat} {x : Int} (h0 : 0 ≤ x) (h1 : x < (2 ^ bits : Int)) : wrapU bits x = x := by
  unfold wrapU; exact Int.emod_eq_of_lt h0 h1

theorem ckS_ok {bits : Nat} {x : Int} {site : String}
    (h : -(2 ^ (bits - 1) : Int) ≤ x ∧ x ≤ (2 ^ (bits - 1) : Int) - 1) : ckS bits x site = .ok x := by
  unfold ckS; simp [h]

end JsonC.CSem
