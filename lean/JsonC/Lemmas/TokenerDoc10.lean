/-
  `parse_valid` (C01), part 10: the induction over documents.
-/
import JsonC.Lemmas.TokenerDoc9
namespace JsonC.Tokener
open JsonC Rfc8259

/-- induction over documents with membership hypotheses for the elements and member values -/
theorem doc_induct {P : Doc → Prop} (hnull : P .null) (htrue : P .true_) (hfalse : P .false_)
    (hnum : ∀ n, P (.num n)) (hstr : ∀ items, P (.str items))
    (harr : ∀ w es, (∀ e ∈ es, P e.2.1) → P (.arr w es))
    (hobj : ∀ w ms, (∀ m ∈ ms, P m.2.2.2.2.1) → P (.obj w ms)) : ∀ d, P d
  | .null => hnull
  | .true_ => htrue
  | .false_ => hfalse
  | .num n => hnum n
  | .str items => hstr items
  | .arr w es => harr w es (fun e he =>
      match e, he with
      | (_, d, _), _ => doc_induct hnull htrue hfalse hnum hstr harr hobj d)
  | .obj w ms => hobj w ms (fun m hm =>
      match m, hm with
      | (_, _, _, _, d, _), _ => doc_induct hnull htrue hfalse hnum hstr harr hobj d)
termination_by d => sizeOf d
decreasing_by
  all_goals simp_wf
  · rename_i he
    have := List.sizeOf_lt_of_mem he
    simp at this
    omega
  · rename_i hm
    have := List.sizeOf_lt_of_mem hm
    simp at this
    omega

theorem topOk_open (sv : St) (cur : JVal)
    (h : (sv = .array ∧ cur = .arr []) ∨ (sv = .objectFieldStart ∧ cur = .obj [])) :
    (⟨.eatws, sv, cur, none⟩ : Level).topOk = true := by
  rcases h with ⟨h, hc⟩ | ⟨h, hc⟩ <;> subst h <;> subst hc <;> simp [Level.topOk, isArrV, isObjV] <;> decide

/-- every well-formed document within the depth limit is parsed to its denotation -/
theorem doc_goal (lc : Libc) (hl : LibcSpec lc) : ∀ d, DocGoal lc d := by
  apply doc_induct
  · intro t l cur rest hwf hs hv hhs hl0 _ _ _ _
    exact parsed_null lc t l cur none rest hwf hs hv hhs hl0
  · intro t l cur rest hwf hs hv hhs hl0 _ _ _ _
    exact parsed_true lc t l cur none rest hwf hs hv hhs hl0
  · intro t l cur rest hwf hs hv hhs hl0 _ _ _ _
    exact parsed_false lc t l cur none rest hwf hs hv hhs hl0
  · intro n t l cur rest hwf hs hv hhs _ hok hfit _ _
    exact parsed_num lc hl t l cur none rest hwf hs hv hhs n hok hfit
  · intro items t l cur rest hwf hs hv hhs hl0 hok _ _ _
    exact parsed_string lc t l cur none rest hwf hs hv hhs hl0 items (fun i hi => (List.all_eq_true.mp hok) i hi)
  · -- arrays
    intro w es ih t l cur rest hwf hs hv hhs hl0 hok hfit hknf hdepth
    have h1 := open_array lc t l hv cur none rest hs
    let t1 : Tok := { t with stack := ⟨.eatws, .array, .arr [], none⟩ :: rest }
    have f1 : Frm t t1 := ⟨rfl, rfl, hhs⟩
    have hwf1 : WF t1 := wf_restack hwf hs rfl rfl (topOk_open _ _ (Or.inl ⟨rfl, rfl⟩)) (posOk_of_ne (by simp) (by simp) (by simp))
    cases es with
    | nil =>
      have h2 : Reaches lc t1 l w.text t1 l := by
        intro c off rs
        exact run_ws lc t1 l .array (.arr []) none rest rfl hv w.text (ws_bytes_ws w) c off rs
      have h3 := close_empty_array lc t1 l hv [] none rest rfl
      have hr := (h1.trans h2).trans h3
      have e : (Doc.arr w []).text = [91] ++ w.text ++ [93] := by simp [Doc.text]
      have hd : (Doc.arr w []).denote = .arr [] := by simp [Doc.denote, elemsDenote]
      rw [e, hd]
      exact parsed_of_reaches lc t l _ _ none rest _ hwf hs
        { t1 with stack := ⟨.eatws, .finish, .arr [], none⟩ :: rest } rfl ⟨rfl, rfl, hhs⟩ hl0 hr
    | cons e0 r =>
      intro nb _ _ c off rs
      have hne : e0 :: r ≠ [] := by simp
      have e : (Doc.arr w (e0 :: r)).text ++ nb :: rs =
          [91] ++ (intercalateB 44 (elemsText (e0 :: r)) ++ 93 :: (nb :: rs)) := by simp [Doc.text]
      obtain ⟨t', l', hs', f', hl', hrun⟩ := elems_run lc (e0 :: r) hne ih t1 l .array (Or.inl rfl) [] rest hwf1 rfl hv hhs hl0
        (by simpa [Doc.ok] using hok) (fun h => by simpa [Doc.intsFit] using hfit h) (by simpa [Doc.keysNulFree] using hknf)
        (by simpa [Doc.nest] using hdepth) 91 (off + 1) (nb :: rs)
      have hh := h1 c off (intercalateB 44 (elemsText (e0 :: r)) ++ 93 :: (nb :: rs))
      simp only [lastOr, List.getLast?_singleton, Option.getD_some, List.length_singleton] at hh
      rw [e, hh, hrun]
      refine ⟨t', l', by simpa [Doc.denote] using hs', f1.trans f', ?_, hl', ?_⟩
      · exact wf_restack hwf hs hs' (f1.trans f').md (topOk_finish _ _) (posOk_of_ne (by simp) (by simp) (by simp))
      · have e2 : (Doc.arr w (e0 :: r)).text = (91 :: intercalateB 44 (elemsText (e0 :: r))) ++ [93] := by simp [Doc.text]
        rw [e2, lastOr_snoc]
        simp only [List.length_append, List.length_cons, List.length_nil]
        congr 1
        omega
  · -- objects
    intro w ms ih t l cur rest hwf hs hv hhs hl0 hok hfit hknf hdepth
    have h1 := open_object lc t l hv cur none rest hs
    let t1 : Tok := { t with stack := ⟨.eatws, .objectFieldStart, .obj [], none⟩ :: rest }
    have f1 : Frm t t1 := ⟨rfl, rfl, hhs⟩
    have hwf1 : WF t1 := wf_restack hwf hs rfl rfl (topOk_open _ _ (Or.inr ⟨rfl, rfl⟩)) (posOk_of_ne (by simp) (by simp) (by simp))
    cases ms with
    | nil =>
      have h2 : Reaches lc t1 l w.text t1 l := by
        intro c off rs
        exact run_ws lc t1 l .objectFieldStart (.obj []) none rest rfl hv w.text (ws_bytes_ws w) c off rs
      have h3 := close_empty_object lc t1 l hv [] none rest rfl
      have hr := (h1.trans h2).trans h3
      have e : (Doc.obj w []).text = [123] ++ w.text ++ [125] := by simp [Doc.text]
      have hd : (Doc.obj w []).denote = .obj [] := by simp [Doc.denote, membersDenote]
      rw [e, hd]
      exact parsed_of_reaches lc t l _ _ none rest _ hwf hs
        { t1 with stack := ⟨.eatws, .finish, .obj [], none⟩ :: rest } rfl ⟨rfl, rfl, hhs⟩ hl0 hr
    | cons e0 r =>
      intro nb _ _ c off rs
      have hne : e0 :: r ≠ [] := by simp
      have e : (Doc.obj w (e0 :: r)).text ++ nb :: rs =
          [123] ++ (intercalateB 44 (membersText (e0 :: r)) ++ 125 :: (nb :: rs)) := by simp [Doc.text]
      obtain ⟨t', l', hs', f', hl', hrun⟩ := members_run lc (e0 :: r) hne ih t1 l .objectFieldStart (Or.inl rfl) [] none rest hwf1 rfl hv hhs hl0
        (by simpa [Doc.ok] using hok) (fun h => by simpa [Doc.intsFit] using hfit h) (by simpa [Doc.keysNulFree] using hknf)
        (by simpa [Doc.nest] using hdepth) 123 (off + 1) (nb :: rs)
      have hh := h1 c off (intercalateB 44 (membersText (e0 :: r)) ++ 125 :: (nb :: rs))
      simp only [lastOr, List.getLast?_singleton, Option.getD_some, List.length_singleton] at hh
      rw [e, hh, hrun]
      refine ⟨t', l', by simpa [Doc.denote] using hs', f1.trans f', ?_, hl', ?_⟩
      · exact wf_restack hwf hs hs' (f1.trans f').md (topOk_finish _ _) (posOk_of_ne (by simp) (by simp) (by simp))
      · have e2 : (Doc.obj w (e0 :: r)).text = (123 :: intercalateB 44 (membersText (e0 :: r))) ++ [125] := by simp [Doc.text]
        rw [e2, lastOr_snoc]
        simp only [List.length_append, List.length_cons, List.length_nil]
        congr 1
        omega

end JsonC.Tokener
