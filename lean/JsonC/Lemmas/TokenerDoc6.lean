/-
  Towards `parse_valid` (C01), part 6: the top level - leading white space, the value, trailing
  white space, the terminating NUL, and the epilogue.
-/
import JsonC.Lemmas.TokenerDoc5
namespace JsonC.Tokener
open JsonC Rfc8259

/-- flags 0 or STRICT: no UTF-8 validation, no ALLOW_TRAILING -/
theorem noVal_of_flags (d : Int) (f : Nat) (t : Tok) (h : Tokener.new d f = some t) (hf : f = 0 ∨ f = 1) :
    NoVal t ∧ t.hs = 0 ∧ t.stack = [⟨.eatws, .start, .null, none⟩] ∧ t.maxDepth = d.toNat ∧ (t.strict = true ↔ f = 1) := by
  unfold Tokener.new at h
  split at h
  · cases h
  · cases h
    rcases hf with h | h <;> subst h <;> simp [NoVal, freshLevel, Tok.strict] <;> decide

/-- after the value: trailing white space, then the NUL ends the call at `finish`, depth 0 -/
theorem run_trailer (lc : Libc) (t : Tok) (l : Loc) (v : JVal) (nm : Option Bytes)
    (hs : t.stack = [⟨.eatws, .finish, v, nm⟩]) (hv : NoVal t) (w : Bytes) (hw : ∀ b ∈ w, isWs b = true ∧ b ≠ 0)
    (c : UInt8) (off : Nat) :
    run lc t l c off (w ++ [0]) =
      ⟨{ t with stack := [⟨.finish, .finish, v, nm⟩] }, l, 0, off + w.length, .done⟩ := by
  rw [run_ws lc t l .finish v nm [] hs hv w hw c off [0]]
  have hv' := hv; unfold NoVal at hv'
  simp [run, peek, hv', feed, fuel, feedN, disp, hs, dEatws, dFinish, isWs, setTop, Tok.validateUtf8]

/-- the epilogue on that loop result: success, the value, nothing consumed beyond the trailing space -/
theorem epilogue_done (t : Tok) (l : Loc) (v : JVal) (nm : Option Bytes) (off : Nat) (hv : NoVal t) :
    let f := epilogue ⟨{ t with stack := [⟨.finish, .finish, v, nm⟩] }, l, 0, off, .done⟩
    f.err = .success ∧ f.value = some v ∧ f.offset = off ∧ f.stuck = false ∧ f.fault = none := by
  have hv' := hv.validate
  have : ({ t with stack := [⟨.finish, .finish, v, nm⟩] } : Tok).validateUtf8 = false := by
    simpa [Tok.validateUtf8] using hv'
  simp [epilogue, finalErr, loopErr, topState, topCurrent, this]

/-- **top level**: if the document's value parses (`Parsed`) from a fresh tokener, then the whole
NUL-terminated text `ws value ws NUL` parses to that value with status success, and the end position
is the length of the text -/
theorem top_level (lc : Libc) (t : Tok) (hwf : WF t) (hst : t.stack = [⟨.eatws, .start, .null, none⟩]) (hv : NoVal t)
    (x : Text) (v : JVal)
    (hP : Parsed lc t {} x.doc.text v none []) :
    let f := parseEx lc t (x.text ++ [0])
    f.err = .success ∧ f.value = some v ∧ f.offset = x.text.length ∧ f.stuck = false ∧ f.fault = none := by
  have hlead := ws_bytes_ws x.lead
  have htrail := ws_bytes_ws x.trail
  -- the byte after the value: first trailing space or the NUL
  have hsplit : x.text ++ [0] = x.lead.text ++ (x.doc.text ++ (x.trail.text ++ [0])) := by simp [Text.text]
  unfold parseEx
  rw [hsplit, run_ws lc t {} .start .null none [] hst hv x.lead.text hlead 1 0 _]
  cases htr : x.trail.text ++ [0] with
  | nil => simp at htr
  | cons nb rs =>
    have hnb : Follow nb := by
      cases ht : x.trail.text with
      | nil => rw [ht] at htr; simp at htr; rw [← htr.1]; exact Or.inr (Or.inr (Or.inr (Or.inr (Or.inl rfl))))
      | cons y ys => rw [ht] at htr; simp at htr; rw [← htr.1]; exact Or.inl (htrail y (by simp [ht])).1
    obtain ⟨t', l', hs', hf, hwf', hl', hrun⟩ := hP nb hnb (fun _ => rfl) (lastOr 1 x.lead.text) (0 + x.lead.text.length) rs
    rw [hrun, ← htr, run_trailer lc t' l' v none hs' (hf.noVal hv) x.trail.text htrail]
    have := epilogue_done { t' with stack := [⟨.finish, .finish, v, none⟩] } l' v none
      (0 + x.lead.text.length + x.doc.text.length + x.trail.text.length) (by have := hf.noVal hv; simpa [NoVal] using this)
    simp only at this
    refine ⟨this.1, this.2.1, ?_, this.2.2.2.1, this.2.2.2.2⟩
    rw [this.2.2.1]; simp [Text.text]; omega

end JsonC.Tokener
