/-
  Towards `parse_valid` (C01), part 7: containers - the punctuation steps around elements and members.
-/
import JsonC.Lemmas.TokenerDoc6
namespace JsonC.Tokener
open JsonC Rfc8259

/-- the first byte of a value: never white space, never `]`, `}`, `/`, `,`, `:` or NUL -/
def ValueStart (b : UInt8) : Prop :=
  isWs b = false ∧ b ≠ 93 ∧ b ≠ 125 ∧ b ≠ 47 ∧ b ≠ 0 ∧ b ≠ 44

instance (b : UInt8) : Decidable (ValueStart b) := by unfold ValueStart; infer_instance

theorem digitByte_start (d : Nat) (h : d < 10) : ValueStart (digitByte d) := by
  have : d = 0 ∨ d = 1 ∨ d = 2 ∨ d = 3 ∨ d = 4 ∨ d = 5 ∨ d = 6 ∨ d = 7 ∨ d = 8 ∨ d = 9 := by omega
  rcases this with h | h | h | h | h | h | h | h | h | h <;> subst h <;> decide

theorem doc_first (d : Doc) (hok : d.ok = true) : ∃ b r, d.text = b :: r ∧ ValueStart b := by
  cases d with
  | null => exact ⟨110, _, rfl, by decide⟩
  | true_ => exact ⟨116, _, rfl, by decide⟩
  | false_ => exact ⟨102, _, rfl, by decide⟩
  | str items => exact ⟨34, _, rfl, by decide⟩
  | arr w es => cases es <;> exact ⟨91, _, rfl, by decide⟩
  | obj w ms => cases ms <;> exact ⟨123, _, rfl, by decide⟩
  | num n =>
    obtain ⟨neg, ip, frac, ex⟩ := n
    simp only [Doc.ok, Num.ok, Bool.and_eq_true] at hok
    have hipd := digitsOk_lt ip hok.1.1.1
    cases neg with
    | true => exact ⟨45, _, by simp only [Doc.text, Num.text, signByte]; rfl, by decide⟩
    | false =>
      cases ip with
      | nil => exact absurd rfl hipd.2
      | cons x xs =>
        exact ⟨digitByte x, _, by simp only [Doc.text, Num.text, signByte, digitsText, List.map_cons]; rfl,
          digitByte_start x (hipd.1 x (by simp))⟩

section
variable (lc : Libc) (t : Tok) (l : Loc) (hv : NoVal t)
include hv

/-- `[` opens an array on a level waiting for a value -/
theorem open_array (cur : JVal) (nm : Option Bytes) (rest : List Level)
    (hs : t.stack = ⟨.eatws, .start, cur, nm⟩ :: rest) :
    Reaches lc t l [91] { t with stack := ⟨.eatws, .array, .arr [], nm⟩ :: rest } l := by
  have hv' := hv; unfold NoVal at hv'
  intro c off rs
  simp [run, peek, hv', feed, fuel, feedN, disp, hs, dEatws, dStart, isWs, setTop, lastOr, Tok.validateUtf8]

theorem open_object (cur : JVal) (nm : Option Bytes) (rest : List Level)
    (hs : t.stack = ⟨.eatws, .start, cur, nm⟩ :: rest) :
    Reaches lc t l [123] { t with stack := ⟨.eatws, .objectFieldStart, .obj [], nm⟩ :: rest } l := by
  have hv' := hv; unfold NoVal at hv'
  intro c off rs
  simp [run, peek, hv', feed, fuel, feedN, disp, hs, dEatws, dStart, isWs, setTop, lastOr, Tok.validateUtf8]

/-- `]` closes an empty array / `}` an empty object -/
theorem close_empty_array (xs : List JVal) (nm : Option Bytes) (rest : List Level)
    (hs : t.stack = ⟨.eatws, .array, .arr xs, nm⟩ :: rest) :
    Reaches lc t l [93] { t with stack := ⟨.eatws, .finish, .arr xs, nm⟩ :: rest } l := by
  have hv' := hv; unfold NoVal at hv'
  intro c off rs
  simp [run, peek, hv', feed, fuel, feedN, disp, hs, dEatws, dArray, isWs, setTop, lastOr, Tok.validateUtf8]

theorem close_empty_object (kvs : List (Bytes × JVal)) (nm : Option Bytes) (rest : List Level)
    (hs : t.stack = ⟨.eatws, .objectFieldStart, .obj kvs, nm⟩ :: rest) :
    Reaches lc t l [125] { t with stack := ⟨.eatws, .finish, .obj kvs, nm⟩ :: rest } l := by
  have hv' := hv; unfold NoVal at hv'
  intro c off rs
  simp [run, peek, hv', feed, fuel, feedN, disp, hs, dEatws, dObjectFieldStart, isWs, setTop, lastOr, Tok.validateUtf8]

/-- after an element: `,` attaches it and waits for the next one, `]` attaches it and closes the array -/
theorem after_elem_comma (v : JVal) (nm0 : Option Bytes) (sv : St) (xs : List JVal) (nm : Option Bytes) (rest : List Level)
    (hs : t.stack = ⟨.eatws, .finish, v, nm0⟩ :: ⟨.arrayAdd, sv, .arr xs, nm⟩ :: rest) :
    Reaches lc t l [44] { t with stack := ⟨.eatws, .arrayAfterSep, .arr (xs ++ [v]), nm⟩ :: rest } l := by
  have hv' := hv; unfold NoVal at hv'
  intro c off rs
  simp [run, peek, hv', feed, fuel, feedN, disp, hs, dEatws, dFinish, dArraySep, isWs, setTop, lastOr, Tok.validateUtf8]

theorem after_elem_close (v : JVal) (nm0 : Option Bytes) (sv : St) (xs : List JVal) (nm : Option Bytes) (rest : List Level)
    (hs : t.stack = ⟨.eatws, .finish, v, nm0⟩ :: ⟨.arrayAdd, sv, .arr xs, nm⟩ :: rest) :
    Reaches lc t l [93] { t with stack := ⟨.eatws, .finish, .arr (xs ++ [v]), nm⟩ :: rest } l := by
  have hv' := hv; unfold NoVal at hv'
  intro c off rs
  simp [run, peek, hv', feed, fuel, feedN, disp, hs, dEatws, dFinish, dArraySep, isWs, setTop, lastOr, Tok.validateUtf8]

/-- after a member value: `,` / `}` -/
theorem after_member_comma (v : JVal) (nm0 : Option Bytes) (sv : St) (kvs : List (Bytes × JVal)) (k : Bytes) (rest : List Level)
    (hs : t.stack = ⟨.eatws, .finish, v, nm0⟩ :: ⟨.objectValueAdd, sv, .obj kvs, some k⟩ :: rest) :
    Reaches lc t l [44]
      { t with stack := ⟨.eatws, .objectFieldStartAfterSep, .obj (Tokener.addOrReplace kvs k v), none⟩ :: rest } l := by
  have hv' := hv; unfold NoVal at hv'
  intro c off rs
  simp [run, peek, hv', feed, fuel, feedN, disp, hs, dEatws, dFinish, dObjectSep, isWs, setTop, lastOr, Tok.validateUtf8]

theorem after_member_close (v : JVal) (nm0 : Option Bytes) (sv : St) (kvs : List (Bytes × JVal)) (k : Bytes) (rest : List Level)
    (hs : t.stack = ⟨.eatws, .finish, v, nm0⟩ :: ⟨.objectValueAdd, sv, .obj kvs, some k⟩ :: rest) :
    Reaches lc t l [125] { t with stack := ⟨.eatws, .finish, .obj (Tokener.addOrReplace kvs k v), none⟩ :: rest } l := by
  have hv' := hv; unfold NoVal at hv'
  intro c off rs
  simp [run, peek, hv', feed, fuel, feedN, disp, hs, dEatws, dFinish, dObjectSep, isWs, setTop, lastOr, Tok.validateUtf8]

/-- `:` after a member name -/
theorem colon_step (cur : JVal) (nm : Option Bytes) (rest : List Level)
    (hs : t.stack = ⟨.eatws, .objectFieldEnd, cur, nm⟩ :: rest) :
    Reaches lc t l [58] { t with stack := ⟨.eatws, .objectValue, cur, nm⟩ :: rest } l := by
  have hv' := hv; unfold NoVal at hv'
  intro c off rs
  simp [run, peek, hv', feed, fuel, feedN, disp, hs, dEatws, dObjectFieldEnd, isWs, setTop, lastOr, Tok.validateUtf8]

end
end JsonC.Tokener
