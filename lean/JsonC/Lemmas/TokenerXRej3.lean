/-
  C16, strict mode on documents with extensions, part 3: the first extension met in an element /
  member, and the loops of arrays and objects up to it.
-/
import JsonC.Lemmas.TokenerXRej2
namespace JsonC.Tokener
open JsonC Rfc8259 Rfc8259X

/-- strict mode: if `x` contains an extension, the run over its text, followed by a byte that can
follow a value (a number ends only there), stops on a syntax error -/
def XRej (lc : Libc) (x : XDoc) : Prop :=
  ∀ (t : Tok) (l : Loc) (cur : JVal) (rest : List Level), WF t → t.stack = ⟨.eatws, .start, cur, none⟩ :: rest →
    NoVal t → t.hs = 0 → l.num = none → t.strict = true → x.ok = true → x.erase.intsFit = true →
    x.erase.keysNulFree = true → rest.length + 1 + x.erase.nest ≤ t.maxDepth → x.plain = false →
    ∀ (nb : UInt8), Follow nb → (nb = 0 → rest = []) →
    ∀ (c : UInt8) (off : Nat) (rs : Bytes), ErrStop (run lc t l c off (x.text ++ nb :: rs))

/-- a gap with a comment starts with white space or '/' -/
theorem gap_nonplain_head (g : Gap) (hnp : g.plain = false) (X : Bytes) :
    ∃ nb rs, g.text ++ X = nb :: rs ∧ Follow nb ∧ nb ≠ 0 := by
  cases g with
  | nil => simp [Gap.plain] at hnp
  | cons i r =>
    cases i with
    | ws c =>
      refine ⟨c.byte, Gap.text r ++ X, by simp [Gap.text, GapItem.text], ?_, ?_⟩ <;> cases c <;> simp [Follow, WsChar.byte, isWs]
    | block b => exact ⟨47, _, by simp [Gap.text, GapItem.text]; rfl, by simp [Follow], by decide⟩
    | line b => exact ⟨47, _, by simp [Gap.text, GapItem.text]; rfl, by simp [Follow], by decide⟩

/-- gap, value, gap with an extension somewhere in them -/
theorem xchild_rej (lc : Libc) (hl : LibcSpec lc) (d : XDoc) (ihd : XRej lc d) (g1 g2 : Gap) (t : Tok) (l : Loc) (hwf : WF t)
    (hv : NoVal t) (hhs : t.hs = 0) (hl0 : l.num = none) (hst : t.strict = true) (sv pst : St)
    (hsv : (sv = .array ∧ pst = .arrayAdd) ∨ (sv = .arrayAfterSep ∧ pst = .arrayAdd) ∨ (sv = .objectValue ∧ pst = .objectValueAdd))
    (cur : JVal) (nm : Option Bytes) (rest : List Level) (hs : t.stack = ⟨.eatws, sv, cur, nm⟩ :: rest)
    (hpar : GapPos .finish (⟨pst, sv, cur, nm⟩ :: rest))
    (hok : d.ok = true) (hg2 : g2.ok = true) (hfit : d.erase.intsFit = true) (hknf : d.erase.keysNulFree = true)
    (hdepth : rest.length + 2 + d.erase.nest ≤ t.maxDepth)
    (hnp : (g1.plain && d.plain && g2.plain) = false) (s : UInt8) (hsep : s = 44 ∨ s = 93 ∨ s = 125) (X' : Bytes)
    (c : UInt8) (off : Nat) :
    ErrStop (run lc t l c off (g1.text ++ (d.text ++ (g2.text ++ s :: X')))) := by
  generalize hX : s :: X' = X
  have hgp : GapPos sv rest := by
    rcases hsv with ⟨h, _⟩ | ⟨h, _⟩ | ⟨h, _⟩ <;> subst h
    · exact .array _
    · exact .arrayAfterSep _
    · exact .objectValue _
  cases h1 : g1.plain with
  | false => exact gap_err lc t l hv hst sv cur nm rest hs hgp g1 h1 c off _
  | true =>
    rw [gap_plain_text g1 h1, run_ws lc t l sv cur nm rest hs hv g1.erase.text (ws_bytes_ws g1.erase) c off _]
    obtain ⟨b, dr, hdt, hb⟩ := xdoc_first d hok
    obtain ⟨hwfp, hpush⟩ := push_child lc t l hwf hv sv pst hsv cur nm rest hs b hb (by omega)
    have e1 : d.text ++ (g2.text ++ X) = b :: (dr ++ (g2.text ++ X)) := by rw [hdt]; rfl
    cases h2 : d.plain with
    | false =>
      rw [e1, hpush, ← e1]
      obtain ⟨nb, rs', htl, hfol, hnz⟩ := xfollow_head g2 hg2 s hsep X'
      rw [← hX, htl]
      exact ihd { t with stack := freshLevel :: ⟨pst, sv, cur, nm⟩ :: rest } l .null (⟨pst, sv, cur, nm⟩ :: rest) hwfp rfl hv hhs hl0
        hst hok hfit hknf (by simp only [List.length_cons]; omega) h2 nb hfol (fun h => absurd h hnz) _ _ _
    | true =>
      have h3 : g2.plain = false := by simpa [h1, h2] using hnp
      obtain ⟨nb, rs', htl, hfol, hnz⟩ := gap_nonplain_head g2 h3 X
      rw [e1, hpush, ← e1, htl, xdoc_plain_text d hok h2]
      obtain ⟨t2, l2, hs2, f2, _, _, hrun⟩ :=
        doc_goal lc hl d.erase { t with stack := freshLevel :: ⟨pst, sv, cur, nm⟩ :: rest } l .null (⟨pst, sv, cur, nm⟩ :: rest) hwfp rfl
          hv hhs hl0 (xdoc_erase_ok d hok h2) (fun _ => hfit) hknf (by simp only [List.length_cons]; omega) nb hfol
          (fun h => absurd h hnz) (lastOr c g1.erase.text) (off + g1.erase.text.length) rs'
      rw [hrun, ← htl]
      have f2' : Frm t t2 := ⟨f2.md, f2.fl, f2.hs⟩
      exact gap_err lc t2 l2 (f2'.noVal hv) (by rw [f2'.strict]; exact hst) .finish d.erase.denote none _ hs2 hpar g2 h3 _ _ _

/-- the plain prefix of an element list is parsed like RFC 8259; facts about a plain triple -/
theorem plain_triple_text (g1 g2 : Gap) (d : XDoc) (hok : d.ok = true) (h : (g1.plain && d.plain && g2.plain) = true) :
    g1.text = g1.erase.text ∧ d.text = d.erase.text ∧ g2.text = g2.erase.text ∧ d.erase.ok = true := by
  simp only [Bool.and_eq_true] at h
  exact ⟨gap_plain_text g1 h.1.1, xdoc_plain_text d hok h.1.2, gap_plain_text g2 h.2, xdoc_erase_ok d hok h.1.2⟩

/-- strict mode: the element loop of an array that contains an extension (in an element, a gap, or
as a trailing comma) stops on a syntax error -/
theorem xelems_rej (lc : Libc) (hl : LibcSpec lc) (es : List (Gap × XDoc × Gap)) (hne : es ≠ [])
    (ih : ∀ e ∈ es, XRej lc e.2.1) :
    ∀ (t : Tok) (l : Loc) (sv : St) (_ : sv = .array ∨ sv = .arrayAfterSep) (xs : List JVal) (rest : List Level),
      WF t → t.stack = ⟨.eatws, sv, .arr xs, none⟩ :: rest → NoVal t → t.hs = 0 → l.num = none → t.strict = true →
      xelemsOk es = true → elemsFit (xelemsErase es) = true → elemsKNF (xelemsErase es) = true →
      rest.length + 1 + elemsNest (xelemsErase es) ≤ t.maxDepth →
      ∀ (tr : Option Gap), (xelemsPlain es && tr.isNone) = false →
      ∀ (c : UInt8) (off : Nat) (rs : Bytes),
        ErrStop (run lc t l c off (intercalateB 44 (xelemsText es) ++ (trailText tr ++ 93 :: rs))) := by
  induction es with
  | nil => exact absurd rfl hne
  | cons e r ihr =>
    obtain ⟨g1, d, g2⟩ := e
    intro t l sv hsv xs rest hwf hs hv hhs hl0 hst hok hfit hknf hdepth tr hnp c off rs
    simp only [xelemsOk, Bool.and_eq_true] at hok
    simp only [xelemsErase, elemsFit, Bool.and_eq_true] at hfit
    simp only [xelemsErase, elemsKNF, Bool.and_eq_true] at hknf
    simp only [xelemsErase, elemsNest] at hdepth
    have hsv' : (sv = .array ∧ St.arrayAdd = .arrayAdd) ∨ (sv = .arrayAfterSep ∧ St.arrayAdd = .arrayAdd) ∨
        (sv = .objectValue ∧ St.arrayAdd = .objectValueAdd) := by
      rcases hsv with h | h
      · exact Or.inl ⟨h, rfl⟩
      · exact Or.inr (Or.inl ⟨h, rfl⟩)
    have ihd : XRej lc d := ih (g1, d, g2) (by simp)
    -- the text after this element, whatever it is
    obtain ⟨s, hsep, X, hX⟩ : ∃ s, (s = 44 ∨ s = 93 ∨ s = 125) ∧ ∃ X,
        intercalateB 44 (xelemsText ((g1, d, g2) :: r)) ++ (trailText tr ++ 93 :: rs) =
        g1.text ++ (d.text ++ (g2.text ++ s :: X)) := by
      cases r with
      | nil =>
        cases tr with
        | none => exact ⟨93, by simp, rs, by simp [intercalateB, xelemsText, trailText]⟩
        | some g' => exact ⟨44, by simp, g'.text ++ 93 :: rs, by simp [intercalateB, xelemsText, trailText]⟩
      | cons e2 r2 =>
        obtain ⟨a1, a2, a3⟩ := e2
        exact ⟨44, by simp, intercalateB 44 (xelemsText ((a1, a2, a3) :: r2)) ++ (trailText tr ++ 93 :: rs), by simp [intercalateB, xelemsText]⟩
    cases htri : (g1.plain && d.plain && g2.plain) with
    | false =>
      rw [hX]
      exact xchild_rej lc hl d ihd g1 g2 t l hwf hv hhs hl0 hst sv .arrayAdd hsv' (.arr xs) none rest hs (.finishInArray _ _ _ _)
        hok.1.1.2 hok.1.2 hfit.1 hknf.1 (by omega) htri s hsep X c off
    | true =>
      obtain ⟨e1, e2, e3, hdok⟩ := plain_triple_text g1 g2 d hok.1.1.2 htri
      have hrestnp : (xelemsPlain r && tr.isNone) = false := by
        simp only [xelemsPlain] at hnp
        simp only [Bool.and_eq_true] at htri
        simpa [htri.1.1, htri.1.2, htri.2] using hnp
      cases r with
      | nil =>
        -- all elements plain: the extension is the trailing comma
        cases tr with
        | none => simp [xelemsPlain] at hrestnp
        | some g =>
          have e0 : intercalateB 44 (xelemsText [(g1, d, g2)]) ++ (trailText (some g) ++ 93 :: rs) =
              g1.erase.text ++ (d.erase.text ++ (g2.erase.text ++ 44 :: (g.text ++ 93 :: rs))) := by
            simp [intercalateB, xelemsText, trailText, e1, e2, e3]
          obtain ⟨t2, l2, c2, hs2, f2, hl2, hrun⟩ := child_value lc d.erase (doc_goal lc hl d.erase) g1.erase g2.erase t l hwf hv hhs hl0
            sv .arrayAdd hsv' (.arr xs) none rest hs hdok (fun _ => hfit.1) hknf.1 (by omega) 44 (by simp) (g.text ++ 93 :: rs) c off
          have h3 := after_elem_comma lc t2 l2 (f2.noVal hv) d.erase.denote none sv xs none rest hs2 c2
            (off + g1.erase.text.length + d.erase.text.length + g2.erase.text.length) (g.text ++ 93 :: rs)
          simp only [List.cons_append, List.nil_append, lastOr, List.getLast?_singleton, Option.getD_some, List.length_singleton] at h3
          let t3 : Tok := { t2 with stack := ⟨.eatws, .arrayAfterSep, .arr (xs ++ [d.erase.denote]), none⟩ :: rest }
          have f3 : Frm t t3 := ⟨f2.md, f2.fl, f2.hs⟩
          rw [e0, hrun, h3]
          cases hg : g.plain with
          | false =>
            exact gap_err lc t3 l2 (f3.noVal hv) (by rw [f3.strict]; exact hst) .arrayAfterSep _ none rest rfl (.arrayAfterSep _) g hg _ _ _
          | true =>
            rw [gap_plain_text g hg, run_ws lc t3 l2 .arrayAfterSep _ none rest rfl (f3.noVal hv) g.erase.text (ws_bytes_ws g.erase)]
            exact trailing_comma_array_err lc t3 l2 (f3.noVal hv) (by rw [f3.strict]; exact hst) _ none rest rfl _ _ _
      | cons e2' r2 =>
        have e0 : intercalateB 44 (xelemsText ((g1, d, g2) :: e2' :: r2)) ++ (trailText tr ++ 93 :: rs) =
            g1.erase.text ++ (d.erase.text ++ (g2.erase.text ++ 44 ::
              (intercalateB 44 (xelemsText (e2' :: r2)) ++ (trailText tr ++ 93 :: rs)))) := by
          obtain ⟨a1, a2, a3⟩ := e2'
          simp [intercalateB, xelemsText, e1, e2, e3]
        obtain ⟨t2, l2, c2, hs2, f2, hl2, hrun⟩ := child_value lc d.erase (doc_goal lc hl d.erase) g1.erase g2.erase t l hwf hv hhs hl0
          sv .arrayAdd hsv' (.arr xs) none rest hs hdok (fun _ => hfit.1) hknf.1 (by omega) 44 (by simp)
          (intercalateB 44 (xelemsText (e2' :: r2)) ++ (trailText tr ++ 93 :: rs)) c off
        have h3 := after_elem_comma lc t2 l2 (f2.noVal hv) d.erase.denote none sv xs none rest hs2 c2
          (off + g1.erase.text.length + d.erase.text.length + g2.erase.text.length)
          (intercalateB 44 (xelemsText (e2' :: r2)) ++ (trailText tr ++ 93 :: rs))
        simp only [List.cons_append, List.nil_append, lastOr, List.getLast?_singleton, Option.getD_some, List.length_singleton] at h3
        let t3 : Tok := { t2 with stack := ⟨.eatws, .arrayAfterSep, .arr (xs ++ [d.erase.denote]), none⟩ :: rest }
        have f3 : Frm t t3 := ⟨f2.md, f2.fl, f2.hs⟩
        have hwf3 : WF t3 := wf_restack hwf hs rfl f2.md (topOk_container _ _ (Or.inl ⟨rfl, _, rfl⟩))
          (posOk_of_ne (by simp) (by simp) (by simp))
        rw [e0, hrun, h3]
        exact ihr (by simp) (fun e he => ih e (by simp [he])) t3 l2 .arrayAfterSep (Or.inr rfl) (xs ++ [d.erase.denote]) rest hwf3 rfl
          (f3.noVal hv) f3.hs hl2 (by rw [f3.strict]; exact hst) hok.2 hfit.2 hknf.2 (by rw [f3.md]; omega) tr hrestnp _ _ rs

end JsonC.Tokener
