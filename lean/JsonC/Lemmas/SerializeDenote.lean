/-
  C02 helper lemmas, part 7: the document `docOf` denotes the tree (up to `valEq`), and its token
  sequence does not depend on the layout flags.
-/
import JsonC.Lemmas.SerializeTree

namespace JsonC.Serialize
open JsonC Generated SerSpec Rfc8259

variable (fmt : UInt64 → Bytes)

/-! ### trailing whitespace does not matter -/

theorem setLastElem_denote : ∀ (es : List (Ws × Doc × Ws)) (w : Ws), elemsDenote (setLastElem w es) = elemsDenote es := by
  intro es
  induction es with
  | nil => intro w; rfl
  | cons e r ih =>
    intro w
    obtain ⟨w1, d, w2⟩ := e
    cases r with
    | nil => simp [setLastElem, elemsDenote]
    | cons e' r' =>
      obtain ⟨w1', d', w2'⟩ := e'
      have e1 : setLastElem w ((w1, d, w2) :: (w1', d', w2') :: r') = (w1, d, w2) :: setLastElem w ((w1', d', w2') :: r') := rfl
      rw [e1, elemsDenote, ih w]; simp [elemsDenote]

theorem setLastMember_denote : ∀ (ms : List (Ws × List StrItem × Ws × Ws × Doc × Ws)) (w : Ws) (acc : List (Bytes × JVal)),
    membersDenote (setLastMember w ms) acc = membersDenote ms acc := by
  intro ms
  induction ms with
  | nil => intro w acc; rfl
  | cons m r ih =>
    intro w acc
    obtain ⟨w1, k, w2, w3, d, w4⟩ := m
    cases r with
    | nil => simp [setLastMember, membersDenote]
    | cons m' r' =>
      obtain ⟨w1', k', w2', w3', d', w4'⟩ := m'
      have e1 : setLastMember w ((w1, k, w2, w3, d, w4) :: (w1', k', w2', w3', d', w4') :: r') =
          (w1, k, w2, w3, d, w4) :: setLastMember w ((w1', k', w2', w3', d', w4') :: r') := rfl
      rw [e1, membersDenote, ih w]; simp [membersDenote]

/-! ### members with distinct keys denote themselves, in order -/

def pairsOf (ms : List (Ws × List StrItem × Ws × Ws × Doc × Ws)) : List (Bytes × JVal) :=
  ms.map fun m => (decodeItems m.2.1, Doc.denote m.2.2.2.2.1)

theorem addOrReplace_new (acc : List (Bytes × JVal)) (k : Bytes) (v : JVal) (h : ∀ kv ∈ acc, kv.1 ≠ k) :
    addOrReplace acc k v = acc ++ [(k, v)] := by
  unfold addOrReplace
  have : acc.any (·.1 == k) = false := by
    simp only [List.any_eq_false, beq_iff_eq]
    intro kv hkv; exact h kv hkv
  simp [this]

theorem membersDenote_nodup : ∀ (ms : List (Ws × List StrItem × Ws × Ws × Doc × Ws)) (acc : List (Bytes × JVal)),
    keysNodup ((pairsOf ms).map (·.1)) = true → (∀ kv ∈ acc, kv.1 ∉ (pairsOf ms).map (·.1)) →
    membersDenote ms acc = acc ++ pairsOf ms := by
  intro ms
  induction ms with
  | nil => intro acc _ _; simp [membersDenote, pairsOf]
  | cons m r ih =>
    intro acc hnd hacc
    obtain ⟨w1, k, w2, w3, d, w4⟩ := m
    simp only [pairsOf, List.map_cons, keysNodup, Bool.and_eq_true, Bool.not_eq_true', List.contains_eq_mem,
      decide_eq_false_iff_not] at hnd hacc
    rw [membersDenote, addOrReplace_new acc _ _ (fun kv hkv e => by
      have := hacc kv hkv; simp [e] at this)]
    rw [ih _ hnd.2 (by
      intro kv hkv
      simp only [List.mem_append, List.mem_singleton] at hkv
      rcases hkv with hkv | rfl
      · intro hm; have := hacc kv hkv; simp only [List.mem_cons, not_or] at this; exact this.2 hm
      · exact hnd.1)]
    simp [pairsOf]

/-! ### valEq -/

theorem valEq_int (s s' : Bool) (v : Int) : valEq (.int s v) (.int s' v) = true := by simp [valEq]
theorem valEq_arr (xs ys : List JVal) : valEq (.arr xs) (.arr ys) = valEqList xs ys := by simp [valEq]
theorem valEq_obj (a b : List (Bytes × JVal)) : valEq (.obj a) (.obj b) = valEqMembers a b := by simp [valEq]

theorem num_denote_dbl {n : Num} (h : (n.frac.isSome || n.exp.isSome) = true) :
    n.denote = .dbl (Dbl.strtod n.text).1 (some n.text) := by
  unfold Num.denote
  cases hf : n.frac <;> cases he : n.exp <;> simp [hf, he] at h ⊢

/-- what `docOf` denotes, structurally -/
theorem denote_all :
    (∀ v, ∀ (f : Fl) (level : Nat) (d : Doc), treeOk fmt v = true → roundTrips fmt Dbl.strtod v = true →
      docOf fmt f level v = some d → valEq d.denote v = true) ∧
    (∀ xs, ∀ (f : Fl) (level : Nat) (es : List (Ws × Doc × Ws)), treeOkList fmt xs = true →
      roundTripsList fmt Dbl.strtod xs = true → elemsOf fmt f level xs = some es →
      valEqList (elemsDenote es) xs = true) ∧
    (∀ kvs, ∀ (f : Fl) (level : Nat) (ms : List (Ws × List StrItem × Ws × Ws × Doc × Ws)), treeOkMembers fmt kvs = true →
      roundTripsMembers fmt Dbl.strtod kvs = true → membersOf fmt f level kvs = some ms →
      (pairsOf ms).map (·.1) = keysOf fmt kvs ∧ valEqMembers (pairsOf ms) kvs = true) := by
  refine tree_ind ?_ ?_ ?_ ?_ ?_ ?_ ?_ ?_ ?_ ?_ ?_
  · intro f level d _ _ hd; simp [docOf] at hd; subst hd; rfl
  · intro b f level d _ _ hd
    simp [docOf] at hd; subst hd
    cases b <;> rfl
  · intro s v f level d hok _ hd
    simp [docOf] at hd; subst hd
    have hr : INT64_MIN ≤ v ∧ v ≤ UINT64_MAX := by
      cases s
      · simp only [treeOk, Bool.and_eq_true, decide_eq_true_eq] at hok
        unfold INT64_MIN; unfold UINT64_MAX at hok ⊢; omega
      · simp only [treeOk, Bool.and_eq_true, decide_eq_true_eq] at hok
        unfold INT64_MIN INT64_MAX at hok; unfold INT64_MIN UINT64_MAX; omega
    obtain ⟨sg, hsg⟩ := numOfInt_denote v hr
    simp only [Doc.denote, hsg]; exact valEq_int sg s v
  · intro bits t f level d hok hrt hd
    cases t with
    | none =>
      simp only [treeOk, Bool.and_eq_true, Bool.not_eq_true'] at hok
      obtain ⟨⟨hnan, hinf⟩, hshape⟩ := hok
      obtain ⟨n', hn', _, hfe, _⟩ := doublePost_shape false (fmt bits) hshape
      simp [docOf, hnan, hinf, hn'] at hd; subst hd
      simp only [roundTrips, emittedDouble, hn', beq_iff_eq] at hrt
      simp only [Doc.denote, num_denote_dbl hfe, valEq, hrt, beq_self_eq_true]
    | some t =>
      simp only [treeOk, Bool.and_eq_true] at hok
      cases hdt : dblTokenOfText t with
      | none => simp [hdt] at hok
      | some n =>
        obtain ⟨hn, hfe⟩ := dblToken_some hdt
        obtain ⟨_, htext⟩ := numOfText_some hn
        simp [docOf, hdt] at hd; subst hd
        simp only [roundTrips, beq_iff_eq] at hrt
        simp only [Doc.denote, num_denote_dbl hfe, valEq, htext, hrt, beq_self_eq_true]
  · intro s f level d _ _ hd
    simp [docOf] at hd; subst hd
    simp [Doc.denote, decodeItems_itemsOf, valEq]
  · intro xs ih f level d hok hrt hd
    simp only [treeOk] at hok
    simp only [roundTrips] at hrt
    cases hes : elemsOf fmt f (level + 1) xs with
    | none => simp [docOf, hes] at hd
    | some es =>
      simp [docOf, hes] at hd; subst hd
      simp only [Doc.denote, setLastElem_denote, valEq_arr]
      exact ih f (level + 1) es hok hrt hes
  · intro kvs ih f level d hok hrt hd
    simp only [treeOk, Bool.and_eq_true] at hok
    simp only [roundTrips] at hrt
    cases hms : membersOf fmt f (level + 1) kvs with
    | none => simp [docOf, hms] at hd
    | some ms =>
      simp [docOf, hms] at hd; subst hd
      obtain ⟨hkeys, hveq⟩ := ih f (level + 1) ms hok.1 hrt hms
      simp only [Doc.denote, setLastMember_denote, valEq_obj]
      rw [membersDenote_nodup ms [] (by rw [hkeys]; exact hok.2) (by simp)]
      simpa using hveq
  · intro f level es _ _ hes; simp [elemsOf] at hes; subst hes; rfl
  · intro x xs ihx ihxs f level es hok hrt hes
    simp only [treeOkList, Bool.and_eq_true] at hok
    simp only [roundTripsList, Bool.and_eq_true] at hrt
    cases hd : docOf fmt f level x with
    | none => simp [elemsOf, hd] at hes
    | some d =>
      cases hr : elemsOf fmt f level xs with
      | none => simp [elemsOf, hd, hr] at hes
      | some r =>
        simp [elemsOf, hd, hr] at hes; subst hes
        simp only [elemsDenote, valEqList, Bool.and_eq_true]
        exact ⟨ihx f level d hok.1 hrt.1 hd, ihxs f level r hok.2 hrt.2 hr⟩
  · intro f level ms _ _ hms; simp [membersOf] at hms; subst hms; exact ⟨rfl, rfl⟩
  · intro k x kvs ihx ihkvs f level ms hok hrt hms
    simp only [treeOkMembers, Bool.and_eq_true] at hok
    simp only [roundTripsMembers, Bool.and_eq_true] at hrt
    cases hd : docOf fmt f level x with
    | none => simp [membersOf, hd] at hms
    | some d =>
      cases hr : membersOf fmt f level kvs with
      | none => simp [membersOf, hd, hr] at hms
      | some r =>
        simp [membersOf, hd, hr] at hms; subst hms
        obtain ⟨hk, hv⟩ := ihkvs f level r hok.2 hrt.2 hr
        have hkk := decodeItems_itemsOf f.noSlash k
        refine ⟨?_, ?_⟩
        · simp only [pairsOf, List.map_cons, keysOf, hkk] at hk ⊢
          rw [hk]
        · simp only [pairsOf, List.map_cons, valEqMembers, hkk, beq_self_eq_true, Bool.true_and, Bool.and_eq_true] at hv ⊢
          exact ⟨ihx f level d hok.1.2 hrt.1 hd, hv⟩

end JsonC.Serialize
