/-
  Helper lemmas for C12: the buffer-level walk of json_pointer_result_get_recursive refines a
  token-level walk (`walkC`), for every tree and every NUL-free path.
-/
import JsonC.Lemmas.PointerStr

namespace JsonC.Pointer
open JsonC Generated Rfc6901

/-! ### the token-level view of the C walk -/

/-- json_pointer_get_single_path on the token as a byte string -/
def stepC (obj : JVal) (tok : Bytes) : Step :=
  match obj with
  | .arr xs =>
    match isValidIndex tok with
    | none => .fail .EINVAL
    | some (idx, _) =>
      if idx ≥ xs.length then .fail .ENOENT
      else match xs[idx]? with
        | some c => .found idx c
        | none => .fail .ENOENT
  | .obj kvs =>
    match lookupIdx (unescape tok) kvs with
    | some (i, v) => .found i v
    | none => .fail .ENOENT
  | _ => .fail .ENOENT

/-- the result record written at the end of the recursion -/
def finalRes (obj : JVal) (pos : List Nat) (tok : Bytes) (i : Nat) (c : JVal) : GetRes :=
  match obj with
  | .arr _ => { rc := 0, pos := pos ++ [i], val := c, parent := .set (some pos), index := .set (toIndexField i) }
  | .obj kvs => { rc := 0, pos := pos ++ [i], val := c, parent := .set (some pos),
                  key := .set ((lookupIdx (unescape tok) kvs).map (fun _ => unescape tok)) }
  | _ => { rc := 0, pos := pos ++ [i], val := c, parent := .set (some pos), key := .set none }

def walkC : JVal → List Bytes → List Nat → GetRes
  | _, [], _ => GetRes.fail .EINVAL
  | obj, [tok], pos =>
    match stepC obj tok with
    | .fail e => GetRes.fail e
    | .found i c => finalRes obj pos tok i c
  | obj, tok :: rest, pos =>
    match stepC obj tok with
    | .fail e => GetRes.fail e
    | .found i c => walkC c rest (pos ++ [i])

/-- the C string the step leaves at `path`: arrays do not touch it, everything else unescapes in place -/
def tokKey (obj : JVal) (tok : Bytes) : Bytes :=
  match obj with
  | .arr _ => tok
  | _ => unescape tok

/-! ### splitSlash -/

theorem splitSlash_ne_nil (s : Bytes) : ∃ t ts, splitSlash s = t :: ts := by
  induction s with
  | nil => exact ⟨[], [], rfl⟩
  | cons c s ih =>
    obtain ⟨t, ts, h⟩ := ih
    unfold splitSlash
    by_cases hc : c = 47
    · rw [if_pos hc]; exact ⟨[], _, rfl⟩
    · rw [if_neg hc, h]; exact ⟨c :: t, ts, rfl⟩

theorem splitSlash_noslash (s : Bytes) (h : (47 : UInt8) ∉ s) : splitSlash s = [s] := by
  induction s with
  | nil => rfl
  | cons c s ih =>
    have hc : c ≠ 47 := by intro e; apply h; simp [e]
    have hs : (47 : UInt8) ∉ s := by intro e; apply h; simp [e]
    unfold splitSlash
    rw [if_neg hc, ih hs]

theorem splitSlash_append (tok more : Bytes) (h : (47 : UInt8) ∉ tok) :
    splitSlash (tok ++ 47 :: more) = tok :: splitSlash more := by
  induction tok with
  | nil => simp [splitSlash]
  | cons c s ih =>
    have hc : c ≠ 47 := by intro e; apply h; simp [e]
    have hs : (47 : UInt8) ∉ s := by intro e; apply h; simp [e]
    rw [List.cons_append, splitSlash, if_neg hc, ih hs]

/-! ### json_pointer_get_single_path -/

theorem getSinglePath_spec (obj : JVal) (pre tok post : Bytes) (h0 : (0 : UInt8) ∉ tok) (path : Nat)
    (hp : path = pre.length) :
    ∃ w, getSinglePath obj (pre ++ tok ++ 0 :: post) path = .ok (pre ++ w ++ post, stepC obj tok) ∧
      w.length = tok.length + 1 ∧
      (∀ site, cstrAt (pre ++ w ++ post) path site = .ok (tokKey obj tok)) := by
  have harr : ∀ xs, obj = .arr xs → ∃ w, getSinglePath obj (pre ++ tok ++ 0 :: post) path
        = .ok (pre ++ w ++ post, stepC obj tok) ∧ w.length = tok.length + 1 ∧
      (∀ site, cstrAt (pre ++ w ++ post) path site = .ok (tokKey obj tok)) := by
    intro xs hobj
    subst hobj
    have hshape : pre ++ tok ++ 0 :: post = pre ++ (tok ++ [0]) ++ post := by simp
    refine ⟨tok ++ [0], ?_, by simp, ?_⟩
    · unfold getSinglePath
      rw [cstrAt_mid pre tok post h0 path hp]
      simp only [Outcome.bind_ok, stepC]
      cases hv : isValidIndex tok with
      | none => simp [hshape]
      | some r =>
        obtain ⟨idx, er⟩ := r
        simp only []
        by_cases hi : idx ≥ xs.length
        · rw [if_pos hi, if_pos hi]; simp [hshape]
        · rw [if_neg hi, if_neg hi]
          have : idx < xs.length := by omega
          rw [List.getElem?_eq_getElem this]
          simp [hshape]
    · intro site
      rw [← hshape]
      exact cstrAt_mid pre tok post h0 path hp site
  have hother : (∀ xs, obj ≠ .arr xs) → ∃ w, getSinglePath obj (pre ++ tok ++ 0 :: post) path
        = .ok (pre ++ w ++ post, stepC obj tok) ∧ w.length = tok.length + 1 ∧
      (∀ site, cstrAt (pre ++ w ++ post) path site = .ok (tokKey obj tok)) := by
    intro hna
    obtain ⟨junk, hun, hlen⟩ := unescapeC_spec ptrGetUnescape rfl pre tok post h0 path hp
    have hshape : pre ++ unescape tok ++ 0 :: (junk ++ post) = pre ++ (unescape tok ++ 0 :: junk) ++ post := by simp
    have hkey : ∀ site, cstrAt (pre ++ unescape tok ++ 0 :: (junk ++ post)) path site = .ok (unescape tok) :=
      fun site => cstrAt_mid pre (unescape tok) (junk ++ post) (unescape_no_nul tok h0) path hp site
    refine ⟨unescape tok ++ 0 :: junk, ?_, by simp; omega, ?_⟩
    · cases obj with
      | arr xs => exact absurd rfl (hna xs)
      | obj kvs =>
        simp only [getSinglePath, hun, Outcome.bind_ok, hkey, stepC]
        cases lookupIdx (unescape tok) kvs with
        | none => simp [hshape]
        | some r => obtain ⟨i, v⟩ := r; simp [hshape]
      | _ => simp only [getSinglePath, hun, Outcome.bind_ok, hkey, stepC, Outcome.pure_eq]; rw [hshape]
    · intro site
      rw [← hshape]
      cases obj with
      | arr xs => exact absurd rfl (hna xs)
      | _ => exact hkey site
  cases obj with
  | arr xs => exact harr xs rfl
  | _ => exact hother (by intro xs h; cases h)

/-! ### json_pointer_result_get_recursive -/

theorem walkC_cons2 (obj : JVal) (tok t2 : Bytes) (ts : List Bytes) (pos : List Nat) :
    walkC obj (tok :: t2 :: ts) pos =
      match stepC obj tok with
      | .fail e => GetRes.fail e
      | .found i c => walkC c (t2 :: ts) (pos ++ [i]) := by
  rw [walkC]
  intro h; cases h

theorem getRecursive_walk : ∀ (fuel : Nat) (obj : JVal) (pre body post : Bytes) (pos : List Nat),
    (0 : UInt8) ∉ body → body.length < fuel →
    getRecursive fuel obj (pre ++ 47 :: (body ++ 0 :: post)) pre.length pos
      = .ok (walkC obj (splitSlash body) pos) := by
  intro fuel
  induction fuel with
  | zero => intro _ _ _ _ _ _ h; omega
  | succ fuel ih =>
    intro obj pre body post pos h0 hf
    rw [getRecursive]
    rw [rd_mid pre 47 (body ++ 0 :: post) pre.length rfl]
    simp only [Outcome.bind_ok]
    rw [if_neg (by simp)]
    have hshape0 : pre ++ 47 :: (body ++ 0 :: post) = (pre ++ [47]) ++ body ++ 0 :: post := by simp
    have hc : cstrAt (pre ++ 47 :: (body ++ 0 :: post)) (pre.length + 1) "strchr(path, '/')" = .ok body := by
      rw [hshape0]; exact cstrAt_mid (pre ++ [47]) body post h0 _ (by simp) _
    rw [hc]
    simp only [Outcome.bind_ok]
    rcases split_first 47 body with hns | ⟨tok, more, hbody, hntok⟩
    · -- last token
      rw [idxOfByte_none 47 body hns]
      simp only [Option.map_none, Outcome.pure_eq, Outcome.bind_ok]
      obtain ⟨w, hg, hw, hkey⟩ := getSinglePath_spec obj (pre ++ [47]) body post h0 (pre.length + 1) (by simp)
      rw [hshape0, hg]
      simp only [Outcome.bind_ok]
      rw [splitSlash_noslash body hns, walkC]
      cases hst : stepC obj body with
      | fail e => rfl
      | found i c =>
        simp only []
        cases obj with
        | arr xs => rfl
        | obj kvs =>
          simp only [hkey, Outcome.bind_ok, tokKey, finalRes]
        | _ => simp only [hkey, Outcome.bind_ok, tokKey, finalRes]
    · -- a token followed by more
      have h0tok : (0 : UInt8) ∉ tok := by intro e; apply h0; rw [hbody]; simp [e]
      have h0more : (0 : UInt8) ∉ more := by intro e; apply h0; rw [hbody]; simp [e]
      have hidx : idxOfByte 47 body = some tok.length := by rw [hbody]; exact idxOfByte_append 47 tok more hntok
      rw [hidx]
      simp only [Option.map_some]
      have hshape1 : pre ++ 47 :: (body ++ 0 :: post) = (pre ++ 47 :: tok) ++ 47 :: (more ++ 0 :: post) := by
        rw [hbody]; simp
      rw [hshape1, wr_mid (pre ++ 47 :: tok) 47 0 (more ++ 0 :: post) (tok.length + (pre.length + 1)) (by simp; omega)]
      simp only [Outcome.bind_ok]
      have hshape2 : (pre ++ 47 :: tok) ++ 0 :: (more ++ 0 :: post) = (pre ++ [47]) ++ tok ++ 0 :: (more ++ 0 :: post) := by simp
      obtain ⟨w, hg, hw, _⟩ := getSinglePath_spec obj (pre ++ [47]) tok (more ++ 0 :: post) h0tok (pre.length + 1) (by simp)
      rw [hshape2, hg]
      simp only [Outcome.bind_ok]
      obtain ⟨t2, ts, hsplit⟩ := splitSlash_ne_nil more
      rw [hbody, splitSlash_append tok more hntok, hsplit, walkC_cons2]
      cases hst : stepC obj tok with
      | fail e => rfl
      | found i c =>
        simp only []
        -- w = w0 ++ [z]
        have hwne : w ≠ [] := by intro e; rw [e] at hw; simp at hw
        obtain ⟨w0, z, hwz⟩ : ∃ w0 z, w = w0 ++ [z] := ⟨w.dropLast, w.getLast hwne, (List.dropLast_concat_getLast hwne).symm⟩
        have hw0 : w0.length = tok.length := by rw [hwz] at hw; simp at hw; exact hw
        have hshape3 : pre ++ [47] ++ w ++ (more ++ 0 :: post) = (pre ++ [47] ++ w0) ++ z :: (more ++ 0 :: post) := by
          rw [hwz]; simp
        rw [hshape3, wr_mid (pre ++ [47] ++ w0) z 47 (more ++ 0 :: post) (tok.length + (pre.length + 1)) (by simp; omega)]
        simp only [Outcome.bind_ok]
        have hlen : tok.length + (pre.length + 1) = (pre ++ [47] ++ w0).length := by simp; omega
        rw [hlen, ih c (pre ++ [47] ++ w0) more post (pos ++ [i]) h0more (by rw [hbody] at hf; simp at hf; omega), hsplit]

end JsonC.Pointer
