/-
  C02 helper lemmas, part 12: `valEq` (the equality used by the C02 theorems) implies C09's
  specification of equality, `JVal.SemEq` — the relation json_object_equal decides on API-built trees
  (Props/C09 `equal_iff_sem`).
-/
import JsonC.Lemmas.SerializeUtf8
import JsonC.Spec.Sem

namespace JsonC.Serialize
open JsonC Generated SerSpec Rfc8259

variable (fmt : UInt64 → Bytes)

theorem valEqList_nil_right : ∀ (ys : List JVal), valEqList [] ys = true → ys = [] := by
  intro ys h; cases ys <;> simp [valEqList] at h ⊢

theorem valEqMembers_nil_right : ∀ (ys : List (Bytes × JVal)), valEqMembers [] ys = true → ys = [] := by
  intro ys h; cases ys <;> simp [valEqMembers] at h ⊢

/-- equal under `valEq` ⇒ same denoted value (C09's `sem`) -/
theorem valEq_sem_all :
    (∀ a, ∀ b, valEq a b = true → JVal.sem a = JVal.sem b) ∧
    (∀ xs, ∀ ys, valEqList xs ys = true → JVal.semList xs = JVal.semList ys) ∧
    (∀ m1, ∀ m2, valEqMembers m1 m2 = true → JVal.semMembers m1 = JVal.semMembers m2) := by
  refine tree_ind ?_ ?_ ?_ ?_ ?_ ?_ ?_ ?_ ?_ ?_ ?_
  · intro b h; cases b <;> simp [valEq] at h; rfl
  · intro x b h; cases b <;> simp [valEq] at h; subst h; rfl
  · intro s x b h; cases b <;> simp [valEq] at h; subst h; simp [JVal.sem]
  · intro x t b h; cases b <;> simp [valEq] at h; subst h; simp [JVal.sem]
  · intro s b h; cases b <;> simp [valEq] at h; subst h; rfl
  · intro xs ih b h
    cases b <;> simp [valEq] at h
    simp only [JVal.sem]; rw [ih _ h]
  · intro kvs ih b h
    cases b <;> simp [valEq] at h
    simp only [JVal.sem]; rw [ih _ h]
  · intro ys h; rw [valEqList_nil_right ys h]
  · intro x xs ihx ihxs ys h
    cases ys with
    | nil => simp [valEqList] at h
    | cons y ys =>
      simp only [valEqList, Bool.and_eq_true] at h
      simp only [JVal.semList]; rw [ihx y h.1, ihxs ys h.2]
  · intro m2 h; rw [valEqMembers_nil_right m2 h]
  · intro k x kvs ihx ihkvs m2 h
    cases m2 with
    | nil => simp [valEqMembers] at h
    | cons kv m2 =>
      obtain ⟨k', y⟩ := kv
      simp only [valEqMembers, Bool.and_eq_true, beq_iff_eq] at h
      obtain ⟨⟨hk, hxy⟩, hr⟩ := h
      subst hk
      simp only [JVal.semMembers]; rw [ihx y hxy, ihkvs m2 hr]

theorem finite_not_nan (bits : UInt64) (h1 : isNaN bits = false) (h2 : isInf bits = false) : Sem.isNaN bits = false := by
  simp only [isNaN, decide_eq_false_iff_not, Nat.not_lt, isInf, beq_eq_false_iff_ne, ne_eq] at h1 h2
  simp only [Sem.isNaN, Sem.expField, Sem.mantField, Bool.and_eq_false_iff, beq_eq_false_iff_ne, ne_eq]
  left
  have : bits.toNat < 2 ^ 64 := UInt64.toNat_lt bits
  omega

/-- a tree of the property holds no NaN -/
theorem nanFree_all :
    (∀ v, treeOk fmt v = true → JVal.nanFree v = true) ∧
    (∀ xs, treeOkList fmt xs = true → JVal.nanFreeList xs = true) ∧
    (∀ kvs, treeOkMembers fmt kvs = true → JVal.nanFreeMembers kvs = true) := by
  refine tree_ind ?_ ?_ ?_ ?_ ?_ ?_ ?_ ?_ ?_ ?_ ?_
  · intro _; rfl
  · intro _ _; rfl
  · intro _ _ _; rfl
  · intro bits t h
    cases t with
    | none =>
      simp only [treeOk, Bool.and_eq_true, Bool.not_eq_true'] at h
      simp [JVal.nanFree, finite_not_nan bits h.1.1 h.1.2]
    | some t =>
      simp only [treeOk, Bool.and_eq_true, Bool.not_eq_true'] at h
      simp [JVal.nanFree, finite_not_nan bits h.1.1.1 h.1.1.2]
  · intro _ _; rfl
  · intro xs ih h; simp only [treeOk] at h; simp only [JVal.nanFree]; exact ih h
  · intro kvs ih h; simp only [treeOk, Bool.and_eq_true] at h; simp only [JVal.nanFree]; exact ih h.1
  · intro _; rfl
  · intro x xs ihx ihxs h
    simp only [treeOkList, Bool.and_eq_true] at h
    simp only [JVal.nanFreeList, Bool.and_eq_true]; exact ⟨ihx h.1, ihxs h.2⟩
  · intro _; rfl
  · intro k x kvs ihx ihkvs h
    simp only [treeOkMembers, Bool.and_eq_true] at h
    simp only [JVal.nanFreeMembers, Bool.and_eq_true]; exact ⟨ihx h.1.2, ihkvs h.2⟩

end JsonC.Serialize
