/-
  Helper lemmas for C05: the state invariant and what each API call does to it.
-/
import JsonC.Lemmas.HeapAcyclic

namespace JsonC.Heap
open JsonC Generated

/-- State invariant with a pending work list (`Inv s = PInv s []` between calls). -/
structure PInv (s : State) (w : List Id) : Prop where
  h : HInv s.heap s.ext w
  acyclic : Acyclic s.heap
  fresh : ∀ i, (s.heap.get? i).isSome = true → i < s.next
  logNodup : s.log.Nodup
  logDead : ∀ i ∈ s.log, s.heap.get? i = none ∧ i < s.next

abbrev Inv (s : State) : Prop := PInv s []

theorem inv_init : Inv JsonC.Heap.init := by
  have e1 : JsonC.Heap.init.heap = [] := rfl
  have e2 : JsonC.Heap.init.log = [] := rfl
  have e3 : ∀ i, JsonC.Heap.init.ext i = 0 := fun _ => rfl
  refine ⟨⟨?_, ?_, ?_, ?_, ?_⟩, Acyclic.nil, ?_, ?_, ?_⟩
  · rw [e1]; exact List.nodup_nil
  · intro i n h; rw [e1] at h; simp at h
  · intro i n h; rw [e1] at h; simp at h
  · intro j h; rw [e1] at h; simp [Heap.edges] at h
  · intro i h; rw [e3] at h; omega
  · intro i h; rw [e1] at h; simp at h
  · rw [e2]; exact List.nodup_nil
  · intro i h; rw [e2] at h; simp at h

theorem Inv.ext_lt {s : State} (hs : Inv s) (i : Id) (h : 0 < s.ext i) : i < s.next :=
  hs.fresh i (hs.h.extLive i h)

theorem Inv.next_fresh {s : State} (hs : Inv s) :
    s.heap.get? s.next = none ∧ s.ext s.next = 0 ∧ (Heap.edges s.heap).count s.next = 0 := by
  have h1 : s.heap.get? s.next = none := by
    cases hg : s.heap.get? s.next with
    | none => rfl
    | some n => exact absurd (hs.fresh s.next (by simp [hg])) (Nat.lt_irrefl _)
  refine ⟨h1, ?_, ?_⟩
  · cases he : s.ext s.next with
    | zero => rfl
    | succ k =>
      have := hs.h.extLive s.next (by omega)
      simp [h1] at this
  · cases hc : (Heap.edges s.heap).count s.next with
    | zero => rfl
    | succ k =>
      have := hs.h.closed s.next (by omega)
      simp [h1] at this

/-- What a successful call guarantees, uniformly.  `tgt` is the node whose payload / user data the call
is meant to change (none for get / put / constructors / deep copy). -/
structure StepOk (s : State) (tgt : Option Id) (s' : State) (r : Res) : Prop where
  inv : Inv s'
  next_le : s.next ≤ s'.next
  log : s'.log = s.log ++ r.dead
  deadNodup : r.dead.Nodup
  deadWas : ∀ i ∈ r.dead, (s.heap.get? i).isSome = true ∨ s.next ≤ i
  liveIff : ∀ i, i < s.next →
    ((s'.heap.get? i).isSome = true ↔ ((s.heap.get? i).isSome = true ∧ i ∉ r.dead))
  frame : ∀ i n', i < s.next → tgt ≠ some i → s'.heap.get? i = some n' →
    ∃ n, s.heap.get? i = some n ∧ n'.body = n.body ∧ n'.ud = n.ud
  failed : r.ret < 0 → (∀ i, s'.heap.get? i = s.heap.get? i) ∧ (∀ i, s'.ext i = s.ext i)
  cbFinal : ∀ c ∈ r.cbs, c.final = true → c.id ∈ r.dead

/-- a call that changed nothing -/
theorem StepOk.noop (s : State) (hs : Inv s) (tgt : Option Id) (ret : Int) :
    StepOk s tgt s { ret := ret } := by
  refine ⟨hs, Nat.le_refl _, by simp, List.nodup_nil, by simp, by simp, ?_, fun _ => ⟨fun _ => rfl, fun _ => rfl⟩, by simp⟩
  intro i n' _ _ hg
  exact ⟨n', hg, rfl, rfl⟩

theorem runRelease_spec (s : State) (w : List Id) (ret : Int) (hs : PInv s w) :
    ∃ s' r, runRelease s w ret = .ok (s', r) ∧ Inv s' ∧ s'.ext = s.ext ∧ s'.next = s.next ∧
      s'.log = s.log ++ r.dead ∧ r.ret = ret ∧ r.made = none ∧ Sub s.heap s'.heap ∧ r.dead.Nodup ∧
      (∀ i, (s'.heap.get? i).isSome = true ↔ ((s.heap.get? i).isSome = true ∧ i ∉ r.dead)) ∧
      (∀ i ∈ r.dead, (s.heap.get? i).isSome = true) ∧
      r.cbs = cbsOf s.heap r.dead := by
  obtain ⟨rel, hrel, hinv, hsub, hnd, hlive, hdead, hcbs⟩ :=
    release_spec s.ext (relFuel s.heap w) s.heap w hs.h (Nat.le_refl _)
  refine ⟨{ s with heap := rel.heap, log := s.log ++ rel.dead },
    { ret := ret, dead := rel.dead, cbs := rel.cbs }, ?_, ?_, rfl, rfl, rfl, rfl, rfl, hsub, hnd, hlive, hdead, hcbs⟩
  · simp [runRelease, hrel]
  · refine ⟨hinv, hs.acyclic.sub hsub, ?_, ?_, ?_⟩
    · intro i hi
      exact hs.fresh i ((hlive i).mp hi).1
    · refine List.nodup_append.mpr ⟨hs.logNodup, hnd, ?_⟩
      intro a ha b hb e
      subst e
      have h1 := (hs.logDead a ha).1
      have h2 := hdead a hb
      simp [h1] at h2
    · intro i hi
      rcases List.mem_append.mp hi with h1 | h1
      · have := hs.logDead i h1
        refine ⟨?_, this.2⟩
        cases hg : rel.heap.get? i with
        | none => rfl
        | some n =>
          have := (hlive i).mp (by simp [hg])
          simp [(hs.logDead i h1).1] at this
      · refine ⟨?_, hs.fresh i (hdead i h1)⟩
        cases hg : rel.heap.get? i with
        | none => rfl
        | some n =>
          have := (hlive i).mp (by simp [hg])
          exact absurd h1 this.2

theorem cbsOf_final (h : Heap) (dead : List Id) : ∀ c ∈ cbsOf h dead, c.id ∈ dead := by
  intro c hc
  simp only [cbsOf, List.mem_flatMap] at hc
  obtain ⟨i, hi, hci⟩ := hc
  cases hg : h.get? i with
  | none => simp [hg] at hci
  | some n =>
    simp only [hg, cbOf] at hci
    cases hu : n.ud with
    | none => simp [hu] at hci
    | some t =>
      simp [hu] at hci
      subst hci
      exact hi

theorem extGive_le (ext : Id → Nat) (given : Option Id) (x : Id) : extGive ext given x ≤ ext x := by
  cases given with
  | none => exact Nat.le_refl _
  | some j => simp only [extGive, extDec]; split <;> omega

theorem extGive_eq (ext : Id → Nat) (given : Option Id) (x : Id)
    (hpos : ∀ j, given = some j → 0 < ext j) :
    extGive ext given x + given.toList.count x = ext x := by
  cases given with
  | none => simp [extGive]
  | some j =>
    have := hpos j rfl
    by_cases e : x = j
    · subst e; simp [extGive, extDec]; omega
    · have e' : ¬ j = x := fun h => e h.symm
      simp [extGive, extDec, e, e']

/-- Storing a new payload in container `p` (the caller hands over `given`, the container drops the
references in `rel`), then performing the puts. -/
theorem commit_spec (s : State) (hs : Inv s) (p : Id) (n : Node) (hg : s.heap.get? p = some n)
    (body' : Body) (given : Option Id) (rel : List Id)
    (hgive : ∀ j, given = some j → 0 < s.ext j ∧ ¬ Reach s.heap j p)
    (hcount : ∀ x, body'.children.count x + rel.count x =
      n.body.children.count x + given.toList.count x) :
    ∃ s' r, commit s p n body' given rel = .ok (s', r) ∧ StepOk s (some p) s' r ∧ r.ret = 0 ∧
      s'.ext = extGive s.ext given ∧ s'.next = s.next ∧
      Sub (s.heap.set p { n with body := body' }) s'.heap ∧
      r.cbs = cbsOf s.heap r.dead := by
  have hpos : ∀ j, given = some j → 0 < s.ext j := fun j hj => (hgive j hj).1
  have hcnt := fun x => Heap.count_edges_set s.heap p n { n with body := body' } hg x
  have pre : PInv { s with heap := s.heap.set p { n with body := body' }, ext := extGive s.ext given } rel := by
    refine ⟨⟨?_, ?_, ?_, ?_, ?_⟩, ?_, ?_, hs.logNodup, ?_⟩
    · simp only; rw [Heap.keys_set]; exact hs.h.nodup
    · intro i m hi
      simp only at hi ⊢
      have hc := hcnt i
      have hq := hcount i
      have he := extGive_eq s.ext given i hpos
      simp only at hc
      rw [Heap.get?_set] at hi
      by_cases e : i = p
      · subst e
        simp [hg] at hi
        subst hi
        have := hs.h.rc i n hg
        simp only [List.count_nil, Nat.add_zero] at this ⊢
        omega
      · simp [e] at hi
        have := hs.h.rc i m hi
        simp only [List.count_nil, Nat.add_zero] at this
        omega
    · intro i m hi
      simp only at hi
      rw [Heap.get?_set] at hi
      by_cases e : i = p
      · subst e
        simp [hg] at hi
        subst hi
        exact hs.h.pos i n hg
      · simp [e] at hi
        exact hs.h.pos i m hi
    · intro j hj
      simp only at hj ⊢
      rw [Heap.isSome_get?_set]
      have hc := hcnt j
      have hq := hcount j
      simp only at hc
      by_cases hgj : 0 < given.toList.count j
      · have : given = some j := count_toList_pos given j hgj
        exact hs.h.extLive j (hpos j this)
      · apply hs.h.closed j
        simp only [List.count_nil, Nat.add_zero]
        omega
    · intro i hi
      simp only at hi ⊢
      rw [Heap.isSome_get?_set]
      exact hs.h.extLive i (Nat.lt_of_lt_of_le hi (extGive_le s.ext given i))
    · simp only
      apply hs.acyclic.set_body p n hg { n with body := body' } given
      · intro c hc
        simp only at hc
        have hq := hcount c
        have hc' : 0 < body'.children.count c := List.count_pos_iff.mpr hc
        by_cases hgc : 0 < given.toList.count c
        · right
          exact count_toList_pos given c hgc
        · left
          apply List.count_pos_iff.mp
          omega
      · intro j hj; exact (hgive j hj).2
    · intro i hi
      simp only at hi ⊢
      rw [Heap.isSome_get?_set] at hi
      exact hs.fresh i hi
    · intro i hi
      simp only
      refine ⟨?_, (hs.logDead i hi).2⟩
      have h1 := (hs.logDead i hi).1
      cases hgi : (s.heap.set p { n with body := body' }).get? i with
      | none => rfl
      | some m =>
        have : ((s.heap.set p { n with body := body' }).get? i).isSome = true := by simp [hgi]
        rw [Heap.isSome_get?_set] at this
        simp [h1] at this
  obtain ⟨s', r, hrun, hinv', hext, hnext, hlog, hret, _, hsub, hnd, hlive, hdead, hcbs⟩ :=
    runRelease_spec _ rel 0 pre
  simp only at hext hnext hlog hsub hlive hdead hcbs
  have hcbs' : r.cbs = cbsOf s.heap r.dead := by
    rw [hcbs]
    apply cbsOf_congr
    · intro i _ m hm
      rw [Heap.get?_set] at hm
      by_cases e : i = p
      · subst e
        simp [hg] at hm
        subst hm
        exact ⟨n, hg, rfl⟩
      · simp [e] at hm
        exact ⟨m, hm, rfl⟩
    · exact hdead
  refine ⟨s', r, hrun, ⟨hinv', Nat.le_of_eq hnext.symm, hlog, hnd, ?_, ?_, ?_, ?_, ?_⟩, hret, hext, hnext, hsub, hcbs'⟩
  · intro i hi
    left
    have := hdead i hi
    rwa [Heap.isSome_get?_set] at this
  · intro i _
    rw [hlive i, Heap.isSome_get?_set]
  · intro i n' _ hne hi
    obtain ⟨m, hm, hb, hu⟩ := hsub i n' hi
    have e : i ≠ p := fun e => hne (by rw [e])
    rw [Heap.get?_set_ne _ _ _ _ e] at hm
    exact ⟨m, hm, hb, hu⟩
  · intro hneg; omega
  · intro c hc _
    rw [hcbs'] at hc
    exact cbsOf_final _ _ c hc

/-- what the model's check of a value argument establishes -/
theorem checkVal_none (s : State) (p : Id) (v : Option Id) (h : checkVal s p v = none) :
    ∀ j, v = some j → 0 < s.ext j ∧ ¬ Reach s.heap j p := by
  intro j hj
  subst hj
  simp only [checkVal] at h
  by_cases h0 : s.ext j = 0
  · simp [h0] at h
  · rw [if_neg h0] at h
    by_cases hr : reachB (s.heap.length + 1) s.heap j p = true
    · simp [hr] at h
    · refine ⟨by omega, reachB_false s.heap p _ j (by simpa using hr)⟩

/-! ### constructors, get, put, set_userdata -/

theorem alloc_eq (s : State) (body : Body) :
    alloc s body = ({ s with heap := s.heap ++ [(s.next, ⟨1, body, none⟩)], next := s.next + 1,
                             ext := extInc s.ext s.next }, s.next) := rfl

theorem alloc_spec (s : State) (hs : Inv s) (body : Body) (hb : body.children = []) :
    Inv (alloc s body).1 := by
  obtain ⟨hf1, hf2, hf3⟩ := hs.next_fresh
  rw [alloc_eq]
  have hget : ∀ j, (s.heap ++ [(s.next, (⟨1, body, none⟩ : Node))]).get? j =
      if j = s.next then some ⟨1, body, none⟩ else s.heap.get? j := by
    intro j
    rw [Heap.get?_append_single]
    by_cases e : j = s.next
    · subst e; simp [hf1]
    · have e' : ¬ s.next = j := fun h => e h.symm
      simp only [e, if_false, e']
      cases s.heap.get? j <;> rfl
  have hedges : Heap.edges (s.heap ++ [(s.next, (⟨1, body, none⟩ : Node))]) = Heap.edges s.heap := by
    rw [Heap.edges_append_single]; simp [hb]
  refine ⟨⟨?_, ?_, ?_, ?_, ?_⟩, ?_, ?_, hs.logNodup, ?_⟩
  · simp only [Heap.keys, List.map_append, List.map_cons, List.map_nil]
    refine List.nodup_append.mpr ⟨hs.h.nodup, by simp, ?_⟩
    intro a ha b hb' e
    have hb2 : b = s.next := by simpa using hb'
    have ha2 : (s.heap.get? a).isSome = true := (Heap.mem_keys_iff s.heap a).mp ha
    rw [e, hb2, hf1] at ha2
    simp at ha2
  · intro i m hi
    simp only at hi ⊢
    rw [hedges]
    rw [hget] at hi
    by_cases e : i = s.next
    · subst e
      simp at hi
      subst hi
      simp [extInc, hf2, hf3]
    · simp [e] at hi
      have := hs.h.rc i m hi
      simp [extInc, e] at this ⊢
      exact this
  · intro i m hi
    simp only at hi
    rw [hget] at hi
    by_cases e : i = s.next
    · subst e; simp at hi; subst hi; simp
    · simp [e] at hi; exact hs.h.pos i m hi
  · intro j hj
    simp only at hj ⊢
    rw [hedges] at hj
    rw [hget]
    by_cases e : j = s.next
    · simp [e]
    · simp only [e, if_false]; exact hs.h.closed j hj
  · intro i hi
    simp only at hi ⊢
    rw [hget]
    by_cases e : i = s.next
    · simp [e]
    · simp only [e, if_false]
      apply hs.h.extLive i
      simpa [extInc, e] using hi
  · exact hs.acyclic.append_leaf _ _ hb
  · intro i hi
    simp only at hi ⊢
    rw [hget] at hi
    by_cases e : i = s.next
    · rw [e]; exact Nat.lt_succ_self _
    · simp only [e, if_false] at hi
      exact Nat.lt_succ_of_lt (hs.fresh i hi)
  · intro i hi
    simp only
    have := hs.logDead i hi
    rw [hget]
    have e : i ≠ s.next := Nat.ne_of_lt this.2
    simp only [e, if_false]
    exact ⟨this.1, Nat.lt_succ_of_lt this.2⟩

theorem setUserdata_spec (s : State) (hs : Inv s) (i : Id) (tok : Option Nat) :
    (∃ why, setUserdata s i tok = .misuse why) ∨
    ∃ s' r n, setUserdata s i tok = .ok (s', r) ∧ StepOk s (some i) s' r ∧ r.ret = 0 ∧ r.dead = [] ∧
      s.heap.get? i = some n ∧ s'.heap = s.heap.set i { n with ud := tok } ∧ s'.ext = s.ext ∧
      s'.next = s.next ∧ s'.log = s.log := by
  unfold setUserdata
  cases hg : s.heap.get? i with
  | none => left; exact ⟨_, rfl⟩
  | some n =>
    right
    refine ⟨_, _, n, rfl, ?_, rfl, rfl, rfl, rfl, rfl, rfl, rfl⟩
    have hedges : Heap.edges (s.heap.set i { n with ud := tok }) = Heap.edges s.heap :=
      Heap.edges_set_same_body s.heap i n _ hg rfl
    have hinv : Inv { s with heap := s.heap.set i { n with ud := tok } } := by
      refine ⟨⟨?_, ?_, ?_, ?_, ?_⟩, ?_, ?_, hs.logNodup, ?_⟩
      · simp only; rw [Heap.keys_set]; exact hs.h.nodup
      · intro j m hj
        simp only at hj ⊢
        rw [hedges]
        rw [Heap.get?_set] at hj
        by_cases e : j = i
        · subst e; simp [hg] at hj; subst hj; exact hs.h.rc j n hg
        · simp [e] at hj; exact hs.h.rc j m hj
      · intro j m hj
        simp only at hj
        rw [Heap.get?_set] at hj
        by_cases e : j = i
        · subst e; simp [hg] at hj; subst hj; exact hs.h.pos j n hg
        · simp [e] at hj; exact hs.h.pos j m hj
      · intro j hj
        simp only at hj ⊢
        rw [hedges] at hj
        rw [Heap.isSome_get?_set]
        exact hs.h.closed j hj
      · intro j hj
        simp only at hj ⊢
        rw [Heap.isSome_get?_set]
        exact hs.h.extLive j hj
      · simp only
        exact hs.acyclic.set_body i n hg _ none (fun c hc => Or.inl hc) (fun j hj => by cases hj)
      · intro j hj
        simp only at hj ⊢
        rw [Heap.isSome_get?_set] at hj
        exact hs.fresh j hj
      · intro j hj
        simp only
        have := hs.logDead j hj
        refine ⟨?_, this.2⟩
        rw [Heap.get?_set]
        by_cases e : j = i
        · subst e; simp [this.1]
        · simp [e, this.1]
    refine ⟨hinv, Nat.le_refl _, by simp, List.nodup_nil, by simp, ?_, ?_, ?_, ?_⟩
    · intro j _
      simp only [List.not_mem_nil, not_false_eq_true, and_true]
      rw [Heap.isSome_get?_set]
    · intro j n' _ hne hj
      simp only at hj
      have e : j ≠ i := fun e => hne (by rw [e])
      rw [Heap.get?_set_ne _ _ _ _ e] at hj
      exact ⟨n', hj, rfl, rfl⟩
    · intro hneg; simp at hneg
    · intro c hc hfin
      simp only [cbOf] at hc
      cases hu : n.ud with
      | none => simp [hu] at hc
      | some t => simp [hu] at hc; subst hc; simp at hfin

theorem get_spec (s : State) (hs : Inv s) (i : Id) :
    (∃ why, get s i = .misuse why) ∨
    ∃ s' r, get s i = .ok (s', r) ∧ StepOk s none s' r ∧ r.ret = 0 ∧ r.dead = [] ∧
      s'.ext = extInc s.ext i ∧ s'.next = s.next := by
  unfold get
  cases hg : s.heap.get? i with
  | none => left; exact ⟨_, rfl⟩
  | some n =>
    by_cases hmax : n.rc ≥ UINT32_MAX
    · left; simp only [hmax, if_true]; exact ⟨_, rfl⟩
    · right
      simp only [hmax, if_false]
      refine ⟨_, _, rfl, ?_, rfl, rfl, rfl, rfl⟩
      have hedges : Heap.edges (s.heap.set i { n with rc := n.rc + 1 }) = Heap.edges s.heap :=
        Heap.edges_set_same_body s.heap i n _ hg rfl
      have hsub := Sub.set_rc s.heap i n hg (n.rc + 1)
      have hinv : Inv { s with heap := s.heap.set i { n with rc := n.rc + 1 }, ext := extInc s.ext i } := by
        refine ⟨⟨?_, ?_, ?_, ?_, ?_⟩, hs.acyclic.sub hsub, ?_, hs.logNodup, ?_⟩
        · simp only; rw [Heap.keys_set]; exact hs.h.nodup
        · intro j m hj
          simp only at hj ⊢
          rw [hedges]
          rw [Heap.get?_set] at hj
          by_cases e : j = i
          · subst e; simp [hg] at hj; subst hj
            have := hs.h.rc j n hg
            simp [extInc] at this ⊢; omega
          · simp [e] at hj
            have := hs.h.rc j m hj
            simpa [extInc, e] using this
        · intro j m hj
          simp only at hj
          rw [Heap.get?_set] at hj
          by_cases e : j = i
          · subst e; simp [hg] at hj; subst hj; simp
          · simp [e] at hj; exact hs.h.pos j m hj
        · intro j hj
          simp only at hj ⊢
          rw [hedges] at hj
          rw [Heap.isSome_get?_set]
          exact hs.h.closed j hj
        · intro j hj
          simp only at hj ⊢
          rw [Heap.isSome_get?_set]
          by_cases e : j = i
          · subst e; simp [hg]
          · apply hs.h.extLive j; simpa [extInc, e] using hj
        · intro j hj
          simp only at hj ⊢
          rw [Heap.isSome_get?_set] at hj
          exact hs.fresh j hj
        · intro j hj
          simp only
          have := hs.logDead j hj
          refine ⟨?_, this.2⟩
          rw [Heap.get?_set]
          by_cases e : j = i
          · subst e; simp [this.1]
          · simp [e, this.1]
      refine ⟨hinv, Nat.le_refl _, by simp, List.nodup_nil, by simp, ?_, ?_, ?_, by simp⟩
      · intro j _
        simp only [List.not_mem_nil, not_false_eq_true, and_true]
        rw [Heap.isSome_get?_set]
      · intro j n' _ _ hj
        exact hsub j n' hj
      · intro hneg; simp at hneg

theorem put_ok (s : State) (hs : Inv s) (i : Id) (hpos : 0 < s.ext i) :
    ∃ s' r r0, put s i = .ok (s', r) ∧
      runRelease { s with ext := extDec s.ext i } [i] 0 = .ok (s', r0) ∧ r.dead = r0.dead ∧
      StepOk s none s' r ∧
      s'.ext = extDec s.ext i ∧ s'.next = s.next ∧
      (r.ret = 1 ∨ r.ret = 0) ∧ (r.ret = 1 ↔ i ∈ r.dead) ∧
      (r.ret = 1 ↔ s.ext i + s.heap.indeg i = 1) ∧ r.cbs = cbsOf s.heap r.dead := by
  unfold put
  have h0 : ¬ s.ext i = 0 := by omega
  · simp only [h0, if_false]
    obtain ⟨n, hn⟩ := Option.isSome_iff_exists.mp (hs.h.extLive i hpos)
    have pre : PInv { s with ext := extDec s.ext i } [i] := by
      refine ⟨⟨hs.h.nodup, ?_, hs.h.pos, ?_, ?_⟩, hs.acyclic, hs.fresh, hs.logNodup, hs.logDead⟩
      · intro j m hj
        simp only at hj ⊢
        have := hs.h.rc j m hj
        by_cases e : j = i
        · subst e; simp [extDec] at this ⊢; omega
        · have e' : ¬ i = j := fun h => e h.symm
          simp [extDec, e, e'] at this ⊢; exact this
      · intro j hj
        simp only at hj ⊢
        by_cases e : j = i
        · subst e; simp [hn]
        · have e' : ¬ i = j := fun h => e h.symm
          apply hs.h.closed j
          simp [e'] at hj ⊢; exact hj
      · intro j hj
        simp only at hj ⊢
        apply hs.h.extLive j
        simp only [extDec] at hj
        split at hj <;> omega
    obtain ⟨s', r, hrun, hinv', hext, hnext, hlog, hret, _, hsub, hnd, hlive, hdead, hcbs⟩ :=
      runRelease_spec _ [i] 0 pre
    simp only at hext hnext hlog hsub hlive hdead hcbs
    rw [hrun]
    simp only
    -- the first pop decides the return value
    have hrel : ∃ rel, release (relFuel s.heap [i]) s.heap [i] = .ok rel ∧ rel.dead = r.dead := by
      simp only [runRelease] at hrun
      split at hrun
      · rename_i rel hrel
        cases hrun
        exact ⟨rel, hrel, rfl⟩
      · cases hrun
      · cases hrun
    obtain ⟨rel, hrel, hreld⟩ := hrel
    have hhead := release_single_head _ s.heap i n hn rel hrel
    rw [hreld] at hhead
    have hrc := pre.h.rc i n hn
    simp only [extDec, if_true, List.count_cons_self, List.count_nil] at hrc
    have hone : heapPutReturnsFreed = 1 := rfl
    refine ⟨s', _, r, rfl, rfl, rfl, ⟨hinv', Nat.le_of_eq hnext.symm, hlog, hnd, ?_, ?_, ?_, ?_, ?_⟩, hext, hnext, ?_, ?_, ?_, hcbs⟩
    · intro j hj; left; exact hdead j hj
    · intro j _; exact hlive j
    · intro j n' _ _ hj; exact hsub j n' hj
    · intro hneg
      simp only at hneg
      split at hneg <;> simp [hone] at hneg
    · intro c hc hfin
      simp only at hc
      rw [hcbs] at hc
      exact cbsOf_final _ _ c hc
    · simp only; split <;> simp [hone]
    · simp only
      rw [hhead.2]
      split <;> simp_all
    · simp only
      have : r.dead.head? = some i ↔ s.ext i + s.heap.indeg i = 1 := by
        rw [hhead.1]; unfold Heap.indeg; omega
      rw [← this]
      split <;> simp_all

theorem put_spec (s : State) (hs : Inv s) (i : Id) :
    (∃ why, put s i = .misuse why) ∨
    ∃ s' r, put s i = .ok (s', r) ∧ StepOk s none s' r ∧ 0 < s.ext i ∧
      s'.ext = extDec s.ext i ∧ s'.next = s.next ∧
      (r.ret = 1 ∨ r.ret = 0) ∧ (r.ret = 1 ↔ i ∈ r.dead) ∧
      (r.ret = 1 ↔ s.ext i + s.heap.indeg i = 1) ∧ r.cbs = cbsOf s.heap r.dead := by
  by_cases h0 : s.ext i = 0
  · left; unfold put; simp only [h0, if_true]; exact ⟨_, rfl⟩
  · right
    have hpos : 0 < s.ext i := by omega
    obtain ⟨s', r, _, h1, _, _, h2, h3⟩ := put_ok s hs i hpos
    exact ⟨s', r, h1, h2, hpos, h3⟩

end JsonC.Heap
