/-
  Dead scratch fields do not matter.

  `tok->pb`, `tok->st_pos`, `tok->is_double`, `tok->ucs_char` and `tok->quote_char` are scratch
  registers of the state machine: each is (re)initialised by the transition that enters the states
  reading it.  `Eqv t t'` says the two tokeners agree on everything except scratch fields that are
  *dead* in the state of the top level; `disp` (hence `feed`, `run`, `parseEx`) maps `Eqv` tokeners
  to `Eqv` tokeners with equal observable results.  Helper lemmas for C04 (reset ≈ new) and the
  stream clause of C03; never property statements.

  Liveness is a backward data-flow fact about `switch (state)`: a field is live in a state if some
  dispatch from that state reads it before writing it, directly, or after jumping to the saved state
  (`via`: the states that later continue in `top.saved`).  `via` has to contain the four comment
  states as well as `eatws` and the escape states: a comment returns to `eatws` with the saved state
  untouched, so whatever the saved state reads must survive the comment (`Eqv` is stated for arbitrary
  tokeners, not only reachable ones, where the saved state of a whitespace level never reads scratch).
-/
import JsonC.Model.Tokener
namespace JsonC.Tokener
open JsonC

/-! ### liveness table -/

/-- `tok->pb` is read (appended to and later used) -/
def pbLive : St → Bool
  | .inf | .null | .boolean | .number | .string | .objectField | .stringEscape | .escapeUnicode
  | .needEscape | .needU => true
  | .eatws | .start | .finish | .commentStart | .comment | .commentEol | .commentEnd | .array | .arrayAdd
  | .arraySep | .objectFieldStart | .objectFieldEnd | .objectValue | .objectValueAdd | .objectSep
  | .arrayAfterSep | .objectFieldStartAfterSep => false

/-- `tok->st_pos` -/
def posLive : St → Bool
  | .inf | .null | .boolean | .escapeUnicode | .needEscape | .needU => true
  | .number | .string | .objectField | .stringEscape
  | .eatws | .start | .finish | .commentStart | .comment | .commentEol | .commentEnd | .array | .arrayAdd
  | .arraySep | .objectFieldStart | .objectFieldEnd | .objectValue | .objectValueAdd | .objectSep
  | .arrayAfterSep | .objectFieldStartAfterSep => false

/-- `tok->is_double` -/
def dblLive : St → Bool
  | .number => true
  | .inf | .null | .boolean | .escapeUnicode | .needEscape | .needU | .string | .objectField | .stringEscape
  | .eatws | .start | .finish | .commentStart | .comment | .commentEol | .commentEnd | .array | .arrayAdd
  | .arraySep | .objectFieldStart | .objectFieldEnd | .objectValue | .objectValueAdd | .objectSep
  | .arrayAfterSep | .objectFieldStartAfterSep => false

/-- `tok->ucs_char` -/
def ucsLive : St → Bool
  | .escapeUnicode | .needEscape | .needU => true
  | .inf | .null | .boolean | .number | .string | .objectField | .stringEscape
  | .eatws | .start | .finish | .commentStart | .comment | .commentEol | .commentEnd | .array | .arrayAdd
  | .arraySep | .objectFieldStart | .objectFieldEnd | .objectValue | .objectValueAdd | .objectSep
  | .arrayAfterSep | .objectFieldStartAfterSep => false

/-- `tok->quote_char` -/
def quoteLive : St → Bool
  | .string | .objectField | .stringEscape | .escapeUnicode | .needEscape | .needU => true
  | .inf | .null | .boolean | .number
  | .eatws | .start | .finish | .commentStart | .comment | .commentEol | .commentEnd | .array | .arrayAdd
  | .arraySep | .objectFieldStart | .objectFieldEnd | .objectValue | .objectValueAdd | .objectSep
  | .arrayAfterSep | .objectFieldStartAfterSep => false

/-- the states that later continue in `top.saved` without re-initialising it: whitespace, the comment
states (they return to `eatws` with the same saved state) and the escape states -/
def via : St → Bool
  | .eatws | .commentStart | .comment | .commentEol | .commentEnd
  | .stringEscape | .escapeUnicode | .needEscape | .needU => true
  | .inf | .null | .boolean | .number | .string | .objectField
  | .start | .finish | .array | .arrayAdd
  | .arraySep | .objectFieldStart | .objectFieldEnd | .objectValue | .objectValueAdd | .objectSep
  | .arrayAfterSep | .objectFieldStartAfterSep => false

/-- the tables, one rewrite rule per (field, state): `simp [live_tab]` evaluates liveness of a concrete state
and leaves `f sv` for a symbolic saved state alone -/
theorem pbLive_tab : pbLive .eatws = false ∧ pbLive .start = false ∧ pbLive .finish = false ∧ pbLive .null = true ∧ pbLive .commentStart = false ∧ pbLive .comment = false ∧ pbLive .commentEol = false ∧ pbLive .commentEnd = false ∧ pbLive .string = true ∧ pbLive .stringEscape = true ∧ pbLive .escapeUnicode = true ∧ pbLive .needEscape = true ∧ pbLive .needU = true ∧ pbLive .boolean = true ∧ pbLive .number = true ∧ pbLive .array = false ∧ pbLive .arrayAdd = false ∧ pbLive .arraySep = false ∧ pbLive .objectFieldStart = false ∧ pbLive .objectField = true ∧ pbLive .objectFieldEnd = false ∧ pbLive .objectValue = false ∧ pbLive .objectValueAdd = false ∧ pbLive .objectSep = false ∧ pbLive .arrayAfterSep = false ∧ pbLive .objectFieldStartAfterSep = false ∧ pbLive .inf = true := by
  decide
theorem posLive_tab : posLive .eatws = false ∧ posLive .start = false ∧ posLive .finish = false ∧ posLive .null = true ∧ posLive .commentStart = false ∧ posLive .comment = false ∧ posLive .commentEol = false ∧ posLive .commentEnd = false ∧ posLive .string = false ∧ posLive .stringEscape = false ∧ posLive .escapeUnicode = true ∧ posLive .needEscape = true ∧ posLive .needU = true ∧ posLive .boolean = true ∧ posLive .number = false ∧ posLive .array = false ∧ posLive .arrayAdd = false ∧ posLive .arraySep = false ∧ posLive .objectFieldStart = false ∧ posLive .objectField = false ∧ posLive .objectFieldEnd = false ∧ posLive .objectValue = false ∧ posLive .objectValueAdd = false ∧ posLive .objectSep = false ∧ posLive .arrayAfterSep = false ∧ posLive .objectFieldStartAfterSep = false ∧ posLive .inf = true := by
  decide
theorem dblLive_tab : dblLive .eatws = false ∧ dblLive .start = false ∧ dblLive .finish = false ∧ dblLive .null = false ∧ dblLive .commentStart = false ∧ dblLive .comment = false ∧ dblLive .commentEol = false ∧ dblLive .commentEnd = false ∧ dblLive .string = false ∧ dblLive .stringEscape = false ∧ dblLive .escapeUnicode = false ∧ dblLive .needEscape = false ∧ dblLive .needU = false ∧ dblLive .boolean = false ∧ dblLive .number = true ∧ dblLive .array = false ∧ dblLive .arrayAdd = false ∧ dblLive .arraySep = false ∧ dblLive .objectFieldStart = false ∧ dblLive .objectField = false ∧ dblLive .objectFieldEnd = false ∧ dblLive .objectValue = false ∧ dblLive .objectValueAdd = false ∧ dblLive .objectSep = false ∧ dblLive .arrayAfterSep = false ∧ dblLive .objectFieldStartAfterSep = false ∧ dblLive .inf = false := by
  decide
theorem ucsLive_tab : ucsLive .eatws = false ∧ ucsLive .start = false ∧ ucsLive .finish = false ∧ ucsLive .null = false ∧ ucsLive .commentStart = false ∧ ucsLive .comment = false ∧ ucsLive .commentEol = false ∧ ucsLive .commentEnd = false ∧ ucsLive .string = false ∧ ucsLive .stringEscape = false ∧ ucsLive .escapeUnicode = true ∧ ucsLive .needEscape = true ∧ ucsLive .needU = true ∧ ucsLive .boolean = false ∧ ucsLive .number = false ∧ ucsLive .array = false ∧ ucsLive .arrayAdd = false ∧ ucsLive .arraySep = false ∧ ucsLive .objectFieldStart = false ∧ ucsLive .objectField = false ∧ ucsLive .objectFieldEnd = false ∧ ucsLive .objectValue = false ∧ ucsLive .objectValueAdd = false ∧ ucsLive .objectSep = false ∧ ucsLive .arrayAfterSep = false ∧ ucsLive .objectFieldStartAfterSep = false ∧ ucsLive .inf = false := by
  decide
theorem quoteLive_tab : quoteLive .eatws = false ∧ quoteLive .start = false ∧ quoteLive .finish = false ∧ quoteLive .null = false ∧ quoteLive .commentStart = false ∧ quoteLive .comment = false ∧ quoteLive .commentEol = false ∧ quoteLive .commentEnd = false ∧ quoteLive .string = true ∧ quoteLive .stringEscape = true ∧ quoteLive .escapeUnicode = true ∧ quoteLive .needEscape = true ∧ quoteLive .needU = true ∧ quoteLive .boolean = false ∧ quoteLive .number = false ∧ quoteLive .array = false ∧ quoteLive .arrayAdd = false ∧ quoteLive .arraySep = false ∧ quoteLive .objectFieldStart = false ∧ quoteLive .objectField = true ∧ quoteLive .objectFieldEnd = false ∧ quoteLive .objectValue = false ∧ quoteLive .objectValueAdd = false ∧ quoteLive .objectSep = false ∧ quoteLive .arrayAfterSep = false ∧ quoteLive .objectFieldStartAfterSep = false ∧ quoteLive .inf = false := by
  decide
theorem via_tab : via .eatws = true ∧ via .start = false ∧ via .finish = false ∧ via .null = false ∧ via .commentStart = true ∧ via .comment = true ∧ via .commentEol = true ∧ via .commentEnd = true ∧ via .string = false ∧ via .stringEscape = true ∧ via .escapeUnicode = true ∧ via .needEscape = true ∧ via .needU = true ∧ via .boolean = false ∧ via .number = false ∧ via .array = false ∧ via .arrayAdd = false ∧ via .arraySep = false ∧ via .objectFieldStart = false ∧ via .objectField = false ∧ via .objectFieldEnd = false ∧ via .objectValue = false ∧ via .objectValueAdd = false ∧ via .objectSep = false ∧ via .arrayAfterSep = false ∧ via .objectFieldStartAfterSep = false ∧ via .inf = false := by
  decide

/-- liveness of a field in a level (state, saved_state) -/
def lv (f : St → Bool) (st sv : St) : Bool := f st || (via st && f sv)

/-- liveness of a field in a tokener: that of its top level -/
def Tok.live (t : Tok) (f : St → Bool) : Bool :=
  match t.stack with
  | [] => false
  | top :: _ => lv f top.state top.saved

theorem lv_self (f : St → Bool) (s : St) : lv f s s = f s := by
  unfold lv; cases f s <;> simp

@[simp] theorem bool_absorb (a b : Bool) : (a || (b && a)) = a := by cases a <;> cases b <;> rfl

/-! ### the relation -/

/-- equal up to dead scratch fields -/
structure Eqv (t t' : Tok) : Prop where
  stack : t.stack = t'.stack
  maxDepth : t.maxDepth = t'.maxDepth
  flags : t.flags = t'.flags
  hs : t.hs = t'.hs
  pb : t.live pbLive = true → t.pb = t'.pb
  stPos : t.live posLive = true → t.stPos = t'.stPos
  isDouble : t.live dblLive = true → t.isDouble = t'.isDouble
  ucs : t.live ucsLive = true → t.ucs = t'.ucs
  quote : t.live quoteLive = true → t.quote = t'.quote

theorem eqv_iff (t t' : Tok) : Eqv t t' ↔
    (t.stack = t'.stack ∧ t.maxDepth = t'.maxDepth ∧ t.flags = t'.flags ∧ t.hs = t'.hs ∧
     (t.live pbLive = true → t.pb = t'.pb) ∧ (t.live posLive = true → t.stPos = t'.stPos) ∧
     (t.live dblLive = true → t.isDouble = t'.isDouble) ∧ (t.live ucsLive = true → t.ucs = t'.ucs) ∧
     (t.live quoteLive = true → t.quote = t'.quote)) :=
  ⟨fun h => ⟨h.stack, h.maxDepth, h.flags, h.hs, h.pb, h.stPos, h.isDouble, h.ucs, h.quote⟩,
   fun ⟨a, b, c, d, e, f, g, h, i⟩ => ⟨a, b, c, d, e, f, g, h, i⟩⟩

theorem live_congr {t t' : Tok} (h : t.stack = t'.stack) (f : St → Bool) : t.live f = t'.live f := by
  unfold Tok.live; rw [h]

theorem Eqv.refl (t : Tok) : Eqv t t :=
  ⟨rfl, rfl, rfl, rfl, fun _ => rfl, fun _ => rfl, fun _ => rfl, fun _ => rfl, fun _ => rfl⟩

theorem Eqv.symm {t t' : Tok} (h : Eqv t t') : Eqv t' t :=
  ⟨h.stack.symm, h.maxDepth.symm, h.flags.symm, h.hs.symm,
   fun x => (h.pb (by rw [live_congr h.stack]; exact x)).symm,
   fun x => (h.stPos (by rw [live_congr h.stack]; exact x)).symm,
   fun x => (h.isDouble (by rw [live_congr h.stack]; exact x)).symm,
   fun x => (h.ucs (by rw [live_congr h.stack]; exact x)).symm,
   fun x => (h.quote (by rw [live_congr h.stack]; exact x)).symm⟩

theorem Eqv.trans {t t' t'' : Tok} (h : Eqv t t') (h' : Eqv t' t'') : Eqv t t'' :=
  ⟨h.stack.trans h'.stack, h.maxDepth.trans h'.maxDepth, h.flags.trans h'.flags, h.hs.trans h'.hs,
   fun x => (h.pb x).trans (h'.pb (by rw [← live_congr h.stack]; exact x)),
   fun x => (h.stPos x).trans (h'.stPos (by rw [← live_congr h.stack]; exact x)),
   fun x => (h.isDouble x).trans (h'.isDouble (by rw [← live_congr h.stack]; exact x)),
   fun x => (h.ucs x).trans (h'.ucs (by rw [← live_congr h.stack]; exact x)),
   fun x => (h.quote x).trans (h'.quote (by rw [← live_congr h.stack]; exact x))⟩

/-- all scratch fields are dead in a fresh level -/
theorem eqv_of_fresh {t t' : Tok} (h1 : t.stack = [freshLevel]) (h1' : t'.stack = [freshLevel])
    (h2 : t.maxDepth = t'.maxDepth) (h3 : t.flags = t'.flags) (h4 : t.hs = t'.hs) : Eqv t t' := by
  refine ⟨h1.trans h1'.symm, h2, h3, h4, ?_, ?_, ?_, ?_, ?_⟩ <;>
    simp [Tok.live, h1, freshLevel, lv, pbLive, posLive, dblLive, ucsLive, quoteLive, via]

theorem reset_eqv {t t' : Tok} (h : Eqv t t') : Eqv (reset t) (reset t') :=
  eqv_of_fresh rfl rfl h.maxDepth h.flags rfl

theorem setFlags_eqv {t t' : Tok} (h : Eqv t t') (f : Nat) : Eqv (setFlags t f) (setFlags t' f) :=
  ⟨h.stack, h.maxDepth, rfl, h.hs, h.pb, h.stPos, h.isDouble, h.ucs, h.quote⟩

/-- results of one dispatch, equal up to dead scratch fields -/
def ActEqv : Act → Act → Prop
  | .consume t l, .consume t' l' => Eqv t t' ∧ l = l'
  | .redo t l, .redo t' l' => Eqv t t' ∧ l = l'
  | .err e t l, .err e' t' l' => e = e' ∧ Eqv t t' ∧ l = l'
  | .done t l, .done t' l' => Eqv t t' ∧ l = l'
  | .fault w, .fault w' => w = w'
  | _, _ => False

/-- both sides branch on the same condition (possibly only up to unfolding `Tok.strict` of two record
literals with the same flags: `refine` unifies them) -/
theorem ActEqv.ite {p : Prop} [Decidable p] {a a' b b' : Act} (h1 : ActEqv a a') (h2 : ActEqv b b') :
    ActEqv (if p then a else b) (if p then a' else b') := by
  split <;> assumption

/-! ### one dispatch -/

section states
variable {t t' : Tok} {top : Level} {rest : List Level} (l : Loc) (c : UInt8)

/-- open everything up: the two tokeners become record literals sharing every field `Eqv` equates -/
local macro "eqv_open" h:ident hs:ident hst:ident : tactic => `(tactic|
  (obtain ⟨st, sv, cur, nm⟩ := top
   obtain ⟨stack, md, pb, pos, dbl, ucs, hs0, q, fl⟩ := t
   obtain ⟨stack', md', pb', pos', dbl', ucs', hs0', q', fl'⟩ := t'
   obtain ⟨e1, e2, e3, e4, hpb, hpos, hdbl, hucs, hq⟩ := $h
   simp only at $hs:ident $hst:ident e1 e2 e3 e4
   subst $hst e1 e2 e3 e4
   subst $hs
   simp [Tok.live, lv, pbLive_tab, posLive_tab, dblLive_tab, ucsLive_tab, quoteLive_tab, via_tab] at hpb hpos hdbl hucs hq
   subst_vars))

local macro "eqv_close" : tactic => `(tactic|
  ((repeat' (refine ActEqv.ite ?_ ?_)) <;> (repeat' split) <;>
   simp_all [ActEqv, eqv_iff, setTop, finishWith, Tok.live, lv, pbLive_tab, posLive_tab, dblLive_tab, ucsLive_tab,
     quoteLive_tab, via_tab, Tok.strict, freshLevel]))

theorem dEatws_eqv (h : Eqv t t') (hs : t.stack = top :: rest) (hst : top.state = .eatws) :
    ActEqv (dEatws t l top rest c) (dEatws t' l top rest c) := by
  eqv_open h hs hst
  unfold dEatws
  eqv_close

theorem dStart_eqv (h : Eqv t t') (hs : t.stack = top :: rest) (hst : top.state = .start) :
    ActEqv (dStart t l top rest c) (dStart t' l top rest c) := by
  eqv_open h hs hst
  unfold dStart
  eqv_close

theorem dFinish_eqv (h : Eqv t t') (hs : t.stack = top :: rest) (hst : top.state = .finish) :
    ActEqv (dFinish t l top rest) (dFinish t' l top rest) := by
  eqv_open h hs hst
  unfold dFinish
  eqv_close

theorem dInf_eqv (h : Eqv t t') (hs : t.stack = top :: rest) (hst : top.state = .inf) :
    ActEqv (dInf t l top rest c) (dInf t' l top rest c) := by
  eqv_open h hs hst
  unfold dInf
  eqv_close

theorem dNull_eqv (h : Eqv t t') (hs : t.stack = top :: rest) (hst : top.state = .null) :
    ActEqv (dNull t l top rest c) (dNull t' l top rest c) := by
  eqv_open h hs hst
  unfold dNull
  simp only
  eqv_close

theorem dBoolean_eqv (h : Eqv t t') (hs : t.stack = top :: rest) (hst : top.state = .boolean) :
    ActEqv (dBoolean t l top rest c) (dBoolean t' l top rest c) := by
  eqv_open h hs hst
  unfold dBoolean
  simp only
  eqv_close

theorem dCommentStart_eqv (h : Eqv t t') (hs : t.stack = top :: rest) (hst : top.state = .commentStart) :
    ActEqv (dCommentStart t l top rest c) (dCommentStart t' l top rest c) := by
  eqv_open h hs hst
  unfold dCommentStart
  eqv_close

theorem dComment_eqv (h : Eqv t t') (hs : t.stack = top :: rest) (hst : top.state = .comment) :
    ActEqv (dComment t l top rest c) (dComment t' l top rest c) := by
  eqv_open h hs hst
  unfold dComment
  eqv_close

theorem dCommentEol_eqv (h : Eqv t t') (hs : t.stack = top :: rest) (hst : top.state = .commentEol) :
    ActEqv (dCommentEol t l top rest c) (dCommentEol t' l top rest c) := by
  eqv_open h hs hst
  unfold dCommentEol
  eqv_close

theorem dCommentEnd_eqv (h : Eqv t t') (hs : t.stack = top :: rest) (hst : top.state = .commentEnd) :
    ActEqv (dCommentEnd t l top rest c) (dCommentEnd t' l top rest c) := by
  eqv_open h hs hst
  unfold dCommentEnd
  simp only
  eqv_close

theorem dString_eqv (h : Eqv t t') (hs : t.stack = top :: rest) (hst : top.state = .string) :
    ActEqv (dString t l top rest c) (dString t' l top rest c) := by
  eqv_open h hs hst
  unfold dString
  eqv_close

theorem dObjectField_eqv (h : Eqv t t') (hs : t.stack = top :: rest) (hst : top.state = .objectField) :
    ActEqv (dObjectField t l top rest c) (dObjectField t' l top rest c) := by
  eqv_open h hs hst
  unfold dObjectField
  eqv_close

theorem dStringEscape_eqv (h : Eqv t t') (hs : t.stack = top :: rest) (hst : top.state = .stringEscape) :
    ActEqv (dStringEscape t l top rest c) (dStringEscape t' l top rest c) := by
  eqv_open h hs hst
  unfold dStringEscape
  simp only
  eqv_close

theorem dNeedEscape_eqv (h : Eqv t t') (hs : t.stack = top :: rest) (hst : top.state = .needEscape) :
    ActEqv (dNeedEscape t l top rest c) (dNeedEscape t' l top rest c) := by
  eqv_open h hs hst
  unfold dNeedEscape
  eqv_close

theorem dNeedU_eqv (h : Eqv t t') (hs : t.stack = top :: rest) (hst : top.state = .needU) :
    ActEqv (dNeedU t l top rest c) (dNeedU t' l top rest c) := by
  eqv_open h hs hst
  unfold dNeedU
  eqv_close

theorem dArraySep_eqv (h : Eqv t t') (hs : t.stack = top :: rest) (hst : top.state = .arraySep) :
    ActEqv (dArraySep t l top rest c) (dArraySep t' l top rest c) := by
  eqv_open h hs hst
  unfold dArraySep
  eqv_close

theorem dObjectFieldEnd_eqv (h : Eqv t t') (hs : t.stack = top :: rest) (hst : top.state = .objectFieldEnd) :
    ActEqv (dObjectFieldEnd t l top rest c) (dObjectFieldEnd t' l top rest c) := by
  eqv_open h hs hst
  unfold dObjectFieldEnd
  eqv_close

theorem dObjectSep_eqv (h : Eqv t t') (hs : t.stack = top :: rest) (hst : top.state = .objectSep) :
    ActEqv (dObjectSep t l top rest c) (dObjectSep t' l top rest c) := by
  eqv_open h hs hst
  unfold dObjectSep
  eqv_close

set_option maxRecDepth 4000 in
theorem emitUnit_eqv (u : Nat) (b : Bytes) (h : Eqv t t') (hs : t.stack = top :: rest)
    (hst : top.state = .escapeUnicode) :
    ActEqv (emitUnit t l top rest u b) (emitUnit t' l top rest u b) := by
  eqv_open h hs hst
  unfold emitUnit
  simp only
  eqv_close

set_option maxRecDepth 4000 in
theorem unicodeUnit_eqv (u : Nat) (h : Eqv t t') (hs : t.stack = top :: rest)
    (hst : top.state = .escapeUnicode) :
    ActEqv (unicodeUnit t l top rest u) (unicodeUnit t' l top rest u) := by
  have hpb : t.pb = t'.pb := h.pb (by simp [Tok.live, hs, hst, lv, pbLive_tab])
  unfold unicodeUnit
  rw [← hpb, ← h.hs]
  refine ActEqv.ite (ActEqv.ite ?_ ?_) ?_ <;> exact emitUnit_eqv l _ _ h hs hst

theorem dEscapeUnicode_eqv (h : Eqv t t') (hs : t.stack = top :: rest) (hst : top.state = .escapeUnicode) :
    ActEqv (dEscapeUnicode t l top rest c) (dEscapeUnicode t' l top rest c) := by
  eqv_open h hs hst
  unfold dEscapeUnicode
  simp only
  refine ActEqv.ite ?_ (ActEqv.ite ?_ (ActEqv.ite ?_ (unicodeUnit_eqv l _ ?_ rfl rfl)))
  · eqv_close
  · eqv_close
  · eqv_close
  · simp_all [eqv_iff, Tok.live, lv, pbLive_tab, posLive_tab, dblLive_tab, ucsLive_tab, quoteLive_tab, via_tab]

theorem eqv_fresh_top {a b : Tok} {stk : List Level} (h1 : a.maxDepth = b.maxDepth) (h2 : a.flags = b.flags)
    (h3 : a.hs = b.hs) (hs : a.stack = freshLevel :: stk) (hs' : b.stack = freshLevel :: stk) : Eqv a b := by
  simp [eqv_iff, Tok.live, hs, hs', freshLevel, lv, pbLive_tab, posLive_tab, dblLive_tab, ucsLive_tab, quoteLive_tab,
    via_tab, h1, h2, h3]

/-- pushing a level: whatever the state of the current top -/
theorem pushLevel_eqv (st' : St) (h : Eqv t t') :
    ActEqv (pushLevel t l top rest st') (pushLevel t' l top rest st') := by
  unfold pushLevel
  rw [← h.maxDepth]
  refine ActEqv.ite ?_ (ActEqv.ite ?_ ?_)
  · exact ⟨rfl, h, rfl⟩
  · exact rfl
  · exact ⟨eqv_fresh_top rfl h.flags h.hs rfl rfl, rfl⟩

theorem dArray_eqv (b : Bool) (h : Eqv t t') (hs : t.stack = top :: rest)
    (hst : top.state = .array ∨ top.state = .arrayAfterSep) :
    ActEqv (dArray t l top rest c b) (dArray t' l top rest c b) := by
  rcases hst with hst | hst
  · eqv_open h hs hst
    unfold dArray
    refine ActEqv.ite ?_ (pushLevel_eqv l _ ?_)
    · eqv_close
    · simp_all [eqv_iff, Tok.live, lv, pbLive_tab, posLive_tab, dblLive_tab, ucsLive_tab, quoteLive_tab, via_tab]
  · eqv_open h hs hst
    unfold dArray
    refine ActEqv.ite ?_ (pushLevel_eqv l _ ?_)
    · eqv_close
    · simp_all [eqv_iff, Tok.live, lv, pbLive_tab, posLive_tab, dblLive_tab, ucsLive_tab, quoteLive_tab, via_tab]

theorem dObjectFieldStart_eqv (b : Bool) (h : Eqv t t') (hs : t.stack = top :: rest)
    (hst : top.state = .objectFieldStart ∨ top.state = .objectFieldStartAfterSep) :
    ActEqv (dObjectFieldStart t l top rest c b) (dObjectFieldStart t' l top rest c b) := by
  rcases hst with hst | hst
  · eqv_open h hs hst
    unfold dObjectFieldStart
    eqv_close
  · eqv_open h hs hst
    unfold dObjectFieldStart
    eqv_close

/-- `classifyNum` reads only `flags` and `is_double` of the tokener -/
def classifyNumN (lc : Libc) (fl : Nat) (dbl : Bool) (pb : Bytes) : Except PErr JVal :=
  classifyNum lc ⟨[], 0, [], 0, dbl, 0, 0, 0, fl⟩ pb

theorem classifyNum_norm (lc : Libc) (t : Tok) (pb : Bytes) :
    classifyNum lc t pb = classifyNumN lc t.flags t.isDouble pb := by
  unfold classifyNumN classifyNum Tok.strict
  rfl

theorem dNumber_eqv (lc : Libc) (h : Eqv t t') (hs : t.stack = top :: rest) (hst : top.state = .number) :
    ActEqv (dNumber lc t l top rest c) (dNumber lc t' l top rest c) := by
  eqv_open h hs hst
  unfold dNumber dNumberCore
  refine ActEqv.ite ?_ (ActEqv.ite ?_ (ActEqv.ite ?_ ?_))
  · simp [ActEqv, eqv_iff, Tok.live, lv, pbLive_tab, posLive_tab, dblLive_tab, ucsLive_tab, quoteLive_tab, via_tab,
      numDouble, numFlags]
  · eqv_close
  · eqv_close
  · simp only
    generalize hr : classifyNum lc _ _ = r
    generalize hr' : classifyNum lc _ _ = r'
    have e : r = r' := by
      rw [← hr, ← hr']
      simp only [classifyNum_norm]
      rfl
    subst e
    cases r <;>
      simp [ActEqv, eqv_iff, setTop, finishWith, Tok.live, lv, pbLive_tab, posLive_tab, dblLive_tab, ucsLive_tab,
        quoteLive_tab, via_tab, Tok.strict]

end states

/-- **simulation, one dispatch**: `Eqv` tokeners take the same branch of `switch (state)` and end `Eqv` -/
theorem disp_eqv (lc : Libc) {t t' : Tok} (h : Eqv t t') (l : Loc) (c : UInt8) :
    ActEqv (disp lc t l c) (disp lc t' l c) := by
  unfold disp
  rw [← h.stack]
  cases hs : t.stack with
  | nil => exact rfl
  | cons top rest =>
    simp only
    cases hst : top.state <;> simp only
    · exact dEatws_eqv l c h hs hst
    · exact dStart_eqv l c h hs hst
    · exact dFinish_eqv l h hs hst
    · exact dNull_eqv l c h hs hst
    · exact dCommentStart_eqv l c h hs hst
    · exact dComment_eqv l c h hs hst
    · exact dCommentEol_eqv l c h hs hst
    · exact dCommentEnd_eqv l c h hs hst
    · exact dString_eqv l c h hs hst
    · exact dStringEscape_eqv l c h hs hst
    · exact dEscapeUnicode_eqv l c h hs hst
    · exact dNeedEscape_eqv l c h hs hst
    · exact dNeedU_eqv l c h hs hst
    · exact dBoolean_eqv l c h hs hst
    · exact dNumber_eqv l c lc h hs hst
    · exact dArray_eqv l c _ h hs (Or.inl hst)
    · exact rfl
    · exact dArraySep_eqv l c h hs hst
    · exact dObjectFieldStart_eqv l c _ h hs (Or.inl hst)
    · exact dObjectField_eqv l c h hs hst
    · exact dObjectFieldEnd_eqv l c h hs hst
    · exact pushLevel_eqv l _ h
    · exact rfl
    · exact dObjectSep_eqv l c h hs hst
    · exact dArray_eqv l c _ h hs (Or.inr hst)
    · exact dObjectFieldStart_eqv l c _ h hs (Or.inr hst)
    · exact dInf_eqv l c h hs hst

theorem feedN_eqv (lc : Libc) : ∀ (n : Nat) {t t' : Tok}, Eqv t t' → ∀ (l : Loc) (c : UInt8),
    ActEqv (feedN lc n t l c) (feedN lc n t' l c) := by
  intro n
  induction n with
  | zero => intro t t' h l c; exact ⟨h, rfl⟩
  | succ n ih =>
    intro t t' h l c
    have hd := disp_eqv lc h l c
    simp only [feedN]
    cases h1 : disp lc t l c <;> cases h2 : disp lc t' l c <;> rw [h1, h2] at hd <;>
      first
        | exact hd.elim
        | (obtain ⟨he, hl⟩ := hd; subst hl; exact ih he _ c)
        | exact hd

theorem feed_eqv (lc : Libc) {t t' : Tok} (h : Eqv t t') (l : Loc) (c : UInt8) :
    ActEqv (feed lc t l c) (feed lc t' l c) := feedN_eqv lc fuel h l c

/-- loop results, equal up to dead scratch fields -/
structure LoopEqv (e e' : LoopEnd) : Prop where
  tok : Eqv e.tok e'.tok
  loc : e.loc = e'.loc
  c : e.c = e'.c
  offset : e.offset = e'.offset
  stop : e.stop = e'.stop

theorem peek_eqv {t t' : Tok} (h : Eqv t t') (l : Loc) (b : UInt8) : peek t l b = peek t' l b := by
  unfold peek Tok.validateUtf8; rw [h.flags]

theorem run_eqv (lc : Libc) (data : Bytes) : ∀ {t t' : Tok}, Eqv t t' → ∀ (l : Loc) (c : UInt8) (off : Nat),
    LoopEqv (run lc t l c off data) (run lc t' l c off data) := by
  induction data with
  | nil => intro t t' h l c off; exact ⟨h, rfl, rfl, rfl, rfl⟩
  | cons b bs ih =>
    intro t t' h l c off
    simp only [run]
    rw [← peek_eqv h l b]
    cases peek t l b with
    | none => exact ⟨h, rfl, rfl, rfl, rfl⟩
    | some l1 =>
      simp only
      have hf := feed_eqv lc h l1 b
      cases h1 : feed lc t l1 b <;> cases h2 : feed lc t' l1 b <;> rw [h1, h2] at hf <;>
        first
          | exact hf.elim
          | (simp only; exact ⟨h, rfl, rfl, rfl, by rw [show _ = _ from hf]⟩)
          | (obtain ⟨he, hl⟩ := hf; subst hl; simp only
             first
               | exact ⟨he, rfl, rfl, rfl, rfl⟩
               | (split
                  · exact ⟨he, rfl, rfl, rfl, rfl⟩
                  · exact ih he _ _ _))
          | (obtain ⟨hx, he, hl⟩ := hf; subst hl; subst hx; exact ⟨he, rfl, rfl, rfl, rfl⟩)

theorem finalErr_eqv {e e' : LoopEnd} (h : LoopEqv e e') : finalErr e = finalErr e' := by
  obtain ⟨t, l, c, off, st⟩ := e
  obtain ⟨t', l', c', off', st'⟩ := e'
  obtain ⟨ht, hl, hc, ho, hst⟩ := h
  simp only at ht hl hc ho hst
  subst hl hc ho hst
  have h1 : topState t = topState t' := by unfold topState; rw [ht.stack]
  have h2 : t.strict = t'.strict := by unfold Tok.strict; rw [ht.flags]
  have h3 : t.allowTrailing = t'.allowTrailing := by unfold Tok.allowTrailing; rw [ht.flags]
  have h4 : t.validateUtf8 = t'.validateUtf8 := by unfold Tok.validateUtf8; rw [ht.flags]
  unfold finalErr loopErr
  simp only [h1, h2, h3, h4, ht.stack]

/-- results of a call, equal up to dead scratch fields of the tokener left behind -/
structure FinalEqv (f f' : Final) : Prop where
  err : f.err = f'.err
  value : f.value = f'.value
  offset : f.offset = f'.offset
  stuck : f.stuck = f'.stuck
  fault : f.fault = f'.fault
  tok : Eqv f.tok f'.tok

theorem epilogue_eqv {e e' : LoopEnd} (h : LoopEqv e e') : FinalEqv (epilogue e) (epilogue e') := by
  have hf := finalErr_eqv h
  have hc : topCurrent e.tok = topCurrent e'.tok := by unfold topCurrent; rw [h.tok.stack]
  unfold epilogue
  simp only [hf, h.stop, h.offset, hc]
  split
  · exact ⟨rfl, rfl, rfl, rfl, rfl, eqv_of_fresh rfl rfl h.tok.maxDepth h.tok.flags h.tok.hs⟩
  · exact ⟨rfl, rfl, rfl, rfl, rfl, h.tok⟩

theorem parseEx_finalEqv (lc : Libc) {t t' : Tok} (h : Eqv t t') (data : Bytes) :
    FinalEqv (parseEx lc t data) (parseEx lc t' data) :=
  epilogue_eqv (run_eqv lc data h {} 1 0)

/-- **simulation, one call**: `Eqv` tokeners give the same status, value, end offset (and no
stuck / fault difference), and are left `Eqv` -/
theorem parseEx_eqv (lc : Libc) (t t' : Tok) (h : Eqv t t') (data : Bytes) :
    let f := parseEx lc t data; let f' := parseEx lc t' data
    f.err = f'.err ∧ f.value = f'.value ∧ f.offset = f'.offset ∧ f.stuck = f'.stuck ∧ f.fault = f'.fault ∧
      Eqv f.tok f'.tok :=
  have r := parseEx_finalEqv lc h data
  ⟨r.err, r.value, r.offset, r.stuck, r.fault, r.tok⟩

/-- the same for the `len = -1` entry point -/
theorem parseExZ_finalEqv (lc : Libc) {t t' : Tok} (h : Eqv t t') (str : Bytes) :
    FinalEqv (parseExZ lc t str) (parseExZ lc t' str) := by
  have r := parseEx_finalEqv lc h (cstr str ++ [0])
  unfold parseExZ
  simp only
  rw [← r.err]
  split
  · exact ⟨rfl, r.value, r.offset, r.stuck, rfl, r.tok⟩
  · exact r

end JsonC.Tokener
