/-
  Dead scratch fields do not matter.

  `tok->pb`, `tok->st_pos`, `tok->is_double`, `tok->ucs_char` and `tok->quote_char` are scratch
  registers of the state machine: each is (re)initialised by the transition that enters the states
  reading it.  `Eqv t t'` says the two tokeners agree on everything except scratch fields that are
  *dead* in the state of the top level; `disp` (hence `feed`, `run`, `parseEx`) maps `Eqv` tokeners
  to `Eqv` tokeners with equal observable results.  Helper lemmas for C04 (reset ≈ new) and the
  stream clause of C03; never property statements.

  Liveness is a backward data-flow fact about `switch (state)`: a field is live in a state if some
  dispatch from that state reads it before writing it, directly, or after jumping to the saved state
  (`via`: the states that later continue in `top.saved`).
-/
import JsonC.Model.Tokener
namespace JsonC.Tokener
open JsonC

/-! ### liveness table -/

/-- `tok->pb` is read (appended to and later used) -/
def pbLive : St → Bool
  | .inf | .null | .boolean | .number | .string | .objectField | .stringEscape | .escapeUnicode
  | .needEscape | .needU => true
  | .eatws | .start | .finish | .commentStart | .comment | .commentEol | .commentEnd | .array | .arrayAdd
  | .arraySep | .objectFieldStart | .objectFieldEnd | .objectValue | .objectValueAdd | .objectSep
  | .arrayAfterSep | .objectFieldStartAfterSep => false

/-- `tok->st_pos` -/
def posLive : St → Bool
  | .inf | .null | .boolean | .escapeUnicode | .needEscape | .needU => true
  | .number | .string | .objectField | .stringEscape
  | .eatws | .start | .finish | .commentStart | .comment | .commentEol | .commentEnd | .array | .arrayAdd
  | .arraySep | .objectFieldStart | .objectFieldEnd | .objectValue | .objectValueAdd | .objectSep
  | .arrayAfterSep | .objectFieldStartAfterSep => false

/-- `tok->is_double` -/
def dblLive : St → Bool
  | .number => true
  | .inf | .null | .boolean | .escapeUnicode | .needEscape | .needU | .string | .objectField | .stringEscape
  | .eatws | .start | .finish | .commentStart | .comment | .commentEol | .commentEnd | .array | .arrayAdd
  | .arraySep | .objectFieldStart | .objectFieldEnd | .objectValue | .objectValueAdd | .objectSep
  | .arrayAfterSep | .objectFieldStartAfterSep => false

/-- `tok->ucs_char` -/
def ucsLive : St → Bool
  | .escapeUnicode | .needEscape | .needU => true
  | .inf | .null | .boolean | .number | .string | .objectField | .stringEscape
  | .eatws | .start | .finish | .commentStart | .comment | .commentEol | .commentEnd | .array | .arrayAdd
  | .arraySep | .objectFieldStart | .objectFieldEnd | .objectValue | .objectValueAdd | .objectSep
  | .arrayAfterSep | .objectFieldStartAfterSep => false

/-- `tok->quote_char` -/
def quoteLive : St → Bool
  | .string | .objectField | .stringEscape | .escapeUnicode | .needEscape | .needU => true
  | .inf | .null | .boolean | .number
  | .eatws | .start | .finish | .commentStart | .comment | .commentEol | .commentEnd | .array | .arrayAdd
  | .arraySep | .objectFieldStart | .objectFieldEnd | .objectValue | .objectValueAdd | .objectSep
  | .arrayAfterSep | .objectFieldStartAfterSep => false

/-- the states that later continue in `top.saved` without re-initialising it: whitespace, the comment
states (they return to `eatws` with the same saved state) and the escape states -/
def via : St → Bool
  | .eatws | .commentStart | .comment | .commentEol | .commentEnd
  | .stringEscape | .escapeUnicode | .needEscape | .needU => true
  | .inf | .null | .boolean | .number | .string | .objectField
  | .start | .finish | .array | .arrayAdd
  | .arraySep | .objectFieldStart | .objectFieldEnd | .objectValue | .objectValueAdd | .objectSep
  | .arrayAfterSep | .objectFieldStartAfterSep => false

/-- liveness of a field in a level (state, saved_state) -/
def lv (f : St → Bool) (st sv : St) : Bool := f st || (via st && f sv)

/-- liveness of a field in a tokener: that of its top level -/
def Tok.live (t : Tok) (f : St → Bool) : Bool :=
  match t.stack with
  | [] => false
  | top :: _ => lv f top.state top.saved

theorem lv_self (f : St → Bool) (s : St) : lv f s s = f s := by
  unfold lv; cases f s <;> simp

@[simp] theorem bool_absorb (a b : Bool) : (a || (b && a)) = a := by cases a <;> cases b <;> rfl

/-! ### the relation -/

/-- equal up to dead scratch fields -/
structure Eqv (t t' : Tok) : Prop where
  stack : t.stack = t'.stack
  maxDepth : t.maxDepth = t'.maxDepth
  flags : t.flags = t'.flags
  hs : t.hs = t'.hs
  pb : t.live pbLive = true → t.pb = t'.pb
  stPos : t.live posLive = true → t.stPos = t'.stPos
  isDouble : t.live dblLive = true → t.isDouble = t'.isDouble
  ucs : t.live ucsLive = true → t.ucs = t'.ucs
  quote : t.live quoteLive = true → t.quote = t'.quote

theorem eqv_iff (t t' : Tok) : Eqv t t' ↔
    (t.stack = t'.stack ∧ t.maxDepth = t'.maxDepth ∧ t.flags = t'.flags ∧ t.hs = t'.hs ∧
     (t.live pbLive = true → t.pb = t'.pb) ∧ (t.live posLive = true → t.stPos = t'.stPos) ∧
     (t.live dblLive = true → t.isDouble = t'.isDouble) ∧ (t.live ucsLive = true → t.ucs = t'.ucs) ∧
     (t.live quoteLive = true → t.quote = t'.quote)) :=
  ⟨fun h => ⟨h.stack, h.maxDepth, h.flags, h.hs, h.pb, h.stPos, h.isDouble, h.ucs, h.quote⟩,
   fun ⟨a, b, c, d, e, f, g, h, i⟩ => ⟨a, b, c, d, e, f, g, h, i⟩⟩

theorem live_congr {t t' : Tok} (h : t.stack = t'.stack) (f : St → Bool) : t.live f = t'.live f := by
  unfold Tok.live; rw [h]

theorem Eqv.refl (t : Tok) : Eqv t t :=
  ⟨rfl, rfl, rfl, rfl, fun _ => rfl, fun _ => rfl, fun _ => rfl, fun _ => rfl, fun _ => rfl⟩

theorem Eqv.symm {t t' : Tok} (h : Eqv t t') : Eqv t' t :=
  ⟨h.stack.symm, h.maxDepth.symm, h.flags.symm, h.hs.symm,
   fun x => (h.pb (by rw [live_congr h.stack]; exact x)).symm,
   fun x => (h.stPos (by rw [live_congr h.stack]; exact x)).symm,
   fun x => (h.isDouble (by rw [live_congr h.stack]; exact x)).symm,
   fun x => (h.ucs (by rw [live_congr h.stack]; exact x)).symm,
   fun x => (h.quote (by rw [live_congr h.stack]; exact x)).symm⟩

theorem Eqv.trans {t t' t'' : Tok} (h : Eqv t t') (h' : Eqv t' t'') : Eqv t t'' :=
  ⟨h.stack.trans h'.stack, h.maxDepth.trans h'.maxDepth, h.flags.trans h'.flags, h.hs.trans h'.hs,
   fun x => (h.pb x).trans (h'.pb (by rw [← live_congr h.stack]; exact x)),
   fun x => (h.stPos x).trans (h'.stPos (by rw [← live_congr h.stack]; exact x)),
   fun x => (h.isDouble x).trans (h'.isDouble (by rw [← live_congr h.stack]; exact x)),
   fun x => (h.ucs x).trans (h'.ucs (by rw [← live_congr h.stack]; exact x)),
   fun x => (h.quote x).trans (h'.quote (by rw [← live_congr h.stack]; exact x))⟩

/-- all scratch fields are dead in a fresh level -/
theorem eqv_of_fresh {t t' : Tok} (h1 : t.stack = [freshLevel]) (h1' : t'.stack = [freshLevel])
    (h2 : t.maxDepth = t'.maxDepth) (h3 : t.flags = t'.flags) (h4 : t.hs = t'.hs) : Eqv t t' := by
  refine ⟨h1.trans h1'.symm, h2, h3, h4, ?_, ?_, ?_, ?_, ?_⟩ <;>
    simp [Tok.live, h1, freshLevel, lv, pbLive, posLive, dblLive, ucsLive, quoteLive, via]

theorem reset_eqv {t t' : Tok} (h : Eqv t t') : Eqv (reset t) (reset t') :=
  eqv_of_fresh rfl rfl h.maxDepth h.flags rfl

theorem setFlags_eqv {t t' : Tok} (h : Eqv t t') (f : Nat) : Eqv (setFlags t f) (setFlags t' f) :=
  ⟨h.stack, h.maxDepth, rfl, h.hs, h.pb, h.stPos, h.isDouble, h.ucs, h.quote⟩

/-- results of one dispatch, equal up to dead scratch fields -/
def ActEqv : Act → Act → Prop
  | .consume t l, .consume t' l' => Eqv t t' ∧ l = l'
  | .redo t l, .redo t' l' => Eqv t t' ∧ l = l'
  | .err e t l, .err e' t' l' => e = e' ∧ Eqv t t' ∧ l = l'
  | .done t l, .done t' l' => Eqv t t' ∧ l = l'
  | .fault w, .fault w' => w = w'
  | _, _ => False

/-! ### one dispatch -/

section states
variable {t t' : Tok} {top : Level} {rest : List Level} (l : Loc) (c : UInt8)

/-- open everything up: the two tokeners become record literals sharing every field `Eqv` equates -/
local macro "eqv_open" h:ident hs:ident hst:ident : tactic => `(tactic|
  (obtain ⟨st, sv, cur, nm⟩ := top
   obtain ⟨stack, md, pb, pos, dbl, ucs, hs0, q, fl⟩ := t
   obtain ⟨stack', md', pb', pos', dbl', ucs', hs0', q', fl'⟩ := t'
   obtain ⟨e1, e2, e3, e4, hpb, hpos, hdbl, hucs, hq⟩ := $h
   simp only at $hs:ident $hst:ident e1 e2 e3 e4
   subst $hst e1 e2 e3 e4
   subst $hs
   simp [Tok.live, lv, pbLive, posLive, dblLive, ucsLive, quoteLive, via] at hpb hpos hdbl hucs hq
   subst_vars))

local macro "eqv_close" : tactic => `(tactic|
  ((repeat' split) <;>
   simp_all [ActEqv, eqv_iff, setTop, finishWith, Tok.live, lv, pbLive, posLive, dblLive, ucsLive, quoteLive, via,
     Tok.strict, freshLevel]))

theorem dEatws_eqv (h : Eqv t t') (hs : t.stack = top :: rest) (hst : top.state = .eatws) :
    ActEqv (dEatws t l top rest c) (dEatws t' l top rest c) := by
  eqv_open h hs hst
  unfold dEatws
  eqv_close

theorem dStart_eqv (h : Eqv t t') (hs : t.stack = top :: rest) (hst : top.state = .start) :
    ActEqv (dStart t l top rest c) (dStart t' l top rest c) := by
  eqv_open h hs hst
  unfold dStart
  eqv_close

theorem dFinish_eqv (h : Eqv t t') (hs : t.stack = top :: rest) (hst : top.state = .finish) :
    ActEqv (dFinish t l top rest) (dFinish t' l top rest) := by
  eqv_open h hs hst
  unfold dFinish
  eqv_close

theorem dInf_eqv (h : Eqv t t') (hs : t.stack = top :: rest) (hst : top.state = .inf) :
    ActEqv (dInf t l top rest c) (dInf t' l top rest c) := by
  eqv_open h hs hst
  unfold dInf
  eqv_close

theorem dNull_eqv (h : Eqv t t') (hs : t.stack = top :: rest) (hst : top.state = .null) :
    ActEqv (dNull t l top rest c) (dNull t' l top rest c) := by
  eqv_open h hs hst
  unfold dNull
  simp only
  eqv_close

theorem dBoolean_eqv (h : Eqv t t') (hs : t.stack = top :: rest) (hst : top.state = .boolean) :
    ActEqv (dBoolean t l top rest c) (dBoolean t' l top rest c) := by
  eqv_open h hs hst
  unfold dBoolean
  simp only
  eqv_close

theorem dCommentStart_eqv (h : Eqv t t') (hs : t.stack = top :: rest) (hst : top.state = .commentStart) :
    ActEqv (dCommentStart t l top rest c) (dCommentStart t' l top rest c) := by
  eqv_open h hs hst
  unfold dCommentStart
  eqv_close

theorem dComment_eqv (h : Eqv t t') (hs : t.stack = top :: rest) (hst : top.state = .comment) :
    ActEqv (dComment t l top rest c) (dComment t' l top rest c) := by
  eqv_open h hs hst
  unfold dComment
  eqv_close

theorem dCommentEol_eqv (h : Eqv t t') (hs : t.stack = top :: rest) (hst : top.state = .commentEol) :
    ActEqv (dCommentEol t l top rest c) (dCommentEol t' l top rest c) := by
  eqv_open h hs hst
  unfold dCommentEol
  eqv_close

theorem dCommentEnd_eqv (h : Eqv t t') (hs : t.stack = top :: rest) (hst : top.state = .commentEnd) :
    ActEqv (dCommentEnd t l top rest c) (dCommentEnd t' l top rest c) := by
  eqv_open h hs hst
  unfold dCommentEnd
  simp only
  eqv_close

theorem dString_eqv (h : Eqv t t') (hs : t.stack = top :: rest) (hst : top.state = .string) :
    ActEqv (dString t l top rest c) (dString t' l top rest c) := by
  eqv_open h hs hst
  unfold dString
  eqv_close

theorem dObjectField_eqv (h : Eqv t t') (hs : t.stack = top :: rest) (hst : top.state = .objectField) :
    ActEqv (dObjectField t l top rest c) (dObjectField t' l top rest c) := by
  eqv_open h hs hst
  unfold dObjectField
  eqv_close

theorem dStringEscape_eqv (h : Eqv t t') (hs : t.stack = top :: rest) (hst : top.state = .stringEscape) :
    ActEqv (dStringEscape t l top rest c) (dStringEscape t' l top rest c) := by
  eqv_open h hs hst
  unfold dStringEscape
  simp only
  eqv_close

theorem dNeedEscape_eqv (h : Eqv t t') (hs : t.stack = top :: rest) (hst : top.state = .needEscape) :
    ActEqv (dNeedEscape t l top rest c) (dNeedEscape t' l top rest c) := by
  eqv_open h hs hst
  unfold dNeedEscape
  eqv_close

theorem dNeedU_eqv (h : Eqv t t') (hs : t.stack = top :: rest) (hst : top.state = .needU) :
    ActEqv (dNeedU t l top rest c) (dNeedU t' l top rest c) := by
  eqv_open h hs hst
  unfold dNeedU
  eqv_close

theorem dArraySep_eqv (h : Eqv t t') (hs : t.stack = top :: rest) (hst : top.state = .arraySep) :
    ActEqv (dArraySep t l top rest c) (dArraySep t' l top rest c) := by
  eqv_open h hs hst
  unfold dArraySep
  eqv_close

theorem dObjectFieldEnd_eqv (h : Eqv t t') (hs : t.stack = top :: rest) (hst : top.state = .objectFieldEnd) :
    ActEqv (dObjectFieldEnd t l top rest c) (dObjectFieldEnd t' l top rest c) := by
  eqv_open h hs hst
  unfold dObjectFieldEnd
  eqv_close

theorem dObjectSep_eqv (h : Eqv t t') (hs : t.stack = top :: rest) (hst : top.state = .objectSep) :
    ActEqv (dObjectSep t l top rest c) (dObjectSep t' l top rest c) := by
  eqv_open h hs hst
  unfold dObjectSep
  eqv_close

end states

end JsonC.Tokener
