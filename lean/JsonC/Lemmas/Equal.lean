/-
  Helper lemmas for C09 (no property statements): the leaves of json_object_equal against the
  value classes of Spec/Sem.lean, the model's table lookup against the association-list lookup,
  and the two directions of "json_object_equal = equality of denotations" by induction on the tree.
-/
import JsonC.Model.Equal
import JsonC.Lemmas.EqualSort

namespace JsonC.Equal
open JsonC JVal Sem

/-! ### leaves -/

theorem isNaNBits_eq (b : UInt64) : isNaNBits b = Sem.isNaN b := by
  have h := b.toNat_lt
  unfold isNaNBits Sem.isNaN expField mantField
  rw [Bool.eq_iff_iff]
  simp only [decide_eq_true_eq, Bool.and_eq_true, beq_iff_eq, bne_iff_ne, ne_eq, gt_iff_lt]
  omega

theorem isZeroBits_eq (b : UInt64) : isZeroBits b = Sem.isZero b := by
  have h := b.toNat_lt
  unfold isZeroBits Sem.isZero expField mantField
  rw [Bool.eq_iff_iff]
  simp only [Bool.and_eq_true, beq_iff_eq]
  omega

theorem ieeeEq_iff (x y : UInt64) :
    ieeeEq x y = true ↔ dclass x = dclass y ∧ Sem.isNaN x = false := by
  unfold ieeeEq dclass
  rw [isNaNBits_eq, isNaNBits_eq, isZeroBits_eq, isZeroBits_eq]
  cases hx : Sem.isNaN x <;> cases hy : Sem.isNaN y <;> cases zx : Sem.isZero x <;>
    cases zy : Sem.isZero y <;> simp
  · intro h; subst h; simp [zx] at zy
  · intro h; subst h; simp [zx] at zy

theorem wf_int_true (v : Int) :
    wf (.int true v) = true ↔ -9223372036854775808 ≤ v ∧ v ≤ 9223372036854775807 := by
  unfold wf INT64_MIN INT64_MAX
  rw [Bool.and_eq_true, decide_eq_true_iff, decide_eq_true_iff]

theorem wf_int_false (v : Int) : wf (.int false v) = true ↔ 0 ≤ v ∧ v ≤ 18446744073709551615 := by
  unfold wf UINT64_MAX
  rw [Bool.and_eq_true, decide_eq_true_iff, decide_eq_true_iff]

theorem intEq_iff (s1 : Bool) (v1 : Int) (s2 : Bool) (v2 : Int)
    (h1 : wf (.int s1 v1) = true) (h2 : wf (.int s2 v2) = true) :
    intEq s1 v1 s2 v2 = true ↔ v1 = v2 := by
  unfold intEq castU64
  cases s1 <;> cases s2 <;>
    simp only [wf_int_true, wf_int_false] at h1 h2 <;>
    simp only [Bool.false_eq_true, if_false, if_true, Bool.not_false, Bool.not_true, beq_iff_eq]
  · split
    · constructor
      · intro h; cases h
      · intro h; omega
    · simp only [beq_iff_eq]; omega
  · split
    · constructor
      · intro h; cases h
      · intro h; omega
    · simp only [beq_iff_eq]; omega

theorem strEq_iff (s t : Bytes) : strEq s t = true ↔ s = t := by
  unfold strEq memcmpEq
  simp only [Bool.and_eq_true, beq_iff_eq]
  constructor
  · rintro ⟨hl, h⟩
    rw [List.take_length] at h
    rw [hl, List.take_length] at h
    exact h
  · intro h; subst h; simp

/-! ### list forms of the mutual definitions -/

theorem semList_eq : ∀ xs, semList xs = xs.map sem
  | [] => rfl
  | x :: xs => by simp [semList, semList_eq xs]

theorem semMembers_eq : ∀ m, semMembers m = m.map (fun kv => (kv.1, sem kv.2))
  | [] => rfl
  | (k, v) :: m => by simp [semMembers, semMembers_eq m]

theorem keysOf_eq : ∀ m, keysOf m = m.map (·.1)
  | [] => rfl
  | (k, v) :: m => by simp [keysOf, keysOf_eq m]

theorem wfList_iff : ∀ xs, wfList xs = true ↔ ∀ x ∈ xs, wf x = true
  | [] => by simp [wfList]
  | x :: xs => by simp [wfList, wfList_iff xs]

theorem wfMembers_iff : ∀ m, wfMembers m = true ↔ ∀ kv ∈ m, nulFree kv.1 = true ∧ wf kv.2 = true
  | [] => by simp [wfMembers]
  | (k, v) :: m => by simp [wfMembers, wfMembers_iff m, and_assoc]

theorem nanFreeList_iff : ∀ xs, nanFreeList xs = true ↔ ∀ x ∈ xs, nanFree x = true
  | [] => by simp [nanFreeList]
  | x :: xs => by simp [nanFreeList, nanFreeList_iff xs]

theorem nanFreeMembers_iff : ∀ m, nanFreeMembers m = true ↔ ∀ kv ∈ m, nanFree kv.2 = true
  | [] => by simp [nanFreeMembers]
  | (k, v) :: m => by simp [nanFreeMembers, nanFreeMembers_iff m]

theorem keysNodup_iff : ∀ ks, keysNodup ks = true ↔ ks.Nodup
  | [] => by simp [keysNodup]
  | k :: ks => by simp [keysNodup, keysNodup_iff ks]

theorem wf_arr (xs : List JVal) : wf (.arr xs) = true ↔ ∀ x ∈ xs, wf x = true := by
  simp only [wf]; exact wfList_iff xs

theorem wf_obj (m : List (Bytes × JVal)) :
    wf (.obj m) = true ↔ (∀ kv ∈ m, nulFree kv.1 = true ∧ wf kv.2 = true) ∧ KeysNodup m := by
  simp only [wf]
  unfold KeysNodup
  rw [Bool.and_eq_true, wfMembers_iff, keysNodup_iff, keysOf_eq]

theorem keysNodup_semMembers (m : List (Bytes × JVal)) : KeysNodup (semMembers m) ↔ KeysNodup m := by
  unfold KeysNodup
  rw [semMembers_eq, List.map_map]
  rfl

theorem lookupKV_semMembers (k : Bytes) : ∀ m, lookupKV k (semMembers m) = (lookupKV k m).map sem
  | [] => rfl
  | (k', v) :: m => by
    unfold semMembers lookupKV
    by_cases h : k' = k
    · simp [h]
    · simp [h, lookupKV_semMembers k m]

/-! ### lh_table_lookup_ex on the member list -/

theorem lookupIdx_none (k : Bytes) : ∀ m i, lookupIdx k m i = none ↔ lookupKV k m = none
  | [], _ => by simp [lookupIdx, lookupKV]
  | (k', v) :: m, i => by
    unfold lookupIdx lookupKV
    by_cases h : k' = k
    · simp [h]
    · simp [h, lookupIdx_none k m (i + 1)]

theorem lookupIdx_some (k : Bytes) : ∀ m i j v, lookupIdx k m i = some (j, v) →
    lookupKV k m = some v ∧ i ≤ j ∧ m[j - i]?.map (·.2) = some v
  | [], _, _, _, h => by simp [lookupIdx] at h
  | (k', v') :: m, i, j, v, h => by
    unfold lookupIdx at h
    unfold lookupKV
    by_cases hk : k' = k
    · simp only [hk, beq_self_eq_true, if_true, Option.some.injEq, Prod.mk.injEq] at h
      obtain ⟨rfl, rfl⟩ := h
      simp [hk]
    · have hb : (k' == k) = false := by simpa using hk
      rw [hb] at h
      simp only [Bool.false_eq_true, if_false] at h
      obtain ⟨h1, h2, h3⟩ := lookupIdx_some k m (i + 1) j v h
      refine ⟨by simp [hk, h1], by omega, ?_⟩
      have : j - i = (j - (i + 1)) + 1 := by omega
      rw [this, List.getElem?_cons_succ]
      exact h3

theorem lookupIdx_of_lookupKV (k : Bytes) : ∀ m i v, lookupKV k m = some v →
    ∃ j, lookupIdx k m i = some (j, v)
  | [], _, _, h => by simp [lookupKV] at h
  | (k', v') :: m, i, v, h => by
    unfold lookupKV at h
    unfold lookupIdx
    by_cases hk : k' = k
    · simp only [hk, if_true, Option.some.injEq] at h
      subst h
      exact ⟨i, by simp [hk]⟩
    · rw [if_neg hk] at h
      obtain ⟨j, hj⟩ := lookupIdx_of_lookupKV k m (i + 1) v h
      exact ⟨j, by simp [hk, hj]⟩

theorem keysAllIn_iff : ∀ m2 m1, keysAllIn m2 m1 = true ↔ ∀ kv ∈ m2, lookupKV kv.1 m1 ≠ none
  | [], _ => by simp [keysAllIn]
  | (k, v) :: m2, m1 => by
    unfold keysAllIn
    rw [Bool.and_eq_true, keysAllIn_iff m2 m1]
    have : (lookupIdx k m1 0).isSome = true ↔ lookupKV k m1 ≠ none := by
      cases e : lookupIdx k m1 0 with
      | none => simp [(lookupIdx_none k m1 0).1 e]
      | some jv =>
        have := (lookupIdx_some k m1 0 jv.1 jv.2 e).1
        simp [this]
    rw [this]
    simp

/-! ### unfolding json_object_equal -/

theorem equalElems_cons (same : Same) (i : Nat) (x : JVal) (xs ys : List JVal) :
    equalElems same i (x :: xs) ys =
      (equalP (same.shift i i) x (ys.headD .null) && equalElems same (i + 1) xs ys.tail) := by
  simp [equalElems, equalP]

theorem shift_none (i j : Nat) : Same.none.shift i j = Same.none := rfl

theorem ptrEq_sound (same : Same) (a b : JVal) (hs : same.Sound a b) (h : ptrEq same a b = true) :
    a = b := by
  cases a <;> cases b <;> simp [ptrEq] at h <;> first | rfl | exact hs [] [] _ _ rfl rfl h

theorem sound_child (same : Same) (a b x y : JVal) (i j : Nat) (hs : same.Sound a b)
    (hx : child a i = some x) (hy : child b j = some y) : (same.shift i j).Sound x y := by
  intro p q x' y' hx' hy' h
  apply hs (i :: p) (j :: q) x' y' _ _ h
  · simp [nodeAt, hx, hx']
  · simp [nodeAt, hy, hy']

theorem sound_none (a b : JVal) : Same.none.Sound a b := by
  intro p q x y _ _ h; cases h

/-! ### completeness: equal denotations without NaN compare equal, whatever the oracle -/

theorem equalP_complete : ∀ a : JVal, ∀ (b : JVal) (same : Same), wf a = true → wf b = true →
    sem a = sem b → nanFree a = true → equalP same a b = true := by
  intro a
  induction a using JVal.induct with
  | hnull => intro b same _ _ h _; cases b <;> simp [sem] at h; simp [equalP, ptrEq]
  | hbool x => intro b same _ _ h _; cases b <;> simp [sem] at h; simp [equalP, equalK, h]
  | hint s v =>
    intro b same h1 h2 h _
    cases b with
    | int s2 v2 =>
      simp only [sem, Sem.num.injEq] at h
      have := (intEq_iff s v s2 v2 h1 h2).2 h
      simp [equalP, equalK, this]
    | _ => simp [sem] at h
  | hdbl x t =>
    intro b same _ _ h hn
    cases b with
    | dbl y t2 =>
      simp only [sem, Sem.dbl.injEq] at h
      have : ieeeEq x y = true := (ieeeEq_iff x y).2 ⟨h, by simpa [nanFree] using hn⟩
      simp [equalP, equalK, this]
    | _ => simp [sem] at h
  | hstr s =>
    intro b same _ _ h _
    cases b <;> simp [sem] at h
    subst h
    simp [equalP, equalK, (strEq_iff s s).2 rfl]
  | harr xs ih =>
    intro b same h1 h2 h hn
    cases b <;> simp [sem] at h
    rename_i ys
    rw [wf_arr] at h1 h2
    have hn' : ∀ x ∈ xs, nanFree x = true := (nanFreeList_iff xs).1 (by simpa [nanFree] using hn)
    have key : ∀ (xs' ys' : List JVal) (i : Nat), (∀ x ∈ xs', x ∈ xs) → (∀ y ∈ ys', y ∈ ys) →
        semList xs' = semList ys' → equalElems same i xs' ys' = true := by
      intro xs'
      induction xs' with
      | nil => intro ys' i _ _ _; simp [equalElems]
      | cons x xs' ihx =>
        intro ys' i hx hy hs
        cases ys' with
        | nil => simp [semList] at hs
        | cons y ys' =>
          simp only [semList, List.cons.injEq] at hs
          rw [equalElems_cons]
          simp only [List.headD_cons, List.tail_cons, Bool.and_eq_true]
          refine ⟨ih x (hx x (by simp)) y _ (h1 x (hx x (by simp))) (h2 y (hy y (by simp))) hs.1
            (hn' x (hx x (by simp))), ?_⟩
          exact ihx ys' (i + 1) (fun z hz => hx z (List.mem_cons_of_mem _ hz))
            (fun z hz => hy z (List.mem_cons_of_mem _ hz)) hs.2
    have hl : xs.length = ys.length := by
      have := congrArg List.length h
      simpa [semList_eq] using this
    have := key xs ys 0 (fun _ h => h) (fun _ h => h) h
    simp [equalP, equalK, hl, this]
  | hobj m1 ih =>
    intro b same h1 h2 h hn
    cases b <;> simp [sem] at h
    rename_i m2
    rw [wf_obj] at h1 h2
    have hn' : ∀ kv ∈ m1, nanFree kv.2 = true := (nanFreeMembers_iff m1).1 (by simpa [nanFree] using hn)
    have HL : ∀ k, (lookupKV k m1).map sem = (lookupKV k m2).map sem := by
      intro k
      rw [← lookupKV_semMembers, ← lookupKV_semMembers]
      exact (sortKV_eq_iff _ _ ((keysNodup_semMembers m1).2 h1.2) ((keysNodup_semMembers m2).2 h2.2)).1 h k
    have key : ∀ (l : List (Bytes × JVal)) (i : Nat), (∀ kv ∈ l, kv ∈ m1) →
        allValues same i l m2 = true := by
      intro l
      induction l with
      | nil => intro i _; simp [allValues]
      | cons kv rest ihl =>
        intro i hl
        obtain ⟨k, v⟩ := kv
        have hm : (k, v) ∈ m1 := hl _ (by simp)
        have e1 := lookupKV_of_mem k v m1 h1.2 hm
        have e2 := HL k
        rw [e1] at e2
        cases e3 : lookupKV k m2 with
        | none => rw [e3] at e2; simp at e2
        | some v2 =>
          rw [e3] at e2
          simp only [Option.map_some, Option.some.injEq] at e2
          obtain ⟨j, hj⟩ := lookupIdx_of_lookupKV k m2 0 v2 e3
          have hm2 := mem_of_lookupKV _ _ _ e3
          unfold allValues
          simp only [hj, Bool.and_eq_true]
          refine ⟨?_, ihl (i + 1) (fun z hz => hl z (List.mem_cons_of_mem _ hz))⟩
          exact ih (k, v) hm v2 _ (h1.1 _ hm).2 (h2.1 _ hm2).2 e2 (hn' _ hm)
    have k2 : keysAllIn m2 m1 = true := by
      rw [keysAllIn_iff]
      intro kv hkv e
      have e2 := HL kv.1
      rw [e] at e2
      have : lookupKV kv.1 m2 = none := by
        cases e3 : lookupKV kv.1 m2 with
        | none => rfl
        | some _ => rw [e3] at e2; simp at e2
      exact (lookupKV_eq_none _ _).1 this kv hkv rfl
    have := key m1 0 (fun _ h => h)
    simp [equalP, equalK, this, k2]

/-! ### soundness: what json_object_equal accepts has equal denotations (for a sound oracle) -/

theorem equalElems_sound (same : Same) : ∀ (xs ys : List JVal) (i : Nat), xs.length = ys.length →
    equalElems same i xs ys = true →
    ∀ n x y, xs[n]? = some x → ys[n]? = some y → equalP (same.shift (i + n) (i + n)) x y = true
  | [], _, _, _, _ => by intro n x y h; simp at h
  | x :: xs, [], _, hl, _ => by simp at hl
  | x :: xs, y :: ys, i, hl, h => by
    rw [equalElems_cons] at h
    simp only [List.headD_cons, List.tail_cons, Bool.and_eq_true] at h
    intro n x' y' hx hy
    cases n with
    | zero =>
      simp only [List.getElem?_cons_zero, Option.some.injEq] at hx hy
      subst hx; subst hy
      exact h.1
    | succ n =>
      simp only [List.getElem?_cons_succ] at hx hy
      have := equalElems_sound same xs ys (i + 1) (by simpa using hl) h.2 n x' y' hx hy
      have e : i + 1 + n = i + (n + 1) := by omega
      rw [e] at this
      exact this

theorem allValues_sound (same : Same) (m2 : List (Bytes × JVal)) : ∀ (l : List (Bytes × JVal)) (i : Nat),
    allValues same i l m2 = true →
    ∀ n kv, l[n]? = some kv → ∃ j v2, lookupIdx kv.1 m2 0 = some (j, v2) ∧
      equalP (same.shift (i + n) j) kv.2 v2 = true
  | [], _, _ => by intro n kv h; simp at h
  | (k, v) :: rest, i, h => by
    unfold allValues at h
    intro n kv hn
    cases e : lookupIdx k m2 0 with
    | none => simp [e] at h
    | some jv =>
      obtain ⟨j, v2⟩ := jv
      simp only [e, Bool.and_eq_true] at h
      cases n with
      | zero =>
        simp only [List.getElem?_cons_zero, Option.some.injEq] at hn
        subst hn
        exact ⟨j, v2, e, by simpa [equalP] using h.1⟩
      | succ n =>
        simp only [List.getElem?_cons_succ] at hn
        obtain ⟨j', v2', h1, h2⟩ := allValues_sound same m2 rest (i + 1) h.2 n kv hn
        have e' : i + 1 + n = i + (n + 1) := by omega
        rw [e'] at h2
        exact ⟨j', v2', h1, h2⟩

theorem equalP_sound : ∀ a : JVal, ∀ (b : JVal) (same : Same), same.Sound a b → wf a = true →
    wf b = true → equalP same a b = true → sem a = sem b := by
  intro a
  induction a using JVal.induct with
  | hnull =>
    intro b same _ _ _ h
    cases b <;> simp [equalP, ptrEq, equalK] at h
    rfl
  | hbool x =>
    intro b same hs _ _ h
    unfold equalP at h
    rw [Bool.or_eq_true] at h
    rcases h with h | h
    · rw [ptrEq_sound same _ _ hs h]
    · cases b <;> simp [equalK] at h
      simp [sem, h]
  | hint s v =>
    intro b same hs h1 h2 h
    unfold equalP at h
    rw [Bool.or_eq_true] at h
    rcases h with h | h
    · rw [ptrEq_sound same _ _ hs h]
    · cases b with
      | int s2 v2 =>
        simp only [equalK] at h
        simp [sem, (intEq_iff s v s2 v2 h1 h2).1 h]
      | _ => simp [equalK] at h
  | hdbl x t =>
    intro b same hs _ _ h
    unfold equalP at h
    rw [Bool.or_eq_true] at h
    rcases h with h | h
    · rw [ptrEq_sound same _ _ hs h]
    · cases b with
      | dbl y t2 =>
        simp only [equalK] at h
        simp [sem, ((ieeeEq_iff x y).1 h).1]
      | _ => simp [equalK] at h
  | hstr s =>
    intro b same hs _ _ h
    unfold equalP at h
    rw [Bool.or_eq_true] at h
    rcases h with h | h
    · rw [ptrEq_sound same _ _ hs h]
    · cases b <;> simp [equalK] at h
      simp [sem, (strEq_iff _ _).1 h]
  | harr xs ih =>
    intro b same hs h1 h2 h
    unfold equalP at h
    rw [Bool.or_eq_true] at h
    rcases h with h | h
    · rw [ptrEq_sound same _ _ hs h]
    · cases b <;> simp [equalK] at h
      rename_i ys
      rw [wf_arr] at h1 h2
      have hel := equalElems_sound same xs ys 0 h.1 h.2
      simp only [sem, Sem.arr.injEq, semList_eq]
      apply List.ext_getElem?
      intro n
      simp only [List.getElem?_map]
      cases hx : xs[n]? with
      | none =>
        have : ys[n]? = none := by
          rw [List.getElem?_eq_none_iff] at hx ⊢; omega
        simp [this]
      | some x =>
        have hlt : n < ys.length := by
          have := (List.getElem?_eq_some_iff.1 hx).1; omega
        have hy : ys[n]? = some ys[n] := List.getElem?_eq_getElem hlt
        rw [hy]
        simp only [Option.map_some, Option.some.injEq]
        have hxm : x ∈ xs := List.mem_of_getElem? hx
        have hym : ys[n] ∈ ys := List.getElem_mem hlt
        have e := hel n x ys[n] hx hy
        simp only [Nat.zero_add] at e
        exact ih x hxm ys[n] _ (sound_child same _ _ x ys[n] n n hs (by simpa [child] using hx)
          (by simp [child])) (h1 x hxm) (h2 _ hym) e
  | hobj m1 ih =>
    intro b same hs h1 h2 h
    unfold equalP at h
    rw [Bool.or_eq_true] at h
    rcases h with h | h
    · rw [ptrEq_sound same _ _ hs h]
    · cases b <;> simp [equalK] at h
      rename_i m2
      rw [wf_obj] at h1 h2
      have hav := allValues_sound same m2 m1 0 h.1
      have hk := (keysAllIn_iff m2 m1).1 h.2
      simp only [sem, Sem.obj.injEq]
      rw [sortKV_eq_iff _ _ ((keysNodup_semMembers m1).2 h1.2) ((keysNodup_semMembers m2).2 h2.2)]
      intro k
      rw [lookupKV_semMembers, lookupKV_semMembers]
      cases e1 : lookupKV k m1 with
      | some v =>
        have hm := mem_of_lookupKV _ _ _ e1
        obtain ⟨n, hn⟩ := List.getElem?_of_mem hm
        obtain ⟨j, v2, hj, he⟩ := hav n (k, v) hn
        simp only [Nat.zero_add] at he
        obtain ⟨e2, _, e3⟩ := lookupIdx_some k m2 0 j v2 hj
        rw [e2]
        simp only [Option.map_some, Option.some.injEq]
        have hm2 := mem_of_lookupKV _ _ _ e2
        exact ih (k, v) hm v2 _ (sound_child same _ _ v v2 n j hs (by simp [child, hn])
          (by simpa [child] using e3)) (h1.1 _ hm).2 (h2.1 _ hm2).2 he
      | none =>
        cases e2 : lookupKV k m2 with
        | none => rfl
        | some v2 =>
          exfalso
          have hm2 := mem_of_lookupKV _ _ _ e2
          exact hk (k, v2) hm2 e1

/-! ### without a common node, a NaN on the left makes the comparison fail -/

theorem equal_nanFree : ∀ a b : JVal, equalP Same.none a b = true → nanFree a = true := by
  intro a
  induction a using JVal.induct with
  | hnull => intro b _; rfl
  | hbool x => intro b _; rfl
  | hint s v => intro b _; rfl
  | hstr s => intro b _; rfl
  | hdbl x t =>
    intro b h
    cases b <;> simp [equalP, ptrEq, equalK, Same.none] at h
    simp [nanFree, ((ieeeEq_iff _ _).1 h).2]
  | harr xs ih =>
    intro b h
    cases b <;> simp [equalP, ptrEq, equalK, Same.none] at h
    rename_i ys
    have hel := equalElems_sound Same.none xs ys 0 h.1 h.2
    simp only [nanFree]
    rw [nanFreeList_iff]
    intro x hx
    obtain ⟨n, hn⟩ := List.getElem?_of_mem hx
    have hlt : n < ys.length := by
      have := (List.getElem?_eq_some_iff.1 hn).1; omega
    exact ih x hx ys[n] (hel n x ys[n] hn (List.getElem?_eq_getElem hlt))
  | hobj m1 ih =>
    intro b h
    cases b <;> simp [equalP, ptrEq, equalK, Same.none] at h
    rename_i m2
    have hav := allValues_sound Same.none m2 m1 0 h.1
    simp only [nanFree]
    rw [nanFreeMembers_iff]
    intro kv hkv
    obtain ⟨n, hn⟩ := List.getElem?_of_mem hkv
    obtain ⟨j, v2, _, he⟩ := hav n kv hn
    exact ih kv hkv v2 he

/-! ### deep copy -/

theorem strdup_nulFree (t : Bytes) (h : nulFree t = true) : strdup t = t := by
  unfold strdup
  unfold nulFree at h
  induction t with
  | nil => rfl
  | cons b t ih =>
    simp only [List.contains_cons, Bool.not_eq_true', Bool.or_eq_false_iff, beq_eq_false_iff_ne,
      ne_eq] at h
    rw [List.takeWhile_cons]
    have : (b != 0) = true := by simpa using fun e => h.1 e.symm
    rw [this]
    simp only [if_true, List.cons.injEq, true_and]
    exact ih (by simpa using h.2)

theorem objAdd_new (kvs : List (Bytes × JVal)) (k : Bytes) (v : JVal) (hk : nulFree k = true)
    (hn : ∀ kv ∈ kvs, kv.1 ≠ k) : objAdd kvs k v = kvs ++ [(k, v)] := by
  unfold objAdd
  rw [strdup_nulFree k hk]
  have : kvs.any (fun x => x.1 == k) = false := by
    rw [List.any_eq_false]
    intro kv hkv
    simpa using hn kv hkv
  simp [this]

theorem copyElems_cons (x : JVal) (xs acc : List JVal) (h : x ≠ .null → copyRec x = .ok x) :
    copyElems (x :: xs) acc = copyElems xs (acc ++ [x]) := by
  cases x <;> simp [copyElems, h]

theorem copyMembers_cons (k : Bytes) (v : JVal) (rest acc : List (Bytes × JVal))
    (h : v ≠ .null → copyRec v = .ok v) :
    copyMembers ((k, v) :: rest) acc = copyMembers rest (objAdd acc k v) := by
  cases v <;> simp [copyMembers, h]

theorem copyElems_id : ∀ (xs : List JVal), (∀ x ∈ xs, x ≠ .null → copyRec x = .ok x) →
    ∀ acc, copyElems xs acc = .ok (acc ++ xs)
  | [], _, acc => by simp [copyElems]
  | x :: xs, ih, acc => by
    rw [copyElems_cons x xs acc (ih x (by simp))]
    rw [copyElems_id xs (fun z hz => ih z (List.mem_cons_of_mem _ hz))]
    simp

theorem copyMembers_id : ∀ (l : List (Bytes × JVal)),
    (∀ kv ∈ l, kv.2 ≠ .null → copyRec kv.2 = .ok kv.2) → (∀ kv ∈ l, nulFree kv.1 = true) →
    KeysNodup l → ∀ acc : List (Bytes × JVal), (∀ a ∈ acc, ∀ kv ∈ l, a.1 ≠ kv.1) →
    copyMembers l acc = .ok (acc ++ l)
  | [], _, _, _, acc, _ => by simp [copyMembers]
  | (k, v) :: rest, ih, hk, hn, acc, hd => by
    rw [copyMembers_cons k v rest acc (ih (k, v) (by simp))]
    rw [objAdd_new acc k v (hk (k, v) (by simp)) (fun a ha => hd a ha (k, v) (by simp))]
    unfold KeysNodup at hn
    simp only [List.map_cons, List.nodup_cons, List.mem_map, not_exists, not_and] at hn
    rw [copyMembers_id rest (fun z hz => ih z (List.mem_cons_of_mem _ hz))
      (fun z hz => hk z (List.mem_cons_of_mem _ hz)) hn.2]
    · simp
    · intro a ha kv hkv
      rw [List.mem_append] at ha
      rcases ha with ha | ha
      · exact hd a ha kv (List.mem_cons_of_mem _ hkv)
      · simp only [List.mem_singleton] at ha
        subst ha
        exact fun e => hn.1 kv hkv e.symm

/-- on a tree the API can build, the copy is node for node the source -/
theorem copyRec_id : ∀ v : JVal, wf v = true → v ≠ .null → copyRec v = .ok v := by
  intro v
  induction v using JVal.induct with
  | hnull => intro _ h; exact absurd rfl h
  | hbool b => intro _ _; rfl
  | hint s x => intro _ _; rfl
  | hdbl b t =>
    intro h _
    cases t with
    | none => rfl
    | some t =>
      simp only [wf] at h
      simp [copyRec, copySerializerData, strdup_nulFree t h]
  | hstr s => intro _ _; simp [copyRec]
  | harr xs ih =>
    intro h _
    rw [wf_arr] at h
    unfold copyRec
    rw [copyElems_id xs (fun x hx hne => ih x hx (h x hx) hne)]
    rfl
  | hobj m ih =>
    intro h _
    rw [wf_obj] at h
    unfold copyRec
    rw [copyMembers_id m (fun kv hkv hne => ih kv hkv (h.1 kv hkv).2 hne) (fun kv hkv => (h.1 kv hkv).1)
      h.2 [] (by simp)]
    rfl

theorem strdup_is_nulFree : ∀ t : Bytes, nulFree (strdup t) = true
  | [] => rfl
  | b :: t => by
    unfold strdup
    rw [List.takeWhile_cons]
    by_cases h : b = 0
    · simp [h, nulFree]
    · have hb : (b != 0) = true := by simpa using h
      rw [hb]
      have ih := strdup_is_nulFree t
      unfold strdup nulFree at ih
      simp only [if_true, nulFree, List.contains_cons, Bool.not_eq_true', Bool.or_eq_false_iff,
        beq_eq_false_iff_ne, ne_eq]
      exact ⟨fun e => h e.symm, by simpa using ih⟩

/-- json_object_object_add keeps an object well-formed -/
theorem objAdd_wf (m : List (Bytes × JVal)) (k : Bytes) (v : JVal)
    (h : (∀ kv ∈ m, nulFree kv.1 = true ∧ wf kv.2 = true) ∧ KeysNodup m) (hv : wf v = true) :
    (∀ kv ∈ objAdd m k v, nulFree kv.1 = true ∧ wf kv.2 = true) ∧ KeysNodup (objAdd m k v) := by
  unfold objAdd
  simp only []
  by_cases ha : m.any (fun x => x.1 == strdup k) = true
  · rw [if_pos ha]
    constructor
    · intro kv hkv
      rw [List.mem_map] at hkv
      obtain ⟨kv0, hm, e⟩ := hkv
      by_cases hk : (kv0.1 == strdup k) = true
      · rw [if_pos hk] at e; subst e; exact ⟨(h.1 kv0 hm).1, hv⟩
      · rw [if_neg hk] at e; subst e; exact h.1 kv0 hm
    · unfold KeysNodup
      rw [List.map_map]
      have : ((fun x : Bytes × JVal => x.1) ∘ fun kv => if (kv.1 == strdup k) = true then (kv.1, v) else kv) =
          fun x => x.1 := by
        funext kv
        simp only [Function.comp]
        split <;> rfl
      rw [this]
      exact h.2
  · rw [if_neg ha]
    have hn : ∀ kv ∈ m, kv.1 ≠ strdup k := by
      have : m.any (fun x => x.1 == strdup k) = false := by
        cases e : m.any (fun x => x.1 == strdup k) with
        | false => rfl
        | true => exact absurd e ha
      rw [List.any_eq_false] at this
      intro kv hkv
      simpa using this kv hkv
    constructor
    · intro kv hkv
      rw [List.mem_append, List.mem_singleton] at hkv
      rcases hkv with hkv | rfl
      · exact h.1 kv hkv
      · exact ⟨strdup_is_nulFree k, hv⟩
    · unfold KeysNodup
      rw [List.map_append, List.nodup_append]
      refine ⟨h.2, by simp, ?_⟩
      intro a ha b hb
      simp only [List.map_cons, List.map_nil, List.mem_singleton] at hb
      rw [List.mem_map] at ha
      obtain ⟨kv, hkv, e⟩ := ha
      subst hb; subst e
      exact hn kv hkv

/-! ### well-formedness = built through the API -/

theorem built_wf {v : JVal} (h : Built v) : WF v := by
  unfold WF
  induction h with
  | null => rfl
  | boolean b => rfl
  | int64 v h => simp only [wf, Bool.and_eq_true, decide_eq_true_eq]; exact h
  | uint64 v h => simp only [wf, Bool.and_eq_true, decide_eq_true_eq]; exact h
  | double b => rfl
  | doubleS b t h => simpa [wf] using h
  | string s => rfl
  | newArray => rfl
  | arrayAdd xs x _ _ ih1 ih2 =>
    rw [wf_arr] at ih1 ⊢
    intro y hy
    rw [List.mem_append, List.mem_singleton] at hy
    rcases hy with hy | rfl
    · exact ih1 y hy
    · exact ih2
  | newObject => rfl
  | objectAdd m k v _ _ ih1 ih2 =>
    rw [wf_obj] at ih1 ⊢
    exact objAdd_wf m k v ih1 ih2

theorem wf_built : ∀ v : JVal, WF v → Built v := by
  intro v
  unfold WF
  induction v using JVal.induct with
  | hnull => intro _; exact .null
  | hbool b => intro _; exact .boolean b
  | hint s v =>
    intro h
    cases s with
    | true => exact .int64 v (by simpa [wf] using h)
    | false => exact .uint64 v (by simpa [wf] using h)
  | hdbl b t =>
    intro h
    cases t with
    | none => exact .double b
    | some t => exact .doubleS b t (by simpa [wf] using h)
  | hstr s => intro _; exact .string s
  | harr xs ih =>
    intro h
    rw [wf_arr] at h
    have key : ∀ (l acc : List JVal), (∀ x ∈ l, x ∈ xs) → Built (.arr acc) → Built (.arr (acc ++ l)) := by
      intro l
      induction l with
      | nil => intro acc _ hb; simpa using hb
      | cons x l ihl =>
        intro acc hl hb
        have hx := hl x (by simp)
        have := ihl (acc ++ [x]) (fun z hz => hl z (List.mem_cons_of_mem _ hz))
          (.arrayAdd acc x hb (ih x hx (h x hx)))
        simpa using this
    simpa using key xs [] (fun _ h => h) .newArray
  | hobj m ih =>
    intro h
    rw [wf_obj] at h
    have key : ∀ (l acc : List (Bytes × JVal)), (∀ kv ∈ l, kv ∈ m) → KeysNodup l →
        (∀ a ∈ acc, ∀ kv ∈ l, a.1 ≠ kv.1) → Built (.obj acc) → Built (.obj (acc ++ l)) := by
      intro l
      induction l with
      | nil => intro acc _ _ _ hb; simpa using hb
      | cons kv l ihl =>
        intro acc hl hn hd hb
        obtain ⟨k, v⟩ := kv
        have hm := hl (k, v) (by simp)
        unfold KeysNodup at hn
        simp only [List.map_cons, List.nodup_cons, List.mem_map, not_exists, not_and] at hn
        have hb' := Built.objectAdd acc k v hb (ih (k, v) hm (h.1 _ hm).2)
        rw [objAdd_new acc k v (h.1 _ hm).1 (fun a ha => hd a ha (k, v) (by simp))] at hb'
        have := ihl (acc ++ [(k, v)]) (fun z hz => hl z (List.mem_cons_of_mem _ hz)) hn.2 (by
          intro a ha kv hkv
          rw [List.mem_append, List.mem_singleton] at ha
          rcases ha with ha | rfl
          · exact hd a ha kv (List.mem_cons_of_mem _ hkv)
          · exact fun e => hn.1 kv hkv e.symm) hb'
        simpa using this
    simpa using key m [] (fun _ h => h) h.2 (by simp) .newObject

/-! ### NaN-freeness and permutations on the spec side -/

theorem nanFree_of_sem_eq : ∀ (a b : JVal), sem a = sem b → nanFree a = nanFree b := by
  intro a
  induction a using JVal.induct with
  | hnull => intro b h; cases b <;> simp [sem] at h; rfl
  | hbool x => intro b h; cases b <;> simp [sem] at h; rfl
  | hint s v => intro b h; cases b <;> simp [sem] at h; rfl
  | hstr s => intro b h; cases b <;> simp [sem] at h; rfl
  | hdbl x t =>
    intro b h
    cases b with
    | dbl y t2 =>
      simp only [sem, Sem.dbl.injEq] at h
      simp only [nanFree]
      unfold dclass at h
      cases hx : Sem.isNaN x <;> cases hy : Sem.isNaN y <;> simp [hx, hy] at h ⊢
      · split at h <;> cases h
      · split at h <;> cases h
    | _ => simp [sem] at h
  | harr xs ih =>
    intro b h
    cases b with
    | arr ys =>
      simp only [sem, Sem.arr.injEq] at h
      simp only [nanFree]
      induction xs generalizing ys with
      | nil => cases ys <;> simp [semList] at h; rfl
      | cons x xs ihx =>
        cases ys with
        | nil => simp [semList] at h
        | cons y ys =>
          simp only [semList, List.cons.injEq] at h
          simp only [nanFreeList]
          rw [ih x (by simp) y h.1, ihx (fun z hz => ih z (List.mem_cons_of_mem _ hz)) ys h.2]
    | _ => simp [sem] at h
  | hobj m ih =>
    intro b h
    cases b with
    | obj m2 =>
      simp only [sem, Sem.obj.injEq] at h
      simp only [nanFree]
      -- both sides: "every value bound in the sorted list is NaN-free"
      rw [Bool.eq_iff_iff, nanFreeMembers_iff, nanFreeMembers_iff]
      have hmem : ∀ (l : List (Bytes × JVal)) (ks : Bytes × Sem),
          ks ∈ semMembers l ↔ ∃ kv ∈ l, ks = (kv.1, sem kv.2) := by
        intro l ks; rw [semMembers_eq]; simp [eq_comm]
      constructor
      · intro hm kv2 hkv2
        have : (kv2.1, sem kv2.2) ∈ sortKV (semMembers m) := by
          rw [h, mem_sortKV, hmem]; exact ⟨kv2, hkv2, rfl⟩
        rw [mem_sortKV, hmem] at this
        obtain ⟨kv, hkv, e⟩ := this
        simp only [Prod.mk.injEq] at e
        rw [← ih kv hkv kv2.2 e.2.symm]
        exact hm kv hkv
      · intro hm kv hkv
        have : (kv.1, sem kv.2) ∈ sortKV (semMembers m2) := by
          rw [← h, mem_sortKV, hmem]; exact ⟨kv, hkv, rfl⟩
        rw [mem_sortKV, hmem] at this
        obtain ⟨kv2, hkv2, e⟩ := this
        simp only [Prod.mk.injEq] at e
        rw [ih kv hkv kv2.2 e.2]
        exact hm kv2 hkv2
    | _ => simp [sem] at h

theorem semEq_symm (a b : JVal) (h : SemEq a b) : SemEq b a :=
  ⟨h.1.symm, by rw [← nanFree_of_sem_eq a b h.1]; exact h.2⟩

theorem wf_obj_perm (m1 m2 : List (Bytes × JVal)) (hp : m1.Perm m2) (h : WF (.obj m1)) : WF (.obj m2) := by
  unfold WF at h ⊢
  rw [wf_obj] at h ⊢
  refine ⟨fun kv hkv => h.1 kv (hp.mem_iff.mpr hkv), ?_⟩
  have := h.2
  unfold KeysNodup at this ⊢
  exact (hp.map _).nodup_iff.mp this

theorem sem_obj_perm (m1 m2 : List (Bytes × JVal)) (hp : m1.Perm m2) (h : WF (.obj m1)) :
    sem (.obj m1) = sem (.obj m2) := by
  have h2 := wf_obj_perm m1 m2 hp h
  unfold WF at h h2
  rw [wf_obj] at h h2
  simp only [sem, Sem.obj.injEq]
  rw [sortKV_eq_iff _ _ ((keysNodup_semMembers m1).2 h.2) ((keysNodup_semMembers m2).2 h2.2)]
  intro k
  rw [lookupKV_semMembers, lookupKV_semMembers, lookupKV_perm m1 m2 hp h.2 k]

theorem nodeIds_root (root : Nat) (v : JVal) : ∀ id ∈ nodeIds root v, id.1 = root := by
  suffices h : ∀ v p, ∀ id ∈ nodeIds.go root p v, id.1 = root from h v []
  intro v
  induction v using JVal.induct with
  | hnull => intro p id h; simp [nodeIds.go] at h
  | hbool b => intro p id h; simp [nodeIds.go] at h; rw [h]
  | hint s x => intro p id h; simp [nodeIds.go] at h; rw [h]
  | hdbl b t => intro p id h; simp [nodeIds.go] at h; rw [h]
  | hstr s => intro p id h; simp [nodeIds.go] at h; rw [h]
  | harr xs ih =>
    intro p id h
    simp only [nodeIds.go, List.mem_cons] at h
    rcases h with h | h
    · rw [h]
    · have key : ∀ (l : List JVal) (i : Nat), (∀ x ∈ l, x ∈ xs) → ∀ id ∈ nodeIds.goList root p i l, id.1 = root := by
        intro l
        induction l with
        | nil => intro i _ id h; simp [nodeIds.goList] at h
        | cons x l ihl =>
          intro i hl id h
          simp only [nodeIds.goList, List.mem_append] at h
          rcases h with h | h
          · exact ih x (hl x (by simp)) _ id h
          · exact ihl (i + 1) (fun z hz => hl z (List.mem_cons_of_mem _ hz)) id h
      exact key xs 0 (fun _ h => h) id h
  | hobj m ih =>
    intro p id h
    simp only [nodeIds.go, List.mem_cons] at h
    rcases h with h | h
    · rw [h]
    · have key : ∀ (l : List (Bytes × JVal)) (i : Nat), (∀ x ∈ l, x ∈ m) →
          ∀ id ∈ nodeIds.goMembers root p i l, id.1 = root := by
        intro l
        induction l with
        | nil => intro i _ id h; simp [nodeIds.goMembers] at h
        | cons x l ihl =>
          intro i hl id h
          obtain ⟨k, v⟩ := x
          simp only [nodeIds.goMembers, List.mem_append] at h
          rcases h with h | h
          · exact ih (k, v) (hl _ (by simp)) _ id h
          · exact ihl (i + 1) (fun z hz => hl z (List.mem_cons_of_mem _ hz)) id h
      exact key m 0 (fun _ h => h) id h

end JsonC.Equal
