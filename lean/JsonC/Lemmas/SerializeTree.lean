/-
  C02 helper lemmas, part 6: the induction over the tree.  For every tree inside the property's
  quantifier and every flag set: the serializer does not fault, and its colour-stripped output is
  the text of the explicitly constructed RFC 8259 document `docOf` (which is well-formed).
-/
import JsonC.Lemmas.SerializeLayout

namespace JsonC.Serialize
open JsonC Generated SerSpec Rfc8259

variable (fmt : UInt64 → Bytes)

/-- `v`, as a child slot at nesting `level` under flags `f`, is rendered as the document `docOf`:
no fault, the document is well-formed, and stripping colour from the output (followed by anything)
gives the document's text (followed by that, stripped) -/
def Renders (f : Fl) (level : Nat) (v : JVal) : Prop :=
  ∃ d t, docOf fmt f level v = some d ∧ serChild fmt f level v = .ok t ∧ d.ok = true ∧
    (f.color = false → 27 ∉ t) ∧
    ∀ rest, strip false (t ++ rest) = d.text ++ strip false rest

theorem withColor_noesc (f : Fl) (col body : Bytes) (hc : f.color = false) (hb : 27 ∉ body) : 27 ∉ withColor f col body := by
  unfold withColor; simp only [hc, Bool.false_eq_true, if_false]; exact hb

theorem renders_null (f : Fl) (level : Nat) : Renders fmt f level .null := by
  refine ⟨.null, _, rfl, rfl, rfl, fun hc => withColor_noesc f _ _ hc (by decide), fun rest => ?_⟩
  exact strip_withColor f _ _ rest strip_magenta (by decide)

theorem renders_bool (f : Fl) (level : Nat) (b : Bool) : Renders fmt f level (.bool b) := by
  refine ⟨if b then .true_ else .false_, _, rfl, rfl, by cases b <;> rfl, fun hc => ?_, fun rest => ?_⟩
  · unfold boolText; cases b <;> exact withColor_noesc f _ _ hc (by decide)
  unfold boolText
  cases b
  · exact strip_withColor f _ _ rest strip_magenta (by decide)
  · exact strip_withColor f _ _ rest strip_magenta (by decide)

theorem renders_int (f : Fl) (level : Nat) (s : Bool) (v : Int) (h : treeOk fmt (.int s v) = true) :
    Renders fmt f level (.int s v) := by
  have hr : -(10 : Int) ^ 19 < v ∧ v < (10 : Int) ^ 20 := by
    cases s
    · simp only [treeOk, Bool.and_eq_true, decide_eq_true_eq] at h
      unfold UINT64_MAX at h; omega
    · simp only [treeOk, Bool.and_eq_true, decide_eq_true_eq] at h
      unfold INT64_MIN INT64_MAX at h; omega
  refine ⟨.num (numOfInt v), _, rfl, rfl, numOfInt_ok v, fun _ => ?_, fun rest => ?_⟩
  · rw [intText_eq s v hr]; exact num_text_no_esc (numOfInt_ok v)
  rw [intText_eq s v hr]
  exact strip_noesc _ _ (num_text_no_esc (numOfInt_ok v))

theorem renders_dbl (f : Fl) (level : Nat) (bits : UInt64) (h : treeOk fmt (.dbl bits none) = true) :
    Renders fmt f level (.dbl bits none) := by
  simp only [treeOk, Bool.and_eq_true, Bool.not_eq_true'] at h
  obtain ⟨⟨hnan, hinf⟩, hshape⟩ := h
  obtain ⟨n', hn', hok, _, hpost⟩ := doublePost_shape f.noZero (fmt bits) hshape
  refine ⟨.num n', n'.text, ?_, ?_, hok, fun _ => num_text_no_esc hok, fun rest => strip_noesc _ _ (num_text_no_esc hok)⟩
  · simp [docOf, hnan, hinf, hn']
  · simp [serChild, doubleText, hnan, hinf, hpost]

theorem dblToken_some {t : Bytes} {n : Num} (h : dblTokenOfText t = some n) :
    numOfText t = some n ∧ (n.frac.isSome || n.exp.isSome) = true := by
  unfold dblTokenOfText at h
  split at h
  · split at h
    · rename_i hc; cases h; exact ⟨by assumption, hc⟩
    · cases h
  · cases h

theorem renders_dbl_text (f : Fl) (level : Nat) (bits : UInt64) (t : Bytes) (h : treeOk fmt (.dbl bits (some t)) = true) :
    Renders fmt f level (.dbl bits (some t)) := by
  simp only [treeOk, Bool.and_eq_true, decide_eq_true_eq] at h
  obtain ⟨⟨_, hsome⟩, hlen⟩ := h
  cases hd : dblTokenOfText t with
  | none => simp [hd] at hsome
  | some n =>
    obtain ⟨hn, _⟩ := dblToken_some hd
    obtain ⟨hok, htext⟩ := numOfText_some hn
    refine ⟨.num n, t, by simp [docOf, hd], ?_, hok, fun _ => by rw [← htext]; exact num_text_no_esc hok, fun rest => ?_⟩
    · simp only [serChild, userdataText]
      have hnul : 0 ∉ t := by rw [← htext]; exact num_text_no_nul hok
      have : t.takeWhile (· != 0) = t := by
        apply takeWhile_all; intro x hx
        simp only [bne_iff_ne, ne_eq]; intro e; subst e; exact hnul hx
      rw [this]
      have : ckInt t.length "userdata_to_json_string: int userdata_len = strlen(..)" = .ok t.length := by
        unfold ckInt; rw [if_pos hlen]
      simp [this]
    · rw [← htext]; exact strip_noesc _ _ (num_text_no_esc hok)

theorem quoted_no_esc (ns : Bool) (s : Bytes) : 27 ∉ ([34] ++ escBytes ns s ++ [34] : Bytes) := by
  simp only [List.mem_append, List.mem_singleton, not_or]
  exact ⟨⟨by decide, escBytes_no_esc ns s⟩, by decide⟩

theorem strText_eq (ns : Bool) (s : Bytes) : strText (itemsOf ns s) = [34] ++ escBytes ns s ++ [34] := by
  simp [strText, items_text]

theorem renders_str (f : Fl) (level : Nat) (s : Bytes) : Renders fmt f level (.str s) := by
  refine ⟨.str (itemsOf f.noSlash s), withColor f serColorGreen ([34] ++ escBytes f.noSlash s ++ [34]), rfl, ?_, ?_,
    fun hc => withColor_noesc f _ _ hc (quoted_no_esc _ _), fun rest => ?_⟩
  · simp [serChild, stringText, escapeStr_eq]
  · simp [Doc.ok, items_ok]
  · rw [strip_withColor f _ _ rest strip_green (quoted_no_esc _ _)]
    simp [Doc.text, strText_eq]

/-! ### containers -/

theorem nulFree_takeWhile {k : Bytes} (h : nulFree k = true) : k.takeWhile (· != 0) = k := by
  apply takeWhile_all
  intro x hx
  simp only [nulFree, Bool.not_eq_true', List.contains_eq_mem, decide_eq_false_iff_not] at h
  simp only [bne_iff_ne, ne_eq]; intro e; subst e; exact h hx

theorem render_all :
    (∀ v, ∀ (f : Fl) (level : Nat), treeOk fmt v = true → 2 * (level + nest v) ≤ intMax → Renders fmt f level v) ∧
    (∀ xs, ∀ (f : Fl) (level : Nat) (had : Bool), treeOkList fmt xs = true → 2 * (level + nestList xs) ≤ intMax →
      ∃ es body, elemsOf fmt f (level + 1) xs = some es ∧ serElems fmt f level xs had = .ok body ∧
        elemsOk es = true ∧ (∀ e ∈ es, e.2.2 = []) ∧ es.length = xs.length ∧ (f.color = false → 27 ∉ body) ∧
        ∀ rest, strip false (body ++ rest) = joinB had (elemsText es) ++ strip false rest) ∧
    (∀ kvs, ∀ (f : Fl) (level : Nat) (had : Bool), treeOkMembers fmt kvs = true → 2 * (level + nestMembers kvs) ≤ intMax →
      ∃ ms body, membersOf fmt f (level + 1) kvs = some ms ∧ serMembers fmt f level kvs had = .ok body ∧
        membersOk ms = true ∧ (∀ m ∈ ms, m.2.2.2.2.2 = []) ∧ ms.length = kvs.length ∧ (f.color = false → 27 ∉ body) ∧
        ∀ rest, strip false (body ++ rest) = joinB had (membersText ms) ++ strip false rest) := by
  refine tree_ind ?_ ?_ ?_ ?_ ?_ ?_ ?_ ?_ ?_ ?_ ?_
  · intro f level _ _; exact renders_null fmt f level
  · intro b f level _ _; exact renders_bool fmt f level b
  · intro s v f level h _; exact renders_int fmt f level s v h
  · intro b t f level h _
    cases t with
    | none => exact renders_dbl fmt f level b h
    | some t => exact renders_dbl_text fmt f level b t h
  · intro s f level _ _; exact renders_str fmt f level s
  · -- array
    intro xs ih f level hok hlvl
    simp only [treeOk] at hok
    simp only [nest] at hlvl
    obtain ⟨es, body, hes, hbody, heok, hw2, hlen, hbesc, hstrip⟩ := ih f level false hok hlvl
    have hclose := closeBytes_eq f level (!xs.isEmpty) 93 (by omega)
    refine ⟨.arr (emptyWs f) (setLastElem (closeWs f level) es),
      [91] ++ body ++ ((if (!xs.isEmpty) = true then (closeWs f level).text else (emptyWs f).text) ++ [93]),
      by simp [docOf, hes], ?_, ?_, fun hc => ?_, fun rest => ?_⟩
    · simp only [serChild, hbody, hclose, Outcome.bind_ok, Outcome.pure_eq]
    · simp only [Doc.ok, setLastElem_ok, heok]
    · simp only [List.mem_append, List.mem_singleton, not_or]
      refine ⟨⟨by decide, hbesc hc⟩, ?_, by decide⟩
      split <;> exact ws_no_esc _
    · rw [arr_text]
      have hx : xs.isEmpty = (es = []) := by
        cases xs <;> cases es <;> simp at hlen ⊢
      by_cases hemp : es = []
      · subst hemp
        have : xs = [] := by cases xs <;> simp at hlen ⊢
        subst this
        have hb := hstrip ([] : Bytes)
        simp [serElems] at hbody
        subst hbody
        simp only [setLastElem, if_true, List.isEmpty_nil, Bool.not_true, Bool.false_eq_true, if_false, List.append_nil, List.append_assoc, List.cons_append, List.nil_append]
        rw [show (91 : UInt8) :: ((emptyWs f).text ++ 93 :: rest) = ([91] ++ (emptyWs f).text ++ [93]) ++ rest by simp]
        rw [strip_noesc _ _ (by
          simp only [List.mem_append, List.mem_singleton, not_or]
          exact ⟨⟨by decide, ws_no_esc _⟩, by decide⟩)]
        simp
      · have hne : xs.isEmpty = false := by
          cases xs with
          | nil => cases es <;> simp at hlen hemp
          | cons _ _ => rfl
        rw [if_neg (setLastElem_ne_nil es _ hemp), setLastElem_text es _ hemp hw2]
        simp only [hne, Bool.not_false, if_true, List.append_assoc, List.cons_append, List.nil_append]
        rw [show (91 : UInt8) :: (body ++ ((closeWs f level).text ++ (93 :: rest))) = [91] ++ (body ++ ((closeWs f level).text ++ [93] ++ rest)) by simp]
        rw [strip_noesc [91] _ (by decide), hstrip]
        rw [strip_noesc _ _ (by
          simp only [List.mem_append, List.mem_singleton, not_or]
          exact ⟨ws_no_esc _, by decide⟩)]
        simp [joinB]
  · -- object
    intro kvs ih f level hok hlvl
    simp only [treeOk, Bool.and_eq_true] at hok
    simp only [nest] at hlvl
    obtain ⟨ms, body, hms, hbody, hmok, hw4, hlen, hbesc, hstrip⟩ := ih f level false hok.1 hlvl
    have hclose := closeBytes_eq f level (!kvs.isEmpty) 125 (by omega)
    refine ⟨.obj (emptyWs f) (setLastMember (closeWs f level) ms),
      [123] ++ body ++ ((if (!kvs.isEmpty) = true then (closeWs f level).text else (emptyWs f).text) ++ [125]),
      by simp [docOf, hms], ?_, ?_, fun hc => ?_, fun rest => ?_⟩
    · simp only [serChild, hbody, hclose, Outcome.bind_ok, Outcome.pure_eq]
    · simp only [Doc.ok, setLastMember_ok, hmok]
    · simp only [List.mem_append, List.mem_singleton, not_or]
      refine ⟨⟨by decide, hbesc hc⟩, ?_, by decide⟩
      split <;> exact ws_no_esc _
    · rw [obj_text]
      by_cases hemp : ms = []
      · subst hemp
        have : kvs = [] := by cases kvs <;> simp at hlen ⊢
        subst this
        simp [serMembers] at hbody
        subst hbody
        simp only [setLastMember, if_true, List.isEmpty_nil, Bool.not_true, Bool.false_eq_true, if_false, List.append_nil, List.append_assoc, List.cons_append, List.nil_append]
        rw [show (123 : UInt8) :: ((emptyWs f).text ++ 125 :: rest) = ([123] ++ (emptyWs f).text ++ [125]) ++ rest by simp]
        rw [strip_noesc _ _ (by
          simp only [List.mem_append, List.mem_singleton, not_or]
          exact ⟨⟨by decide, ws_no_esc _⟩, by decide⟩)]
        simp
      · have hne : kvs.isEmpty = false := by
          cases kvs with
          | nil => cases ms <;> simp at hlen hemp
          | cons _ _ => rfl
        rw [if_neg (setLastMember_ne_nil ms _ hemp), setLastMember_text ms _ hemp hw4]
        simp only [hne, Bool.not_false, if_true, List.append_assoc, List.cons_append, List.nil_append]
        rw [show (123 : UInt8) :: (body ++ ((closeWs f level).text ++ (125 :: rest))) = [123] ++ (body ++ ((closeWs f level).text ++ [125] ++ rest)) by simp]
        rw [strip_noesc [123] _ (by decide), hstrip]
        rw [strip_noesc _ _ (by
          simp only [List.mem_append, List.mem_singleton, not_or]
          exact ⟨ws_no_esc _, by decide⟩)]
        simp [joinB]
  · -- no elements
    intro f level had _ _
    exact ⟨[], [], rfl, rfl, rfl, by simp, rfl, fun _ => by simp, fun rest => by simp [elemsText, joinB_nil]⟩
  · -- element :: elements
    intro x xs ihx ihxs f level had hok hlvl
    simp only [treeOkList, Bool.and_eq_true] at hok
    simp only [nestList] at hlvl
    obtain ⟨d, t, hd, ht, hdok, htesc, hdstrip⟩ := ihx f (level + 1) hok.1 (by omega)
    obtain ⟨es, body, hes, hbody, heok, hw2, hlen, hbesc, hstrip⟩ := ihxs f level true hok.2 (by omega)
    refine ⟨(leadWs f (level + 1), d, []) :: es, sepBytes f had ++ (indentWs f (level + 1)).text ++ t ++ body,
      by simp [elemsOf, hd, hes], ?_, ?_, ?_, by simp [hlen], fun hc => ?_, fun rest => ?_⟩
    · simp only [serElems, ckLevel level _ (by omega), indent_eq f (level + 1) (by omega), ht, hbody, Outcome.bind_ok, Outcome.pure_eq]
    · simp [elemsOk, hdok, heok]
    · intro e he
      simp only [List.mem_cons] at he
      rcases he with rfl | he
      · rfl
      · exact hw2 e he
    · simp only [List.mem_append, not_or]
      exact ⟨⟨⟨by unfold sepBytes; cases had <;> cases f.pretty <;> cases f.spacedOnly <;> decide, ws_no_esc _⟩, htesc hc⟩, hbesc hc⟩
    · simp only [elemsText, joinB_cons]
      rw [show sepBytes f had ++ (indentWs f (level + 1)).text ++ t ++ body ++ rest
          = (sepBytes f had ++ (indentWs f (level + 1)).text) ++ (t ++ (body ++ rest)) by simp]
      rw [sep_indent]
      rw [strip_noesc _ _ (by
        simp only [List.mem_append, not_or]
        exact ⟨by cases had <;> decide, ws_no_esc _⟩)]
      rw [hdstrip, hstrip]
      simp [Ws.text]
  · -- no members
    intro f level had _ _
    exact ⟨[], [], rfl, rfl, rfl, by simp, rfl, fun _ => by simp, fun rest => by simp [membersText, joinB_nil]⟩
  · -- member :: members
    intro k x kvs ihx ihkvs f level had hok hlvl
    simp only [treeOkMembers, Bool.and_eq_true] at hok
    simp only [nestMembers] at hlvl
    obtain ⟨⟨hk, hxok⟩, hkvs⟩ := hok
    obtain ⟨d, t, hd, ht, hdok, htesc, hdstrip⟩ := ihx f (level + 1) hxok (by omega)
    obtain ⟨ms, body, hms, hbody, hmok, hw4, hlen, hbesc, hstrip⟩ := ihkvs f level true hkvs (by omega)
    refine ⟨(leadWs f (level + 1), itemsOf f.noSlash k, [], colonWs f, d, []) :: ms,
      sepBytes f had ++ (indentWs f (level + 1)).text ++ withColor f serColorBlue ([34] ++ escBytes f.noSlash k ++ [34]) ++
        (if f.spaced then [58, 32] else [58]) ++ t ++ body,
      by simp [membersOf, hd, hms], ?_, ?_, ?_, by simp [hlen], fun hc => ?_, fun rest => ?_⟩
    · simp only [serMembers, ckLevel level _ (by omega), indent_eq f (level + 1) (by omega), nulFree_takeWhile hk,
        escapeStr_eq, ht, hbody, Outcome.bind_ok, Outcome.pure_eq]
    · simp [membersOk, hdok, hmok, items_ok]
    · intro m hm
      simp only [List.mem_cons] at hm
      rcases hm with rfl | hm
      · rfl
      · exact hw4 m hm
    · simp only [List.mem_append, not_or]
      refine ⟨⟨⟨⟨⟨by unfold sepBytes; cases had <;> cases f.pretty <;> cases f.spacedOnly <;> decide, ws_no_esc _⟩,
        withColor_noesc f _ _ hc (quoted_no_esc _ _)⟩, ?_⟩, htesc hc⟩, hbesc hc⟩
      split <;> decide
    · simp only [membersText, joinB_cons]
      rw [colon_eq]
      rw [show sepBytes f had ++ (indentWs f (level + 1)).text ++ withColor f serColorBlue ([34] ++ escBytes f.noSlash k ++ [34]) ++
            58 :: (colonWs f).text ++ t ++ body ++ rest
          = (sepBytes f had ++ (indentWs f (level + 1)).text) ++ (withColor f serColorBlue ([34] ++ escBytes f.noSlash k ++ [34]) ++
            ((58 :: (colonWs f).text) ++ (t ++ (body ++ rest)))) by simp]
      rw [sep_indent]
      rw [strip_noesc _ _ (by
        simp only [List.mem_append, not_or]
        exact ⟨by cases had <;> decide, ws_no_esc _⟩)]
      rw [strip_withColor f _ _ _ strip_blue (quoted_no_esc _ _)]
      rw [strip_noesc (58 :: (colonWs f).text) _ (by
        simp only [List.mem_cons, not_or]
        exact ⟨by decide, ws_no_esc _⟩)]
      rw [hdstrip, hstrip]
      simp [Ws.text, strText_eq]

end JsonC.Serialize
