/-
  Helper lemmas for C13, part 1: C-string handling of json_pointer.c / json_patch.c (token split,
  the two-pass unescape, is_valid_index, the strncmp prefix test) against RFC 6901 syntax.
-/
import JsonC.Model.Patch
import JsonC.Spec.Rfc6902

namespace JsonC.Patch
open JsonC

/-! ### tokens -/

theorem splitTokens_eq (s : Bytes) : splitTokens s = Rfc6902.splitSlash s := by
  induction s with
  | nil => rfl
  | cons c r ih => simp only [splitTokens, Rfc6902.splitSlash, ih]; rfl

theorem splitSlash_ne_nil (s : Bytes) : Rfc6902.splitSlash s ≠ [] := by
  induction s with
  | nil => simp [Rfc6902.splitSlash]
  | cons c r ih =>
    unfold Rfc6902.splitSlash
    split
    · simp
    · split <;> simp

theorem splitTokens_ne_nil (s : Bytes) : splitTokens s ≠ [] := by
  rw [splitTokens_eq]; exact splitSlash_ne_nil s

/-- reference tokens contain no '/' -/
theorem splitSlash_noSlash (s : Bytes) : ∀ t ∈ Rfc6902.splitSlash s, (0x2f : UInt8) ∉ t := by
  induction s with
  | nil => intro t ht; simp [Rfc6902.splitSlash] at ht; subst ht; simp
  | cons c r ih =>
    intro t ht
    unfold Rfc6902.splitSlash at ht
    split at ht
    · rcases List.mem_cons.mp ht with h | h
      · subst h; simp
      · exact ih t h
    · rename_i hc
      split at ht
      · rename_i t0 ts heq
        rcases List.mem_cons.mp ht with h | h
        · subst h
          have := ih t0 (by rw [heq]; simp)
          intro hm
          rcases List.mem_cons.mp hm with h1 | h1
          · exact hc h1.symm
          · exact this h1
        · exact ih t (by rw [heq]; simp [h])
      · rename_i heq
        exact absurd heq (splitSlash_ne_nil r)

/-- the text a list of reference tokens stands for -/
def joinTokens : List Bytes → Bytes
  | [] => []
  | t :: ts => 0x2f :: (t ++ joinTokens ts)

theorem splitSlash_join (t : Bytes) (ts : List Bytes) (ht : (0x2f : UInt8) ∉ t) :
    Rfc6902.splitSlash (t ++ joinTokens ts) =
      match ts with
      | [] => [t]
      | _ :: _ => t :: Rfc6902.splitSlash ((joinTokens ts).drop 1) := by
  induction t with
  | nil =>
    cases ts with
    | nil => simp [joinTokens, Rfc6902.splitSlash]
    | cons u us => simp [joinTokens, Rfc6902.splitSlash]
  | cons c r ih =>
    have hc : c ≠ 0x2f := fun h => ht (by simp [h])
    have hr : (0x2f : UInt8) ∉ r := fun h => ht (by simp [h])
    have := ih hr
    simp only [List.cons_append, Rfc6902.splitSlash, if_neg hc]
    rw [this]
    cases ts <;> simp

/-- splitting the text after the leading '/' gives back '/'-free tokens, and the text is their join -/
theorem join_splitSlash (s : Bytes) : joinTokens (Rfc6902.splitSlash s) = 0x2f :: s := by
  induction s with
  | nil => simp [Rfc6902.splitSlash, joinTokens]
  | cons c r ih =>
    unfold Rfc6902.splitSlash
    split
    · rename_i hc
      subst hc
      simp [joinTokens, ih]
    · split
      · rename_i t ts heq
        rw [heq] at ih
        simp only [joinTokens, List.cons_append] at ih ⊢
        simp only [List.cons.injEq, true_and] at ih
        rw [ih]
      · rename_i heq
        exact absurd heq (splitSlash_ne_nil r)

/-! ### unescape -/

theorem replaceAll_cons_ne (a b r c : UInt8) (l : Bytes) (h : c ≠ a) :
    replaceAll a b r (c :: l) = c :: replaceAll a b r l := by
  cases l with
  | nil => simp [replaceAll]
  | cons y rest => simp [replaceAll, h]

theorem replaceAll_hit (a b r : UInt8) (l : Bytes) :
    replaceAll a b r (a :: b :: l) = r :: replaceAll a b r l := by
  simp [replaceAll]

theorem replaceAll_cons_ne2 (a b r x y : UInt8) (l : Bytes) (h : y ≠ b) :
    replaceAll a b r (x :: y :: l) = x :: replaceAll a b r (y :: l) := by
  simp [replaceAll, h]

/-- the two strstr/memmove passes ("~1" then "~0") compute the RFC's unescaping on every
syntactically valid reference token -/
theorem unescapeC_of_unescape (raw : Bytes) : ∀ tok, Rfc6902.unescape raw = some tok → unescapeC raw = tok := by
  fun_induction Rfc6902.unescape raw with
  | case1 => intro tok h; simp at h; subst h; simp [unescapeC, replaceAll]
  | case2 => intro tok h; simp at h
  | case3 r' ih =>
    intro tok h
    cases hu : Rfc6902.unescape r' with
    | none => simp [hu] at h
    | some u =>
      simp [hu] at h
      subst h
      have := ih u hu
      unfold unescapeC at this ⊢
      rw [replaceAll_cons_ne2 0x7e 0x31 0x2f 0x7e 0x30 r' (by decide),
        replaceAll_cons_ne 0x7e 0x31 0x2f 0x30 r' (by decide), replaceAll_hit 0x7e 0x30 0x7e, this]
  | case4 r' _ ih =>
    intro tok h
    cases hu : Rfc6902.unescape r' with
    | none => simp [hu] at h
    | some u =>
      simp [hu] at h
      subst h
      have := ih u hu
      unfold unescapeC at this ⊢
      rw [replaceAll_hit 0x7e 0x31 0x2f r', replaceAll_cons_ne 0x7e 0x30 0x7e 0x2f _ (by decide), this]
  | case5 d r' hd0 hd1 => intro tok h; simp at h
  | case6 c r hc ih =>
    intro tok h
    cases hu : Rfc6902.unescape r with
    | none => simp [hu] at h
    | some u =>
      simp [hu] at h
      subst h
      have := ih u hu
      unfold unescapeC at this ⊢
      rw [replaceAll_cons_ne _ _ _ _ _ hc, replaceAll_cons_ne _ _ _ _ _ hc, this]

/-- a token without '~' is its own unescaped form; a token with '~' unescapes to something
containing '~' or '/' -/
theorem unescape_tilde (raw : Bytes) : ∀ tok, Rfc6902.unescape raw = some tok →
    ((0x7e : UInt8) ∉ raw → tok = raw) ∧ ((0x7e : UInt8) ∈ raw → (0x7e : UInt8) ∈ tok ∨ (0x2f : UInt8) ∈ tok) := by
  fun_induction Rfc6902.unescape raw with
  | case1 => intro tok h; simp at h; subst h; simp
  | case2 => intro tok h; simp at h
  | case3 r' ih =>
    intro tok h
    cases hu : Rfc6902.unescape r' with
    | none => simp [hu] at h
    | some u => simp [hu] at h; subst h; simp
  | case4 r' _ ih =>
    intro tok h
    cases hu : Rfc6902.unescape r' with
    | none => simp [hu] at h
    | some u => simp [hu] at h; subst h; simp
  | case5 d r' hd0 hd1 => intro tok h; simp at h
  | case6 c r hc ih =>
    intro tok h
    cases hu : Rfc6902.unescape r with
    | none => simp [hu] at h
    | some u =>
      simp [hu] at h
      subst h
      obtain ⟨h1, h2⟩ := ih u hu
      constructor
      · intro hn
        have : (0x7e : UInt8) ∉ r := fun hm => hn (by simp [hm])
        rw [h1 this]
      · intro hm
        have : (0x7e : UInt8) ∈ r := by
          rcases List.mem_cons.mp hm with h' | h'
          · exact absurd h'.symm hc
          · exact h'
        rcases h2 this with h' | h'
        · left; simp [h']
        · right; simp [h']

theorem digits_no_tilde_slash (t : Bytes) (h : t.all Rfc6902.isDigit = true) :
    (0x7e : UInt8) ∉ t ∧ (0x2f : UInt8) ∉ t := by
  rw [List.all_eq_true] at h
  constructor
  · intro hm; have := h _ hm; revert this; decide
  · intro hm; have := h _ hm; revert this; decide

/-- a digit string and "-" are not affected by escaping, in either direction -/
theorem unescape_plain (raw tok : Bytes) (h : Rfc6902.unescape raw = some tok)
    (hp : ((0x7e : UInt8) ∉ raw) ∨ ((0x7e : UInt8) ∉ tok ∧ (0x2f : UInt8) ∉ tok)) : tok = raw := by
  obtain ⟨h1, h2⟩ := unescape_tilde raw tok h
  rcases hp with hp | ⟨hp1, hp2⟩
  · exact h1 hp
  · apply h1
    intro hm
    rcases h2 hm with h' | h'
    · exact hp1 h'
    · exact hp2 h'

theorem arrayIndex_some_digits (t : Bytes) (n : Nat) (h : Rfc6902.arrayIndex t = some n) :
    t.all Rfc6902.isDigit = true := by
  unfold Rfc6902.arrayIndex at h
  split at h
  · simp at h
  · split at h
    · rename_i hc; simp only [Bool.and_eq_true] at hc; exact hc.1
    · simp at h

/-- escaping does not matter for array indices -/
theorem arrayIndex_unescape (raw tok : Bytes) (h : Rfc6902.unescape raw = some tok) :
    Rfc6902.arrayIndex tok = Rfc6902.arrayIndex raw := by
  cases h1 : Rfc6902.arrayIndex tok with
  | some n =>
    have hd := digits_no_tilde_slash tok (arrayIndex_some_digits tok n h1)
    have := unescape_plain raw tok h (Or.inr hd)
    rw [← this, h1]
  | none =>
    cases h2 : Rfc6902.arrayIndex raw with
    | none => rfl
    | some n =>
      have hd := digits_no_tilde_slash raw (arrayIndex_some_digits raw n h2)
      have := unescape_plain raw tok h (Or.inl hd.1)
      rw [this, h2] at h1
      exact absurd h1 (by simp)

theorem dash_unescape (raw tok : Bytes) (h : Rfc6902.unescape raw = some tok) :
    (tok = Rfc6902.dash) ↔ (raw = [0x2d]) := by
  constructor
  · intro ht
    have := unescape_plain raw tok h (Or.inr (by subst ht; decide))
    rw [← this, ht]; rfl
  · intro hr
    have := unescape_plain raw tok h (Or.inl (by subst hr; decide))
    rw [this, hr]; rfl

theorem ullong_pos : 255 < ULLONG_MAX := by decide

/-- is_valid_index accepts exactly the RFC 6901 array indices; its value is the index saturated
at ULLONG_MAX (strtoull) -/
theorem isValidIndex_eq (t : Bytes) :
    isValidIndex t = (Rfc6902.arrayIndex t).map (fun n => min n ULLONG_MAX) := by
  match t with
  | [] => rfl
  | [c] =>
    simp only [isValidIndex, Rfc6902.arrayIndex, List.all_cons, List.all_nil, Bool.and_true, List.isEmpty_nil,
      Bool.or_true]
    have hdv : Rfc6902.decVal [c] = c.toNat - 48 := by simp [Rfc6902.decVal]
    have hlt : c.toNat - 48 ≤ ULLONG_MAX := by
      have := c.toNat_lt; have := ullong_pos; omega
    by_cases hd : Rfc6902.isDigit c = true
    · have : isPlainDigit c = true := hd
      simp [hd, this, hdv, Nat.min_eq_left hlt]
    · have hd' : Rfc6902.isDigit c = false := by simpa using hd
      have : isPlainDigit c = false := hd'
      simp [hd', this]
  | c :: d :: r =>
    simp only [isValidIndex, Rfc6902.arrayIndex, List.isEmpty_cons, Bool.or_false]
    by_cases hc : c = 0x30
    · simp [hc]
    · have hall : (c :: d :: r).all isPlainDigit = (c :: d :: r).all Rfc6902.isDigit := rfl
      rw [if_neg hc, hall]
      by_cases ha : (c :: d :: r).all Rfc6902.isDigit = true
      · simp [ha, hc, strtoull10, Rfc6902.decVal]
      · simp [ha]

/-! ### injectivity of unescaping, and the strncmp prefix test -/

/-- RFC 6901 escaping of a reference token -/
def escapeTok : Bytes → Bytes
  | [] => []
  | c :: r => if c = 0x7e then 0x7e :: 0x30 :: escapeTok r else if c = 0x2f then 0x7e :: 0x31 :: escapeTok r else c :: escapeTok r

theorem escape_of_unescape (raw : Bytes) : ∀ tok, Rfc6902.unescape raw = some tok → (0x2f : UInt8) ∉ raw →
    raw = escapeTok tok := by
  fun_induction Rfc6902.unescape raw with
  | case1 => intro tok h _; simp at h; subst h; rfl
  | case2 => intro tok h; simp at h
  | case3 r' ih =>
    intro tok h hs
    cases hu : Rfc6902.unescape r' with
    | none => simp [hu] at h
    | some u =>
      simp [hu] at h; subst h
      have := ih u hu (fun hm => hs (by simp [hm]))
      simp [escapeTok, ← this]
  | case4 r' _ ih =>
    intro tok h hs
    cases hu : Rfc6902.unescape r' with
    | none => simp [hu] at h
    | some u =>
      simp [hu] at h; subst h
      have := ih u hu (fun hm => hs (by simp [hm]))
      simp [escapeTok, ← this]
  | case5 d r' hd0 hd1 => intro tok h; simp at h
  | case6 c r hc ih =>
    intro tok h hs
    cases hu : Rfc6902.unescape r with
    | none => simp [hu] at h
    | some u =>
      simp [hu] at h; subst h
      have := ih u hu (fun hm => hs (by simp [hm]))
      have hc2 : c ≠ 0x2f := fun h' => hs (by simp [h'])
      simp [escapeTok, hc, hc2, ← this]

theorem unescape_inj (r1 r2 tok : Bytes) (h1 : Rfc6902.unescape r1 = some tok) (h2 : Rfc6902.unescape r2 = some tok)
    (s1 : (0x2f : UInt8) ∉ r1) (s2 : (0x2f : UInt8) ∉ r2) : r1 = r2 := by
  rw [escape_of_unescape r1 tok h1 s1, escape_of_unescape r2 tok h2 s2]

theorem unescapeAll_cons (t : Bytes) (ts : List Bytes) (T : Rfc6902.Pointer) (h : Rfc6902.unescapeAll (t :: ts) = some T) :
    ∃ u us, T = u :: us ∧ Rfc6902.unescape t = some u ∧ Rfc6902.unescapeAll ts = some us := by
  unfold Rfc6902.unescapeAll at h
  split at h
  · rename_i u us hu hus; simp at h; exact ⟨u, us, h.symm, hu, hus⟩
  · simp at h

theorem unescapeAll_nil (T : Rfc6902.Pointer) (h : Rfc6902.unescapeAll [] = some T) : T = [] := by
  simp [Rfc6902.unescapeAll] at h; exact h

theorem unescapeAll_length (ts : List Bytes) : ∀ T, Rfc6902.unescapeAll ts = some T → T.length = ts.length := by
  induction ts with
  | nil => intro T h; rw [unescapeAll_nil T h]
  | cons t ts ih =>
    intro T h
    obtain ⟨u, us, rfl, _, hus⟩ := unescapeAll_cons t ts T h
    simp [ih us hus]

/-- on '/'-free raw tokens, "is a prefix" and "is equal" do not depend on escaping -/
theorem isPrefixOf_unescapeAll (F : List Bytes) : ∀ (P : List Bytes) (F' P' : Rfc6902.Pointer),
    Rfc6902.unescapeAll F = some F' → Rfc6902.unescapeAll P = some P' →
    (∀ t ∈ F, (0x2f : UInt8) ∉ t) → (∀ t ∈ P, (0x2f : UInt8) ∉ t) →
    F.isPrefixOf P = F'.isPrefixOf P' := by
  induction F with
  | nil => intro P F' P' hF _ _ _; rw [unescapeAll_nil F' hF]; simp
  | cons f Fs ih =>
    intro P F' P' hF hP sF sP
    obtain ⟨f', Fs', rfl, hf, hFs⟩ := unescapeAll_cons f Fs F' hF
    cases P with
    | nil => rw [unescapeAll_nil P' hP]; rfl
    | cons p Ps =>
      obtain ⟨p', Ps', rfl, hp, hPs⟩ := unescapeAll_cons p Ps P' hP
      have ih' := ih Ps Fs' Ps' hFs hPs (fun t ht => sF t (by simp [ht])) (fun t ht => sP t (by simp [ht]))
      have hhead : (f == p) = (f' == p') := by
        by_cases hfp : f = p
        · subst hfp; rw [hf] at hp; cases hp; simp
        · have : f' ≠ p' := by
            intro he; subst he
            exact hfp (unescape_inj f p f' hf hp (sF f (by simp)) (sP p (by simp)))
          rw [beq_eq_false_iff_ne.mpr hfp, beq_eq_false_iff_ne.mpr this]
      simp only [List.isPrefixOf_cons_cons, hhead, ih']

theorem unescapeAll_inj (F : List Bytes) : ∀ (P : List Bytes) (T : Rfc6902.Pointer),
    Rfc6902.unescapeAll F = some T → Rfc6902.unescapeAll P = some T →
    (∀ t ∈ F, (0x2f : UInt8) ∉ t) → (∀ t ∈ P, (0x2f : UInt8) ∉ t) → F = P := by
  induction F with
  | nil =>
    intro P T hF hP _ _
    rw [unescapeAll_nil T hF] at hP
    cases P with
    | nil => rfl
    | cons p Ps => obtain ⟨_, _, h, _, _⟩ := unescapeAll_cons p Ps [] hP; simp at h
  | cons f Fs ih =>
    intro P T hF hP sF sP
    obtain ⟨f', Fs', rfl, hf, hFs⟩ := unescapeAll_cons f Fs T hF
    cases P with
    | nil => have := unescapeAll_nil _ hP; simp at this
    | cons p Ps =>
      obtain ⟨p', Ps', he, hp, hPs⟩ := unescapeAll_cons p Ps _ hP
      simp only [List.cons.injEq] at he
      obtain ⟨rfl, rfl⟩ := he
      rw [unescape_inj f p f' hf hp (sF f (by simp)) (sP p (by simp)),
        ih Ps Fs' hFs hPs (fun t ht => sF t (by simp [ht])) (fun t ht => sP t (by simp [ht]))]

theorem fromIsPrefix_cons_same (c : UInt8) (a b : Bytes) : fromIsPrefix (c :: a) (c :: b) = fromIsPrefix a b := by
  simp [fromIsPrefix]

theorem fromIsPrefix_cons_ne (c d : UInt8) (a b : Bytes) (h : c ≠ d) : fromIsPrefix (c :: a) (d :: b) = false := by
  simp [fromIsPrefix, h]

theorem fromIsPrefix_cons_nil (c : UInt8) (a : Bytes) : fromIsPrefix (c :: a) [] = false := by
  simp [fromIsPrefix]

/-- texts that are empty or start with '/' (what follows a reference token) -/
def SlashOrEnd (x : Bytes) : Prop := x = [] ∨ ∃ r, x = 0x2f :: r

theorem joinTokens_slashOrEnd (ts : List Bytes) : SlashOrEnd (joinTokens ts) := by
  cases ts with
  | nil => left; rfl
  | cons t ts => right; exact ⟨_, rfl⟩

theorem fromIsPrefix_nil (y : Bytes) (hy : SlashOrEnd y) : fromIsPrefix [] y = true := by
  rcases hy with rfl | ⟨r, rfl⟩ <;> simp [fromIsPrefix]

theorem fromIsPrefix_tokens (f : Bytes) : ∀ (p X Y : Bytes), (0x2f : UInt8) ∉ f → (0x2f : UInt8) ∉ p →
    SlashOrEnd X → SlashOrEnd Y →
    fromIsPrefix (f ++ X) (p ++ Y) = (decide (f = p) && fromIsPrefix X Y) := by
  induction f with
  | nil =>
    intro p X Y _ hp hX hY
    cases p with
    | nil => simp
    | cons d p' =>
      have hd : d ≠ 0x2f := fun h => hp (by simp [h])
      rcases hX with rfl | ⟨r, rfl⟩
      · simp [fromIsPrefix, hd]
      · simp only [List.nil_append, List.cons_append]
        rw [fromIsPrefix_cons_ne _ _ _ _ (fun h => hd h.symm)]; simp
  | cons c f' ih =>
    intro p X Y hf hp hX hY
    have hc : c ≠ 0x2f := fun h => hf (by simp [h])
    have hf' : (0x2f : UInt8) ∉ f' := fun h => hf (by simp [h])
    cases p with
    | nil =>
      rcases hY with rfl | ⟨r, rfl⟩
      · simp [fromIsPrefix_cons_nil]
      · simp only [List.nil_append, List.cons_append]
        rw [fromIsPrefix_cons_ne _ _ _ _ hc]; simp
    | cons d p' =>
      have hp' : (0x2f : UInt8) ∉ p' := fun h => hp (by simp [h])
      simp only [List.cons_append]
      by_cases hcd : c = d
      · subst hcd
        rw [fromIsPrefix_cons_same, ih p' X Y hf' hp' hX hY]
        simp
      · rw [fromIsPrefix_cons_ne _ _ _ _ hcd]
        simp [hcd]

/-- the strncmp test of json_patch_apply_move_copy is the prefix relation on reference tokens -/
theorem fromIsPrefix_join (F : List Bytes) : ∀ (P : List Bytes),
    (∀ t ∈ F, (0x2f : UInt8) ∉ t) → (∀ t ∈ P, (0x2f : UInt8) ∉ t) →
    fromIsPrefix (joinTokens F) (joinTokens P) = F.isPrefixOf P := by
  induction F with
  | nil => intro P _ _; simp [joinTokens, fromIsPrefix_nil _ (joinTokens_slashOrEnd P)]
  | cons f Fs ih =>
    intro P sF sP
    cases P with
    | nil => simp [joinTokens, fromIsPrefix_cons_nil]
    | cons p Ps =>
      simp only [joinTokens, fromIsPrefix_cons_same]
      rw [fromIsPrefix_tokens f p _ _ (sF f (by simp)) (sP p (by simp)) (joinTokens_slashOrEnd Fs) (joinTokens_slashOrEnd Ps),
        ih Ps (fun t ht => sF t (by simp [ht])) (fun t ht => sP t (by simp [ht]))]
      by_cases hfp : f = p
      · subst hfp; simp
      · simp [List.isPrefixOf_cons_cons, hfp, beq_eq_false_iff_ne.mpr hfp]

/-- what a successfully parsed pointer string tells about the C side -/
theorem parsePointer_raw (s : Bytes) (T' : Rfc6902.Pointer) (h : Rfc6902.parsePointer s = some T') :
    ∃ T, rawTokens s = some T ∧ Rfc6902.unescapeAll T = some T' ∧ (∀ t ∈ T, (0x2f : UInt8) ∉ t) ∧
      s = joinTokens T ∧ (s = [] ↔ T = []) := by
  cases s with
  | nil =>
    simp [Rfc6902.parsePointer] at h; subst h
    exact ⟨[], rfl, rfl, by simp, rfl, by simp⟩
  | cons c r =>
    simp only [Rfc6902.parsePointer] at h
    by_cases hc : c = 0x2f
    · rw [if_pos hc] at h
      subst hc
      refine ⟨Rfc6902.splitSlash r, ?_, h, splitSlash_noSlash r, (join_splitSlash r).symm, ?_⟩
      · simp [rawTokens, splitTokens_eq]
      · simp [splitSlash_ne_nil]
    · rw [if_neg hc] at h; simp at h

/-- json_patch_apply_move_copy's `from`/`path` comparison, in terms of the parsed pointers -/
theorem fromIsPrefix_spec (fs ps : Bytes) (F' P' : Rfc6902.Pointer)
    (hf : Rfc6902.parsePointer fs = some F') (hp : Rfc6902.parsePointer ps = some P') :
    fromIsPrefix fs ps = F'.isPrefixOf P' ∧ (fs = ps ↔ F' = P') := by
  obtain ⟨F, hF, uF, sF, jF, _⟩ := parsePointer_raw fs F' hf
  obtain ⟨P, hP, uP, sP, jP, _⟩ := parsePointer_raw ps P' hp
  constructor
  · rw [jF, jP, fromIsPrefix_join F P sF sP, isPrefixOf_unescapeAll F P F' P' uF uP sF sP]
  · constructor
    · intro h; subst h; rw [hf] at hp; cases hp; rfl
    · intro h; subst h
      rw [jF, jP, unescapeAll_inj F P F' uF uP sF sP]

end JsonC.Patch
