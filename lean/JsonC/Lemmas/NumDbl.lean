/-
  Helper lemmas for C10: the integer → double conversion of the model (`Dbl.natToDbl`,
  `Dbl.intToDbl`) yields the bit pattern of the nearest double, ties to even
  (`Coerce.isNearestBits`), for every integer of magnitude below 2^64.
-/
import JsonC.Lemmas.Num

set_option exponentiation.threshold 2000

namespace JsonC.Num
open JsonC JsonC.Dbl JsonC.Libc Generated JsonC.Coerce

/-- decoding a normal number assembled from its fields -/
theorem decode_normal (be frac : Nat) (h1 : 0 < be) (h2 : be < 2047) (h3 : frac < 2 ^ 52) :
    decode (be * 2 ^ 52 + frac) =
      if 1075 ≤ be then .fin false ((2 ^ 52 + frac) * 2 ^ (be - 1075)) 1
      else .fin false (2 ^ 52 + frac) (2 ^ (1075 - be)) := by
  unfold decode
  have a1 : (be * 2 ^ 52 + frac) / 2 ^ 63 % 2 = 0 := by omega
  have a2 : (be * 2 ^ 52 + frac) / 2 ^ 52 % 2048 = be := by omega
  have a3 : (be * 2 ^ 52 + frac) % 2 ^ 52 = frac := by omega
  simp only [a1, a2, a3]
  rw [if_neg (by omega), if_neg (by omega)]
  simp

theorem log2_eq {a l : Nat} (h1 : 2 ^ l ≤ a) (h2 : a < 2 ^ (l + 1)) : Nat.log2 a = l := by
  have ha : a ≠ 0 := by
    have := Nat.two_pow_pos l; omega
  have u := (@Nat.log2_lt a (l + 1) ha).mpr h2
  have v : ¬ Nat.log2 a < l := fun hh => by
    have := (@Nat.log2_lt a l ha).mp hh; omega
  omega

theorem isNearestBits_of (v : Int) (b : Nat) (neg : Bool) (num den : Nat)
    (hd : decode b = .fin neg num den) (hn : neg = decide (v < 0)) (hm : num % den = 0)
    (hr : IsRNE v.natAbs (num / den)) : isNearestBits v b = true := by
  unfold isNearestBits
  rw [hd]
  simp only [hn, hm, BEq.rfl, Bool.true_and, decide_eq_true_eq]
  exact hr

theorem natToDbl_small (a : Nat) (ha : a ≠ 0) (hl : Nat.log2 a ≤ 52) :
    isNearestBits (a : Int) (natToDbl a) = true := by
  have hlo := @Nat.log2_self_le a ha
  have hhi := @Nat.lt_log2_self a
  unfold natToDbl
  rw [if_neg ha]
  simp only []
  generalize Nat.log2 a = l at *
  rw [if_pos hl]
  have hpp : 2 ^ l * 2 ^ (52 - l) = 2 ^ 52 := by rw [← Nat.pow_add]; congr 1; omega
  have hp1 : 2 ^ (l + 1) = 2 * 2 ^ l := by rw [Nat.pow_succ]; omega
  have hpos : 0 < 2 ^ (52 - l) := Nat.two_pow_pos _
  have hP52 : 2 ^ l ≤ 2 ^ 52 := Nat.pow_le_pow_right (by omega) hl
  have hp0 : l = 52 → 2 ^ (52 - l) = 1 := by intro h; subst h; rfl
  generalize hp : 2 ^ (52 - l) = p at *
  generalize hP : 2 ^ l = P at *
  have m1 : P * p ≤ a * p := Nat.mul_le_mul_right p hlo
  have m2 : a * p < 2 * P * p := Nat.mul_lt_mul_of_pos_right (by omega) hpos
  have m3 : 2 * P * p = 2 * (P * p) := by rw [Nat.mul_assoc]
  have hfrac : a * p - 2 ^ 52 < 2 ^ 52 := by omega
  have hsum : 2 ^ 52 + (a * p - 2 ^ 52) = a * p := by omega
  have hrne : IsRNE a a := by unfold IsRNE; rw [if_pos (by omega)]
  have hdec := decode_normal (l + 1023) (a * p - 2 ^ 52) (by omega) (by omega) hfrac
  rw [hsum] at hdec
  by_cases h52 : l = 52
  · have hp1' : p = 1 := hp0 h52
    rw [if_pos (by omega)] at hdec
    have he : l + 1023 - 1075 = 0 := by omega
    rw [he, hp1'] at hdec
    apply isNearestBits_of _ _ false (a * 1 * 2 ^ 0) 1 (by rw [hp1']; exact hdec) (by simp)
    · exact Nat.mod_one _
    · simpa using hrne
  · rw [if_neg (by omega)] at hdec
    have he : 1075 - (l + 1023) = 52 - l := by omega
    rw [he, hp] at hdec
    apply isNearestBits_of _ _ false (a * p) p hdec (by simp)
    · exact Nat.mul_mod_left _ _
    · rw [Nat.mul_div_cancel _ hpos]; simpa using hrne

/-- one binade above 2^53: `K = 2^k`, `a ∈ [2^52·K, 2^53·K)`, `be = 1075 + k` -/
theorem sub1075 (k : Nat) : 52 + k + 1024 - 1075 = k + 1 := by omega

theorem natToDbl_big_core (a k K : Nat) (hK : K = 2 ^ k) (hk1 : 1 ≤ k) (hk : k ≤ 11)
    (hlo : 2 ^ 52 * K ≤ a) (hhi : a < 2 ^ 53 * K) (hl : Nat.log2 a = 52 + k) :
    isNearestBits (a : Int)
      ((52 + k + 1023) * 2 ^ 52 +
        ((if 2 * (a % K) > K ∨ (2 * (a % K) = K ∧ a / K % 2 = 1) then a / K + 1 else a / K) - 2 ^ 52)) = true := by
  have hkk : 52 + k + 1023 - 1075 = k := by omega
  have hkk1 : 52 + k + 1024 - 1075 = k + 1 := sub1075 k
  have hKpos : 0 < K := by rw [hK]; exact Nat.two_pow_pos _
  have hK2 : 2 ≤ K := by
    rw [hK]; calc 2 = 2 ^ 1 := rfl
      _ ≤ 2 ^ k := Nat.pow_le_pow_right (by omega) hk1
  have hdm := Nat.div_add_mod a K
  have hmod := Nat.mod_lt a hKpos
  have q1 : 2 ^ 52 ≤ a / K := (Nat.le_div_iff_mul_le hKpos).mpr hlo
  have q2 : a / K < 2 ^ 53 := (Nat.div_lt_iff_lt_mul hKpos).mpr hhi
  generalize hq : a / K = q at *
  generalize hr : a % K = r at *
  have hK1 : 2 ^ (k + 1) = 2 * K := by rw [Nat.pow_succ, hK]; omega
  -- x = m * K where m is the rounded mantissa
  have fin_of : ∀ m, 2 ^ 52 ≤ m → m ≤ 2 ^ 53 →
      (m = q ∨ m = q + 1) →
      (2 * r > K → m = q + 1) → (2 * r < K → m = q) → (2 * r = K → m % 2 = 0) →
      isNearestBits (a : Int) ((52 + k + 1023) * 2 ^ 52 + (m - 2 ^ 52)) = true := by
    intro m hm1 hm2 hmq hup hdown htie
    have hge : ¬ a < 2 ^ 53 := by omega
    have hqk : K * q = q * K := Nat.mul_comm _ _
    have hrne : IsRNE a (m * K) := by
      unfold IsRNE
      rw [if_neg hge, hl]
      have : 52 + k - 52 = k := by omega
      simp only [this, ← hK]
      refine ⟨Nat.mul_mod_left _ _, ?_, ?_, ?_⟩
      · rcases hmq with h | h
        · subst h; omega
        · subst h; rw [Nat.add_mul]; omega
      · rcases hmq with h | h
        · subst h; omega
        · subst h; rw [Nat.add_mul]; omega
      · intro _
        rw [Nat.mul_div_cancel _ hKpos]
        rcases hmq with h | h
        · subst h
          by_cases h2 : 2 * r = K
          · exact htie h2
          · exfalso; omega
        · subst h
          rw [Nat.add_mul] at *
          by_cases h2 : 2 * r = K
          · exact htie h2
          · exfalso; omega
    by_cases hc : m = 2 ^ 53
    · -- carry: the next binade, empty fraction
      have hb : (52 + k + 1023) * 2 ^ 52 + (m - 2 ^ 52) = (52 + k + 1024) * 2 ^ 52 + 0 := by omega
      have hdec := decode_normal (52 + k + 1024) 0 (by omega) (by omega) (by omega)
      rw [if_pos (by omega), hkk1, hK1] at hdec
      rw [hb]
      apply isNearestBits_of _ _ false _ 1 hdec (by simp)
      · exact Nat.mod_one _
      · have : (2 ^ 52 + 0) * (2 * K) / 1 = m * K := by
          rw [Nat.div_one, hc]
          have : 2 ^ 53 * K = 2 ^ 52 * (2 * K) := by rw [← Nat.mul_assoc]
          omega
        rw [this]; simpa using hrne
    · have hdec := decode_normal (52 + k + 1023) (m - 2 ^ 52) (by omega) (by omega) (by omega)
      rw [if_pos (by omega), hkk, ← hK] at hdec
      have : 2 ^ 52 + (m - 2 ^ 52) = m := by omega
      rw [this] at hdec
      apply isNearestBits_of _ _ false _ 1 hdec (by simp)
      · exact Nat.mod_one _
      · rw [Nat.div_one]; simpa using hrne
  by_cases hcond : 2 * r > K ∨ (2 * r = K ∧ q % 2 = 1)
  · rw [if_pos hcond]
    apply fin_of (q + 1) (by omega) (by omega) (Or.inr rfl) (fun _ => rfl)
    · intro h; omega
    · intro h; omega
  · rw [if_neg hcond]
    apply fin_of q (by omega) (by omega) (Or.inl rfl)
    · intro h; omega
    · intro _; rfl
    · intro h; omega

theorem natToDbl_rne (a : Nat) (ha : a < 2 ^ 64) : isNearestBits (a : Int) (natToDbl a) = true := by
  by_cases h0 : a = 0
  · subst h0
    have hd : decode 0 = .fin false 0 (2 ^ 1074) := by unfold decode; simp
    have hn : natToDbl 0 = 0 := by unfold natToDbl; simp
    rw [hn]
    apply isNearestBits_of _ _ false 0 (2 ^ 1074) hd (by simp) (Nat.zero_mod _)
    rw [Nat.zero_div]; unfold IsRNE; simp
  · by_cases hl : Nat.log2 a ≤ 52
    · exact natToDbl_small a h0 hl
    · have hl64 : Nat.log2 a < 64 := (@Nat.log2_lt a 64 h0).mpr ha
      have hlo := @Nat.log2_self_le a h0
      have hhi := @Nat.lt_log2_self a
      obtain ⟨k, hk⟩ : ∃ k, Nat.log2 a = 52 + k := ⟨Nat.log2 a - 52, by omega⟩
      have hk1 : 1 ≤ k := by omega
      have hk11 : k ≤ 11 := by omega
      have hcore := natToDbl_big_core a k (2 ^ k) rfl hk1 hk11
        (by rw [← Nat.pow_add, ← hk]; exact hlo)
        (by have : 2 ^ 53 * 2 ^ k = 2 ^ (Nat.log2 a + 1) := by rw [← Nat.pow_add, hk]; congr 1; omega
            rw [this]; exact hhi) hk
      unfold natToDbl
      rw [if_neg h0]
      simp only []
      rw [if_neg hl]
      have hkk : Nat.log2 a - 52 = k := by omega
      rw [hkk, hk]
      exact hcore

theorem natToDbl_lt (a : Nat) (ha : a < 2 ^ 64) : natToDbl a < 2 ^ 63 := by
  by_cases h0 : a = 0
  · subst h0; unfold natToDbl; simp
  · have hl64 : Nat.log2 a < 64 := (@Nat.log2_lt a 64 h0).mpr ha
    have hlo := @Nat.log2_self_le a h0
    have hhi := @Nat.lt_log2_self a
    unfold natToDbl
    rw [if_neg h0]
    simp only []
    by_cases hl : Nat.log2 a ≤ 52
    · rw [if_pos hl]
      generalize Nat.log2 a = l at *
      have hpp : 2 ^ l * 2 ^ (52 - l) = 2 ^ 52 := by rw [← Nat.pow_add]; congr 1; omega
      have hp1 : 2 ^ (l + 1) = 2 * 2 ^ l := by rw [Nat.pow_succ]; omega
      have hpos : 0 < 2 ^ (52 - l) := Nat.two_pow_pos _
      generalize 2 ^ (52 - l) = p at *
      generalize 2 ^ l = P at *
      have m2 : a * p < 2 * P * p := Nat.mul_lt_mul_of_pos_right (by omega) hpos
      have m3 : 2 * P * p = 2 * (P * p) := by rw [Nat.mul_assoc]
      omega
    · rw [if_neg hl]
      have hKpos : 0 < 2 ^ (Nat.log2 a - 52) := Nat.two_pow_pos _
      have hhi' : a < 2 ^ 53 * 2 ^ (Nat.log2 a - 52) := by
        have : 2 ^ 53 * 2 ^ (Nat.log2 a - 52) = 2 ^ (Nat.log2 a + 1) := by rw [← Nat.pow_add]; congr 1; omega
        rw [this]; exact hhi
      have q2 : a / 2 ^ (Nat.log2 a - 52) < 2 ^ 53 := (Nat.div_lt_iff_lt_mul hKpos).mpr hhi'
      generalize a / 2 ^ (Nat.log2 a - 52) = q at *
      generalize Nat.log2 a = l at *
      split <;> omega

theorem decode_neg (b : Nat) (hb : b < 2 ^ 63) :
    decode (2 ^ 63 + b) =
      match decode b with
      | .fin _ n d => .fin true n d
      | .inf _ => .inf true
      | .nan => .nan := by
  unfold decode
  have a1 : (2 ^ 63 + b) / 2 ^ 63 % 2 = 1 := by omega
  have a2 : (2 ^ 63 + b) / 2 ^ 52 % 2048 = b / 2 ^ 52 % 2048 := by omega
  have a3 : (2 ^ 63 + b) % 2 ^ 52 = b % 2 ^ 52 := by omega
  simp only [a1, a2, a3]
  split
  · split <;> simp
  · split
    · simp
    · split <;> simp

theorem intToDbl_rne (v : Int) (h1 : -(2 : Int) ^ 64 < v) (h2 : v < (2 : Int) ^ 64) :
    isNearestBits v (intToDbl v) = true := by
  unfold intToDbl
  have hna : v.natAbs < 2 ^ 64 := by omega
  have hr := natToDbl_rne v.natAbs hna
  by_cases hv : v < 0
  · rw [if_pos hv]
    unfold isNearestBits at hr ⊢
    rw [decode_neg _ (natToDbl_lt _ hna)]
    cases hd : decode (natToDbl v.natAbs) with
    | nan => rw [hd] at hr; simp at hr
    | inf n => rw [hd] at hr; simp at hr
    | fin n num den =>
      rw [hd] at hr
      simp only [Bool.and_eq_true, beq_iff_eq, decide_eq_true_eq] at hr ⊢
      have : v.natAbs = ((v.natAbs : Int)).natAbs := by simp
      rw [← this] at hr
      exact ⟨⟨by simp [hv], hr.1.2⟩, hr.2⟩
  · rw [if_neg hv]
    have : (v.natAbs : Int) = v := by omega
    rw [this] at hr; exact hr
end JsonC.Num
