/-
  Helper lemmas for C12: the token-level reading of json_pointer_set against the specification's
  set (Rfc6901.setTokens); positions (frame); the follow-up lookup.
-/
import JsonC.Lemmas.PointerSet

namespace JsonC.Pointer
open JsonC Generated Rfc6901

/-! ### objects: json_object_object_add at value level = OrdMap.add -/

theorem lookupIdx_isSome (k : Bytes) (kvs : List (Bytes × JVal)) :
    (lookupIdx k kvs).isSome = OrdMap.contains kvs k := by
  induction kvs with
  | nil => rfl
  | cons p kvs ih =>
    obtain ⟨k', v⟩ := p
    simp only [lookupIdx, OrdMap.contains, OrdMap.lookup]
    by_cases hk : k' = k
    · simp [hk]
    · simp only [if_neg hk]
      simp only [OrdMap.contains] at ih
      rw [← ih]
      cases lookupIdx k kvs <;> rfl

theorem replaceVal_eq (k : Bytes) (v : JVal) (kvs : List (Bytes × JVal)) :
    replaceVal k v kvs = OrdMap.replace kvs k v := by
  induction kvs with
  | nil => rfl
  | cons p kvs ih => obtain ⟨k', x⟩ := p; simp only [replaceVal, OrdMap.replace, ih]

theorem lookupIdx_replaceVal (k : Bytes) (v : JVal) (kvs : List (Bytes × JVal)) (i : Nat) (old : JVal)
    (h : lookupIdx k kvs = some (i, old)) : lookupIdx k (replaceVal k v kvs) = some (i, v) := by
  induction kvs generalizing i with
  | nil => cases h
  | cons p kvs ih =>
    obtain ⟨k', x⟩ := p
    simp only [lookupIdx] at h
    simp only [replaceVal]
    by_cases hk : k' = k
    · rw [if_pos hk] at h
      injection h with h; injection h with h1 h2
      subst h1
      rw [if_pos hk]; simp [lookupIdx, hk]
    · rw [if_neg hk] at h
      rw [if_neg hk]
      cases hl : lookupIdx k kvs with
      | none => rw [hl] at h; cases h
      | some r =>
        obtain ⟨j, w⟩ := r
        rw [hl] at h
        injection h with h; injection h with h1 h2
        subst h1
        simp only [] at h2
        subst h2
        simp [lookupIdx, hk, ih j hl]

theorem lookupIdx_append_new (k : Bytes) (v : JVal) (kvs : List (Bytes × JVal))
    (h : lookupIdx k kvs = none) : lookupIdx k (kvs ++ [(k, v)]) = some (kvs.length, v) := by
  induction kvs with
  | nil => simp [lookupIdx]
  | cons p kvs ih =>
    obtain ⟨k', x⟩ := p
    simp only [lookupIdx] at h
    by_cases hk : k' = k
    · rw [if_pos hk] at h; cases h
    · rw [if_neg hk] at h
      have hn : lookupIdx k kvs = none := by
        cases hl : lookupIdx k kvs with
        | none => rfl
        | some r => rw [hl] at h; cases h
      simp [lookupIdx, hk, ih hn]

/-- json_object_object_add at value level is the ordered map's add-or-replace; the member then
sits at the reported index -/
theorem objectAdd_spec (kvs : List (Bytes × JVal)) (k : Bytes) (v : JVal) :
    (objectAdd kvs k v).1 = OrdMap.add kvs k v ∧
    member k (OrdMap.add kvs k v) = some ((objectAdd kvs k v).2.1, v) := by
  unfold objectAdd OrdMap.add
  rw [← lookupIdx_isSome, member_eq_lookupIdx]
  cases hl : lookupIdx k kvs with
  | none =>
    simp only [Option.isSome_none, Bool.false_eq_true, if_false]
    exact ⟨trivial, lookupIdx_append_new k v kvs hl⟩
  | some r =>
    obtain ⟨i, old⟩ := r
    simp only [Option.isSome_some, if_true]
    rw [← replaceVal_eq]
    exact ⟨rfl, lookupIdx_replaceVal k v kvs i old hl⟩

/-! ### arrays -/

theorem ptrQuot : sizeMax / sizeofPtr = 2305843009213693951 := by decide
theorem sizeMax_val : sizeMax = 18446744073709551615 := rfl

theorem arrayAdd_spec (mem : Nat → Bool) (xs : List JVal) (v : JVal) (e0 : Errno) :
    (fits mem (xs.length + 1) = true → arrayAdd mem xs v e0 = .inr (xs ++ [v])) ∧
    (fits mem (xs.length + 1) = false → ∃ e, arrayAdd mem xs v e0 = .inl e) := by
  unfold fits arrayAdd grow
  rw [ptrQuot, sizeMax_val]
  constructor
  · intro h
    simp only [Bool.and_eq_true, decide_eq_true_eq] at h
    rw [if_neg (by omega), if_neg (by omega), if_pos h.2]
  · intro h
    by_cases h1 : xs.length > 18446744073709551615 - 1
    · rw [if_pos h1]; exact ⟨_, rfl⟩
    · rw [if_neg h1]
      by_cases h2 : xs.length + 1 > 2305843009213693951
      · rw [if_pos h2]; exact ⟨_, rfl⟩
      · rw [if_neg h2]
        have : mem (xs.length + 1) = false := by
          cases hm : mem (xs.length + 1) with
          | false => rfl
          | true => simp [hm] at h; omega
        rw [this]; exact ⟨_, rfl⟩

theorem arrayPutIdx_spec (mem : Nat → Bool) (xs : List JVal) (i : Nat) (v : JVal) (e0 : Errno) :
    (fits mem (i + 1) = true →
        arrayPutIdx mem xs (min i sizeMax) v e0 =
          .inr (putIdx xs i v, match xs[i]? with | some old => liveNodes old | none => 0)) ∧
    (fits mem (i + 1) = false → ∃ e, arrayPutIdx mem xs (min i sizeMax) v e0 = .inl e) := by
  unfold fits arrayPutIdx grow
  rw [ptrQuot, sizeMax_val]
  constructor
  · intro h
    simp only [Bool.and_eq_true, decide_eq_true_eq] at h
    have hmin : min i 18446744073709551615 = i := Nat.min_eq_left (by omega)
    rw [hmin, if_neg (by omega), if_neg (by omega), if_pos h.2]
    simp only [putIdx]
    cases hx : xs[i]? with
    | none =>
      have : ¬ i < xs.length := by
        intro hlt; rw [List.getElem?_eq_getElem hlt] at hx; cases hx
      rw [if_neg this]
    | some old =>
      have : i < xs.length := by
        by_cases hlt : i < xs.length
        · exact hlt
        · rw [List.getElem?_eq_none (by omega)] at hx; cases hx
      rw [if_pos this]
  · intro h
    by_cases h1 : min i 18446744073709551615 > 18446744073709551615 - 1
    · rw [if_pos h1]; exact ⟨_, rfl⟩
    · rw [if_neg h1]
      have hmin : min i 18446744073709551615 = i := Nat.min_eq_left (by
        rcases Nat.le_total i 18446744073709551615 with hle | hle
        · exact hle
        · rw [Nat.min_eq_right hle] at h1; omega)
      rw [hmin]
      by_cases h2 : i + 1 > 2305843009213693951
      · rw [if_pos h2]; exact ⟨_, rfl⟩
      · rw [if_neg h2]
        have : mem (i + 1) = false := by
          cases hm : mem (i + 1) with
          | false => rfl
          | true => simp [hm] at h; omega
        rw [this]; exact ⟨_, rfl⟩


/-- json_pointer_set_single_path on the last token against the specification's `setLast` -/
theorem setLastC_setLast (mem : Nat → Bool) (par : JVal) (tok : Bytes) (v : JVal) :
    setLast mem par tok v =
      match setLastC mem par tok v with
      | .inl _ => none
      | .inr r => some (r.1, r.2.1) := by
  cases par with
  | arr xs =>
    simp only [setLast, setLastC, unescape_eq_dash, arrayIndex_unescape]
    by_cases hd : tok = [45]
    · simp only [hd, if_true]
      obtain ⟨a1, a2⟩ := arrayAdd_spec mem xs v .none
      cases hf : fits mem (xs.length + 1) with
      | true => rw [a1 hf]; rfl
      | false => obtain ⟨e, he⟩ := a2 hf; rw [he]; rfl
    · simp only [hd, if_false]
      cases hv : arrayIndex tok with
      | none => rw [isValidIndex_of_arrayIndex_none tok hv]
      | some i =>
        obtain ⟨e, hiv, _⟩ := isValidIndex_of_arrayIndex_some tok i hv
        rw [hiv]
        simp only []
        obtain ⟨a1, a2⟩ := arrayPutIdx_spec mem xs i v (if e = true then Errno.ERANGE else Errno.none)
        cases hf : fits mem (i + 1) with
        | true =>
          have hmin : min i sizeMax = i := by
            have : i + 1 ≤ sizeMax / sizeofPtr := by
              simp only [fits, Bool.and_eq_true, decide_eq_true_eq] at hf; exact hf.1
            rw [ptrQuot] at this
            exact Nat.min_eq_left (by rw [sizeMax_val]; omega)
          rw [a1 hf, hmin]; rfl
        | false => obtain ⟨e', he⟩ := a2 hf; rw [he]; rfl
  | obj kvs =>
    obtain ⟨o1, o2⟩ := objectAdd_spec kvs (unescape tok) v
    simp only [setLast, setLastC, o2, Option.map_some, o1]
  | _ => rfl

theorem withChild_eq (t : JVal) (i : Nat) (c : JVal) : withChild t i c = setChild t i c := by
  cases t <;> rfl

theorem step_child (t : JVal) (tok : Bytes) (i : Nat) (c : JVal) (h : step t tok = some (i, c)) :
    child t i = some c := by
  cases t with
  | arr xs =>
    simp only [step] at h
    cases hv : arrayIndex (unescape tok) with
    | none => rw [hv] at h; cases h
    | some j =>
      rw [hv] at h
      simp only [] at h
      cases hx : xs[j]? with
      | none => rw [hx] at h; cases h
      | some c' =>
        rw [hx] at h
        simp only [Option.map_some] at h
        injection h with h; injection h with h1 h2
        subst h1 h2
        exact hx
  | obj kvs =>
    simp only [step, member_eq_lookupIdx] at h
    simp only [child, lookupIdx_getElem _ _ _ _ h, Option.map_some]
  | _ => cases h

theorem setTokens_cons2 (mem : Nat → Bool) (t : JVal) (tok t2 : Bytes) (ts : List Bytes) (v : JVal) :
    setTokens mem t (tok :: t2 :: ts) v =
      match step t tok with
      | none => none
      | some (i, c) => (setTokens mem c (t2 :: ts) v).map (fun r => (withChild t i r.1, i :: r.2)) := by
  rw [setTokens]
  · cases step t tok <;> rfl
  · intro h; cases h

/-- the specification's set on `init ++ [last]`: resolve `init`, set the last token there, and
put the new parent back in place -/
theorem setTokens_snoc (mem : Nat → Bool) (init : List Bytes) (last : Bytes) (v : JVal) : ∀ (t : JVal),
    setTokens mem t (init ++ [last]) v =
      match evalTokens t init with
      | none => none
      | some (ppos, par) => (setLast mem par last v).map (fun r => (replaceAt t ppos r.1, ppos ++ [r.2])) := by
  induction init with
  | nil =>
    intro t
    simp only [List.nil_append, evalTokens, setTokens, replaceAt, List.nil_append]
  | cons tok init ih =>
    intro t
    obtain ⟨t2, ts, hts⟩ : ∃ t2 ts, init ++ [last] = t2 :: ts := by
      cases init with
      | nil => exact ⟨last, [], rfl⟩
      | cons a b => exact ⟨a, b ++ [last], rfl⟩
    rw [List.cons_append, hts, setTokens_cons2, ← hts]
    simp only [evalTokens]
    cases hst : step t tok with
    | none => rfl
    | some r =>
      obtain ⟨i, c⟩ := r
      have hch := step_child t tok i c hst
      simp only [ih c]
      cases evalTokens c init with
      | none => rfl
      | some q =>
        obtain ⟨pp, par⟩ := q
        simp only [Option.map_some]
        cases setLast mem par last v with
        | none => rfl
        | some r2 =>
          simp only [Option.map_some, replaceAt, hch, withChild_eq, List.cons_append]



/-- what the model's set result must be, given the specification's answer -/
def SetAgrees (r : SetRes) (t : JVal) : Option (JVal × List Nat) → Prop
  | some (t', loc) => r.rc = 0 ∧ r.tree = t' ∧ r.loc = some loc ∧ r.owned = true
  | none => r.rc = -1 ∧ r.tree = t ∧ r.loc = none ∧ r.owned = false ∧ r.freed = 0

theorem mkSetRes_agrees (mem : Nat → Bool) (t : JVal) (ppos : List Nat) (par : JVal) (last : Bytes) (v : JVal) :
    SetAgrees (mkSetRes t ppos (setLastC mem par last v)) t
      ((setLast mem par last v).map (fun r => (replaceAt t ppos r.1, ppos ++ [r.2]))) := by
  rw [setLastC_setLast]
  cases setLastC mem par last v with
  | inl e => exact ⟨rfl, rfl, rfl, rfl, rfl⟩
  | inr r => obtain ⟨np, i, fr⟩ := r; exact ⟨rfl, rfl, rfl, rfl⟩

theorem setToks_spec (mem : Nat → Bool) (t : JVal) (init : List Bytes) (last : Bytes) (v : JVal)
    (hs : Sized t) :
    SetAgrees (setToks mem t init last v) t (setTokens mem t (init ++ [last]) v) := by
  rw [setTokens_snoc]
  by_cases hne : init = []
  · subst hne
    simp only [evalTokens, setToks]
    exact mkSetRes_agrees mem t [] t last v
  · rw [setToks_of_walk mem t init hne last v]
    obtain ⟨w1, w2⟩ := walkC_evalTokens init hne t hs
    cases he : evalTokens t init with
    | none =>
      obtain ⟨e, hw, _⟩ := w2 he
      rw [hw]
      have : (GetRes.fail e).rc ≠ 0 := by show (-1 : Int) ≠ 0; decide
      rw [if_pos this]
      exact ⟨rfl, rfl, rfl, rfl, rfl⟩
    | some q =>
      obtain ⟨ppos, par⟩ := q
      obtain ⟨h1, h2, h3⟩ := w1 ppos par he
      rw [if_neg (by rw [h1]; decide), h2, h3]
      exact mkSetRes_agrees mem t ppos par last v

theorem splitSlash_snoc (body : Bytes) :
    splitSlash body = (splitSlash body).dropLast ++ [(splitSlash body).getLast?.getD []] := by
  have hne : splitSlash body ≠ [] := by
    obtain ⟨x, xs, h⟩ := splitSlash_ne_nil body; rw [h]; simp
  obtain ⟨i, x, h⟩ := exists_snoc _ hne
  rw [h, dropLast_snoc, getLast?_snoc]; rfl

/-- json_pointer_set at token level against the specification's set -/
theorem setTok_spec (mem : Nat → Bool) (t : JVal) (p : Bytes) (v : JVal) (hs : Sized t) :
    SetAgrees (setTok mem t p v) t (Rfc6901.set mem t p v) := by
  match p with
  | [] => exact ⟨rfl, rfl, rfl, rfl⟩
  | c :: body =>
    by_cases hc : c = 47
    · subst hc
      simp only [Rfc6901.set, tokens, if_true, setTok, ne_eq, not_true_eq_false, if_false]
      have := setToks_spec mem t (splitSlash body).dropLast ((splitSlash body).getLast?.getD []) v hs
      rw [← splitSlash_snoc] at this
      exact this
    · simp only [Rfc6901.set, tokens, setTok, ne_eq, hc, not_false_eq_true, if_true, if_false]
      exact ⟨rfl, rfl, rfl, rfl, rfl⟩



/-! ### positions -/

theorem child_setChild_same (t : JVal) (i : Nat) (c c' : JVal) (h : child t i = some c) :
    child (setChild t i c') i = some c' := by
  cases t with
  | arr xs =>
    simp only [child] at h
    have hi : i < xs.length := by
      by_cases hlt : i < xs.length
      · exact hlt
      · rw [List.getElem?_eq_none (by omega)] at h; cases h
    simp [child, setChild, hi]
  | obj kvs =>
    simp only [child] at h
    cases hk : kvs[i]? with
    | none => rw [hk] at h; cases h
    | some kv =>
      obtain ⟨k, x⟩ := kv
      have hi : i < kvs.length := by
        by_cases hlt : i < kvs.length
        · exact hlt
        · rw [List.getElem?_eq_none (by omega)] at hk; cases hk
      simp [child, setChild, hi]
  | _ => cases h

theorem child_setChild_other (t : JVal) (i j : Nat) (c' : JVal) (hij : j ≠ i) :
    child (setChild t i c') j = child t j := by
  cases t with
  | arr xs => simp [child, setChild, Ne.symm hij]
  | obj kvs =>
    simp only [child, setChild]
    cases hk : kvs[i]? with
    | none => rfl
    | some kv => obtain ⟨k, x⟩ := kv; simp [Ne.symm hij]
  | _ => rfl

theorem nodeAt_append (t : JVal) (a b : List Nat) :
    nodeAt t (a ++ b) = match nodeAt t a with | some x => nodeAt x b | none => none := by
  induction a generalizing t with
  | nil => rfl
  | cons i a ih =>
    simp only [List.cons_append, nodeAt]
    cases child t i with
    | none => rfl
    | some c => exact ih c

/-- inside the replaced node: what was put there -/
theorem nodeAt_replaceAt_under (t : JVal) (ppos : List Nat) (n par : JVal) (r : List Nat)
    (h : nodeAt t ppos = some par) : nodeAt (replaceAt t ppos n) (ppos ++ r) = nodeAt n r := by
  induction ppos generalizing t with
  | nil => rfl
  | cons i is ih =>
    simp only [nodeAt] at h
    cases hc : child t i with
    | none => rw [hc] at h; cases h
    | some c =>
      rw [hc] at h
      simp only [replaceAt, hc, List.cons_append, nodeAt, child_setChild_same t i c _ hc]
      exact ih c h

/-- away from the replaced node: nothing changes -/
theorem nodeAt_replaceAt_other (t : JVal) (ppos : List Nat) (n : JVal) (q : List Nat)
    (h1 : ¬ ppos <+: q) (h2 : ¬ q <+: ppos) : nodeAt (replaceAt t ppos n) q = nodeAt t q := by
  induction ppos generalizing t q with
  | nil => exact absurd (List.nil_prefix) h1
  | cons i is ih =>
    cases q with
    | nil => exact absurd (List.nil_prefix) h2
    | cons j qs =>
      simp only [replaceAt]
      cases hc : child t i with
      | none => rfl
      | some c =>
        simp only [nodeAt]
        by_cases hij : j = i
        · subst hij
          rw [child_setChild_same t j c _ hc, hc]
          apply ih
          · intro hp; apply h1; exact (List.cons_prefix_cons).mpr ⟨rfl, hp⟩
          · intro hp; apply h2; exact (List.cons_prefix_cons).mpr ⟨rfl, hp⟩
        · rw [child_setChild_other t i j _ hij]

theorem evalTokens_nodeAt (toks : List Bytes) : ∀ (t : JVal) (pos : List Nat) (v : JVal),
    evalTokens t toks = some (pos, v) → nodeAt t pos = some v := by
  induction toks with
  | nil =>
    intro t pos v h
    simp only [evalTokens] at h
    injection h with h; injection h with h1 h2
    subst h1 h2; rfl
  | cons tok toks ih =>
    intro t pos v h
    simp only [evalTokens] at h
    cases hst : step t tok with
    | none => rw [hst] at h; cases h
    | some r =>
      obtain ⟨i, c⟩ := r
      rw [hst] at h
      simp only [] at h
      cases he : evalTokens c toks with
      | none => rw [he] at h; cases h
      | some q =>
        obtain ⟨pp, w⟩ := q
        rw [he] at h
        simp only [Option.map_some] at h
        injection h with h; injection h with h1 h2
        subst h1 h2
        simp only [nodeAt, step_child t tok i c hst]
        exact ih c pp w he



theorem replaceVal_getElem_other (k : Bytes) (v : JVal) (kvs : List (Bytes × JVal)) (i : Nat) (old : JVal)
    (h : lookupIdx k kvs = some (i, old)) (j : Nat) (hj : j ≠ i) :
    (replaceVal k v kvs)[j]? = kvs[j]? := by
  induction kvs generalizing i j old with
  | nil => cases h
  | cons p kvs ih =>
    obtain ⟨k', x⟩ := p
    simp only [lookupIdx] at h
    simp only [replaceVal]
    by_cases hk : k' = k
    · rw [if_pos hk] at h
      injection h with h; injection h with h1 _
      rw [if_pos hk]
      cases j with
      | zero => exact absurd h1 hj
      | succ j => rfl
    · rw [if_neg hk] at h
      rw [if_neg hk]
      cases hl : lookupIdx k kvs with
      | none => rw [hl] at h; cases h
      | some r =>
        obtain ⟨i', w⟩ := r
        rw [hl] at h
        injection h with h; injection h with h1 _
        cases j with
        | zero => rfl
        | succ j =>
          simp only [List.getElem?_cons_succ]
          exact ih i' w hl j (by intro e; apply hj; rw [← h1, e])

theorem arrayAdd_inr (mem : Nat → Bool) (xs : List JVal) (v : JVal) (e0 : Errno) (xs' : List JVal)
    (h : arrayAdd mem xs v e0 = .inr xs') : xs' = xs ++ [v] := by
  unfold arrayAdd at h
  by_cases h1 : xs.length > sizeMax - 1
  · rw [if_pos h1] at h; cases h
  · rw [if_neg h1] at h
    cases hg : grow mem (xs.length + 1) with
    | refused => rw [hg] at h; cases h
    | nomem => rw [hg] at h; cases h
    | ok => rw [hg] at h; injection h with h; exact h.symm

theorem arrayPutIdx_inr (mem : Nat → Bool) (xs : List JVal) (idx : Nat) (v : JVal) (e0 : Errno)
    (xs' : List JVal) (fr : Nat) (h : arrayPutIdx mem xs idx v e0 = .inr (xs', fr)) :
    (∃ old, xs[idx]? = some old ∧ xs' = xs.set idx v ∧ fr = liveNodes old) ∨
    (xs[idx]? = none ∧ xs' = xs ++ List.replicate (idx - xs.length) .null ++ [v] ∧ fr = 0) := by
  unfold arrayPutIdx at h
  by_cases h1 : idx > sizeMax - 1
  · rw [if_pos h1] at h; cases h
  · rw [if_neg h1] at h
    cases hg : grow mem (idx + 1) with
    | refused => rw [hg] at h; cases h
    | nomem => rw [hg] at h; cases h
    | ok =>
      rw [hg] at h
      cases hx : xs[idx]? with
      | some old =>
        rw [hx] at h
        injection h with h; injection h with h1 h2
        exact Or.inl ⟨old, rfl, h1.symm, h2.symm⟩
      | none =>
        rw [hx] at h
        injection h with h; injection h with h1 h2
        exact Or.inr ⟨rfl, h1.symm, h2.symm⟩

/-- what json_pointer_set_single_path does to the children of the parent: the target child is the
value, every other existing child stays where it is -/
theorem setLastC_children (mem : Nat → Bool) (par : JVal) (last : Bytes) (v np : JVal) (i fr : Nat)
    (h : setLastC mem par last v = .inr (np, i, fr)) :
    child np i = some v ∧ ∀ j x, j ≠ i → child par j = some x → child np j = some x := by
  cases par with
  | arr xs =>
    simp only [setLastC] at h
    by_cases hd : last = [45]
    · rw [if_pos hd] at h
      cases ha : arrayAdd mem xs v .none with
      | inl e => rw [ha] at h; cases h
      | inr xs' =>
        rw [ha] at h
        have hxs : xs' = xs ++ [v] := arrayAdd_inr mem xs v _ xs' ha
        injection h with h; injection h with h1 h2; injection h2 with h2 h3
        subst h1 h2 hxs
        refine ⟨by simp [child], ?_⟩
        intro j x hj hc
        simp only [child] at hc ⊢
        have hlt : j < xs.length := by
          by_cases hlt : j < xs.length
          · exact hlt
          · rw [List.getElem?_eq_none (by omega)] at hc; cases hc
        rw [List.getElem?_append_left hlt]; exact hc
    · rw [if_neg hd] at h
      cases hv : isValidIndex last with
      | none => rw [hv] at h; cases h
      | some r =>
        obtain ⟨idx, er⟩ := r
        rw [hv] at h
        simp only [] at h
        cases hp : arrayPutIdx mem xs idx v (if er = true then Errno.ERANGE else Errno.none) with
        | inl e => rw [hp] at h; cases h
        | inr r2 =>
          obtain ⟨xs', fr'⟩ := r2
          rw [hp] at h
          injection h with h; injection h with h1 h2; injection h2 with h2 h3
          subst h1 h2
          rcases arrayPutIdx_inr mem xs idx v _ xs' fr' hp with ⟨old, hx, hxs, _⟩ | ⟨hx, hxs, _⟩
          · subst hxs
            have hlt : idx < xs.length := by
              by_cases hlt : idx < xs.length
              · exact hlt
              · rw [List.getElem?_eq_none (by omega)] at hx; cases hx
            refine ⟨by simp [child, hlt], ?_⟩
            intro j x hj hc
            simp only [child] at hc ⊢
            rw [List.getElem?_set_ne (Ne.symm hj)]; exact hc
          · subst hxs
            have hge : xs.length ≤ idx := by
              by_cases hlt : idx < xs.length
              · rw [List.getElem?_eq_getElem hlt] at hx; cases hx
              · omega
            refine ⟨?_, ?_⟩
            · simp only [child]
              rw [List.getElem?_append_right (by simp; omega)]
              have : idx - (xs ++ List.replicate (idx - xs.length) JVal.null).length = 0 := by
                simp; omega
              rw [this]; rfl
            · intro j x hj hc
              simp only [child] at hc ⊢
              have hlt : j < xs.length := by
                by_cases hlt : j < xs.length
                · exact hlt
                · rw [List.getElem?_eq_none (by omega)] at hc; cases hc
              rw [List.append_assoc, List.getElem?_append_left hlt]; exact hc
  | obj kvs =>
    simp only [setLastC, objectAdd] at h
    cases hl : lookupIdx (unescape last) kvs with
    | none =>
      rw [hl] at h
      injection h with h; injection h with h1 h2; injection h2 with h2 h3
      subst h1 h2
      refine ⟨by simp [child], ?_⟩
      intro j x hj hc
      simp only [child] at hc ⊢
      have hlt : j < kvs.length := by
        by_cases hlt : j < kvs.length
        · exact hlt
        · rw [List.getElem?_eq_none (by omega)] at hc; cases hc
      rw [List.getElem?_append_left hlt]; exact hc
    | some r =>
      obtain ⟨i', old⟩ := r
      rw [hl] at h
      injection h with h; injection h with h1 h2; injection h2 with h2 h3
      subst h1 h2
      refine ⟨?_, ?_⟩
      · simp only [child, lookupIdx_getElem _ _ _ _ (lookupIdx_replaceVal _ v kvs i' old hl), Option.map_some]
      · intro j x hj hc
        simp only [child] at hc ⊢
        rw [replaceVal_getElem_other _ v kvs i' old hl j hj]; exact hc
  | _ => cases h



/-- a successful token-level set: the parent resolved, the last step produced a new parent -/
theorem setToks_shape (mem : Nat → Bool) (t : JVal) (init : List Bytes) (last : Bytes) (v : JVal)
    (hs : Sized t) (hrc : (setToks mem t init last v).rc = 0) :
    ∃ ppos par np i fr, evalTokens t init = some (ppos, par) ∧ Sized par ∧
      setLastC mem par last v = .inr (np, i, fr) ∧
      setToks mem t init last v = mkSetRes t ppos (.inr (np, i, fr)) := by
  by_cases hne : init = []
  · subst hne
    simp only [setToks] at hrc ⊢
    cases hl : setLastC mem t last v with
    | inl e => rw [hl] at hrc; cases hrc
    | inr r => obtain ⟨np, i, fr⟩ := r; exact ⟨[], t, np, i, fr, rfl, hs, hl, rfl⟩
  · rw [setToks_of_walk mem t init hne last v] at hrc ⊢
    obtain ⟨w1, w2⟩ := walkC_evalTokens init hne t hs
    obtain ⟨s1, _⟩ := walkC_snoc init [] t [] hs
    cases he : evalTokens t init with
    | none =>
      obtain ⟨e, hw, _⟩ := w2 he
      rw [hw] at hrc
      have : (GetRes.fail e).rc ≠ 0 := by show (-1 : Int) ≠ 0; decide
      rw [if_pos this] at hrc; cases hrc
    | some q =>
      obtain ⟨ppos, par⟩ := q
      obtain ⟨h1, h2, h3⟩ := w1 ppos par he
      have hsp : Sized par := (s1 ppos par he).1
      rw [if_neg (by rw [h1]; decide), h2, h3] at hrc ⊢
      cases hl : setLastC mem par last v with
      | inl e => rw [hl] at hrc; cases hrc
      | inr r => obtain ⟨np, i, fr⟩ := r; exact ⟨ppos, par, np, i, fr, rfl, hsp, hl, rfl⟩

/-- how many nodes the last step releases: the node that stood at the target, if any -/
theorem setLastC_freed (mem : Nat → Bool) (par : JVal) (last : Bytes) (v np : JVal) (i fr : Nat)
    (h : setLastC mem par last v = .inr (np, i, fr)) :
    fr = match step par last with | some (_, old) => liveNodes old | none => 0 := by
  cases par with
  | arr xs =>
    simp only [setLastC] at h
    simp only [step, arrayIndex_unescape]
    by_cases hd : last = [45]
    · rw [if_pos hd] at h
      subst hd
      cases ha : arrayAdd mem xs v .none with
      | inl e => rw [ha] at h; cases h
      | inr xs' =>
        rw [ha] at h
        injection h with h; injection h with h1 h2; injection h2 with h2 h3
        rw [← h3]; rfl
    · rw [if_neg hd] at h
      cases hai : arrayIndex last with
      | none => rw [isValidIndex_of_arrayIndex_none last hai] at h; cases h
      | some k =>
        obtain ⟨e, hiv, _⟩ := isValidIndex_of_arrayIndex_some last k hai
        rw [hiv] at h
        simp only [] at h
        obtain ⟨a1, a2⟩ := arrayPutIdx_spec mem xs k v (if e = true then Errno.ERANGE else Errno.none)
        cases hf : fits mem (k + 1) with
        | false => obtain ⟨e', he⟩ := a2 hf; rw [he] at h; cases h
        | true =>
          rw [a1 hf] at h
          injection h with h; injection h with h1 h2; injection h2 with h2 h3
          rw [← h3]
          cases hx : xs[k]? with
          | none => simp [hx]
          | some old => simp [hx]
  | obj kvs =>
    simp only [setLastC, objectAdd] at h
    simp only [step, member_eq_lookupIdx]
    cases hl : lookupIdx (unescape last) kvs with
    | none =>
      rw [hl] at h
      injection h with h; injection h with h1 h2; injection h2 with h2 h3
      exact h3.symm
    | some r =>
      obtain ⟨i', old⟩ := r
      rw [hl] at h
      injection h with h; injection h with h1 h2; injection h2 with h2 h3
      exact h3.symm
  | _ => cases h

/-- the nodes a set releases, read off the specification: the whole old document for "", else the
node that RFC evaluation of the pointer reaches in the old document (none: nothing is released) -/
def displaced (t : JVal) (p : Bytes) : Nat :=
  match p with
  | [] => liveNodes t
  | _ => match eval t p with
    | some (_, old) => liveNodes old
    | none => 0

theorem setTok_freed (mem : Nat → Bool) (t : JVal) (p : Bytes) (v : JVal) (hs : Sized t)
    (hrc : (setTok mem t p v).rc = 0) : (setTok mem t p v).freed = displaced t p := by
  match p with
  | [] => rfl
  | c :: body =>
    by_cases hc : c = 47
    · subst hc
      simp only [setTok, ne_eq, not_true_eq_false, if_false] at hrc ⊢
      obtain ⟨ppos, par, np, i, fr, he, _, hl, hshape⟩ := setToks_shape mem t _ _ v hs hrc
      rw [hshape]
      simp only [displaced, eval, tokens, if_true]
      rw [splitSlash_snoc body, evalTokens_snoc, he]
      simp only [mkSetRes]
      rw [setLastC_freed mem par _ v np i fr hl]
      cases step par ((splitSlash body).getLast?.getD []) with
      | none => rfl
      | some r => rfl
    · simp only [setTok, ne_eq, hc, not_false_eq_true, if_true] at hrc
      cases hrc

/-- frame, at token level -/
theorem setTok_frame (mem : Nat → Bool) (t : JVal) (p : Bytes) (v : JVal) (hs : Sized t)
    (hrc : (setTok mem t p v).rc = 0) :
    ∃ loc, (setTok mem t p v).loc = some loc ∧ nodeAt (setTok mem t p v).tree loc = some v ∧
      ∀ q x, nodeAt t q = some x → ¬ loc <+: q → ¬ q <+: loc → nodeAt (setTok mem t p v).tree q = some x := by
  match p with
  | [] =>
    refine ⟨[], rfl, rfl, ?_⟩
    intro q x _ h1 _
    exact absurd List.nil_prefix h1
  | c :: body =>
    by_cases hc : c = 47
    · subst hc
      simp only [setTok, ne_eq, not_true_eq_false, if_false] at hrc ⊢
      obtain ⟨ppos, par, np, i, fr, he, _, hl, hshape⟩ := setToks_shape mem t _ _ v hs hrc
      rw [hshape]
      have hpar : nodeAt t ppos = some par := evalTokens_nodeAt _ t ppos par he
      obtain ⟨hci, hcj⟩ := setLastC_children mem par _ v np i fr hl
      refine ⟨ppos ++ [i], rfl, ?_, ?_⟩
      · simp only [mkSetRes]
        rw [nodeAt_replaceAt_under t ppos np par [i] hpar]
        simp only [nodeAt, hci]
      · intro q x hq h1 h2
        simp only [mkSetRes]
        by_cases hp : ppos <+: q
        · obtain ⟨r, hr⟩ := hp
          subst hr
          rw [nodeAt_replaceAt_under t ppos np par r hpar]
          rw [nodeAt_append, hpar] at hq
          simp only [] at hq
          cases r with
          | nil => simp at h2
          | cons j qs =>
            have hji : j ≠ i := by
              intro e; subst e
              apply h1
              exact ⟨qs, by simp⟩
            simp only [nodeAt] at hq ⊢
            cases hcp : child par j with
            | none => rw [hcp] at hq; cases hq
            | some y =>
              rw [hcp] at hq
              rw [hcj j y hji hcp]; exact hq
        · have hnp : ¬ q <+: ppos := by
            intro hqp; apply h2
            exact List.IsPrefix.trans hqp (List.prefix_append ppos [i])
          rw [nodeAt_replaceAt_other t ppos np q hp hnp]; exact hq
    · simp only [setTok, ne_eq, hc, not_false_eq_true, if_true] at hrc
      cases hrc



/-! ### the follow-up lookup, at the level of the C steps (no size hypothesis on the new tree) -/

/-- the chain of C steps over a token list -/
def chainC : JVal → List Bytes → Option (List Nat × JVal)
  | t, [] => some ([], t)
  | t, tok :: rest =>
    match stepC t tok with
    | .fail _ => none
    | .found i c => (chainC c rest).map (fun r => (i :: r.1, r.2))

theorem chainC_eq_eval (toks : List Bytes) : ∀ (t : JVal), Sized t → chainC t toks = evalTokens t toks := by
  induction toks with
  | nil => intro t _; rfl
  | cons tok toks ih =>
    intro t hs
    have hstep := stepC_step t tok hs
    simp only [chainC, evalTokens]
    cases hst : step t tok with
    | none =>
      rw [hst] at hstep
      rcases hstep with h | h <;> rw [h]
    | some r =>
      obtain ⟨i, c⟩ := r
      rw [hst] at hstep
      simp only [] at hstep
      rw [hstep]
      simp only []
      rw [ih c (Sized_child t c i hs (stepC_child t tok i c hstep))]

theorem walkC_chainC (init : List Bytes) (last : Bytes) : ∀ (t : JVal) (base ppos : List Nat) (par : JVal) (i : Nat) (c : JVal),
    chainC t init = some (ppos, par) → stepC par last = .found i c →
    walkC t (init ++ [last]) base = finalRes par (base ++ ppos) last i c := by
  induction init with
  | nil =>
    intro t base ppos par i c h hst
    simp only [chainC] at h
    injection h with h; injection h with h1 h2
    subst h1 h2
    show walkC t [last] base = _
    rw [walkC, hst, List.append_nil]
  | cons tok init ih =>
    intro t base ppos par i c h hst
    obtain ⟨t2, ts, hts⟩ : ∃ t2 ts, init ++ [last] = t2 :: ts := by
      cases init with
      | nil => exact ⟨last, [], rfl⟩
      | cons a b => exact ⟨a, b ++ [last], rfl⟩
    rw [List.cons_append, hts, walkC_cons2, ← hts]
    simp only [chainC] at h
    cases hs : stepC t tok with
    | fail e => rw [hs] at h; cases h
    | found j d =>
      rw [hs] at h
      simp only [] at h ⊢
      cases hc : chainC d init with
      | none => rw [hc] at h; cases h
      | some q =>
        obtain ⟨pp, par'⟩ := q
        rw [hc] at h
        simp only [Option.map_some] at h
        injection h with h; injection h with h1 h2
        subst h1 h2
        rw [ih d (base ++ [j]) pp par' i c hc hst]
        simp [List.append_assoc]

theorem lookupIdx_set (k : Bytes) (kvs : List (Bytes × JVal)) (i : Nat) (c c' : JVal)
    (h : lookupIdx k kvs = some (i, c)) : lookupIdx k (kvs.set i (k, c')) = some (i, c') := by
  induction kvs generalizing i c with
  | nil => cases h
  | cons p kvs ih =>
    obtain ⟨k', x⟩ := p
    simp only [lookupIdx] at h
    by_cases hk : k' = k
    · rw [if_pos hk] at h
      injection h with h; injection h with h1 _
      subst h1
      simp [lookupIdx]
    · rw [if_neg hk] at h
      cases hl : lookupIdx k kvs with
      | none => rw [hl] at h; cases h
      | some r =>
        obtain ⟨j, w⟩ := r
        rw [hl] at h
        injection h with h; injection h with h1 _
        subst h1
        simp [lookupIdx, hk, ih j w hl]

/-- replacing the child a step selects does not change which child the step selects -/
theorem stepC_setChild (t : JVal) (tok : Bytes) (i : Nat) (c c' : JVal) (h : stepC t tok = .found i c) :
    stepC (setChild t i c') tok = .found i c' := by
  cases t with
  | arr xs =>
    simp only [stepC] at h
    cases hv : isValidIndex tok with
    | none => rw [hv] at h; cases h
    | some r =>
      obtain ⟨idx, e⟩ := r
      rw [hv] at h
      simp only [] at h
      by_cases hi : idx ≥ xs.length
      · rw [if_pos hi] at h; cases h
      · rw [if_neg hi] at h
        cases hx : xs[idx]? with
        | none => rw [hx] at h; cases h
        | some c0 =>
          rw [hx] at h
          injection h with h1 h2
          subst h1
          simp only [setChild, stepC, hv, List.length_set, if_neg hi]
          have : idx < xs.length := by omega
          simp [this]
  | obj kvs =>
    simp only [stepC] at h
    cases hl : lookupIdx (unescape tok) kvs with
    | none => rw [hl] at h; cases h
    | some r =>
      obtain ⟨j, w⟩ := r
      rw [hl] at h
      injection h with h1 h2
      subst h1 h2
      simp only [setChild, lookupIdx_getElem _ _ _ _ hl, stepC, lookupIdx_set _ kvs j w c' hl]
  | _ => cases h

theorem chainC_replaceAt (init : List Bytes) : ∀ (t : JVal) (ppos : List Nat) (par np : JVal),
    chainC t init = some (ppos, par) → chainC (replaceAt t ppos np) init = some (ppos, np) := by
  induction init with
  | nil =>
    intro t ppos par np h
    simp only [chainC] at h
    injection h with h; injection h with h1 h2
    subst h1 h2; rfl
  | cons tok init ih =>
    intro t ppos par np h
    simp only [chainC] at h
    cases hs : stepC t tok with
    | fail e => rw [hs] at h; cases h
    | found j d =>
      rw [hs] at h
      simp only [] at h
      cases hc : chainC d init with
      | none => rw [hc] at h; cases h
      | some q =>
        obtain ⟨pp, par'⟩ := q
        rw [hc] at h
        simp only [Option.map_some] at h
        injection h with h; injection h with h1 h2
        subst h1 h2
        simp only [replaceAt, stepC_child t tok j d hs, chainC, stepC_setChild t tok j d _ hs,
          ih d pp par' np hc, Option.map_some]

/-- after json_pointer_set_single_path succeeded, the same token selects the value in the new
parent — unless it was the append token `-` on an array -/
theorem setLastC_stepC (mem : Nat → Bool) (par : JVal) (last : Bytes) (v np : JVal) (i fr : Nat)
    (h : setLastC mem par last v = .inr (np, i, fr))
    (hnd : ∀ xs, par = .arr xs → last ≠ [45]) : stepC np last = .found i v := by
  cases par with
  | arr xs =>
    have hd : last ≠ [45] := hnd xs rfl
    simp only [setLastC, if_neg hd] at h
    cases hv : isValidIndex last with
    | none => rw [hv] at h; cases h
    | some r =>
      obtain ⟨idx, er⟩ := r
      rw [hv] at h
      simp only [] at h
      cases hp : arrayPutIdx mem xs idx v (if er = true then Errno.ERANGE else Errno.none) with
      | inl e => rw [hp] at h; cases h
      | inr r2 =>
        obtain ⟨xs', fr'⟩ := r2
        rw [hp] at h
        injection h with h; injection h with h1 h2; injection h2 with h2 h3
        subst h1 h2
        obtain ⟨hci, _⟩ := setLastC_children mem (.arr xs) last v (.arr xs') idx fr'
          (by simp only [setLastC, if_neg hd, hv, hp])
        simp only [child] at hci
        have hlt : idx < xs'.length := by
          by_cases hlt : idx < xs'.length
          · exact hlt
          · rw [List.getElem?_eq_none (by omega)] at hci; cases hci
        simp only [stepC, hv, if_neg (show ¬ idx ≥ xs'.length by omega), hci]
  | obj kvs =>
    simp only [setLastC] at h
    injection h with h; injection h with h1 h2; injection h2 with h2 h3
    subst h1 h2
    obtain ⟨o1, o2⟩ := objectAdd_spec kvs (unescape last) v
    rw [member_eq_lookupIdx, ← o1] at o2
    simp only [stepC, o2]
  | _ => cases h



/-- the pointer's last token is `-` and the tokens before it resolve to an array: the set appends,
and `-` never resolves in a lookup -/
def AppendsToArray (t : JVal) (p : Bytes) : Prop :=
  ∃ init pos xs, tokens p = some (init ++ [[45]]) ∧ evalTokens t init = some (pos, .arr xs)

theorem setTok_then_get (mem : Nat → Bool) (t : JVal) (p : Bytes) (v : JVal) (hs : Sized t)
    (hrc : (setTok mem t p v).rc = 0) (hnd : ¬ AppendsToArray t p) :
    ∃ loc, (setTok mem t p v).loc = some loc ∧ (getTok (setTok mem t p v).tree p).rc = 0 ∧
      (getTok (setTok mem t p v).tree p).pos = loc ∧ (getTok (setTok mem t p v).tree p).val = v := by
  match p with
  | [] => exact ⟨[], rfl, rfl, rfl, rfl⟩
  | c :: body =>
    by_cases hc : c = 47
    · subst hc
      simp only [setTok, ne_eq, not_true_eq_false, if_false] at hrc ⊢
      obtain ⟨ppos, par, np, i, fr, he, _, hl, hshape⟩ := setToks_shape mem t _ _ v hs hrc
      rw [hshape]
      refine ⟨ppos ++ [i], rfl, ?_⟩
      simp only [mkSetRes, getTok, if_true]
      have hch : chainC (replaceAt t ppos np) (splitSlash body).dropLast = some (ppos, np) :=
        chainC_replaceAt _ t ppos par np (by rw [chainC_eq_eval _ t hs]; exact he)
      have hst : stepC np ((splitSlash body).getLast?.getD []) = .found i v := by
        apply setLastC_stepC mem par _ v np i fr hl
        intro xs hpar hlast
        apply hnd
        refine ⟨(splitSlash body).dropLast, ppos, xs, ?_, by rw [he, hpar]⟩
        simp only [tokens, if_true]
        rw [← hlast, ← splitSlash_snoc]
      have hw := walkC_chainC _ _ (replaceAt t ppos np) [] ppos np i v hch hst
      rw [← splitSlash_snoc] at hw
      rw [hw]
      simpa using finalRes_rc np ppos ((splitSlash body).getLast?.getD []) i v
    · simp only [setTok, ne_eq, hc, not_false_eq_true, if_true] at hrc
      cases hrc



/-- the result record of a successful non-root lookup -/
theorem getTok_record (obj : JVal) (body : Bytes) (hs : Sized obj) (pos : List Nat) (v : JVal)
    (h : eval obj (47 :: body) = some (pos, v)) :
    ∃ ppos par i, evalTokens obj (splitSlash body).dropLast = some (ppos, par) ∧
      step par ((splitSlash body).getLast?.getD []) = some (i, v) ∧ pos = ppos ++ [i] ∧
      getTok obj (47 :: body) = finalRes par ppos ((splitSlash body).getLast?.getD []) i v := by
  simp only [eval, tokens, if_true] at h
  rw [splitSlash_snoc body, evalTokens_snoc] at h
  cases he : evalTokens obj (splitSlash body).dropLast with
  | none => rw [he] at h; cases h
  | some q =>
    obtain ⟨ppos, par⟩ := q
    rw [he] at h
    simp only [] at h
    cases hst : step par ((splitSlash body).getLast?.getD []) with
    | none => rw [hst] at h; cases h
    | some r =>
      obtain ⟨i, c⟩ := r
      rw [hst] at h
      simp only [Option.map_some] at h
      injection h with h; injection h with h1 h2
      subst h1 h2
      refine ⟨ppos, par, i, rfl, hst, rfl, ?_⟩
      obtain ⟨w1, _⟩ := walkC_snoc (splitSlash body).dropLast ((splitSlash body).getLast?.getD []) obj [] hs
      obtain ⟨hsp, hw⟩ := w1 ppos par he
      have hstep := stepC_step par ((splitSlash body).getLast?.getD []) hsp
      rw [hst] at hstep
      simp only [] at hstep
      rw [hstep] at hw
      simp only [getTok, if_true]
      rw [splitSlash_snoc body, hw]
      simp


end JsonC.Pointer
