/-
  Helper lemmas for C06: the load-factor test `t->count >= t->size * LH_LOAD_FACTOR` in double
  arithmetic (Model/Linkhash.lean: `roundDouble`, `loadTest`).  Only two consequences are needed:
  a table that passes the test has a free slot, and a table of twice the size never fails the test
  while it is refilled.  Both rest on the regenerated constant: 1/2 ≤ lhLoadNum / lhLoadDen ≤ 1.
-/
import JsonC.Model.Linkhash

namespace JsonC.Linkhash
open JsonC Generated

/-! facts about the regenerated constants (re-checked on every run) -/
theorem loadDen_eq : lhLoadDen = 2 ^ 60 := by decide
theorem loadNum_le_den : lhLoadNum ≤ lhLoadDen := by decide
theorem loadDen_le_two_num : lhLoadDen ≤ 2 * lhLoadNum := by decide
theorem intMax_lt : intMax < 2 ^ 31 := by decide

theorem two_pow_dvd_of_le (s : Nat) (hs : s ≤ 60) (x : Nat) : 2 ^ s ∣ x * 2 ^ 60 := by
  have : (2:Nat) ^ s ∣ 2 ^ 60 := Nat.pow_dvd_pow 2 hs
  exact Nat.dvd_trans this (Nat.dvd_mul_left _ _)

/-- rounding never crosses a number that is itself representable (a multiple of 2^60 below 2^113) -/
theorem roundDouble_le (n x : Nat) (hn : n < 2 ^ 113) (h : n ≤ x * 2 ^ 60) : roundDouble n ≤ x * 2 ^ 60 := by
  unfold roundDouble
  dsimp only
  by_cases hL : n.log2 + 1 ≤ 53
  · rw [if_pos hL]; exact h
  · rw [if_neg hL]
    have hn0 : n ≠ 0 := by
      intro e; subst e; simp at hL
    have hlog : n.log2 < 113 := (Nat.log2_lt hn0).mpr hn
    have hs : n.log2 + 1 - 53 ≤ 60 := by omega
    generalize n.log2 + 1 - 53 = s at hs ⊢
    obtain ⟨y, hy⟩ := two_pow_dvd_of_le s hs x
    have hd : 0 < 2 ^ s := Nat.two_pow_pos _
    have hq : n / 2 ^ s * 2 ^ s ≤ n := Nat.div_mul_le_self n (2 ^ s)
    have hmd := Nat.mod_add_div n (2 ^ s)
    split
    · rename_i hc
      -- rounding up happens only when the remainder is positive
      have hr : 0 < n % 2 ^ s := by
        rcases hc with hc | hc
        · omega
        · omega
      have hlt : n / 2 ^ s * 2 ^ s < 2 ^ s * y := by
        rw [← hy]
        have : n / 2 ^ s * 2 ^ s < n := by
          rw [Nat.mul_comm] ; omega
        omega
      have : n / 2 ^ s < y := by
        rw [Nat.mul_comm] at hlt
        exact Nat.lt_of_mul_lt_mul_left hlt
      rw [hy, Nat.mul_comm (2 ^ s) y]
      exact Nat.mul_le_mul_right _ this
    · omega

theorem le_roundDouble (n x : Nat) (hn : n < 2 ^ 113) (h : x * 2 ^ 60 ≤ n) : x * 2 ^ 60 ≤ roundDouble n := by
  unfold roundDouble
  dsimp only
  by_cases hL : n.log2 + 1 ≤ 53
  · rw [if_pos hL]; exact h
  · rw [if_neg hL]
    have hn0 : n ≠ 0 := by
      intro e; subst e; simp at hL
    have hlog : n.log2 < 113 := (Nat.log2_lt hn0).mpr hn
    have hs : n.log2 + 1 - 53 ≤ 60 := by omega
    generalize n.log2 + 1 - 53 = s at hs ⊢
    obtain ⟨y, hy⟩ := two_pow_dvd_of_le s hs x
    have hd : 0 < 2 ^ s := Nat.two_pow_pos _
    have hyq : y ≤ n / 2 ^ s := by
      rw [Nat.le_div_iff_mul_le hd, Nat.mul_comm, ← hy]; exact h
    have h1 : x * 2 ^ 60 ≤ n / 2 ^ s * 2 ^ s := by
      rw [hy, Nat.mul_comm (2 ^ s) y]
      exact Nat.mul_le_mul_right _ hyq
    split
    · have : n / 2 ^ s * 2 ^ s ≤ (n / 2 ^ s + 1) * 2 ^ s := Nat.mul_le_mul_right _ (Nat.le_succ _)
      omega
    · exact h1

/-- a table that passes the load test has room: `count < size` -/
theorem lt_size_of_loadTest_false (count : Int) (size : Nat) (hsz : size ≤ intMax)
    (h : loadTest count size = false) : count < size := by
  unfold loadTest at h
  have h' : ¬ (count * (lhLoadDen : Int) ≥ ((roundDouble (size * lhLoadNum) : Nat) : Int)) := by simpa using h
  have hden := loadDen_eq
  have hn := loadNum_le_den
  have him := intMax_lt
  have hbig : size * lhLoadNum < 2 ^ 113 := by
    have h1 : size * lhLoadNum ≤ size * lhLoadDen := Nat.mul_le_mul_left _ hn
    have h2 : size * lhLoadDen < 2 ^ 31 * 2 ^ 60 := by
      rw [hden]; exact Nat.mul_lt_mul_of_pos_right (by omega) (Nat.two_pow_pos _)
    have : (2:Nat) ^ 31 * 2 ^ 60 ≤ 2 ^ 113 := by decide
    omega
  have hr : roundDouble (size * lhLoadNum) ≤ size * 2 ^ 60 :=
    roundDouble_le _ size hbig (by rw [← hden]; exact Nat.mul_le_mul_left _ hn)
  rw [hden] at h'
  have hr' : ((roundDouble (size * lhLoadNum) : Nat) : Int) ≤ (size : Int) * (2 ^ 60 : Nat) := by
    exact_mod_cast hr
  have hp : (0 : Int) < ((2 ^ 60 : Nat) : Int) := by decide
  have hlt : count * ((2 ^ 60 : Nat) : Int) < (size : Int) * ((2 ^ 60 : Nat) : Int) := by omega
  exact Int.lt_of_mul_lt_mul_right hlt (Int.le_of_lt hp)

/-- while `j < size` entries are refilled into a table of `2 * size` slots the load test stays false -/
theorem loadTest_double (j : Int) (size : Nat) (hsz : size ≤ intMax) (hj : j < size) :
    loadTest j (size * 2) = false := by
  unfold loadTest
  have hden := loadDen_eq
  have hn := loadDen_le_two_num
  have him := intMax_lt
  have hn1 := loadNum_le_den
  have hbig : size * 2 * lhLoadNum < 2 ^ 113 := by
    have h1 : size * 2 * lhLoadNum ≤ size * 2 * lhLoadDen := Nat.mul_le_mul_left _ hn1
    have h2 : size * 2 * lhLoadDen < 2 ^ 32 * 2 ^ 60 := by
      rw [hden]; exact Nat.mul_lt_mul_of_pos_right (by omega) (Nat.two_pow_pos _)
    have : (2:Nat) ^ 32 * 2 ^ 60 ≤ 2 ^ 113 := by decide
    omega
  have hle : size * 2 ^ 60 ≤ size * 2 * lhLoadNum := by
    rw [← hden, Nat.mul_assoc]; exact Nat.mul_le_mul_left _ hn
  have hr := le_roundDouble _ size hbig hle
  have hr' : (size : Int) * ((2 ^ 60 : Nat) : Int) ≤ ((roundDouble (size * 2 * lhLoadNum) : Nat) : Int) := by
    exact_mod_cast hr
  have hp : (0 : Int) < ((2 ^ 60 : Nat) : Int) := by decide
  have hlt : j * ((2 ^ 60 : Nat) : Int) < (size : Int) * ((2 ^ 60 : Nat) : Int) :=
    Int.mul_lt_mul_of_pos_right hj hp
  rw [hden]
  simp only [decide_eq_false_iff_not, ge_iff_le, Int.not_le]
  omega

/-- when the load test fires the table is at least half full: `size ≤ 2·count + 1` -/
theorem size_le_of_loadTest (j : Nat) (size : Nat) (hsz : size ≤ intMax) (h : loadTest (j : Int) size = true) :
    size ≤ 2 * j + 1 := by
  unfold loadTest at h
  have h' : (j : Int) * (lhLoadDen : Int) ≥ ((roundDouble (size * lhLoadNum) : Nat) : Int) := by simpa using h
  have hden := loadDen_eq
  have hn := loadDen_le_two_num
  have hn1 := loadNum_le_den
  have him := intMax_lt
  have hbig : size * lhLoadNum < 2 ^ 113 := by
    have h1 : size * lhLoadNum ≤ size * lhLoadDen := Nat.mul_le_mul_left _ hn1
    have h2 : size * lhLoadDen < 2 ^ 31 * 2 ^ 60 := by
      rw [hden]; exact Nat.mul_lt_mul_of_pos_right (by omega) (Nat.two_pow_pos _)
    have : (2:Nat) ^ 31 * 2 ^ 60 ≤ 2 ^ 113 := by decide
    omega
  have hhalf : size / 2 * 2 ^ 60 ≤ size * lhLoadNum := by
    have h1 : size / 2 * lhLoadDen ≤ size / 2 * (2 * lhLoadNum) := Nat.mul_le_mul_left _ hn
    have h2 : size / 2 * (2 * lhLoadNum) = (size / 2 * 2) * lhLoadNum := by rw [Nat.mul_assoc]
    have h3 : size / 2 * 2 * lhLoadNum ≤ size * lhLoadNum := Nat.mul_le_mul_right _ (Nat.div_mul_le_self size 2)
    rw [← hden]; omega
  have hr := le_roundDouble _ (size / 2) hbig hhalf
  rw [hden] at h'
  have h2 : ((size / 2 * 2 ^ 60 : Nat) : Int) ≤ (j : Int) * ((2 ^ 60 : Nat) : Int) := by
    have : ((size / 2 * 2 ^ 60 : Nat) : Int) ≤ ((roundDouble (size * lhLoadNum) : Nat) : Int) := by exact_mod_cast hr
    omega
  have h3 : size / 2 * 2 ^ 60 ≤ j * 2 ^ 60 := by exact_mod_cast h2
  have h4 : size / 2 ≤ j := Nat.le_of_mul_le_mul_right h3 (Nat.two_pow_pos _)
  omega

end JsonC.Linkhash
