/-
  C02 helper lemmas, part 1: json_escape_str.  The byte loop with its `start_offset` batching
  emits exactly `escBytes` (one piece per input byte); properties of the pieces.
-/
import JsonC.Spec.SerSpec

namespace JsonC.Serialize
open JsonC Generated SerSpec Rfc8259

/-- every byte is `UInt8.ofNat n` for some `n < 256` -/
theorem forall_byte {P : UInt8 → Prop} (h : ∀ n, n < 256 → P (UInt8.ofNat n)) : ∀ c, P c := by
  intro c
  have := h c.toNat (UInt8.toNat_lt c)
  simpa using this

/-- decidable form of `escOf_spec` -/
def escOfOk (ns : Bool) (c : UInt8) : Bool :=
  match escOf ns c with
  | .ok none => escByte ns c == [c]
  | .ok (some e) => escByte ns c == e
  | .fault _ => false

set_option maxRecDepth 100000 in
theorem escOfOk_all (ns : Bool) : ∀ c : UInt8, escOfOk ns c = true := by
  cases ns
  · apply forall_byte; decide
  · apply forall_byte; decide

/-- one trip through the `switch`: never a fault, and the run/flush decision emits `escByte` -/
theorem escOf_spec (ns : Bool) (c : UInt8) :
    (escOf ns c = .ok none ∧ escByte ns c = [c]) ∨ (∃ e, escOf ns c = .ok (some e) ∧ escByte ns c = e) := by
  have h := escOfOk_all ns c
  unfold escOfOk at h
  split at h
  · rename_i h1; exact Or.inl ⟨h1, by simpa using h⟩
  · rename_i e h1; exact Or.inr ⟨e, h1, by simpa using h⟩
  · cases h

theorem escapeLoop_eq (ns : Bool) : ∀ (rest pending out : Bytes),
    escapeLoop ns rest pending out = .ok (out ++ pending ++ escBytes ns rest) := by
  intro rest
  induction rest with
  | nil => intro pending out; simp [escapeLoop, escBytes]
  | cons c rest ih =>
    intro pending out
    rcases escOf_spec ns c with ⟨h1, h2⟩ | ⟨e, h1, h2⟩
    · simp only [escapeLoop, h1, Outcome.bind_ok]
      rw [ih]; simp [escBytes, h2]
    · simp only [escapeLoop, h1, Outcome.bind_ok]
      rw [ih]; simp [escBytes, h2]

/-- json_escape_str never faults and emits one `escByte` piece per input byte, in order -/
theorem escapeStr_eq (ns : Bool) (s : Bytes) : escapeStr ns s = .ok (escBytes ns s) := by
  simp [escapeStr, escapeLoop_eq]

set_option maxRecDepth 100000 in
theorem escByte_no_nul (ns : Bool) : ∀ c : UInt8, 0 ∉ escByte ns c := by
  cases ns
  · apply forall_byte; decide
  · apply forall_byte; decide

set_option maxRecDepth 100000 in
theorem escByte_no_esc (ns : Bool) : ∀ c : UInt8, 27 ∉ escByte ns c := by
  cases ns
  · apply forall_byte; decide
  · apply forall_byte; decide

set_option maxRecDepth 100000 in
/-- bytes ≥ 0x80 are copied verbatim -/
theorem escByte_high (ns : Bool) : ∀ c : UInt8, 0x80 ≤ c → escByte ns c = [c] := by
  cases ns
  · apply forall_byte; decide
  · apply forall_byte; decide

set_option maxRecDepth 100000 in
/-- an ASCII byte is spelled with ASCII bytes only, at least one -/
theorem escByte_ascii (ns : Bool) : ∀ c : UInt8, c < 0x80 → escByte ns c ≠ [] ∧ ∀ b ∈ escByte ns c, b < 0x80 := by
  cases ns
  · apply forall_byte; decide
  · apply forall_byte; decide

theorem escBytes_no_nul (ns : Bool) (s : Bytes) : 0 ∉ escBytes ns s := by
  simp only [escBytes, List.mem_flatMap, not_exists, not_and]
  intro c _; exact escByte_no_nul ns c

theorem escBytes_no_esc (ns : Bool) (s : Bytes) : 27 ∉ escBytes ns s := by
  simp only [escBytes, List.mem_flatMap, not_exists, not_and]
  intro c _; exact escByte_no_esc ns c

theorem escBytes_append (ns : Bool) (a b : Bytes) : escBytes ns (a ++ b) = escBytes ns a ++ escBytes ns b := by
  simp [escBytes]

theorem escBytes_cons (ns : Bool) (c : UInt8) (r : Bytes) : escBytes ns (c :: r) = escByte ns c ++ escBytes ns r := by
  simp [escBytes]

end JsonC.Serialize
