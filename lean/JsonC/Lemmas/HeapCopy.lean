/-
  Helper lemmas for C05: json_object_deep_copy.
  * frame property of the teardown loop (what lies below a threshold is not touched);
  * recursion depth: a path in an acyclic heap has fewer edges than there are live nodes, so the
    fuel given to `copyNode` never runs out;
  * the copy keeps the invariant, creates only fresh nodes, and on failure leaves no trace.
-/
import JsonC.Lemmas.HeapContainers

namespace JsonC.Heap
open JsonC Generated

/-! ### frame -/

/-- from `N` upwards, children have larger ids than their parents (pre-order numbering of copies) -/
def FK (h : Heap) (N : Id) : Prop :=
  ∀ p n, h.get? p = some n → N ≤ p → ∀ x ∈ n.body.children, p < x

theorem FK.mono {h : Heap} {N M : Id} (hf : FK h N) (hle : N ≤ M) : FK h M :=
  fun p n hg hp x hx => hf p n hg (Nat.le_trans hle hp) x hx

theorem FK.sub {h h' : Heap} {N : Id} (hf : FK h N) (hs : Sub h h') : FK h' N := by
  intro p n' hg hp x hx
  obtain ⟨n, hn, hb, _⟩ := hs p n' hg
  exact hf p n hn hp x (hb ▸ hx)

theorem release_frame (N : Id) : ∀ (fuel : Nat) (h : Heap) (w : List Id) (r : Rel),
    release fuel h w = .ok r → h.keys.Nodup → (∀ i ∈ w, N ≤ i) → FK h N →
    (∀ j, j < N → r.heap.get? j = h.get? j) ∧ (∀ d ∈ r.dead, N ≤ d) := by
  intro fuel
  induction fuel with
  | zero =>
    intro h w r hr _ _ _
    cases w with
    | nil => simp [release] at hr; subst hr; simp
    | cons i w => simp [release] at hr
  | succ fuel ih =>
    intro h w r hr hnd hw hfk
    cases w with
    | nil => simp [release] at hr; subst hr; simp
    | cons i w =>
      have hi : N ≤ i := hw i (by simp)
      unfold release at hr
      cases hg : h.get? i with
      | none => simp [hg] at hr
      | some n =>
        simp only [hg] at hr
        by_cases h0 : n.rc = 0
        · simp [h0] at hr
        · rw [if_neg h0] at hr
          by_cases h1 : n.rc > 1
          · rw [if_pos h1] at hr
            have := ih _ w r hr (by rw [Heap.keys_set]; exact hnd)
              (fun j hj => hw j (List.mem_cons_of_mem _ hj)) (hfk.sub (Sub.set_rc h i n hg _))
            refine ⟨?_, this.2⟩
            intro j hj
            rw [this.1 j hj, Heap.get?_set_ne]
            exact Nat.ne_of_lt (Nat.lt_of_lt_of_le hj hi)
          · rw [if_neg h1] at hr
            cases hrec : release fuel (h.erase i) (n.body.children ++ w) with
            | ok r' =>
              simp only [hrec] at hr
              cases hr
              have := ih _ _ r' hrec (Heap.nodup_erase h i hnd)
                (by
                  intro j hj
                  rcases List.mem_append.mp hj with h2 | h2
                  · exact Nat.le_of_lt (Nat.lt_of_le_of_lt hi (hfk i n hg hi j h2))
                  · exact hw j (List.mem_cons_of_mem _ h2))
                (hfk.sub (Sub.erase h i hnd))
              refine ⟨?_, ?_⟩
              · intro j hj
                simp only
                rw [this.1 j hj, Heap.get?_erase_ne]
                exact Nat.ne_of_lt (Nat.lt_of_lt_of_le hj hi)
              · intro d hd
                rcases List.mem_cons.mp hd with e | hd'
                · rw [e]; exact hi
                · exact this.2 d hd'
            | misuse why => simp [hrec] at hr
            | fault why => simp [hrec] at hr

theorem runRelease_ok {s : State} {w : List Id} {ret : Int} {s' : State} {r : Res}
    (h : runRelease s w ret = .ok (s', r)) :
    ∃ rel, release (relFuel s.heap w) s.heap w = .ok rel ∧ s'.heap = rel.heap ∧ r.dead = rel.dead := by
  unfold runRelease at h
  cases hrel : release (relFuel s.heap w) s.heap w with
  | ok rel =>
    simp only [hrel] at h
    cases h
    exact ⟨rel, rfl, rfl, rfl⟩
  | misuse why => simp [hrel] at h
  | fault why => simp [hrel] at h

theorem runRelease_frame {s : State} {w : List Id} {ret : Int} {s' : State} {r : Res}
    (h : runRelease s w ret = .ok (s', r)) (N : Id) (hnd : s.heap.keys.Nodup)
    (hw : ∀ i ∈ w, N ≤ i) (hfk : FK s.heap N) :
    (∀ j, j < N → s'.heap.get? j = s.heap.get? j) ∧ (∀ d ∈ r.dead, N ≤ d) := by
  obtain ⟨rel, hrel, hh, hd⟩ := runRelease_ok h
  have := release_frame N _ _ _ _ hrel hnd hw hfk
  rw [hh, hd]
  exact this

theorem reach_fk {h : Heap} {N : Id} (hf : FK h N) {a b : Id} (hab : Reach h a b) (ha : N ≤ a) : a ≤ b := by
  induction hab with
  | refl => exact Nat.le_refl _
  | step hc _ ih =>
    obtain ⟨n, hn, hcn⟩ := (mem_childrenOf h _ _).mp hc
    have := hf _ n hn ha _ hcn
    exact Nat.le_trans (Nat.le_of_lt this) (ih (Nat.le_trans ha (Nat.le_of_lt this)))

/-! ### recursion depth -/

/-- a path through container slots -/
inductive IsPath (h : Heap) : List Id → Prop where
  | single (a : Id) : IsPath h [a]
  | cons {a c : Id} {rest : List Id} : c ∈ h.childrenOf a → IsPath h (c :: rest) → IsPath h (a :: c :: rest)

/-- every path starting at `src` has fewer than `fuel` edges -/
def Depth (h : Heap) (src : Id) (fuel : Nat) : Prop := ∀ l, IsPath h (src :: l) → l.length < fuel

theorem nodup_subset_length {α : Type} [DecidableEq α] : ∀ (l m : List α), l.Nodup → (∀ x ∈ l, x ∈ m) →
    l.length ≤ m.length := by
  intro l
  induction l with
  | nil => intro m _ _; simp
  | cons a l ih =>
    intro m hnd hsub
    have ha : a ∈ m := hsub a (by simp)
    have hnd' := List.nodup_cons.mp hnd
    have := ih (m.erase a) hnd'.2 (by
      intro x hx
      have hxa : x ≠ a := fun e => hnd'.1 (e ▸ hx)
      exact (List.mem_erase_of_ne hxa).mpr (hsub x (List.mem_cons_of_mem _ hx)))
    rw [List.length_erase_of_mem ha] at this
    have hpos : 0 < m.length := List.length_pos_of_mem ha
    simp only [List.length_cons]
    omega

theorem IsPath.rank_lt {h : Heap} {r : Id → Nat}
    (hr : ∀ p n, h.get? p = some n → ∀ c ∈ n.body.children, r c < r p) :
    ∀ (l : List Id) (a : Id), IsPath h (a :: l) → ∀ y ∈ l, r y < r a := by
  intro l
  induction l with
  | nil => intro a _ y hy; simp at hy
  | cons c rest ih =>
    intro a hp y hy
    cases hp with
    | cons hc hrest =>
      obtain ⟨n, hn, hcn⟩ := (mem_childrenOf h _ _).mp hc
      have h1 := hr a n hn c hcn
      rcases List.mem_cons.mp hy with e | hy'
      · rw [e]; exact h1
      · exact Nat.lt_trans (ih c hrest y hy') h1

theorem IsPath.nodup {h : Heap} {r : Id → Nat}
    (hr : ∀ p n, h.get? p = some n → ∀ c ∈ n.body.children, r c < r p) :
    ∀ (l : List Id), IsPath h l → l.Nodup := by
  intro l
  induction l with
  | nil => intro _; exact List.nodup_nil
  | cons a l ih =>
    intro hp
    refine List.nodup_cons.mpr ⟨?_, ?_⟩
    · intro ha
      exact Nat.lt_irrefl _ (IsPath.rank_lt hr l a hp a ha)
    · cases hp with
      | single => exact List.nodup_nil
      | cons _ hrest => exact ih hrest

theorem IsPath.live {h : Heap} (hclosed : ∀ j, 0 < (Heap.edges h).count j → (h.get? j).isSome = true) :
    ∀ (l : List Id) (a : Id), IsPath h (a :: l) → (h.get? a).isSome = true → ∀ y ∈ a :: l, y ∈ h.keys := by
  intro l
  induction l with
  | nil =>
    intro a _ ha y hy
    simp at hy; subst hy
    exact (Heap.mem_keys_iff h y).mpr ha
  | cons c rest ih =>
    intro a hp ha y hy
    cases hp with
    | cons hc hrest =>
      rcases List.mem_cons.mp hy with e | hy'
      · rw [e]; exact (Heap.mem_keys_iff h a).mpr ha
      · obtain ⟨n, hn, hcn⟩ := (mem_childrenOf h _ _).mp hc
        have hcl : (h.get? c).isSome = true := by
          apply hclosed c
          have h1 := Heap.count_edges_of_get? h a n hn c
          have h2 : 0 < n.body.children.count c := List.count_pos_iff.mpr hcn
          omega
        exact ih c hrest hcl y hy'

/-- the fuel `deepCopy` passes to `copyNode` suffices -/
theorem depth_le_length {s : State} (hs : Inv s) (src : Id) (hsrc : (s.heap.get? src).isSome = true) :
    Depth s.heap src (s.heap.length + 1) := by
  intro l hp
  obtain ⟨r, hr⟩ := hs.acyclic
  have hnd := IsPath.nodup hr _ hp
  have hlive := IsPath.live (fun j hj => hs.h.closed j (by simpa using hj)) l src hp hsrc
  have := nodup_subset_length _ _ hnd hlive
  simp only [List.length_cons, Heap.keys, List.length_map] at this
  omega

theorem Depth.child {h : Heap} {src c : Id} {fuel : Nat} (hd : Depth h src (fuel + 1))
    (hc : c ∈ h.childrenOf src) : Depth h c fuel := by
  intro l hp
  have := hd (c :: l) (IsPath.cons hc hp)
  simpa using this

theorem Depth.zero_absurd {h : Heap} {src : Id} (hd : Depth h src 0) : False := by
  have := hd [] (IsPath.single src)
  simp at this

/-! ### the copy -/

/-- invariant of a deep copy in progress, relative to the state `s0` in which it started.
`P`: the copies held by C locals (under construction, not yet handed to a parent copy). -/
structure CInv (s0 : State) (c : Cp) (P : List Id) : Prop where
  inv : Inv c.st
  next_le : s0.next ≤ c.st.next
  old : ∀ i, i < s0.next → c.st.heap.get? i = s0.heap.get? i
  extOld : ∀ i, i < s0.next → c.st.ext i = s0.ext i
  extFresh : ∀ i, s0.next ≤ i → c.st.ext i = P.count i
  fk : FK c.st.heap s0.next
  log : c.st.log = s0.log ++ c.dead
  deadFresh : ∀ d ∈ c.dead, s0.next ≤ d
  cbFinal : ∀ cb ∈ c.cbs, cb.final = true → cb.id ∈ c.dead

theorem CInv.calls {s0 : State} {c : Cp} {P : List Id} (h : CInv s0 c P) (k : Nat) :
    CInv s0 { c with calls := k } P :=
  ⟨h.inv, h.next_le, h.old, h.extOld, h.extFresh, h.fk, h.log, h.deadFresh, h.cbFinal⟩

def Body.accepts : Body → Option Key → Bool
  | .obj _, some _ => true
  | .arr _, none => true
  | _, _ => false

/-- shallow copy as the harness performs it: new node, callback installed with token = id -/
theorem cinv_new (s0 : State) (c : Cp) (P : List Id) (hc : CInv s0 c P) (body : Body)
    (hb : body.children = []) :
    ∃ st2 r2, setUserdata (alloc c.st body).1 c.st.next (some c.st.next) = .ok (st2, r2) ∧
      (∀ k, CInv s0 { c with st := st2, calls := k } (c.st.next :: P)) ∧
      st2.next = c.st.next + 1 ∧
      (∀ j, j < c.st.next → st2.heap.get? j = c.st.heap.get? j) ∧
      st2.heap.get? c.st.next = some ⟨1, body, some c.st.next⟩ := by
  have hinv1 := alloc_spec c.st hc.inv body hb
  obtain ⟨hf1, hf2, hf3⟩ := hc.inv.next_fresh
  have hget : ∀ j, (alloc c.st body).1.heap.get? j =
      if j = c.st.next then some ⟨1, body, none⟩ else c.st.heap.get? j := by
    intro j
    rw [alloc_eq]
    simp only
    rw [Heap.get?_append_single]
    by_cases e : j = c.st.next
    · subst e; simp [hf1]
    · have e' : ¬ c.st.next = j := fun h => e h.symm
      simp only [e, if_false, e']
      cases c.st.heap.get? j <;> rfl
  have hgd : (alloc c.st body).1.heap.get? c.st.next = some ⟨1, body, none⟩ := by rw [hget]; simp
  rcases setUserdata_spec (alloc c.st body).1 hinv1 c.st.next (some c.st.next) with ⟨why, hm⟩ | hok
  · simp [setUserdata, hgd] at hm
  · obtain ⟨st2, r2, n, hset, hstep, _, hdead, hgn, hheap, hext, hnext, hlog⟩ := hok
    rw [hgd] at hgn
    cases hgn
    have hget2 : ∀ j, st2.heap.get? j =
        if j = c.st.next then some ⟨1, body, some c.st.next⟩ else c.st.heap.get? j := by
      intro j
      rw [hheap, Heap.get?_set]
      by_cases e : j = c.st.next
      · simp [e, hgd]
      · simp [e, hget]
    have hnext2 : st2.next = c.st.next + 1 := by rw [hnext, alloc_eq]
    have hext2 : ∀ i, st2.ext i = if i = c.st.next then c.st.ext i + 1 else c.st.ext i := by
      intro i; rw [hext, alloc_eq]; rfl
    refine ⟨st2, r2, hset, ?_, hnext2, ?_, ?_⟩
    · intro k
      refine ⟨hstep.inv, ?_, ?_, ?_, ?_, ?_, ?_, hc.deadFresh, hc.cbFinal⟩
      · simp only; rw [hnext2]; exact Nat.le_trans hc.next_le (Nat.le_succ _)
      · intro i hi
        simp only
        rw [hget2]
        have : i ≠ c.st.next := Nat.ne_of_lt (Nat.lt_of_lt_of_le hi hc.next_le)
        simp only [this, if_false]
        exact hc.old i hi
      · intro i hi
        simp only
        rw [hext2]
        have : i ≠ c.st.next := Nat.ne_of_lt (Nat.lt_of_lt_of_le hi hc.next_le)
        simp only [this, if_false]
        exact hc.extOld i hi
      · intro i hi
        simp only
        rw [hext2]
        by_cases e : i = c.st.next
        · subst e
          simp only [if_true, List.count_cons_self]
          rw [hc.extFresh _ hi]
        · have e' : ¬ c.st.next = i := fun h => e h.symm
          simp only [e, if_false]
          rw [hc.extFresh i hi, List.count_cons_of_ne e']
      · intro p n hp hNp x hx
        simp only at hp
        rw [hget2] at hp
        by_cases e : p = c.st.next
        · simp [e] at hp
          subst hp
          simp only at hx
          rw [hb] at hx
          simp at hx
        · simp only [e, if_false] at hp
          exact hc.fk p n hp hNp x hx
      · simp only
        rw [hlog, alloc_eq]
        exact hc.log
    · intro j hj
      rw [hget2]
      have : j ≠ c.st.next := Nat.ne_of_lt hj
      simp only [this, if_false]
    · rw [hget2]; simp

theorem commit_ok_run {s : State} {p : Id} {n : Node} {body' : Body} {given : Option Id} {rel : List Id}
    {s' : State} {r : Res} (h : commit s p n body' given rel = .ok (s', r)) :
    runRelease { s with heap := s.heap.set p { n with body := body' }, ext := extGive s.ext given } rel 0 =
      .ok (s', r) := h

/-- json_object_object_add / json_object_array_add of a finished child copy into its parent copy -/
theorem cinv_attach (s0 : State) (c : Cp) (P : List Id) (dst : Id) (key : Option Key) (v : Option Id)
    (hc : CInv s0 c (v.toList ++ P)) (hN : s0.next ≤ dst) (m : Node) (hm : c.st.heap.get? dst = some m)
    (hacc : m.body.accepts key = true) (hv : ∀ dc, v = some dc → dst < dc) (hP : 0 < P.count dst) :
    ∃ c', cpAttach c dst key v = .ok c' ∧ CInv s0 c' P ∧ c'.st.next = c.st.next ∧ c'.calls = c.calls ∧
      (∀ j, j < dst → c'.st.heap.get? j = c.st.heap.get? j) ∧
      (∃ m', c'.st.heap.get? dst = some m' ∧ m'.body.accepts = m.body.accepts) := by
  have hgive : ∀ j, v = some j → 0 < c.st.ext j ∧ ¬ Reach c.st.heap j dst := by
    intro j hj
    have hdj := hv j hj
    have hNj : s0.next ≤ j := Nat.le_trans hN (Nat.le_of_lt hdj)
    refine ⟨?_, ?_⟩
    · rw [hc.extFresh j hNj, hj]; simp
    · intro hr
      have := reach_fk hc.fk hr hNj
      exact absurd hdj (Nat.not_lt.mpr this)
  -- the generic part, for any payload edit of `dst` that only adds `v` / drops children of `dst`
  have core : ∀ (body' : Body) (rel : List Id),
      (∀ x, body'.children.count x + rel.count x = m.body.children.count x + v.toList.count x) →
      body'.accepts = m.body.accepts →
      ∃ s' r, commit c.st dst m body' v rel = .ok (s', r) ∧ CInv s0 (c.absorb (s', r)) P ∧
        (c.absorb (s', r)).st.next = c.st.next ∧
        (∀ j, j < dst → s'.heap.get? j = c.st.heap.get? j) ∧
        (∃ m', s'.heap.get? dst = some m' ∧ m'.body.accepts = m.body.accepts) := by
    intro body' rel hcount hacc'
    obtain ⟨s', r, hcm, hstep, _, hext, hnext, hsub, hcbs⟩ :=
      commit_spec c.st hc.inv dst m hm body' v rel hgive hcount
    have hrelmem : ∀ x ∈ rel, dst + 1 ≤ x := by
      intro x hx
      have h1 : 0 < rel.count x := List.count_pos_iff.mpr hx
      have h2 := hcount x
      -- x is an old child of dst, or v itself
      by_cases hvx : 0 < v.toList.count x
      · have := count_toList_pos v x hvx
        exact hv x this
      · have : 0 < m.body.children.count x := by omega
        exact hc.fk dst m hm hN x (List.count_pos_iff.mp this)
    have hfk1 : FK (c.st.heap.set dst { m with body := body' }) (dst + 1) := by
      intro p n hp hdp x hx
      have e : p ≠ dst := Nat.ne_of_gt hdp
      rw [Heap.get?_set_ne _ _ _ _ e] at hp
      exact hc.fk p n hp (Nat.le_trans hN (Nat.le_of_lt hdp)) x hx
    have hframe := runRelease_frame (commit_ok_run hcm) (dst + 1)
      (by simp only; rw [Heap.keys_set]; exact hc.inv.h.nodup) hrelmem hfk1
    simp only at hframe
    have hstable : ∀ j, j < dst → s'.heap.get? j = c.st.heap.get? j := by
      intro j hj
      rw [hframe.1 j (Nat.lt_succ_of_lt hj), Heap.get?_set_ne _ _ _ _ (Nat.ne_of_lt hj)]
    have hdstnode : s'.heap.get? dst = some { m with body := body' } := by
      rw [hframe.1 dst (Nat.lt_succ_self _)]
      exact Heap.get?_set_self _ _ _ _ hm
    refine ⟨s', r, hcm, ?_, hnext, hstable, ⟨_, hdstnode, hacc'⟩⟩
    refine ⟨hstep.inv, ?_, ?_, ?_, ?_, ?_, ?_, ?_, ?_⟩
    · simp only [Cp.absorb]; rw [hnext]; exact hc.next_le
    · intro i hi
      simp only [Cp.absorb]
      rw [hstable i (Nat.lt_of_lt_of_le hi hN)]
      exact hc.old i hi
    · intro i hi
      simp only [Cp.absorb]
      rw [hext]
      have := extGive_eq c.st.ext v i (fun j hj => (hgive j hj).1)
      have hv0 : v.toList.count i = 0 := by
        cases hvi : v.toList.count i with
        | zero => rfl
        | succ k =>
          have := count_toList_pos v i (by omega)
          have := hv i this
          exact absurd (Nat.lt_of_lt_of_le hi hN) (Nat.not_lt.mpr (Nat.le_of_lt this))
      rw [← hc.extOld i hi]; omega
    · intro i hi
      simp only [Cp.absorb]
      rw [hext]
      have h1 := extGive_eq c.st.ext v i (fun j hj => (hgive j hj).1)
      have h2 := hc.extFresh i hi
      rw [List.count_append] at h2
      omega
    · -- children of fresh nodes still have larger ids
      intro p n hp hNp x hx
      simp only [Cp.absorb] at hp
      obtain ⟨n0, hn0, hb0, _⟩ := hsub p n hp
      rw [Heap.get?_set] at hn0
      by_cases e : p = dst
      · subst e
        simp [hm] at hn0
        subst hn0
        simp only at hb0
        rw [hb0] at hx
        have h1 : 0 < body'.children.count x := List.count_pos_iff.mpr hx
        have h2 := hcount x
        by_cases hvx : 0 < v.toList.count x
        · exact hv x (count_toList_pos v x hvx)
        · have : 0 < m.body.children.count x := by omega
          exact hc.fk p m hm hN x (List.count_pos_iff.mp this)
      · simp [e] at hn0
        exact hc.fk p n0 hn0 hNp x (hb0 ▸ hx)
    · simp only [Cp.absorb]
      rw [hstep.log, hc.log, List.append_assoc]
    · intro d hd
      simp only [Cp.absorb] at hd
      rcases List.mem_append.mp hd with h1 | h1
      · exact hc.deadFresh d h1
      · exact Nat.le_trans hN (Nat.le_trans (Nat.le_succ _) (hframe.2 d h1))
    · intro cb hcb hfin
      simp only [Cp.absorb] at hcb ⊢
      rcases List.mem_append.mp hcb with h1 | h1
      · exact List.mem_append_left _ (hc.cbFinal cb h1 hfin)
      · exact List.mem_append_right _ (hstep.cbFinal cb h1 hfin)
  unfold cpAttach
  simp only [hm]
  cases hb : m.body with
  | scalar k => rw [hb] at hacc; cases key <;> simp [Body.accepts] at hacc
  | obj kvs =>
    cases key with
    | none => rw [hb] at hacc; simp [Body.accepts] at hacc
    | some k =>
      simp only
      cases hf : findKey kvs k with
      | none =>
        obtain ⟨s', r, hcm, hci, hnx, hst, hdst⟩ := core (.obj (kvs ++ [(k, v)])) []
          (by intro x; rw [hb, children_obj_append, List.count_append]; simp)
          (by rw [hb]; funext key'; cases key' <;> rfl)
        refine ⟨c.absorb (s', r), ?_, hci, hnx, rfl, hst, by rw [← hb]; exact hdst⟩
        simp [hcm]
      | some old =>
        obtain ⟨s', r, hcm, hci, hnx, hst, hdst⟩ := core (.obj (setKey kvs k v)) old.toList
          (by intro x; rw [hb]; exact count_children_setKey kvs k v old hf x)
          (by rw [hb]; funext key'; cases key' <;> rfl)
        refine ⟨c.absorb (s', r), ?_, hci, hnx, rfl, hst, by rw [← hb]; exact hdst⟩
        simp [hcm]
  | arr xs =>
    cases key with
    | some k => rw [hb] at hacc; simp [Body.accepts] at hacc
    | none =>
      simp only
      obtain ⟨s', r, hcm, hci, hnx, hst, hdst⟩ := core (.arr (xs ++ [v])) []
        (by intro x; rw [hb, children_arr_append, List.count_append]; simp)
        (by rw [hb]; funext key'; cases key' <;> rfl)
      refine ⟨c.absorb (s', r), ?_, hci, hnx, rfl, hst, by rw [← hb]; exact hdst⟩
      simp [hcm]

theorem StepOk.fk {s s' : State} {r : Res} (h : StepOk s none s' r) (hn : s'.next = s.next) {N : Id}
    (hf : FK s.heap N) : FK s'.heap N := by
  intro p n' hp hNp x hx
  have hlt : p < s.next := by rw [← hn]; exact h.inv.fresh p (by simp [hp])
  obtain ⟨n, hn', hb, _⟩ := h.frame p n' hlt (by simp) hp
  exact hf p n hn' hNp x (hb ▸ hx)

/-- `json_object_put(jso)` on a C local holding a (partial) copy -/
theorem cinv_put (s0 : State) (c : Cp) (P : List Id) (j : Id) (hc : CInv s0 c (j :: P)) (hN : s0.next ≤ j) :
    ∃ c', cpPut c (some j) = .ok c' ∧ CInv s0 c' P ∧ c'.st.next = c.st.next ∧ c'.calls = c.calls ∧
      (∀ i, i < j → c'.st.heap.get? i = c.st.heap.get? i) := by
  have hextj : 0 < c.st.ext j := by rw [hc.extFresh j hN]; simp
  obtain ⟨s', r, r0, hput, hrun, hdeq, hstep, hext, hnext, _⟩ := put_ok c.st hc.inv j hextj
  have hframe := runRelease_frame hrun j hc.inv.h.nodup (by simp) (hc.fk.mono hN)
  simp only at hframe
  refine ⟨c.absorb (s', r), ?_, ?_, hnext, rfl, hframe.1⟩
  · simp [cpPut, hput]
  · refine ⟨hstep.inv, ?_, ?_, ?_, ?_, hstep.fk hnext hc.fk, ?_, ?_, ?_⟩
    · simp only [Cp.absorb]; rw [hnext]; exact hc.next_le
    · intro i hi
      simp only [Cp.absorb]
      rw [hframe.1 i (Nat.lt_of_lt_of_le hi hN)]
      exact hc.old i hi
    · intro i hi
      simp only [Cp.absorb]
      rw [hext]
      have : i ≠ j := Nat.ne_of_lt (Nat.lt_of_lt_of_le hi hN)
      simp only [extDec, this, if_false]
      exact hc.extOld i hi
    · intro i hi
      simp only [Cp.absorb]
      rw [hext]
      have h2 := hc.extFresh i hi
      by_cases e : i = j
      · subst e
        simp only [extDec, if_true]
        rw [h2]; simp
      · have e' : ¬ j = i := fun h => e h.symm
        simp only [extDec, e, if_false]
        rw [h2, List.count_cons_of_ne e']
    · simp only [Cp.absorb]
      rw [hstep.log, hc.log, List.append_assoc]
    · intro d hd
      simp only [Cp.absorb] at hd
      rcases List.mem_append.mp hd with h1 | h1
      · exact hc.deadFresh d h1
      · rw [hdeq] at h1
        exact Nat.le_trans hN (hframe.2 d h1)
    · intro cb hcb hfin
      simp only [Cp.absorb] at hcb ⊢
      rcases List.mem_append.mp hcb with h1 | h1
      · exact List.mem_append_left _ (hc.cbFinal cb h1 hfin)
      · exact List.mem_append_right _ (hstep.cbFinal cb h1 hfin)

/-- what a recursive call of the copy guarantees -/
def RecSpec (s0 : State) (fuel : Nat) (rec : Cp → Id → Step CpRes) : Prop :=
  ∀ (c : Cp) (src : Id) (P : List Id), CInv s0 c P → src < s0.next →
    (s0.heap.get? src).isSome = true → Depth s0.heap src fuel →
    ∃ r, rec c src = .ok r ∧ CInv s0 r.cp (r.dst.toList ++ P) ∧ c.st.next ≤ r.cp.st.next ∧
      (∀ j, j < c.st.next → r.cp.st.heap.get? j = c.st.heap.get? j) ∧
      (∀ d, r.dst = some d → c.st.next ≤ d) ∧ (r.okay = true → r.dst.isSome = true)

theorem copyKids_spec (s0 : State) (fuel : Nat) (rec : Cp → Id → Step CpRes) (hrec : RecSpec s0 fuel rec)
    (dst : Id) (hN : s0.next ≤ dst) (P : List Id) :
    ∀ (slots : List (Option Key × Option Id)) (c : Cp), CInv s0 c (dst :: P) → dst < c.st.next →
      (∃ m, c.st.heap.get? dst = some m ∧ ∀ sl ∈ slots, m.body.accepts sl.1 = true) →
      (∀ sl ∈ slots, ∀ ch, sl.2 = some ch →
        ch < s0.next ∧ (s0.heap.get? ch).isSome = true ∧ Depth s0.heap ch fuel) →
      ∃ c' good, copyKids rec dst c slots = .ok (c', good) ∧ CInv s0 c' (dst :: P) ∧
        c.st.next ≤ c'.st.next ∧ (∀ j, j < dst → c'.st.heap.get? j = c.st.heap.get? j) := by
  intro slots
  induction slots with
  | nil =>
    intro c hc _ _ _
    exact ⟨c, true, rfl, hc, Nat.le_refl _, fun _ _ => rfl⟩
  | cons sl rest ih =>
    intro c hc hdl hacc hkids
    obtain ⟨m, hm, haccm⟩ := hacc
    obtain ⟨key, v⟩ := sl
    have hcount : 0 < (dst :: P).count dst := by simp
    cases v with
    | none =>
      obtain ⟨c1, hat, hc1, hnx, _, hst, m', hm', hacc'⟩ :=
        cinv_attach s0 c (dst :: P) dst key none hc hN m hm (haccm (key, none) (by simp))
          (fun dc h => by cases h) hcount
      obtain ⟨c', good, hk, hc', hnx', hst'⟩ := ih c1 hc1 (by rw [hnx]; exact hdl)
        ⟨m', hm', fun sl hsl => by rw [hacc']; exact haccm sl (List.mem_cons_of_mem _ hsl)⟩
        (fun sl hsl => hkids sl (List.mem_cons_of_mem _ hsl))
      refine ⟨c', good, ?_, hc', by rw [← hnx]; exact hnx', fun j hj => by rw [hst' j hj, hst j hj]⟩
      simp [copyKids, hat, hk]
    | some ch =>
      obtain ⟨hch1, hch2, hch3⟩ := hkids (key, some ch) (by simp) ch rfl
      obtain ⟨r, hr, hcr, hnr, hstr, hdr, hokr⟩ := hrec c ch (dst :: P) hc hch1 hch2 hch3
      have hmr : r.cp.st.heap.get? dst = some m := by rw [hstr dst hdl]; exact hm
      by_cases hok : r.okay = true
      · obtain ⟨dc, hdc⟩ := Option.isSome_iff_exists.mp (hokr hok)
        have hdcl := hdr dc hdc
        rw [hdc] at hcr
        obtain ⟨c1, hat, hc1, hnx, _, hst, m', hm', hacc'⟩ :=
          cinv_attach s0 r.cp (dst :: P) dst key (some dc) hcr hN m hmr (haccm (key, some ch) (by simp))
            (fun d h => by cases h; exact Nat.lt_of_lt_of_le hdl hdcl) hcount
        obtain ⟨c', good, hk, hc', hnx', hst'⟩ := ih c1 hc1
          (by rw [hnx]; exact Nat.lt_of_lt_of_le hdl hnr)
          ⟨m', hm', fun sl hsl => by rw [hacc']; exact haccm sl (List.mem_cons_of_mem _ hsl)⟩
          (fun sl hsl => hkids sl (List.mem_cons_of_mem _ hsl))
        refine ⟨c', good, ?_, hc', ?_, ?_⟩
        · simp [copyKids, hr, hok, hdc, hat, hk]
        · rw [hnx] at hnx'; exact Nat.le_trans hnr hnx'
        · intro j hj
          rw [hst' j hj, hst j hj, hstr j (Nat.lt_trans hj hdl)]
      · cases hd : r.dst with
        | none =>
          rw [hd] at hcr
          refine ⟨r.cp, false, ?_, hcr, hnr, fun j hj => hstr j (Nat.lt_trans hj hdl)⟩
          simp [copyKids, hr, hok, hd, cpPut]
        | some dj =>
          rw [hd] at hcr
          have hdjl := hdr dj hd
          obtain ⟨c1, hp, hc1, hnx, _, hst⟩ :=
            cinv_put s0 r.cp (dst :: P) dj hcr (Nat.le_trans hc.next_le hdjl)
          refine ⟨c1, false, ?_, hc1, by rw [hnx]; exact hnr, ?_⟩
          · simp [copyKids, hr, hok, hd, hp]
          · intro j hj
            rw [hst j (Nat.lt_of_lt_of_le (Nat.lt_trans hj hdl) hdjl), hstr j (Nat.lt_trans hj hdl)]

theorem emptyLike_children (b : Body) : b.emptyLike.children = [] := by
  cases b <;> rfl

theorem slots_accept (b : Body) : ∀ sl ∈ b.slots, b.emptyLike.accepts sl.1 = true := by
  intro sl hsl
  cases b with
  | scalar k => simp [Body.slots] at hsl
  | arr xs =>
    simp only [Body.slots, List.mem_map] at hsl
    obtain ⟨v, _, rfl⟩ := hsl
    rfl
  | obj kvs =>
    simp only [Body.slots, List.mem_map] at hsl
    obtain ⟨kv, _, rfl⟩ := hsl
    rfl

theorem slots_children (b : Body) : ∀ sl ∈ b.slots, ∀ ch, sl.2 = some ch → ch ∈ b.children := by
  intro sl hsl ch hch
  cases b with
  | scalar k => simp [Body.slots] at hsl
  | arr xs =>
    simp only [Body.slots, List.mem_map] at hsl
    obtain ⟨v, hv, rfl⟩ := hsl
    simp only at hch
    subst hch
    simp only [Body.children, List.mem_filterMap, id]
    exact ⟨some ch, hv, rfl⟩
  | obj kvs =>
    simp only [Body.slots, List.mem_map] at hsl
    obtain ⟨kv, hkv, rfl⟩ := hsl
    simp only at hch
    simp only [Body.children, List.mem_filterMap]
    exact ⟨kv, hkv, hch⟩

theorem copyNode_spec (s0 : State) (hs0 : Inv s0) (failAt : Option Nat) :
    ∀ fuel, RecSpec s0 fuel (copyNode failAt fuel) := by
  intro fuel
  induction fuel with
  | zero => intro c src P _ _ _ hd; exact absurd hd.zero_absurd id
  | succ fuel ih =>
    intro c src P hc hsrc hlive hdepth
    obtain ⟨n, hn⟩ := Option.isSome_iff_exists.mp hlive
    have hn' : c.st.heap.get? src = some n := by rw [hc.old src hsrc]; exact hn
    unfold copyNode
    simp only [hn']
    by_cases hfail : failAt = some (c.calls + 1)
    · rw [if_pos hfail]
      exact ⟨_, rfl, hc.calls _, Nat.le_refl _, fun _ _ => rfl, (fun d h => by cases h),
        (fun h => by cases h)⟩
    · rw [if_neg hfail]
      obtain ⟨st2, r2, hset, hc2, hnx2, hst2, hd2⟩ :=
        cinv_new s0 c P hc n.body.emptyLike (emptyLike_children _)
      have hal : (alloc c.st n.body.emptyLike).2 = c.st.next := rfl
      simp only [hal, hset]
      have hkids : ∀ sl ∈ n.body.slots, ∀ ch, sl.2 = some ch →
          ch < s0.next ∧ (s0.heap.get? ch).isSome = true ∧ Depth s0.heap ch fuel := by
        intro sl hsl ch hch
        have hmem := slots_children n.body sl hsl ch hch
        have hcl : (s0.heap.get? ch).isSome = true := by
          apply hs0.h.closed ch
          have h1 := Heap.count_edges_of_get? s0.heap src n hn ch
          have h2 : 0 < n.body.children.count ch := List.count_pos_iff.mpr hmem
          simp only [List.count_nil, Nat.add_zero]; omega
        exact ⟨hs0.fresh ch hcl, hcl, hdepth.child ((mem_childrenOf s0.heap src ch).mpr ⟨n, hn, hmem⟩)⟩
      obtain ⟨c3, good, hk, hc3, hnx3, hst3⟩ :=
        copyKids_spec s0 fuel _ ih c.st.next hc.next_le P n.body.slots
          { c with st := st2, calls := c.calls + 1 } (hc2 _) (by simp only; rw [hnx2]; exact Nat.lt_succ_self _)
          ⟨_, hd2, slots_accept n.body⟩ hkids
      simp only at hnx3 hst3
      refine ⟨⟨c3, some c.st.next, good⟩, ?_, hc3, ?_, ?_, ?_, fun _ => rfl⟩
      · simp [hk]
      · rw [hnx2] at hnx3; exact Nat.le_trans (Nat.le_succ _) hnx3
      · intro j hj; rw [hst3 j hj, hst2 j hj]
      · intro d hd; cases hd; exact Nat.le_refl _

/-- after a failed copy nothing created by it is left: a fresh live node would need a fresh live
parent with a smaller id -/
theorem cinv_no_fresh (s0 : State) (hs0 : Inv s0) (c : Cp) (hc : CInv s0 c []) :
    ∀ i, s0.next ≤ i → c.st.heap.get? i = none := by
  have key : ∀ k i, i < k → s0.next ≤ i → c.st.heap.get? i = none := by
    intro k
    induction k with
    | zero => intro i hi; exact absurd hi (Nat.not_lt_zero _)
    | succ k ih =>
      intro i hi hNi
      cases hg : c.st.heap.get? i with
      | none => rfl
      | some n =>
        exfalso
        have hrc := hc.inv.h.rc i n hg
        have hpos := hc.inv.h.pos i n hg
        have hext := hc.extFresh i hNi
        simp only [List.count_nil, Nat.add_zero] at hrc hext
        have hin : 0 < (Heap.edges c.st.heap).count i := by omega
        obtain ⟨p, m, hp, hpm⟩ := Heap.edge_source c.st.heap hc.inv.h.nodup i hin
        by_cases hpN : s0.next ≤ p
        · have hlt := hc.fk p m hp hpN i hpm
          have := ih p (Nat.lt_of_lt_of_le hlt (Nat.le_of_lt_succ hi)) hpN
          rw [this] at hp; cases hp
        · have hpl : p < s0.next := Nat.lt_of_not_le hpN
          rw [hc.old p hpl] at hp
          have hcl : (s0.heap.get? i).isSome = true := by
            apply hs0.h.closed i
            have h1 := Heap.count_edges_of_get? s0.heap p m hp i
            have h2 : 0 < m.body.children.count i := List.count_pos_iff.mpr hpm
            simp only [List.count_nil, Nat.add_zero]; omega
          exact absurd (hs0.fresh i hcl) (Nat.not_lt.mpr hNi)
  intro i hi
  exact key (i + 1) i (Nat.lt_succ_self _) hi

theorem cinv_stepOk (s0 : State) (hs0 : Inv s0) (c : Cp) (P : List Id) (hc : CInv s0 c P) (ret : Int)
    (made : Option Id) (hfail : ret < 0 → P = []) :
    StepOk s0 none c.st { ret := ret, made := made, dead := c.dead, cbs := c.cbs } := by
  refine ⟨hc.inv, hc.next_le, hc.log, ?_, ?_, ?_, ?_, ?_, hc.cbFinal⟩
  · have := hc.inv.logNodup
    rw [hc.log] at this
    exact (List.nodup_append.mp this).2.1
  · intro i hi; right; exact hc.deadFresh i hi
  · intro i hi
    simp only
    rw [hc.old i hi]
    constructor
    · intro h
      exact ⟨h, fun hd => absurd hi (Nat.not_lt.mpr (hc.deadFresh i hd))⟩
    · intro h; exact h.1
  · intro i n' hi _ hg
    rw [hc.old i hi] at hg
    exact ⟨n', hg, rfl, rfl⟩
  · intro hneg
    have hP := hfail hneg
    subst hP
    have hnone := cinv_no_fresh s0 hs0 c hc
    refine ⟨?_, ?_⟩
    · intro i
      by_cases hi : i < s0.next
      · exact hc.old i hi
      · have hNi : s0.next ≤ i := Nat.le_of_not_lt hi
        rw [hnone i hNi]
        cases hg : s0.heap.get? i with
        | none => rfl
        | some n => exact absurd (hs0.fresh i (by simp [hg])) hi
    · intro i
      by_cases hi : i < s0.next
      · exact hc.extOld i hi
      · have hNi : s0.next ≤ i := Nat.le_of_not_lt hi
        rw [hc.extFresh i hNi]
        simp only [List.count_nil]
        cases he : s0.ext i with
        | zero => rfl
        | succ k => exact absurd (hs0.ext_lt i (by omega)) hi

theorem deepCopy_spec (s : State) (hs : Inv s) (src : Id) (failAt : Option Nat) :
    Good s none (deepCopy s src failAt) := by
  unfold deepCopy
  cases hg : s.heap.get? src with
  | none => exact Or.inl ⟨_, rfl⟩
  | some n =>
    right
    simp only
    have hlive : (s.heap.get? src).isSome = true := by simp [hg]
    have hc0 : CInv s ⟨s, 0, [], []⟩ [] := by
      refine ⟨hs, Nat.le_refl _, fun _ _ => rfl, fun _ _ => rfl, ?_, ?_, by simp, by simp, by simp⟩
      · intro i hi
        simp only [List.count_nil]
        cases he : s.ext i with
        | zero => rfl
        | succ k => exact absurd (hs.ext_lt i (by omega)) (Nat.not_lt.mpr hi)
      · intro p m hp hNp
        exact absurd (hs.fresh p (by simp [hp])) (Nat.not_lt.mpr hNp)
    obtain ⟨r, hr, hcr, _, _, hdr, hokr⟩ :=
      copyNode_spec s hs failAt (s.heap.length + 1) ⟨s, 0, [], []⟩ src [] hc0 (hs.fresh src hlive) hlive
        (depth_le_length hs src hlive)
    by_cases hok : r.okay = true
    · refine ⟨r.cp.st, _, ?_, cinv_stepOk s hs r.cp _ hcr 0 r.dst (fun h => by omega)⟩
      simp [hr, hok]
    · cases hd : r.dst with
      | none =>
        rw [hd] at hcr
        refine ⟨r.cp.st, _, ?_, cinv_stepOk s hs r.cp _ hcr (-1) none (fun _ => rfl)⟩
        simp [hr, hok, hd, cpPut]
      | some dj =>
        rw [hd] at hcr
        obtain ⟨c1, hp, hc1, _, _, _⟩ := cinv_put s r.cp [] dj hcr (hdr dj hd)
        refine ⟨c1.st, _, ?_, cinv_stepOk s hs c1 _ hc1 (-1) none (fun _ => rfl)⟩
        simp [hr, hok, hd, hp]

end JsonC.Heap
