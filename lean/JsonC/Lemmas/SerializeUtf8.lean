/-
  C02 helper lemmas, part 11: bytes ≥ 0x80 are copied verbatim and ASCII bytes are spelled in ASCII, so
  the emitted text is well-formed UTF-8 (`Rfc8259.utf8Valid`) exactly when every string and key is.
  `utf8Valid` is run as an automaton whose state is the list of byte ranges still expected.
-/
import JsonC.Lemmas.SerializeRoundtrip

namespace JsonC.Serialize
open JsonC Generated SerSpec Rfc8259

/-- state: the ranges `(lo, hi)` the next continuation bytes must lie in (`[]` = between characters) -/
abbrev U8St := List (UInt8 × UInt8)

def u8step : U8St → UInt8 → Option U8St
  | [], b =>
    if b < 0x80 then some []
    else if 0xC2 ≤ b && b ≤ 0xDF then some [(0x80, 0xBF)]
    else if 0xE0 ≤ b && b ≤ 0xEF then
      some [((if b == 0xE0 then 0xA0 else 0x80), (if b == 0xED then 0x9F else 0xBF)), (0x80, 0xBF)]
    else if 0xF0 ≤ b && b ≤ 0xF4 then
      some [((if b == 0xF0 then 0x90 else 0x80), (if b == 0xF4 then 0x8F else 0xBF)), (0x80, 0xBF), (0x80, 0xBF)]
    else none
  | (lo, hi) :: rest, b => if lo ≤ b && b ≤ hi then some rest else none

def u8run : U8St → Bytes → Option U8St
  | st, [] => some st
  | st, b :: r => (u8step st b).bind (fun st' => u8run st' r)

theorem u8run_append : ∀ (a b : Bytes) (st : U8St), u8run st (a ++ b) = (u8run st a).bind (fun st' => u8run st' b) := by
  intro a
  induction a with
  | nil => intro b st; rfl
  | cons c a ih =>
    intro b st
    simp only [List.cons_append, u8run]
    cases u8step st c with
    | none => rfl
    | some st' => exact ih b st'

theorem u8run_range (lo hi : UInt8) (rest : U8St) (b : UInt8) (r : Bytes) :
    u8run ((lo, hi) :: rest) (b :: r) = if (decide (lo ≤ b) && decide (b ≤ hi)) = true then u8run rest r else none := by
  simp only [u8run, u8step]
  split <;> simp_all

theorem u8run_pending_nil (x : UInt8 × UInt8) (rest : U8St) : (u8run (x :: rest) [] == some []) = false := by
  simp [u8run]

theorem ite_acc (c : Bool) (X : Option U8St) : ((if c = true then X else none) == some []) = (c && (X == some [])) := by
  cases c <;> simp

theorem u8run_lead (b : UInt8) (r : Bytes) : u8run [] (b :: r) = (u8step [] b).bind (fun st' => u8run st' r) := rfl

theorem utf8Valid_ascii_cons (b0 : UInt8) (r : Bytes) (h : b0 < 128) : utf8Valid (b0 :: r) = utf8Valid r := by
  cases r with
  | nil =>
    have e : utf8Valid [] = true := by rw [utf8Valid]
    rw [e, utf8Valid]
    · simp [h, e]
    all_goals (intros; simp_all)
  | cons b1 r1 =>
    generalize hx : utf8Valid (b1 :: r1) = x
    rw [utf8Valid]
    simp [h, hx]

/-- `utf8Valid` is acceptance by the automaton -/
theorem utf8Valid_run : ∀ s : Bytes, utf8Valid s = (u8run [] s == some []) := by
  intro s
  induction s using utf8Valid.induct with
  | case1 => rfl
  | case2 b0 r h ih =>
    rw [u8run_lead]; simp only [u8step, h, if_true, Option.bind_some]
    rw [← ih]
    exact utf8Valid_ascii_cons b0 r h
  | case3 b0 h0 h1 b1 r1 ih =>
    rw [u8run_lead]; simp only [u8step, h0, if_false, h1, if_true, Option.bind_some]
    have hL : utf8Valid (b0 :: b1 :: r1) = (decide (128 ≤ b1) && decide (b1 ≤ 191) && utf8Valid r1) := by
      rw [utf8Valid]; simp only [h0, if_false, h1, if_true]
    rw [u8run_range, ite_acc, ← ih, hL]
  | case4 b0 r h0 h1 hr =>
    cases r with
    | nil => simp [utf8Valid, h0, h1, u8run, u8step]
    | cons b1 r1 => exact absurd rfl (hr b1 r1)
  | case5 b0 h0 h1 h2 b1 b2 r2 ih =>
    rw [u8run_lead]; simp only [u8step, h0, if_false, h1, h2, if_true, Option.bind_some, Bool.false_eq_true]
    have hL : utf8Valid (b0 :: b1 :: b2 :: r2) =
        (decide ((if b0 == 224 then (160 : UInt8) else 128) ≤ b1) && decide (b1 ≤ if b0 == 237 then (159 : UInt8) else 191) &&
          (decide (128 ≤ b2) && decide (b2 ≤ 191)) && utf8Valid r2) := by
      rw [utf8Valid]; simp only [h0, if_false, h1, h2, if_true, Bool.false_eq_true]
    rw [u8run_range, ite_acc, u8run_range, ite_acc, ← ih, hL]
    simp only [Bool.and_assoc]
  | case6 b0 r h0 h1 h2 hr =>
    match r, hr with
    | [], _ => simp [utf8Valid, h0, h1, h2, u8run, u8step]
    | [b1], _ =>
      rw [u8run_lead]; simp only [u8step, h0, if_false, h1, h2, if_true, Option.bind_some, Bool.false_eq_true]
      rw [u8run_range, ite_acc, u8run_pending_nil]
      simp [utf8Valid, h0, h1, h2]
    | b1 :: b2 :: r2, hr => exact absurd rfl (hr b1 b2 r2)
  | case7 b0 h0 h1 h2 h3 b1 b2 b3 r3 ih =>
    rw [u8run_lead]; simp only [u8step, h0, if_false, h1, h2, h3, if_true, Option.bind_some, Bool.false_eq_true]
    have hL : utf8Valid (b0 :: b1 :: b2 :: b3 :: r3) =
        (decide ((if b0 == 240 then (144 : UInt8) else 128) ≤ b1) && decide (b1 ≤ if b0 == 244 then (143 : UInt8) else 191) &&
          (decide (128 ≤ b2) && decide (b2 ≤ 191)) && (decide (128 ≤ b3) && decide (b3 ≤ 191)) && utf8Valid r3) := by
      rw [utf8Valid]; simp only [h0, if_false, h1, h2, h3, if_true, Bool.false_eq_true]
    rw [u8run_range, ite_acc, u8run_range, ite_acc, u8run_range, ite_acc, ← ih, hL]
    simp only [Bool.and_assoc]
  | case8 b0 r h0 h1 h2 h3 hr =>
    match r, hr with
    | [], _ => simp [utf8Valid, h0, h1, h2, h3, u8run, u8step]
    | [b1], _ =>
      rw [u8run_lead]; simp only [u8step, h0, if_false, h1, h2, h3, if_true, Option.bind_some, Bool.false_eq_true]
      rw [u8run_range, ite_acc, u8run_pending_nil]
      simp [utf8Valid, h0, h1, h2, h3]
    | [b1, b2], _ =>
      rw [u8run_lead]; simp only [u8step, h0, if_false, h1, h2, h3, if_true, Option.bind_some, Bool.false_eq_true]
      rw [u8run_range, ite_acc, u8run_range, ite_acc, u8run_pending_nil]
      simp [utf8Valid, h0, h1, h2, h3]
    | b1 :: b2 :: b3 :: r3, hr => exact absurd rfl (hr b1 b2 b3 r3)
  | case9 b0 r h0 h1 h2 h3 =>
    rw [u8run_lead]; simp only [u8step, h0, if_false, h1, h2, h3, Bool.false_eq_true, Option.bind_none]
    cases r with
    | nil => rw [utf8Valid] <;> simp [h0, h1, h2, h3]
    | cons b1 r1 => rw [utf8Valid] <;> simp [h0, h1, h2, h3]

/-! ### ASCII bytes and the escape substitution -/

/-- every pending range lies in the upper half: an ASCII byte can never continue a character -/
def HiRanges (st : U8St) : Prop := ∀ x ∈ st, (0x80 : UInt8) ≤ x.1

theorem hi_nil : HiRanges [] := by intro x hx; cases hx

theorem u8step_hi {st st' : U8St} {b : UInt8} (h : HiRanges st) (hs : u8step st b = some st') : HiRanges st' := by
  cases st with
  | nil =>
    simp only [u8step] at hs
    split at hs
    · cases hs; exact hi_nil
    · split at hs
      · cases hs; intro x hx; simp at hx; subst hx; decide
      · split at hs
        · cases hs
          intro x hx
          simp only [List.mem_cons, List.mem_nil_iff, or_false] at hx
          rcases hx with rfl | rfl
          · simp only []; split <;> decide
          · decide
        · split at hs
          · cases hs
            intro x hx
            simp only [List.mem_cons, List.mem_nil_iff, or_false] at hx
            rcases hx with rfl | rfl | rfl
            · simp only []; split <;> decide
            · decide
            · decide
          · cases hs
  | cons x rest =>
    obtain ⟨lo, hi⟩ := x
    simp only [u8step] at hs
    split at hs
    · cases hs; intro y hy; exact h y (by simp [hy])
    · cases hs

theorem u8run_hi : ∀ (a : Bytes) (st st' : U8St), HiRanges st → u8run st a = some st' → HiRanges st' := by
  intro a
  induction a with
  | nil => intro st st' h hr; simp [u8run] at hr; subst hr; exact h
  | cons b r ih =>
    intro st st' h hr
    simp only [u8run] at hr
    cases hs : u8step st b with
    | none => simp [hs] at hr
    | some st1 => simp only [hs, Option.bind_some] at hr; exact ih st1 st' (u8step_hi h hs) hr

theorem u8step_ascii_start {b : UInt8} (h : b < 0x80) : u8step [] b = some [] := by simp [u8step, h]

theorem u8step_ascii_pending {x : UInt8 × UInt8} {rest : U8St} {b : UInt8} (h : HiRanges (x :: rest)) (hb : b < 0x80) :
    u8step (x :: rest) b = none := by
  obtain ⟨lo, hi⟩ := x
  have hlo : (0x80 : UInt8) ≤ lo := h (lo, hi) (by simp)
  have : ¬ lo ≤ b := by
    rw [UInt8.le_iff_toNat_le] at *
    rw [UInt8.lt_iff_toNat_lt] at hb
    simp at hlo hb ⊢; omega
  simp [u8step, this]

theorem u8run_ascii_start : ∀ (a : Bytes), (∀ b ∈ a, b < 0x80) → u8run [] a = some [] := by
  intro a
  induction a with
  | nil => intro _; rfl
  | cons c r ih =>
    intro h
    simp only [u8run, u8step_ascii_start (h c (by simp)), Option.bind_some]
    exact ih (fun b hb => h b (by simp [hb]))

/-- ASCII text between characters is skipped -/
theorem u8run_ascii (a X : Bytes) (h : ∀ b ∈ a, b < 0x80) : u8run [] (a ++ X) = u8run [] X := by
  rw [u8run_append, u8run_ascii_start a h]; rfl

theorem u8run_escByte (ns : Bool) (st : U8St) (hst : HiRanges st) (b : UInt8) : u8run st (escByte ns b) = u8step st b := by
  by_cases hb : b < 0x80
  · obtain ⟨hne, hall⟩ := escByte_ascii ns b hb
    cases st with
    | nil => rw [u8run_ascii_start _ hall, u8step_ascii_start hb]
    | cons x rest =>
      rw [u8step_ascii_pending hst hb]
      cases he : escByte ns b with
      | nil => exact absurd he hne
      | cons e es =>
        have : e < 0x80 := hall e (by simp [he])
        simp [u8run, u8step_ascii_pending hst this]
  · have hh : (0x80 : UInt8) ≤ b := by
      rw [UInt8.le_iff_toNat_le]; rw [UInt8.lt_iff_toNat_lt] at hb; simp at hb ⊢; omega
    rw [escByte_high ns b hh]
    simp only [u8run]
    cases u8step st b <;> rfl

/-- escaping does not change what the automaton sees: ASCII is spelled in ASCII, the rest is verbatim -/
theorem u8run_escBytes (ns : Bool) : ∀ (s : Bytes) (st : U8St), HiRanges st → u8run st (escBytes ns s) = u8run st s := by
  intro s
  induction s with
  | nil => intro st _; rfl
  | cons c r ih =>
    intro st hst
    rw [escBytes_cons, u8run_append, u8run_escByte ns st hst]
    simp only [u8run]
    cases hs : u8step st c with
    | none => rfl
    | some st1 => exact ih st1 (u8step_hi hst hs)

/-- a piece of text whose acceptance is decided by `c`: followed by anything, the automaton either is
back between characters (`c`) or has rejected -/
def Piece (p : Bytes) (c : Bool) : Prop := ∀ X, u8run [] (p ++ X) = if c then u8run [] X else none

theorem piece_ascii (a : Bytes) (h : ∀ b ∈ a, b < 0x80) : Piece a true := by
  intro X; rw [u8run_ascii a X h]; rfl

theorem piece_append {p q : Bytes} {c d : Bool} (hp : Piece p c) (hq : Piece q d) : Piece (p ++ q) (c && d) := by
  intro X
  rw [List.append_assoc, hp, hq]
  cases c <;> cases d <;> rfl

theorem piece_nil : Piece [] true := fun _ => rfl

theorem piece_acc {p : Bytes} {c : Bool} (h : Piece p c) : utf8Valid p = c := by
  have := h []
  rw [utf8Valid_run]
  simp only [List.append_nil] at this
  rw [this]; cases c <;> rfl

/-- a quoted, escaped string is accepted exactly when the string itself is UTF-8 -/
theorem piece_string (ns : Bool) (s : Bytes) : Piece (strText (itemsOf ns s)) (utf8Valid s) := by
  intro X
  rw [strText_eq]
  rw [show [34] ++ escBytes ns s ++ [34] ++ X = [34] ++ (escBytes ns s ++ (34 :: X)) by simp]
  rw [u8run_ascii [34] _ (by decide), u8run_append, u8run_escBytes ns s [] hi_nil, utf8Valid_run]
  cases hr : u8run [] s with
  | none => rfl
  | some st =>
    cases st with
    | nil => simp [u8run, u8step]
    | cons x rest =>
      have hh := u8run_hi s [] _ hi_nil hr
      simp [u8run, u8step_ascii_pending hh (show (34 : UInt8) < 0x80 by decide)]

theorem ws_ascii (w : Ws) : ∀ b ∈ w.text, b < 0x80 := by
  intro b hb
  simp only [Ws.text, List.mem_map] at hb
  obtain ⟨c, _, rfl⟩ := hb
  cases c <;> decide

theorem num_ascii {n : Num} (h : n.ok = true) : ∀ b ∈ n.text, b < 0x80 := by
  intro b hb
  rcases num_text_bytes h b hb with e | e | e | e | e | e
  · subst e; decide
  · subst e; decide
  · subst e; decide
  · subst e; decide
  · subst e; decide
  · rw [UInt8.lt_iff_toNat_lt]; have := UInt8.le_iff_toNat_le.mp e.2; simp at this ⊢; omega

theorem elemsOf_w2 (fmt : UInt64 → Bytes) (f : Fl) (level : Nat) : ∀ (xs : List JVal) (es : List (Ws × Doc × Ws)),
    elemsOf fmt f level xs = some es → (∀ e ∈ es, e.2.2 = []) ∧ (es = [] ↔ xs = []) := by
  intro xs
  induction xs with
  | nil => intro es h; simp [elemsOf] at h; subst h; simp
  | cons x xs ih =>
    intro es h
    cases hd : docOf fmt f level x with
    | none => simp [elemsOf, hd] at h
    | some d =>
      cases hr : elemsOf fmt f level xs with
      | none => simp [elemsOf, hd, hr] at h
      | some r =>
        simp [elemsOf, hd, hr] at h; subst h
        refine ⟨?_, by simp⟩
        intro e he
        simp only [List.mem_cons] at he
        rcases he with rfl | he
        · rfl
        · exact (ih r hr).1 e he

theorem membersOf_w4 (fmt : UInt64 → Bytes) (f : Fl) (level : Nat) : ∀ (kvs : List (Bytes × JVal))
    (ms : List (Ws × List StrItem × Ws × Ws × Doc × Ws)),
    membersOf fmt f level kvs = some ms → (∀ m ∈ ms, m.2.2.2.2.2 = []) ∧ (ms = [] ↔ kvs = []) := by
  intro kvs
  induction kvs with
  | nil => intro ms h; simp [membersOf] at h; subst h; simp
  | cons kv kvs ih =>
    intro ms h
    obtain ⟨k, x⟩ := kv
    cases hd : docOf fmt f level x with
    | none => simp [membersOf, hd] at h
    | some d =>
      cases hr : membersOf fmt f level kvs with
      | none => simp [membersOf, hd, hr] at h
      | some r =>
        simp [membersOf, hd, hr] at h; subst h
        refine ⟨?_, by simp⟩
        intro m hm
        simp only [List.mem_cons] at hm
        rcases hm with rfl | hm
        · rfl
        · exact (ih r hr).1 m hm

variable (fmt : UInt64 → Bytes)

/-- the rendering is well-formed UTF-8 exactly when every string and key of the tree is -/
theorem utf8_all :
    (∀ v, ∀ (f : Fl) (level : Nat) (d : Doc), docOf fmt f level v = some d → Piece d.text (utf8Tree v)) ∧
    (∀ xs, ∀ (f : Fl) (level : Nat) (had : Bool) (es : List (Ws × Doc × Ws)), elemsOf fmt f level xs = some es →
      Piece (joinB had (elemsText es)) (utf8List xs)) ∧
    (∀ kvs, ∀ (f : Fl) (level : Nat) (had : Bool) (ms : List (Ws × List StrItem × Ws × Ws × Doc × Ws)),
      membersOf fmt f level kvs = some ms → Piece (joinB had (membersText ms)) (utf8Members kvs)) := by
  refine tree_ind ?_ ?_ ?_ ?_ ?_ ?_ ?_ ?_ ?_ ?_ ?_
  · intro f level d hd; simp [docOf] at hd; subst hd; exact piece_ascii _ (by decide)
  · intro b f level d hd; simp [docOf] at hd; subst hd
    cases b <;> exact piece_ascii _ (by decide)
  · intro s v f level d hd; simp [docOf] at hd; subst hd
    exact piece_ascii _ (num_ascii (numOfInt_ok v))
  · intro bits t f level d hd
    cases t with
    | none =>
      simp only [docOf] at hd
      split at hd
      · cases hd
      · cases hn : numOfG17 (fmt bits) with
        | none => simp [hn] at hd
        | some n' =>
          simp [hn] at hd; subst hd
          have hsh : g17Shape (fmt bits) = true := by
            unfold numOfG17 at hn; split at hn
            · assumption
            · cases hn
          obtain ⟨n2, hn2, hok, _⟩ := doublePost_shape false (fmt bits) hsh
          rw [hn] at hn2; cases hn2
          exact piece_ascii _ (num_ascii hok)
    | some t =>
      simp only [docOf] at hd
      cases hdt : dblTokenOfText t with
      | none => simp [hdt] at hd
      | some n =>
        simp [hdt] at hd; subst hd
        obtain ⟨hn, _⟩ := dblToken_some hdt
        exact piece_ascii _ (num_ascii (numOfText_some hn).1)
  · intro s f level d hd; simp [docOf] at hd; subst hd
    exact piece_string f.noSlash s
  · intro xs ih f level d hd
    cases hes : elemsOf fmt f (level + 1) xs with
    | none => simp [docOf, hes] at hd
    | some es =>
      simp [docOf, hes] at hd; subst hd
      obtain ⟨hw2, hnil⟩ := elemsOf_w2 fmt f (level + 1) xs es hes
      have hp := ih f (level + 1) false es hes
      rw [arr_text]
      by_cases hemp : es = []
      · subst hemp
        have : xs = [] := hnil.mp rfl
        subst this
        simp only [setLastElem, if_true, utf8Tree, utf8List]
        rw [show (91 : UInt8) :: (emptyWs f).text ++ [93] = [91] ++ (emptyWs f).text ++ [93] by simp]
        have := piece_append (piece_append (piece_ascii [91] (by decide)) (piece_ascii _ (ws_ascii (emptyWs f))))
          (piece_ascii [93] (by decide))
        simpa using this
      · rw [if_neg (setLastElem_ne_nil es _ hemp), setLastElem_text es _ hemp hw2]
        rw [show (91 : UInt8) :: (intercalateB 44 (elemsText es) ++ (closeWs f level).text) ++ [93]
          = [91] ++ joinB false (elemsText es) ++ (closeWs f level).text ++ [93] by simp [joinB]]
        have := piece_append (piece_append (piece_append (piece_ascii [91] (by decide)) hp)
          (piece_ascii _ (ws_ascii (closeWs f level)))) (piece_ascii [93] (by decide))
        simpa [utf8Tree] using this
  · intro kvs ih f level d hd
    cases hms : membersOf fmt f (level + 1) kvs with
    | none => simp [docOf, hms] at hd
    | some ms =>
      simp [docOf, hms] at hd; subst hd
      obtain ⟨hw4, hnil⟩ := membersOf_w4 fmt f (level + 1) kvs ms hms
      have hp := ih f (level + 1) false ms hms
      rw [obj_text]
      by_cases hemp : ms = []
      · subst hemp
        have : kvs = [] := hnil.mp rfl
        subst this
        simp only [setLastMember, if_true, utf8Tree, utf8Members]
        rw [show (123 : UInt8) :: (emptyWs f).text ++ [125] = [123] ++ (emptyWs f).text ++ [125] by simp]
        have := piece_append (piece_append (piece_ascii [123] (by decide)) (piece_ascii _ (ws_ascii (emptyWs f))))
          (piece_ascii [125] (by decide))
        simpa using this
      · rw [if_neg (setLastMember_ne_nil ms _ hemp), setLastMember_text ms _ hemp hw4]
        rw [show (123 : UInt8) :: (intercalateB 44 (membersText ms) ++ (closeWs f level).text) ++ [125]
          = [123] ++ joinB false (membersText ms) ++ (closeWs f level).text ++ [125] by simp [joinB]]
        have := piece_append (piece_append (piece_append (piece_ascii [123] (by decide)) hp)
          (piece_ascii _ (ws_ascii (closeWs f level)))) (piece_ascii [125] (by decide))
        simpa [utf8Tree] using this
  · intro f level had es hes; simp [elemsOf] at hes; subst hes
    simp only [elemsText, joinB_nil, utf8List]; exact piece_nil
  · intro x xs ihx ihxs f level had es hes
    cases hd : docOf fmt f level x with
    | none => simp [elemsOf, hd] at hes
    | some d =>
      cases hr : elemsOf fmt f level xs with
      | none => simp [elemsOf, hd, hr] at hes
      | some r =>
        simp [elemsOf, hd, hr] at hes; subst hes
        simp only [elemsText, joinB_cons, utf8List]
        have h1 : Piece (if had then [44] else [] : Bytes) true := piece_ascii _ (by cases had <;> decide)
        have h2 := piece_append (piece_append (piece_ascii _ (ws_ascii (leadWs f level))) (ihx f level d hd))
          (piece_ascii _ (ws_ascii ([] : Ws)))
        have := piece_append (piece_append h1 h2) (ihxs f level true r hr)
        simpa [List.append_assoc] using this
  · intro f level had ms hms; simp [membersOf] at hms; subst hms
    simp only [membersText, joinB_nil, utf8Members]; exact piece_nil
  · intro k x kvs ihx ihkvs f level had ms hms
    cases hd : docOf fmt f level x with
    | none => simp [membersOf, hd] at hms
    | some d =>
      cases hr : membersOf fmt f level kvs with
      | none => simp [membersOf, hd, hr] at hms
      | some r =>
        simp [membersOf, hd, hr] at hms; subst hms
        simp only [membersText, joinB_cons, utf8Members]
        have h1 : Piece (if had then [44] else [] : Bytes) true := piece_ascii _ (by cases had <;> decide)
        have h2 := piece_append (piece_append (piece_append (piece_append
          (piece_append (piece_ascii _ (ws_ascii (leadWs f level))) (piece_string f.noSlash k))
          (piece_ascii _ (ws_ascii ([] : Ws)))) (piece_ascii (58 :: (colonWs f).text) (by
            intro b hb; simp only [List.mem_cons] at hb
            rcases hb with rfl | hb
            · decide
            · exact ws_ascii _ b hb))) (ihx f level d hd)) (piece_ascii _ (ws_ascii ([] : Ws)))
        have := piece_append (piece_append h1 h2) (ihkvs f level true r hr)
        simpa [List.append_assoc, Bool.and_assoc] using this

end JsonC.Serialize
