/-
  Helper lemmas for C12 (never property statements): C strings inside an allocation, the
  strstr/memmove loop of string_replace_all_occurrences_with_char.
-/
import JsonC.Model.Pointer
import JsonC.Spec.Rfc6901

namespace JsonC.Pointer
open JsonC Generated Rfc6901

/-! ### list plumbing -/

theorem set_append_mid {α : Type} (a : List α) (x y : α) (b : List α) (n : Nat) (h : n = a.length) :
    (a ++ x :: b).set n y = a ++ y :: b := by
  subst h
  induction a with
  | nil => rfl
  | cons c a ih => simp [ih]

theorem getElem?_append_mid {α : Type} (a : List α) (x : α) (b : List α) (n : Nat) (h : n = a.length) :
    (a ++ x :: b)[n]? = some x := by
  subst h
  induction a with
  | nil => rfl
  | cons c a ih => simp

theorem length_append_mid {α : Type} (a : List α) (x : α) (b : List α) :
    a.length < (a ++ x :: b).length := by
  simp

/-! ### idxOfByte / cstrAt -/

theorem idxOfByte_append (c : UInt8) (s post : Bytes) (h : c ∉ s) :
    idxOfByte c (s ++ c :: post) = some s.length := by
  induction s with
  | nil => simp [idxOfByte]
  | cons x s ih =>
    have hx : x ≠ c := by intro e; apply h; simp [e]
    have hs : c ∉ s := by intro e; apply h; simp [e]
    simp [idxOfByte, hx, ih hs]

theorem idxOfByte_none (c : UInt8) (s : Bytes) (h : c ∉ s) : idxOfByte c s = none := by
  induction s with
  | nil => rfl
  | cons x s ih =>
    have hx : x ≠ c := by intro e; apply h; simp [e]
    have hs : c ∉ s := by intro e; apply h; simp [e]
    simp [idxOfByte, hx, ih hs]

/-- a byte string either has no `c`, or splits at its first `c` -/
theorem split_first (c : UInt8) (s : Bytes) :
    c ∉ s ∨ ∃ a b, s = a ++ c :: b ∧ c ∉ a := by
  induction s with
  | nil => left; simp
  | cons x s ih =>
    by_cases hx : x = c
    · right; exact ⟨[], s, by simp [hx], by simp⟩
    · rcases ih with h | ⟨a, b, hs, ha⟩
      · left; intro e
        rcases List.mem_cons.mp e with e | e
        · exact hx e.symm
        · exact h e
      · right; refine ⟨x :: a, b, by simp [hs], ?_⟩
        intro e
        rcases List.mem_cons.mp e with e | e
        · exact hx e.symm
        · exact ha e

/-- a byte string either has no `c`, or splits at its last `c` -/
theorem split_last (c : UInt8) (s : Bytes) :
    c ∉ s ∨ ∃ a b, s = a ++ c :: b ∧ c ∉ b := by
  induction s with
  | nil => left; simp
  | cons x s ih =>
    rcases ih with h | ⟨a, b, hs, hb⟩
    · by_cases hx : x = c
      · right; exact ⟨[], s, by simp [hx], h⟩
      · left; intro e
        rcases List.mem_cons.mp e with e | e
        · exact hx e.symm
        · exact h e
    · right; exact ⟨x :: a, b, by simp [hs], hb⟩

theorem lastIdxOfByte_none (c : UInt8) (s : Bytes) (h : c ∉ s) : lastIdxOfByte c s = none := by
  induction s with
  | nil => rfl
  | cons x s ih =>
    have hx : x ≠ c := by intro e; apply h; simp [e]
    have hs : c ∉ s := by intro e; apply h; simp [e]
    simp [lastIdxOfByte, hx, ih hs]

theorem lastIdxOfByte_append (c : UInt8) (a b : Bytes) (h : c ∉ b) :
    lastIdxOfByte c (a ++ c :: b) = some a.length := by
  induction a with
  | nil => simp [lastIdxOfByte, lastIdxOfByte_none c b h]
  | cons x a ih => simp [lastIdxOfByte, ih]

/-- the C string at `pre.length` in `pre ++ s ++ 0 :: post` is `s` -/
theorem cstrAt_mid (pre s post : Bytes) (h0 : (0 : UInt8) ∉ s) (off : Nat) (hoff : off = pre.length)
    (site : String) : cstrAt (pre ++ s ++ 0 :: post) off site = .ok s := by
  subst hoff
  unfold cstrAt
  have hd : List.drop pre.length (pre ++ s ++ 0 :: post) = s ++ 0 :: post := by
    rw [List.append_assoc]; exact List.drop_left' rfl
  rw [hd, idxOfByte_append 0 s post h0]
  simp

theorem rd_mid (pre : Bytes) (x : UInt8) (post : Bytes) (off : Nat) (hoff : off = pre.length) (site : String) :
    rd (pre ++ x :: post) off site = .ok x := by
  unfold rd
  rw [getElem?_append_mid pre x post off hoff]

theorem wr_mid (pre : Bytes) (x y : UInt8) (post : Bytes) (off : Nat) (hoff : off = pre.length) (site : String) :
    wr (pre ++ x :: post) off y site = .ok (pre ++ y :: post) := by
  unfold wr
  have : off < (pre ++ x :: post).length := by subst hoff; exact length_append_mid pre x post
  rw [if_pos this, set_append_mid pre x y post off hoff]

/-! ### findSub against the specification's `subst2` -/

theorem subst2_nil (a b r : UInt8) : subst2 a b r [] = [] := by
  unfold subst2; rfl

theorem subst2_single (a b r x : UInt8) : subst2 a b r [x] = [x] := by
  unfold subst2; rfl

theorem subst2_cons_cons (a b r x y : UInt8) (rest : Bytes) :
    subst2 a b r (x :: y :: rest) =
      if x = a ∧ y = b then r :: subst2 a b r rest else x :: subst2 a b r (y :: rest) := by
  rw [subst2]

theorem isPrefixOf_two (a b : UInt8) (s : Bytes) :
    List.isPrefixOf [a, b] s = true ↔ ∃ rest, s = a :: b :: rest := by
  match s with
  | [] => simp [List.isPrefixOf]
  | [x] => simp [List.isPrefixOf]
  | x :: y :: rest =>
    simp only [List.isPrefixOf, Bool.and_eq_true, beq_iff_eq, Bool.and_true]
    constructor
    · rintro ⟨h1, h2⟩; exact ⟨rest, by rw [h1, h2]⟩
    · rintro ⟨r, h⟩
      injection h with h1 h
      injection h with h2 _
      exact ⟨h1.symm, h2.symm⟩

/-- no occurrence: nothing to replace -/
theorem subst2_of_findSub_none (a b r : UInt8) (s : Bytes) (h : findSub [a, b] s = none) :
    subst2 a b r s = s := by
  induction s with
  | nil => exact subst2_nil a b r
  | cons x s ih =>
    unfold findSub at h
    by_cases hp : List.isPrefixOf [a, b] (x :: s) = true
    · rw [if_pos hp] at h; cases h
    · rw [if_neg hp] at h
      have hn : findSub [a, b] s = none := by
        cases hf : findSub [a, b] s with
        | none => rfl
        | some i => rw [hf] at h; cases h
      match s, ih with
      | [], _ => exact subst2_single a b r x
      | y :: rest, ih =>
        rw [subst2_cons_cons]
        have : ¬ (x = a ∧ y = b) := by
          rintro ⟨h1, h2⟩; apply hp; rw [isPrefixOf_two]; exact ⟨rest, by rw [h1, h2]⟩
        rw [if_neg this, ih hn]

/-- first occurrence at `i`: the text splits there -/
theorem subst2_of_findSub_some (a b r : UInt8) (s : Bytes) (i : Nat) (h : findSub [a, b] s = some i) :
    ∃ x y, s = x ++ a :: b :: y ∧ x.length = i ∧ subst2 a b r s = x ++ r :: subst2 a b r y := by
  induction s generalizing i with
  | nil => simp [findSub] at h
  | cons c s ih =>
    unfold findSub at h
    by_cases hp : List.isPrefixOf [a, b] (c :: s) = true
    · rw [if_pos hp] at h
      injection h with h
      obtain ⟨rest, hs⟩ := (isPrefixOf_two a b (c :: s)).mp hp
      refine ⟨[], rest, by simpa using hs, by simp [← h], ?_⟩
      rw [hs, subst2_cons_cons, if_pos ⟨rfl, rfl⟩]; rfl
    · rw [if_neg hp] at h
      cases hf : findSub [a, b] s with
      | none => rw [hf] at h; cases h
      | some j =>
        rw [hf] at h
        injection h with h
        obtain ⟨x, y, hs, hx, hsub⟩ := ih j hf
        refine ⟨c :: x, y, by simp [hs], by simp [hx, ← h], ?_⟩
        match s, hs, hsub, hp with
        | [], hs, _, _ => cases x <;> simp at hs
        | d :: rest, hs, hsub, hp =>
          rw [subst2_cons_cons]
          have : ¬ (c = a ∧ d = b) := by
            rintro ⟨h1, h2⟩; apply hp; rw [isPrefixOf_two]; exact ⟨rest, by rw [h1, h2]⟩
          rw [if_neg this, hsub]; rfl

theorem subst2_length_le (a b r : UInt8) (s : Bytes) : (subst2 a b r s).length ≤ s.length := by
  fun_induction subst2 a b r s with
  | case1 x y rest h ih => simp; omega
  | case2 x y rest h ih => simp at ih ⊢; omega
  | case3 l h => simp


theorem memmove_shift (A : Bytes) (b : UInt8) (y T : Bytes) (p n : Nat) (hp : p = A.length)
    (hn : n = y.length + 1) :
    (A ++ b :: (y ++ 0 :: T)).take p ++ ((A ++ b :: (y ++ 0 :: T)).drop (p + 1)).take n ++
      (A ++ b :: (y ++ 0 :: T)).drop (p + n) = A ++ (y ++ 0 :: 0 :: T) := by
  subst hp hn
  have h1 : (A ++ b :: (y ++ 0 :: T)).take A.length = A := List.take_left' rfl
  have h2 : (A ++ b :: (y ++ 0 :: T)).drop (A.length + 1) = y ++ 0 :: T := by
    have : A ++ b :: (y ++ 0 :: T) = (A ++ [b]) ++ (y ++ 0 :: T) := by simp
    rw [this]; exact List.drop_left' (by simp)
  have h3 : (y ++ 0 :: T).take (y.length + 1) = y ++ [0] := by
    have : y ++ 0 :: T = (y ++ [0]) ++ T := by simp
    rw [this]; exact List.take_left' (by simp)
  have h4 : (A ++ b :: (y ++ 0 :: T)).drop (A.length + (y.length + 1)) = 0 :: T := by
    have : A ++ b :: (y ++ 0 :: T) = (A ++ b :: y) ++ 0 :: T := by simp
    rw [this]; exact List.drop_left' (by simp)
  rw [h1, h2, h3, h4]; simp

theorem replaceLoop_spec (a b r : UInt8) (pre post : Bytes) :
    ∀ (fuel : Nat) (done rest junk : Bytes), (0 : UInt8) ∉ rest → rest.length < fuel →
    ∃ junk', replaceLoop [a, b] r pre.length 1 fuel (pre ++ done ++ rest ++ 0 :: (junk ++ post))
        (done.length + rest.length) (pre.length + done.length)
      = .ok (pre ++ (done ++ subst2 a b r rest) ++ 0 :: (junk' ++ post)) ∧
      junk'.length + (subst2 a b r rest).length = junk.length + rest.length := by
  intro fuel
  induction fuel with
  | zero => intro _ _ _ _ h; omega
  | succ fuel ih =>
    intro done rest junk h0 hf
    rw [replaceLoop]
    have hc : cstrAt (pre ++ done ++ rest ++ 0 :: (junk ++ post)) (pre.length + done.length)
        "strstr(p, occur)" = .ok rest :=
      cstrAt_mid (pre ++ done) rest (junk ++ post) h0 _ (by simp) _
    rw [hc]; simp only [Outcome.bind_ok]
    cases hfs : findSub [a, b] rest with
    | none =>
      refine ⟨junk, ?_, ?_⟩
      · simp [subst2_of_findSub_none a b r rest hfs]
      · rw [subst2_of_findSub_none a b r rest hfs]
    | some i =>
      obtain ⟨x, y, hrest, hx, hsub⟩ := subst2_of_findSub_some a b r rest i hfs
      subst hx
      dsimp only
      have h0y : (0 : UInt8) ∉ y := by
        intro e; apply h0; rw [hrest]; simp [e]
      have hbuf : pre ++ done ++ rest ++ 0 :: (junk ++ post) =
          (pre ++ done ++ x) ++ a :: (b :: (y ++ 0 :: (junk ++ post))) := by
        rw [hrest]; simp
      rw [hbuf, wr_mid (pre ++ done ++ x) a r _ (pre.length + done.length + x.length) (by simp; omega)]
      simp only [Outcome.bind_ok]
      have hlen : rest.length = x.length + 2 + y.length := by rw [hrest]; simp; omega
      rw [if_neg (by omega), if_neg (by omega)]
      have hmm := memmove_shift (pre ++ done ++ x ++ [r]) b y (junk ++ post)
        (pre.length + done.length + x.length + 1)
        (done.length + rest.length - 1 - (pre.length + done.length + x.length + 1 - pre.length) + 1)
        (by simp; omega) (by omega)
      have hshape : pre ++ done ++ x ++ r :: b :: (y ++ 0 :: (junk ++ post)) =
          pre ++ done ++ x ++ [r] ++ b :: (y ++ 0 :: (junk ++ post)) := by simp
      rw [hshape, if_neg (by simp; omega), hmm]
      obtain ⟨junk', hrun, hj⟩ := ih (done ++ x ++ [r]) y (0 :: junk) h0y (by omega)
      refine ⟨junk', ?_, ?_⟩
      · have e1 : pre ++ done ++ x ++ [r] ++ (y ++ 0 :: 0 :: (junk ++ post)) =
            pre ++ (done ++ x ++ [r]) ++ y ++ 0 :: ((0 :: junk) ++ post) := by simp
        have e2 : done.length + rest.length - 1 = (done ++ x ++ [r]).length + y.length := by simp; omega
        have e3 : pre.length + done.length + x.length + 1 = pre.length + (done ++ x ++ [r]).length := by simp; omega
        rw [e1, e2, e3, hrun, hsub]; simp
      · rw [hsub]; simp at hj ⊢; omega


/-- string_replace_all_occurrences_with_char on the C string at `s` inside an allocation:
no fault; the string becomes `subst2 a b r str`, the allocation keeps its size, nothing outside
the old string (terminator included) is touched. -/
theorem replaceC_spec (a b r : UInt8) (pre str post : Bytes) (h0 : (0 : UInt8) ∉ str) (s : Nat)
    (hs : s = pre.length) :
    ∃ junk, replaceC (pre ++ str ++ 0 :: post) s [a, b] r
        = .ok (pre ++ subst2 a b r str ++ 0 :: (junk ++ post)) ∧
      junk.length + (subst2 a b r str).length = str.length := by
  subst hs
  unfold replaceC
  rw [cstrAt_mid pre str post h0 _ rfl]
  simp only [Outcome.bind_ok]
  rw [if_neg (by simp)]
  obtain ⟨junk, hrun, hj⟩ := replaceLoop_spec a b r pre post (str.length + 1) [] str [] h0 (by omega)
  refine ⟨junk, ?_, by simpa using hj⟩
  simpa using hrun

theorem subst2_no_nul (a b r : UInt8) (s : Bytes) (hr : r ≠ 0) (h0 : (0 : UInt8) ∉ s) :
    (0 : UInt8) ∉ subst2 a b r s := by
  fun_induction subst2 a b r s with
  | case1 x y rest h ih =>
    intro e
    rcases List.mem_cons.mp e with e | e
    · exact hr e.symm
    · exact ih (by intro e'; apply h0; simp [e']) e
  | case2 x y rest h ih =>
    intro e
    rcases List.mem_cons.mp e with e | e
    · apply h0; simp [e]
    · exact ih (by intro e'; apply h0; exact List.mem_cons_of_mem _ e') e
  | case3 l h => exact h0

theorem unescape_no_nul (tok : Bytes) (h0 : (0 : UInt8) ∉ tok) : (0 : UInt8) ∉ unescape tok :=
  subst2_no_nul _ _ _ _ (by decide) (subst2_no_nul _ _ _ _ (by decide) h0)

theorem unescape_length_le (tok : Bytes) : (unescape tok).length ≤ tok.length :=
  Nat.le_trans (subst2_length_le _ _ _ _) (subst2_length_le _ _ _ _)

/-- the two replace calls of json_pointer_get_single_path / json_pointer_set_single_path, as read
off the source (`"~1"` → `/` first, then `"~0"` → `~`), decode the token as RFC 6901 §4 says -/
theorem unescapeC_spec (calls : List (Bytes × UInt8)) (hcalls : calls = [([126, 49], 47), ([126, 48], 126)])
    (pre tok post : Bytes) (h0 : (0 : UInt8) ∉ tok) (s : Nat) (hs : s = pre.length) :
    ∃ junk, unescapeC calls (pre ++ tok ++ 0 :: post) s
        = .ok (pre ++ unescape tok ++ 0 :: (junk ++ post)) ∧
      junk.length + (unescape tok).length = tok.length := by
  subst hcalls
  obtain ⟨j1, h1, l1⟩ := replaceC_spec 126 49 47 pre tok post h0 s hs
  have h0' : (0 : UInt8) ∉ subst2 126 49 47 tok := subst2_no_nul _ _ _ _ (by decide) h0
  obtain ⟨j2, h2, l2⟩ := replaceC_spec 126 48 126 pre (subst2 126 49 47 tok) (j1 ++ post) h0' s hs
  refine ⟨j2 ++ j1, ?_, ?_⟩
  · simp only [unescapeC, h1, Outcome.bind_ok, h2]
    simp [unescape]
  · simp only [unescape, List.length_append]; omega

end JsonC.Pointer
