/-
  `json_tokener_reset` and `json_tokener_reset_level`, as translated from the current C source
  (Generated/Translated.lean), related to the tokener model's `reset` (C04: "resetting a tokener makes it behave like a new
  one"; C05: what a level held is released exactly once):

  * `reset_level_trace`: one level is reset by writing `state = json_tokener_state_eatws`, `saved_state =
    json_tokener_state_start`, giving up the reference to `current` (json_object_put) and clearing the slot, freeing
    `obj_field_name` and clearing the slot - in this order, the slot cleared after the release, so a second reset cannot release
    again;
  * `reset_sweeps`: `json_tokener_reset(tok)` calls `json_tokener_reset_level(tok, i)` for i = depth, depth-1, ..., 0, every level
    exactly once, then writes depth = 0, err = json_tokener_success, high_surrogate = 0 - the model's
    `reset t = { t with stack := [freshLevel], hs := 0 }`;
  * `reset_null`: a NULL tokener is left alone.
-/
import JsonC.Model.Tokener
import JsonC.Lemmas.TranslatedPb
namespace JsonC.TranslatedReset
open JsonC JsonC.Generated JsonC.CSem JsonC.TranslatedPb

/-- the slot of level `d` in the stack at `stack` -/
def slot (stack d : Int) (f : String) : Int := CSem.field (stack + d * 32) f

theorem reset_level_trace (tok depth stack cur c2 name : Int) :
    Translated.json_tokener_reset_level tok depth stack cur c2 name =
      .ok { ret := 0, calls :=
        [("store4", [slot stack depth "state", ((stEatws : Nat) : Int)]),
         ("store4", [slot stack depth "saved_state", ((stStart : Nat) : Int)]),
         ("load8", [slot stack depth "current"]),
         ("json_object_put", [cur]),
         ("store8", [slot stack depth "current", 0]),
         ("load8", [slot stack depth "obj_field_name"]),
         ("free", [name]),
         ("store8", [slot stack depth "obj_field_name", 0])] } := by
  rfl

/-- the levels swept, from `d` down to 0 -/
def sweep (tok : Int) : Nat → List (String × List Int)
  | 0 => [("json_tokener_reset_level", [tok, 0])]
  | d + 1 => ("json_tokener_reset_level", [tok, ((d + 1 : Nat) : Int)]) :: sweep tok d

theorem sweep_length (tok : Int) (d : Nat) : (sweep tok d).length = d + 1 := by
  induction d with
  | zero => rfl
  | succ d ih => simp [sweep, ih]

theorem sweep_mem (tok : Int) (d i : Nat) (h : i ≤ d) : ("json_tokener_reset_level", [tok, (i : Int)]) ∈ sweep tok d := by
  induction d with
  | zero => have : i = 0 := by omega
            subst this; simp [sweep]
  | succ d ih =>
    by_cases e : i = d + 1
    · subst e; simp [sweep]
    · simp only [sweep, List.mem_cons]; right; exact ih (by omega)

/-- the loop `for (i = tok->depth; i >= 0; i--) json_tokener_reset_level(tok, i);` and what follows it -/
theorem loop_agrees (u1 : Int) (fuel : Nat) (h2 h3 h4 : Nat → Int) (tok : Int) (d : Nat) (hd : (d : Int) ≤ 2147483647) :
    ∀ (fuel0 it : Nat) (td te ths : Int) (tr : List (String × List Int)), d + 2 ≤ fuel0 →
      Translated.json_tokener_reset.loop1 u1 fuel h2 h3 h4 fuel0 it tok td te ths tr (d : Int) =
        .ok { ret := 0, tok_depth := 0, tok_err := 0, tok_high_surrogate := 0, calls := tr ++ sweep tok d } := by
  induction d with
  | zero =>
    intro fuel0 it td te ths tr hf
    match fuel0, hf with
    | f + 2, _ =>
      unfold Translated.json_tokener_reset.loop1
      simp only []
      rw [if_pos (by omega)]
      rw [ckS32_bind, if_pos (by omega)]
      unfold Translated.json_tokener_reset.loop1
      simp only []
      rw [if_neg (by omega)]
      unfold Translated.json_tokener_reset.j1
      rfl
  | succ d ih =>
    intro fuel0 it td te ths tr hf
    match fuel0, hf with
    | f + 1, hf =>
      unfold Translated.json_tokener_reset.loop1
      simp only []
      rw [if_pos (by omega)]
      rw [ckS32_bind, if_pos (by omega)]
      have e : ((d + 1 : Nat) : Int) + -1 = (d : Int) := by omega
      rw [e, ih (by omega) f (it + 1) _ _ _ _ (by omega)]
      simp [sweep]

/-- `json_tokener_reset(tok)` on a tokener whose depth is `d`: every level d, d-1, ..., 0 is reset exactly once, in this
order, and the tokener is left at depth 0 with no error and no pending surrogate -/
theorem reset_sweeps (tok te ths u1 : Int) (d : Nat) (h2 h3 h4 : Nat → Int) (fuel : Nat)
    (ht : tok ≠ 0) (hd : (d : Int) ≤ 2147483647) (hf : d + 2 ≤ fuel) :
    Translated.json_tokener_reset tok (d : Int) te ths u1 fuel h2 h3 h4 =
      .ok { ret := 0, tok_depth := 0, tok_err := ((errSuccess : Nat) : Int), tok_high_surrogate := 0, calls := sweep tok d } := by
  unfold Translated.json_tokener_reset
  simp only []
  rw [if_pos ht, loop_agrees u1 fuel h2 h3 h4 tok d hd fuel 0 _ _ _ _ hf]
  rfl

theorem reset_null (td te ths u1 : Int) (h2 h3 h4 : Nat → Int) (fuel : Nat) :
    Translated.json_tokener_reset 0 td te ths u1 fuel h2 h3 h4 =
      .ok { ret := 0, tok_depth := td, tok_err := te, tok_high_surrogate := ths, calls := [] } := by
  unfold Translated.json_tokener_reset
  simp

/-- the model's `reset` is what the swept tokener looks like: one fresh level (state eatws, saved state start, no value, no
field name), no pending surrogate; everything else is kept -/
theorem model_reset (t : Tokener.Tok) :
    (Tokener.reset t).stack = [Tokener.freshLevel] ∧ (Tokener.reset t).hs = 0 ∧
    (Tokener.reset t).maxDepth = t.maxDepth ∧ (Tokener.reset t).flags = t.flags ∧
    Tokener.freshLevel = ⟨.eatws, .start, .null, none⟩ := ⟨rfl, rfl, rfl, rfl, rfl⟩

end JsonC.TranslatedReset
