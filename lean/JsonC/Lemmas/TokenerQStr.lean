/-
  Strings and member names delimited by either quote character (C16): `parsed_string` and
  `reaches_name` of TokenerDoc4 generalised to `Quote` (`"` always, `'` when JSON_TOKENER_STRICT is
  off).  The double-quote case is the existing result; the single-quote case repeats the item-by-item
  simulation of TokenerDoc3 with `quote = 39` (`SqSt`), using that no raw item is the byte 39 and
  that neither the escape letters nor the hex digits nor the backslash are 39.  The transducer side
  (`itemStep`, `itemsFold`, `decode_eq_fold`, `emit_unit16`, `emit_pair`, `reaches_digits`) does not
  mention the quote and is reused as it is.
-/
import JsonC.Lemmas.TokenerDoc4
import JsonC.Spec.Rfc8259X
namespace JsonC.Tokener
open JsonC Rfc8259 Rfc8259X

/-- `StrSt` with the single quote as the closing character -/
structure SqSt (t0 t : Tok) (sst : St) (cur : JVal) (nm : Option Bytes) (rest : List Level)
    (pend : Option Nat) (acc : Bytes) : Prop where
  md : t.maxDepth = t0.maxDepth
  fl : t.flags = t0.flags
  pb : t.pb = acc
  q : t.quote = 39
  st : match pend with
    | none => (∃ sv, t.stack = ⟨sst, sv, cur, nm⟩ :: rest) ∧ t.hs = 0
    | some hi => t.stack = ⟨.needEscape, sst, cur, nm⟩ :: rest ∧ t.hs = hi ∧ isHigh hi = true ∧ t.stPos = 0 ∧ t.ucs = 0

theorem SqSt.noVal {t0 t sst cur nm rest pend acc} (s : SqSt t0 t sst cur nm rest pend acc) (h : NoVal t0) : NoVal t := by
  unfold NoVal at *; rw [s.fl]; exact h

/-- an item allowed between single quotes -/
def sqItemOk (i : StrItem) : Prop := i.ok = true ∧ i ≠ .raw 39

section
variable (lc : Libc) (t0 t : Tok) (l : Loc) (sst : St) (hsst : IsStrState sst) (cur : JVal) (nm : Option Bytes)
  (rest : List Level) (acc : Bytes) (hv : NoVal t0)

include hv hsst

/-! ### one item, nothing pending -/

theorem sq_item_raw_none (s : SqSt t0 t sst cur nm rest none acc) (b : UInt8) (hb : (StrItem.raw b).ok = true)
    (hb39 : b ≠ 39) :
    ∃ t', SqSt t0 t' sst cur nm rest none (acc ++ [b]) ∧ Reaches lc t l [b] t' l := by
  obtain ⟨⟨sv, hst⟩, hhs⟩ := s.st
  simp only [StrItem.ok, Bool.and_eq_true, decide_eq_true_eq, bne_iff_ne] at hb
  have hb0 : b ≠ 0 := by intro h; subst h; exact absurd hb.1.1 (by decide)
  refine ⟨{ t with pb := t.pb ++ [b] }, ⟨s.md, s.fl, by simp [s.pb], s.q, ⟨⟨sv, hst⟩, hhs⟩⟩, ?_⟩
  apply reaches_one lc t l b _ l (s.noVal hv).validate hb0
  apply feed_of_disp
  · have hq : (b == t.quote) = false := by rw [s.q]; simpa using hb39
    have h92 : (b == 92) = false := by simpa using hb.2
    have hc : (b ≤ 0x1f) = False := by
      simp; exact Nat.lt_of_lt_of_le (by decide) (UInt8.le_iff_toNat_le.mp hb.1.1)
    rcases hsst with h | h <;> subst h <;> simp [disp, hst, dString, dObjectField, hq, h92, hc]
  · intro t' l' h; cases h

theorem sq_item_esc_none (s : SqSt t0 t sst cur nm rest none acc) (e : Esc) :
    ∃ t', SqSt t0 t' sst cur nm rest none (acc ++ [e.value]) ∧ Reaches lc t l [92, e.letter] t' l := by
  obtain ⟨⟨sv, hst⟩, hhs⟩ := s.st
  have hv' := s.noVal hv; unfold NoVal at hv'
  have hq := s.q
  refine ⟨{ t with stack := ⟨sst, sst, cur, nm⟩ :: rest, pb := t.pb ++ [e.value] },
    ⟨s.md, s.fl, by simp [s.pb], s.q, ⟨⟨sst, rfl⟩, hhs⟩⟩, ?_⟩
  intro c off rs
  rcases hsst with h | h <;> subst h <;> cases e <;>
    simp [run, peek, hv', feed, fuel, feedN, disp, hst, dString, dObjectField, dStringEscape, setTop, hq,
      Esc.letter, Esc.value, lastOr, Tok.validateUtf8]

/-- `\` then `u` from the string state: in escape_unicode with a clean accumulator -/
theorem sq_reaches_bs_u (s : SqSt t0 t sst cur nm rest none acc) :
    Reaches lc t l [92, 117] { t with stack := ⟨.escapeUnicode, sst, cur, nm⟩ :: rest, ucs := 0, stPos := 0 } l := by
  obtain ⟨⟨sv, hst⟩, hhs⟩ := s.st
  have hv' := s.noVal hv; unfold NoVal at hv'
  have hq := s.q
  intro c off rs
  rcases hsst with h | h <;> subst h <;>
    simp [run, peek, hv', feed, fuel, feedN, disp, hst, dString, dObjectField, dStringEscape, setTop, hq, lastOr,
      Tok.validateUtf8]

theorem sq_item_u_none (s : SqSt t0 t sst cur nm rest none acc) (a b c d : HexDigit)
    (hok : (StrItem.u a b c d).ok = true) :
    ∃ t', SqSt t0 t' sst cur nm rest (itemStep none (.u a b c d)).1 (acc ++ (itemStep none (.u a b c d)).2) ∧
      Reaches lc t l (StrItem.u a b c d).text t' l := by
  obtain ⟨⟨sv, hst⟩, hhs⟩ := s.st
  simp only [StrItem.ok, Bool.and_eq_true] at hok
  obtain ⟨⟨⟨ha, hb⟩, hc⟩, hd⟩ := hok
  have hx := unitOf_lt a b c d ha hb hc hd
  let t2 : Tok := { t with stack := ⟨.escapeUnicode, sst, cur, nm⟩ :: rest, ucs := 0, stPos := 0 }
  have h2 := sq_reaches_bs_u lc t0 t l sst hsst cur nm rest acc hv s
  have hv2 : NoVal t2 := by have := s.noVal hv; simpa [NoVal, t2] using this
  -- what the completed unit does
  have hunit : unicodeUnit { t2 with ucs := unitOf a b c d, stPos := 3 } l ⟨.escapeUnicode, sst, cur, nm⟩ rest (unitOf a b c d) =
      emitUnit { t2 with ucs := unitOf a b c d, stPos := 3 } l ⟨.escapeUnicode, sst, cur, nm⟩ rest (unitOf a b c d) t.pb := by
    unfold unicodeUnit; simp [t2, hhs]
  rw [emit_unit16 _ l cur nm rest sst (unitOf a b c d) hx t.pb] at hunit
  simp only [itemStep]
  by_cases hh : isHigh (unitOf a b c d) = true
  · rw [if_pos hh] at hunit
    have hd4 := reaches_digits lc t2 l sst cur nm rest rfl hv2 rfl rfl a b c d ha hb hc hd _ l hunit
    refine ⟨_, ?_, by simpa [StrItem.text] using Reaches.trans h2 hd4⟩
    simp only [hh, if_true]
    exact ⟨s.md, s.fl, by simp [s.pb], s.q, ⟨rfl, rfl, hh, rfl, rfl⟩⟩
  · rw [if_neg hh] at hunit
    have hd4 := reaches_digits lc t2 l sst cur nm rest rfl hv2 rfl rfl a b c d ha hb hc hd _ l hunit
    refine ⟨_, ?_, by simpa [StrItem.text] using Reaches.trans h2 hd4⟩
    simp only [hh, if_false, Bool.false_eq_true]
    by_cases hl : isLow (unitOf a b c d) = true
    · simp only [hl, if_true]
      exact ⟨s.md, s.fl, by simp [s.pb], s.q, ⟨⟨sst, rfl⟩, rfl⟩⟩
    · simp only [hl, if_false, Bool.false_eq_true]
      exact ⟨s.md, s.fl, by simp [s.pb], s.q, ⟨⟨sst, rfl⟩, rfl⟩⟩

/-! ### one item, a high surrogate pending -/

theorem sq_item_raw_some (hi : Nat) (s : SqSt t0 t sst cur nm rest (some hi) acc) (b : UInt8)
    (hb : (StrItem.raw b).ok = true) (hb39 : b ≠ 39) :
    ∃ t', SqSt t0 t' sst cur nm rest none (acc ++ (Rfc8259.replacement ++ [b])) ∧ Reaches lc t l [b] t' l := by
  obtain ⟨hst, hhs, hhi, hsp, hucs⟩ := s.st
  simp only [StrItem.ok, Bool.and_eq_true, decide_eq_true_eq, bne_iff_ne] at hb
  have hb0 : b ≠ 0 := by intro h; subst h; exact absurd hb.1.1 (by decide)
  have hq : (b == t.quote) = false := by rw [s.q]; simpa using hb39
  have hq' : (b == 39) = false := by simpa using hb39
  have h92 : (b == 92) = false := by simpa using hb.2
  have h92' : (b != 92) = true := by simp [bne, h92]
  have hc : (b ≤ 0x1f) = False := by
    simp; exact Nat.lt_of_lt_of_le (by decide) (UInt8.le_iff_toNat_le.mp hb.1.1)
  refine ⟨{ t with stack := ⟨sst, sst, cur, nm⟩ :: rest, pb := t.pb ++ replacement ++ [b], hs := 0, ucs := 0, stPos := 0 },
    ⟨s.md, s.fl, by simp [s.pb, replacement, Rfc8259.replacement], s.q, ⟨⟨sst, rfl⟩, rfl⟩⟩, ?_⟩
  apply reaches_one lc t l b _ l (s.noVal hv).validate hb0
  rcases hsst with h | h <;> subst h <;>
    simp [feed, fuel, feedN, disp, hst, dNeedEscape, dString, dObjectField, setTop, h92, h92', hq', hc, s.q]

omit hsst in
theorem sq_item_esc_some (hi : Nat) (s : SqSt t0 t sst cur nm rest (some hi) acc) (e : Esc) :
    ∃ t', SqSt t0 t' sst cur nm rest none (acc ++ (Rfc8259.replacement ++ [e.value])) ∧
      Reaches lc t l [92, e.letter] t' l := by
  obtain ⟨hst, hhs, hhi, hsp, hucs⟩ := s.st
  have hv' := s.noVal hv; unfold NoVal at hv'
  refine ⟨{ t with stack := ⟨sst, sst, cur, nm⟩ :: rest, pb := t.pb ++ replacement ++ [e.value], hs := 0, ucs := 0, stPos := 0 },
    ⟨s.md, s.fl, by simp [s.pb, replacement, Rfc8259.replacement], s.q, ⟨⟨sst, rfl⟩, rfl⟩⟩, ?_⟩
  intro c off rs
  cases e <;>
    simp [run, peek, hv', feed, fuel, feedN, disp, hst, dNeedEscape, dNeedU, dStringEscape, setTop,
      Esc.letter, Esc.value, lastOr, Tok.validateUtf8]

omit hsst in
theorem sq_item_u_some (hi : Nat) (s : SqSt t0 t sst cur nm rest (some hi) acc) (a b c d : HexDigit)
    (hok : (StrItem.u a b c d).ok = true) :
    ∃ t', SqSt t0 t' sst cur nm rest (itemStep (some hi) (.u a b c d)).1 (acc ++ (itemStep (some hi) (.u a b c d)).2) ∧
      Reaches lc t l (StrItem.u a b c d).text t' l := by
  obtain ⟨hst, hhs, hhi, hsp, hucs⟩ := s.st
  have hv' := s.noVal hv; unfold NoVal at hv'
  simp only [StrItem.ok, Bool.and_eq_true] at hok
  obtain ⟨⟨⟨ha, hb⟩, hc⟩, hd⟩ := hok
  have hx := unitOf_lt a b c d ha hb hc hd
  have hne : hi ≠ 0 := by
    simp only [isHigh, Bool.and_eq_true, decide_eq_true_eq] at hhi; omega
  -- `\` `u` take the machine through need_u into escape_unicode without touching the accumulator
  let t2 : Tok := { t with stack := ⟨.escapeUnicode, sst, cur, nm⟩ :: rest }
  have h2 : Reaches lc t l [92, 117] t2 l := by
    intro c0 off rs
    simp [run, peek, hv', feed, fuel, feedN, disp, hst, dNeedEscape, dNeedU, setTop, lastOr, Tok.validateUtf8, t2]
  have hv2 : NoVal t2 := by simpa [NoVal, t2] using hv'
  have hunit : unicodeUnit { t2 with ucs := unitOf a b c d, stPos := 3 } l ⟨.escapeUnicode, sst, cur, nm⟩ rest (unitOf a b c d) =
      if isLow (unitOf a b c d) then
        emitUnit { t2 with ucs := unitOf a b c d, stPos := 3 } l ⟨.escapeUnicode, sst, cur, nm⟩ rest (decodePair hi (unitOf a b c d)) t.pb
      else
        emitUnit { t2 with ucs := unitOf a b c d, stPos := 3 } l ⟨.escapeUnicode, sst, cur, nm⟩ rest (unitOf a b c d) (t.pb ++ replacement) := by
    unfold unicodeUnit
    simp [t2, hhs, hne, isLowSurrogate_eq]
  simp only [itemStep]
  by_cases hl : isLow (unitOf a b c d) = true
  · rw [if_pos hl, emit_pair _ l cur nm rest sst hi (unitOf a b c d) hhi hl t.pb] at hunit
    have hd4 := reaches_digits lc t2 l sst cur nm rest rfl hv2 hsp hucs a b c d ha hb hc hd _ l hunit
    refine ⟨_, ?_, by simpa [StrItem.text] using Reaches.trans h2 hd4⟩
    simp only [hl, if_true]
    exact ⟨s.md, s.fl, by simp [s.pb], s.q, ⟨⟨sst, rfl⟩, rfl⟩⟩
  · rw [if_neg hl, emit_unit16 _ l cur nm rest sst (unitOf a b c d) hx (t.pb ++ replacement)] at hunit
    simp only [hl, if_false, Bool.false_eq_true]
    by_cases hh : isHigh (unitOf a b c d) = true
    · rw [if_pos hh] at hunit
      have hd4 := reaches_digits lc t2 l sst cur nm rest rfl hv2 hsp hucs a b c d ha hb hc hd _ l hunit
      refine ⟨_, ?_, by simpa [StrItem.text] using Reaches.trans h2 hd4⟩
      simp only [hh, if_true]
      exact ⟨s.md, s.fl, by simp [s.pb, replacement, Rfc8259.replacement], s.q, ⟨rfl, rfl, hh, rfl, rfl⟩⟩
    · rw [if_neg hh] at hunit
      have hd4 := reaches_digits lc t2 l sst cur nm rest rfl hv2 hsp hucs a b c d ha hb hc hd _ l hunit
      refine ⟨_, ?_, by simpa [StrItem.text] using Reaches.trans h2 hd4⟩
      simp only [hh, if_false, Bool.false_eq_true]
      exact ⟨s.md, s.fl, by simp [s.pb, hl, replacement, Rfc8259.replacement], s.q, ⟨⟨sst, rfl⟩, rfl⟩⟩

/-! ### any item, any list of items -/

theorem sq_item_reach (pend : Option Nat) (s : SqSt t0 t sst cur nm rest pend acc) (i : StrItem) (hi : sqItemOk i) :
    ∃ t', SqSt t0 t' sst cur nm rest (itemStep pend i).1 (acc ++ (itemStep pend i).2) ∧ Reaches lc t l i.text t' l := by
  obtain ⟨hi, hne⟩ := hi
  cases pend with
  | none =>
    cases i with
    | raw b => exact sq_item_raw_none lc t0 t l sst hsst cur nm rest acc hv s b hi (fun h => hne (by rw [h]))
    | esc e => exact sq_item_esc_none lc t0 t l sst hsst cur nm rest acc hv s e
    | u a b c d => exact sq_item_u_none lc t0 t l sst hsst cur nm rest acc hv s a b c d hi
  | some h =>
    cases i with
    | raw b => exact sq_item_raw_some lc t0 t l sst hsst cur nm rest acc hv h s b hi (fun h => hne (by rw [h]))
    | esc e => exact sq_item_esc_some lc t0 t l sst cur nm rest acc hv h s e
    | u a b c d => exact sq_item_u_some lc t0 t l sst cur nm rest acc hv h s a b c d hi

theorem sq_items_reach : ∀ (items : List StrItem) (pend : Option Nat) (t : Tok) (acc : Bytes),
    SqSt t0 t sst cur nm rest pend acc → (∀ i ∈ items, sqItemOk i) →
    ∃ t', SqSt t0 t' sst cur nm rest (itemsFold pend items).1 (acc ++ (itemsFold pend items).2) ∧
      Reaches lc t l (items.flatMap StrItem.text) t' l := by
  intro items
  induction items with
  | nil => intro pend t acc s _; exact ⟨t, by simpa [itemsFold] using s, by simpa using Reaches.refl lc t l⟩
  | cons i r ih =>
    intro pend t acc s hok
    obtain ⟨t1, s1, r1⟩ := sq_item_reach lc t0 t l sst hsst cur nm rest acc hv pend s i (hok i (by simp))
    obtain ⟨t2, s2, r2⟩ := ih (itemStep pend i).1 t1 _ s1 (fun j hj => hok j (by simp [hj]))
    refine ⟨t2, ?_, by simpa using Reaches.trans r1 r2⟩
    simpa [itemsFold, List.append_assoc] using s2

omit hsst in
/-- the closing quote: a pending surrogate is flushed as U+FFFD, then the state sees the quote -/
theorem sq_close_string (pend : Option Nat) (s : SqSt t0 t .string cur nm rest pend acc) :
    ∃ t', t'.stack = ⟨.eatws, .finish, .str (acc ++ flush pend), nm⟩ :: rest ∧ Frm t0 t' ∧
      Reaches lc t l [39] t' l := by
  have hv' := s.noVal hv; unfold NoVal at hv'
  cases pend with
  | none =>
    obtain ⟨⟨sv, hst⟩, hhs⟩ := s.st
    refine ⟨finishWith t ⟨.string, sv, cur, nm⟩ rest (.str t.pb), by simp [finishWith, setTop, s.pb, flush],
      ⟨s.md, s.fl, hhs⟩, ?_⟩
    intro c off rs
    simp [run, peek, hv', feed, fuel, feedN, disp, hst, dString, s.q, lastOr, Tok.validateUtf8]
  | some hi =>
    obtain ⟨hst, hhs, hhi, hsp, hucs⟩ := s.st
    refine ⟨finishWith { t with stack := ⟨.string, .string, cur, nm⟩ :: rest, pb := t.pb ++ replacement, hs := 0, ucs := 0, stPos := 0 }
        ⟨.string, .string, cur, nm⟩ rest (.str (t.pb ++ replacement)),
      by simp [finishWith, setTop, s.pb, flush, replacement, Rfc8259.replacement], ⟨s.md, s.fl, rfl⟩, ?_⟩
    intro c off rs
    simp [run, peek, hv', feed, fuel, feedN, disp, hst, dNeedEscape, dString, setTop, s.q, lastOr, Tok.validateUtf8]

omit hsst in
theorem sq_close_name (pend : Option Nat) (s : SqSt t0 t .objectField cur nm rest pend acc) :
    ∃ t', t'.stack = ⟨.eatws, .objectFieldEnd, cur, some (cstr (acc ++ flush pend))⟩ :: rest ∧ Frm t0 t' ∧
      Reaches lc t l [39] t' l := by
  have hv' := s.noVal hv; unfold NoVal at hv'
  cases pend with
  | none =>
    obtain ⟨⟨sv, hst⟩, hhs⟩ := s.st
    refine ⟨setTop t ⟨.eatws, .objectFieldEnd, cur, some (cstr t.pb)⟩ rest, by simp [setTop, s.pb, flush],
      ⟨s.md, s.fl, hhs⟩, ?_⟩
    intro c off rs
    simp [run, peek, hv', feed, fuel, feedN, disp, hst, dObjectField, s.q, lastOr, Tok.validateUtf8, setTop]
  | some hi =>
    obtain ⟨hst, hhs, hhi, hsp, hucs⟩ := s.st
    refine ⟨setTop { t with pb := t.pb ++ replacement, hs := 0, ucs := 0, stPos := 0 }
        ⟨.eatws, .objectFieldEnd, cur, some (cstr (t.pb ++ replacement))⟩ rest,
      by simp [setTop, s.pb, flush, replacement, Rfc8259.replacement], ⟨s.md, s.fl, rfl⟩, ?_⟩
    intro c off rs
    simp [run, peek, hv', feed, fuel, feedN, disp, hst, dNeedEscape, dObjectField, setTop, s.q, lastOr, Tok.validateUtf8]

end

/-! ### the specification's side conditions -/

theorem itemsOk_dq (items : List StrItem) (h : itemsOkFor .dq items = true) : ∀ i ∈ items, i.ok = true := by
  intro i hi
  simp only [itemsOkFor, Bool.or_eq_true, List.all_eq_true, Bool.and_eq_true] at h
  rcases h with h | h
  · exact (h i hi).1
  · exact h.2 i hi

theorem itemsOk_sq (items : List StrItem) (h : itemsOkFor .sq items = true) : ∀ i ∈ items, sqItemOk i := by
  intro i hi
  simp only [itemsOkFor, Bool.or_eq_true, List.all_eq_true, Bool.and_eq_true] at h
  rcases h with h | h
  · exact ⟨(h i hi).1, by simpa using (h i hi).2⟩
  · exact absurd h.1 (by decide)

theorem qText_dq (items : List StrItem) : qText .dq items = strText items := rfl

/-! ### whole strings and member names -/

/-- a single-quoted string value, JSON_TOKENER_STRICT off -/
theorem parsed_sq_string (lc : Libc) (t : Tok) (l : Loc) (cur : JVal) (nm : Option Bytes) (rest : List Level)
    (hwf : WF t) (hs : t.stack = ⟨.eatws, .start, cur, nm⟩ :: rest) (hv : NoVal t) (hhs : t.hs = 0) (hl0 : l.num = none)
    (hstrict : t.strict = false) (items : List StrItem) (hok : ∀ i ∈ items, sqItemOk i) :
    Parsed lc t l (qText .sq items) (.str (decodeItems items)) nm rest := by
  have hv' := hv; unfold NoVal at hv'
  have hstr : t.flags &&& Generated.tokenerStrict = 0 := by simpa [Tok.strict] using hstrict
  -- the opening quote
  let t1 : Tok := { t with stack := ⟨.string, .start, cur, nm⟩ :: rest, pb := [], quote := 39 }
  have h1 : Reaches lc t l [39] t1 l := by
    intro c off rs
    simp [run, peek, hv', feed, fuel, feedN, disp, hs, dEatws, dStart, isWs, setTop, lastOr, Tok.validateUtf8, t1, Tok.strict, hstr]
  have s1 : SqSt t t1 .string cur nm rest none [] := ⟨rfl, rfl, rfl, rfl, ⟨⟨.start, rfl⟩, hhs⟩⟩
  obtain ⟨t2, s2, h2⟩ := sq_items_reach lc t l .string isStr_string cur nm rest hv items none t1 [] s1 hok
  obtain ⟨t3, hs3, f3, h3⟩ := sq_close_string lc t t2 l cur nm rest _ hv _ s2
  have hdec : [] ++ (itemsFold none items).2 ++ flush (itemsFold none items).1 = decodeItems items := by
    rw [decode_eq_fold]; simp
  rw [hdec] at hs3
  apply parsed_of_reaches lc t l _ _ nm rest _ hwf hs t3 hs3 f3 hl0
  have := Reaches.trans (Reaches.trans h1 h2) h3
  simpa [qText, Quote.byte] using this

/-- a single-quoted member name, JSON_TOKENER_STRICT off -/
theorem reaches_sq_name (lc : Libc) (t : Tok) (l : Loc) (st : St) (hst : st = .objectFieldStart ∨ st = .objectFieldStartAfterSep)
    (cur : JVal) (nm : Option Bytes) (rest : List Level)
    (hs : t.stack = ⟨.eatws, st, cur, nm⟩ :: rest) (hv : NoVal t) (hhs : t.hs = 0)
    (hstrict : t.strict = false) (items : List StrItem) (hok : ∀ i ∈ items, sqItemOk i) :
    ∃ t', t'.stack = ⟨.eatws, .objectFieldEnd, cur, some (cstr (decodeItems items))⟩ :: rest ∧ Frm t t' ∧
      Reaches lc t l (qText .sq items) t' l := by
  have hv' := hv; unfold NoVal at hv'
  have hstr : t.flags &&& Generated.tokenerStrict = 0 := by simpa [Tok.strict] using hstrict
  let t1 : Tok := { t with stack := ⟨.objectField, st, cur, nm⟩ :: rest, pb := [], quote := 39 }
  have h1 : Reaches lc t l [39] t1 l := by
    intro c off rs
    rcases hst with h | h <;> subst h <;>
      simp [run, peek, hv', feed, fuel, feedN, disp, hs, dEatws, dObjectFieldStart, isWs, setTop, lastOr, Tok.validateUtf8,
        t1, Tok.strict, hstr]
  have s1 : SqSt t t1 .objectField cur nm rest none [] := ⟨rfl, rfl, rfl, rfl, ⟨⟨st, rfl⟩, hhs⟩⟩
  obtain ⟨t2, s2, h2⟩ := sq_items_reach lc t l .objectField isStr_field cur nm rest hv items none t1 [] s1 hok
  obtain ⟨t3, hs3, f3, h3⟩ := sq_close_name lc t t2 l cur nm rest _ hv _ s2
  have hdec : [] ++ (itemsFold none items).2 ++ flush (itemsFold none items).1 = decodeItems items := by
    rw [decode_eq_fold]; simp
  rw [hdec] at hs3
  refine ⟨t3, hs3, f3, ?_⟩
  have := Reaches.trans (Reaches.trans h1 h2) h3
  simpa [qText, Quote.byte] using this

/-- a string value between either kind of quotes (`'` only when JSON_TOKENER_STRICT is off) parses to the
bytes the specification's `decodeItems` gives -/
theorem parsed_qstring (lc : Libc) (t : Tok) (l : Loc) (cur : JVal) (nm : Option Bytes) (rest : List Level)
    (hwf : WF t) (hs : t.stack = ⟨.eatws, .start, cur, nm⟩ :: rest) (hv : NoVal t) (hhs : t.hs = 0) (hl0 : l.num = none)
    (q : Quote) (hq : q = .dq ∨ t.strict = false) (items : List StrItem) (hok : itemsOkFor q items = true) :
    Parsed lc t l (qText q items) (.str (decodeItems items)) nm rest := by
  cases q with
  | dq =>
    rw [qText_dq]
    exact parsed_string lc t l cur nm rest hwf hs hv hhs hl0 items (itemsOk_dq items hok)
  | sq =>
    have hstrict : t.strict = false := by
      rcases hq with h | h
      · cases h
      · exact h
    exact parsed_sq_string lc t l cur nm rest hwf hs hv hhs hl0 hstrict items (itemsOk_sq items hok)

/-- a member name between either kind of quotes leaves the level waiting for ':' with the name (cut at a
NUL, as `strdup` does) -/
theorem reaches_qname (lc : Libc) (t : Tok) (l : Loc) (st : St) (hst : st = .objectFieldStart ∨ st = .objectFieldStartAfterSep)
    (cur : JVal) (nm : Option Bytes) (rest : List Level)
    (hs : t.stack = ⟨.eatws, st, cur, nm⟩ :: rest) (hv : NoVal t) (hhs : t.hs = 0)
    (q : Quote) (hq : q = .dq ∨ t.strict = false) (items : List StrItem) (hok : itemsOkFor q items = true) :
    ∃ t', t'.stack = ⟨.eatws, .objectFieldEnd, cur, some (cstr (decodeItems items))⟩ :: rest ∧ Frm t t' ∧
      Reaches lc t l (qText q items) t' l := by
  cases q with
  | dq =>
    rw [qText_dq]
    exact reaches_name lc t l st hst cur nm rest hs hv hhs items (itemsOk_dq items hok)
  | sq =>
    have hstrict : t.strict = false := by
      rcases hq with h | h
      · cases h
      · exact h
    exact reaches_sq_name lc t l st hst cur nm rest hs hv hhs hstrict items (itemsOk_sq items hok)

end JsonC.Tokener
