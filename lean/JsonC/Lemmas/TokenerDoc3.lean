/-
  Towards `parse_valid` (C01), part 3: the machine consumes a string item exactly as the
  specification's transducer `itemStep` says, for each kind of item and with or without a pending
  high surrogate; then whole item lists and the closing quote.
-/
import JsonC.Lemmas.TokenerDoc2
namespace JsonC.Tokener
open JsonC Rfc8259

section
variable (lc : Libc) (t0 t : Tok) (l : Loc) (sst : St) (hsst : IsStrState sst) (cur : JVal) (nm : Option Bytes)
  (rest : List Level) (acc : Bytes) (hv : NoVal t0)

/-- what `emitUnit` does with a 16-bit unit when nothing is pending: the specification's three cases -/
theorem emit_unit16 (sv : St) (x : Nat) (hx : x < 0x10000) (pb : Bytes) :
    emitUnit t l ⟨.escapeUnicode, sv, cur, nm⟩ rest x pb =
      if isHigh x then
        .consume { (setTop t ⟨.needEscape, sv, cur, nm⟩ rest) with hs := x, ucs := 0, pb := pb, stPos := 0 } l
      else
        .consume { (setTop t ⟨sv, sv, cur, nm⟩ rest) with
                   pb := pb ++ (if isLow x then Rfc8259.replacement else utf8 x), hs := 0, stPos := 0, ucs := x } l := by
  unfold emitUnit
  simp only [isHighSurrogate_eq, isLowSurrogate_eq]
  have hrep : replacement = Rfc8259.replacement := rfl
  have hutf : utf8Of x = utf8 x := rfl
  by_cases h1 : isHigh x = true
  · have : ¬ x < 0x80 ∧ ¬ x < 0x800 := by
      simp only [isHigh, Bool.and_eq_true, decide_eq_true_eq] at h1; omega
    simp [h1, this.1, this.2]
  · by_cases h2 : isLow x = true
    · have : ¬ x < 0x80 ∧ ¬ x < 0x800 := by
        simp only [isLow, Bool.and_eq_true, decide_eq_true_eq] at h2; omega
      simp [h1, h2, this.1, this.2, hrep]
    · simp only [h1, h2, if_false, Bool.false_eq_true]
      by_cases h3 : x < 0x80
      · simp [h3, hutf]
      · by_cases h4 : x < 0x800
        · simp [h3, h4, hutf]
        · simp [h3, h4, hx, hutf]

/-- a combined surrogate pair is emitted as its four UTF-8 bytes -/
theorem emit_pair (sv : St) (hi lo : Nat) (h1 : isHigh hi = true) (h2 : isLow lo = true) (pb : Bytes) :
    emitUnit t l ⟨.escapeUnicode, sv, cur, nm⟩ rest (decodePair hi lo) pb =
      .consume { (setTop t ⟨sv, sv, cur, nm⟩ rest) with
                 pb := pb ++ utf8 (0x10000 + (hi - 0xD800) * 1024 + (lo - 0xDC00)), hs := 0, stPos := 0,
                 ucs := decodePair hi lo } l := by
  have hp := decodePair_eq hi lo h1 h2
  have hrange : 0x10000 ≤ decodePair hi lo ∧ decodePair hi lo < 0x110000 := by
    simp only [isHigh, isLow, Bool.and_eq_true, decide_eq_true_eq] at h1 h2
    rw [hp]; omega
  unfold emitUnit
  simp only [isHighSurrogate_eq, isLowSurrogate_eq]
  have nh : isHigh (decodePair hi lo) = false := by
    simp only [isHigh]; have := hrange.1
    cases hd : decide (0xD800 ≤ decodePair hi lo) <;> cases hd2 : decide (decodePair hi lo < 0xDC00) <;> simp_all <;> omega
  have nl : isLow (decodePair hi lo) = false := by
    simp only [isLow]; have := hrange.1
    cases hd : decide (0xDC00 ≤ decodePair hi lo) <;> cases hd2 : decide (decodePair hi lo < 0xE000) <;> simp_all <;> omega
  have a1 : ¬ decodePair hi lo < 0x80 := by omega
  have a2 : ¬ decodePair hi lo < 0x800 := by omega
  have a3 : ¬ decodePair hi lo < 0x10000 := by omega
  simp only [a1, a2, a3, nh, nl, hrange.2, if_true, if_false, Bool.false_eq_true]
  rw [← hp]; rfl

/-! ### one item, nothing pending -/

include hv hsst

theorem item_raw_none (s : StrSt t0 t sst cur nm rest none acc) (b : UInt8) (hb : (StrItem.raw b).ok = true) :
    ∃ t', StrSt t0 t' sst cur nm rest none (acc ++ [b]) ∧ Reaches lc t l [b] t' l := by
  obtain ⟨⟨sv, hst⟩, hhs⟩ := s.st
  simp only [StrItem.ok, Bool.and_eq_true, decide_eq_true_eq, bne_iff_ne] at hb
  have hb0 : b ≠ 0 := by intro h; subst h; exact absurd hb.1.1 (by decide)
  refine ⟨{ t with pb := t.pb ++ [b] }, ⟨s.md, s.fl, by simp [s.pb], s.q, ⟨⟨sv, hst⟩, hhs⟩⟩, ?_⟩
  apply reaches_one lc t l b _ l (s.noVal hv).validate hb0
  apply feed_of_disp
  · have hq : (b == t.quote) = false := by rw [s.q]; simpa using hb.1.2
    have h92 : (b == 92) = false := by simpa using hb.2
    have hc : (b ≤ 0x1f) = False := by
      simp; exact Nat.lt_of_lt_of_le (by decide) (UInt8.le_iff_toNat_le.mp hb.1.1)
    rcases hsst with h | h <;> subst h <;> simp [disp, hst, dString, dObjectField, hq, h92, hc]
  · intro t' l' h; cases h

theorem item_esc_none (s : StrSt t0 t sst cur nm rest none acc) (e : Esc) :
    ∃ t', StrSt t0 t' sst cur nm rest none (acc ++ [e.value]) ∧ Reaches lc t l [92, e.letter] t' l := by
  obtain ⟨⟨sv, hst⟩, hhs⟩ := s.st
  have hv' := s.noVal hv; unfold NoVal at hv'
  have hq := s.q
  refine ⟨{ t with stack := ⟨sst, sst, cur, nm⟩ :: rest, pb := t.pb ++ [e.value] },
    ⟨s.md, s.fl, by simp [s.pb], s.q, ⟨⟨sst, rfl⟩, hhs⟩⟩, ?_⟩
  intro c off rs
  rcases hsst with h | h <;> subst h <;> cases e <;>
    simp [run, peek, hv', feed, fuel, feedN, disp, hst, dString, dObjectField, dStringEscape, setTop, hq,
      Esc.letter, Esc.value, lastOr, Tok.validateUtf8]

/-- `\` then `u` from the string state: in escape_unicode with a clean accumulator -/
theorem reaches_bs_u (s : StrSt t0 t sst cur nm rest none acc) :
    Reaches lc t l [92, 117] { t with stack := ⟨.escapeUnicode, sst, cur, nm⟩ :: rest, ucs := 0, stPos := 0 } l := by
  obtain ⟨⟨sv, hst⟩, hhs⟩ := s.st
  have hv' := s.noVal hv; unfold NoVal at hv'
  have hq := s.q
  intro c off rs
  rcases hsst with h | h <;> subst h <;>
    simp [run, peek, hv', feed, fuel, feedN, disp, hst, dString, dObjectField, dStringEscape, setTop, hq, lastOr,
      Tok.validateUtf8]

theorem item_u_none (s : StrSt t0 t sst cur nm rest none acc) (a b c d : HexDigit)
    (hok : (StrItem.u a b c d).ok = true) :
    ∃ t', StrSt t0 t' sst cur nm rest (itemStep none (.u a b c d)).1 (acc ++ (itemStep none (.u a b c d)).2) ∧
      Reaches lc t l (StrItem.u a b c d).text t' l := by
  obtain ⟨⟨sv, hst⟩, hhs⟩ := s.st
  simp only [StrItem.ok, Bool.and_eq_true] at hok
  obtain ⟨⟨⟨ha, hb⟩, hc⟩, hd⟩ := hok
  have hx := unitOf_lt a b c d ha hb hc hd
  let t2 : Tok := { t with stack := ⟨.escapeUnicode, sst, cur, nm⟩ :: rest, ucs := 0, stPos := 0 }
  have h2 := reaches_bs_u lc t0 t l sst hsst cur nm rest acc hv s
  have hv2 : NoVal t2 := by have := s.noVal hv; simpa [NoVal, t2] using this
  -- what the completed unit does
  have hunit : unicodeUnit { t2 with ucs := unitOf a b c d, stPos := 3 } l ⟨.escapeUnicode, sst, cur, nm⟩ rest (unitOf a b c d) =
      emitUnit { t2 with ucs := unitOf a b c d, stPos := 3 } l ⟨.escapeUnicode, sst, cur, nm⟩ rest (unitOf a b c d) t.pb := by
    unfold unicodeUnit; simp [t2, hhs]
  rw [emit_unit16 _ l cur nm rest sst (unitOf a b c d) hx t.pb] at hunit
  simp only [itemStep]
  by_cases hh : isHigh (unitOf a b c d) = true
  · rw [if_pos hh] at hunit
    have hd4 := reaches_digits lc t2 l sst cur nm rest rfl hv2 rfl rfl a b c d ha hb hc hd _ l hunit
    refine ⟨_, ?_, by simpa [StrItem.text] using Reaches.trans h2 hd4⟩
    simp only [hh, if_true]
    exact ⟨s.md, s.fl, by simp [s.pb], s.q, ⟨rfl, rfl, hh, rfl, rfl⟩⟩
  · rw [if_neg hh] at hunit
    have hd4 := reaches_digits lc t2 l sst cur nm rest rfl hv2 rfl rfl a b c d ha hb hc hd _ l hunit
    refine ⟨_, ?_, by simpa [StrItem.text] using Reaches.trans h2 hd4⟩
    simp only [hh, if_false, Bool.false_eq_true]
    by_cases hl : isLow (unitOf a b c d) = true
    · simp only [hl, if_true]
      exact ⟨s.md, s.fl, by simp [s.pb, setTop], s.q, ⟨⟨sst, rfl⟩, rfl⟩⟩
    · simp only [hl, if_false, Bool.false_eq_true]
      exact ⟨s.md, s.fl, by simp [s.pb, setTop], s.q, ⟨⟨sst, rfl⟩, rfl⟩⟩

/-! ### one item, a high surrogate pending -/

theorem item_raw_some (hi : Nat) (s : StrSt t0 t sst cur nm rest (some hi) acc) (b : UInt8) (hb : (StrItem.raw b).ok = true) :
    ∃ t', StrSt t0 t' sst cur nm rest none (acc ++ (Rfc8259.replacement ++ [b])) ∧ Reaches lc t l [b] t' l := by
  obtain ⟨hst, hhs, hhi, hsp, hucs⟩ := s.st
  simp only [StrItem.ok, Bool.and_eq_true, decide_eq_true_eq, bne_iff_ne] at hb
  have hb0 : b ≠ 0 := by intro h; subst h; exact absurd hb.1.1 (by decide)
  have hq : (b == t.quote) = false := by rw [s.q]; simpa using hb.1.2
  have hq' : (b == 34) = false := by simpa using hb.1.2
  have h92 : (b == 92) = false := by simpa using hb.2
  have h92' : (b != 92) = true := by simp [bne, h92]
  have hc : (b ≤ 0x1f) = False := by
    simp; exact Nat.lt_of_lt_of_le (by decide) (UInt8.le_iff_toNat_le.mp hb.1.1)
  refine ⟨{ t with stack := ⟨sst, sst, cur, nm⟩ :: rest, pb := t.pb ++ replacement ++ [b], hs := 0, ucs := 0, stPos := 0 },
    ⟨s.md, s.fl, by simp [s.pb, replacement, Rfc8259.replacement], s.q, ⟨⟨sst, rfl⟩, rfl⟩⟩, ?_⟩
  apply reaches_one lc t l b _ l (s.noVal hv).validate hb0
  rcases hsst with h | h <;> subst h <;>
    simp [feed, fuel, feedN, disp, hst, dNeedEscape, dString, dObjectField, setTop, h92, h92', hq, hq', hc, s.q]

theorem item_esc_some (hi : Nat) (s : StrSt t0 t sst cur nm rest (some hi) acc) (e : Esc) :
    ∃ t', StrSt t0 t' sst cur nm rest none (acc ++ (Rfc8259.replacement ++ [e.value])) ∧
      Reaches lc t l [92, e.letter] t' l := by
  obtain ⟨hst, hhs, hhi, hsp, hucs⟩ := s.st
  have hv' := s.noVal hv; unfold NoVal at hv'
  refine ⟨{ t with stack := ⟨sst, sst, cur, nm⟩ :: rest, pb := t.pb ++ replacement ++ [e.value], hs := 0, ucs := 0, stPos := 0 },
    ⟨s.md, s.fl, by simp [s.pb, replacement, Rfc8259.replacement], s.q, ⟨⟨sst, rfl⟩, rfl⟩⟩, ?_⟩
  intro c off rs
  cases e <;>
    simp [run, peek, hv', feed, fuel, feedN, disp, hst, dNeedEscape, dNeedU, dStringEscape, setTop,
      Esc.letter, Esc.value, lastOr, Tok.validateUtf8]

theorem item_u_some (hi : Nat) (s : StrSt t0 t sst cur nm rest (some hi) acc) (a b c d : HexDigit)
    (hok : (StrItem.u a b c d).ok = true) :
    ∃ t', StrSt t0 t' sst cur nm rest (itemStep (some hi) (.u a b c d)).1 (acc ++ (itemStep (some hi) (.u a b c d)).2) ∧
      Reaches lc t l (StrItem.u a b c d).text t' l := by
  obtain ⟨hst, hhs, hhi, hsp, hucs⟩ := s.st
  have hv' := s.noVal hv; unfold NoVal at hv'
  simp only [StrItem.ok, Bool.and_eq_true] at hok
  obtain ⟨⟨⟨ha, hb⟩, hc⟩, hd⟩ := hok
  have hx := unitOf_lt a b c d ha hb hc hd
  have hne : hi ≠ 0 := by
    simp only [isHigh, Bool.and_eq_true, decide_eq_true_eq] at hhi; omega
  -- `\` `u` take the machine through need_u into escape_unicode without touching the accumulator
  let t2 : Tok := { t with stack := ⟨.escapeUnicode, sst, cur, nm⟩ :: rest }
  have h2 : Reaches lc t l [92, 117] t2 l := by
    intro c0 off rs
    simp [run, peek, hv', feed, fuel, feedN, disp, hst, dNeedEscape, dNeedU, setTop, lastOr, Tok.validateUtf8, t2]
  have hv2 : NoVal t2 := by simpa [NoVal, t2] using hv'
  have hunit : unicodeUnit { t2 with ucs := unitOf a b c d, stPos := 3 } l ⟨.escapeUnicode, sst, cur, nm⟩ rest (unitOf a b c d) =
      if isLow (unitOf a b c d) then
        emitUnit { t2 with ucs := unitOf a b c d, stPos := 3 } l ⟨.escapeUnicode, sst, cur, nm⟩ rest (decodePair hi (unitOf a b c d)) t.pb
      else
        emitUnit { t2 with ucs := unitOf a b c d, stPos := 3 } l ⟨.escapeUnicode, sst, cur, nm⟩ rest (unitOf a b c d) (t.pb ++ replacement) := by
    unfold unicodeUnit
    simp [t2, hhs, hne, isLowSurrogate_eq]
  simp only [itemStep]
  by_cases hl : isLow (unitOf a b c d) = true
  · rw [if_pos hl, emit_pair _ l cur nm rest sst hi (unitOf a b c d) hhi hl t.pb] at hunit
    have hd4 := reaches_digits lc t2 l sst cur nm rest rfl hv2 hsp hucs a b c d ha hb hc hd _ l hunit
    refine ⟨_, ?_, by simpa [StrItem.text] using Reaches.trans h2 hd4⟩
    simp only [hl, if_true]
    exact ⟨s.md, s.fl, by simp [s.pb, setTop], s.q, ⟨⟨sst, rfl⟩, rfl⟩⟩
  · rw [if_neg hl, emit_unit16 _ l cur nm rest sst (unitOf a b c d) hx (t.pb ++ replacement)] at hunit
    simp only [hl, if_false, Bool.false_eq_true]
    by_cases hh : isHigh (unitOf a b c d) = true
    · rw [if_pos hh] at hunit
      have hd4 := reaches_digits lc t2 l sst cur nm rest rfl hv2 hsp hucs a b c d ha hb hc hd _ l hunit
      refine ⟨_, ?_, by simpa [StrItem.text] using Reaches.trans h2 hd4⟩
      simp only [hh, if_true]
      exact ⟨s.md, s.fl, by simp [s.pb, setTop, replacement, Rfc8259.replacement], s.q, ⟨rfl, rfl, hh, rfl, rfl⟩⟩
    · rw [if_neg hh] at hunit
      have hd4 := reaches_digits lc t2 l sst cur nm rest rfl hv2 hsp hucs a b c d ha hb hc hd _ l hunit
      refine ⟨_, ?_, by simpa [StrItem.text] using Reaches.trans h2 hd4⟩
      simp only [hh, if_false, Bool.false_eq_true]
      exact ⟨s.md, s.fl, by simp [s.pb, setTop, hl, replacement, Rfc8259.replacement], s.q, ⟨⟨sst, rfl⟩, rfl⟩⟩

/-! ### any item, any list of items -/

theorem item_reach (pend : Option Nat) (s : StrSt t0 t sst cur nm rest pend acc) (i : StrItem) (hi : i.ok = true) :
    ∃ t', StrSt t0 t' sst cur nm rest (itemStep pend i).1 (acc ++ (itemStep pend i).2) ∧ Reaches lc t l i.text t' l := by
  cases pend with
  | none =>
    cases i with
    | raw b => exact item_raw_none lc t0 t l sst hsst cur nm rest acc hv s b hi
    | esc e => exact item_esc_none lc t0 t l sst hsst cur nm rest acc hv s e
    | u a b c d => exact item_u_none lc t0 t l sst hsst cur nm rest acc hv s a b c d hi
  | some h =>
    cases i with
    | raw b => exact item_raw_some lc t0 t l sst hsst cur nm rest acc hv h s b hi
    | esc e => exact item_esc_some lc t0 t l sst hsst cur nm rest acc hv h s e
    | u a b c d => exact item_u_some lc t0 t l sst hsst cur nm rest acc hv h s a b c d hi

theorem items_reach : ∀ (items : List StrItem) (pend : Option Nat) (t : Tok) (acc : Bytes),
    StrSt t0 t sst cur nm rest pend acc → (∀ i ∈ items, i.ok = true) →
    ∃ t', StrSt t0 t' sst cur nm rest (itemsFold pend items).1 (acc ++ (itemsFold pend items).2) ∧
      Reaches lc t l (items.flatMap StrItem.text) t' l := by
  intro items
  induction items with
  | nil => intro pend t acc s _; exact ⟨t, by simpa [itemsFold] using s, by simpa using Reaches.refl lc t l⟩
  | cons i r ih =>
    intro pend t acc s hok
    obtain ⟨t1, s1, r1⟩ := item_reach lc t0 t l sst hsst cur nm rest acc hv pend s i (hok i (by simp))
    obtain ⟨t2, s2, r2⟩ := ih (itemStep pend i).1 t1 _ s1 (fun j hj => hok j (by simp [hj]))
    refine ⟨t2, ?_, by simpa using Reaches.trans r1 r2⟩
    simpa [itemsFold, List.append_assoc] using s2

/-- the closing quote: a pending surrogate is flushed as U+FFFD, then the state sees the quote -/
theorem close_string (pend : Option Nat) (s : StrSt t0 t .string cur nm rest pend acc) :
    ∃ t', t'.stack = ⟨.eatws, .finish, .str (acc ++ flush pend), nm⟩ :: rest ∧ Frm t0 t' ∧
      Reaches lc t l [34] t' l := by
  have hv' := s.noVal hv; unfold NoVal at hv'
  cases pend with
  | none =>
    obtain ⟨⟨sv, hst⟩, hhs⟩ := s.st
    refine ⟨finishWith t ⟨.string, sv, cur, nm⟩ rest (.str t.pb), by simp [finishWith, setTop, s.pb, flush],
      ⟨s.md, s.fl, hhs⟩, ?_⟩
    intro c off rs
    simp [run, peek, hv', feed, fuel, feedN, disp, hst, dString, s.q, lastOr, Tok.validateUtf8]
  | some hi =>
    obtain ⟨hst, hhs, hhi, hsp, hucs⟩ := s.st
    refine ⟨finishWith { t with stack := ⟨.string, .string, cur, nm⟩ :: rest, pb := t.pb ++ replacement, hs := 0, ucs := 0, stPos := 0 }
        ⟨.string, .string, cur, nm⟩ rest (.str (t.pb ++ replacement)),
      by simp [finishWith, setTop, s.pb, flush, replacement, Rfc8259.replacement], ⟨s.md, s.fl, rfl⟩, ?_⟩
    intro c off rs
    simp [run, peek, hv', feed, fuel, feedN, disp, hst, dNeedEscape, dString, setTop, s.q, lastOr, Tok.validateUtf8]

theorem close_name (pend : Option Nat) (s : StrSt t0 t .objectField cur nm rest pend acc) :
    ∃ t', t'.stack = ⟨.eatws, .objectFieldEnd, cur, some (cstr (acc ++ flush pend))⟩ :: rest ∧ Frm t0 t' ∧
      Reaches lc t l [34] t' l := by
  have hv' := s.noVal hv; unfold NoVal at hv'
  cases pend with
  | none =>
    obtain ⟨⟨sv, hst⟩, hhs⟩ := s.st
    refine ⟨setTop t ⟨.eatws, .objectFieldEnd, cur, some (cstr t.pb)⟩ rest, by simp [setTop, s.pb, flush],
      ⟨s.md, s.fl, hhs⟩, ?_⟩
    intro c off rs
    simp [run, peek, hv', feed, fuel, feedN, disp, hst, dObjectField, s.q, lastOr, Tok.validateUtf8, setTop]
  | some hi =>
    obtain ⟨hst, hhs, hhi, hsp, hucs⟩ := s.st
    refine ⟨setTop { t with pb := t.pb ++ replacement, hs := 0, ucs := 0, stPos := 0 }
        ⟨.eatws, .objectFieldEnd, cur, some (cstr (t.pb ++ replacement))⟩ rest,
      by simp [setTop, s.pb, flush, replacement, Rfc8259.replacement], ⟨s.md, s.fl, rfl⟩, ?_⟩
    intro c off rs
    simp [run, peek, hv', feed, fuel, feedN, disp, hst, dNeedEscape, dObjectField, setTop, s.q, lastOr, Tok.validateUtf8]

end
end JsonC.Tokener
