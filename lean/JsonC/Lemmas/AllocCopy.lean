/-
  Proofs for C08, deep copy: the ownership accounting (`Holds`) of a tree under construction and the
  unwinding of json_object_deep_copy_recursive at every level.
-/
import JsonC.Lemmas.AllocSpec

namespace JsonC.Alloc
open JsonC Generated


/-- the blocks allocated since `h0` that are still live are exactly the blocks of `t` -/
def Holds (h0 h : Heap) (t : Node) : Prop :=
  ∃ N, h.live = h0.live ++ N ∧ (∀ x, x ∈ N ↔ x ∈ owned t) ∧ (owned t).Nodup ∧ ∀ x ∈ N, x ∉ h0.live

theorem Holds.null (h : Heap) : Holds h h .null :=
  ⟨[], by simp, by simp [owned], by simp [owned], by simp⟩


theorem Holds.live_eq {h0 h h1 : Heap} {t : Node} (hh : Holds h0 h t) (hl : h1.live = h.live) : Holds h0 h1 t := by
  obtain ⟨N, h1', h2', h3', h4'⟩ := hh
  exact ⟨N, by rw [hl, h1'], h2', h3', h4'⟩

theorem Holds.ownedIn {h0 h : Heap} {t : Node} (hh : Holds h0 h t) : OwnedIn h (owned t) := by
  obtain ⟨N, h1', h2', h3', _⟩ := hh
  refine ⟨h3', fun b hb => ?_⟩
  rw [h1']; exact List.mem_append_right _ ((h2' b).mpr hb)

theorem Holds.mem_live {h0 h : Heap} {t : Node} (hh : Holds h0 h t) {b : Blk} (hb : b ∈ owned t) : b ∈ h.live :=
  hh.ownedIn.2 b hb

theorem Holds.fresh {h0 h : Heap} {t : Node} (hh : Holds h0 h t) {b : Blk} (hb : b ∈ owned t) : b ∉ h0.live := by
  obtain ⟨N, _, h2', _, h4'⟩ := hh
  exact h4' b ((h2' b).mpr hb)

/-- releasing the partial copy gives the heap of before the copy back -/
theorem Holds.put {h0 h : Heap} {t : Node} (g : Oracle) (_hwf0 : WF h0) (hwf : WF h) (hh : Holds h0 h t) :
    Post (putNode t) g h (fun _ h' => WF h' ∧ h'.next = h.next ∧ h'.errno = h.errno ∧ h'.live = h0.live) := by
  apply Post.mono (putNode_spec t g h hwf hh.ownedIn)
  rintro _ h' ⟨hw, hn, he, hl⟩
  refine ⟨hw, hn, he, ?_⟩
  obtain ⟨N, h1', h2', h3', h4'⟩ := hh
  rw [hl, h1', List.filter_append, filter_keep_of_disjoint, filter_keep_all]
  · simp
  · intro b hb; exact (h2' b).mp hb
  · intro b hb hbo
    exact h4' b ((h2' b).mpr hbo) hb

theorem ownedList_append (es : List Node) (c : Node) : ownedList (es ++ [c]) = ownedList es ++ owned c := by
  induction es with
  | nil => simp [ownedList]
  | cons e es ih => simp [ownedList, ih]

theorem ownedMembers_append (ms : List (Bytes × Option Blk × Node)) (k : Bytes) (kb : Option Blk) (c : Node) :
    ownedMembers (ms ++ [(k, kb, c)]) = ownedMembers ms ++ (kb.toList ++ owned c) := by
  induction ms with
  | nil => simp [ownedMembers]
  | cons m ms ih =>
    obtain ⟨k', kb', v'⟩ := m
    simp [ownedMembers, ih]


theorem nodup_arr_iff (b s a : Blk) (L : List Blk) :
    (b :: s :: a :: L).Nodup ↔ (b ≠ s ∧ b ≠ a ∧ b ∉ L) ∧ (s ≠ a ∧ s ∉ L) ∧ a ∉ L ∧ L.Nodup := by
  simp only [List.nodup_cons, List.mem_cons, not_or]

/-- attaching a freshly copied child to the array being built keeps the ownership accounting -/
theorem Holds.arrayAdd {h0 h h1 h2 : Heap} {b : Blk} {al al' : AlA} {es : List Node} {c : Node}
    (hwf1 : WF h1)
    (hd : Holds h0 h (.arr b al es)) (hc : Holds h h1 c) (hk : AlKeptOrMoved h1 al al' h2) :
    Holds h0 h2 (.arr b al' (es ++ [c])) := by
  obtain ⟨N, hl, hN, hnd, hfr⟩ := hd
  obtain ⟨Nc, hlc, hNc, hndc, hfrc⟩ := hc
  rw [owned] at hN hnd
  obtain ⟨⟨hbs, hba, hbL⟩, ⟨hsa, hsL⟩, haL, hLnd⟩ := (nodup_arr_iff _ _ _ _).mp hnd
  -- blocks of the array are old (≤ h.next), blocks of the child are new (> h.next)
  have hdisj : ∀ x, x ∈ N → x ∉ owned c := fun x hx hxc =>
    hfrc x ((hNc x).mpr hxc) (by rw [hl]; exact List.mem_append_right _ hx)
  have hbN : b ∈ N := (hN b).mpr (by simp)
  have hsN : al.self ∈ N := (hN _).mpr (by simp)
  have haN : al.array ∈ N := (hN _).mpr (by simp)
  have hLN : ∀ x, x ∈ ownedList es → x ∈ N := fun x hx => (hN x).mpr (by simp [hx])
  obtain ⟨hself, hkm⟩ := hk
  rcases hkm with ⟨harr, hsz, hl2, hn2⟩ | ⟨hl2, hn2, hid⟩
  · refine ⟨N ++ Nc, by rw [hl2, hlc, hl, List.append_assoc], ?_, ?_, ?_⟩
    · intro x
      rw [owned, ownedList_append, hself, harr]
      simp only [List.mem_append, List.mem_cons, hN x, hNc x]
      constructor
      · rintro ((h' | h' | h' | h') | h') <;> simp [h']
      · rintro (h' | h' | h' | h' | h') <;> simp [h']
    · rw [owned, ownedList_append, hself, harr, nodup_arr_iff]
      refine ⟨⟨hbs, hba, ?_⟩, ⟨hsa, ?_⟩, ?_, ?_⟩
      · intro hm; rcases List.mem_append.mp hm with hm | hm
        · exact hbL hm
        · exact hdisj b hbN hm
      · intro hm; rcases List.mem_append.mp hm with hm | hm
        · exact hsL hm
        · exact hdisj _ hsN hm
      · intro hm; rcases List.mem_append.mp hm with hm | hm
        · exact haL hm
        · exact hdisj _ haN hm
      · rw [List.nodup_append]
        exact ⟨hLnd, hndc, fun x hx y hy e => by subst e; exact hdisj x (hLN x hx) hy⟩
    · intro x hx
      rcases List.mem_append.mp hx with hx | hx
      · exact hfr x hx
      · exact fun hm => hfrc x hx (by rw [hl]; exact List.mem_append_left _ hm)
  · -- the slot array moved
    have hnewid : ∀ x, x ∈ h1.live → x.id ≤ h1.next := hwf1.2
    have harr0 : al.array ∉ h0.live := hfr _ haN
    have harrc : al.array ∉ owned c := hdisj _ haN
    have hfreshNew : ∀ x, x ∈ h1.live → x ≠ al'.array := fun x hx e => by
      have := hnewid x hx; rw [e, hid] at this; omega
    have hN1 : ∀ x, x ∈ N → x ∈ h1.live := fun x hx => by
      rw [hlc, hl]; exact List.mem_append_left _ (List.mem_append_right _ hx)
    have hNc1 : ∀ x, x ∈ Nc → x ∈ h1.live := fun x hx => by rw [hlc]; exact List.mem_append_right _ hx
    refine ⟨(N ++ Nc).filter (· != al.array) ++ [al'.array], ?_, ?_, ?_, ?_⟩
    · rw [hl2, hlc, hl, List.append_assoc, List.filter_append, filter_ne_fresh harr0, List.append_assoc]
    · intro x
      rw [owned, ownedList_append, hself]
      simp only [List.mem_append, List.mem_cons, mem_filter_ne, hN x, hNc x, List.not_mem_nil, or_false]
      constructor
      · rintro (⟨(h' | h' | h' | h') | h', hne⟩ | h')
        · simp [h']
        · simp [h']
        · exact absurd h' hne
        · simp [h']
        · simp [h']
        · simp [h']
      · rintro (h' | h' | h' | h' | h')
        · subst h'; exact Or.inl ⟨Or.inl (Or.inl rfl), hba⟩
        · subst h'; exact Or.inl ⟨Or.inl (Or.inr (Or.inl rfl)), hsa⟩
        · exact Or.inr h'
        · exact Or.inl ⟨Or.inl (Or.inr (Or.inr (Or.inr h'))), fun e => haL (e ▸ h')⟩
        · exact Or.inl ⟨Or.inr h', fun e => harrc (e ▸ h')⟩
    · rw [owned, ownedList_append, hself, nodup_arr_iff]
      refine ⟨⟨hbs, hfreshNew b (hN1 b hbN), ?_⟩, ⟨hfreshNew _ (hN1 _ hsN), ?_⟩, ?_, ?_⟩
      · intro hm; rcases List.mem_append.mp hm with hm | hm
        · exact hbL hm
        · exact hdisj b hbN hm
      · intro hm; rcases List.mem_append.mp hm with hm | hm
        · exact hsL hm
        · exact hdisj _ hsN hm
      · intro hm; rcases List.mem_append.mp hm with hm | hm
        · exact hfreshNew _ (hN1 _ (hLN _ hm)) rfl
        · exact hfreshNew _ (hNc1 _ ((hNc _).mpr hm)) rfl
      · rw [List.nodup_append]
        exact ⟨hLnd, hndc, fun x hx y hy e => by subst e; exact hdisj x (hLN x hx) hy⟩
    · intro x hx
      rcases List.mem_append.mp hx with hx | hx
      · have hx' := (List.mem_filter.mp hx).1
        rcases List.mem_append.mp hx' with hx' | hx'
        · exact hfr x hx'
        · exact fun hm => hfrc x hx' (by rw [hl]; exact List.mem_append_left _ hm)
      · simp only [List.mem_singleton] at hx
        subst hx
        exact fun hm => hfreshNew _ (by rw [hlc, hl]; exact List.mem_append_left _ (List.mem_append_left _ hm)) rfl


/-- attaching a freshly copied member value to the object being built keeps the ownership accounting -/
theorem Holds.objAdded {h0 h h1 h2 : Heap} {b : Blk} {lh : LhA} {ms : List (Bytes × Option Blk × Node)}
    {key : Bytes} {c r : Node} {constKey : Bool}
    (hwf1 : WF h1)
    (hd : Holds h0 h (.obj b lh ms)) (hc : Holds h h1 c) (ha : ObjAdded h1 b lh ms key c constKey r h2) :
    Holds h0 h2 r := by
  obtain ⟨N, hl, hN, hnd, hfr⟩ := hd
  obtain ⟨Nc, hlc, hNc, hndc, hfrc⟩ := hc
  obtain ⟨kb, lh', rfl, hself, _, _, _, hkid, hkm⟩ := ha
  rw [owned] at hN hnd
  obtain ⟨⟨hbs, hba, hbL⟩, ⟨hsa, hsL⟩, haL, hLnd⟩ := (nodup_arr_iff _ _ _ _).mp hnd
  have hdisj : ∀ x, x ∈ N → x ∉ owned c := fun x hx hxc =>
    hfrc x ((hNc x).mpr hxc) (by rw [hl]; exact List.mem_append_right _ hx)
  have hbN : b ∈ N := (hN b).mpr (by simp)
  have hsN : lh.self ∈ N := (hN _).mpr (by simp)
  have haN : lh.table ∈ N := (hN _).mpr (by simp)
  have hLN : ∀ x, x ∈ ownedMembers ms → x ∈ N := fun x hx => (hN x).mpr (by simp [hx])
  have hN1 : ∀ x, x ∈ N → x ∈ h1.live := fun x hx => by
    rw [hlc, hl]; exact List.mem_append_left _ (List.mem_append_right _ hx)
  have hNc1 : ∀ x, x ∈ Nc → x ∈ h1.live := fun x hx => by rw [hlc]; exact List.mem_append_right _ hx
  have hc1 : ∀ x, x ∈ owned c → x ∈ h1.live := fun x hx => hNc1 x ((hNc x).mpr hx)
  have h01 : ∀ x, x ∈ h0.live → x ∈ h1.live := fun x hx => by
    rw [hlc, hl]; exact List.mem_append_left _ (List.mem_append_left _ hx)
  -- the key copy is newer than everything live in h1
  have hkfresh : ∀ x, x ∈ kb.toList → ∀ y, y ∈ h1.live → y ≠ x := by
    intro x hx y hy e
    cases kb with
    | none => simp at hx
    | some k =>
      simp only [Option.toList_some, List.mem_singleton] at hx
      subst hx; subst e
      have := hwf1.2 _ hy; have := (hkid _ rfl).1; omega
  have hkid' : ∀ x, x ∈ kb.toList → x.id = h1.next + 1 := by
    intro x hx
    cases kb with
    | none => simp at hx
    | some k =>
      simp only [Option.toList_some, List.mem_singleton] at hx
      subst hx; exact (hkid _ rfl).1
  have hknd : kb.toList.Nodup := by cases kb <;> simp
  -- the members part of the new tree
  have hmem_nd : (ownedMembers ms ++ (kb.toList ++ owned c)).Nodup := by
    rw [List.nodup_append]
    refine ⟨hLnd, ?_, ?_⟩
    · rw [List.nodup_append]
      exact ⟨hknd, hndc, fun x hx y hy e => hkfresh x hx y (hc1 y hy) e.symm⟩
    · intro x hx y hy e
      subst e
      rcases List.mem_append.mp hy with hy | hy
      · exact hkfresh x hy x (hN1 x (hLN x hx)) rfl
      · exact hdisj x (hLN x hx) hy
  have hnotin : ∀ z, z ∈ N → z ∉ ownedMembers ms → z ∉ ownedMembers ms ++ (kb.toList ++ owned c) := by
    intro z hz hzm hm
    rcases List.mem_append.mp hm with hm | hm
    · exact hzm hm
    · rcases List.mem_append.mp hm with hm | hm
      · exact hkfresh z hm z (hN1 z hz) rfl
      · exact hdisj z hz hm
  rcases hkm with ⟨htab, hsz, hl2, hn2⟩ | ⟨hsz, hl2, hn2, hid, _⟩
  · refine ⟨N ++ Nc ++ kb.toList, by rw [hl2, hlc, hl]; simp [List.append_assoc], ?_, ?_, ?_⟩
    · intro x
      rw [owned, ownedMembers_append, hself, htab]
      simp only [List.mem_append, List.mem_cons, hN x, hNc x]
      constructor
      · rintro (((h' | h' | h' | h') | h') | h') <;> simp [h']
      · rintro (h' | h' | h' | h' | h' | h') <;> simp [h']
    · rw [owned, ownedMembers_append, hself, htab, nodup_arr_iff]
      exact ⟨⟨hbs, hba, hnotin b hbN hbL⟩, ⟨hsa, hnotin _ hsN hsL⟩, hnotin _ haN haL, hmem_nd⟩
    · intro x hx
      rcases List.mem_append.mp hx with hx | hx
      · rcases List.mem_append.mp hx with hx | hx
        · exact hfr x hx
        · exact fun hm => hfrc x hx (by rw [hl]; exact List.mem_append_left _ hm)
      · exact fun hm => hkfresh x hx x (h01 x hm) rfl
  · -- the entry array moved
    have htab0 : lh.table ∉ h0.live := hfr _ haN
    have htabc : lh.table ∉ owned c := hdisj _ haN
    have htabk : lh.table ∉ kb.toList := fun hm => hkfresh _ hm _ (hN1 _ haN) rfl
    have hnewT : ∀ x, x ∈ h1.live → x ≠ lh'.table := fun x hx e => by
      have := hwf1.2 x hx; rw [e, hid, hn2] at this; omega
    have hnewK : ∀ x, x ∈ kb.toList → x ≠ lh'.table := fun x hx e => by
      have := hkid' x hx; rw [e, hid, hn2] at this; omega
    refine ⟨(N ++ Nc).filter (· != lh.table) ++ kb.toList ++ [lh'.table], ?_, ?_, ?_, ?_⟩
    · rw [hl2, hlc, hl]
      simp only [List.filter_append, filter_ne_fresh htab0, List.append_assoc]
    · intro x
      rw [owned, ownedMembers_append, hself]
      simp only [List.mem_append, List.mem_cons, mem_filter_ne, hN x, hNc x, List.not_mem_nil, or_false]
      constructor
      · rintro ((⟨(h' | h' | h' | h') | h', hne⟩ | h') | h')
        · simp [h']
        · simp [h']
        · exact absurd h' hne
        · simp [h']
        · simp [h']
        · simp [h']
        · simp [h']
      · rintro (h' | h' | h' | h' | h' | h')
        · subst h'; exact Or.inl (Or.inl ⟨Or.inl (Or.inl rfl), hba⟩)
        · subst h'; exact Or.inl (Or.inl ⟨Or.inl (Or.inr (Or.inl rfl)), hsa⟩)
        · exact Or.inr h'
        · exact Or.inl (Or.inl ⟨Or.inl (Or.inr (Or.inr (Or.inr h'))), fun e => haL (e ▸ h')⟩)
        · exact Or.inl (Or.inr h')
        · exact Or.inl (Or.inl ⟨Or.inr h', fun e => htabc (e ▸ h')⟩)
    · rw [owned, ownedMembers_append, hself, nodup_arr_iff]
      refine ⟨⟨hbs, hnewT b (hN1 b hbN), hnotin b hbN hbL⟩, ⟨hnewT _ (hN1 _ hsN), hnotin _ hsN hsL⟩, ?_, hmem_nd⟩
      intro hm
      rcases List.mem_append.mp hm with hm | hm
      · exact hnewT _ (hN1 _ (hLN _ hm)) rfl
      · rcases List.mem_append.mp hm with hm | hm
        · exact hnewK _ hm rfl
        · exact hnewT _ (hc1 _ hm) rfl
    · intro x hx
      rcases List.mem_append.mp hx with hx | hx
      · rcases List.mem_append.mp hx with hx | hx
        · have hx' := (List.mem_filter.mp hx).1
          rcases List.mem_append.mp hx' with hx' | hx'
          · exact hfr x hx'
          · exact fun hm => hfrc x hx' (by rw [hl]; exact List.mem_append_left _ hm)
        · exact fun hm => hkfresh x hx x (h01 x hm) rfl
      · simp only [List.mem_singleton] at hx
        subst hx
        exact fun hm => hnewT _ (h01 _ hm) rfl


/-! ### the source of a deep copy -/

mutual
  /-- a tree json-c can have built: strings below the length cap, objects with pairwise distinct keys,
  containers with fewer than 2^26 children (so that capacities stay far below the size_t / int guards) -/
  def srcOK : Node → Prop
    | .str _ s _ => s.length < intMax - strNewIntGuardSlack
    | .arr _ _ es => es.length < 2 ^ 26 ∧ srcOKList es
    | .obj _ _ ms => (ms.map (·.1)).Nodup ∧ ms.length < 2 ^ 26 ∧ srcOKMembers ms
    | _ => True
  def srcOKList : List Node → Prop
    | [] => True
    | e :: es => srcOK e ∧ srcOKList es
  def srcOKMembers : List (Bytes × Option Blk × Node) → Prop
    | [] => True
    | (_, _, v) :: ms => srcOK v ∧ srcOKMembers ms
end

def CopyPost (g : Oracle) (h : Heap) (r : Bool × Node) (h' : Heap) : Prop :=
  WF h' ∧ h.next ≤ h'.next ∧ Holds h h' r.2 ∧ (r.1 = false → Failed g h h')

/-- capacity of the array being built stays proportional to its length -/
def AlSmall (al : AlA) : Prop := al.size ≤ 32 ∨ al.size ≤ 4 * al.length

theorem findKey_none_iff (key : Bytes) (ms : List (Bytes × Option Blk × Node)) :
    findKey key ms = none ↔ key ∉ ms.map (·.1) := by
  induction ms with
  | nil => simp [findKey]
  | cons m ms ih =>
    obtain ⟨k, kb, v⟩ := m
    simp only [findKey, List.map_cons, List.mem_cons, not_or]
    by_cases hk : k = key
    · simp [hk]
    · rw [if_neg hk]
      simp only [Option.map_eq_none_iff, ih]
      constructor
      · intro h; exact ⟨fun e => hk e.symm, h⟩
      · intro h; exact h.2

theorem copyElems_spec (g : Oracle) (h0 : Heap) (b : Blk) (es : List Node)
    (ih : ∀ e ∈ es, ∀ (g : Oracle) (h : Heap), WF h → srcOK e → Post (copyRec e) g h (CopyPost g h)) :
    ∀ (al : AlA) (done : List Node) (h : Heap), WF h → h0.next ≤ h.next → Holds h0 h (.arr b al done) →
      srcOKList es → AlSmall al → al.length + es.length < 2 ^ 26 →
      Post (copyElems es (.arr b al done)) g h (fun r h' => WF h' ∧ h.next ≤ h'.next ∧ Holds h0 h' r.2 ∧
        (r.1 = false → Failed g h h')) := by
  obtain ⟨_, _, _, _, _, _, _, _, hputc, _⟩ := shape_facts
  have hS := sizeMax_val
  have hP := ptr_val
  induction es with
  | nil =>
    intro al done h hwf hm hd _ _ _
    rw [copyElems]
    apply Post.pure
    exact ⟨hwf, Nat.le_refl _, hd, fun hc => by simp at hc⟩
  | cons e es ihl =>
    intro al done h hwf hm hd hok hsmall hlen
    rw [copyElems]
    rw [srcOKList] at hok
    apply Post.seq (ih e (by simp) g h hwf hok.1)
    rintro ⟨ok, c⟩ h1 ⟨hwf1, hm1, hc, hfail⟩
    simp only at hc hfail
    dsimp only
    cases ok with
    | false =>
      simp only [Bool.not_false, ↓reduceIte, hputc]
      apply Post.bind
      apply Post.mono (Holds.put g hwf hwf1 hc)
      rintro _ h2 ⟨hwf2, hn2, he2, hl2⟩
      apply Post.pure
      exact ⟨hwf2, by omega, hd.live_eq hl2, fun _ => (hfail rfl).widen (Nat.le_refl _) (by omega)⟩
    | true =>
      simp only [Bool.not_true, Bool.false_eq_true, ↓reduceIte]
      have harr : al.array ∈ h1.live := by
        obtain ⟨Nc, hlc, _⟩ := hc
        rw [hlc]; exact List.mem_append_left _ (hd.mem_live (by simp [owned]))
      apply Post.seq (arrayAdd_spec g h1 hwf1 b al done c harr)
      rintro ⟨dst1, rc⟩ h2 ⟨hwf2, hm2, hcase⟩
      rcases hcase with ⟨hrc, al', hdst, hk, hlen', hsz⟩ | ⟨hrc, hdst, hl2, hf⟩
      · simp only at hrc hdst
        subst hrc; subst hdst
        dsimp only
        rw [if_neg (by decide)]
        have hd2 := Holds.arrayAdd hwf1 hd hc hk
        have hsm2 : AlSmall al' := by
          unfold AlSmall at hsmall ⊢
          rcases hsz with hsz | ⟨hle, hsz | hsz⟩ <;> omega
        apply Post.mono (ihl (fun x hx => ih x (by simp [hx])) al' (done ++ [c]) h2 hwf2 (by omega) hd2 hok.2 hsm2
          (by rw [hlen']; simp only [List.length_cons] at hlen; omega))
        rintro r h3 ⟨hwf3, hm3, hd3, hf3⟩
        exact ⟨hwf3, by omega, hd3, fun hr => (hf3 hr).widen (by omega) (Nat.le_refl _)⟩
      · simp only at hrc hdst hl2
        subst hrc; subst hdst
        dsimp only
        rw [if_pos (by decide)]
        simp only [hputc, ↓reduceIte]
        apply Post.bind
        apply Post.mono (Holds.put g hwf hwf2 (hc.live_eq hl2))
        rintro _ h3 ⟨hwf3, hn3, he3, hl3⟩
        apply Post.pure
        refine ⟨hwf3, by omega, hd.live_eq hl3, fun _ => ?_⟩
        rcases hf with hf | ⟨_, hbig⟩
        · exact hf.widen hm1 (by omega)
        · exfalso
          unfold AlSmall at hsmall
          simp only [List.length_cons] at hlen
          rw [hS, hP] at hbig
          omega


/-- the table of the object being built: not over-full, capacity proportional to the count -/
def LhSmall (lh : LhA) : Prop := 0 < lh.size ∧ lh.count ≤ lh.size ∧ (lh.size ≤ 16 ∨ lh.size ≤ 4 * lh.count)

theorem LhSmall.ok {lh : LhA} (hs : LhSmall lh) (hc : lh.count < 2 ^ 26) : LhOK lh := by
  obtain ⟨h1, h2, h3⟩ := hs
  have hI := intMax_nat
  refine ⟨h1, h2, ?_⟩
  rw [hI]
  rcases h3 with h3 | h3 <;> omega

theorem copyMembers_spec (g : Oracle) (h0 : Heap) (b : Blk) (ms : List (Bytes × Option Blk × Node))
    (ih : ∀ m ∈ ms, ∀ (g : Oracle) (h : Heap), WF h → srcOK m.2.2 → Post (copyRec m.2.2) g h (CopyPost g h)) :
    ∀ (lh : LhA) (done : List (Bytes × Option Blk × Node)) (h : Heap), WF h → h0.next ≤ h.next →
      Holds h0 h (.obj b lh done) → srcOKMembers ms → (ms.map (·.1)).Nodup → (∀ m ∈ ms, m.1 ∉ done.map (·.1)) →
      LhSmall lh → lh.count + ms.length < 2 ^ 26 →
      Post (copyMembers ms (.obj b lh done)) g h (fun r h' => WF h' ∧ h.next ≤ h'.next ∧ Holds h0 h' r.2 ∧
        (r.1 = false → Failed g h h')) := by
  obtain ⟨_, _, _, _, _, _, _, _, hputc, _⟩ := shape_facts
  induction ms with
  | nil =>
    intro lh done h hwf hm hd _ _ _ _ _
    rw [copyMembers]
    apply Post.pure
    exact ⟨hwf, Nat.le_refl _, hd, fun hc => by simp at hc⟩
  | cons m ms ihl =>
    obtain ⟨k, kb0, v⟩ := m
    intro lh done h hwf hm hd hok hnd hnew hsmall hlen
    simp only [copyMembers]
    rw [srcOKMembers] at hok
    simp only [List.map_cons, List.nodup_cons] at hnd
    apply Post.seq (ih (k, kb0, v) (by simp) g h hwf hok.1)
    rintro ⟨ok, c⟩ h1 ⟨hwf1, hm1, hc, hfail⟩
    simp only at hc hfail
    dsimp only
    cases ok with
    | false =>
      simp only [Bool.not_false, ↓reduceIte, hputc]
      apply Post.bind
      apply Post.mono (Holds.put g hwf hwf1 hc)
      rintro _ h2 ⟨hwf2, hn2, he2, hl2⟩
      apply Post.pure
      exact ⟨hwf2, by omega, hd.live_eq hl2, fun _ => (hfail rfl).widen (Nat.le_refl _) (by omega)⟩
    | true =>
      simp only [Bool.not_true, Bool.false_eq_true, ↓reduceIte]
      have htab : lh.table ∈ h1.live := by
        obtain ⟨Nc, hlc, _⟩ := hc
        rw [hlc]; exact List.mem_append_left _ (hd.mem_live (by simp [owned]))
      have hknew : findKey k done = none := (findKey_none_iff k done).mpr (hnew (k, kb0, v) (by simp))
      simp only [List.length_cons] at hlen
      apply Post.seq (objectAddEx_spec g h1 hwf1 b lh done k c false false htab (hsmall.ok (by omega))
        (fun i _ hf => by rw [hknew] at hf; cases hf))
      rintro ⟨dst1, rc⟩ h2 ⟨hwf2, hm2, hcase⟩
      rcases hcase with ⟨_, i, _, hf, _⟩ | ⟨hrc, _, hadd⟩ | ⟨hrc, hdst, hl2, hf⟩
      · rw [hknew] at hf; cases hf
      · simp only at hrc hadd
        subst hrc
        dsimp only
        rw [if_neg (by decide)]
        have hd2 := Holds.objAdded hwf1 hd hc hadd
        obtain ⟨kb, lh', hdst, _, hcnt, hcs, _, _, hkm⟩ := hadd
        subst hdst
        have hsm2 : LhSmall lh' := by
          obtain ⟨s1, s2, s3⟩ := hsmall
          rcases hkm with ⟨_, hsz, _⟩ | ⟨hsz, _, _, _, hgrow⟩
          · refine ⟨by omega, hcs, ?_⟩; rcases s3 with s3 | s3 <;> omega
          · refine ⟨by omega, hcs, ?_⟩; right; omega
        apply Post.mono (ihl (fun x hx => ih x (by simp [hx])) lh' (done ++ [(k, kb, c)]) h2 hwf2 (by omega) hd2 hok.2
          hnd.2 ?_ hsm2 (by omega))
        · rintro r h3 ⟨hwf3, hm3, hd3, hf3⟩
          exact ⟨hwf3, by omega, hd3, fun hr => (hf3 hr).widen (by omega) (Nat.le_refl _)⟩
        · intro m hm' hmem
          simp only [List.map_append, List.map_cons, List.map_nil, List.mem_append, List.mem_singleton] at hmem
          rcases hmem with hmem | hmem
          · exact hnew m (by simp [hm']) hmem
          · exact hnd.1 (hmem ▸ List.mem_map_of_mem hm')
      · simp only at hrc hdst hl2
        subst hrc; subst hdst
        dsimp only
        rw [if_pos (by decide)]
        simp only [hputc, ↓reduceIte]
        apply Post.bind
        apply Post.mono (Holds.put g hwf hwf2 (hc.live_eq hl2))
        rintro _ h3 ⟨hwf3, hn3, he3, hl3⟩
        apply Post.pure
        exact ⟨hwf3, by omega, hd.live_eq hl3, fun _ => hf.widen hm1 (by omega)⟩


theorem srcOKList_mem {es : List Node} (h : srcOKList es) : ∀ e ∈ es, srcOK e := by
  induction es with
  | nil => intro e he; cases he
  | cons x xs ih =>
    rw [srcOKList] at h
    intro e he
    rcases List.mem_cons.mp he with rfl | he
    · exact h.1
    · exact ih h.2 e he

theorem Holds.leaf {h h' : Heap} {r : Node} (hl : h'.live = h.live ++ owned r) (hwf' : WF h') : Holds h h' r := by
  have hnd := hwf'.1
  rw [hl] at hnd
  obtain ⟨_, h2, h3⟩ := List.nodup_append.mp hnd
  exact ⟨owned r, hl, fun _ => Iff.rfl, h2, fun x hx hm => h3 x hm x hx rfl⟩


theorem copyRec_spec : ∀ (t : Node) (g : Oracle) (h : Heap), WF h → srcOK t → Post (copyRec t) g h (CopyPost g h) := by
  intro t
  induction t using Node.induct with
  | hnull =>
    intro g h hwf _
    rw [copyRec]
    apply Post.pure
    exact ⟨hwf, Nat.le_refl _, Holds.null h, fun hc => by simp at hc⟩
  | hprim k b0 =>
    intro g h hwf _
    rw [copyRec]
    apply Post.seq (newPrim_spec g h hwf k)
    rintro r h1 ⟨hwf1, hn1, hl1, hcase⟩
    rcases hcase with ⟨b, rfl, _, _⟩ | ⟨rfl, hf⟩
    · dsimp only
      apply Post.pure
      exact ⟨hwf1, hn1, Holds.leaf hl1 hwf1, fun hc => by simp at hc⟩
    · dsimp only
      apply Post.bind
      apply Post.setErrno
      intro h2 hn2 hl2 he2
      apply Post.pure
      have hw2 : WF h2 := hwf1.step (by omega) hl2
      exact ⟨hw2, by omega, Holds.leaf (by rw [hl2, hl1]) hw2, fun _ => hf.widen (Nat.le_refl _) (by omega)⟩
  | hdbls b0 ud =>
    intro g h hwf _
    rw [copyRec]
    apply Post.seq (newPrim_spec g h hwf .double)
    rintro r h1 ⟨hwf1, hn1, hl1, hcase⟩
    rcases hcase with ⟨b, rfl, hbid, _⟩ | ⟨rfl, hf⟩
    · dsimp only
      unfold strdup
      apply Post.bind
      apply Post.alloc hwf1
      · intro hg h2 hn2 hl2 he2 hwf2
        dsimp only
        apply Post.pure
        refine ⟨hwf2, by omega, Holds.leaf ?_ hwf2, fun hc => by simp at hc⟩
        rw [hl2, hl1]; simp [owned]
      · intro hg h2 hn2 hl2 he2 hwf2
        dsimp only
        apply Post.pure
        refine ⟨hwf2, by omega, Holds.leaf (by rw [hl2, hl1]) hwf2, fun _ => ⟨h1.next + 1, by omega, by omega, hg⟩⟩
    · dsimp only
      apply Post.bind
      apply Post.setErrno
      intro h2 hn2 hl2 he2
      apply Post.pure
      have hw2 : WF h2 := hwf1.step (by omega) hl2
      exact ⟨hw2, by omega, Holds.leaf (by rw [hl2, hl1]) hw2, fun _ => hf.widen (Nat.le_refl _) (by omega)⟩
  | hstr b0 s pd =>
    intro g h hwf hok
    rw [copyRec]
    rw [srcOK] at hok
    apply Post.seq (newStringLen_spec g h hwf s)
    rintro r h1 ⟨hwf1, hn1, hl1, hcase⟩
    rcases hcase with ⟨b, rfl, _, _⟩ | ⟨rfl, hf⟩
    · dsimp only
      apply Post.pure
      exact ⟨hwf1, hn1, Holds.leaf hl1 hwf1, fun hc => by simp at hc⟩
    · dsimp only
      apply Post.bind
      apply Post.setErrno
      intro h2 hn2 hl2 he2
      apply Post.pure
      have hw2 : WF h2 := hwf1.step (by omega) hl2
      refine ⟨hw2, by omega, Holds.leaf (by rw [hl2, hl1]) hw2, fun _ => ?_⟩
      rcases hf with hf | ⟨hbig, _⟩
      · exact hf.widen (Nat.le_refl _) (by omega)
      · omega
  | harr b0 al0 es ih =>
    intro g h hwf hok
    rw [copyRec]
    rw [srcOK] at hok
    apply Post.seq (newArrayExt_spec g h hwf arrayListDefaultSize)
    rintro r h1 ⟨hwf1, hn1, hl1, hcase⟩
    rcases hcase with ⟨b, al, rfl, hsz, hlen, _⟩ | ⟨rfl, hf⟩
    · dsimp only
      have hsmall : AlSmall al := by
        left; rw [hsz]; decide
      apply Post.mono (copyElems_spec g h b es (fun e he g' h' hw' hs' => ih e he g' h' hw' hs') al [] h1 hwf1 hn1
        (Holds.leaf hl1 hwf1) hok.2 hsmall (by rw [hlen]; omega))
      rintro r h2 ⟨hwf2, hn2, hd2, hf2⟩
      exact ⟨hwf2, by omega, hd2, fun hr => (hf2 hr).widen hn1 (Nat.le_refl _)⟩
    · dsimp only
      apply Post.bind
      apply Post.setErrno
      intro h2 hn2 hl2 he2
      apply Post.pure
      have hw2 : WF h2 := hwf1.step (by omega) hl2
      refine ⟨hw2, by omega, Holds.leaf (by rw [hl2, hl1]) hw2, fun _ => ?_⟩
      rcases hf with hf | hbig
      · exact hf.widen (Nat.le_refl _) (by omega)
      · exfalso
        have : ¬ ((arrayListDefaultSize : Int) < 0 ∨ (arrayListDefaultSize : Int).toNat ≥ SIZE_T_MAX / PTR) := by decide
        exact this hbig
  | hobj b0 lh0 ms ih =>
    intro g h hwf hok
    rw [copyRec]
    rw [srcOK] at hok
    apply Post.seq (newObject_spec g h hwf)
    rintro r h1 ⟨hwf1, hn1, hl1, hcase⟩
    rcases hcase with ⟨b, lh, rfl, hsz, hcnt⟩ | ⟨rfl, hf, _⟩
    · dsimp only
      have hsmall : LhSmall lh := by
        refine ⟨by rw [hsz]; decide, by rw [hcnt]; omega, Or.inl (by rw [hsz]; decide)⟩
      apply Post.mono (copyMembers_spec g h b ms (fun m hm g' h' hw' hs' => ih m hm g' h' hw' hs') lh [] h1 hwf1 hn1
        (Holds.leaf hl1 hwf1) hok.2.2 hok.1 (by simp) hsmall (by rw [hcnt]; omega))
      rintro r h2 ⟨hwf2, hn2, hd2, hf2⟩
      exact ⟨hwf2, by omega, hd2, fun hr => (hf2 hr).widen hn1 (Nat.le_refl _)⟩
    · dsimp only
      apply Post.bind
      apply Post.setErrno
      intro h2 hn2 hl2 he2
      apply Post.pure
      have hw2 : WF h2 := hwf1.step (by omega) hl2
      exact ⟨hw2, by omega, Holds.leaf (by rw [hl2, hl1]) hw2, fun _ => hf.widen (Nat.le_refl _) (by omega)⟩

/-- json_object_deep_copy: returns 0 and a new tree whose blocks are exactly the blocks added to the
heap, or returns -1 with *dst == NULL and the heap exactly as before (the partial copy is released at
every level: `allocDeepCopyPutsChild`, `allocDeepCopyPutsPartial`); -1 only if an allocation was refused -/
theorem deepCopy_spec (g : Oracle) (h : Heap) (hwf : WF h) (src : Node) (hsrc : srcOK src) (hnn : src ≠ .null) :
    Post (deepCopy src) g h (fun r h' => WF h' ∧ h.next ≤ h'.next ∧
      ((r.1 = 0 ∧ ∃ N, h'.live = h.live ++ N ∧ N.Perm (owned r.2)) ∨
       (r.1 = -1 ∧ r.2 = .null ∧ h'.live = h.live ∧ Failed g h h'))) := by
  obtain ⟨_, _, _, _, _, _, _, hputp, _⟩ := shape_facts
  have hbody : deepCopy src = (do
      let (ok, dst) ← copyRec src
      if !ok then do
        if allocDeepCopyPutsPartial then putNode dst else pure ()
        pure (-1, .null)
      else pure (0, dst)) := by
    cases src <;> first | rfl | exact absurd rfl hnn
  rw [hbody]
  apply Post.seq (copyRec_spec src g h hwf hsrc)
  rintro ⟨ok, dst⟩ h1 ⟨hwf1, hn1, hd, hfail⟩
  simp only at hd hfail
  dsimp only
  cases ok with
  | false =>
    simp only [Bool.not_false, ↓reduceIte, hputp]
    apply Post.bind
    apply Post.mono (Holds.put g hwf hwf1 hd)
    rintro _ h2 ⟨hwf2, hn2, he2, hl2⟩
    apply Post.pure
    exact ⟨hwf2, by omega, Or.inr ⟨rfl, rfl, hl2, (hfail rfl).widen (Nat.le_refl _) (by omega)⟩⟩
  | true =>
    simp only [Bool.not_true, Bool.false_eq_true, ↓reduceIte]
    apply Post.pure
    obtain ⟨N, hl, hN, hnd, _⟩ := hd
    refine ⟨hwf1, hn1, Or.inl ⟨rfl, N, hl, ?_⟩⟩
    have hNnd : N.Nodup := by
      have := hwf1.1; rw [hl] at this; exact (List.nodup_append.mp this).2.1
    exact (List.perm_ext_iff_of_nodup hNnd hnd).mpr hN

end JsonC.Alloc
