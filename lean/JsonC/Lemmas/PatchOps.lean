/-
  Helper lemmas for C13, part 3: json_pointer_get_internal / json_pointer_set_with_array_cb as
  wholes, and the totality (no `fault`) of every function of the model of json_patch.c.
-/
import JsonC.Lemmas.PatchWalk

namespace JsonC.Patch
open JsonC

/-! ### what a successful json_pointer_get_internal returned (no assumption on the path) -/

theorem rawTokens_cons (c : UInt8) (r : Bytes) (T : List Bytes) (h : rawTokens (c :: r) = some T) :
    c = 0x2f ∧ T = splitTokens r ∧ T ≠ [] := by
  simp only [rawTokens] at h
  split at h
  · rename_i hc; simp at h; exact ⟨hc, h.symm, by rw [← h]; exact splitTokens_ne_nil r⟩
  · simp at h

theorem getLast?_of_ne_nil {α : Type} (l : List α) (h : l ≠ []) : ∃ x, l.getLast? = some x := by
  cases hl : l.getLast? with
  | none => exact absurd (List.getLast?_eq_none_iff.mp hl) h
  | some x => exact ⟨x, rfl⟩

theorem getInternal_ok_raw (doc : JVal) (path : Option Bytes) (g : GetRes) (h : getInternal doc path = .ok g) :
    isNull doc = false ∧
    ((g.place = .root ∧ g.obj = doc ∧ path = some []) ∨
     ∃ ps T last loc parent s, path = some ps ∧ ps ≠ [] ∧ rawTokens ps = some T ∧ T.getLast? = some last ∧
       walk doc T.dropLast = .ok (loc, parent) ∧ getSingle parent last = .ok (g.obj, s) ∧
       ((∃ i, s = .idx i ∧ g.place = .elem loc (i % UINT32_MOD)) ∨ (∃ k, s = .key k ∧ g.place = .member loc k))) := by
  unfold getInternal at h
  cases path with
  | none => simp at h
  | some p =>
    simp only at h
    cases hn : isNull doc with
    | true => rw [hn] at h; simp at h
    | false =>
      rw [hn] at h
      simp only [Bool.false_eq_true, if_false] at h
      refine ⟨rfl, ?_⟩
      cases p with
      | nil => simp only [R.ok.injEq] at h; subst h; exact Or.inl ⟨rfl, rfl, rfl⟩
      | cons c r =>
        right
        simp only at h
        cases hT : rawTokens (c :: r) with
        | none => rw [hT] at h; simp at h
        | some T =>
          rw [hT] at h
          simp only at h
          cases hl : T.getLast? with
          | none => rw [hl] at h; simp at h
          | some last =>
            rw [hl] at h
            simp only at h
            cases hw : walk doc T.dropLast with
            | error e => rw [hw] at h; simp at h
            | ok lp =>
              obtain ⟨loc, parent⟩ := lp
              rw [hw] at h
              simp only at h
              cases hg : getSingle parent last with
              | error e => rw [hg] at h; simp at h
              | ok cs =>
                obtain ⟨c0, s⟩ := cs
                rw [hg] at h
                cases s with
                | idx i =>
                  simp only [R.ok.injEq] at h; subst h
                  exact ⟨c :: r, T, last, loc, parent, .idx i, rfl, by simp, hT, hl, hw, hg, Or.inl ⟨i, rfl, rfl⟩⟩
                | key k =>
                  simp only [R.ok.injEq] at h; subst h
                  exact ⟨c :: r, T, last, loc, parent, .key k, rfl, by simp, hT, hl, hw, hg, Or.inr ⟨k, rfl, rfl⟩⟩

theorem getInternal_nofault (doc : JVal) (path : Option Bytes) (w : String) : getInternal doc path ≠ .fault w := by
  unfold getInternal
  cases path with
  | none => simp
  | some p =>
    simp only
    cases hn : isNull doc with
    | true => simp
    | false =>
      simp only [Bool.false_eq_true, if_false]
      cases p with
      | nil => simp
      | cons c r =>
        simp only
        cases hT : rawTokens (c :: r) with
        | none => simp
        | some T =>
          simp only
          obtain ⟨_, _, hne⟩ := rawTokens_cons c r T hT
          obtain ⟨last, hl⟩ := getLast?_of_ne_nil T hne
          rw [hl]
          simp only
          cases hw : walk doc T.dropLast with
          | error e => simp
          | ok lp =>
            obtain ⟨loc, parent⟩ := lp
            simp only
            cases hg : getSingle parent last with
            | error e => simp
            | ok cs =>
              obtain ⟨c0, s⟩ := cs
              cases s <;> simp

/-! ### totality -/

theorem setSingle_nofault (tok : Bytes) (v : JVal) (mode : SetMode) (parent : JVal) (w : String) :
    setSingle tok v mode parent ≠ .fault w := by
  unfold setSingle
  cases parent with
  | arr xs =>
    simp only
    split
    · simp
    · split
      · simp
      · split <;> simp
  | obj kvs => simp
  | null => simp
  | bool b => simp
  | int s n => simp
  | dbl b t => simp
  | str s => simp

theorem setWithCb_nofault (doc : JVal) (path : Option Bytes) (v : JVal) (mode : SetMode) (w : String) :
    setWithCb doc path v mode ≠ .fault w := by
  unfold setWithCb
  cases path with
  | none => simp
  | some p =>
    cases p with
    | nil => simp
    | cons c r =>
      simp only
      cases hT : rawTokens (c :: r) with
      | none => simp
      | some T =>
        simp only
        obtain ⟨_, _, hne⟩ := rawTokens_cons c r T hT
        obtain ⟨last, hl⟩ := getLast?_of_ne_nil T hne
        rw [hl]
        simp only
        cases hw : walk doc T.dropLast with
        | error e => simp
        | ok lp =>
          obtain ⟨loc, parent⟩ := lp
          simp only
          exact updateAt_walk_nofault _ doc loc parent hw _ (fun w' => setSingle_nofault last v mode parent w') w

theorem map'_nofault {α β : Type} (x : R α) (f : α → β) (h : ∀ w, x ≠ .fault w) (w : String) : x.map' f ≠ .fault w := by
  cases x with
  | ok a => simp [R.map']
  | err e => simp [R.map']
  | fault w' => exact absurd rfl (h w')

theorem removeAt_nofault (doc : JVal) (path : Option Bytes) (g : GetRes) (h : getInternal doc path = .ok g) (w : String) :
    removeAt doc g ≠ .fault w := by
  obtain ⟨_, hr⟩ := getInternal_ok_raw doc path g h
  rcases hr with ⟨hp, _, _⟩ | ⟨ps, T, last, loc, parent, s, _, _, _, _, hw, hg, hs⟩
  · simp [removeAt, hp]
  · rcases getSingle_step parent g.obj last s hg with ⟨xs, i, rfl, rfl, _⟩ | ⟨kvs, k, rfl, rfl, _⟩
    · rcases hs with ⟨i', hi, hpl⟩ | ⟨k, hk, _⟩
      · simp only [removeAt, hpl]
        apply map'_nofault
        apply updateAt_walk_nofault _ doc loc _ hw
        intro w'
        simp only [delIdxFn]
        split <;> simp
      · cases hk
    · rcases hs with ⟨i', hi, _⟩ | ⟨k', hk, hpl⟩
      · cases hi
      · simp only [removeAt, hpl]
        apply map'_nofault
        apply updateAt_walk_nofault _ doc loc _ hw
        intro w'
        simp [delKeyFn]

theorem opTest_total (eq : JVal → JVal → Bool) (doc elem : JVal) (path : Option Bytes) :
    ∃ o, opTest eq doc elem path = .ok o := by
  unfold opTest
  split
  · exact ⟨_, rfl⟩
  · split
    · rename_i w hw; exact absurd hw (getInternal_nofault doc path w)
    · exact ⟨_, rfl⟩
    · simp only [OpRes.done, OpRes.fail]; split <;> exact ⟨_, rfl⟩

theorem opRemove_total (doc : JVal) (path : Option Bytes) : ∃ o, opRemove doc path = .ok o := by
  unfold opRemove
  split
  · rename_i w hw; exact absurd hw (getInternal_nofault doc path w)
  · exact ⟨_, rfl⟩
  · rename_i g hg
    split
    · rename_i w hw; exact absurd hw (removeAt_nofault doc path g hg w)
    · exact ⟨_, rfl⟩
    · split <;> exact ⟨_, rfl⟩

theorem opAddReplace_total (doc elem : JVal) (path : Option Bytes) (add : Bool) :
    ∃ o, opAddReplace doc elem path add = .ok o := by
  unfold opAddReplace
  split
  · exact ⟨_, rfl⟩
  · simp only
    split
    · rename_i w hw
      exfalso
      cases add with
      | true => simp at hw
      | false =>
        simp only [Bool.false_eq_true, if_false] at hw
        exact map'_nofault _ _ (getInternal_nofault doc path) w hw
    · exact ⟨_, rfl⟩
    · split
      · rename_i w hw; exact absurd hw (setWithCb_nofault doc path _ _ w)
      · exact ⟨_, rfl⟩
      · exact ⟨_, rfl⟩

theorem opMoveCopy_total (ser : JVal → Bytes) (doc elem : JVal) (path : Option Bytes) (move : Bool) :
    ∃ o, opMoveCopy ser doc elem path move = .ok o := by
  unfold opMoveCopy
  split
  · exact ⟨_, rfl⟩
  · split
    · exact ⟨_, rfl⟩
    · rename_i fromS _
      split
      · exact ⟨_, rfl⟩
      · rename_i p
        simp only
        split
        · split
          · rename_i w hw; exact absurd hw (getInternal_nofault doc _ w)
          · exact ⟨_, rfl⟩
          · exact ⟨_, rfl⟩
        · split
          · exact ⟨_, rfl⟩
          · split
            · rename_i w hw; exact absurd hw (getInternal_nofault doc _ w)
            · exact ⟨_, rfl⟩
            · rename_i g hg
              split
              · split
                · rename_i w hw; exact absurd hw (setWithCb_nofault doc _ _ _ w)
                · exact ⟨_, rfl⟩
                · exact ⟨_, rfl⟩
              · split
                · rename_i w hw; exact absurd hw (removeAt_nofault doc _ g hg w)
                · exact ⟨_, rfl⟩
                · split
                  · rename_i w hw; exact absurd hw (setWithCb_nofault _ _ _ _ w)
                  · exact ⟨_, rfl⟩
                  · exact ⟨_, rfl⟩

theorem step_total (ser : JVal → Bytes) (eq : JVal → JVal → Bool) (doc elem : JVal) :
    ∃ o, step ser eq doc elem = .ok o := by
  unfold step
  split
  · exact ⟨_, rfl⟩
  · split
    · exact ⟨_, rfl⟩
    · split
      · exact ⟨_, rfl⟩
      · rename_i op _ jpath _
        simp only
        have key : ∀ r : Outcome OpRes, (∃ o1, r = .ok o1) → ∀ tags : List String,
            ∃ o2 : OpRes, (match r with
              | .fault w => (Outcome.fault w : Outcome OpRes)
              | .ok o3 => Outcome.ok { o3 with tags := tags ++ o3.tags }) = .ok o2 := by
          intro r ⟨o1, ho⟩ tags; subst ho; exact ⟨_, rfl⟩
        apply key
        split
        · exact opTest_total _ _ _ _
        · split
          · exact opRemove_total _ _
          · split
            · exact opAddReplace_total _ _ _ _
            · split
              · exact opAddReplace_total _ _ _ _
              · split
                · exact opMoveCopy_total _ _ _ _ _
                · split
                  · exact opMoveCopy_total _ _ _ _ _
                  · exact ⟨_, rfl⟩

theorem applyLoop_total (ser : JVal → Bytes) (eq : JVal → JVal → Bool) (patch : JVal) (elems : List JVal) :
    ∀ (i : Nat) (last : Option Nat) (doc : JVal) (tags : List String),
      ∃ r, applyLoop ser eq patch i last doc tags elems = .ok r := by
  induction elems with
  | nil => intro i last doc tags; exact ⟨_, rfl⟩
  | cons e es ih =>
    intro i last doc tags
    obtain ⟨o, ho⟩ := step_total ser eq doc e
    simp only [applyLoop, ho]
    split
    · exact ⟨_, rfl⟩
    · exact ih _ _ _ _

theorem applyC_total (ser : JVal → Bytes) (eq : JVal → JVal → Bool) (copyFrom base patch : JVal) :
    ∃ r, applyC ser eq copyFrom base patch = .ok r := by
  unfold applyC
  split
  · exact ⟨_, rfl⟩
  · split
    · exact applyLoop_total _ _ _ _ _ _ _ _
    · exact ⟨_, rfl⟩

end JsonC.Patch
