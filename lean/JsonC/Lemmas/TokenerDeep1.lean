/-
  The nesting limit, reject half (C15): facts about `firstDeep`, the failing push, the epilogue on
  a nesting error.
-/
import JsonC.Lemmas.TokenerDoc10
namespace JsonC.Tokener
open JsonC Rfc8259

theorem ws_len (w : Ws) : w.text.length = w.length := by simp [Ws.text]

/-! ### `firstDeep = none` means the document fits -/

theorem elems_fit_of_none (limit depth : Nat) (es : List (Ws × Doc × Ws))
    (ih : ∀ e ∈ es, ∀ off, Doc.firstDeep limit depth e.2.1 off = none → depth + e.2.1.nest < limit) :
    ∀ off, elemsFirstDeep limit depth es off = none → es = [] ∨ depth + elemsNest es ≤ limit := by
  induction es with
  | nil => intro _ _; exact Or.inl rfl
  | cons e r ihr =>
    obtain ⟨w1, d, w2⟩ := e
    intro off h
    right
    simp only [elemsFirstDeep] at h
    cases hd : Doc.firstDeep limit depth d (off + w1.length) with
    | some o => rw [hd] at h; cases h
    | none =>
      rw [hd] at h
      simp only at h
      have h1 := ih (w1, d, w2) (by simp) _ hd
      have h2 := ihr (fun e he => ih e (by simp [he])) _ h
      simp only [elemsNest]
      rcases h2 with h2 | h2
      · subst h2; simp only [elemsNest]; simp only at h1; omega
      · simp only at h1; omega

theorem members_fit_of_none (limit depth : Nat) (ms : List (Ws × List StrItem × Ws × Ws × Doc × Ws))
    (ih : ∀ m ∈ ms, ∀ off, Doc.firstDeep limit depth m.2.2.2.2.1 off = none → depth + m.2.2.2.2.1.nest < limit) :
    ∀ off, membersFirstDeep limit depth ms off = none → ms = [] ∨ depth + membersNest ms ≤ limit := by
  induction ms with
  | nil => intro _ _; exact Or.inl rfl
  | cons m r ihr =>
    obtain ⟨w1, k, w2, w3, d, w4⟩ := m
    intro off h
    right
    simp only [membersFirstDeep] at h
    cases hd : Doc.firstDeep limit depth d (off + w1.length + (strText k).length + w2.length + 1 + w3.length) with
    | some o => rw [hd] at h; cases h
    | none =>
      rw [hd] at h
      simp only at h
      have h1 := ih (w1, k, w2, w3, d, w4) (by simp) _ hd
      have h2 := ihr (fun e he => ih e (by simp [he])) _ h
      simp only [membersNest]
      rcases h2 with h2 | h2
      · subst h2; simp only [membersNest]; simp only at h1; omega
      · simp only at h1; omega

/-- no value of `d` is enclosed by `limit` containers: `d` (itself enclosed by `depth`) fits -/
theorem fits_of_firstDeep_none (limit : Nat) : ∀ (d : Doc) (depth off : Nat),
    Doc.firstDeep limit depth d off = none → depth + d.nest < limit := by
  intro d
  induction d using doc_induct with
  | hnull => intro depth off h; simp only [Doc.firstDeep] at h; split at h; cases h; simp only [Doc.nest]; omega
  | htrue => intro depth off h; simp only [Doc.firstDeep] at h; split at h; cases h; simp only [Doc.nest]; omega
  | hfalse => intro depth off h; simp only [Doc.firstDeep] at h; split at h; cases h; simp only [Doc.nest]; omega
  | hnum n => intro depth off h; simp only [Doc.firstDeep] at h; split at h; cases h; simp only [Doc.nest]; omega
  | hstr n => intro depth off h; simp only [Doc.firstDeep] at h; split at h; cases h; simp only [Doc.nest]; omega
  | harr w es ih =>
    intro depth off h
    simp only [Doc.firstDeep] at h
    split at h
    · cases h
    · rename_i hlt
      have := elems_fit_of_none limit (depth + 1) es (fun e he off h => ih e he (depth + 1) off h) _ h
      simp only [Doc.nest]
      rcases this with h0 | h0
      · subst h0; simp only [elemsNest]; omega
      · omega
  | hobj w ms ih =>
    intro depth off h
    simp only [Doc.firstDeep] at h
    split at h
    · cases h
    · rename_i hlt
      have := members_fit_of_none limit (depth + 1) ms (fun e he off h => ih e he (depth + 1) off h) _ h
      simp only [Doc.nest]
      rcases this with h0 | h0
      · subst h0; simp only [membersNest]; omega
      · omega

end JsonC.Tokener
