/-
  Helper lemmas for C05: object / array mutators and constructors keep the invariant.
-/
import JsonC.Lemmas.HeapOps

namespace JsonC.Heap
open JsonC Generated

/-- outcome shape shared by every call: misuse, or success with the uniform guarantees -/
def Good (s : State) (tgt : Option Id) (x : Step (State × Res)) : Prop :=
  (∃ why, x = .misuse why) ∨ ∃ s' r, x = .ok (s', r) ∧ StepOk s tgt s' r

theorem Good.of_commit {s : State} {p : Id} {x : Step (State × Res)}
    (h : ∃ s' r, x = .ok (s', r) ∧ StepOk s (some p) s' r ∧ r.ret = 0 ∧
      s'.ext = extGive s.ext given ∧ s'.next = s.next ∧ Sub h0 s'.heap ∧ r.cbs = cbsOf s.heap r.dead) :
    Good s (some p) x := by
  obtain ⟨s', r, hx, hok, _⟩ := h
  exact Or.inr ⟨s', r, hx, hok⟩

theorem objAdd_spec (s : State) (hs : Inv s) (p : Id) (key : Key) (v : Option Id) (isNew : Bool) :
    Good s (some p) (objAdd s p key v isNew) := by
  unfold objAdd
  cases hg : s.heap.get? p with
  | none => exact Or.inl ⟨_, rfl⟩
  | some n =>
    simp only
    cases hb : n.body with
    | scalar k => exact Or.inl ⟨_, rfl⟩
    | arr xs => exact Or.inl ⟨_, rfl⟩
    | obj kvs =>
      simp only
      by_cases hvp : v = some p
      · rw [if_pos hvp]
        exact Or.inr ⟨s, _, rfl, StepOk.noop s hs _ _⟩
      · rw [if_neg hvp]
        cases hck : checkVal s p v with
        | some why => exact Or.inl ⟨_, rfl⟩
        | none =>
          simp only
          have hgive := checkVal_none s p v hck
          cases hf : findKey kvs key with
          | none =>
            simp only
            apply Good.of_commit
            apply commit_spec s hs p n hg _ v [] hgive
            intro x
            rw [hb, children_obj_append, List.count_append]
            simp
          | some old =>
            simp only
            cases isNew with
            | true => exact Or.inl ⟨_, rfl⟩
            | false =>
              simp only [Bool.false_eq_true, if_false]
              apply Good.of_commit
              apply commit_spec s hs p n hg _ v old.toList hgive
              intro x
              rw [hb]
              exact count_children_setKey kvs key v old hf x

theorem objDel_spec (s : State) (hs : Inv s) (p : Id) (key : Key) :
    Good s (some p) (objDel s p key) := by
  unfold objDel
  cases hg : s.heap.get? p with
  | none => exact Or.inl ⟨_, rfl⟩
  | some n =>
    simp only
    cases hb : n.body with
    | scalar k => exact Or.inl ⟨_, rfl⟩
    | arr xs => exact Or.inl ⟨_, rfl⟩
    | obj kvs =>
      simp only
      cases hf : findKey kvs key with
      | none => exact Or.inr ⟨s, _, rfl, StepOk.noop s hs _ _⟩
      | some old =>
        simp only
        apply Good.of_commit (given := none)
        apply commit_spec s hs p n hg _ none old.toList (fun j hj => by cases hj)
        intro x
        rw [hb]
        simpa using count_children_eraseKey kvs key old hf x

theorem arrPutCore_spec (s : State) (hs : Inv s) (p : Id) (n : Node) (hg : s.heap.get? p = some n)
    (xs : List (Option Id)) (hb : n.body = .arr xs) (idx : Nat) (v : Option Id)
    (hgive : ∀ j, v = some j → 0 < s.ext j ∧ ¬ Reach s.heap j p) :
    Good s (some p) (arrPutCore s p n xs idx v) := by
  unfold arrPutCore
  by_cases hr : idxRefused idx = true
  · rw [if_pos hr]
    exact Or.inr ⟨s, _, rfl, StepOk.noop s hs _ _⟩
  · rw [if_neg hr]
    by_cases hi : idx < xs.length
    · rw [if_pos hi]
      apply Good.of_commit
      apply commit_spec s hs p n hg _ v _ hgive
      intro x
      rw [hb]
      exact count_children_arr_set xs idx v hi x
    · rw [if_neg hi]
      apply Good.of_commit
      apply commit_spec s hs p n hg _ v [] hgive
      intro x
      rw [hb, children_arr_pad, List.count_append]
      simp

theorem arrStore_spec (s : State) (hs : Inv s) (p : Id) (op : ArrOp) (v : Option Id) :
    Good s (some p) (arrStore s p op v) := by
  unfold arrStore
  cases hg : s.heap.get? p with
  | none => exact Or.inl ⟨_, rfl⟩
  | some n =>
    simp only
    cases hb : n.body with
    | scalar k => exact Or.inl ⟨_, rfl⟩
    | obj kvs => exact Or.inl ⟨_, rfl⟩
    | arr xs =>
      simp only
      cases hck : checkVal s p v with
      | some why => exact Or.inl ⟨_, rfl⟩
      | none =>
        simp only
        have hgive := checkVal_none s p v hck
        cases op with
        | add =>
          simp only
          apply Good.of_commit
          apply commit_spec s hs p n hg _ v [] hgive
          intro x
          rw [hb, children_arr_append, List.count_append]
          simp
        | put idx => exact arrPutCore_spec s hs p n hg xs hb idx v hgive
        | ins idx =>
          simp only
          by_cases hi : idx ≥ xs.length
          · rw [if_pos hi]
            exact arrPutCore_spec s hs p n hg xs hb idx v hgive
          · rw [if_neg hi]
            apply Good.of_commit
            apply commit_spec s hs p n hg _ v [] hgive
            intro x
            rw [hb]
            simpa using count_children_arr_insert xs idx v x

theorem arrDel_spec (s : State) (hs : Inv s) (p : Id) (idx cnt : Nat) :
    Good s (some p) (arrDel s p idx cnt) := by
  unfold arrDel
  cases hg : s.heap.get? p with
  | none => exact Or.inl ⟨_, rfl⟩
  | some n =>
    simp only
    cases hb : n.body with
    | scalar k => exact Or.inl ⟨_, rfl⟩
    | obj kvs => exact Or.inl ⟨_, rfl⟩
    | arr xs =>
      simp only
      by_cases h1 : idx > SIZE_T_MAX - cnt
      · rw [if_pos h1]
        exact Or.inr ⟨s, _, rfl, StepOk.noop s hs _ _⟩
      · rw [if_neg h1]
        by_cases h2 : idx ≥ xs.length ∨ idx + cnt > xs.length
        · rw [if_pos h2]
          exact Or.inr ⟨s, _, rfl, StepOk.noop s hs _ _⟩
        · rw [if_neg h2]
          apply Good.of_commit (given := none)
          apply commit_spec s hs p n hg _ none _ (fun j hj => by cases hj)
          intro x
          rw [hb]
          simpa using count_children_arr_del xs idx cnt x

end JsonC.Heap
