/-
  Helper lemmas for the interleaving model (Model/Threads.lean): finite sums over thread ids,
  how `finishOp` / `setPc` change the observables, unfolding of `step` under the atomic semantics.
-/
import JsonC.Model.Threads

namespace JsonC.Threads
open JsonC Generated

/-! ### sums over thread ids -/

theorem sumTo_congr {N : Nat} {f g : Nat → Nat} (h : ∀ s, s < N → f s = g s) : sumTo N f = sumTo N g := by
  induction N with
  | zero => rfl
  | succ k ih =>
    simp only [sumTo]
    rw [ih (fun s hs => h s (by omega)), h k (by omega)]

theorem sumTo_update {N t : Nat} {f g : Nat → Nat} (ht : t < N) (h : ∀ s, s < N → s ≠ t → g s = f s) :
    sumTo N g + f t = sumTo N f + g t := by
  induction N with
  | zero => omega
  | succ k ih =>
    simp only [sumTo]
    by_cases hk : t = k
    · subst hk
      have h1 := sumTo_congr (N := t) (f := g) (g := f) (fun s hs => h s (by omega) (by omega))
      omega
    · have h1 := ih (by omega) (fun s hs hne => h s (by omega) hne)
      have h2 := h k (by omega) (fun e => hk e.symm)
      omega

theorem le_sumTo {N t : Nat} (f : Nat → Nat) (ht : t < N) : f t ≤ sumTo N f := by
  induction N with
  | zero => omega
  | succ k ih =>
    simp only [sumTo]
    by_cases hk : t = k
    · subst hk; omega
    · have := ih (by omega); omega

theorem sumTo_add (N : Nat) (f g : Nat → Nat) : sumTo N (fun s => f s + g s) = sumTo N f + sumTo N g := by
  induction N with
  | zero => rfl
  | succ k ih => simp only [sumTo]; omega

theorem sumTo_eq_zero {N : Nat} {f : Nat → Nat} (h : ∀ s, s < N → f s = 0) : sumTo N f = 0 := by
  induction N with
  | zero => rfl
  | succ k ih => simp only [sumTo]; rw [ih (fun s hs => h s (by omega)), h k (by omega)]

/-! ### counting -/

@[simp] theorem getsIn_nil (n : Nat) : getsIn [] n = 0 := rfl
@[simp] theorem putsIn_nil (n : Nat) : putsIn [] n = 0 := rfl

theorem getsIn_cons (o : Op) (p : List Op) (n : Nat) :
    getsIn (o :: p) n = getsIn p n + (if o = .get n then 1 else 0) := by
  simp [getsIn, List.countP_cons]

theorem putsIn_cons (o : Op) (p : List Op) (n : Nat) :
    putsIn (o :: p) n = putsIn p n + (if o = .put n then 1 else 0) := by
  simp [putsIn, List.countP_cons]

theorem getsOn_cons (e : Ev) (tr : List Ev) (n : Nat) :
    getsOn (e :: tr) n = getsOn tr n + (if e.op = .get n then 1 else 0) := by
  simp [getsOn, List.countP_cons]

theorem putsOn_cons (e : Ev) (tr : List Ev) (n : Nat) :
    putsOn (e :: tr) n = putsOn tr n + (if e.op = .put n then 1 else 0) := by
  simp [putsOn, List.countP_cons]

theorem zeroPutsOn_cons (e : Ev) (tr : List Ev) (n : Nat) :
    zeroPutsOn (e :: tr) n = zeroPutsOn tr n + (if e.op = .put n ∧ e.new = 0 then 1 else 0) := by
  simp [zeroPutsOn, List.countP_cons]

/-! ### observables after `setPc` / `finishOp` -/

section obs
variable {c : Cfg} {t : Nat} {th : Thread}

theorem progAt_of (h : c.threads[t]? = some th) : progAt c t = th.prog := by
  simp [progAt, h]

theorem lt_threads (h : c.threads[t]? = some th) : t < c.threads.length := by
  cases hl : decide (t < c.threads.length) with
  | true => exact of_decide_eq_true hl
  | false =>
    have : ¬ t < c.threads.length := of_decide_eq_false hl
    rw [List.getElem?_eq_none (by omega)] at h
    cases h

theorem progAt_setPc (h : c.threads[t]? = some th) (pc : Pc) (s : Nat) :
    progAt (setPc c t th.prog pc) s = progAt c s := by
  have hl := lt_threads h
  unfold progAt setPc
  by_cases hs : t = s
  · subst hs
    obtain ⟨_, he⟩ := List.getElem?_eq_some_iff.mp h
    simp [hl, he]
  · simp [hs]

theorem cntAt_setPc (p : List Op) (pc : Pc) (n : Nat) : cntAt (setPc c t p pc) n = cntAt c n := rfl
theorem destroyedAt_setPc (p : List Op) (pc : Pc) (n : Nat) : destroyedAt (setPc c t p pc) n = destroyedAt c n := rfl

theorem progAt_finishOp (h : c.threads[t]? = some th) (rest : List Op) (op : Op) (nd : Node) (old s : Nat) :
    progAt (finishOp c t rest op nd old) s = if s = t then rest else progAt c s := by
  have hl := lt_threads h
  unfold progAt finishOp
  by_cases hs : t = s
  · subst hs; simp [hl]
  · have hs' : ¬ s = t := fun e => hs e.symm
    simp [hs, hs']

theorem lt_nodes {n : Nat} {nd : Node} (h : c.nodes[n]? = some nd) : n < c.nodes.length := by
  cases hl : decide (n < c.nodes.length) with
  | true => exact of_decide_eq_true hl
  | false =>
    have : ¬ n < c.nodes.length := of_decide_eq_false hl
    rw [List.getElem?_eq_none (by omega)] at h
    cases h

theorem cntAt_finishOp {op : Op} {nd : Node} (h : c.nodes[op.node]? = some nd) (rest : List Op) (old m : Nat) :
    cntAt (finishOp c t rest op nd old) m =
      if m = op.node then (nodeAfter op nd (newVal op old nd.cnt)).cnt else cntAt c m := by
  have hl := lt_nodes h
  unfold cntAt finishOp
  by_cases hm : op.node = m
  · subst hm; simp [hl]
  · have hm' : ¬ m = op.node := fun e => hm e.symm
    simp [hm, hm']

theorem destroyedAt_finishOp {op : Op} {nd : Node} (h : c.nodes[op.node]? = some nd) (rest : List Op) (old m : Nat) :
    destroyedAt (finishOp c t rest op nd old) m =
      if m = op.node then (nodeAfter op nd (newVal op old nd.cnt)).destroyed else destroyedAt c m := by
  have hl := lt_nodes h
  unfold destroyedAt finishOp
  by_cases hm : op.node = m
  · subst hm; simp [hl]
  · have hm' : ¬ m = op.node := fun e => hm e.symm
    simp [hm, hm']

theorem cntAt_of {n : Nat} {nd : Node} (h : c.nodes[n]? = some nd) : cntAt c n = nd.cnt := by simp [cntAt, h]
theorem destroyedAt_of {n : Nat} {nd : Node} (h : c.nodes[n]? = some nd) : destroyedAt c n = nd.destroyed := by
  simp [destroyedAt, h]

end obs

/-! ### `step` unfolded -/

theorem step_fault {sem : Sem} {c : Cfg} {w : String} (h : c.fault = some w) (t : Nat) : step sem c t = c := by
  simp [step, h]

theorem step_nothread {sem : Sem} {c : Cfg} {t : Nat} (h : c.threads[t]? = none) : step sem c t = c := by
  unfold step; cases c.fault <;> simp [h]

theorem step_done {sem : Sem} {c : Cfg} {t : Nat} {th : Thread} (h : c.threads[t]? = some th) (hp : th.prog = []) :
    step sem c t = c := by
  unfold step; cases c.fault <;> simp [h, hp]

theorem step_live {sem : Sem} {c : Cfg} {t : Nat} {th : Thread} {op : Op} {rest : List Op} {nd : Node}
    (hf : c.fault = none) (h : c.threads[t]? = some th) (hp : th.prog = op :: rest)
    (hn : c.nodes[op.node]? = some nd) (hd : nd.destroyed = 0) :
    step sem c t = stepOp sem c t th.pc op rest nd := by
  unfold step; simp [hf, h, hp, hn, hd]

end JsonC.Threads
