/-
  The tokener's UTF-8 validator: Model/Tokener.lean's `validateUtf8` computes what `json_tokener_validate_utf8`
  (json_tokener.c), as translated from the current C source, computes - for every byte (as the signed `char` parameter it
  arrives in) and every pending count: same verdict, same new count.  The bit tests `(chr & 0xe0) == 0xc0` ... are
  compared with the model's for all 256 bytes by kernel evaluation (`decide +kernel`: no axiom).
-/
import JsonC.Model.Tokener
import JsonC.Lemmas.TranslatedPb
namespace JsonC.TranslatedTok
open JsonC JsonC.Generated JsonC.CSem JsonC.TranslatedPb

/-- `char` is signed: the value of the parameter `c` for the byte `b` -/
def scharOf (b : UInt8) : Int := if b.toNat < 128 then (b.toNat : Int) else (b.toNat : Int) - 256

/-- the first byte of a sequence (no continuation byte pending): all 256 bytes, checked one by one by the kernel -/
theorem validate_first (b : UInt8) (p : Int) :
    Translated.json_tokener_validate_utf8 (scharOf b) p 0 =
      .ok { ret := if (Tokener.validateUtf8 b 0).isSome then 1 else 0,
            deref_nBytes := ((Tokener.validateUtf8 b 0).getD 0 : Nat), calls := [] } := by
  have all : ∀ n : Nat, n < 256 → Translated.json_tokener_validate_utf8 (scharOf (UInt8.ofNat n)) 0 0 =
      .ok { ret := if (Tokener.validateUtf8 (UInt8.ofNat n) 0).isSome then 1 else 0,
            deref_nBytes := ((Tokener.validateUtf8 (UInt8.ofNat n) 0).getD 0 : Nat), calls := [] } := by decide +kernel
  have h := all b.toNat b.toNat_lt
  rw [show UInt8.ofNat b.toNat = b from by simp] at h
  unfold Translated.json_tokener_validate_utf8 at h ⊢
  exact h

/-- is `b` a continuation byte: the C test `(chr & 0xC0) != 0x80` against the model's, all 256 bytes -/
theorem cont_test (b : UInt8) :
    (CSem.band 32 true (scharOf b % 256) 192 ≠ 128) = ((b &&& 0xC0 != 0x80) = true) := by
  have all : ∀ n : Nat, n < 256 → (CSem.band 32 true (scharOf (UInt8.ofNat n) % 256) 192 ≠ 128) = (((UInt8.ofNat n) &&& 0xC0 != 0x80) = true) := by
    decide +kernel
  have h := all b.toNat b.toNat_lt
  rwa [show UInt8.ofNat b.toNat = b from by simp] at h

/-- a continuation byte is pending (`n` of them, `n` an `unsigned int`) -/
theorem validate_cont (b : UInt8) (p : Int) (n : Nat) (hn0 : n ≠ 0) (hn : (n : Int) < 4294967296) :
    Translated.json_tokener_validate_utf8 (scharOf b) p n =
      .ok { ret := if (Tokener.validateUtf8 b n).isSome then 1 else 0,
            deref_nBytes := ((Tokener.validateUtf8 b n).getD n : Nat), calls := [] } := by
  unfold Translated.json_tokener_validate_utf8 Tokener.validateUtf8
  have hne : ¬ ((n : Int) = 0) := by omega
  have hnb : (n == 0) = false := by simp [hn0]
  rw [if_neg hne]
  simp only [hnb, Bool.false_eq_true, if_false]
  have ht := cont_test b
  by_cases hc : (b &&& 0xC0 != 0x80) = true
  · rw [if_pos (by rw [ht]; exact hc)]
    simp [hc]
  · rw [if_neg (by rw [ht]; exact hc)]
    simp only [hc, if_false]
    have : (((n : Int) + -1) % 4294967296) = ((n - 1 : Nat) : Int) := by omega
    simp [this]

end JsonC.TranslatedTok
