/-
  The invariant of the seed protocol of lh_char_hash (Model/Threads.lean, `sstep`) when the generator
  call is wrapped in the `== -1` retry loop and the value hashed is re-read after the compare-and-swap.
-/
import JsonC.Model.Threads

namespace JsonC.Threads
open JsonC Generated

structure SInv (c : SCfg) : Prop where
  unset : c.seed = -1 → c.hashes = [] ∧ c.writes = []
  set : c.seed ≠ -1 → c.writes = [(-1, c.seed)] ∧ ∀ e, e ∈ c.hashes → e.used = c.seed
  cas : ∀ (t : Nat) (th : SThread) (cand : Int), c.threads[t]? = some th → th.pc = SPc.casAt cand → cand ≠ -1
  hash : ∀ (t : Nat) (th : SThread) (loc : Int), c.threads[t]? = some th → th.pc = SPc.hashAt loc → c.seed ≠ -1

/-- initial state of a process: seed unset, nobody inside lh_char_hash -/
structure SStart (c : SCfg) : Prop where
  seed : c.seed = -1
  hashes : c.hashes = []
  writes : c.writes = []
  idle : ∀ (t : Nat) (th : SThread), c.threads[t]? = some th → th.pc = SPc.idle

theorem sinv_start {c : SCfg} (s : SStart c) : SInv c where
  unset := fun _ => ⟨s.hashes, s.writes⟩
  set := fun h => absurd s.seed h
  cas := fun t th cand h e => by have := s.idle t th h; rw [this] at e; cases e
  hash := fun t th loc h e => by have := s.idle t th h; rw [this] at e; cases e

theorem slt_threads {c : SCfg} {t : Nat} {th : SThread} (h : c.threads[t]? = some th) : t < c.threads.length := by
  cases hl : decide (t < c.threads.length) with
  | true => exact of_decide_eq_true hl
  | false =>
    have : ¬ t < c.threads.length := of_decide_eq_false hl
    rw [List.getElem?_eq_none (by omega)] at h
    cases h

/-- replacing thread `t` and (possibly) the shared fields -/
theorem sinv_update {c : SCfg} (h : SInv c) {t : Nat} {th : SThread} (hth : c.threads[t]? = some th)
    (th' : SThread) (seed' : Int) (hashes' : List HashEv) (writes' : List (Int × Int))
    (hu : seed' = -1 → hashes' = [] ∧ writes' = [])
    (hs : seed' ≠ -1 → writes' = [(-1, seed')] ∧ ∀ e, e ∈ hashes' → e.used = seed')
    (hc : ∀ cand, th'.pc = .casAt cand → cand ≠ -1)
    (hh : ∀ loc, th'.pc = .hashAt loc → seed' ≠ -1)
    (hmono : c.seed ≠ -1 → seed' ≠ -1) :
    SInv { seed := seed', threads := c.threads.set t th', hashes := hashes', writes := writes' } where
  unset := hu
  set := hs
  cas := fun s ths cand hs' e => by
    dsimp only at hs'
    by_cases hst : t = s
    · subst hst
      rw [List.getElem?_set_self (slt_threads hth)] at hs'
      cases hs'; exact hc cand e
    · rw [List.getElem?_set_ne hst] at hs'
      exact h.cas s ths cand hs' e
  hash := fun s ths loc hs' e => by
    dsimp only at hs' ⊢
    by_cases hst : t = s
    · subst hst
      rw [List.getElem?_set_self (slt_threads hth)] at hs'
      cases hs'; exact hh loc e
    · rw [List.getElem?_set_ne hst] at hs'
      exact hmono (h.hash s ths loc hs' e)

theorem sinv_step {c : SCfg} (h : SInv c) (t : Nat) : SInv (sstep true true c t) := by
  unfold sstep
  cases hth : c.threads[t]? with
  | none => exact h
  | some th =>
    dsimp only
    cases hpc : th.pc with
    | idle =>
      dsimp only
      split
      · exact h
      · exact sinv_update h hth _ c.seed c.hashes c.writes h.unset h.set (fun _ e => by cases e) (fun _ e => by cases e) id
    | test =>
      dsimp only
      split
      · exact sinv_update h hth _ c.seed c.hashes c.writes h.unset h.set (fun _ e => by cases e) (fun _ e => by cases e) id
      · rename_i hne
        exact sinv_update h hth _ c.seed c.hashes c.writes h.unset h.set (fun _ e => by cases e) (fun _ _ => hne) id
    | gen =>
      dsimp only
      cases hcs : th.cands with
      | nil => exact h
      | cons x xs =>
        dsimp only
        split
        · exact sinv_update h hth _ c.seed c.hashes c.writes h.unset h.set
            (fun _ e => by dsimp only at e; first | cases e | (rw [hpc] at e; cases e))
            (fun _ e => by dsimp only at e; first | cases e | (rw [hpc] at e; cases e)) id
        · rename_i hx
          refine sinv_update h hth _ c.seed c.hashes c.writes h.unset h.set ?_ (fun _ e => by cases e) id
          intro cand e
          cases e
          intro hxe
          exact hx ⟨rfl, hxe⟩
    | casAt cand =>
      dsimp only
      have hcand : cand ≠ -1 := h.cas t th cand hth hpc
      split
      · rename_i hseed
        obtain ⟨hh0, hw0⟩ := h.unset hseed
        refine sinv_update h hth _ cand c.hashes ((-1, cand) :: c.writes) (fun e => absurd e hcand) ?_
          (fun _ e => by cases e) (fun _ _ => hcand) (fun _ => hcand)
        intro _
        rw [hh0, hw0]
        exact ⟨rfl, fun e he => by cases he⟩
      · exact sinv_update h hth _ c.seed c.hashes c.writes h.unset h.set (fun _ e => by cases e)
          (fun _ _ => by assumption) id
    | hashAt loc =>
      dsimp only
      have hseed : c.seed ≠ -1 := h.hash t th loc hth hpc
      obtain ⟨hw, hhs⟩ := h.set hseed
      refine sinv_update h hth _ c.seed (⟨t, c.seed⟩ :: c.hashes) c.writes (fun e => absurd e hseed) ?_
        (fun _ e => by cases e) (fun _ e => by cases e) id
      intro _
      refine ⟨hw, ?_⟩
      intro e he
      cases he with
      | head => rfl
      | tail _ he' => exact hhs e he'

theorem sinv_run {c : SCfg} (h : SInv c) (sched : List Nat) : SInv (srun true true c sched) := by
  induction sched generalizing c with
  | nil => exact h
  | cons t ts ih => exact ih (sinv_step h t)

/-- the seed is only ever written while it is unset (holds for every variant of the protocol) -/
theorem sstep_seed_fixed (loop reread : Bool) {c : SCfg} (h : c.seed ≠ -1) (t : Nat) :
    (sstep loop reread c t).seed = c.seed := by
  unfold sstep
  cases c.threads[t]? with
  | none => rfl
  | some th =>
    dsimp only
    cases th.pc with
    | idle => dsimp only; split <;> rfl
    | test => dsimp only; split <;> rfl
    | gen =>
      dsimp only
      cases th.cands with
      | nil => rfl
      | cons x xs => dsimp only; split <;> rfl
    | casAt cand => dsimp only; rw [if_neg h]; rfl
    | hashAt loc => rfl

theorem srun_seed_fixed (loop reread : Bool) {c : SCfg} (h : c.seed ≠ -1) (sched : List Nat) :
    (srun loop reread c sched).seed = c.seed := by
  induction sched generalizing c with
  | nil => rfl
  | cons t ts ih =>
    have h1 := sstep_seed_fixed loop reread h t
    show (srun loop reread (sstep loop reread c t) ts).seed = c.seed
    rw [ih (by rw [h1]; exact h), h1]

theorem srun_append (loop reread : Bool) (c : SCfg) (s1 s2 : List Nat) :
    srun loop reread c (s1 ++ s2) = srun loop reread (srun loop reread c s1) s2 := by
  simp [srun, List.foldl_append]

/-- when the extracted facts select the retry-loop + re-read protocol (`seed_protocol` in Props/C18.lean),
`seedRun` is `srun true true` -/
theorem seedRun_eq (h : seedStep = sstep true true) (c : SCfg) (s : List Nat) :
    seedRun c s = srun true true c s := by
  unfold seedRun srun; rw [h]

end JsonC.Threads
