/-
  The hand-written model of printbuf.c (Model/Printbuf.lean) computes what the definitions translated from the
  current C source (Generated/Translated.lean, tools/extract/c2lean.py) compute: same return value, same `size` /
  `bpos` fields, same errno class, and the memory effects the model describes are exactly the calls / stores the
  C function performs (realloc with the new size, memcpy / memset at `buf + offset`, the terminating NUL store).

  Reading the statements: the translated definition takes, after the C parameters and the memory cells it reads, one
  parameter per answer of the outside world (see the doc comment generated above each definition).  The theorems
  instantiate the answers of `printbuf_extend` inside `printbuf_memappend` / `printbuf_memset` with what the model's
  `extend` yields - which `extend_agrees` ties to the translated `printbuf_extend` itself.
-/
import JsonC.Model.Printbuf
import JsonC.Generated.Translated

namespace JsonC.TranslatedPb
open JsonC JsonC.Printbuf JsonC.Generated JsonC.CSem

/-- errno as the C code leaves it: the model's class against the translated cell -/
def errnoAgrees (e0 : Int) (cls : Errno) (e : Int) : Prop :=
  match cls with
  | .none => e = e0
  | .EFBIG => e = (eFBIG : Int)
  | _ => False

/-- the value of errno a callee leaves behind when the model says it reported `cls` -/
def errnoAfter (e0 : Int) : Errno → Int
  | .EFBIG => (eFBIG : Int)
  | _ => e0

/-- decides the conditions of an if-tree from the outside in, by linear arithmetic over the hypotheses -/
macro "resolve_ifs" : tactic => `(tactic| repeat (first | rw [if_pos (by first | trivial | omega)] | rw [if_neg (by first | exact id | omega)]))

theorem int_max_val : INT_MAX = 2147483647 := by decide

theorem ckInt_bind {β : Type} (x : Int) (s : String) (f : Int → Outcome β) :
    (ckInt x s >>= f) = if -2147483647 - 1 ≤ x ∧ x ≤ 2147483647 then f x else .fault ("int overflow: " ++ s) := by
  unfold ckInt; rw [int_max_val]; split <;> rfl

theorem ckS32_bind {β : Type} (x : Int) (s : String) (f : Int → Outcome β) :
    (ckS 32 x s >>= f) = if -2147483648 ≤ x ∧ x ≤ 2147483647 then f x else .fault ("signed overflow: " ++ s) := by
  unfold ckS; split <;> rename_i h <;> simp at h <;> split <;> first | rfl | omega

/-- `printbuf_extend`: whenever the model says the call is defined, the translated C function (with `realloc`
answering non-NULL and leaving errno alone, the case the model describes) returns the same value, leaves the same
`size`, the same errno, and its only effect is `realloc(p->buf, new size)` exactly when the model replaces the
allocation. -/
theorem extend_agrees (p : Pb) (minSize : Int) (pp errno0 buf t0 ns0 c : Int) (hc : c ≠ 0)
    (hsz : (p.size : Int) ≤ INT_MAX) (hmin : -INT_MAX - 1 ≤ minSize ∧ minSize ≤ INT_MAX)
    (r : Res) (h : extend p minSize = .ok r) :
    ∃ out, Translated.printbuf_extend pp minSize p.size errno0 buf t0 ns0 errno0 c = .ok out ∧
      out.ret = r.ret ∧ out.p_size = r.pb.size ∧ errnoAgrees errno0 r.errno out.errno ∧ r.pb.bpos = p.bpos ∧
      ((out.calls = [] ∧ out.p_buf = buf ∧ r.pb.size = p.size) ∨
       (out.calls = [("realloc", [buf, (r.pb.size : Int)])] ∧ out.p_buf = c ∧ r.ret = 0 ∧ p.size < r.pb.size)) := by
  have hI := int_max_val
  unfold extend at h
  unfold Translated.printbuf_extend Translated.printbuf_extend.j1
  simp only [pbExtendGuard, pbExtendSlack, hI, ckInt_bind, ckS32_bind, Outcome.pure_eq, Outcome.bind_ok, wrapU] at h hmin hsz ⊢
  repeat' split at h
  all_goals cases h
  all_goals repeat' split
  all_goals first
    | omega
    | (refine ⟨_, rfl, ?_⟩; simp [errnoAgrees, eFBIG] <;> omega)

/-- `printbuf_extend` when `realloc` answers NULL (the model of C19 does not describe this case; C08's does): -1,
nothing changed. -/
theorem extend_refused (p_size minSize pp errno0 buf t0 ns0 e1 : Int)
    (out : Translated.printbuf_extend.Out)
    (h : Translated.printbuf_extend pp minSize p_size errno0 buf t0 ns0 e1 0 = .ok out) :
    out.p_size = p_size ∧ out.p_buf = buf ∧ (out.ret = 0 ∨ out.ret = -1) ∧ (out.ret = 0 → out.calls = []) := by
  unfold Translated.printbuf_extend Translated.printbuf_extend.j1 at h
  simp only [ckS32_bind, Outcome.pure_eq] at h
  repeat' split at h
  all_goals (try cases h)
  all_goals first
    | omega
    | simp

/-- what the model's `extend` can answer (the facts about it that `memappend` / `memset` use) -/
theorem extend_shape (p : Pb) (m : Int) (r : Res) (h : extend p m = .ok r) :
    r.pb.bpos = p.bpos ∧
    ((r.ret = 0 ∧ r.errno = .none ∧ p.size ≤ r.pb.size ∧ m ≤ r.pb.size ∧ ((p.size : Int) < m → p.size < r.pb.size)) ∨
     (r.ret = -1 ∧ r.errno = .EFBIG ∧ r.pb = p ∧ (p.size : Int) < m)) := by
  have hI := int_max_val
  unfold extend at h
  simp only [pbExtendGuard, pbExtendSlack, hI, ckInt_bind, Outcome.pure_eq, Outcome.bind_ok] at h
  repeat' split at h
  all_goals cases h
  all_goals simp
  all_goals omega


/-- `printbuf_memappend`: same return value, `bpos`, `size`, errno; the effects are `memcpy(buf + bpos, src, size)` and the
terminating NUL store at `buf + bpos + size`, preceded by `printbuf_extend(p, bpos + size + 1)` exactly when
`size <= bpos + size + 1`.  `cext` is any answer of `printbuf_extend` that is negative exactly when the model's
`extend` failed (tied to the translated `printbuf_extend` by `extend_agrees`). -/
theorem memappend_agrees (p : Pb) (data : Bytes) (size : Int) (pp src errno0 buf cm buf' cext : Int)
    (hsz : (p.size : Int) ≤ INT_MAX) (hb : (p.bpos : Int) ≤ INT_MAX) (hs : -INT_MAX - 1 ≤ size ∧ size ≤ INT_MAX)
    (r : Res) (h : memappend p data size = .ok r) (hcext : cext < 0 ↔ r.ret < 0) :
    ∃ out, Translated.printbuf_memappend pp src size errno0 p.bpos buf p.size cm (errnoAfter errno0 r.errno)
        p.bpos buf' r.pb.size cext = .ok out ∧
      out.ret = r.ret ∧ out.p_bpos = r.pb.bpos ∧ out.p_size = r.pb.size ∧ errnoAgrees errno0 r.errno out.errno ∧
      (r.ret < 0 → r.pb.bpos = p.bpos ∧ (out.calls = [] ∨ ∃ need, out.calls = [("printbuf_extend", [pp, need])])) ∧
      (0 ≤ r.ret → r.ret = size ∧ (r.pb.bpos : Int) = p.bpos + size ∧
        ((out.calls = [("memcpy", [buf + p.bpos, src, size]), ("store1", [buf + (p.bpos + size), 0])] ∧ r.pb.size = p.size) ∨
         (out.calls = [("printbuf_extend", [pp, p.bpos + size + 1]), ("memcpy", [buf' + p.bpos, src, size]),
                       ("store1", [buf' + (p.bpos + size), 0])] ∧ p.size ≤ r.pb.size))) := by
  have hI := int_max_val
  unfold memappend at h
  unfold Translated.printbuf_memappend Translated.printbuf_memappend.j1
  simp only [hI, ckInt_bind, ckS32_bind, Outcome.pure_eq, Outcome.bind_ok, wrapU, Int.reducePow] at h hs hb hsz ⊢
  have hp0 : (0 : Int) ≤ p.bpos := Int.natCast_nonneg _
  have hp1 : (0 : Int) ≤ p.size := Int.natCast_nonneg _
  split at h
  · rename_i hg
    cases h
    rcases hg with hg | hg
    · resolve_ifs
      exact ⟨_, rfl, by simp [errnoAgrees, errnoAfter, eFBIG]⟩
    · by_cases hneg : size < 0
      · resolve_ifs
        exact ⟨_, rfl, by simp [errnoAgrees, errnoAfter, eFBIG]⟩
      · resolve_ifs
        exact ⟨_, rfl, by simp [errnoAgrees, errnoAfter, eFBIG]⟩
  · rename_i hg
    split at h
    · rename_i hneed
      split at h
      · -- the buffer is extended
        rename_i hle
        cases hext : extend p ((p.bpos : Int) + size + 1) with
        | fault w => rw [hext] at h; cases h
        | ok e =>
          rw [hext] at h
          obtain ⟨hs1, hs2⟩ := extend_shape p _ e hext
          simp only [Outcome.bind_ok] at h
          rcases hs2 with ⟨h2a, h2b, h2c, h2d, h2e⟩ | ⟨h2a, h2b, h2c, h2d⟩
          · rw [if_neg (by omega)] at h
            repeat' split at h
            all_goals cases h
            all_goals (try simp only at hcext ⊢)
            all_goals resolve_ifs
            all_goals exact ⟨_, rfl, by simp [errnoAgrees, errnoAfter, eFBIG, h2b, hs1] <;> omega⟩
          · rw [if_pos (by omega)] at h
            cases h
            simp only at hcext ⊢
            subst h2c
            resolve_ifs
            exact ⟨_, rfl, by simp [errnoAgrees, errnoAfter, eFBIG, h2b]⟩
      · rename_i hle
        try simp only [Outcome.bind_ok] at h
        rw [if_neg (by omega)] at h
        repeat' split at h
        all_goals cases h
        all_goals (try simp only at hcext ⊢)
        all_goals resolve_ifs
        all_goals exact ⟨_, rfl, by simp [errnoAgrees, errnoAfter, eFBIG] <;> omega⟩
    · cases h

set_option maxHeartbeats 1600000 in
/-- `printbuf_memset`: same return value, `bpos`, `size`, errno; the last effect is `memset(buf + offset, ch, len)` -/
theorem memset_agrees (p : Pb) (offset ch len : Int) (pp errno0 buf u1 cm1 cm2 buf' cext : Int)
    (hsz : (p.size : Int) ≤ INT_MAX) (hb : (p.bpos : Int) ≤ INT_MAX)
    (ho : -INT_MAX - 1 ≤ offset ∧ offset ≤ INT_MAX) (hl : -INT_MAX - 1 ≤ len ∧ len ≤ INT_MAX)
    (r : Res) (h : memset p offset ch len = .ok r) (hcext : cext < 0 ↔ r.ret < 0) :
    ∃ out, Translated.printbuf_memset pp offset ch len errno0 buf p.bpos p.size u1 cm1 cm2 (errnoAfter errno0 r.errno)
        buf' p.bpos r.pb.size cext = .ok out ∧
      out.ret = r.ret ∧ out.pb_bpos = r.pb.bpos ∧ out.pb_size = r.pb.size ∧ errnoAgrees errno0 r.errno out.errno ∧
      (r.ret = 0 → ∃ b, (b = buf ∨ b = buf') ∧
        out.calls.getLast? = some ("memset", [b + (if offset = -1 then (p.bpos : Int) else offset), ch, len])) := by
  have hI := int_max_val
  unfold memset at h
  unfold Translated.printbuf_memset Translated.printbuf_memset.j3 Translated.printbuf_memset.j2 Translated.printbuf_memset.j1
  simp only [hI, ckInt_bind, ckS32_bind, Outcome.pure_eq, Outcome.bind_ok, wrapU, Int.reducePow] at h ho hl hb hsz ⊢
  have hp0 : (0 : Int) ≤ p.bpos := Int.natCast_nonneg _
  have hp1 : (0 : Int) ≤ p.size := Int.natCast_nonneg _
  generalize hoff : (if offset = -1 then (p.bpos : Int) else offset) = off at h ⊢
  have hoff' : (offset = -1 ∧ off = p.bpos) ∨ (offset ≠ -1 ∧ off = offset) := by
    by_cases hc : offset = -1
    · left; rw [if_pos hc] at hoff; exact ⟨hc, hoff.symm⟩
    · right; rw [if_neg hc] at hoff; exact ⟨hc, hoff.symm⟩
  split at h
  · rename_i hg
    cases h
    by_cases hl0 : len < 0 <;> by_cases ho0 : off < -1 <;>
    (rcases hoff' with ⟨ho1, ho2⟩ | ⟨ho1, ho2⟩ <;> subst ho2 <;> resolve_ifs <;>
      exact ⟨_, rfl, by simp [errnoAgrees, errnoAfter, eFBIG]⟩)
  · rename_i hg
    split at h
    · rename_i hneed
      split at h
      · rename_i hlt
        cases hext : extend p (off + len) with
        | fault w => rw [hext] at h; cases h
        | ok e =>
          rw [hext] at h
          obtain ⟨hs1, hs2⟩ := extend_shape p _ e hext
          simp only [Outcome.bind_ok] at h
          rcases hs2 with ⟨h2a, h2b, h2c, h2d, h2e⟩ | ⟨h2a, h2b, h2c, h2d⟩
          · rw [if_neg (by omega)] at h
            repeat' split at h
            all_goals cases h
            all_goals (try simp only at hcext ⊢)
            all_goals (rcases hoff' with ⟨ho1, ho2⟩ | ⟨ho1, ho2⟩ <;> subst ho2 <;> resolve_ifs)
            all_goals first
              | exact ⟨_, rfl, by simp [errnoAgrees, errnoAfter, eFBIG, h2b, hs1] <;> omega⟩
              | exact ⟨_, rfl, by simp [errnoAgrees, errnoAfter, eFBIG, h2b, hs1]; refine ⟨?_, ?_, ?_⟩ <;> omega⟩
              | exact ⟨_, rfl, by simp [errnoAgrees, errnoAfter, eFBIG, h2b, hs1]; omega⟩
          · rw [if_pos (by omega)] at h
            cases h
            try simp only at hcext ⊢
            subst h2c
            rcases hoff' with ⟨ho1, ho2⟩ | ⟨ho1, ho2⟩ <;> subst ho2 <;> resolve_ifs <;>
            exact ⟨_, rfl, by simp [errnoAgrees, errnoAfter, eFBIG, h2b]⟩
      · rename_i hlt
        try simp only [Outcome.bind_ok] at h
        rw [if_neg (by omega)] at h
        repeat' split at h
        all_goals cases h
        all_goals (try simp only at hcext ⊢)
        all_goals (rcases hoff' with ⟨ho1, ho2⟩ | ⟨ho1, ho2⟩ <;> subst ho2 <;> resolve_ifs)
        all_goals first
          | exact ⟨_, rfl, by simp [errnoAgrees, errnoAfter, eFBIG] <;> omega⟩
          | exact ⟨_, rfl, by simp [errnoAgrees, errnoAfter, eFBIG]; refine ⟨?_, ?_, ?_⟩ <;> omega⟩
          | exact ⟨_, rfl, by simp [errnoAgrees, errnoAfter, eFBIG]; omega⟩
    · cases h

end JsonC.TranslatedPb
