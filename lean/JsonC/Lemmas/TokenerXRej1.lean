/-
  C16, strict mode on documents with extensions, part 1: what "the call fails" means for the loop,
  plain sub-documents are RFC 8259 documents, '/' is a syntax error at every gap position.
-/
import JsonC.Lemmas.TokenerXDoc4
import JsonC.Lemmas.TokenerErrStop
namespace JsonC.Tokener
open JsonC Rfc8259 Rfc8259X

theorem perr_toErr (pe : PErr) : pe.toErr ≠ .success ∧ pe.toErr ≠ .continue_ := by
  cases pe <;> simp [PErr.toErr]

/-- a syntax error in the loop is reported as an error status (never success, never "continue"),
returns no value and is not a fault of the model -/
theorem epilogue_errStop (e : LoopEnd) (h : ErrStop e) :
    (epilogue e).err ≠ .success ∧ (epilogue e).err ≠ .continue_ ∧ (epilogue e).value = none ∧
      (epilogue e).stuck = false ∧ (epilogue e).fault = none := by
  obtain ⟨pe, hs⟩ := h
  have hfe : finalErr e ≠ .success ∧ finalErr e ≠ .continue_ := by
    unfold finalErr
    simp only
    split
    · simp
    · split
      · simp
      · split
        · simp
        · simp only [loopErr, hs]; exact perr_toErr pe
  have h1 : (finalErr e == .success) = false := by simpa using hfe.1
  simp only [epilogue, h1, hs]
  exact ⟨hfe.1, hfe.2, rfl, rfl, rfl⟩

/-! ### plain pieces are RFC 8259 pieces -/

theorem gap_plain_text (g : Gap) (h : g.plain = true) : g.text = g.erase.text := by
  induction g with
  | nil => rfl
  | cons i r ih =>
    simp only [Gap.plain, List.all_cons, Bool.and_eq_true] at h
    cases i with
    | ws c =>
      have := ih (by simpa [Gap.plain] using h.2)
      simp only [Gap.text, List.flatMap_cons, GapItem.text, Gap.erase, Ws.text, List.map_cons] at this ⊢
      rw [this]; rfl
    | block b => simp [GapItem.plain] at h
    | line b => simp [GapItem.plain] at h

theorem capsText_plain : ∀ (w : Bytes) (caps : List Bool), caps.length = w.length → caps.all (· == false) = true →
    capsText w caps = w := by
  intro w
  induction w with
  | nil => intro caps h _; cases caps <;> simp_all [capsText]
  | cons b bs ih =>
    intro caps h hall
    cases caps with
    | nil => simp at h
    | cons c cs =>
      simp only [List.all_cons, Bool.and_eq_true, beq_iff_eq] at hall
      simp only [capsText_cons, hall.1, Bool.false_eq_true, if_false]
      rw [ih cs (by simpa using h) hall.2]

theorem xelems_plain_text (es : List (Gap × XDoc × Gap))
    (ih : ∀ e ∈ es, e.2.1.ok = true → e.2.1.plain = true → e.2.1.text = e.2.1.erase.text)
    (hok : xelemsOk es = true) (hp : xelemsPlain es = true) : xelemsText es = elemsText (xelemsErase es) := by
  induction es with
  | nil => rfl
  | cons e r ihr =>
    obtain ⟨g1, d, g2⟩ := e
    simp only [xelemsOk, xelemsPlain, Bool.and_eq_true] at hok hp
    simp only [xelemsText, xelemsErase, elemsText]
    rw [gap_plain_text g1 hp.1.1.1, gap_plain_text g2 hp.1.2, ih (g1, d, g2) (by simp) hok.1.1.2 hp.1.1.2,
      ihr (fun e he => ih e (by simp [he])) hok.2 hp.2]

theorem xmembers_plain_text (ms : List (Gap × Quote × List StrItem × Gap × Gap × XDoc × Gap))
    (ih : ∀ m ∈ ms, m.2.2.2.2.2.1.ok = true → m.2.2.2.2.2.1.plain = true → m.2.2.2.2.2.1.text = m.2.2.2.2.2.1.erase.text)
    (hok : xmembersOk ms = true) (hp : xmembersPlain ms = true) : xmembersText ms = membersText (xmembersErase ms) := by
  induction ms with
  | nil => rfl
  | cons m r ihr =>
    obtain ⟨g1, q, k, g2, g3, d, g4⟩ := m
    simp only [xmembersOk, xmembersPlain, Bool.and_eq_true, beq_iff_eq] at hok hp
    obtain ⟨⟨⟨⟨⟨⟨p1, pq, _⟩, p2⟩, p3⟩, pd⟩, p4⟩, pr⟩ := hp
    subst pq
    simp only [xmembersText, xmembersErase, membersText]
    rw [gap_plain_text g1 p1, gap_plain_text g2 p2, gap_plain_text g3 p3, gap_plain_text g4 p4,
      ih (g1, .dq, k, g2, g3, d, g4) (by simp) hok.1.1.2 pd, ihr (fun e he => ih e (by simp [he])) hok.2 pr]
    rfl

/-- a number without number extensions is the RFC 8259 number it stands for -/
theorem xnum_plain_text (n : XNum) (hp : n.plain = true) : n.text = n.base.text := by
  simp only [XNum.plain, Bool.and_eq_true, beq_iff_eq] at hp
  have hb : n.bare = none := by cases h : n.bare <;> simp_all
  simp [XNum.text, XNum.lit, hp.1, hb, bareText, Num.text]

/-- a plain extended document is the RFC 8259 document it stands for -/
theorem xdoc_plain_text : ∀ (x : XDoc), x.ok = true → x.plain = true → x.text = x.erase.text := by
  intro x
  induction x using xdoc_induct with
  | hlit k caps =>
    intro hok hp
    simp only [XDoc.ok, beq_iff_eq] at hok
    simp only [XDoc.plain] at hp
    simp only [XDoc.text, capsText_plain k.word caps hok hp]
    cases k <;> rfl
  | hnum n => intro _ hp; simpa [XDoc.text, XDoc.erase, Doc.text] using xnum_plain_text n (by simpa [XDoc.plain] using hp)
  | hstr q items =>
    intro _ hp
    simp only [XDoc.plain, Bool.and_eq_true, beq_iff_eq] at hp
    obtain ⟨hq, _⟩ := hp
    subst hq; rfl
  | harr g es tr ih =>
    intro hok hp
    cases es with
    | nil =>
      simp only [XDoc.plain, Bool.and_eq_true] at hp
      simp [XDoc.text, XDoc.erase, xelemsErase, Doc.text, gap_plain_text g hp.1]
    | cons e0 r =>
      simp only [XDoc.plain, Bool.and_eq_true, Option.isNone_iff_eq_none] at hp
      simp only [XDoc.ok, Bool.and_eq_true] at hok
      obtain ⟨a1, a2, a3⟩ := e0
      have := xelems_plain_text ((a1, a2, a3) :: r) ih hok.1.2 hp.1
      simp only [XDoc.text, XDoc.erase, hp.2, trailText, List.append_nil]
      rw [this]
      simp [xelemsErase, Doc.text]
  | hobj g ms tr ih =>
    intro hok hp
    cases ms with
    | nil =>
      simp only [XDoc.plain, Bool.and_eq_true] at hp
      simp [XDoc.text, XDoc.erase, xmembersErase, Doc.text, gap_plain_text g hp.1]
    | cons e0 r =>
      simp only [XDoc.plain, Bool.and_eq_true, Option.isNone_iff_eq_none] at hp
      simp only [XDoc.ok, Bool.and_eq_true] at hok
      obtain ⟨a1, a2, a3, a4, a5, a6, a7⟩ := e0
      have := xmembers_plain_text ((a1, a2, a3, a4, a5, a6, a7) :: r) ih hok.1.2 hp.1
      simp only [XDoc.text, XDoc.erase, hp.2, trailText, List.append_nil]
      rw [this]
      simp [xmembersErase, Doc.text]

/-! ### `ok` carries over to the erased document (plain documents) -/

theorem xelems_erase_ok (es : List (Gap × XDoc × Gap))
    (ih : ∀ e ∈ es, e.2.1.ok = true → e.2.1.plain = true → e.2.1.erase.ok = true)
    (hok : xelemsOk es = true) (hp : xelemsPlain es = true) : elemsOk (xelemsErase es) = true := by
  induction es with
  | nil => rfl
  | cons e r ihr =>
    obtain ⟨g1, d, g2⟩ := e
    simp only [xelemsOk, xelemsPlain, Bool.and_eq_true] at hok hp
    simp only [xelemsErase, elemsOk, Bool.and_eq_true]
    exact ⟨ih (g1, d, g2) (by simp) hok.1.1.2 hp.1.1.2, ihr (fun e he => ih e (by simp [he])) hok.2 hp.2⟩

theorem xmembers_erase_ok (ms : List (Gap × Quote × List StrItem × Gap × Gap × XDoc × Gap))
    (ih : ∀ m ∈ ms, m.2.2.2.2.2.1.ok = true → m.2.2.2.2.2.1.plain = true → m.2.2.2.2.2.1.erase.ok = true)
    (hok : xmembersOk ms = true) (hp : xmembersPlain ms = true) : membersOk (xmembersErase ms) = true := by
  induction ms with
  | nil => rfl
  | cons m r ihr =>
    obtain ⟨g1, q, k, g2, g3, d, g4⟩ := m
    simp only [xmembersOk, xmembersPlain, Bool.and_eq_true] at hok hp
    simp only [xmembersErase, membersOk, Bool.and_eq_true]
    refine ⟨⟨?_, ih (g1, q, k, g2, g3, d, g4) (by simp) hok.1.1.2 hp.1.1.2⟩, ihr (fun e he => ih e (by simp [he])) hok.2 hp.2⟩
    exact hp.1.1.1.1.1.2.2

theorem xdoc_erase_ok : ∀ (x : XDoc), x.ok = true → x.plain = true → x.erase.ok = true := by
  intro x
  induction x using xdoc_induct with
  | hlit k caps => intro _ _; cases k <;> rfl
  | hnum n => intro hok _; exact (xnum_ok_parts n (by simpa [XDoc.ok] using hok)).1
  | hstr q items =>
    intro _ hp
    simp only [XDoc.plain, Bool.and_eq_true] at hp
    simp only [XDoc.erase, Doc.ok]
    exact hp.2
  | harr g es tr ih =>
    intro hok hp
    simp only [XDoc.ok, Bool.and_eq_true] at hok
    cases es with
    | nil => simp [XDoc.erase, xelemsErase, Doc.ok, elemsOk]
    | cons e0 r =>
      simp only [XDoc.plain, Bool.and_eq_true] at hp
      simp only [XDoc.erase, Doc.ok]
      exact xelems_erase_ok _ ih hok.1.2 hp.1
  | hobj g ms tr ih =>
    intro hok hp
    simp only [XDoc.ok, Bool.and_eq_true] at hok
    cases ms with
    | nil => simp [XDoc.erase, xmembersErase, Doc.ok, membersOk]
    | cons e0 r =>
      simp only [XDoc.plain, Bool.and_eq_true] at hp
      simp only [XDoc.erase, Doc.ok]
      exact xmembers_erase_ok _ ih hok.1.2 hp.1

end JsonC.Tokener
