/-
  Helper lemmas for C06: lh_table_resize (rebuild into a fresh table in list order) and
  lh_table_insert_w_hash (load test, growth, probe).
-/
import JsonC.Lemmas.Linkhash

namespace JsonC.Linkhash
open JsonC Generated

variable {K V : Type}

/-- the insert function lh_table_resize uses for the new table -/
def insFn (hash : K → Nat) (f : Nat) : Table K V → K → V → Bool → Outcome (Res K V) :=
  fun nt k' v' c' => insertN hash f nt k' v' (hash k') c'

theorem insertN_noload (hash : K → Nat) (f : Nat) (t : Table K V) (k : K) (v : V) (h : Nat) (c : Bool)
    (hl : loadTest t.count t.size = false) :
    insertN hash f t k v h c =
      match place t k v h c with
      | .fault w => .fault w
      | .ok t' => .ok { t := t', ret := 0 } := by
  unfold insertN
  rw [if_neg (by rw [hl]; simp)]
  cases place t k v h c <;> rfl

theorem insertN_full (hash : K → Nat) (f : Nat) (t : Table K V) (k : K) (v : V) (h : Nat) (c : Bool)
    (hl : loadTest t.count t.size = true) (hs : t.size = intMax) :
    insertN hash f t k v h c = .ok { t := t, ret := -1 } := by
  unfold insertN
  rw [if_pos hl, if_pos (by unfold INT_MAX; exact hs)]

theorem not_mem_keys_iff (hash : K → Nat) (t : Table K V) (o : List Nat) (h : Inv hash t o) (k : K) :
    k ∉ OrdMap.keys (absOf t o) ↔ ∀ (p : Nat) (v : V) (c : Bool), t.slots[p]? ≠ some (Slot.live k v c) := by
  rw [mem_keys_absOf]
  constructor
  · intro hn p v c hs
    exact hn ⟨p, (h.live_iff p).mpr ⟨k, v, c, hs⟩, v, c, hs⟩
  · rintro hn ⟨i, _, v, c, hs⟩
    exact hn i v c hs

theorem inv_set_count (hash : K → Nat) (t : Table K V) (o : List Nat) (h : Inv hash t o) (cnt : Int)
    (hc : cnt = (o.length : Int)) : Inv hash { t with count := cnt } o :=
  ⟨h.size_pos, h.size_le, h.len_slots, h.len_next, h.len_prev, h.nodup, h.live_iff, hc, h.count_le, h.head_eq,
    h.tail_eq, h.next_eq, h.prev_eq,
    fun i k v c hs => Reach.mono (t := t) (t' := { t with count := cnt }) rfl (fun _ hq => hq) (h.chain i k v c hs),
    h.uniq⟩

/-- the loop of lh_table_resize: entries are re-inserted in list order; the only way it stops early
is an insert refused by a new table of INT_MAX slots -/
theorem rebuildLoop_spec (hash : K → Nat) (f : Nat) (t : Table K V) (o : List Nat) (h : Inv hash t o) (n : Nat)
    (hload : ∀ j : Nat, j < o.length → loadTest (j : Int) n = true → n = intMax) :
    ∀ (rest done : List Nat) (nt : Table K V) (o1 : List Nat) (fuel : Nat),
      o = done ++ rest → Inv hash nt o1 → nt.size = n → absOf nt o1 = absOf t done → o1.length = done.length →
      rest.length < fuel →
      ∃ r, rebuildLoop (insFn hash f) t fuel rest.head? nt = .ok r ∧
        ((r = none ∧ ∃ j : Nat, j < o.length ∧ loadTest (j : Int) n = true) ∨
         ∃ nt' o', r = some nt' ∧ Inv hash nt' o' ∧ nt'.size = n ∧ absOf nt' o' = absOf t o ∧ o'.length = o.length) := by
  intro rest
  induction rest with
  | nil =>
    intro done nt o1 fuel ho hnt hsz habs hlen hf
    cases fuel with
    | zero => simp at hf
    | succ fuel =>
      simp only [List.head?_nil, rebuildLoop]
      rw [List.append_nil] at ho
      subst ho
      exact ⟨_, rfl, Or.inr ⟨nt, o1, rfl, hnt, hsz, habs, hlen⟩⟩
  | cons e rest ih =>
    intro done nt o1 fuel ho hnt hsz habs hlen hf
    cases fuel with
    | zero => simp at hf
    | succ fuel =>
      have heo : e ∈ o := by rw [ho]; simp
      obtain ⟨k, v, c, hs⟩ := (h.live_iff e).mp heo
      have hes : e < t.size := h.mem_lt heo
      have hnd : (done ++ e :: rest).Nodup := ho ▸ h.nodup
      have hnx : t.next[e]? = some rest.head? := by
        rw [h.next_eq e hes, ho, succOf_append_cons done rest e hnd]
      simp only [List.head?_cons, rebuildLoop, hs, hnx]
      have hdl : done.length < o.length := by rw [ho]; simp
      have hcnt : nt.count = (done.length : Int) := by rw [hnt.count_eq, hlen]
      have hins : insFn hash f nt k v c = insertN hash f nt k v (hash k) c := rfl
      rw [hins]
      cases hl : loadTest nt.count nt.size with
      | true =>
        have hmax : n = intMax := hload done.length hdl (by rw [← hcnt, ← hsz]; exact hl)
        rw [insertN_full hash f nt k v (hash k) c hl (by rw [hsz]; exact hmax)]
        refine ⟨none, by simp, Or.inl ⟨rfl, done.length, hdl, by rw [← hcnt, ← hsz]; exact hl⟩⟩
      | false =>
        rw [insertN_noload hash f nt k v (hash k) c hl]
        have hroom : o1.length < nt.size := by
          have := lt_size_of_loadTest_false nt.count nt.size hnt.size_le hl
          rw [hnt.count_eq] at this
          exact_mod_cast this
        have hedone : e ∉ done := by
          intro hm
          rw [List.nodup_append] at hnd
          exact hnd.2.2 e hm e (by simp) rfl
        have hknew : ∀ (p : Nat) (v' : V) (c' : Bool), nt.slots[p]? ≠ some (Slot.live k v' c') := by
          rw [← not_mem_keys_iff hash nt o1 hnt k, habs, mem_keys_absOf]
          rintro ⟨i, hi, v', c', hs'⟩
          have := h.uniq e i k v c v' c' hs hs'
          subst this
          exact hedone hi
        obtain ⟨n', nt', hpl, hn', hno', hinv', hsz', hslots'⟩ := place_spec hash nt o1 hnt k v c hroom hknew
        rw [hpl]
        dsimp only
        have habs' : absOf nt' (o1 ++ [n']) = absOf t (done ++ [e]) := by
          rw [absOf_place nt nt' o1 n' k v c (by rw [hnt.len_slots]; exact hn') hno' hslots', habs]
          unfold absOf
          rw [List.filterMap_append]
          simp only [List.filterMap_cons, List.filterMap_nil, entryAt_live t e k v c hs]
        have := ih (done ++ [e]) nt' (o1 ++ [n']) fuel (by rw [ho]; simp) hinv' (by rw [hsz', hsz]) habs'
          (by simp [hlen]) (by simp at hf; omega)
        simpa using this

/-- lh_table_resize when the new table cannot itself grow while it is filled (or has INT_MAX slots) -/
theorem resizeWith_spec (hash : K → Nat) (f : Nat) (t : Table K V) (o : List Nat) (h : Inv hash t o) (n : Nat)
    (h1 : 0 < n) (h2 : n ≤ intMax)
    (hload : ∀ j : Nat, j < o.length → loadTest (j : Int) n = true → n = intMax) :
    ∃ r, resizeWith (insFn hash f) t n = .ok r ∧ r.tags = [] ∧ r.freed = [] ∧
      ((r.ret = -1 ∧ r.t = t ∧ ∃ j : Nat, j < o.length ∧ loadTest (j : Int) n = true) ∨
       (r.ret = 0 ∧ ∃ o', Inv hash r.t o' ∧ r.t.size = n ∧ absOf r.t o' = absOf t o ∧ o'.length = o.length)) := by
  obtain ⟨nt0, hnew, hinv0, hsz0⟩ := new_inv (V := V) hash n h1 h2
  unfold resizeWith
  rw [hnew]
  dsimp only
  obtain ⟨r, hr, hcase⟩ := rebuildLoop_spec hash f t o h n hload o [] nt0 [] (t.slots.length + 1)
    (by simp) hinv0 hsz0 rfl rfl (by rw [h.len_slots]; have := h.count_le; omega)
  rw [h.head_eq, hr]
  rcases hcase with ⟨hn, hj⟩ | ⟨nt', o', hs, hinv', hsz', habs', hlen'⟩
  · subst hn
    exact ⟨_, rfl, rfl, rfl, Or.inl ⟨rfl, rfl, hj⟩⟩
  · subst hs
    dsimp only
    refine ⟨_, rfl, ?_, rfl, Or.inr ⟨rfl, o', ?_, ?_, ?_, hlen'⟩⟩
    · dsimp only
      rw [if_neg]; intro hc; exact hc.2 hsz'
    · have e : ({ t with slots := nt'.slots, next := nt'.next, prev := nt'.prev,
                         size := if lhResizeKeepsArgSize = true then n else nt'.size,
                         head := nt'.head, tail := nt'.tail } : Table K V) = { nt' with count := t.count } := by
        cases nt'
        simp only [Table.mk.injEq, and_true]
        dsimp only at hsz'
        rw [hsz']; simp
      rw [e]
      exact inv_set_count hash nt' o' hinv' t.count (by rw [h.count_eq, hlen'])
    · dsimp only; rw [hsz']; simp
    · rw [← habs']
      exact absOf_congr nt' _ o' (fun _ _ => rfl)

/-- lh_table_insert_w_hash with a key that is not in the table: never a fault, the probe loop ends, the
entry is appended — or, only for tables of more than INT_MAX/2 slots, the call is refused with -1 and
nothing changes. Any `fuel ≥ 1` suffices for the recursion through lh_table_resize. -/
theorem insertN_spec (hash : K → Nat) (f : Nat) (t : Table K V) (o : List Nat) (h : Inv hash t o) (k : K) (v : V) (c : Bool)
    (hnew : ∀ (p : Nat) (v' : V) (c' : Bool), t.slots[p]? ≠ some (Slot.live k v' c')) :
    ∃ r, insertN hash (f + 1) t k v (hash k) c = .ok r ∧ r.tags = [] ∧ r.freed = [] ∧
      ((r.ret = 0 ∧ ∃ o', Inv hash r.t o' ∧ absOf r.t o' = absOf t o ++ [(k, v)]) ∨
       (r.ret = -1 ∧ r.t = t ∧ intMax / 2 < t.size)) := by
  cases hl : loadTest t.count t.size with
  | false =>
    rw [insertN_noload hash (f + 1) t k v (hash k) c hl]
    have hroom : o.length < t.size := by
      have := lt_size_of_loadTest_false t.count t.size h.size_le hl
      rw [h.count_eq] at this
      exact_mod_cast this
    obtain ⟨n', t', hpl, hn', hno', hinv', hsz', hslots'⟩ := place_spec hash t o h k v c hroom hnew
    rw [hpl]
    exact ⟨_, rfl, rfl, rfl, Or.inl ⟨rfl, o ++ [n'], hinv',
      absOf_place t t' o n' k v c (by rw [h.len_slots]; exact hn') hno' hslots'⟩⟩
  | true =>
    by_cases hmax : t.size = intMax
    · rw [insertN_full hash (f + 1) t k v (hash k) c hl hmax]
      exact ⟨_, rfl, rfl, rfl, Or.inr ⟨rfl, rfl, by rw [hmax]; have : 0 < intMax := (by decide); omega⟩⟩
    · unfold insertN
      rw [if_pos hl, if_neg (by unfold INT_MAX; exact hmax)]
      dsimp only
      have hszle := h.size_le
      have hcl := h.count_le
      -- the new size and why refilling cannot make the new table grow (unless it has INT_MAX slots)
      have hns : ∃ ns, (if t.size > INT_MAX / 2 then INT_MAX else t.size * 2) = ns ∧ 0 < ns ∧ ns ≤ intMax ∧ t.size < ns ∧
          (intMax / 2 < t.size ∨ ns = t.size * 2) := by
        unfold INT_MAX
        by_cases hb : t.size > intMax / 2
        · rw [if_pos hb]; exact ⟨_, rfl, by omega, Nat.le_refl _, by omega, Or.inl hb⟩
        · rw [if_neg hb]; exact ⟨_, rfl, by have := h.size_pos; omega, by omega, by have := h.size_pos; omega, Or.inr rfl⟩
      obtain ⟨ns, hnse, hns0, hnsle, hnsgt, hnscase⟩ := hns
      rw [hnse]
      have hload : ∀ j : Nat, j < o.length → loadTest (j : Int) ns = true → ns = intMax := by
        intro j hj hlt
        rcases hnscase with hb | hd
        · by_cases hb' : t.size > INT_MAX / 2
          · rw [if_pos hb'] at hnse; exact hnse.symm
          · exact absurd hb hb'
        · rw [hd, loadTest_double (j : Int) t.size hszle (by exact_mod_cast (by omega : j < t.size))] at hlt
          cases hlt
      obtain ⟨r, hr, htags, hfreed, hcase⟩ := resizeWith_spec hash f t o h ns hns0 hnsle hload
      have hfn : (fun nt k' v' c' => insertN hash f nt k' v' (hash k') c') = insFn (V := V) hash f := rfl
      rw [hfn, hr]
      dsimp only
      rcases hcase with ⟨hret, ht, j, hj, hlt⟩ | ⟨hret, o', hinv', hsz', habs', hlen'⟩
      · rw [if_pos (by rw [hret]; decide)]
        refine ⟨_, rfl, rfl, rfl, Or.inr ⟨rfl, rfl, ?_⟩⟩
        rcases hnscase with hb | hd
        · exact hb
        · rw [hd, loadTest_double (j : Int) t.size hszle (by exact_mod_cast (by omega : j < t.size))] at hlt
          cases hlt
      · rw [if_neg (by rw [hret]; decide)]
        have hroom : o'.length < r.t.size := by rw [hlen', hsz']; omega
        have hknew : ∀ (p : Nat) (v' : V) (c' : Bool), r.t.slots[p]? ≠ some (Slot.live k v' c') := by
          rw [← not_mem_keys_iff hash r.t o' hinv' k, habs', not_mem_keys_iff hash t o h k]
          exact hnew
        obtain ⟨n', t', hpl, hn', hno', hinv2, hsz2, hslots2⟩ := place_spec hash r.t o' hinv' k v c hroom hknew
        rw [hpl]
        dsimp only
        refine ⟨_, rfl, htags, rfl, Or.inl ⟨rfl, o' ++ [n'], hinv2, ?_⟩⟩
        rw [absOf_place r.t t' o' n' k v c (by rw [hinv'.len_slots]; exact hn') hno' hslots2, habs']

/-! ### lh_table_resize to an arbitrary size: the new table may itself grow while it is refilled -/

/-- lh_table_resize stores the size of the table it has built (`t->size = new_t->size`) -/
theorem resizeKeepsArgSize_false : lhResizeKeepsArgSize = false := by decide

/-- what lh_table_insert_w_hash does on `f` levels of resize recursion, for every table large enough
for `f` doublings to reach INT_MAX: append, or refuse leaving the table alone (only when it already
holds more than INT_MAX/4 entries) -/
def InsOK (hash : K → Nat) (f : Nat) : Prop :=
  ∀ (t : Table K V) (o : List Nat) (k : K) (v : V) (c : Bool), Inv hash t o →
    (∀ (p : Nat) (v' : V) (c' : Bool), t.slots[p]? ≠ some (Slot.live k v' c')) → intMax ≤ t.size * 2 ^ f →
    ∃ r, insertN hash f t k v (hash k) c = .ok r ∧ r.tags = [] ∧ r.freed = [] ∧
      ((r.ret = 0 ∧ ∃ o', Inv hash r.t o' ∧ absOf r.t o' = absOf t o ++ [(k, v)] ∧ t.size ≤ r.t.size) ∨
       (r.ret = -1 ∧ r.t = t ∧ intMax / 4 ≤ o.length))

theorem rebuildLoop_gen (hash : K → Nat) (f : Nat) (hins : InsOK (V := V) hash f) (t : Table K V) (o : List Nat)
    (h : Inv hash t o) (n : Nat) (hfuel : intMax ≤ n * 2 ^ f) :
    ∀ (rest done : List Nat) (nt : Table K V) (o1 : List Nat) (fuel : Nat),
      o = done ++ rest → Inv hash nt o1 → n ≤ nt.size → absOf nt o1 = absOf t done → o1.length = done.length →
      rest.length < fuel →
      ∃ r, rebuildLoop (insFn hash f) t fuel rest.head? nt = .ok r ∧
        ((r = none ∧ intMax / 4 ≤ o.length) ∨
         ∃ nt' o', r = some nt' ∧ Inv hash nt' o' ∧ n ≤ nt'.size ∧ absOf nt' o' = absOf t o ∧ o'.length = o.length) := by
  intro rest
  induction rest with
  | nil =>
    intro done nt o1 fuel ho hnt hsz habs hlen hf
    cases fuel with
    | zero => simp at hf
    | succ fuel =>
      simp only [List.head?_nil, rebuildLoop]
      rw [List.append_nil] at ho
      subst ho
      exact ⟨_, rfl, Or.inr ⟨nt, o1, rfl, hnt, hsz, habs, hlen⟩⟩
  | cons e rest ih =>
    intro done nt o1 fuel ho hnt hsz habs hlen hf
    cases fuel with
    | zero => simp at hf
    | succ fuel =>
      have heo : e ∈ o := by rw [ho]; simp
      obtain ⟨k, v, c, hs⟩ := (h.live_iff e).mp heo
      have hes : e < t.size := h.mem_lt heo
      have hnd : (done ++ e :: rest).Nodup := ho ▸ h.nodup
      have hnx : t.next[e]? = some rest.head? := by
        rw [h.next_eq e hes, ho, succOf_append_cons done rest e hnd]
      simp only [List.head?_cons, rebuildLoop, hs, hnx]
      have hdl : done.length < o.length := by rw [ho]; simp
      have hedone : e ∉ done := by
        intro hm
        rw [List.nodup_append] at hnd
        exact hnd.2.2 e hm e (by simp) rfl
      have hknew : ∀ (p : Nat) (v' : V) (c' : Bool), nt.slots[p]? ≠ some (Slot.live k v' c') := by
        rw [← not_mem_keys_iff hash nt o1 hnt k, habs, mem_keys_absOf]
        rintro ⟨i, hi, v', c', hs'⟩
        have := h.uniq e i k v c v' c' hs hs'
        subst this
        exact hedone hi
      have hfl : intMax ≤ nt.size * 2 ^ f := Nat.le_trans hfuel (Nat.mul_le_mul_right _ hsz)
      obtain ⟨r, hr, _, _, hcase⟩ := hins nt o1 k v c hnt hknew hfl
      have hinsfn : insFn hash f nt k v c = insertN hash f nt k v (hash k) c := rfl
      rw [hinsfn, hr]
      dsimp only
      rcases hcase with ⟨hret, o1', hinv', habs', hsz'⟩ | ⟨hret, _, hbig⟩
      · rw [if_neg (by rw [hret]; decide)]
        have habs2 : absOf r.t o1' = absOf t (done ++ [e]) := by
          rw [habs', habs]
          unfold absOf
          rw [List.filterMap_append]
          simp only [List.filterMap_cons, List.filterMap_nil, entryAt_live t e k v c hs]
        have hlen2 : o1'.length = (done ++ [e]).length := by
          have h1 := absOf_length hash r.t o1' hinv'
          have h2 := absOf_length hash nt o1 hnt
          rw [habs'] at h1
          simp at h1 ⊢
          omega
        have := ih (done ++ [e]) r.t o1' fuel (by rw [ho]; simp) hinv' (Nat.le_trans hsz hsz') habs2 hlen2
          (by simp at hf; omega)
        simpa using this
      · rw [if_pos (by rw [hret]; decide)]
        exact ⟨none, rfl, Or.inl ⟨rfl, by rw [hlen] at hbig; omega⟩⟩

theorem resizeWith_gen (hash : K → Nat) (f : Nat) (hins : InsOK (V := V) hash f) (t : Table K V) (o : List Nat)
    (h : Inv hash t o) (n : Nat) (h1 : 0 < n) (h2 : n ≤ intMax) (hfuel : intMax ≤ n * 2 ^ f) :
    ∃ r, resizeWith (insFn hash f) t n = .ok r ∧ r.tags = [] ∧ r.freed = [] ∧
      ((r.ret = 0 ∧ ∃ o', Inv hash r.t o' ∧ n ≤ r.t.size ∧ absOf r.t o' = absOf t o ∧ o'.length = o.length) ∨
       (r.ret = -1 ∧ r.t = t ∧ intMax / 4 ≤ o.length)) := by
  obtain ⟨nt0, hnew, hinv0, hsz0⟩ := new_inv (V := V) hash n h1 h2
  unfold resizeWith
  rw [hnew]
  dsimp only
  obtain ⟨r, hr, hcase⟩ := rebuildLoop_gen hash f hins t o h n hfuel o [] nt0 [] (t.slots.length + 1)
    (by simp) hinv0 (by rw [hsz0]; exact Nat.le_refl _) rfl rfl (by rw [h.len_slots]; have := h.count_le; omega)
  rw [h.head_eq, hr]
  have hflag := resizeKeepsArgSize_false
  rcases hcase with ⟨hn, hbig⟩ | ⟨nt', o', hs, hinv', hsz', habs', hlen'⟩
  · subst hn
    exact ⟨_, rfl, rfl, rfl, Or.inr ⟨rfl, rfl, hbig⟩⟩
  · subst hs
    dsimp only
    refine ⟨_, rfl, ?_, rfl, Or.inl ⟨rfl, o', ?_, ?_, ?_, hlen'⟩⟩
    · dsimp only
      rw [if_neg]; intro hc; rw [hflag] at hc; exact absurd hc.1 (by decide)
    · have e : ({ t with slots := nt'.slots, next := nt'.next, prev := nt'.prev,
                         size := if lhResizeKeepsArgSize = true then n else nt'.size,
                         head := nt'.head, tail := nt'.tail } : Table K V) = { nt' with count := t.count } := by
        rw [hflag]
        cases nt'
        simp
      rw [e]
      exact inv_set_count hash nt' o' hinv' t.count (by rw [h.count_eq, hlen'])
    · dsimp only; rw [hflag]; simpa using hsz'
    · rw [← habs']
      exact absOf_congr nt' _ o' (fun _ _ => rfl)

/-- lh_table_insert_w_hash through any depth of resize recursion -/
theorem insOK_all (hash : K → Nat) : ∀ f, InsOK (V := V) hash f := by
  intro f
  induction f with
  | zero =>
    intro t o k v c hinv hnew hfuel
    cases hl : loadTest t.count t.size with
    | false =>
      rw [insertN_noload hash 0 t k v (hash k) c hl]
      have hroom : o.length < t.size := by
        have := lt_size_of_loadTest_false t.count t.size hinv.size_le hl
        rw [hinv.count_eq] at this
        exact_mod_cast this
      obtain ⟨n', t', hpl, hn', hno', hinv', hsz', hslots'⟩ := place_spec hash t o hinv k v c hroom hnew
      rw [hpl]
      exact ⟨_, rfl, rfl, rfl, Or.inl ⟨rfl, o ++ [n'], hinv',
        absOf_place t t' o n' k v c (by rw [hinv.len_slots]; exact hn') hno' hslots', by rw [hsz']; exact Nat.le_refl _⟩⟩
    | true =>
      have hmax : t.size = intMax := by
        have := hinv.size_le
        simp at hfuel; omega
      rw [insertN_full hash 0 t k v (hash k) c hl hmax]
      refine ⟨_, rfl, rfl, rfl, Or.inr ⟨rfl, rfl, ?_⟩⟩
      have := size_le_of_loadTest o.length t.size hinv.size_le (by rw [← hinv.count_eq]; exact hl)
      omega
  | succ f ih =>
    intro t o k v c hinv hnew hfuel
    cases hl : loadTest t.count t.size with
    | false =>
      rw [insertN_noload hash (f + 1) t k v (hash k) c hl]
      have hroom : o.length < t.size := by
        have := lt_size_of_loadTest_false t.count t.size hinv.size_le hl
        rw [hinv.count_eq] at this
        exact_mod_cast this
      obtain ⟨n', t', hpl, hn', hno', hinv', hsz', hslots'⟩ := place_spec hash t o hinv k v c hroom hnew
      rw [hpl]
      exact ⟨_, rfl, rfl, rfl, Or.inl ⟨rfl, o ++ [n'], hinv',
        absOf_place t t' o n' k v c (by rw [hinv.len_slots]; exact hn') hno' hslots', by rw [hsz']; exact Nat.le_refl _⟩⟩
    | true =>
      have hhalf := size_le_of_loadTest o.length t.size hinv.size_le (by rw [← hinv.count_eq]; exact hl)
      by_cases hmax : t.size = intMax
      · rw [insertN_full hash (f + 1) t k v (hash k) c hl hmax]
        exact ⟨_, rfl, rfl, rfl, Or.inr ⟨rfl, rfl, by omega⟩⟩
      · unfold insertN
        rw [if_pos hl, if_neg (by unfold INT_MAX; exact hmax)]
        dsimp only
        have hszle := hinv.size_le
        have hcl := hinv.count_le
        have hpos := hinv.size_pos
        have hns : ∃ ns, (if t.size > INT_MAX / 2 then INT_MAX else t.size * 2) = ns ∧ 0 < ns ∧ ns ≤ intMax ∧ t.size < ns ∧
            intMax ≤ ns * 2 ^ f := by
          unfold INT_MAX
          by_cases hb : t.size > intMax / 2
          · rw [if_pos hb]
            refine ⟨_, rfl, by omega, Nat.le_refl _, by omega, ?_⟩
            exact Nat.le_mul_of_pos_right _ (Nat.two_pow_pos f)
          · rw [if_neg hb]
            refine ⟨_, rfl, by omega, by omega, by omega, ?_⟩
            rw [Nat.mul_assoc, ← Nat.pow_succ']; exact hfuel
        obtain ⟨ns, hnse, hns0, hnsle, hnsgt, hnsfuel⟩ := hns
        rw [hnse]
        obtain ⟨r, hr, htags, hfreed, hcase⟩ := resizeWith_gen hash f ih t o hinv ns hns0 hnsle hnsfuel
        have hfn : (fun nt k' v' c' => insertN hash f nt k' v' (hash k') c') = insFn (V := V) hash f := rfl
        rw [hfn, hr]
        dsimp only
        rcases hcase with ⟨hret, o', hinv', hsz', habs', hlen'⟩ | ⟨hret, ht, hbig⟩
        · rw [if_neg (by rw [hret]; decide)]
          have hroom : o'.length < r.t.size := by rw [hlen']; omega
          have hknew : ∀ (p : Nat) (v' : V) (c' : Bool), r.t.slots[p]? ≠ some (Slot.live k v' c') := by
            rw [← not_mem_keys_iff hash r.t o' hinv' k, habs', not_mem_keys_iff hash t o hinv k]
            exact hnew
          obtain ⟨n', t', hpl, hn', hno', hinv2, hsz2, hslots2⟩ := place_spec hash r.t o' hinv' k v c hroom hknew
          rw [hpl]
          dsimp only
          refine ⟨_, rfl, htags, rfl, Or.inl ⟨rfl, o' ++ [n'], hinv2, ?_, by rw [hsz2]; omega⟩⟩
          rw [absOf_place r.t t' o' n' k v c (by rw [hinv'.len_slots]; exact hn') hno' hslots2, habs']
        · rw [if_pos (by rw [hret]; decide)]
          exact ⟨_, rfl, rfl, rfl, Or.inr ⟨rfl, rfl, hbig⟩⟩

/-- lh_table_resize(t, n) for every positive `n` an int can hold -/
theorem resize_spec (hash : K → Nat) (t : Table K V) (o : List Nat) (h : Inv hash t o) (n : Nat)
    (h1 : 0 < n) (h2 : n ≤ intMax) :
    ∃ r, resize hash t n = .ok r ∧ r.tags = [] ∧ r.freed = [] ∧
      ((r.ret = 0 ∧ ∃ o', Inv hash r.t o' ∧ n ≤ r.t.size ∧ absOf r.t o' = absOf t o ∧ o'.length = o.length) ∨
       (r.ret = -1 ∧ r.t = t ∧ intMax / 4 ≤ o.length)) := by
  have hfuel : intMax ≤ n * 2 ^ insertFuel := by
    have h3 : intMax ≤ 2 ^ insertFuel := by decide
    exact Nat.le_trans h3 (Nat.le_mul_of_pos_left _ h1)
  exact resizeWith_gen hash insertFuel (insOK_all hash insertFuel) t o h n h1 h2 hfuel

end JsonC.Linkhash
