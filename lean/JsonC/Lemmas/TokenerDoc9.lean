/-
  Towards `parse_valid` (C01), part 9: the member loop of an object.
-/
import JsonC.Lemmas.TokenerDoc8
namespace JsonC.Tokener
open JsonC Rfc8259

theorem addOrReplace_eq (kvs : List (Bytes × JVal)) (k : Bytes) (v : JVal) :
    Tokener.addOrReplace kvs k v = Rfc8259.addOrReplace kvs k v := rfl

theorem cstr_of_nulfree (b : Bytes) (h : b.contains 0 = false) : cstr b = b := by
  unfold cstr
  induction b with
  | nil => rfl
  | cons x xs ih =>
    simp only [List.contains_cons, Bool.or_eq_false_iff] at h
    have hx : (x != 0) = true := by
      have := h.1
      simp only [bne_iff_ne, ne_eq]
      intro e; subst e; simp at this
    simp only [List.takeWhile_cons, hx, ↓reduceIte]
    rw [ih h.2]

theorem topOk_objectValue (kvs : List (Bytes × JVal)) (k : Bytes) :
    (⟨.eatws, .objectValue, .obj kvs, some k⟩ : Level).topOk = true := by
  simp [Level.topOk, isArrV, isObjV]; decide

/-- the member loop of a non-empty object, up to and including the closing brace -/
theorem members_run (lc : Libc) (ms : List (Ws × List StrItem × Ws × Ws × Doc × Ws)) (hne : ms ≠ [])
    (ih : ∀ m ∈ ms, DocGoal lc m.2.2.2.2.1) :
    ∀ (t : Tok) (l : Loc) (sv : St) (_ : sv = .objectFieldStart ∨ sv = .objectFieldStartAfterSep)
      (kvs : List (Bytes × JVal)) (nm : Option Bytes) (rest : List Level),
      WF t → t.stack = ⟨.eatws, sv, .obj kvs, nm⟩ :: rest → NoVal t → t.hs = 0 → l.num = none →
      membersOk ms = true → (t.strict = true → membersFit ms = true) → membersKNF ms = true →
      rest.length + 1 + membersNest ms ≤ t.maxDepth →
      ∀ (c : UInt8) (off : Nat) (rs : Bytes), ∃ t' l',
        t'.stack = ⟨.eatws, .finish, .obj (membersDenote ms kvs), none⟩ :: rest ∧ Frm t t' ∧ l'.num = none ∧
        run lc t l c off (intercalateB 44 (membersText ms) ++ 125 :: rs) =
          run lc t' l' 125 (off + (intercalateB 44 (membersText ms)).length + 1) rs := by
  induction ms with
  | nil => exact absurd rfl hne
  | cons m r ihr =>
    obtain ⟨w1, k, w2, w3, d, w4⟩ := m
    intro t l sv hsv kvs nm rest hwf hs hv hhs hl0 hok hfit hknf hdepth c off rs
    simp only [membersOk, Bool.and_eq_true] at hok
    simp only [membersKNF, Bool.and_eq_true, Bool.not_eq_true'] at hknf
    simp only [membersNest] at hdepth
    have hfit' : t.strict = true → d.intsFit = true ∧ membersFit r = true := by
      intro h; have := hfit h; simpa [membersFit] using this
    have ihd : DocGoal lc d := ih (w1, k, w2, w3, d, w4) (by simp)
    have hkok : ∀ i ∈ k, i.ok = true := by
      intro i hi; exact (List.all_eq_true.mp hok.1.1) i hi
    have hkey : cstr (decodeItems k) = decodeItems k := cstr_of_nulfree _ hknf.1.1
    -- the part common to both continuations: up to the separator `s`
    have common : ∀ (s : UInt8) (_ : s = 44 ∨ s = 93 ∨ s = 125) (X : Bytes), ∃ t2 l2 c2,
        t2.stack = ⟨.eatws, .finish, d.denote, none⟩ :: ⟨.objectValueAdd, .objectValue, .obj kvs, some (decodeItems k)⟩ :: rest ∧
        Frm t t2 ∧ l2.num = none ∧
        run lc t l c off (w1.text ++ (strText k ++ (w2.text ++ 58 :: (w3.text ++ (d.text ++ (w4.text ++ s :: X)))))) =
          run lc t2 l2 c2 (off + w1.text.length + (strText k).length + w2.text.length + 1 + w3.text.length + d.text.length +
            w4.text.length) (s :: X) := by
      intro s hsep X
      rw [run_ws lc t l sv (.obj kvs) nm rest hs hv w1.text (ws_bytes_ws w1) c off _]
      obtain ⟨tn, hsn, fn, hrn⟩ := reaches_name lc t l sv hsv (.obj kvs) nm rest hs hv hhs k hkok
      rw [hrn, hkey] at *
      rw [run_ws lc tn l .objectFieldEnd (.obj kvs) (some (decodeItems k)) rest hsn (fn.noVal hv) w2.text (ws_bytes_ws w2)]
      have hc := colon_step lc tn l (fn.noVal hv) (.obj kvs) (some (decodeItems k)) rest hsn
        (lastOr (lastOr (lastOr c w1.text) (strText k)) w2.text) (off + w1.text.length + (strText k).length + w2.text.length)
        (w3.text ++ (d.text ++ (w4.text ++ s :: X)))
      simp only [List.cons_append, List.nil_append, lastOr, List.getLast?_singleton, Option.getD_some, List.length_singleton] at hc
      simp only [lastOr] at *
      rw [hc]
      let tc : Tok := { tn with stack := ⟨.eatws, .objectValue, .obj kvs, some (decodeItems k)⟩ :: rest }
      have fc : Frm t tc := ⟨fn.md, fn.fl, fn.hs⟩
      have hwfc : WF tc := wf_restack hwf hs rfl fn.md (topOk_objectValue _ _) (posOk_of_ne (by simp) (by simp) (by simp))
      obtain ⟨t2, l2, c2, hs2, f2, hl2, hrun⟩ := child_value lc d ihd w3 w4 tc l hwfc (fc.noVal hv) fc.hs hl0 .objectValue .objectValueAdd
        (Or.inr (Or.inr ⟨rfl, rfl⟩)) (.obj kvs) (some (decodeItems k)) rest rfl hok.1.2 (fun h => (hfit' (by rw [← fc.strict]; exact h)).1)
        hknf.1.2 (by rw [fc.md]; omega) s hsep X 58 (off + w1.text.length + (strText k).length + w2.text.length + 1)
      rw [hrun]
      exact ⟨t2, l2, c2, hs2, fc.trans f2, hl2, rfl⟩
    cases r with
    | nil =>
      have e0 : intercalateB 44 (membersText [(w1, k, w2, w3, d, w4)]) ++ 125 :: rs =
          w1.text ++ (strText k ++ (w2.text ++ 58 :: (w3.text ++ (d.text ++ (w4.text ++ 125 :: rs))))) := by
        simp [intercalateB, membersText]
      obtain ⟨t2, l2, c2, hs2, f2, hl2, hrun⟩ := common 125 (by simp) rs
      have h3 := after_member_close lc t2 l2 (f2.noVal hv) d.denote none .objectValue kvs (decodeItems k) rest hs2 c2
        (off + w1.text.length + (strText k).length + w2.text.length + 1 + w3.text.length + d.text.length + w4.text.length) rs
      simp only [List.cons_append, List.nil_append, lastOr, List.getLast?_singleton, Option.getD_some, List.length_singleton] at h3
      rw [e0, hrun, h3]
      have ed : membersDenote [(w1, k, w2, w3, d, w4)] kvs = Tokener.addOrReplace kvs (decodeItems k) d.denote := by
        simp [membersDenote, addOrReplace_eq]
      rw [ed]
      refine ⟨{ t2 with stack := ⟨.eatws, .finish, .obj (Tokener.addOrReplace kvs (decodeItems k) d.denote), none⟩ :: rest }, l2, rfl,
        ⟨f2.md, f2.fl, f2.hs⟩, hl2, ?_⟩
      simp only [intercalateB, membersText, List.length_append, List.length_cons]
      congr 1
      omega
    | cons m2 r2 =>
      have e0 : intercalateB 44 (membersText ((w1, k, w2, w3, d, w4) :: m2 :: r2)) ++ 125 :: rs =
          w1.text ++ (strText k ++ (w2.text ++ 58 :: (w3.text ++ (d.text ++ (w4.text ++ 44 ::
            (intercalateB 44 (membersText (m2 :: r2)) ++ 125 :: rs)))))) := by
        obtain ⟨a1, a2, a3, a4, a5, a6⟩ := m2
        simp [intercalateB, membersText]
      obtain ⟨t2, l2, c2, hs2, f2, hl2, hrun⟩ := common 44 (by simp) (intercalateB 44 (membersText (m2 :: r2)) ++ 125 :: rs)
      have h3 := after_member_comma lc t2 l2 (f2.noVal hv) d.denote none .objectValue kvs (decodeItems k) rest hs2 c2
        (off + w1.text.length + (strText k).length + w2.text.length + 1 + w3.text.length + d.text.length + w4.text.length)
        (intercalateB 44 (membersText (m2 :: r2)) ++ 125 :: rs)
      simp only [List.cons_append, List.nil_append, lastOr, List.getLast?_singleton, Option.getD_some, List.length_singleton] at h3
      let t3 : Tok := { t2 with stack := ⟨.eatws, .objectFieldStartAfterSep,
        .obj (Tokener.addOrReplace kvs (decodeItems k) d.denote), none⟩ :: rest }
      have f3 : Frm t t3 := ⟨f2.md, f2.fl, f2.hs⟩
      have hwf3 : WF t3 := wf_restack hwf hs rfl f2.md (topOk_container _ _ (Or.inr ⟨rfl, _, rfl⟩))
        (posOk_of_ne (by simp) (by simp) (by simp))
      obtain ⟨t4, l4, hs4, f4, hl4, hrun4⟩ := ihr (by simp) (fun e he => ih e (by simp [he])) t3 l2 .objectFieldStartAfterSep (Or.inr rfl)
        (Tokener.addOrReplace kvs (decodeItems k) d.denote) none rest hwf3 rfl (f3.noVal hv) f3.hs hl2 hok.2
        (fun h => (hfit' (by rw [← f3.strict]; exact h)).2) hknf.2
        (by rw [f3.md]; omega) 44
        (off + w1.text.length + (strText k).length + w2.text.length + 1 + w3.text.length + d.text.length + w4.text.length + 1) rs
      rw [e0, hrun, h3, hrun4]
      refine ⟨t4, l4, ?_, f3.trans f4, hl4, ?_⟩
      · rw [hs4]; simp [membersDenote, addOrReplace_eq]
      · obtain ⟨a1, a2, a3, a4, a5, a6⟩ := m2
        simp only [intercalateB, membersText, List.length_append, List.length_cons]
        congr 1
        omega

end JsonC.Tokener
