/-
  Constructors, as translated from the current C source (Generated/Translated.lean):
  `json_tokener_new_ex` (C15: a depth below 1 is refused before anything is allocated; the level stack is requested as
  exactly `calloc(depth, sizeof(struct json_tokener_srec))` - the element count is the limit itself, not wrapped or capped;
  every failure path releases what was allocated before it), `printbuf_new` (C19: 32 bytes, empty, NUL-terminated - the model's
  `new`), `array_list_new2` (C07: the model's `new2`).
-/
import JsonC.Model.Printbuf
import JsonC.Model.Arraylist
import JsonC.Lemmas.TranslatedAl
namespace JsonC.TranslatedCtor
open JsonC JsonC.Generated JsonC.CSem JsonC.TranslatedPb

/-- how often `name` occurs in a trace -/
def cnt (name : String) (tr : List (String × List Int)) : Nat := (tr.filter (fun c => c.1 == name)).length

/-- `json_tokener_new_ex(depth)` with `depth < 1`: NULL, and nothing was allocated -/
theorem tokener_new_refuses (depth ts tp tm u1 c2 c3 c4 h5 h6 h7 h8 h9 h10 h11 h12 h13 : Int) (h : depth < 1) :
    Translated.json_tokener_new_ex depth ts tp tm u1 c2 c3 c4 h5 h6 h7 h8 h9 h10 h11 h12 h13 =
      .ok { ret := 0, tok_stack := ts, tok_pb := tp, tok_max_depth := tm, calls := [] } := by
  unfold Translated.json_tokener_new_ex
  rw [if_pos h]; rfl

/-- `depth >= 1`: the requests are `calloc(1, sizeof(struct json_tokener))`, then `calloc(depth, sizeof(struct
json_tokener_srec))` with the limit itself as the element count, then `printbuf_new()`; the result is NULL exactly when one of
them fails, and then every block obtained before the failure was freed; on success the tokener is the first block and
`json_tokener_reset` was called on it -/
theorem tokener_new_requests (depth ts tp tm u1 c2 c3 c4 h5 h6 h7 h8 h9 h10 h11 h12 h13 : Int)
    (h1 : 1 ≤ depth) (h2 : depth ≤ 2147483647) :
    ∃ out, Translated.json_tokener_new_ex depth ts tp tm u1 c2 c3 c4 h5 h6 h7 h8 h9 h10 h11 h12 h13 = .ok out ∧
      (out.ret ≠ 0 ↔ (c2 ≠ 0 ∧ c3 ≠ 0 ∧ c4 ≠ 0)) ∧
      (out.ret ≠ 0 → out.ret = c2 ∧ out.calls = [("calloc", [1, ((sizeofJsonTokener : Nat) : Int)]), ("calloc", [depth, ((sizeofJsonTokenerSrec : Nat) : Int)]),
          ("printbuf_new", []), ("json_tokener_reset", [c2])]) ∧
      (c2 ≠ 0 → ("calloc", [depth, ((sizeofJsonTokenerSrec : Nat) : Int)]) ∈ out.calls) ∧
      (out.ret = 0 → cnt "free" out.calls = (if c2 ≠ 0 then 1 else 0) + (if c2 ≠ 0 ∧ c3 ≠ 0 then 1 else 0)) := by
  unfold Translated.json_tokener_new_ex
  rw [if_neg (by omega)]
  have hd : depth % 18446744073709551616 = depth := by omega
  simp only [hd]
  by_cases a2 : c2 ≠ 0 <;> by_cases a3 : c3 ≠ 0 <;> by_cases a4 : c4 ≠ 0 <;>
    simp [a2, a3, a4, cnt, sizeofJsonTokener, sizeofJsonTokenerSrec, List.filter]

/-- `printbuf_new`: the model's `new` (32 bytes, `bpos = 0`, `buf[0] = 0`), or NULL with the header freed when the buffer
cannot be had, or NULL with nothing allocated -/
theorem printbuf_new_agrees (ps pb pbuf u1 c2 c3 h4 h5 h6 : Int) :
    ∃ out, Translated.printbuf_new ps pb pbuf u1 c2 c3 h4 h5 h6 = .ok out ∧
      (out.ret ≠ 0 ↔ (c2 ≠ 0 ∧ c3 ≠ 0)) ∧
      (out.ret ≠ 0 → out.ret = c2 ∧ out.p_size = ((pbInitSize : Nat) : Int) ∧ out.p_bpos = 0 ∧ out.p_buf = c3 ∧
        out.calls = [("calloc", [1, ((sizeofPrintbuf : Nat) : Int)]), ("malloc", [((pbInitSize : Nat) : Int)]), ("store1", [c3 + 0, 0])]) ∧
      (c2 ≠ 0 → c3 = 0 → out.calls = [("calloc", [1, ((sizeofPrintbuf : Nat) : Int)]), ("malloc", [((pbInitSize : Nat) : Int)]), ("free", [c2])]) := by
  unfold Translated.printbuf_new
  by_cases a2 : c2 ≠ 0 <;> by_cases a3 : c3 ≠ 0 <;> simp [a2, a3, pbInitSize, sizeofPrintbuf]

/-- `array_list_new2`: refused exactly when the model refuses (negative, or `>= SIZE_T_MAX / sizeof(void *)` slots), otherwise the
header and `initial_size * sizeof(void *)` bytes are requested, and the model's fields are stored -/
theorem new2_agrees (alloc : Arraylist.Alloc) (n : Int) (hn : -2147483648 ≤ n ∧ n ≤ 2147483647)
    (fp as al af aa u1 c2 c4 h5 h6 h7 h8 : Int) (r : Option Arraylist.Al) (h : Arraylist.new2 alloc n = .ok r)
    (hc2 : c2 ≠ 0) (hc4 : c4 ≠ 0 ↔ r.isSome) :
    ∃ out, Translated.array_list_new2 fp n as al af aa u1 c2 c4 h5 h6 h7 h8 = .ok out ∧
      (out.ret ≠ 0 ↔ r.isSome) ∧
      (∀ a, r = some a → out.ret = c2 ∧ out.arr_size = a.size ∧ out.arr_length = a.length ∧ out.arr_free_fn = fp ∧
        out.calls = [("malloc", [((sizeofArrayList : Nat) : Int)]), ("malloc", [(a.size : Int) * 8])]) := by
  unfold Arraylist.new2 at h
  unfold Translated.array_list_new2
  simp only [Arraylist.SIZE_T_MAX, sizeMax, Arraylist.PTR, sizeofPtr, TranslatedAl.ckSize_bind, Nat.reduceDiv] at h
  split at h
  · rename_i hg
    cases h
    simp only [Option.isSome_none, Bool.false_eq_true, iff_false, Classical.not_not] at hc4
    by_cases hneg : n < 0
    · rw [if_pos hneg]; exact ⟨_, rfl, by simp, by intro a ha; cases ha⟩
    · rw [if_neg hneg]
      have : n % 18446744073709551616 ≥ 2305843009213693951 := by omega
      rw [if_pos this]; exact ⟨_, rfl, by simp, by intro a ha; cases ha⟩
  · rename_i hg
    rw [if_neg (by omega), if_neg (by omega)]
    rw [if_pos hc2]
    have hm : n % 18446744073709551616 = n := by omega
    simp only [hm]
    split at h
    · split at h
      · cases h
        have h4 : c4 ≠ 0 := hc4.mpr rfl
        rw [if_pos h4]
        refine ⟨_, rfl, by simp [hc2], ?_⟩
        intro a ha; cases ha
        refine ⟨rfl, by simp; omega, rfl, rfl, ?_⟩
        simp [sizeofArrayList]; omega
      · cases h
        have h4 : ¬ c4 ≠ 0 := fun hc => by have := hc4.mp hc; simp at this
        rw [if_neg h4]
        exact ⟨_, rfl, by simp, by intro a ha; cases ha⟩
    · cases h
end JsonC.TranslatedCtor
