/-
  The transition structure of `json_tokener_parse_ex` that the hand-written model
  (`Model/Tokener.lean`) was written against: for every `case json_tokener_state_X:` group of the
  switch, the states it may assign to `state` (plus `state=saved_state`, `depth++`, `depth--`), the
  states it may assign to `saved_state`, and the error codes it may set.  `Generated.tokCases` is the
  same table extracted from /repo's current `json_tokener.c` on every run (tools/extract/st_tok.py);
  `tok_structure_as_modelled` (Props/C04.lean) compares the two.  A new transition, a dropped one or
  a new error exit in the C code therefore breaks a proof obligation even if no generated input
  happens to exercise it; the model's dispatch functions `d*` realise exactly these transitions
  (`dFinish` combines `finish` with the parent's `array_add` / `object_value_add`).
-/
namespace JsonC.Tokener

def expectedTokCases : List (List String × List String × List String × List String) := [
  (["array", "array_after_sep"], ["array_add", "eatws", "depth++"], ["finish"], ["depth", "parse_unexpected"]),
  (["array_add"], ["eatws"], ["array_sep"], ["memory"]),
  (["array_sep"], ["eatws"], ["array_after_sep", "finish"], ["parse_array"]),
  (["boolean"], ["eatws"], ["finish"], ["memory", "parse_boolean"]),
  (["comment"], ["comment_end"], [], []),
  (["comment_end"], ["comment", "eatws"], [], []),
  (["comment_eol"], ["eatws"], [], []),
  (["comment_start"], ["comment", "comment_eol"], [], ["parse_comment"]),
  (["eatws"], ["comment_start", "state=saved_state"], [], []),
  (["escape_unicode"], ["escape_unicode_need_escape", "state=saved_state"], [], ["parse_string"]),
  (["escape_unicode_need_escape"], ["escape_unicode_need_u", "state=saved_state"], [], []),
  (["escape_unicode_need_u"], ["escape_unicode", "string_escape"], [], []),
  (["finish"], ["depth--"], [], []),
  (["inf"], ["eatws"], ["finish"], ["memory", "parse_unexpected"]),
  (["null"], ["eatws"], ["finish"], ["memory", "parse_null"]),
  (["number"], ["eatws", "inf"], ["finish"], ["memory", "parse_number"]),
  (["object_field"], ["eatws", "string_escape"], ["object_field", "object_field_end"], ["memory", "parse_string"]),
  (["object_field_end"], ["eatws"], ["object_value"], ["parse_object_key_sep"]),
  (["object_field_start", "object_field_start_after_sep"], ["eatws", "object_field"], ["finish"], ["parse_object_key_name", "parse_unexpected"]),
  (["object_sep"], ["eatws"], ["finish", "object_field_start_after_sep"], ["parse_object_value_sep"]),
  (["object_value"], ["object_value_add", "depth++"], [], ["depth"]),
  (["object_value_add"], ["eatws"], ["object_sep"], ["memory"]),
  (["start"], ["boolean", "eatws", "inf", "null", "number", "string"], ["array", "object_field_start"], ["memory", "parse_unexpected"]),
  (["string"], ["eatws", "string_escape"], ["finish", "string"], ["memory", "parse_string"]),
  (["string_escape"], ["escape_unicode", "state=saved_state"], [], ["parse_string"])]

def expectedTokEpilogueErrs : List String := ["parse_eof", "parse_unexpected", "parse_utf8_string"]

end JsonC.Tokener
