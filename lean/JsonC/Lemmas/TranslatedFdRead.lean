/-
  Resource discipline of `json_object_from_fd_ex` (json_util.c), proved on the definition translated from the current C
  source, for EVERY behaviour of the outside world (any answers of read, printbuf_memappend, the tokener, strerror; any
  number of loop iterations): whenever the call returns, the print buffer it created was released exactly once, the
  tokener exactly once if it was created at all, nothing is released that was not created, and a non-NULL result is the
  very pointer `json_tokener_parse_ex` returned.  This is C20's "without leaking" clause as a theorem about the code itself
  rather than about the hand-written model.  (The statements list every parameter of the generated definitions; they are
  copied from the generated signatures; when the reference translation changes they are rewritten from it.)
-/
import JsonC.Generated.Translated
namespace JsonC.TranslatedFdRead
open JsonC JsonC.CSem

/-- how often the function `name` occurs in a trace -/
def cnt (name : String) (tr : List (String × List Int)) : Nat := (tr.filter (fun c => c.1 == name)).length

@[simp] theorem cnt_nil (n : String) : cnt n [] = 0 := rfl
@[simp] theorem cnt_append (n : String) (a b : List (String × List Int)) : cnt n (a ++ b) = cnt n a + cnt n b := by
  simp [cnt, List.filter_append]
@[simp] theorem cnt_single (n m : String) (args : List Int) : cnt n [(m, args)] = if m == n then 1 else 0 := by
  simp [cnt, List.filter]; split <;> simp_all

@[simp] theorem cnt_cons (n m : String) (args : List Int) (rest : List (String × List Int)) :
    cnt n ((m, args) :: rest) = (if m == n then 1 else 0) + cnt n rest := by
  simp [cnt, List.filter]; split <;> simp_all <;> omega

/-- the loop and everything after it: one `json_tokener_free`, one `printbuf_free`, no creation -/
theorem loop_releases (u1_pb : Int) (u2_obj : Int) (u3_ret : Int) (u4_tok : Int) (c5_printbuf_new : Int) (h6_errno : Int) (c7_json_tokener_new_ex : Int) (fuel : Nat) (h8_errno : Int) (c9__json_c_strerror : Int) (h10_errno : Int) (h11_errno : Int) (h12_errno : Int) (h13_pb_buf : Int) (h14_pb_bpos : Int) (h15_errno : Int) (c16_json_tokener_parse_ex : Int) (h17_errno : Int) (h18_errno : Int) (h19_pb_buf : Int) (h20_pb_bpos : Int) (h21_errno : Int) (c22_json_tokener_get_error : Int) (h23_errno : Int) (c24_json_tokener_error_desc : Int) (h25_errno : Int) (h26_errno : Nat → Int) (c27_read : Nat → Int) (h29_errno : Nat → Int) (h30_pb_buf : Nat → Int) (h31_pb_bpos : Nat → Int) (c32_printbuf_memappend : Nat → Int) (h33_errno : Nat → Int) (c34__json_c_strerror : Nat → Int) (h35_errno : Nat → Int) (h36_errno : Nat → Int) (h37_errno : Nat → Int) (h38_pb_buf : Nat → Int) (h39_pb_bpos : Nat → Int) (h40_errno : Int) (c41__json_c_strerror : Int) (h42_errno : Int) (h43_errno : Int) (h44_pb_buf : Int) (h45_pb_bpos : Int) (h46_errno : Int) (c2l_fuel0 : Nat) (c2l_it : Nat) (fd : Int) (in_depth : Int) (errno : Int) (pb_buf : Int) (pb_bpos : Int) (tr : List (String × List Int)) (pb : Int) (obj : Int) (buf : Int) (ret : Int) (depth : Int) (tok : Int)
    (out : Translated.json_object_from_fd_ex.Out)
    (h : Translated.json_object_from_fd_ex.loop1 u1_pb u2_obj u3_ret u4_tok c5_printbuf_new h6_errno c7_json_tokener_new_ex fuel h8_errno c9__json_c_strerror h10_errno h11_errno h12_errno h13_pb_buf h14_pb_bpos h15_errno c16_json_tokener_parse_ex h17_errno h18_errno h19_pb_buf h20_pb_bpos h21_errno c22_json_tokener_get_error h23_errno c24_json_tokener_error_desc h25_errno h26_errno c27_read h29_errno h30_pb_buf h31_pb_bpos c32_printbuf_memappend h33_errno c34__json_c_strerror h35_errno h36_errno h37_errno h38_pb_buf h39_pb_bpos h40_errno c41__json_c_strerror h42_errno h43_errno h44_pb_buf h45_pb_bpos h46_errno c2l_fuel0 c2l_it fd in_depth errno pb_buf pb_bpos tr pb obj buf ret depth tok = .ok out) :
    cnt "json_tokener_free" out.calls = cnt "json_tokener_free" tr + 1 ∧
    cnt "printbuf_free" out.calls = cnt "printbuf_free" tr + 1 ∧
    cnt "printbuf_new" out.calls = cnt "printbuf_new" tr ∧
    cnt "json_tokener_new_ex" out.calls = cnt "json_tokener_new_ex" tr ∧
    (out.ret ≠ 0 → out.ret = c16_json_tokener_parse_ex) := by
  induction c2l_fuel0 generalizing c2l_it errno pb_buf pb_bpos tr ret obj out with
  | zero => simp [Translated.json_object_from_fd_ex.loop1, CSem.outOfFuel] at h
  | succ f ih =>
    unfold Translated.json_object_from_fd_ex.loop1 at h
    simp only [] at h
    split at h
    · split at h
      · cases h; simp
      · have := ih _ _ _ _ _ _ _ _ h
        simpa [Nat.add_comm, Nat.add_left_comm, Nat.add_assoc] using this
    · unfold Translated.json_object_from_fd_ex.j2 Translated.json_object_from_fd_ex.j1 at h
      simp only [] at h
      repeat' split at h
      all_goals (cases h; simp)

/-- from `json_tokener_new_ex` on -/
theorem j4_releases (u1_pb : Int) (u2_obj : Int) (u3_ret : Int) (u4_tok : Int) (c5_printbuf_new : Int) (h6_errno : Int) (c7_json_tokener_new_ex : Int) (fuel : Nat) (h8_errno : Int) (c9__json_c_strerror : Int) (h10_errno : Int) (h11_errno : Int) (h12_errno : Int) (h13_pb_buf : Int) (h14_pb_bpos : Int) (h15_errno : Int) (c16_json_tokener_parse_ex : Int) (h17_errno : Int) (h18_errno : Int) (h19_pb_buf : Int) (h20_pb_bpos : Int) (h21_errno : Int) (c22_json_tokener_get_error : Int) (h23_errno : Int) (c24_json_tokener_error_desc : Int) (h25_errno : Int) (h26_errno : Nat → Int) (c27_read : Nat → Int) (h29_errno : Nat → Int) (h30_pb_buf : Nat → Int) (h31_pb_bpos : Nat → Int) (c32_printbuf_memappend : Nat → Int) (h33_errno : Nat → Int) (c34__json_c_strerror : Nat → Int) (h35_errno : Nat → Int) (h36_errno : Nat → Int) (h37_errno : Nat → Int) (h38_pb_buf : Nat → Int) (h39_pb_bpos : Nat → Int) (h40_errno : Int) (c41__json_c_strerror : Int) (h42_errno : Int) (h43_errno : Int) (h44_pb_buf : Int) (h45_pb_bpos : Int) (h46_errno : Int) (fd : Int) (in_depth : Int) (errno : Int) (pb_buf : Int) (pb_bpos : Int) (tr : List (String × List Int)) (pb : Int) (obj : Int) (buf : Int) (ret : Int) (depth : Int) (tok : Int)
    (out : Translated.json_object_from_fd_ex.Out)
    (h : Translated.json_object_from_fd_ex.j4 u1_pb u2_obj u3_ret u4_tok c5_printbuf_new h6_errno c7_json_tokener_new_ex fuel h8_errno c9__json_c_strerror h10_errno h11_errno h12_errno h13_pb_buf h14_pb_bpos h15_errno c16_json_tokener_parse_ex h17_errno h18_errno h19_pb_buf h20_pb_bpos h21_errno c22_json_tokener_get_error h23_errno c24_json_tokener_error_desc h25_errno h26_errno c27_read h29_errno h30_pb_buf h31_pb_bpos c32_printbuf_memappend h33_errno c34__json_c_strerror h35_errno h36_errno h37_errno h38_pb_buf h39_pb_bpos h40_errno c41__json_c_strerror h42_errno h43_errno h44_pb_buf h45_pb_bpos h46_errno fd in_depth errno pb_buf pb_bpos tr pb obj buf ret depth tok = .ok out) :
    cnt "printbuf_new" out.calls = cnt "printbuf_new" tr ∧
    cnt "printbuf_free" out.calls = cnt "printbuf_free" tr + 1 ∧
    cnt "json_tokener_new_ex" out.calls = cnt "json_tokener_new_ex" tr + 1 ∧
    cnt "json_tokener_free" out.calls = cnt "json_tokener_free" tr + (if c7_json_tokener_new_ex ≠ 0 then 1 else 0) ∧
    (out.ret ≠ 0 → out.ret = c16_json_tokener_parse_ex) := by
  unfold Translated.json_object_from_fd_ex.j4 at h
  simp only [] at h
  by_cases ht : c7_json_tokener_new_ex ≠ 0
  · rw [if_pos ht] at h
    have := loop_releases _ _ _ _ _ _ _ _ _ _ _ _ _ _ _ _ _ _ _ _ _ _ _ _ _ _ _ _ _ _ _ _ _ _ _ _ _ _ _ _ _ _ _ _ _ _ _ _ _ _ _ _ _ _ _ _ _ _ _ _ out h
    obtain ⟨h1, h2, h3, h4, h5⟩ := this
    simp at h1 h2 h3 h4
    simp only [ht, ne_eq, not_false_eq_true, if_true]
    exact ⟨by omega, by omega, by omega, by omega, h5⟩
  · rw [if_neg ht] at h
    cases h
    simp [ht]

/-- the whole function -/
theorem from_fd_ex_releases (fd : Int) (in_depth : Int) (errno : Int) (pb_buf : Int) (pb_bpos : Int) (u1_pb : Int) (u2_obj : Int) (u3_ret : Int) (u4_tok : Int) (c5_printbuf_new : Int) (h6_errno : Int) (c7_json_tokener_new_ex : Int) (fuel : Nat) (h8_errno : Int) (c9__json_c_strerror : Int) (h10_errno : Int) (h11_errno : Int) (h12_errno : Int) (h13_pb_buf : Int) (h14_pb_bpos : Int) (h15_errno : Int) (c16_json_tokener_parse_ex : Int) (h17_errno : Int) (h18_errno : Int) (h19_pb_buf : Int) (h20_pb_bpos : Int) (h21_errno : Int) (c22_json_tokener_get_error : Int) (h23_errno : Int) (c24_json_tokener_error_desc : Int) (h25_errno : Int) (h26_errno : Nat → Int) (c27_read : Nat → Int) (h29_errno : Nat → Int) (h30_pb_buf : Nat → Int) (h31_pb_bpos : Nat → Int) (c32_printbuf_memappend : Nat → Int) (h33_errno : Nat → Int) (c34__json_c_strerror : Nat → Int) (h35_errno : Nat → Int) (h36_errno : Nat → Int) (h37_errno : Nat → Int) (h38_pb_buf : Nat → Int) (h39_pb_bpos : Nat → Int) (h40_errno : Int) (c41__json_c_strerror : Int) (h42_errno : Int) (h43_errno : Int) (h44_pb_buf : Int) (h45_pb_bpos : Int) (h46_errno : Int)
    (out : Translated.json_object_from_fd_ex.Out)
    (h : Translated.json_object_from_fd_ex fd in_depth errno pb_buf pb_bpos u1_pb u2_obj u3_ret u4_tok c5_printbuf_new h6_errno c7_json_tokener_new_ex fuel h8_errno c9__json_c_strerror h10_errno h11_errno h12_errno h13_pb_buf h14_pb_bpos h15_errno c16_json_tokener_parse_ex h17_errno h18_errno h19_pb_buf h20_pb_bpos h21_errno c22_json_tokener_get_error h23_errno c24_json_tokener_error_desc h25_errno h26_errno c27_read h29_errno h30_pb_buf h31_pb_bpos c32_printbuf_memappend h33_errno c34__json_c_strerror h35_errno h36_errno h37_errno h38_pb_buf h39_pb_bpos h40_errno c41__json_c_strerror h42_errno h43_errno h44_pb_buf h45_pb_bpos h46_errno = .ok out) :
    cnt "printbuf_new" out.calls = 1 ∧
    cnt "printbuf_free" out.calls = (if c5_printbuf_new ≠ 0 then 1 else 0) ∧
    cnt "json_tokener_new_ex" out.calls = (if c5_printbuf_new ≠ 0 then 1 else 0) ∧
    cnt "json_tokener_free" out.calls = (if c5_printbuf_new ≠ 0 ∧ c7_json_tokener_new_ex ≠ 0 then 1 else 0) ∧
    (out.ret ≠ 0 → out.ret = c16_json_tokener_parse_ex) := by
  unfold Translated.json_object_from_fd_ex at h
  simp only [] at h
  by_cases hp : c5_printbuf_new ≠ 0
  · rw [if_pos hp] at h
    split at h
    all_goals
      have := j4_releases _ _ _ _ _ _ _ _ _ _ _ _ _ _ _ _ _ _ _ _ _ _ _ _ _ _ _ _ _ _ _ _ _ _ _ _ _ _ _ _ _ _ _ _ _ _ _ _ _ _ _ _ _ _ _ _ _ _ out h
      obtain ⟨h1, h2, h3, h4, h5⟩ := this
      simp at h1 h2 h3 h4
      simp only [hp, ne_eq, not_false_eq_true, if_true, true_and]
      refine ⟨by omega, by omega, by omega, ?_, h5⟩
      rw [h4]
      split <;> simp_all
  · rw [if_neg hp] at h
    cases h
    simp [hp]
end JsonC.TranslatedFdRead
